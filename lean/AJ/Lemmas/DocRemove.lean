/- Removal of an element / a member from a chain of the slot-level document store `DL.Doc`: the chain is unlinked
   (`Lk_unlink`), the detached tree is released (`free_detached`), the rest of the document is framed (`wfg_frame`).
   Used by AJ/Props/C04Rem.lean. -/
import AJ.Lemmas.DocPair
namespace DL
open JD (Byte Val)

/-! ## Forest surgery: erasing one top-level tree -/
namespace Forest

/-- top-level value slots (elements, member values) in link order -/
def tl : Forest → List Nat | nil => [] | cons _ i _ r => i :: tl r
/-- erase the top-level tree whose value slot is `i` (with its key slot and everything below) -/
def eraseTop : Forest → Nat → Forest
  | nil, _ => nil
  | cons k j s r, i => if j = i then r else cons k j s (eraseTop r i)
/-- the top-level tree whose value slot is `i`, as a one-tree forest -/
def treeF : Forest → Nat → Forest
  | nil, _ => nil
  | cons k j s r, i => if j = i then cons k j s nil else treeF r i
/-- value slot of the element linked in front of the tree of `i` (`p` when the tree is the first one) -/
def predFrom (p : Option Nat) : Forest → Nat → Option Nat
  | nil, _ => none
  | cons _ j _ r, i => if j = i then p else predFrom (some j) r i
/-- key slot of the top-level tree whose value slot is `i` -/
def keyOfTop : Forest → Nat → Option Nat
  | nil, _ => none
  | cons k j _ r, i => if j = i then k else keyOfTop r i

theorem tl_sub_locs (F : Forest) : ∀ x ∈ F.tl, x ∈ F.locs := by
  induction F with
  | nil => intro x h; cases h
  | cons k j s r _ ihr =>
    intro x h
    simp only [tl, List.mem_cons] at h
    simp only [locs, List.mem_cons, List.mem_append]
    rcases h with h | h
    · exact Or.inl h
    · exact Or.inr (Or.inr (ihr x h))

theorem tl_sub_top (F : Forest) : ∀ x ∈ F.tl, x ∈ F.top := by
  induction F with
  | nil => intro x h; cases h
  | cons k j s r _ ihr =>
    intro x h
    simp only [tl, List.mem_cons] at h
    simp only [top, List.mem_cons, List.mem_append]
    rcases h with h | h
    · exact Or.inr (Or.inl h)
    · exact Or.inr (Or.inr (ihr x h))

theorem tl_sub_ids (F : Forest) : ∀ x ∈ F.tl, x ∈ F.ids := fun x h => F.locs_sub_ids x (F.tl_sub_locs x h)

theorem treeF_ids_sub (F : Forest) (i : Nat) : ∀ x ∈ (F.treeF i).ids, x ∈ F.ids := by
  induction F with
  | nil => intro x h; cases h
  | cons k j s r _ ihr =>
    intro x h
    simp only [treeF] at h
    split at h
    · simp only [ids, List.mem_append, List.mem_cons, List.append_nil] at h ⊢
      rcases h with h | h | h
      · exact Or.inl h
      · exact Or.inr (Or.inl h)
      · exact Or.inr (Or.inr (Or.inl h))
    · have := ihr x h
      simp only [ids, List.mem_append, List.mem_cons]
      exact Or.inr (Or.inr (Or.inr this))

/-- the slots of the chain split into those of the erased tree and those that stay -/
theorem ids_perm_erase (F : Forest) (i : Nat) : List.Perm F.ids ((F.treeF i).ids ++ (F.eraseTop i).ids) := by
  induction F with
  | nil => exact List.Perm.refl _
  | cons k j s r _ ihr =>
    simp only [treeF, eraseTop]
    split
    · simp only [ids, List.append_nil, List.append_assoc, List.cons_append]
      exact List.Perm.refl _
    · have e1 : ∀ X : List Nat, keyL k ++ j :: (s.ids ++ X) = (keyL k ++ j :: s.ids) ++ X := by
        intro X; simp
      simp only [ids]
      rw [e1, e1]
      refine ((List.Perm.append_left _ ihr)).trans ?_
      rw [← List.append_assoc, ← List.append_assoc]
      exact List.Perm.append_right _ List.perm_append_comm

theorem nodup_eraseTop {F : Forest} (i : Nat) (h : F.ids.Nodup) : (F.eraseTop i).ids.Nodup :=
  (List.nodup_append.1 ((F.ids_perm_erase i).nodup_iff.1 h)).2.1

theorem mem_ids_eraseTop {F : Forest} (i : Nat) (h : F.ids.Nodup) (x : Nat) :
    x ∈ (F.eraseTop i).ids ↔ x ∈ F.ids ∧ x ∉ (F.treeF i).ids := by
  have hp := F.ids_perm_erase i
  obtain ⟨_, _, hd⟩ := List.nodup_append.1 (hp.nodup_iff.1 h)
  rw [hp.mem_iff, List.mem_append]
  constructor
  · intro hx; exact ⟨Or.inr hx, fun m => hd x m x hx rfl⟩
  · rintro ⟨hx | hx, hn⟩
    · exact absurd hx hn
    · exact hx

theorem eraseTop_ids_sub (F : Forest) (i : Nat) : ∀ x ∈ (F.eraseTop i).ids, x ∈ F.ids := fun _ hx =>
  (F.ids_perm_erase i).mem_iff.2 (List.mem_append_right _ hx)

/-- the erased tree: its value slot is `i`, its layout is the layout below `i` -/
theorem treeF_eq {F : Forest} {i : Nat} (hnd : F.ids.Nodup) (hi : i ∈ F.tl) :
    F.treeF i = cons (F.keyOfTop i) i (F.subOf i) nil := by
  induction F with
  | nil => cases hi
  | cons k j s r _ ihr =>
    obtain ⟨_, ndr, _, _, nsr, _⟩ := nodup_cons hnd
    simp only [treeF, keyOfTop, subOf]
    by_cases hji : j = i
    · subst hji; simp only [if_true]
    · simp only [if_neg hji]
      simp only [tl, List.mem_cons] at hi
      have hir : i ∈ r.tl := hi.resolve_left (Ne.symm hji)
      have his : i ∉ s.locs := fun m => nsr i (s.locs_sub_ids i m) (r.tl_sub_ids i hir)
      rw [if_neg his]
      exact ihr ndr hir

theorem treeF_ids {F : Forest} {i : Nat} (hnd : F.ids.Nodup) (hi : i ∈ F.tl) :
    (F.treeF i).ids = keyL (F.keyOfTop i) ++ i :: (F.subOf i).ids := by
  rw [treeF_eq hnd hi]; simp [ids]

theorem keyOfTop_sub_ids (F : Forest) (i : Nat) : ∀ q ∈ keyL (F.keyOfTop i), q ∈ F.ids := by
  induction F with
  | nil => intro q h; cases h
  | cons k j s r _ ihr =>
    intro q h
    simp only [keyOfTop] at h
    simp only [ids, List.mem_append, List.mem_cons]
    split at h
    · exact Or.inl h
    · exact Or.inr (Or.inr (Or.inr (ihr q h)))

theorem predFrom_mem (F : Forest) (i : Nat) : ∀ (p : Option Nat) (q : Nat), F.predFrom p i = some q → p = some q ∨ q ∈ F.tl := by
  induction F with
  | nil => intro p q h; cases h
  | cons k j s r _ ihr =>
    intro p q h
    simp only [predFrom] at h
    split at h
    · exact Or.inl h
    · rcases ihr (some j) q h with e | m
      · simp only [Option.some.injEq] at e
        exact Or.inr (by simp [tl, e])
      · exact Or.inr (by simp [tl, m])

/-- the predecessor is not a slot of the erased tree -/
theorem predFrom_notin_tree {F : Forest} {i : Nat} (hnd : F.ids.Nodup) :
    ∀ (p : Option Nat) (q : Nat), F.predFrom p i = some q → p ≠ some q → q ∈ F.tl ∧ q ∉ (F.treeF i).ids := by
  induction F with
  | nil => intro p q h; cases h
  | cons k j s r _ ihr =>
    intro p q h hp
    obtain ⟨_, ndr, _, njr, nsr, nk⟩ := nodup_cons hnd
    simp only [predFrom] at h
    simp only [treeF]
    split at h
    · exact absurd h hp
    · rename_i hji
      rw [if_neg hji]
      by_cases hq : some j = some q
      · simp only [Option.some.injEq] at hq; subst hq
        exact ⟨by simp [tl], fun m => njr (r.treeF_ids_sub i j m)⟩
      · obtain ⟨a, b⟩ := ihr ndr (some j) q h hq
        exact ⟨by simp [tl, a], b⟩

theorem predFrom_cons_ne {k : Option Nat} {j : Nat} {s r : Forest} {i : Nat} (p : Option Nat) (h : j ≠ i) :
    (cons k j s r).predFrom p i = r.predFrom (some j) i := by
  simp only [predFrom, if_neg h]

/-- inside the chain (not at its head) the predecessor does not depend on what precedes the chain -/
theorem predFrom_indep {F : Forest} {i : Nat} (p p' : Option Nat) (h : ∀ k j s r, F = cons k j s r → j ≠ i) :
    F.predFrom p i = F.predFrom p' i := by
  cases F with
  | nil => rfl
  | cons k j s r => simp only [predFrom, if_neg (h k j s r rfl)]

theorem predFrom_some_of_mem {F : Forest} {i : Nat} (hi : i ∈ F.tl) (a : Nat) : ∃ q, F.predFrom (some a) i = some q := by
  induction F generalizing a with
  | nil => cases hi
  | cons k j s r _ ihr =>
    simp only [predFrom]
    split
    · exact ⟨a, rfl⟩
    · rename_i hji
      simp only [tl, List.mem_cons] at hi
      exact ihr (hi.resolve_left (Ne.symm hji)) j

/-- abstract members after the erasure -/
theorem vals_eraseTop (d : Doc) (o : Nat → Option Val) (F : Forest) (i : Nat) :
    vals d o (F.eraseTop i) = (vals d o F).eraseIdx (List.idxOf i F.tl) := by
  induction F with
  | nil => rfl
  | cons k j s r _ ihr =>
    simp only [eraseTop, tl, vals, List.idxOf_cons]
    by_cases hji : j = i
    · subst hji; simp
    · have : (j == i) = false := by simp [hji]
      simp only [if_neg hji, this, cond_false, List.eraseIdx_cons_succ, vals, ihr]

theorem top_eraseTop_sub (F : Forest) (i : Nat) : ∀ x ∈ (F.eraseTop i).top, x ∈ F.top := by
  induction F with
  | nil => intro x h; cases h
  | cons k j s r _ ihr =>
    intro x h
    simp only [eraseTop] at h
    simp only [top, List.mem_append, List.mem_cons]
    split at h
    · exact Or.inr (Or.inr h)
    · simp only [top, List.mem_append, List.mem_cons] at h
      rcases h with h | h | h
      · exact Or.inl h
      · exact Or.inr (Or.inl h)
      · exact Or.inr (Or.inr (ihr x h))

end Forest

/-! ## Unlinking one tree from a chain -/

theorem predFrom_cons (p : Option Nat) (k : Option Nat) (j : Nat) (s r : Forest) (i : Nat) :
    (Forest.cons k j s r).predFrom p i = if j = i then p else r.predFrom (some j) i := rfl

/-- `d1` is `d` except that the slot linked in front of the tree of `i` (if any) now points to the successor of `i`
    (cells of the erased tree are not constrained): the chain is laid out as the forest without that tree; its head is
    the successor of `i` when the tree was the first one. -/
theorem Lk_unlink {d d1 : Doc} {i : Nat} (hn : d1.null = d.null) :
    ∀ (s : Forest) {b : Bool} {h : Nat}, Lk d b h s → s.ids.Nodup → i ∈ s.tl →
      (∀ j ∈ s.ids, j ∉ (s.treeF i).ids → s.predFrom none i ≠ some j → d1.cell j = d.cell j) →
      (∀ p, s.predFrom none i = some p → d1.cell p = .var (d.get (.slot p)) (d.nextOf i)) →
      Lk d1 b (if (s.predFrom none i).isNone then d.nextOf i else h) (s.eraseTop i) := by
  intro s
  induction s with
  | nil => intro b h _ _ hi; cases hi
  | cons k j s0 r _ ihr =>
    intro b h hl hnd hi hoth hpred
    rw [Lk_cons] at hl
    obtain ⟨h1, h2, h3, h4, h5⟩ := hl
    obtain ⟨nds, ndr, njs, njr, nsr, nk⟩ := Forest.nodup_cons hnd
    by_cases hji : j = i
    · subst hji
      simp only [predFrom_cons, if_true, Option.isNone_none, Forest.eraseTop]
      refine Lk_congr r ⟨hn, fun x hx => hoth x (by simp [Forest.ids, hx]) ?_ (by simp [predFrom_cons])⟩ h4
      simp only [Forest.treeF, if_true, Forest.ids, List.append_nil, List.mem_append, List.mem_cons, not_or]
      exact ⟨fun m => (nk x m).2.2 hx, fun e => njr (e ▸ hx), fun m => nsr x m hx⟩
    · have hir : i ∈ r.tl := by
        simp only [Forest.tl, List.mem_cons] at hi
        exact hi.resolve_left (Ne.symm hji)
      have htree : (Forest.cons k j s0 r).treeF i = r.treeF i := by simp only [Forest.treeF, if_neg hji]
      rw [htree] at hoth
      have hpc : (Forest.cons k j s0 r).predFrom none i = r.predFrom (some j) i := by
        simp only [predFrom_cons, if_neg hji]
      rw [hpc] at hoth hpred ⊢
      obtain ⟨q, hq⟩ := Forest.predFrom_some_of_mem hir j
      have hqm : q = j ∨ q ∈ r.tl := by
        rcases Forest.predFrom_mem r i (some j) q hq with e | m
        · simp only [Option.some.injEq] at e; exact Or.inl e.symm
        · exact Or.inr m
      have hq_ne : ∀ x, (x ∈ Forest.keyL k ∨ x ∈ s0.ids) → q ≠ x := by
        intro x hx e; subst e
        rcases hqm with e | m
        · subst e
          rcases hx with hx | hx
          · exact (nk q hx).1 rfl
          · exact njs hx
        · rcases hx with hx | hx
          · exact (nk q hx).2.2 (r.tl_sub_ids q m)
          · exact nsr q hx (r.tl_sub_ids q m)
      have hnt : ∀ x, (x ∈ Forest.keyL k ∨ x = j ∨ x ∈ s0.ids) → x ∉ (r.treeF i).ids := by
        intro x hx m
        have hxr := r.treeF_ids_sub i x m
        rcases hx with hx | hx | hx
        · exact (nk x hx).2.2 hxr
        · exact njr (hx ▸ hxr)
        · exact nsr x hx hxr
      simp only [hq, Option.isNone_some, Bool.false_eq_true, if_false, Forest.eraseTop, if_neg hji]
      -- the cell of `j` and the rest of the chain
      have hrest : d1.isVar j ∧ d1.get (.slot j) = d.get (.slot j) ∧
          d1.nextOf j = (if (r.predFrom none i).isNone then d.nextOf i else d.nextOf j) ∧
          (∀ x ∈ r.ids, r.predFrom none i ≠ some x → r.predFrom (some j) i ≠ some x) ∧
          (∀ p, r.predFrom none i = some p → r.predFrom (some j) i = some p) := by
        cases r with
        | nil => cases hir
        | cons k' j' s' r' =>
          by_cases hj' : j' = i
          · have e1 : (Forest.cons k' j' s' r').predFrom (some j) i = some j := by simp only [predFrom_cons, if_pos hj']
            have e2 : (Forest.cons k' j' s' r').predFrom none i = none := by simp only [predFrom_cons, if_pos hj']
            have hc := hpred j e1
            rw [e1, e2]
            refine ⟨isVar_of_var hc, get_of_var hc, by rw [nextOf_of_var hc]; rfl, ?_, fun p hp => by cases hp⟩
            intro x hx _ e
            simp only [Option.some.injEq] at e
            exact njr (e ▸ hx)
          · have e1 : (Forest.cons k' j' s' r').predFrom (some j) i = (Forest.cons k' j' s' r').predFrom none i := by
              simp only [predFrom_cons, if_neg hj']
            have hqj : q ≠ j := by
              intro e
              rw [e1] at hq
              rcases Forest.predFrom_mem _ i none q hq with e' | m
              · cases e'
              · exact njr (e ▸ Forest.tl_sub_ids _ q m)
            have hc : d1.cell j = d.cell j := hoth j (by simp [Forest.ids]) (hnt j (Or.inr (Or.inl rfl)))
              (by rw [hq]; intro e; simp only [Option.some.injEq] at e; exact hqj e)
            rw [e1]
            refine ⟨isVar_congr hc hn h3, get_of_cell hc, ?_, fun _ _ hne => hne, fun _ hp => hp⟩
            rw [nextOf_of_cell hc hn, ← e1, hq]; rfl
      obtain ⟨hv1, hv2, hv3, hv4, hv5⟩ := hrest
      rw [Lk_cons]
      refine ⟨KeyOK_congr hn (fun x hx => hoth x (by simp [Forest.ids, hx]) (hnt x (Or.inl hx))
          (by rw [hq]; intro e; simp only [Option.some.injEq] at e; exact hq_ne x (Or.inl hx) e)) h1,
        hn ▸ h2, hv1, ?_, ?_⟩
      · rw [hv3]
        exact ihr h4 ndr hir
          (fun x hx hxt hxp => hoth x (by simp [Forest.ids, hx]) hxt (hv4 x hx hxp))
          (fun p hp => hpred p (hv5 p hp))
      · rw [hv2]
        refine VOK_congr ⟨hn, fun x hx => hoth x (by simp [Forest.ids, hx]) (hnt x (Or.inr (Or.inr hx))) ?_⟩ h5
        rw [hq]; intro e; simp only [Option.some.injEq] at e; exact hq_ne x (Or.inr hx) e

/-- the tail after the erasure: the predecessor when the erased tree was the last one, the old tail otherwise -/
theorem last_eraseTop {d : Doc} {i : Nat} :
    ∀ (s : Forest) {b : Bool} {h : Nat}, Lk d b h s → i ∈ s.tl → ∀ (p : Option Nat) (x : Nat),
      (s.eraseTop i).top.getLast?.getD (p.getD x) =
        if d.nextOf i = d.null then (s.predFrom p i).getD x else s.top.getLast?.getD (p.getD x) := by
  intro s
  induction s with
  | nil => intro b h _ hi; cases hi
  | cons k j s0 r _ ihr =>
    intro b h hl hi p x
    rw [Lk_cons] at hl
    obtain ⟨_, _, _, h4, _⟩ := hl
    by_cases hji : j = i
    · subst hji
      simp only [Forest.eraseTop, if_true, predFrom_cons]
      by_cases hr : r = .nil
      · subst hr
        have : d.nextOf j = d.null := (Lk_nil_iff h4).1 rfl
        simp only [this, if_true, Forest.top, List.getLast?_nil, Option.getD_none]
      · have : d.nextOf j ≠ d.null := fun e => hr ((Lk_nil_iff h4).2 e)
        rw [if_neg this, Forest.top_cons_last]
        obtain ⟨t, ht, _⟩ := Forest.top_ne_nil hr
        rw [ht]; rfl
    · have hir : i ∈ r.tl := by
        simp only [Forest.tl, List.mem_cons] at hi
        exact hi.resolve_left (Ne.symm hji)
      simp only [Forest.eraseTop, if_neg hji, predFrom_cons]
      rw [Forest.top_cons_last, Forest.top_cons_last]
      exact ihr h4 hir (some j) x

/-! ## Raw chains -/

/-- following `next` from `start` visits exactly `ids` and reaches the null id -/
def Ch (d : Doc) : Nat → List Nat → Prop
  | start, [] => start = d.null
  | start, x :: xs => start = x ∧ x ≠ d.null ∧ Ch d (d.nextOf x) xs

theorem Ch_of_Lk {d : Doc} (F : Forest) : ∀ {b : Bool} {h : Nat}, Lk d b h F → Ch d h F.top := by
  induction F with
  | nil => intro b h hl; rw [Lk_nil] at hl; exact hl
  | cons key i s r _ ihr =>
    intro b h hl
    rw [Lk_cons] at hl
    obtain ⟨h1, h2, _, h4, _⟩ := hl
    cases b <;> cases key <;> simp only [KeyOK] at h1
    · exact ⟨h1, h2, ihr h4⟩
    · obtain ⟨e, hk, _, _, hki⟩ := h1
      exact ⟨e, hk, by rw [hki]; exact ⟨rfl, h2, ihr h4⟩⟩

theorem chainF_of_Ch {d : Doc} : ∀ (L : List Nat) {h f : Nat}, Ch d h L → L.length ≤ f → d.chainF f h = L := by
  intro L
  induction L with
  | nil => intro h f hc _; simp only [Ch] at hc; subst hc; exact chainF_null d f
  | cons x xs ih =>
    intro h f hc hf
    obtain ⟨rfl, hx, hr⟩ := hc
    obtain ⟨f', rfl⟩ : ∃ f', f = f' + 1 := ⟨f - 1, by simp only [List.length_cons] at hf; omega⟩
    simp only [Doc.chainF, if_neg hx]
    rw [ih hr (by simp only [List.length_cons] at hf; omega)]

theorem Ch_congr {d d' : Doc} (hn : d'.null = d.null) : ∀ (L : List Nat) {h : Nat}, Ch d h L →
    (∀ x ∈ L, d'.nextOf x = d.nextOf x) → Ch d' h L := by
  intro L
  induction L with
  | nil => intro h hc _; simp only [Ch] at hc ⊢; rw [hn]; exact hc
  | cons x xs ih =>
    intro h hc hx
    obtain ⟨e, hne, hr⟩ := hc
    refine ⟨e, hn ▸ hne, ?_⟩
    rw [hx x (by simp)]
    exact ih hr (fun y hy => hx y (List.mem_cons_of_mem _ hy))

theorem prevIn_none {x : Nat} : ∀ (L : List Nat) (a : Nat), x ∉ L → prevIn x (a :: L) = none := by
  intro L
  induction L with
  | nil => intro a _; rfl
  | cons b L ih =>
    intro a hx
    simp only [List.mem_cons, not_or] at hx
    simp only [prevIn, if_neg (Ne.symm hx.1)]
    exact ih b hx.2

/-- `prevIn` along the top-level value slots of an array chain -/
theorem prevIn_tl {i : Nat} : ∀ (s : Forest) (a : Nat), (a :: s.tl).Nodup → i ∈ s.tl →
    prevIn i (a :: s.tl) = s.predFrom (some a) i := by
  intro s
  induction s with
  | nil => intro a _ hi; cases hi
  | cons k j s0 r _ ihr =>
    intro a hnd hi
    simp only [Forest.tl] at hnd hi ⊢
    simp only [prevIn, predFrom_cons]
    by_cases hji : j = i
    · simp only [if_pos hji]
    · simp only [if_neg hji]
      exact ihr j (List.nodup_cons.1 hnd).2 ((List.mem_cons.1 hi).resolve_left (Ne.symm hji))

theorem prevIn_tl_top {i : Nat} (s : Forest) (hnd : s.tl.Nodup) (hi : i ∈ s.tl) :
    prevIn i s.tl = s.predFrom none i := by
  cases s with
  | nil => cases hi
  | cons k j s0 r =>
    simp only [Forest.tl] at hnd hi ⊢
    simp only [predFrom_cons]
    by_cases hji : j = i
    · subst hji
      rw [if_pos rfl]
      exact prevIn_none _ _ (List.nodup_cons.1 hnd).1
    · rw [if_neg hji]
      exact prevIn_tl r j hnd ((List.mem_cons.1 hi).resolve_left (Ne.symm hji))

theorem tl_eq_top_arr {d : Doc} (F : Forest) : ∀ {h : Nat}, Lk d false h F → F.top = F.tl := by
  induction F with
  | nil => intro h _; rfl
  | cons key i s r _ ihr =>
    intro h hl
    rw [Lk_cons] at hl
    obtain ⟨h1, _, _, h4, _⟩ := hl
    cases key <;> simp only [KeyOK] at h1
    simp only [Forest.top, Forest.keyL, List.nil_append, Forest.tl, ihr h4]

/-! ## Collections of either kind -/

/-- the collection value of kind `b` (`false`: array, `true`: object) -/
def mkC : Bool → Nat → Nat → VData
  | false, h, t => .arr h t
  | true, h, t => .obj h t

theorem VOK_mkC (d : Doc) (b : Bool) (h t : Nat) (s : Forest) :
    VOK d (mkC b h t) s ↔ (Lk d b h s ∧ t = s.top.getLast?.getD d.null) := by cases b <;> rfl
theorem mkC_ext (b : Bool) (h t : Nat) : extOfV (mkC b h t) = [] := by cases b <;> rfl
theorem mkC_str (b : Bool) (h t : Nat) : strOfV (mkC b h t) = [] := by cases b <;> rfl
theorem mkC_coll (b : Bool) (h t : Nat) : isColl (mkC b h t) := by cases b <;> trivial
theorem mkVal_mkC (d d' : Doc) (b : Bool) (h t h' t' : Nat) (sub) : mkVal d' (mkC b h' t') sub = mkVal d (mkC b h t) sub := by
  cases b <;> rfl

theorem StrOK_drop {d : Doc} {a rs : List Nat} (h : StrOK d (a ++ rs)) : StrOK d rs :=
  ⟨h.ids_nodup, h.ids_lt, fun n hn => Nat.le_trans (by rw [List.count_append]; omega) (h.refs n hn),
    fun r hr => h.present r (List.mem_append_right _ hr)⟩

/-! ## The document after one tree was unlinked -/

/-- layout of the document after the tree of `i` was erased from the chain of the collection at `l` -/
def eraseAt (F : Forest) (l : Loc) (i : Nat) : Forest := replaceAt F l ((layoutAt F l).eraseTop i)

theorem mem_ids_eraseAt {F : Forest} {l : Loc} (i : Nat) (hnd : F.ids.Nodup) (hl : isLoc F l) (x : Nat) :
    x ∈ (eraseAt F l i).ids ↔ x ∈ F.ids ∧ x ∉ ((layoutAt F l).treeF i).ids := by
  have hsnd := layoutAt_nodup hnd hl
  rw [eraseAt, mem_ids_replaceAt _ hnd hl, Forest.mem_ids_eraseTop i hsnd]
  constructor
  · rintro (⟨h1, h2⟩ | ⟨h1, h2⟩)
    · exact ⟨h1, fun m => h2 (Forest.treeF_ids_sub _ i x m)⟩
    · exact ⟨layoutAt_ids_sub F l x h1, h2⟩
  · rintro ⟨h1, h2⟩
    by_cases hx : x ∈ (layoutAt F l).ids
    · exact Or.inr ⟨hx, h2⟩
    · exact Or.inl ⟨h1, hx⟩

theorem nodup_eraseAt {F : Forest} {l : Loc} (i : Nat) (hnd : F.ids.Nodup) (hl : isLoc F l) : (eraseAt F l i).ids.Nodup :=
  nodup_replaceAt _ hnd hl (Forest.nodup_eraseTop i (layoutAt_nodup hnd hl))
    (fun x hx _ => Forest.eraseTop_ids_sub _ i x hx)

/-- the slots of the document split into those of the erased tree and those that stay -/
theorem ids_perm_eraseAt {F : Forest} {l : Loc} (i : Nat) (hnd : F.ids.Nodup) (hl : isLoc F l) :
    List.Perm F.ids (((layoutAt F l).treeF i).ids ++ (eraseAt F l i).ids) := by
  have hsnd := layoutAt_nodup hnd hl
  have hT : ((layoutAt F l).treeF i).ids.Nodup :=
    (List.nodup_append.1 (((layoutAt F l).ids_perm_erase i).nodup_iff.1 hsnd)).1
  refine (List.perm_ext_iff_of_nodup hnd (List.nodup_append.2 ⟨hT, nodup_eraseAt i hnd hl, ?_⟩)).2 ?_
  · intro a ha b hb e; subst e
    exact ((mem_ids_eraseAt i hnd hl a).1 hb).2 ha
  · intro x
    rw [List.mem_append, mem_ids_eraseAt i hnd hl]
    constructor
    · intro hx
      by_cases hm : x ∈ ((layoutAt F l).treeF i).ids
      · exact Or.inl hm
      · exact Or.inr ⟨hx, hm⟩
    · rintro (hm | ⟨hx, _⟩)
      · exact layoutAt_ids_sub F l x (Forest.treeF_ids_sub _ i x hm)
      · exact hx

/-- the string references of `d` split into those of the erased tree and those of the rest -/
theorem strRefs_erase_perm (d : Doc) {F : Forest} {l : Loc} (i : Nat) (hnd : F.ids.Nodup) (hl : isLoc F l) :
    List.Perm (d.strRefs F) (goneF d ((layoutAt F l).treeF i) ++ d.strRefs (eraseAt F l i)) := by
  have h1 := ids_perm_eraseAt i hnd hl
  have h2 := (h1.map Loc.slot).cons Loc.root
  rw [List.map_append] at h2
  have hp : List.Perm (holders F) (((layoutAt F l).treeF i).ids.map Loc.slot ++ holders (eraseAt F l i)) := by
    refine h2.trans ?_
    show List.Perm ([Loc.root] ++ (_ ++ _)) (_ ++ ([Loc.root] ++ _))
    rw [← List.append_assoc, ← List.append_assoc]
    exact List.Perm.append_right _ List.perm_append_comm
  have h3 := hp.flatMap_right (fun l0 => strOfV (d.get l0))
  rw [List.flatMap_append, List.flatMap_map] at h3
  exact h3

/-- The unlinked document. `dU` is `d` in which the slot in front of the tree of `i` (a top-level tree of the collection
    stored at `l`) points to the successor of `i`, and `l` holds the collection with the new head and tail; every other
    cell is as in `d` (the cells of the tree are still there, detached). Then `dU` is well-formed for the layout without
    the tree, and is the abstract document of `d` in which the collection at `l` lost that element/member. -/
theorem unlink_wfg {d dU : Doc} {F : Forest} {l : Loc} {b : Bool} {h t i : Nat}
    (w : WFG d F) (hs : StrOK d (d.strRefs F)) (hl : isLoc F l) (hv : d.get l = mkC b h t)
    (hi : i ∈ (layoutAt F l).tl)
    (hg : dU.g = d.g) (hpl : dU.pl = d.pl) (hstr : dU.strings = d.strings) (hnn : dU.nextNode = d.nextNode)
    (hget : dU.get l = mkC b (if ((layoutAt F l).predFrom none i).isNone then d.nextOf i else h)
        (if d.nextOf i = d.null then ((layoutAt F l).predFrom none i).getD d.null else t))
    (hslot : ∀ i0, l = .slot i0 →
      dU.cell i0 = .var (mkC b (if ((layoutAt F l).predFrom none i).isNone then d.nextOf i else h)
        (if d.nextOf i = d.null then ((layoutAt F l).predFrom none i).getD d.null else t)) (d.nextOf i0) ∧
      dU.root = d.root)
    (hpred : ∀ p, (layoutAt F l).predFrom none i = some p → dU.cell p = .var (d.get (.slot p)) (d.nextOf i))
    (hoth : ∀ j, Loc.slot j ≠ l → (layoutAt F l).predFrom none i ≠ some j → dU.cell j = d.cell j) :
    WFG dU (eraseAt F l i) ∧ StrOK dU (dU.strRefs (eraseAt F l i)) ∧
    dU.strRefs (eraseAt F l i) = d.strRefs (eraseAt F l i) ∧
    (∀ l0 ∈ holders (eraseAt F l i), l0 ≠ l → dU.get l0 = d.get l0) ∧
    abs dU = absWith d F l
      (mkVal d (mkC b h t) ((vals d noOv (layoutAt F l)).eraseIdx (List.idxOf i (layoutAt F l).tl))) := by
  have hvs : VOK d (mkC b h t) (layoutAt F l) := hv ▸ VOK_at w hl
  obtain ⟨hlk, ht⟩ := (VOK_mkC _ _ _ _ _).1 hvs
  have hsF := layoutAt_ids_sub F l
  have hsnd := layoutAt_nodup w.nodup hl
  have hn : dU.null = d.null := by simp only [Doc.null, hg]
  have hpf : ∀ p, (layoutAt F l).predFrom none i = some p → p ∈ (layoutAt F l).ids ∧ d.isVar p := by
    intro p hp
    obtain ⟨a, _⟩ := Forest.predFrom_notin_tree hsnd none p hp (by simp)
    have := Forest.tl_sub_ids _ p a
    exact ⟨this, w.isVar p (hsF p this)⟩
  have hlns : ∀ i0, l = .slot i0 → i0 ∉ (layoutAt F l).ids ∧ i0 ∈ F.ids ∧ d.isVar i0 := by
    intro i0 e; subst e
    exact ⟨self_notin_layoutAt w.nodup i0, isLoc_ids hl, w.isVar i0 (isLoc_ids hl)⟩
  have hsl : ∀ j ∈ (layoutAt F l).ids, Loc.slot j ≠ l := fun j hj e => (hlns j e.symm).1 hj
  -- the chain
  have hchain := Lk_unlink hn (layoutAt F l) hlk hsnd hi (fun j hj _ hp => hoth j (hsl j hj) hp) hpred
  have hlast := last_eraseTop (layoutAt F l) hlk hi none d.null
  simp only [Option.getD_none] at hlast
  have hvok : VOK dU (mkC b (if ((layoutAt F l).predFrom none i).isNone then d.nextOf i else h)
      (if d.nextOf i = d.null then ((layoutAt F l).predFrom none i).getD d.null else t))
      ((layoutAt F l).eraseTop i) := by
    rw [VOK_mkC]
    refine ⟨hchain, ?_⟩
    rw [hn, hlast, ht]
  -- cells that keep their content
  have hextcell : ∀ l0 ∈ holders F, ∀ e ∈ extOfV (d.get l0), dU.cell e = d.cell e := by
    intro l0 hl0 e he
    obtain ⟨⟨p, hp⟩, _, _⟩ := w.ext l0 hl0 e he
    refine hoth e ?_ ?_
    · intro e'; exact ext_ne_var hp (hlns e e'.symm).2.2 rfl
    · intro e'; exact ext_ne_var hp (hpf e e').2 rfl
  have hslotsame : ∀ j ∈ F.ids, Loc.slot j ≠ l → j ∉ (layoutAt F l).ids → dU.cell j = d.cell j := by
    intro j _ hjl hjs
    exact hoth j hjl (fun e => hjs (hpf j e).1)
  have hgs : ∀ j ∈ ((layoutAt F l).eraseTop i).ids, dU.get (.slot j) = d.get (.slot j) := by
    intro j hj
    have hjs := Forest.eraseTop_ids_sub _ i j hj
    by_cases hjp : (layoutAt F l).predFrom none i = some j
    · exact get_of_var (hpred j hjp)
    · exact get_of_cell (hoth j (hsl j hjs) hjp)
  have hsa : SAgree d dU ((layoutAt F l).eraseTop i).ids := fun j hj =>
    scalar_congr (fun n _ => strBytes_of_strings hstr n)
      (fun e he => hextcell (.slot j) (mem_holders.2 (Or.inr ⟨j, hsF j (Forest.eraseTop_ids_sub _ i j hj), rfl⟩)) e he)
  have hval : dU.valOf (mkC b (if ((layoutAt F l).predFrom none i).isNone then d.nextOf i else h)
      (if d.nextOf i = d.null then ((layoutAt F l).predFrom none i).getD d.null else t)) ((layoutAt F l).eraseTop i) =
      mkVal d (mkC b h t) ((vals d noOv (layoutAt F l)).eraseIdx (List.idxOf i (layoutAt F l).tl)) := by
    simp only [Doc.valOf]
    rw [vals_congr' noOv _ hgs hsa, Forest.vals_eraseTop]
    exact mkVal_mkC _ _ _ _ _ _ _ _
  have hres := wfg_replaceAt (d' := dU) (s' := (layoutAt F l).eraseTop i) w hl hn hget hslot hvok
    (fun j hj hjl hjs => good_of hstr (hslotsame j hj hjl hjs)
      (fun e he => hextcell (.slot j) (mem_holders.2 (Or.inr ⟨j, hj, rfl⟩)) e he))
    (Forest.nodup_eraseTop i hsnd)
    (fun x hx _ => Forest.eraseTop_ids_sub _ i x hx)
    (fun x hx => w.lt x (hsF x (Forest.eraseTop_ids_sub _ i x hx)))
    (by rw [hpl, hg]; exact w.pool)
    (fun x hx => by rw [hpl, hg]; exact w.live x (hsF x (Forest.eraseTop_ids_sub _ i x hx)))
    (fun x hx _ => by rw [hpl, hg]; exact w.live x hx)
    (by
      refine ExtOK_of w.ext ?_ ?_
      · intro l' hl'
        by_cases hll : l' = l
        · left; rw [hll, hget]; exact mkC_ext _ _ _
        · right
          rcases mem_holders.1 hl' with e | ⟨x, hx, e⟩
          · subst e
            refine ⟨mem_holders.2 (Or.inl rfl), ?_⟩
            cases l with
            | root => exact absurd rfl hll
            | slot i0 => exact (hslot i0 rfl).2
          · subst e
            rcases (mem_ids_replaceAt _ w.nodup hl x).1 hx with ⟨hxF, hxs⟩ | hxs
            · exact ⟨mem_holders.2 (Or.inr ⟨x, hxF, rfl⟩), get_of_cell (hslotsame x hxF hll hxs)⟩
            · exact ⟨mem_holders.2 (Or.inr ⟨x, hsF x (Forest.eraseTop_ids_sub _ i x hxs), rfl⟩), hgs x hxs⟩
      · intro l' _ hl'F _ e he
        refine ⟨hextcell l' hl'F e he, ?_⟩
        rw [hpl, hg]; exact (w.ext l' hl'F e he).2.1)
  have hgets : ∀ l0 ∈ holders (eraseAt F l i), l0 ≠ l → dU.get l0 = d.get l0 := by
    intro l0 h0 hll
    rcases mem_holders.1 h0 with e | ⟨x, hx, e⟩
    · subst e
      cases l with
      | root => exact absurd rfl hll
      | slot i0 => exact (hslot i0 rfl).2
    · subst e
      rcases (mem_ids_replaceAt _ w.nodup hl x).1 hx with ⟨hxF, hxs⟩ | hxs
      · exact get_of_cell (hslotsame x hxF hll hxs)
      · exact hgs x hxs
  have hrefs : dU.strRefs (eraseAt F l i) = d.strRefs (eraseAt F l i) := by
    apply flatMap_congr'
    intro l0 h0
    by_cases hll : l0 = l
    · rw [hll, hget, hv, mkC_str, mkC_str]
    · rw [hgets l0 h0 hll]
  refine ⟨hres.1, ?_, hrefs, hgets, ?_⟩
  · rw [hrefs]
    exact StrOK_congr hstr hnn (StrOK_drop (StrOK_perm (strRefs_erase_perm d i w.nodup hl) hs))
  · rw [hres.2, hval]

/-! ## Releasing a detached tree -/

theorem mem_fpF (d : Doc) (F : Forest) (x : Nat) : x ∈ fpF d F ↔ Terr d F.ids x := by
  induction F with
  | nil => simp [fpF, Terr, Forest.ids]
  | cons key i s r ihs ihr =>
    rw [fpF_cons]
    simp only [List.mem_append, ihs, ihr, List.mem_singleton]
    cases key with
    | none =>
      simp only [keyFp, Terr, Forest.ids, Forest.keyL, List.nil_append, List.mem_cons, List.mem_append, List.not_mem_nil, false_or]
      constructor
      · rintro (((h | h | ⟨j, hj, h⟩) | h) | h | ⟨j, hj, h⟩)
        · exact Or.inr ⟨i, Or.inl rfl, h⟩
        · exact Or.inl (Or.inr (Or.inl h))
        · exact Or.inr ⟨j, Or.inr (Or.inl hj), h⟩
        · exact Or.inl (Or.inl h)
        · exact Or.inl (Or.inr (Or.inr h))
        · exact Or.inr ⟨j, Or.inr (Or.inr hj), h⟩
      · rintro ((h | h | h) | ⟨j, hj | hj | hj, h⟩)
        · exact Or.inl (Or.inr h)
        · exact Or.inl (Or.inl (Or.inr (Or.inl h)))
        · exact Or.inr (Or.inl h)
        · subst hj; exact Or.inl (Or.inl (Or.inl h))
        · exact Or.inl (Or.inl (Or.inr (Or.inr ⟨j, hj, h⟩)))
        · exact Or.inr (Or.inr ⟨j, hj, h⟩)
    | some k =>
      simp only [keyFp, Terr, Forest.ids, Forest.keyL, List.cons_append, List.nil_append, List.append_nil, List.mem_cons, List.mem_append, List.not_mem_nil, or_false]
      constructor
      · rintro (((h | h) | ((h | h | ⟨j, hj, h⟩) | h)) | h | ⟨j, hj, h⟩)
        · exact Or.inr ⟨k, Or.inl rfl, h⟩
        · exact Or.inl (Or.inl h)
        · exact Or.inr ⟨i, Or.inr (Or.inl rfl), h⟩
        · exact Or.inl (Or.inr (Or.inr (Or.inl h)))
        · exact Or.inr ⟨j, Or.inr (Or.inr (Or.inl hj)), h⟩
        · exact Or.inl (Or.inr (Or.inl h))
        · exact Or.inl (Or.inr (Or.inr (Or.inr h)))
        · exact Or.inr ⟨j, Or.inr (Or.inr (Or.inr hj)), h⟩
      · rintro ((h | h | h | h) | ⟨j, hj | hj | hj | hj, h⟩)
        · exact Or.inl (Or.inl (Or.inr h))
        · exact Or.inl (Or.inr (Or.inr h))
        · exact Or.inl (Or.inr (Or.inl (Or.inr (Or.inl h))))
        · exact Or.inr (Or.inl h)
        · subst hj; exact Or.inl (Or.inl (Or.inl h))
        · subst hj; exact Or.inl (Or.inr (Or.inl (Or.inl h)))
        · exact Or.inl (Or.inr (Or.inl (Or.inr (Or.inr ⟨j, hj, h⟩))))
        · exact Or.inr (Or.inr ⟨j, hj, h⟩)

/-- slots released when slot `i`, whose value is laid out as `sub`, is released with `freeVariant`: the extension slot of
    its value, the slots below it with their extension slots, the slot itself (in the order of release) -/
def relSlot (d : Doc) (i : Nat) (sub : Forest) : List Nat := (extOfV (d.get (.slot i)) ++ fpF d sub) ++ [i]

theorem mem_relSlot (d : Doc) (i : Nat) (sub : Forest) (x : Nat) : x ∈ relSlot d i sub ↔ Terr d (i :: sub.ids) x := by
  simp only [relSlot, List.mem_append, mem_fpF, Terr, List.mem_cons, List.not_mem_nil, or_false]
  constructor
  · rintro ((h | h | ⟨j, hj, h⟩) | h)
    · exact Or.inr ⟨i, Or.inl rfl, h⟩
    · exact Or.inl (Or.inr h)
    · exact Or.inr ⟨j, Or.inr hj, h⟩
    · exact Or.inl (Or.inl h)
  · rintro ((h | h) | ⟨j, hj | hj, h⟩)
    · exact Or.inr h
    · exact Or.inl (Or.inr (Or.inl h))
    · subst hj; exact Or.inl (Or.inl h)
    · exact Or.inl (Or.inr (Or.inr ⟨j, hj, h⟩))

/-- `freeVariant i` in a document `d2` that agrees with the well-formed `d` on slot `i` and on the layout `sub` of its
    value: exactly `relSlot d i sub` is released, the string references of the tree are dropped. -/
theorem free_detached {d d2 : Doc} {F : Forest} {i : Nat} {sub : Forest} {keep : List Nat}
    (w : WFG d F) (hiF : i ∈ F.ids) (hsub : ∀ x ∈ sub.ids, x ∈ F.ids) (hnds : sub.ids.Nodup) (hni : i ∉ sub.ids)
    (hvok : VOK d (d.get (.slot i)) sub)
    (hg : d2.g = d.g) (hgi : d2.get (.slot i) = d.get (.slot i)) (hcell : ∀ x ∈ sub.ids, d2.cell x = d.cell x)
    (hp : PL.Inv d2.g d2.pl) (hlive : ∀ x ∈ relSlot d i sub, PL.live d2.g d2.pl x)
    (hstr : StrOK d2 (strOfV (d.get (.slot i)) ++ (goneF d sub ++ keep))) :
    Eff d2 (d2.freeVariant i) (relSlot d i sub) keep := by
  have hn : d2.null = d.null := by simp only [Doc.null, hg]
  have ags : Agree d d2 sub.ids := ⟨hn, fun x hx => hcell x hx⟩
  have hgs : ∀ x ∈ sub.ids, d2.get (.slot x) = d.get (.slot x) := fun x hx => get_of_cell (ags.cell x hx)
  obtain ⟨t1, t2⟩ := fpF_terr_nodup w.extH sub hsub hnds
  obtain ⟨i1, _⟩ := slot_piece w.extH t1 t2 hiF hsub hni
  have hlen : sub.ids.length ≤ F.ids.length := List.Nodup.length_le_of_subset hnds (fun x hx => hsub x hx)
  have hfu := w.fuel_ok
  have hf2 : d2.fuel = d.fuel := by simp only [Doc.fuel, hg]
  have := step_slot (PCs_all sub) (f := d2.fuel) (d := d2) (i := i) (keep := keep)
    (by rw [hgi]; exact VOK_congr ags hvok)
    (by rw [hf2]; exact Nat.lt_of_le_of_lt sub.depth_le (by omega)) (by rw [hf2]; omega) hp
    (by rw [hgi, fpF_congr sub hgs]; exact hlive)
    (by rw [hgi, fpF_congr sub hgs]; exact i1)
    (by rw [hgi, goneF_congr sub hgs]; exact hstr)
  rw [hgi, fpF_congr sub hgs] at this
  exact this

/-- after a release that does not touch the layout `F'`, the document is still well-formed with the same layout and
    is the same abstract document -/
theorem wfg_after_release {dU d3 : Doc} {F' : Forest} {fp : List Nat} (w : WFG dU F')
    (he : Eff dU d3 fp (dU.strRefs F')) (hids : ∀ x ∈ F'.ids, x ∉ fp)
    (hext : ∀ l0 ∈ holders F', ∀ e ∈ extOfV (dU.get l0), e ∉ fp) :
    WFG d3 F' ∧ StrOK d3 (d3.strRefs F') ∧ abs d3 = abs dU :=
  wfg_frame w he.g he.root (fun x hx => he.cells x (hids x hx))
    (fun l0 h0 e hee => ⟨he.cells e (hext l0 h0 e hee), (he.live e).2 ⟨(w.ext l0 h0 e hee).2.1, hext l0 h0 e hee⟩⟩)
    he.pool (fun x hx => (he.live x).2 ⟨w.live x hx, hids x hx⟩) he.str he.bytes

/-- the territory of the erased tree is disjoint from what stays -/
theorem release_disjoint {d : Doc} {F : Forest} {l : Loc} (i : Nat) (w : WFG d F) (hl : isLoc F l) :
    (∀ x ∈ (eraseAt F l i).ids, ¬ Terr d ((layoutAt F l).treeF i).ids x) ∧
    (∀ l0 ∈ holders (eraseAt F l i), ∀ e ∈ extOfV (d.get l0), ¬ Terr d ((layoutAt F l).treeF i).ids e) := by
  have hm := mem_ids_eraseAt i w.nodup hl
  have hTF : ∀ j ∈ ((layoutAt F l).treeF i).ids, j ∈ F.ids := fun j hj =>
    layoutAt_ids_sub F l j (Forest.treeF_ids_sub _ i j hj)
  constructor
  · intro x hx ht
    obtain ⟨hxF, hxT⟩ := (hm x).1 hx
    rcases ht with m | ⟨j, hj, e⟩
    · exact hxT m
    · exact w.extH.notid j (hTF j hj) x e hxF
  · intro l0 h0 e he ht
    have h0F : l0 ∈ holders F := by
      rcases mem_holders.1 h0 with e' | ⟨x, hx, e'⟩
      · exact mem_holders.2 (Or.inl e')
      · exact mem_holders.2 (Or.inr ⟨x, ((hm x).1 hx).1, e'⟩)
    obtain ⟨⟨p, hp⟩, _, hu⟩ := w.ext l0 h0F e he
    rcases ht with m | ⟨j, hj, e'⟩
    · exact ext_ne_var hp (w.isVar e (hTF e m)) rfl
    · have := hu (.slot j) (mem_holders.2 (Or.inr ⟨j, hTF j hj, rfl⟩)) e'
      subst this
      rcases mem_holders.1 h0 with e'' | ⟨x, hx, e''⟩
      · cases e''
      · cases e''; exact ((hm j).1 hx).2 hj

/-! ## `removeOne`: unfolding -/

/-- the unlinking step of `removeOne` -/
def unlinkD (d : Doc) (prev : Option Nat) (next : Nat) : Doc :=
  match prev with | some p => d.setNext p next | none => d

theorem removeOne_eq {d : Doc} {l : Loc} {b : Bool} {h t : Nat} (id : Nat) (hv : d.get l = mkC b h t) :
    d.removeOne l id =
      ((unlinkD d (d.prevOf h id) (d.nextOf id)).set l
        (mkC b (if (d.prevOf h id).isNone then d.nextOf id else h)
          (if d.nextOf id = d.null then (d.prevOf h id).getD d.null else t))).freeVariant id := by
  cases b
  · simp only [mkC] at hv ⊢
    simp only [Doc.removeOne, hv, unlinkD]
    cases d.prevOf h id <;> simp only [setNext_null]
  · simp only [mkC] at hv ⊢
    simp only [Doc.removeOne, hv, unlinkD]
    cases d.prevOf h id <;> simp only [setNext_null]

theorem unlinkD_cells {d : Doc} {l : Loc} (prev : Option Nat) (nxt : Nat) (X : VData)
    (hp : ∀ p, prev = some p → d.isVar p ∧ Loc.slot p ≠ l) :
    ((unlinkD d prev nxt).set l X).g = d.g ∧ ((unlinkD d prev nxt).set l X).pl = d.pl ∧
    ((unlinkD d prev nxt).set l X).strings = d.strings ∧ ((unlinkD d prev nxt).set l X).nextNode = d.nextNode ∧
    ((unlinkD d prev nxt).set l X).get l = X ∧
    (∀ i0, l = .slot i0 → ((unlinkD d prev nxt).set l X).cell i0 = .var X (d.nextOf i0) ∧
      ((unlinkD d prev nxt).set l X).root = d.root) ∧
    (∀ p, prev = some p → ((unlinkD d prev nxt).set l X).cell p = .var (d.get (.slot p)) nxt) ∧
    (∀ j, Loc.slot j ≠ l → prev ≠ some j → ((unlinkD d prev nxt).set l X).cell j = d.cell j) := by
  cases prev with
  | none =>
    simp only [unlinkD]
    refine ⟨set_g _ _ _, set_pl _ _ _, set_strings _ _ _, set_nextNode _ _ _, get_set_self _ _ _, ?_,
      fun p hp' => (by cases hp'), fun j hj _ => cell_set_ne hj⟩
    intro i0 e; subst e
    exact ⟨by rw [cell_set_slot, if_pos rfl], rfl⟩
  | some p =>
    obtain ⟨hvar, hpl⟩ := hp p rfl
    simp only [unlinkD]
    refine ⟨by rw [set_g, setNext_g], by rw [set_pl, setNext_pl], by rw [set_strings, setNext_strings],
      by rw [set_nextNode, setNext_nextNode], get_set_self _ _ _, ?_, ?_, ?_⟩
    · intro i0 e; subst e
      have hpi : p ≠ i0 := fun e => hpl (by rw [e])
      refine ⟨?_, by rw [root_set_slot, setNext_root]⟩
      rw [cell_set_slot, if_pos rfl, nextOf_of_cell (cell_setNext_ne d nxt hpi) (setNext_null d p nxt)]
    · intro q hq
      simp only [Option.some.injEq] at hq; subst hq
      rw [cell_set_ne hpl]; exact cell_setNext_var hvar nxt
    · intro j hj hjp
      rw [cell_set_ne hj]
      exact cell_setNext_ne d nxt (fun e => hjp (by rw [e]))

/-! ## What a removal leaves untouched: the frame -/

/-- `d'` is `d` after the tree `T` (a top-level tree of the collection at `l`, value slot `i`) was removed: every cell
    outside the territory of `T`, other than the collection slot `l` itself and the slot linked in front of the tree,
    is unchanged; that predecessor keeps its value; the strings of the survivors keep their bytes. -/
structure Removed (d d' : Doc) (F : Forest) (l : Loc) (i : Nat) (T : List Nat) : Prop where
  g : d'.g = d.g
  root : l ≠ .root → d'.root = d.root
  cells : ∀ x, ¬ Terr d T x → Loc.slot x ≠ l → (layoutAt F l).predFrom none i ≠ some x → d'.cell x = d.cell x
  pred : ∀ p, (layoutAt F l).predFrom none i = some p → d'.get (.slot p) = d.get (.slot p)
  bytes : ∀ n ∈ d.strRefs (eraseAt F l i), d'.strBytes n = d.strBytes n

namespace Forest
/-- a top-level slot of a chain is not below any slot of that chain -/
theorem top_notin_subOf (F : Forest) (j : Nat) (hnd : F.ids.Nodup) : ∀ x ∈ F.top, x ∉ (F.subOf j).ids := by
  induction F with
  | nil => intro x h; cases h
  | cons k a s r ihs ihr =>
    intro x hx
    obtain ⟨nds, ndr, njs, njr, nsr, nk⟩ := nodup_cons hnd
    have hxs : x ∉ s.ids := by
      simp only [top, List.mem_append, List.mem_cons] at hx
      rcases hx with hx | hx | hx
      · exact (nk x hx).2.1
      · exact hx ▸ njs
      · exact fun m => nsr x m (r.top_sub_ids x hx)
    simp only [subOf]
    split
    · exact hxs
    · split
      · exact fun m => hxs (s.subOf_ids_sub j x m)
      · simp only [top, List.mem_append, List.mem_cons] at hx
        rcases hx with hx | hx | hx
        · exact fun m => (nk x hx).2.2 (r.subOf_ids_sub j x m)
        · exact fun m => njr (hx ▸ r.subOf_ids_sub j x m)
        · exact ihr ndr x hx

/-- a top-level slot of the chain below `i` lies below `j` only if `j = i` or `i` itself lies below `j` -/
theorem top_subOf_subOf (F : Forest) {i j : Nat} (hnd : F.ids.Nodup) (hi : i ∈ F.locs) :
    ∀ x ∈ (F.subOf i).top, x ∈ (F.subOf j).ids → j = i ∨ i ∈ (F.subOf j).ids := by
  induction F with
  | nil => cases hi
  | cons k a s r ihs ihr =>
    intro x hx hxj
    obtain ⟨nds, ndr, njs, njr, nsr, nk⟩ := nodup_cons hnd
    simp only [subOf] at hx hxj ⊢
    by_cases hai : a = i
    · rw [if_pos hai] at hx
      have hxs := s.top_sub_ids x hx
      by_cases haj : a = j
      · exact Or.inl (haj ▸ hai)
      · rw [if_neg haj] at hxj ⊢
        split at hxj
        · exact absurd hxj (s.top_notin_subOf j nds x hx)
        · exact absurd (r.subOf_ids_sub j x hxj) (nsr x hxs)
    · rw [if_neg hai] at hx
      simp only [locs, List.mem_cons, List.mem_append] at hi
      by_cases his : i ∈ s.locs
      · rw [if_pos his] at hx
        have hxs := s.subOf_ids_sub i x ((s.subOf i).top_sub_ids x hx)
        by_cases haj : a = j
        · rw [if_pos haj]; exact Or.inr (s.locs_sub_ids i his)
        · rw [if_neg haj] at hxj ⊢
          split
          · rename_i hjs; rw [if_pos hjs] at hxj; exact ihs nds his x hx hxj
          · rename_i hjs; rw [if_neg hjs] at hxj
            exact absurd (r.subOf_ids_sub j x hxj) (nsr x hxs)
      · rw [if_neg his] at hx
        have hir : i ∈ r.locs := by
          rcases hi with e | m | m
          · exact absurd e.symm hai
          · exact absurd m his
          · exact m
        have hxr := r.subOf_ids_sub i x ((r.subOf i).top_sub_ids x hx)
        by_cases haj : a = j
        · rw [if_pos haj] at hxj; exact absurd hxr (nsr x hxj)
        · rw [if_neg haj] at hxj ⊢
          split
          · rename_i hjs; rw [if_pos hjs] at hxj
            exact absurd hxr (nsr x (s.subOf_ids_sub j x hxj))
          · rename_i hjs; rw [if_neg hjs] at hxj; exact ihr ndr hir x hx hxj
end Forest

/-- FRAME for a removal: a location `l'` other than `l`, outside the removed tree, whose own subtree contains neither
    `l` nor a slot of the removed tree, designates exactly the same value afterwards. -/
theorem removed_frame {d d' : Doc} {F : Forest} {l l' : Loc} {i : Nat} (w : WFG d F) (hl : isLoc F l)
    (hi : i ∈ (layoutAt F l).tl) (R : Removed d d' F l i ((layoutAt F l).treeF i).ids)
    (hl' : isLoc F l') (hne : l' ≠ l) (hout : ∀ j, l' = .slot j → j ∉ ((layoutAt F l).treeF i).ids)
    (hdisj : ∀ x ∈ (layoutAt F l').ids, x ∉ ((layoutAt F l).treeF i).ids ∧ Loc.slot x ≠ l) :
    d'.toVal (d'.get l') = d.toVal (d.get l') := by
  have hsnd := layoutAt_nodup w.nodup hl
  have hs'F := layoutAt_ids_sub F l'
  have hn : d'.null = d.null := by simp only [Doc.null, R.g]
  obtain ⟨dj1, dj2⟩ := release_disjoint i w hl
  have hm := mem_ids_eraseAt i w.nodup hl
  have hTF : ∀ j ∈ ((layoutAt F l).treeF i).ids, j ∈ F.ids := fun j hj =>
    layoutAt_ids_sub F l j (Forest.treeF_ids_sub _ i j hj)
  -- the predecessor is not inside the subtree of `l'`
  have hpred : ∀ p, (layoutAt F l).predFrom none i = some p → p ∉ (layoutAt F l').ids := by
    intro p hp hm'
    obtain ⟨hpt, _⟩ := Forest.predFrom_notin_tree hsnd none p hp (by simp)
    have hptop := Forest.tl_sub_top _ p hpt
    cases l' with
    | root =>
      cases l with
      | root => exact hne rfl
      | slot i0 => exact (hdisj i0 (isLoc_ids hl)).2 rfl
    | slot j =>
      cases l with
      | root => exact Forest.top_notin_subOf F j w.nodup p hptop hm'
      | slot i0 =>
        rcases Forest.top_subOf_subOf F w.nodup hl p hptop hm' with e | m
        · exact hne (by rw [e])
        · exact (hdisj i0 m).2 rfl
  -- survivors: a slot of `F` outside the tree
  have hsurv : ∀ x ∈ F.ids, x ∉ ((layoutAt F l).treeF i).ids → ¬ Terr d ((layoutAt F l).treeF i).ids x :=
    fun x hx hxT => dj1 x ((hm x).2 ⟨hx, hxT⟩)
  have hscal : ∀ l0 ∈ holders (eraseAt F l i), d'.scalar (d.get l0) = d.scalar (d.get l0) := by
    intro l0 h0
    have h0F : l0 ∈ holders F := by
      rcases mem_holders.1 h0 with e' | ⟨x, hx, e'⟩
      · exact mem_holders.2 (Or.inl e')
      · exact mem_holders.2 (Or.inr ⟨x, ((hm x).1 hx).1, e'⟩)
    refine scalar_congr (fun n hn' => R.bytes n ?_) (fun e he => ?_)
    · simp only [Doc.strRefs, List.mem_flatMap]; exact ⟨l0, h0, hn'⟩
    · obtain ⟨⟨p, hp⟩, _, _⟩ := w.ext l0 h0F e he
      refine R.cells e (dj2 l0 h0 e he) ?_ ?_
      · intro e'
        exact ext_ne_var hp (w.isVar e (isLoc_ids (e' ▸ hl))) rfl
      · intro e'
        obtain ⟨hpt, _⟩ := Forest.predFrom_notin_tree hsnd none e e' (by simp)
        exact ext_ne_var hp (w.isVar e (layoutAt_ids_sub F l e (Forest.tl_sub_ids _ e hpt))) rfl
  have hgood : ∀ x ∈ (layoutAt F l').ids, Good d d' x := by
    intro x hx
    obtain ⟨hxT, hxl⟩ := hdisj x hx
    have hxF := hs'F x hx
    refine ⟨R.cells x (hsurv x hxF hxT) hxl (fun e => hpred x e hx), ?_⟩
    exact hscal (.slot x) (mem_holders.2 (Or.inr ⟨x, (hm x).2 ⟨hxF, hxT⟩, rfl⟩))
  have hl'h : l' ∈ holders (eraseAt F l i) := by
    cases l' with
    | root => exact mem_holders.2 (Or.inl rfl)
    | slot j => exact mem_holders.2 (Or.inr ⟨j, (hm j).2 ⟨isLoc_ids hl', hout j rfl⟩, rfl⟩)
  have hget : d'.get l' = d.get l' := by
    cases l' with
    | root =>
      refine R.root ?_
      intro e; exact hne e.symm
    | slot j =>
      by_cases hjp : (layoutAt F l).predFrom none i = some j
      · exact R.pred j hjp
      · exact get_of_cell (R.cells j (hsurv j (isLoc_ids hl') (hout j rfl)) hne hjp)
  have hvok : VOK d' (d.get l') (layoutAt F l') := VOK_congr (agree_of_good hn hgood).1 (VOK_at w hl')
  have hlen : (layoutAt F l').ids.length < d.fuel :=
    Nat.lt_of_le_of_lt (List.Nodup.length_le_of_subset (layoutAt_nodup w.nodup hl') (fun x hx => hs'F x hx)) w.fuel_ok
  have hfu : d'.fuel = d.fuel := by simp only [Doc.fuel, R.g]
  rw [hget, toVal_eq hvok (by rw [hfu]; exact hlen), toVal_at w hl']
  simp only [Doc.valOf]
  obtain ⟨a, sa⟩ := agree_of_good hn hgood
  rw [vals_congr noOv _ a sa, mkVal_congr]
  exact hscal l' hl'h

/-! ## `removeOne` on an array -/

theorem Forest.tl_sublist (F : Forest) : F.tl.Sublist F.ids := by
  induction F with
  | nil => exact List.Sublist.refl _
  | cons k i s r _ ihr =>
    simp only [Forest.tl, Forest.ids]
    exact (List.Sublist.cons_cons i (ihr.trans (List.sublist_append_right _ _))).trans (List.sublist_append_right _ _)

theorem Forest.keyOfTop_arr {d : Doc} (F : Forest) (i : Nat) : ∀ {h : Nat}, Lk d false h F → F.keyOfTop i = none := by
  induction F with
  | nil => intro h _; rfl
  | cons key j s r _ ihr =>
    intro h hl
    rw [Lk_cons] at hl
    obtain ⟨h1, _, _, h4, _⟩ := hl
    cases key <;> simp only [KeyOK] at h1
    simp only [Forest.keyOfTop, ihr h4, ite_self]

theorem goneF_tree (d : Doc) (key : Option Nat) (i : Nat) (sub : Forest) (K : List Nat) :
    goneF d (.cons key i sub .nil) ++ K =
      (Forest.keyL key).flatMap (fun j => strOfV (d.get (.slot j))) ++ (strOfV (d.get (.slot i)) ++ (goneF d sub ++ K)) := by
  rw [goneF_cons]
  simp [goneF, Forest.ids]

theorem map_eraseIdx {α β : Type} (f : α → β) : ∀ (L : List α) (k : Nat), (L.eraseIdx k).map f = (L.map f).eraseIdx k := by
  intro L
  induction L with
  | nil => intro k; rfl
  | cons a L ih =>
    intro k
    cases k with
    | zero => rfl
    | succ k => simp only [List.eraseIdx_cons_succ, List.map_cons, ih]

/-- everything in the territory of slots of the layout is live -/
theorem terr_live {d : Doc} {F : Forest} (w : WFG d F) {js : List Nat} (hjs : ∀ j ∈ js, j ∈ F.ids) {x : Nat}
    (h : Terr d js x) : PL.live d.g d.pl x := by
  rcases h with m | ⟨j, hj, e⟩
  · exact w.live x (hjs x m)
  · exact (w.ext (.slot j) (mem_holders.2 (Or.inr ⟨j, hjs j hj, rfl⟩)) x e).2.1

/-- From the unlinked document `dU` (see `unlink_wfg`) to the final one `d3`, in which exactly the territory of the
    erased tree was released: invariant, abstraction, liveness and frame facts of the whole removal. -/
theorem finish_removal {d dU d3 : Doc} {F : Forest} {l : Loc} {b : Bool} {h t i : Nat} {fp : List Nat}
    (w : WFG d F) (hs : StrOK d (d.strRefs F)) (hl : isLoc F l) (hv : d.get l = mkC b h t)
    (hi : i ∈ (layoutAt F l).tl)
    (c1 : dU.g = d.g) (c2 : dU.pl = d.pl) (c3 : dU.strings = d.strings) (c4 : dU.nextNode = d.nextNode)
    (c5 : dU.get l = mkC b (if ((layoutAt F l).predFrom none i).isNone then d.nextOf i else h)
        (if d.nextOf i = d.null then ((layoutAt F l).predFrom none i).getD d.null else t))
    (c6 : ∀ i0, l = .slot i0 →
      dU.cell i0 = .var (mkC b (if ((layoutAt F l).predFrom none i).isNone then d.nextOf i else h)
        (if d.nextOf i = d.null then ((layoutAt F l).predFrom none i).getD d.null else t)) (d.nextOf i0) ∧
      dU.root = d.root)
    (c7 : ∀ p, (layoutAt F l).predFrom none i = some p → dU.cell p = .var (d.get (.slot p)) (d.nextOf i))
    (c8 : ∀ j, Loc.slot j ≠ l → (layoutAt F l).predFrom none i ≠ some j → dU.cell j = d.cell j)
    (he : Eff dU d3 fp (d.strRefs (eraseAt F l i)))
    (hfp : ∀ x, x ∈ fp ↔ Terr d ((layoutAt F l).treeF i).ids x) :
    WFG d3 (eraseAt F l i) ∧ StrOK d3 (d3.strRefs (eraseAt F l i)) ∧
    abs d3 = absWith d F l
      (mkVal d (mkC b h t) ((vals d noOv (layoutAt F l)).eraseIdx (List.idxOf i (layoutAt F l).tl))) ∧
    d3.g = d.g ∧
    (∀ x, PL.live d3.g d3.pl x ↔ PL.live d.g d.pl x ∧ ¬ Terr d ((layoutAt F l).treeF i).ids x) ∧
    Removed d d3 F l i ((layoutAt F l).treeF i).ids := by
  have hsF := layoutAt_ids_sub F l
  have hsnd := layoutAt_nodup w.nodup hl
  obtain ⟨wU, _, hrefs, hgets, habs⟩ := unlink_wfg w hs hl hv hi c1 c2 c3 c4 c5 c6 c7 c8
  obtain ⟨dj1, dj2⟩ := release_disjoint i w hl
  rw [← hrefs] at he
  have hfin := wfg_after_release wU he
    (fun x hx m => dj1 x hx ((hfp x).1 m))
    (fun l0 h0 e hee m => by
      by_cases hll : l0 = l
      · rw [hll, c5, mkC_ext] at hee; cases hee
      · rw [hgets l0 h0 hll] at hee
        exact dj2 l0 h0 e hee ((hfp e).1 m))
  refine ⟨hfin.1, hfin.2.1, by rw [hfin.2.2, habs], by rw [he.g, c1], ?_, ?_⟩
  · intro x
    rw [he.live x, c2, c1, hfp]
  · refine ⟨by rw [he.g, c1], ?_, ?_, ?_, ?_⟩
    · intro hlr
      rw [he.root]
      cases l with
      | root => exact absurd rfl hlr
      | slot i0 => exact (c6 i0 rfl).2
    · intro x hxT hxl hxp
      rw [he.cells x (fun m => hxT ((hfp x).1 m))]
      exact c8 x hxl hxp
    · intro p hp
      obtain ⟨a, b⟩ := Forest.predFrom_notin_tree hsnd none p hp (by simp)
      have hpE : p ∈ (eraseAt F l i).ids :=
        (mem_ids_eraseAt i w.nodup hl p).2 ⟨hsF p (Forest.tl_sub_ids _ p a), b⟩
      rw [get_of_cell (he.cells p (fun m => dj1 p hpE ((hfp p).1 m)))]
      exact get_of_var (c7 p hp)
    · intro n hn'
      rw [he.bytes n (hrefs ▸ hn')]
      exact strBytes_of_strings c3 n

/-- `CollectionData::removeOne` on the array stored at `l`, for an element slot `id` of its chain -/
theorem removeOne_arr_core {d : Doc} {F : Forest} {l : Loc} {h t id : Nat} (w : WFG d F) (hs : StrOK d (d.strRefs F))
    (hl : isLoc F l) (hv : d.get l = .arr h t) (hid : id ∈ d.chain h) :
    id ∈ (layoutAt F l).tl ∧ d.chain h = (layoutAt F l).tl ∧
    WFG (d.removeOne l id) (eraseAt F l id) ∧
    StrOK (d.removeOne l id) ((d.removeOne l id).strRefs (eraseAt F l id)) ∧
    abs (d.removeOne l id) = absWith d F l
      (.arr (((vals d noOv (layoutAt F l)).map (·.2)).eraseIdx (List.idxOf id (layoutAt F l).tl))) ∧
    (d.removeOne l id).g = d.g ∧
    (∀ x, PL.live (d.removeOne l id).g (d.removeOne l id).pl x ↔
      PL.live d.g d.pl x ∧ ¬ Terr d (id :: ((layoutAt F l).subOf id).ids) x) ∧
    Removed d (d.removeOne l id) F l id (id :: ((layoutAt F l).subOf id).ids) := by
  have hv' : d.get l = mkC false h t := hv
  have hvs : VOK d (mkC false h t) (layoutAt F l) := hv' ▸ VOK_at w hl
  obtain ⟨hlk, _⟩ := (VOK_mkC _ _ _ _ _).1 hvs
  have hsF := layoutAt_ids_sub F l
  have hsnd := layoutAt_nodup w.nodup hl
  have hlen : (layoutAt F l).ids.length ≤ d.fuel :=
    Nat.le_trans (List.Nodup.length_le_of_subset hsnd (fun x hx => hsF x hx)) (Nat.le_of_lt w.fuel_ok)
  have hch : d.chain h = (layoutAt F l).tl := by rw [chain_eq hlk hlen, tl_eq_top_arr _ hlk]
  have hi : id ∈ (layoutAt F l).tl := hch ▸ hid
  have htlnd : (layoutAt F l).tl.Nodup := List.Nodup.sublist (Forest.tl_sublist _) hsnd
  have hprev : d.prevOf h id = (layoutAt F l).predFrom none id := by
    rw [Doc.prevOf, hch]; exact prevIn_tl_top _ htlnd hi
  have htree : ((layoutAt F l).treeF id).ids = id :: ((layoutAt F l).subOf id).ids := by
    rw [Forest.treeF_ids hsnd hi, Forest.keyOfTop_arr _ id hlk]; rfl
  have hTnd : (id :: ((layoutAt F l).subOf id).ids).Nodup := by
    rw [← htree]
    exact (List.nodup_append.1 (((layoutAt F l).ids_perm_erase id).nodup_iff.1 hsnd)).1
  have hTs : ∀ x ∈ id :: ((layoutAt F l).subOf id).ids, x ∈ (layoutAt F l).ids := by
    intro x hx; rw [← htree] at hx; exact Forest.treeF_ids_sub _ id x hx
  have hpf : ∀ p, (layoutAt F l).predFrom none id = some p →
      p ∈ (layoutAt F l).ids ∧ p ∉ id :: ((layoutAt F l).subOf id).ids := by
    intro p hp
    obtain ⟨a, b⟩ := Forest.predFrom_notin_tree hsnd none p hp (by simp)
    exact ⟨Forest.tl_sub_ids _ p a, htree ▸ b⟩
  have hsl : ∀ j ∈ (layoutAt F l).ids, Loc.slot j ≠ l := by
    intro j hj e
    subst e
    exact self_notin_layoutAt w.nodup j hj
  rw [removeOne_eq id hv', hprev]
  obtain ⟨c1, c2, c3, c4, c5, c6, c7, c8⟩ := unlinkD_cells (d := d) (l := l) ((layoutAt F l).predFrom none id)
    (d.nextOf id) (mkC false (if ((layoutAt F l).predFrom none id).isNone then d.nextOf id else h)
      (if d.nextOf id = d.null then ((layoutAt F l).predFrom none id).getD d.null else t))
    (fun p hp => ⟨w.isVar p (hsF p (hpf p hp).1), hsl p (hpf p hp).1⟩)
  generalize (unlinkD d ((layoutAt F l).predFrom none id) (d.nextOf id)).set l _ = dU at *
  have hvok : VOK d (d.get (.slot id)) ((layoutAt F l).subOf id) :=
    (Forest.Lk_subOf _ hlk hsnd (Forest.tl_sub_locs _ id hi)).2.2
  have hcellT : ∀ x ∈ id :: ((layoutAt F l).subOf id).ids, dU.cell x = d.cell x := fun x hx =>
    c8 x (hsl x (hTs x hx)) (fun e => (hpf x e).2 hx)
  have he := free_detached (d2 := dU) (keep := d.strRefs (eraseAt F l id)) w (hsF id (hTs id (by simp)))
    (fun x hx => hsF x (hTs x (List.mem_cons_of_mem _ hx))) (List.nodup_cons.1 hTnd).2 (List.nodup_cons.1 hTnd).1 hvok
    c1 (get_of_cell (hcellT id (by simp))) (fun x hx => hcellT x (List.mem_cons_of_mem _ hx))
    (by rw [c2, c1]; exact w.pool)
    (fun x hx => by
      rw [c2, c1]
      exact terr_live w (fun j hj => hsF j (hTs j hj)) ((mem_relSlot _ _ _ _).1 hx))
    (by
      refine StrOK_congr c3 c4 ?_
      have hp := strRefs_erase_perm d id w.nodup hl
      rw [Forest.treeF_eq hsnd hi, Forest.keyOfTop_arr _ id hlk, goneF_tree] at hp
      exact StrOK_perm hp hs)
  obtain ⟨f1, f2, f3, f4, f5, f6⟩ := finish_removal w hs hl hv' hi c1 c2 c3 c4 c5 c6 c7 c8 he
    (fun x => by rw [mem_relSlot, htree])
  rw [htree] at f5 f6
  refine ⟨hi, hch, f1, f2, ?_, f4, f5, f6⟩
  rw [f3]
  show absWith d F l (.arr _) = _
  rw [map_eraseIdx]

/-! ## `removePair` on an object -/

theorem erase_cons_ne {a b : Nat} (L : List Nat) (h : b ≠ a) : (b :: L).erase a = b :: L.erase a :=
  List.erase_cons_tail (by simpa using h)

/-- facts about the key slot of a member -/
theorem keyOfTop_facts {d : Doc} {k v : Nat} (F : Forest) : ∀ {h : Nat}, Lk d true h F → v ∈ F.tl → F.keyOfTop v = some k →
    isKey (d.get (.slot k)) ∧ d.isVar k ∧ k ≠ d.null := by
  induction F with
  | nil => intro h _ hv; cases hv
  | cons key j s r _ ihr =>
    intro h hl hv hk
    rw [Lk_cons] at hl
    obtain ⟨h1, _, _, h4, _⟩ := hl
    cases key <;> simp only [KeyOK] at h1
    rename_i kk
    obtain ⟨_, a, b, c, _⟩ := h1
    simp only [Forest.keyOfTop] at hk
    by_cases hjv : j = v
    · rw [if_pos hjv] at hk
      simp only [Option.some.injEq] at hk; subst hk
      exact ⟨c, b, a⟩
    · rw [if_neg hjv] at hk
      simp only [Forest.tl, List.mem_cons] at hv
      exact ihr h4 (hv.resolve_left (Ne.symm hjv)) hk

/-- `findIn` along an object chain returns the key and value slots of a top-level tree; erasing that tree removes the
    first member with that key from the abstract member list -/
theorem findIn_tl {d : Doc} (key : List Byte) (F : Forest) : ∀ {h : Nat}, Lk d true h F → F.ids.Nodup →
    ∀ {k v : Nat}, d.findIn key F.top = some (k, v) →
      v ∈ F.tl ∧ F.keyOfTop v = some k ∧
      (vals d noOv F).eraseIdx (List.idxOf v F.tl) = (vals d noOv F).eraseP (fun m => m.1 == key) ∧
      List.idxOf v F.tl = (vals d noOv F).findIdx (fun m => m.1 == key) := by
  induction F with
  | nil => intro h _ _ k v hf; simp [Forest.top, Doc.findIn] at hf
  | cons ko i s r _ ihr =>
    intro h hl hnd k v hf
    rw [Lk_cons] at hl
    obtain ⟨h1, _, _, h4, _⟩ := hl
    cases ko <;> simp only [KeyOK] at h1
    rename_i kk
    obtain ⟨_, ndr, _, njr, _, _⟩ := Forest.nodup_cons hnd
    obtain ⟨_, _, _, hk, _⟩ := h1
    simp only [Forest.top, Forest.keyL, List.cons_append, List.nil_append, Doc.findIn, keyBytes_of_isKey hk,
      Option.some.injEq] at hf
    simp only [Forest.tl, Forest.keyOfTop, vals, keyB, noOv, Option.getD_none, List.idxOf_cons, List.eraseP_cons,
      List.findIdx_cons]
    by_cases hkey : keyOfV d (d.get (.slot kk)) = key
    · rw [if_pos hkey] at hf
      simp only [Option.some.injEq, Prod.mk.injEq] at hf
      obtain ⟨rfl, rfl⟩ := hf
      have hb : (keyOfV d (d.get (.slot kk)) == key) = true := by simp [hkey]
      simp [hb]
    · rw [if_neg hkey] at hf
      obtain ⟨a, b, c, c'⟩ := ihr h4 ndr hf
      have hiv : i ≠ v := fun e => njr (e ▸ r.tl_sub_ids v a)
      have hb : (keyOfV d (d.get (.slot kk)) == key) = false := by simp [hkey]
      have hb2 : (i == v) = false := by simp [hiv]
      simp only [hb, hb2, cond_false, if_neg hiv, List.eraseIdx_cons_succ, List.mem_cons]
      refine ⟨Or.inr a, b, ?_, ?_⟩
      · rw [c]
      · rw [c']

/-- the raw chain once the key slot `k` of a member points past its value slot `v` -/
theorem Ch_skip {d d' : Doc} {k v : Nat} (hn : d'.null = d.null) : ∀ (F : Forest) {h : Nat}, Lk d true h F → F.ids.Nodup →
    v ∈ F.tl → F.keyOfTop v = some k →
    (∀ x ∈ F.top, x ≠ k → x ≠ v → d'.nextOf x = d.nextOf x) → d'.nextOf k = d.nextOf v →
    Ch d' h (F.top.erase v) := by
  intro F
  induction F with
  | nil => intro h _ _ hv; cases hv
  | cons key j s r _ ihr =>
    intro h hl hnd hv hk hoth hkn
    rw [Lk_cons] at hl
    obtain ⟨h1, h2, _, h4, _⟩ := hl
    cases key <;> simp only [KeyOK] at h1
    rename_i kk
    obtain ⟨_, ndr, _, njr, _, nk⟩ := Forest.nodup_cons hnd
    obtain ⟨rfl, a, _, _, hkj⟩ := h1
    have nkk := nk h (by simp [Forest.keyL])
    simp only [Forest.keyOfTop] at hk
    simp only [Forest.top, Forest.keyL, List.cons_append, List.nil_append] at hoth ⊢
    by_cases hjv : j = v
    · rw [if_pos hjv] at hk
      simp only [Option.some.injEq] at hk
      subst hk; subst hjv
      rw [erase_cons_ne _ nkk.1, List.erase_cons_head]
      refine ⟨rfl, hn ▸ a, ?_⟩
      rw [hkn]
      refine Ch_congr hn _ (Ch_of_Lk r h4) (fun x hx => hoth x (by simp [hx]) ?_ ?_)
      · intro e; exact nkk.2.2 (e ▸ r.top_sub_ids x hx)
      · intro e; exact njr (e ▸ r.top_sub_ids x hx)
    · rw [if_neg hjv] at hk
      simp only [Forest.tl, List.mem_cons] at hv
      have hvr : v ∈ r.tl := hv.resolve_left (Ne.symm hjv)
      have hkr : k ∈ r.ids := r.keyOfTop_sub_ids v k (by rw [hk]; simp [Forest.keyL])
      have hhv : h ≠ v := fun e => nkk.2.2 (e ▸ r.tl_sub_ids v hvr)
      have hhk : h ≠ k := fun e => nkk.2.2 (e ▸ hkr)
      have hjk : j ≠ k := fun e => njr (e ▸ hkr)
      rw [erase_cons_ne _ hhv, erase_cons_ne _ hjv]
      refine ⟨rfl, hn ▸ a, ?_⟩
      rw [hoth h (by simp) hhk hhv, hkj]
      refine ⟨rfl, hn ▸ h2, ?_⟩
      rw [hoth j (by simp) hjk hjv]
      exact ihr h4 ndr hvr hk (fun x hx => hoth x (by simp [hx])) hkn

/-- `prevIn` of the key slot along the chain without the value slot: the value slot of the preceding member -/
theorem prevIn_skip {d : Doc} {k v : Nat} : ∀ (F : Forest) {h : Nat} (a : Nat), Lk d true h F → F.ids.Nodup →
    v ∈ F.tl → F.keyOfTop v = some k → prevIn k (a :: F.top.erase v) = F.predFrom (some a) v := by
  intro F
  induction F with
  | nil => intro h a _ _ hv; cases hv
  | cons key j s r _ ihr =>
    intro h a hl hnd hv hk
    rw [Lk_cons] at hl
    obtain ⟨h1, _, _, h4, _⟩ := hl
    cases key <;> simp only [KeyOK] at h1
    rename_i kk
    obtain ⟨_, ndr, _, njr, _, nk⟩ := Forest.nodup_cons hnd
    have nkk := nk kk (by simp [Forest.keyL])
    simp only [Forest.keyOfTop] at hk
    simp only [Forest.top, Forest.keyL, List.cons_append, List.nil_append, predFrom_cons]
    by_cases hjv : j = v
    · rw [if_pos hjv] at hk ⊢
      simp only [Option.some.injEq] at hk
      subst hk; subst hjv
      rw [erase_cons_ne _ nkk.1, List.erase_cons_head]
      simp only [prevIn, if_true]
    · rw [if_neg hjv] at hk ⊢
      simp only [Forest.tl, List.mem_cons] at hv
      have hvr : v ∈ r.tl := hv.resolve_left (Ne.symm hjv)
      have hkr : k ∈ r.ids := r.keyOfTop_sub_ids v k (by rw [hk]; simp [Forest.keyL])
      have hhv : kk ≠ v := fun e => nkk.2.2 (e ▸ r.tl_sub_ids v hvr)
      have hhk : kk ≠ k := fun e => nkk.2.2 (e ▸ hkr)
      have hjk : j ≠ k := fun e => njr (e ▸ hkr)
      rw [erase_cons_ne _ hhv, erase_cons_ne _ hjv]
      simp only [prevIn, if_neg hhk, if_neg hjk]
      exact ihr j h4 ndr hvr hk

theorem prevIn_skip_top {d : Doc} {k v : Nat} (F : Forest) {h : Nat} (hl : Lk d true h F) (hnd : F.ids.Nodup)
    (hv : v ∈ F.tl) (hk : F.keyOfTop v = some k) : prevIn k (F.top.erase v) = F.predFrom none v := by
  cases F with
  | nil => cases hv
  | cons key j s r =>
    rw [Lk_cons] at hl
    obtain ⟨h1, _, _, h4, _⟩ := hl
    cases key <;> simp only [KeyOK] at h1
    rename_i kk
    obtain ⟨_, ndr, _, njr, _, nk⟩ := Forest.nodup_cons hnd
    have nkk := nk kk (by simp [Forest.keyL])
    simp only [Forest.keyOfTop] at hk
    simp only [Forest.top, Forest.keyL, List.cons_append, List.nil_append, predFrom_cons]
    by_cases hjv : j = v
    · rw [if_pos hjv] at hk ⊢
      simp only [Option.some.injEq] at hk
      subst hk; subst hjv
      rw [erase_cons_ne _ nkk.1, List.erase_cons_head]
      exact prevIn_none _ _ (fun m => nkk.2.2 (r.top_sub_ids _ m))
    · rw [if_neg hjv] at hk ⊢
      simp only [Forest.tl, List.mem_cons] at hv
      have hvr : v ∈ r.tl := hv.resolve_left (Ne.symm hjv)
      have hkr : k ∈ r.ids := r.keyOfTop_sub_ids v k (by rw [hk]; simp [Forest.keyL])
      have hhv : kk ≠ v := fun e => nkk.2.2 (e ▸ r.tl_sub_ids v hvr)
      have hjk : j ≠ k := fun e => njr (e ▸ hkr)
      rw [erase_cons_ne _ hhv, erase_cons_ne _ hjv]
      simp only [prevIn, if_neg hjk]
      exact prevIn_skip r j h4 ndr hvr hk

theorem terr_cons (d : Doc) (a : Nat) (js : List Nat) (x : Nat) : Terr d (a :: js) x ↔ Terr d [a] x ∨ Terr d js x := by
  simp only [Terr, List.mem_cons, List.not_mem_nil, or_false]
  constructor
  · rintro ((h | h) | ⟨j, hj | hj, h⟩)
    · exact Or.inl (Or.inl h)
    · exact Or.inr (Or.inl h)
    · exact Or.inl (Or.inr ⟨j, hj, h⟩)
    · exact Or.inr (Or.inr ⟨j, hj, h⟩)
  · rintro ((h | ⟨j, hj, h⟩) | (h | ⟨j, hj, h⟩))
    · exact Or.inl (Or.inl h)
    · exact Or.inr ⟨j, Or.inl hj, h⟩
    · exact Or.inl (Or.inr h)
    · exact Or.inr ⟨j, Or.inr hj, h⟩

/-- a slot of the layout outside a set of slots is outside the territory of that set -/
theorem notin_terr {d : Doc} {F : Forest} (w : WFG d F) {js : List Nat} (hjs : ∀ j ∈ js, j ∈ F.ids) {x : Nat}
    (hx : x ∈ F.ids) (hn : x ∉ js) : ¬ Terr d js x := by
  rintro (m | ⟨j, hj, e⟩)
  · exact hn m
  · exact w.extH.notid j (hjs j hj) x e hx

/-- `ObjectData::remove`: `removePair` on the object stored at `l`, for the member found by `findKey` -/
theorem removePair_core {d : Doc} {F : Forest} {l : Loc} {h t k v : Nat} {key : List Byte} (w : WFG d F)
    (hs : StrOK d (d.strRefs F)) (hl : isLoc F l) (hv : d.get l = .obj h t) (hf : d.findKey l key = some (k, v)) :
    v ∈ (layoutAt F l).tl ∧ (layoutAt F l).keyOfTop v = some k ∧
    List.idxOf v (layoutAt F l).tl = (vals d noOv (layoutAt F l)).findIdx (fun m => m.1 == key) ∧
    WFG (d.removePair l k v) (eraseAt F l v) ∧
    StrOK (d.removePair l k v) ((d.removePair l k v).strRefs (eraseAt F l v)) ∧
    abs (d.removePair l k v) = absWith d F l
      (.obj ((vals d noOv (layoutAt F l)).eraseP (fun m => m.1 == key))) ∧
    (d.removePair l k v).g = d.g ∧
    (∀ x, PL.live (d.removePair l k v).g (d.removePair l k v).pl x ↔
      PL.live d.g d.pl x ∧ ¬ Terr d (k :: v :: ((layoutAt F l).subOf v).ids) x) ∧
    Removed d (d.removePair l k v) F l v (k :: v :: ((layoutAt F l).subOf v).ids) := by
  have hv' : d.get l = mkC true h t := hv
  have hvs : VOK d (mkC true h t) (layoutAt F l) := hv' ▸ VOK_at w hl
  obtain ⟨hlk, _⟩ := (VOK_mkC _ _ _ _ _).1 hvs
  have hsF := layoutAt_ids_sub F l
  have hsnd := layoutAt_nodup w.nodup hl
  have hlen : (layoutAt F l).ids.length ≤ d.fuel :=
    Nat.le_trans (List.Nodup.length_le_of_subset hsnd (fun x hx => hsF x hx)) (Nat.le_of_lt w.fuel_ok)
  simp only [Doc.findKey, hv, chain_eq hlk hlen] at hf
  obtain ⟨hi, hkey, hvals, hidx⟩ := findIn_tl key _ hlk hsnd hf
  obtain ⟨hkk, hkvar, _⟩ := keyOfTop_facts _ hlk hi hkey
  have htree : ((layoutAt F l).treeF v).ids = k :: v :: ((layoutAt F l).subOf v).ids := by
    rw [Forest.treeF_ids hsnd hi, hkey]; rfl
  have hTnd : (k :: v :: ((layoutAt F l).subOf v).ids).Nodup := by
    rw [← htree]
    exact (List.nodup_append.1 (((layoutAt F l).ids_perm_erase v).nodup_iff.1 hsnd)).1
  have hTs : ∀ x ∈ k :: v :: ((layoutAt F l).subOf v).ids, x ∈ (layoutAt F l).ids := by
    intro x hx; rw [← htree] at hx; exact Forest.treeF_ids_sub _ v x hx
  have hpf : ∀ p, (layoutAt F l).predFrom none v = some p →
      p ∈ (layoutAt F l).ids ∧ p ∉ k :: v :: ((layoutAt F l).subOf v).ids := by
    intro p hp
    obtain ⟨a, b⟩ := Forest.predFrom_notin_tree hsnd none p hp (by simp)
    exact ⟨Forest.tl_sub_ids _ p a, htree ▸ b⟩
  have hsl : ∀ j ∈ (layoutAt F l).ids, Loc.slot j ≠ l := by
    intro j hj e
    subst e
    exact self_notin_layoutAt w.nodup j hj
  obtain ⟨hkT, hvsnd⟩ := List.nodup_cons.1 hTnd
  obtain ⟨hvT, hsubnd⟩ := List.nodup_cons.1 hvsnd
  have hkv : k ≠ v := fun e => hkT (by simp [e])
  have hkF : k ∈ F.ids := hsF k (hTs k (by simp))
  have hvF : v ∈ F.ids := hsF v (hTs v (by simp))
  have hsubF : ∀ x ∈ ((layoutAt F l).subOf v).ids, x ∈ F.ids := fun x hx => hsF x (hTs x (by simp [hx]))
  have hvsF : ∀ x ∈ v :: ((layoutAt F l).subOf v).ids, x ∈ F.ids := fun x hx => hsF x (hTs x (List.mem_cons_of_mem _ hx))
  have hkl : Loc.slot k ≠ l := hsl k (hTs k (by simp))
  -- step 1: the key slot points past the value slot
  have hck : d.cell k = .var (d.get (.slot k)) (d.nextOf k) := hkvar
  have a1 : (d.setNext k (d.nextOf v)).cell k = .var (d.get (.slot k)) (d.nextOf v) := cell_setNext_var hck _
  have a2 : ∀ j, j ≠ k → (d.setNext k (d.nextOf v)).cell j = d.cell j := fun j hj => cell_setNext_ne d _ (Ne.symm hj)
  have a3 := setNext_g d k (d.nextOf v)
  have a4 := setNext_pl d k (d.nextOf v)
  have a5 := setNext_strings d k (d.nextOf v)
  have a6 := setNext_nextNode d k (d.nextOf v)
  have a7 := setNext_root d k (d.nextOf v)
  have hrp : d.removePair l k v = ((d.setNext k (d.nextOf v)).freeVariant v).removeOne l k := rfl
  rw [hrp]
  generalize d.setNext k (d.nextOf v) = dA at *
  -- step 2: the value slot and everything below it is released
  have hvok : VOK d (d.get (.slot v)) ((layoutAt F l).subOf v) :=
    (Forest.Lk_subOf _ hlk hsnd (Forest.tl_sub_locs _ v hi)).2.2
  have hperm : List.Perm (d.strRefs F)
      (strOfV (d.get (.slot v)) ++ (goneF d ((layoutAt F l).subOf v) ++
        (strOfV (d.get (.slot k)) ++ d.strRefs (eraseAt F l v)))) := by
    have hp := strRefs_erase_perm d v w.nodup hl
    rw [Forest.treeF_eq hsnd hi, hkey, goneF_tree] at hp
    simp only [Forest.keyL, List.flatMap_cons, List.flatMap_nil, List.append_nil] at hp
    exact hp.trans ((List.perm_append_comm_assoc _ _ _).trans
      ((List.perm_append_comm_assoc _ _ _).append_left _))
  have e1 := free_detached (d2 := dA) (keep := strOfV (d.get (.slot k)) ++ d.strRefs (eraseAt F l v)) w hvF hsubF
    hsubnd hvT hvok a3 (get_of_cell (a2 v (Ne.symm hkv)))
    (fun x hx => a2 x (fun e => hkT (by simp [← e, hx])))
    (by rw [a4, a3]; exact w.pool)
    (fun x hx => by rw [a4, a3]; exact terr_live w hvsF ((mem_relSlot _ _ _ _).1 hx))
    (StrOK_congr a5 a6 (StrOK_perm hperm hs))
  have hrel1 : ∀ x ∈ F.ids, x ∉ v :: ((layoutAt F l).subOf v).ids → x ∉ relSlot d v ((layoutAt F l).subOf v) :=
    fun x hx hn m => notin_terr w hvsF hx hn ((mem_relSlot _ _ _ _).1 m)
  have hkrel : k ∉ relSlot d v ((layoutAt F l).subOf v) := hrel1 k hkF hkT
  generalize hdB : dA.freeVariant v = dB at e1
  have hnB : dB.null = d.null := by rw [e1.null]; simp only [Doc.null, a3]
  have hgB : dB.g = d.g := by rw [e1.g, a3]
  have b1 : dB.cell k = .var (d.get (.slot k)) (d.nextOf v) := by rw [e1.cells k hkrel]; exact a1
  have b2 : ∀ x ∈ F.ids, x ∉ k :: v :: ((layoutAt F l).subOf v).ids → dB.cell x = d.cell x := by
    intro x hx hn
    rw [e1.cells x (hrel1 x hx (fun m => hn (List.mem_cons_of_mem _ m)))]
    exact a2 x (fun e => hn (by simp [e]))
  have hBget : dB.get l = mkC true h t := by
    rw [← hv']
    cases l with
    | root => show dB.root = d.root; rw [e1.root, a7]
    | slot i0 =>
      have hi0 := isLoc_ids hl
      exact get_of_cell (b2 i0 hi0 (fun m => self_notin_layoutAt w.nodup i0 (hTs i0 m)))
  -- the chain seen by `removeOne`
  have htopF : ∀ x ∈ (layoutAt F l).top, x ∈ F.ids := fun x hx => hsF x ((layoutAt F l).top_sub_ids x hx)
  have hchB : dB.chain h = (layoutAt F l).top.erase v := by
    refine chainF_of_Ch _ (Ch_skip hnB _ hlk hsnd hi hkey ?_ ?_) ?_
    · intro x hx hxk hxv
      refine nextOf_of_cell (b2 x (htopF x hx) ?_) hnB
      simp only [List.mem_cons, not_or]
      exact ⟨hxk, hxv, Forest.top_notin_subOf _ v hsnd x hx⟩
    · rw [nextOf_of_var b1]
    · have : dB.fuel = d.fuel := by simp only [Doc.fuel, hgB]
      rw [this]
      exact Nat.le_trans (List.Sublist.length_le List.erase_sublist) (Nat.le_trans (Forest.top_length_le _) hlen)
  have hprev : dB.prevOf h k = (layoutAt F l).predFrom none v := by
    rw [Doc.prevOf, hchB]; exact prevIn_skip_top _ hlk hsnd hi hkey
  rw [removeOne_eq k hBget, hprev, nextOf_of_var b1, hnB]
  -- step 3: unlink in `dB`, and in `d` (the virtual unlinked document)
  have hpB : ∀ p, (layoutAt F l).predFrom none v = some p → dB.cell p = d.cell p := fun p hp =>
    b2 p (hsF p (hpf p hp).1) (hpf p hp).2
  obtain ⟨c1, c2, c3, c4, c5, c6, c7, c8⟩ := unlinkD_cells (d := dB) (l := l) ((layoutAt F l).predFrom none v)
    (d.nextOf v) (mkC true (if ((layoutAt F l).predFrom none v).isNone then d.nextOf v else h)
      (if d.nextOf v = d.null then ((layoutAt F l).predFrom none v).getD d.null else t))
    (fun p hp => ⟨isVar_congr (hpB p hp) hnB (w.isVar p (hsF p (hpf p hp).1)), hsl p (hpf p hp).1⟩)
  obtain ⟨u1, u2, u3, u4, u5, u6, u7, u8⟩ := unlinkD_cells (d := d) (l := l) ((layoutAt F l).predFrom none v)
    (d.nextOf v) (mkC true (if ((layoutAt F l).predFrom none v).isNone then d.nextOf v else h)
      (if d.nextOf v = d.null then ((layoutAt F l).predFrom none v).getD d.null else t))
    (fun p hp => ⟨w.isVar p (hsF p (hpf p hp).1), hsl p (hpf p hp).1⟩)
  generalize (unlinkD dB ((layoutAt F l).predFrom none v) (d.nextOf v)).set l _ = dD at *
  generalize (unlinkD d ((layoutAt F l).predFrom none v) (d.nextOf v)).set l _ = dU at *
  -- step 4: the key slot is released
  have hDk : dD.cell k = .var (d.get (.slot k)) (d.nextOf v) := by
    rw [c8 k hkl (fun e => (hpf k e).2 (by simp))]; exact b1
  have hknil : VOK d (d.get (.slot k)) .nil := (VOK_scalar (isKey_not_coll hkk) _).2 rfl
  have e2 := free_detached (d2 := dD) (sub := .nil) (keep := d.strRefs (eraseAt F l v)) w hkF
    (fun x hx => by cases hx) List.nodup_nil (fun hx => by cases hx) hknil (by rw [c1, hgB]) (get_of_var hDk)
    (fun x hx => by cases hx) (by rw [c2, c1]; exact e1.pool)
    (fun x hx => by
      rw [c2, c1]
      have hx' := (mem_relSlot _ _ _ _).1 hx
      have : x = k := by
        rcases hx' with m | ⟨j, hj, e⟩
        · simpa [Forest.ids] using m
        · simp only [Forest.ids, List.mem_cons, List.not_mem_nil, or_false] at hj
          subst hj; rw [isKey_ext hkk] at e; cases e
      rw [this, e1.live k, a4, a3]
      exact ⟨w.live k hkF, hkrel⟩)
    (StrOK_congr c3 c4 (by simpa [goneF, Forest.ids] using e1.str))
  generalize dD.freeVariant k = dE at *
  -- the composite effect, relative to the virtual unlinked document
  have he : Eff dU dE (relSlot d v ((layoutAt F l).subOf v) ++ relSlot d k .nil) (d.strRefs (eraseAt F l v)) := by
    refine ⟨by rw [e2.g, c1, hgB, u1], ?_, ?_, e2.pool, ?_, e2.str, ?_⟩
    · rw [e2.root]
      cases l with
      | root =>
        have x1 : dD.root = dD.get .root := rfl
        have x2 : dU.root = dU.get .root := rfl
        rw [x1, x2, c5, u5]
      | slot i0 => rw [(c6 i0 rfl).2, (u6 i0 rfl).2, e1.root, a7]
    · intro j hj
      simp only [List.mem_append, not_or] at hj
      obtain ⟨hj1, hj2⟩ := hj
      have hjk : j ≠ k := fun e => hj2 ((mem_relSlot _ _ _ _).2 (Or.inl (by simp [e])))
      have hBj : dB.cell j = d.cell j := by rw [e1.cells j hj1]; exact a2 j hjk
      rw [e2.cells j hj2]
      by_cases hjl : Loc.slot j = l
      · subst hjl
        rw [(c6 j rfl).1, (u6 j rfl).1, nextOf_of_cell hBj hnB]
      · by_cases hjp : (layoutAt F l).predFrom none v = some j
        · rw [c7 j hjp, u7 j hjp, get_of_cell hBj]
        · rw [c8 j hjl hjp, u8 j hjl hjp, hBj]
    · intro x
      rw [e2.live x, c2, c1, e1.live x, a4, a3, u2, u1]
      simp only [List.mem_append, not_or, and_assoc]
    · intro n hn'
      rw [e2.bytes n hn', strBytes_of_strings c3 n, e1.bytes n (List.mem_append_right _ hn'),
        strBytes_of_strings a5 n, strBytes_of_strings u3 n]
  obtain ⟨f1, f2, f3, f4, f5, f6⟩ := finish_removal w hs hl hv' hi u1 u2 u3 u4 u5 u6 u7 u8 he
    (fun x => by
      rw [List.mem_append, mem_relSlot, mem_relSlot, htree]
      exact Or.comm.trans (terr_cons d k _ x).symm)
  rw [htree] at f5 f6
  refine ⟨hi, hkey, hidx, f1, f2, ?_, f4, f5, f6⟩
  rw [f3, hvals]
  rfl

end DL
