/- What `clearV` does to the pool, the allocator log and the string table, exactly (`EffX`: the induction of
   AJ/Lemmas/DocClear.lean strengthened by the free list, the log, the length of the string table and exact reference
   counts), and reuse of released slots by `allocVariant` / `addElement`.
   Used by AJ/Props/C06Doc.lean and AJ/Props/C19Str.lean. -/
import AJ.Lemmas.DocStr
namespace DL
open JD (Byte Val)

/-! ## Exact effects -/

/-- `EffX d d' fp gone keep`: `Eff d d' fp keep`, and moreover: the overflow flag is kept; the pool of `d'` is the pool
    of `d` with the slots `fp` pushed on the free list in this order (so the last one released is handed out first) and
    one `D` logged per string node that disappeared — no allocator call, no pool touched; the byte strings stored are a
    sub-list of the old ones; if the counters of `d` were exact for the references `gone ++ keep`, those of `d'` are
    exact for `keep`. -/
structure EffX (d d' : Doc) (fp gone keep : List Nat) : Prop where
  eff : Eff d d' fp keep
  ov : d'.overflowed = d.overflowed
  len : d'.strings.length ≤ d.strings.length
  pl : d'.pl = d.pl.rel fp.reverse (d.strings.length - d'.strings.length)
  bytes : (d'.strings.map (·.bytes)).Sublist (d.strings.map (·.bytes))
  exact : Exact d (gone ++ keep) → Exact d' keep

theorem EffX.refl {d : Doc} {keep : List Nat} (hp : PL.Inv d.g d.pl) (hs : StrOK d keep) : EffX d d [] [] keep :=
  ⟨Eff.refl hp hs, rfl, Nat.le_refl _, by rw [Nat.sub_self]; rfl, List.Sublist.refl _, fun h => h⟩

theorem EffX.trans {d d1 d2 : Doc} {fp1 fp2 gone1 gone2 keep1 keep : List Nat} (h1 : EffX d d1 fp1 gone1 keep1)
    (h2 : EffX d1 d2 fp2 gone2 keep) (hk : keep1 = gone2 ++ keep) : EffX d d2 (fp1 ++ fp2) (gone1 ++ gone2) keep := by
  subst hk
  refine ⟨h1.eff.trans h2.eff (fun n hn => List.mem_append_right _ hn), by rw [h2.ov, h1.ov],
    Nat.le_trans h2.len h1.len, ?_, h2.bytes.trans h1.bytes, ?_⟩
  · rw [h2.pl, h1.pl, rel_rel, List.reverse_append]
    have h1l := h1.len
    have h2l := h2.len
    congr 1; omega
  · intro h
    exact h2.exact (h1.exact (by rwa [List.append_assoc] at h))

theorem releaseV_owned (d : Doc) (n : Nat) : releaseV d (.owned n) = d.derefString n := rfl
theorem releaseV_raw (d : Doc) (n : Nat) : releaseV d (.raw n) = d.derefString n := rfl

/-- releasing the resources of a non-collection value -/
theorem releaseV_x {d : Doc} {v : VData} {keep : List Nat} (hp : PL.Inv d.g d.pl)
    (hs : StrOK d (strOfV v ++ keep)) (hext : ∀ e ∈ extOfV v, PL.live d.g d.pl e) :
    EffX d (releaseV d v) (extOfV v) (strOfV v) keep := by
  have he := Eff.of_rel (releaseV_spec hp hs hext)
  have plain : releaseV d v = d → extOfV v = [] → strOfV v = [] → EffX d (releaseV d v) (extOfV v) (strOfV v) keep := by
    intro h1 h2 h3
    rw [h1] at he ⊢; rw [h2] at he ⊢; rw [h3]
    exact ⟨he, rfl, Nat.le_refl _, by rw [Nat.sub_self]; rfl, List.Sublist.refl _, fun h => h⟩
  have str : ∀ n, releaseV d v = d.derefString n → extOfV v = [] → strOfV v = [n] →
      EffX d (releaseV d v) (extOfV v) (strOfV v) keep := by
    intro n h1 h2 h3
    rw [h1] at he ⊢; rw [h2] at he ⊢; rw [h3] at hs ⊢
    obtain ⟨a, b, c, e, f⟩ := derefString_facts (keep := keep) hs
    exact ⟨he, a, b, c, e, f⟩
  have ext : ∀ e, releaseV d v = d.freeCell e → extOfV v = [e] → strOfV v = [] →
      EffX d (releaseV d v) (extOfV v) (strOfV v) keep := by
    intro e h1 h2 h3
    rw [h1] at he ⊢; rw [h2] at he ⊢; rw [h3]
    refine ⟨he, rfl, Nat.le_refl _, ?_, List.Sublist.refl _, fun h => h⟩
    show PL.freeSlot d.pl e = d.pl.rel [e] (d.strings.length - d.strings.length)
    rw [Nat.sub_self]; rfl
  cases v
  case owned n => exact str n rfl rfl rfl
  case raw n => exact str n rfl rfl rfl
  case i64 e => exact ext e rfl rfl rfl
  case u64 e => exact ext e rfl rfl rfl
  case f64 e => exact ext e rfl rfl rfl
  all_goals exact plain rfl rfl rfl

/-- after the effect, setting slot `id` and releasing it -/
theorem EffX.set_free {d dm : Doc} {fp gone keep : List Nat} {id : Nat} {v : VData} (h : EffX d dm fp gone keep)
    (hl : PL.live d.g d.pl id) (hid : id ∉ fp) :
    EffX d ((dm.set (.slot id) v).freeCell id) (fp ++ [id]) gone keep := by
  refine ⟨h.eff.set_free hl hid, ?_, ?_, ?_, ?_, ?_⟩
  · show (dm.set (.slot id) v).overflowed = _; rw [set_overflowed]; exact h.ov
  · rw [freeCell_strings, set_strings]; exact h.len
  · rw [freeCell_strings, set_strings]
    show PL.freeSlot (dm.set (.slot id) v).pl id = _
    rw [set_pl, h.pl, freeSlot_rel, List.reverse_append]; rfl
  · rw [freeCell_strings, set_strings]; exact h.bytes
  · intro he
    have := h.exact he
    exact Exact_congr (d := dm) (by rw [freeCell_strings, set_strings]) this

theorem goneF_nil (d : Doc) : goneF d .nil = [] := rfl

/-! ## The induction (same shape as `PCs_all`) -/

/-- statement for a chain laid out as `s` -/
def PCsX (s : Forest) : Prop :=
  ∀ (f w : Nat) (d : Doc) (b : Bool) (start : Nat) (keep : List Nat),
    Lk d b start s → s.depth ≤ f → s.top.length ≤ w → s.ids.length ≤ d.fuel → PL.Inv d.g d.pl →
    (∀ x ∈ fpF d s, PL.live d.g d.pl x) → (fpF d s).Nodup → StrOK d (goneF d s ++ keep) →
    EffX d (walkFree (free1 f) w d start) (fpF d s) (goneF d s) keep

theorem PCsX_nil : PCsX .nil := by
  intro f w d b start keep hl _ _ _ hp _ _ hs
  rw [Lk_nil] at hl; subst hl
  rw [walkFree_null]
  exact EffX.refl hp hs

/-- clearing the value at `l` laid out as `s`, given the statement for its chain -/
theorem PV_of_PCX {s : Forest} (hpc : PCsX s) {f : Nat} {d : Doc} {l : Loc} {keep : List Nat}
    (hv : VOK d (d.get l) s) (hd : s.depth < f) (hfu : s.ids.length ≤ d.fuel) (hp : PL.Inv d.g d.pl)
    (hlive : ∀ x ∈ extOfV (d.get l) ++ fpF d s, PL.live d.g d.pl x)
    (hnd : (extOfV (d.get l) ++ fpF d s).Nodup)
    (hs : StrOK d (strOfV (d.get l) ++ (goneF d s ++ keep))) :
    ∃ dm, Doc.clearVF f d l = dm.set l .null ∧
      EffX d dm (extOfV (d.get l) ++ fpF d s) (strOfV (d.get l) ++ goneF d s) keep := by
  obtain ⟨f', rfl⟩ : ∃ f', f = f' + 1 := ⟨f - 1, by omega⟩
  have htop : s.top.length ≤ d.fuel := Nat.le_trans s.top_length_le hfu
  by_cases hc : isColl (d.get l)
  · cases hg : d.get l <;> rw [hg] at hc hv hlive hnd hs <;> try exact absurd hc (fun h => h)
    · rename_i h t
      obtain ⟨hlk, _⟩ := (VOK_arr _ _ _ _).1 hv
      exact ⟨_, clearVF_arr hg, hpc f' d.fuel d false h keep hlk (by omega) htop hfu hp hlive hnd hs⟩
    · rename_i h t
      obtain ⟨hlk, _⟩ := (VOK_obj _ _ _ _).1 hv
      exact ⟨_, clearVF_obj hg, hpc f' d.fuel d true h keep hlk (by omega) htop hfu hp hlive hnd hs⟩
  · have hnil : s = .nil := (VOK_scalar hc _).1 hv
    subst hnil
    refine ⟨_, clearVF_scalar hc, ?_⟩
    simp only [fpF, goneF_nil, List.append_nil] at hlive hnd ⊢
    have hs' : StrOK d (strOfV (d.get l) ++ keep) := by simpa [goneF, Forest.ids] using hs
    exact releaseV_x hp hs' hlive

/-- one step of the walk: the value in slot `i` (laid out as `s`) is cleared and the slot released -/
theorem step_slotX {s : Forest} (hpc : PCsX s) {f : Nat} {d : Doc} {i : Nat} {keep : List Nat}
    (hv : VOK d (d.get (.slot i)) s) (hd : s.depth < f) (hfu : s.ids.length ≤ d.fuel) (hp : PL.Inv d.g d.pl)
    (hlive : ∀ x ∈ (extOfV (d.get (.slot i)) ++ fpF d s) ++ [i], PL.live d.g d.pl x)
    (hnd : ((extOfV (d.get (.slot i)) ++ fpF d s) ++ [i]).Nodup)
    (hs : StrOK d (strOfV (d.get (.slot i)) ++ (goneF d s ++ keep))) :
    EffX d (free1 f d i) ((extOfV (d.get (.slot i)) ++ fpF d s) ++ [i]) (strOfV (d.get (.slot i)) ++ goneF d s) keep := by
  obtain ⟨hnd1, _, hdisj⟩ := List.nodup_append.1 hnd
  obtain ⟨dm, hdm, he⟩ := PV_of_PCX hpc (l := .slot i) hv hd hfu hp
    (fun x hx => hlive x (List.mem_append_left _ hx)) hnd1 hs
  simp only [free1, hdm]
  exact he.set_free (hlive i (by simp)) (fun m => hdisj i m i (by simp) rfl)

theorem PCsX_all (F : Forest) : PCsX F := by
  induction F with
  | nil => exact PCsX_nil
  | cons key i s r ihs ihr =>
    intro f w d b start keep hl hd hw hfu hp hlive hnd hs
    rw [Lk_cons] at hl
    obtain ⟨h1, h2, h3, h4, h5⟩ := hl
    simp only [Forest.depth] at hd
    simp only [Forest.ids, List.length_append, List.length_cons] at hfu
    rw [goneF_cons] at hs ⊢
    -- generic continuation: after the key part (`dk`), process slot `i`, then the rest of the chain
    have cont : ∀ (dk : Doc) (fpk gk : List Nat) (w' : Nat),
        EffX d dk fpk gk (strOfV (d.get (.slot i)) ++ (goneF d s ++ (goneF d r ++ keep))) →
        (∀ x ∈ (extOfV (d.get (.slot i)) ++ fpF d s) ++ [i], x ∉ fpk) → (∀ x ∈ fpF d r, x ∉ fpk) →
        (∀ x ∈ (extOfV (d.get (.slot i)) ++ fpF d s) ++ [i], PL.live d.g d.pl x) →
        (∀ x ∈ fpF d r, PL.live d.g d.pl x) →
        ((extOfV (d.get (.slot i)) ++ fpF d s) ++ [i] ++ fpF d r).Nodup →
        r.top.length ≤ w' →
        EffX d (walkFree (free1 f) (w'+1) dk i) (fpk ++ (((extOfV (d.get (.slot i)) ++ fpF d s) ++ [i]) ++ fpF d r))
          (gk ++ (strOfV (d.get (.slot i)) ++ (goneF d s ++ goneF d r))) keep := by
      intro dk fpk gk w' hekx hdk1 hdk2 hl1 hl2 hnd12 hw'
      have hek := hekx.eff
      obtain ⟨hndi, hndr, hdir⟩ := List.nodup_append.1 hnd12
      have hii : i ∈ (extOfV (d.get (.slot i)) ++ fpF d s) ++ [i] := by simp
      have hsub : ∀ x ∈ s.ids, x ∈ (extOfV (d.get (.slot i)) ++ fpF d s) ++ [i] := fun x hx => by
        simp only [List.mem_append]; exact Or.inl (Or.inr (ids_sub_fpF d s x hx))
      have hci : dk.cell i = d.cell i := hek.cells i (hdk1 i hii)
      have hgi : dk.get (.slot i) = d.get (.slot i) := get_of_cell hci
      have ags : Agree d dk s.ids := hek.agree (fun x hx => hdk1 x (hsub x hx))
      have hgs : ∀ x ∈ s.ids, dk.get (.slot x) = d.get (.slot x) := fun x hx => get_of_cell (ags.cell x hx)
      have hfk : dk.fuel = d.fuel := by simp only [Doc.fuel, hek.g]
      rw [walkFree_succ _ _ _ (by rw [hek.null]; exact h2), nextOf_of_cell hci hek.null]
      -- slot i in dk
      have e1 : EffX dk (free1 f dk i) ((extOfV (d.get (.slot i)) ++ fpF d s) ++ [i])
          (strOfV (d.get (.slot i)) ++ goneF d s) (goneF d r ++ keep) := by
        have := step_slotX ihs (f := f) (d := dk) (i := i) (keep := goneF d r ++ keep)
          (by rw [hgi]; exact VOK_congr ags h5) (by omega) (by rw [hfk]; omega) hek.pool
          (by rw [hgi, fpF_congr s hgs]; intro x hx; exact (hek.live x).2 ⟨hl1 x hx, hdk1 x hx⟩)
          (by rw [hgi, fpF_congr s hgs]; exact hndi)
          (by rw [hgi, goneF_congr s hgs]; exact hek.str)
        rw [hgi, fpF_congr s hgs, goneF_congr s hgs] at this
        exact this
      have e2x := hekx.trans e1 (by simp only [List.append_assoc])
      have e2 := e2x.eff
      -- the rest of the chain
      have hout : ∀ x ∈ r.ids, x ∉ fpk ++ ((extOfV (d.get (.slot i)) ++ fpF d s) ++ [i]) := by
        intro x hx m
        have hxr := ids_sub_fpF d r x hx
        rcases List.mem_append.1 m with m | m
        · exact hdk2 x hxr m
        · exact hdir x m x hxr rfl
      have agr : Agree d (free1 f dk i) r.ids := e2.agree hout
      have hgr : ∀ x ∈ r.ids, (free1 f dk i).get (.slot x) = d.get (.slot x) := fun x hx => get_of_cell (agr.cell x hx)
      have e3 := ihr f w' (free1 f dk i) b (d.nextOf i) keep (Lk_congr r agr h4) (by omega) hw'
        (by simp only [Doc.fuel, e2.g]; simp only [Doc.fuel] at hfu; omega) e2.pool
        (by
          rw [fpF_congr r hgr]; intro x hx
          refine (e2.live x).2 ⟨hl2 x hx, ?_⟩
          intro m
          rcases List.mem_append.1 m with m | m
          · exact hdk2 x hx m
          · exact hdir x m x hx rfl)
        (by rw [fpF_congr r hgr]; exact hndr)
        (by rw [goneF_congr r hgr]; exact e2.str)
      rw [fpF_congr r hgr, goneF_congr r hgr] at e3
      have := e2x.trans e3 rfl
      simpa only [List.append_assoc] using this
    cases b <;> cases key <;> simp only [KeyOK] at h1
    · -- array element
      subst h1
      simp only [Forest.top, Forest.keyL, List.nil_append, List.length_cons] at hw
      simp only [fpF, List.nil_append, Forest.keyL, List.flatMap_nil] at hlive hnd hs ⊢
      simp only [List.append_assoc] at hs
      obtain ⟨w', rfl⟩ : ∃ w', w = w' + 1 := ⟨w - 1, by omega⟩
      have := cont d [] [] w' (EffX.refl hp hs) (fun _ _ m => by cases m) (fun _ _ m => by cases m)
        (fun x hx => hlive x (List.mem_append_left _ hx)) (fun x hx => hlive x (List.mem_append_right _ hx))
        hnd (by omega)
      simpa only [List.nil_append] using this
    · -- object member: key slot first
      rename_i k
      obtain ⟨rfl, hk2, hk3, hk4, hk5⟩ := h1
      simp only [Forest.top, Forest.keyL, List.cons_append, List.nil_append, List.length_cons] at hw
      simp only [fpF, Forest.keyL, List.flatMap_cons, List.flatMap_nil, List.append_nil] at hlive hnd hs ⊢
      simp only [List.append_assoc] at hs
      obtain ⟨w', rfl⟩ : ∃ w', w = w' + 2 := ⟨w - 2, by omega⟩
      obtain ⟨hndk, hndrest, hdk⟩ := List.nodup_append.1 hnd
      obtain ⟨hndk', hndrest', hdk'⟩ := List.nodup_append.1 hndk
      have hkcoll : ¬ isColl (d.get (.slot start)) := by
        intro hc; cases hv : d.get (.slot start) <;> rw [hv] at hc hk4 <;> first | exact hc | exact hk4
      have ek := step_slotX PCsX_nil (f := f) (d := d) (i := start)
        (keep := strOfV (d.get (.slot i)) ++ (goneF d s ++ (goneF d r ++ keep)))
        ((VOK_scalar hkcoll _).2 rfl) (by simp only [Forest.depth]; omega) (by simp [Forest.ids]) hp
        (by
          simp only [fpF, List.append_nil]
          intro x hx; exact hlive x (List.mem_append_left _ (List.mem_append_left _ hx)))
        (by simp only [fpF, List.append_nil]; exact hndk')
        (by simpa [goneF, Forest.ids] using hs)
      simp only [fpF, goneF_nil, List.append_nil] at ek
      rw [walkFree_succ _ _ _ hk2, hk5]
      have := cont (free1 f d start) (extOfV (d.get (.slot start)) ++ [start]) (strOfV (d.get (.slot start))) w' ek
        (fun x hx m => hdk' x m x hx rfl)
        (fun x hx m => hdk x (List.mem_append_left _ m) x hx rfl)
        (fun x hx => hlive x (List.mem_append_left _ (List.mem_append_right _ hx)))
        (fun x hx => hlive x (List.mem_append_right _ hx))
        (List.nodup_append.2 ⟨hndrest', hndrest, fun a ha b hb => hdk a (List.mem_append_right _ ha) b hb⟩) (by omega)
      simpa only [List.append_assoc] using this

/-! ## `clearV` at any location of a well-formed document, exactly -/

/-- slots released by `clearV l`, in the order of release: the extension slot of a 64-bit scalar, or the slots of the
    subtree (each one after its own subtree and extension slot) -/
def relSlots (d : Doc) (F : Forest) (l : Loc) : List Nat := extOfV (d.get l) ++ fpF d (layoutAt F l)
/-- string references dropped by `clearV l` (with multiplicity), in the order in which they are dropped -/
def relStrs (d : Doc) (F : Forest) (l : Loc) : List Nat := strOfV (d.get l) ++ goneF d (layoutAt F l)

theorem clearV_x {d : Doc} {F : Forest} {l : Loc} (w : WFG d F) (hs : StrOK d (d.strRefs F)) (hl : isLoc F l) :
    ∃ dm, d.clearV l = dm.set l .null ∧ EffX d dm (relSlots d F l) (relStrs d F l) (keepL d F l) ∧
      (d.clearV l).strRefs (replaceAt F l .nil) = keepL d F l ∧
      (∀ x ∈ (layoutAt F l).ids, x ∈ relSlots d F l) ∧
      (∀ x ∈ relSlots d F l, x ∈ extOfV (d.get l) ∨ Terr d (layoutAt F l).ids x) ∧ (relSlots d F l).Nodup ∧
      (∀ x ∈ relSlots d F l, PL.live d.g d.pl x) := by
  have hv := VOK_at w hl
  have hsF := layoutAt_ids_sub F l
  have hsnd := layoutAt_nodup w.nodup hl
  have hlen : (layoutAt F l).ids.length ≤ F.ids.length := List.Nodup.length_le_of_subset hsnd (fun x hx => hsF x hx)
  have hfu := w.fuel_ok
  obtain ⟨t1, t2⟩ := fpF_terr_nodup w.extH (layoutAt F l) hsF hsnd
  have hmem : ∀ x ∈ extOfV (d.get l) ++ fpF d (layoutAt F l), x ∈ extOfV (d.get l) ∨ Terr d (layoutAt F l).ids x := by
    intro x hx
    rcases List.mem_append.1 hx with m | m
    · exact Or.inl m
    · exact Or.inr (t2 x m)
  have hlive : ∀ x ∈ extOfV (d.get l) ++ fpF d (layoutAt F l), PL.live d.g d.pl x := by
    intro x hx
    rcases hmem x hx with m | m | ⟨j, hj, e⟩
    · exact (w.ext l (loc_mem_holders hl) x m).2.1
    · exact w.live x (hsF x m)
    · exact (w.ext (.slot j) (mem_holders.2 (Or.inr ⟨j, hsF j hj, rfl⟩)) x e).2.1
  have hnd : (extOfV (d.get l) ++ fpF d (layoutAt F l)).Nodup := by
    by_cases hc : isColl (d.get l)
    · have : extOfV (d.get l) = [] := by
        cases hg : d.get l <;> rw [hg] at hc <;> first | rfl | exact absurd hc (fun h => h)
      rw [this]; exact t1
    · have hnil : layoutAt F l = .nil := (VOK_scalar hc _).1 hv
      rw [hnil]; simp only [fpF, List.append_nil]; exact extOfV_nodup _
  obtain ⟨dm, hdm, hex⟩ := PV_of_PCX (PCsX_all (layoutAt F l)) (f := d.fuel) (d := d) (l := l) (keep := keepL d F l) hv
    (Nat.lt_of_le_of_lt (layoutAt F l).depth_le (by omega)) (by omega) w.pool hlive hnd
    (StrOK_perm (strRefs_split w.nodup hl) hs)
  have hdm : d.clearV l = dm.set l .null := hdm
  have he := hex.eff
  have H := w.extH
  have hout : ∀ x ∈ F.ids, x ∉ (layoutAt F l).ids → x ∉ extOfV (d.get l) ++ fpF d (layoutAt F l) := by
    intro x hx hxs m
    rcases hmem x m with m | m | ⟨j, hj, e⟩
    · obtain ⟨⟨p, hp⟩, _, _⟩ := w.ext l (loc_mem_holders hl) x m
      exact ext_ne_var hp (w.isVar x hx) rfl
    · exact hxs m
    · exact H.notid j (hsF j hj) x e hx
  refine ⟨dm, hdm, hex, ?_, fun x hx => List.mem_append_right _ (ids_sub_fpF d _ x hx), hmem, hnd, hlive⟩
  rw [hdm]
  have hget : ∀ x ∈ F.ids, x ∉ (layoutAt F l).ids → Loc.slot x ≠ l → (dm.set l .null).get (.slot x) = d.get (.slot x) :=
    fun x hx hxs hxl => by rw [get_set_ne hxl]; exact get_of_cell (he.cells x (hout x hx hxs))
  apply flatMap_congr'
  intro l0 h0
  by_cases hll : l0 = l
  · subst hll; rw [get_set_self, if_pos rfl]; rfl
  · rw [if_neg hll]
    rcases mem_holders.1 h0 with e | ⟨x, hx, e⟩
    · subst e; rw [get_set_ne hll]; show strOfV dm.root = _; rw [he.root]; rfl
    · subst e
      obtain ⟨hxF, hxs⟩ := (mem_ids_cleared w.nodup hl x).1 hx
      rw [hget x hxF hxs hll]

/-- the references of `d` are those dropped by `clearV l` plus those of the document that remains -/
theorem strRefs_clearV_perm {d : Doc} {F : Forest} {l : Loc} (w : WFG d F) (hs : StrOK d (d.strRefs F)) (hl : isLoc F l) :
    List.Perm (d.strRefs F) (relStrs d F l ++ (d.clearV l).strRefs (replaceAt F l .nil)) := by
  obtain ⟨dm, _, _, h, _⟩ := clearV_x w hs hl
  rw [h]
  have := strRefs_split (d := d) w.nodup hl
  simpa only [relStrs, List.append_assoc] using this

/-- `clearV l`, exactly: pool, log, overflow flag, string table.
    * the pool is the old one with the released slots pushed on the free list (last released first) and one `D` per
      string node that disappeared: no allocator call, no pool touched;
    * the table never grows, its byte strings are a sub-list of the old ones;
    * exact reference counts stay exact. -/
theorem clearV_exact {d : Doc} {F : Forest} {l : Loc} (w : WFG d F) (hs : StrOK d (d.strRefs F)) (hl : isLoc F l) :
    (d.clearV l).pl = d.pl.rel (relSlots d F l).reverse (d.strings.length - (d.clearV l).strings.length) ∧
    (d.clearV l).strings.length ≤ d.strings.length ∧
    (d.clearV l).overflowed = d.overflowed ∧
    ((d.clearV l).strings.map (·.bytes)).Sublist (d.strings.map (·.bytes)) ∧
    (Exact d (d.strRefs F) → Exact (d.clearV l) ((d.clearV l).strRefs (replaceAt F l .nil))) := by
  obtain ⟨dm, hdm, hex, h, _⟩ := clearV_x w hs hl
  rw [h, hdm, set_pl, set_strings, set_overflowed]
  refine ⟨hex.pl, hex.len, hex.ov, hex.bytes, fun he => ?_⟩
  have h1 : Exact d (relStrs d F l ++ keepL d F l) := by
    refine Exact_perm ?_ he
    have := strRefs_split (d := d) w.nodup hl
    simpa only [relStrs, List.append_assoc] using this
  exact Exact_congr (d := dm) (set_strings _ _ _) (hex.exact h1)

/-! ## Reuse of released slots -/

theorem appendOne_pl (d : Doc) (l : Loc) (id : Nat) : (d.appendOne l id).pl = d.pl := by
  simp only [Doc.appendOne]
  split
  · split
    · rw [set_pl, setNext_pl]
    · rw [set_pl]
  · rfl

theorem appendOne_strings (d : Doc) (l : Loc) (id : Nat) : (d.appendOne l id).strings = d.strings := by
  simp only [Doc.appendOne]
  split
  · split
    · rw [set_strings, setNext_strings]
    · rw [set_strings]
  · rfl

theorem appendOne_overflowed (d : Doc) (l : Loc) (id : Nat) : (d.appendOne l id).overflowed = d.overflowed := by
  simp only [Doc.appendOne]
  split
  · split
    · rw [set_overflowed]; simp only [Doc.setNext]; split <;> rfl
    · rw [set_overflowed]
  · rfl

/-- with a non-empty free list `allocVariant` hands out its head: the allocator is not called, no pool is touched -/
theorem allocVariant_reuse {d : Doc} {id : Nat} {rest : List Nat} (hf : d.pl.free = id :: rest) :
    d.allocVariant =
      (some id, { d with pl := { d.pl with free := rest }, cells := d.cells.insert id (.var .null d.null) }) := by
  simp only [Doc.allocVariant, PL.allocSlot_cons hf]

theorem addElement_reuse {d : Doc} {id : Nat} {rest : List Nat} (hf : d.pl.free = id :: rest) (l : Loc) :
    (d.addElement l).1 = some id ∧ (d.addElement l).2.pl = { d.pl with free := rest } ∧
    (d.addElement l).2.overflowed = d.overflowed ∧ (d.addElement l).2.strings = d.strings := by
  have h : d.addElement l = (some id, (d.allocVariant.2).appendOne l id) := by
    simp only [Doc.addElement, allocVariant_reuse hf]
  rw [h, allocVariant_reuse hf]
  exact ⟨rfl, appendOne_pl _ _ _, appendOne_overflowed _ _ _, appendOne_strings _ _ _⟩

/-- a sequence of `array.add()` at the locations `ls`: results and final document -/
def addAll : List Loc → Doc → List (Option Nat) × Doc
  | [], d => ([], d)
  | l :: ls, d => ((d.addElement l).1 :: (addAll ls (d.addElement l).2).1, (addAll ls (d.addElement l).2).2)

/-- as long as the free list lasts, insertions take their slots from it, in order, and the pool state changes in
    nothing but the free list: no allocator call (`calls`, `log` unchanged), no pool touched -/
theorem addAll_reuse : ∀ (ls : List Loc) (d : Doc), ls.length ≤ d.pl.free.length →
    (addAll ls d).1 = (d.pl.free.take ls.length).map some ∧
    (addAll ls d).2.pl = { d.pl with free := d.pl.free.drop ls.length } ∧
    (addAll ls d).2.overflowed = d.overflowed ∧ (addAll ls d).2.strings = d.strings := by
  intro ls
  induction ls with
  | nil => intro d _; exact ⟨rfl, rfl, rfl, rfl⟩
  | cons l ls ih =>
    intro d hlen
    cases hf : d.pl.free with
    | nil => rw [hf] at hlen; simp at hlen
    | cons id rest =>
      obtain ⟨a, b, c, e⟩ := addElement_reuse hf l
      rw [hf] at hlen
      simp only [List.length_cons] at hlen
      obtain ⟨x, y, z, u⟩ := ih (d.addElement l).2 (by rw [b]; show ls.length ≤ rest.length; omega)
      simp only [addAll, a, x, y, z, u, b, c, e, List.length_cons, List.take_succ_cons, List.map_cons,
        List.drop_succ_cons, and_self]

/-! ## The references of a document after `appendOne`, `addElement`, `setArg` -/

/-- `appendOne` of a fresh null slot leaves the references (as a multiset) unchanged -/
theorem appendOne_strRefs_perm {d : Doc} {F : Forest} {l : Loc} {h t id : Nat} (w : WFG d F)
    (hl : isLoc F l) (hv : d.get l = .arr h t) (hid : d.cell id = .var .null d.null) (hidF : id ∉ F.ids)
    (hlt : id < d.null) (hfree : PL.live d.g d.pl id) :
    List.Perm ((d.appendOne l id).strRefs (replaceAt F l ((layoutAt F l).snoc none id))) (d.strRefs F) := by
  have w' := (appendOne_spec w hl hv hid hidF hlt hfree).1
  have hvs : VOK d (.arr h t) (layoutAt F l) := hv ▸ VOK_at w hl
  obtain ⟨hlk, ht⟩ := (VOK_arr _ _ _ _).1 hvs
  obtain ⟨htf, htl⟩ := tail_facts w hl hlk ht
  obtain ⟨hn, hstr, hpl, hg, hget, hco, hct, hroot, hci⟩ := appendOne_cells (id := id) hv htl
  generalize d.appendOne l id = d' at *
  have hsF := layoutAt_ids_sub F l
  have hperm : List.Perm (replaceAt F l ((layoutAt F l).snoc none id)).ids (id :: F.ids) := by
    refine (List.perm_ext_iff_of_nodup w'.nodup (List.nodup_cons.2 ⟨hidF, w.nodup⟩)).2 ?_
    intro x
    rw [mem_ids_replaceAt _ w.nodup hl, Forest.ids_snoc]
    simp only [Forest.keyL, List.nil_append, List.mem_append, List.mem_cons, List.not_mem_nil, or_false]
    constructor
    · rintro (⟨h1, _⟩ | h1 | h1)
      · exact Or.inr h1
      · exact Or.inr (hsF x h1)
      · exact Or.inl h1
    · rintro (h1 | h1)
      · exact Or.inr (Or.inr h1)
      · by_cases hx : x ∈ (layoutAt F l).ids
        · exact Or.inr (Or.inl hx)
        · exact Or.inl ⟨h1, hx⟩
  have hgid : d'.get (.slot id) = .null := by
    refine get_of_var (v := .null) (n := d.null) ?_
    rw [hco id ?_ ?_, hid]
    · intro e
      have : id ∈ F.ids := isLoc_ids (e ▸ hl)
      exact hidF this
    · intro htn e; exact hidF (e ▸ (htf htn).2.2.1)
  have hgets : ∀ l0 ∈ holders F, strOfV (d'.get l0) = strOfV (d.get l0) := by
    intro l0 h0
    by_cases hl0 : l0 = l
    · subst hl0; rw [hget, hv]; rfl
    · rcases mem_holders.1 h0 with e | ⟨x, hx, e⟩
      · subst e; show strOfV d'.root = strOfV d.root; rw [hroot (Ne.symm hl0)]
      · subst e
        by_cases hxt : t ≠ d.null ∧ x = t
        · obtain ⟨htn, rfl⟩ := hxt
          rw [get_of_var (hct htn (htf htn).2.2.2)]
        · rw [get_of_cell (hco x hl0 (fun htn e => hxt ⟨htn, e⟩))]
  have hp := (holders_perm_cons hperm).flatMap_right (fun l0 => strOfV (d'.get l0))
  have : (Loc.slot id :: holders F).flatMap (fun l0 => strOfV (d'.get l0)) = d.strRefs F := by
    rw [List.flatMap_cons, hgid]
    exact flatMap_congr' _ hgets
  rw [this] at hp
  exact hp

/-- a document whose pool only grew has the same references -/
theorem strRefs_of_grow {d d' : Doc} {F : Forest} (w : WFG d F) (h : Grow d d') : d'.strRefs F = d.strRefs F := by
  apply flatMap_congr'
  intro l0 h0
  rcases mem_holders.1 h0 with e | ⟨x, hx, e⟩
  · subst e; show strOfV d'.root = strOfV d.root; rw [h.root]
  · subst e; rw [get_of_cell (h.cells x (w.live x hx))]

/-- ghost layout after `addElement l` -/
def addLayout (d : Doc) (F : Forest) (l : Loc) : Forest :=
  match (d.addElement l).1 with
  | some id => replaceAt F l ((layoutAt F l).snoc none id)
  | none => F

/-- `addElement` on an array location: the string table is not touched and the references are the same multiset -/
theorem addElement_strRefs {d : Doc} {F : Forest} {l : Loc} {h t : Nat} (w : WFG d F) (hs : StrOK d (d.strRefs F))
    (gok : PL.GeoOK d.g) (hl : isLoc F l) (hv : d.get l = .arr h t) :
    (d.addElement l).2.strings = d.strings ∧
    List.Perm ((d.addElement l).2.strRefs (addLayout d F l)) (d.strRefs F) := by
  simp only [addLayout, Doc.addElement]
  generalize hal : d.allocVariant = r
  obtain ⟨m, d1⟩ := r
  cases m with
  | none =>
    obtain ⟨hg, _, _⟩ := allocVariant_none gok w.pool hal
    simp only
    exact ⟨hg.strings, by rw [strRefs_of_grow w hg]⟩
  | some id =>
    obtain ⟨hg, _, hc, _, hnl, hlt, hlv⟩ := allocVariant_some gok w.pool hal
    obtain ⟨w1, _, _⟩ := wfg_of_grow w hs hg
    obtain ⟨o1, _, _⟩ := grow_obs w hs hg hl
    have hn : d1.null = d.null := by simp only [Doc.null, hg.g]
    have hp := appendOne_strRefs_perm (d := d1) (id := id) w1 hl (by rw [o1]; exact hv) (by rw [hn]; exact hc)
      (fun m => hnl (w.live id m)) (by rw [hn]; exact hlt) ((hlv id).2 (Or.inr rfl))
    simp only
    refine ⟨by rw [appendOne_strings, hg.strings], ?_⟩
    rw [strRefs_of_grow w hg] at hp
    exact hp

/-- exact counts after storing `v'` at a location that held no string (`d1`: after the resource was acquired) -/
theorem set_gen_exact {d d1 : Doc} {F : Forest} {l : Loc} {v' : VData} (w : WFG d F) (hl : isLoc F l)
    (hold : strOfV (d.get l) = []) (hroot : d1.root = d.root) (hcells : ∀ j ∈ F.ids, d1.cell j = d.cell j)
    (he1 : Exact d1 (strOfV v' ++ d.strRefs F)) : Exact (d1.set l v') ((d1.set l v').strRefs F) := by
  refine Exact_congr (d := d1) (set_strings _ _ _) ?_
  have hp := strRefs_set_perm (d := d) (d' := d1.set l v') w.nodup (loc_mem_holders hl) ?_ hold
  · rw [get_set_self] at hp
    exact Exact_perm hp.symm he1
  · intro l0 h0 hne
    rw [get_set_ne hne]
    rcases mem_holders.1 h0 with e | ⟨x, hx, e⟩
    · subst e; show strOfV d1.root = _; rw [hroot]; rfl
    · subst e; rw [get_of_cell (hcells x hx)]

/-- `setArg` on a cleared location that reports success keeps exact counts exact -/
theorem setArg_exact {d : Doc} {F : Forest} {l : Loc} {a : Arg} (w : WFG d F) (hs : StrOK d (d.strRefs F))
    (he : Exact d (d.strRefs F)) (hl : isLoc F l) (hnull : d.get l = .null) (gok : PL.GeoOK d.g)
    (hok : (d.setArg l a).1 = true) : Exact (d.setArg l a).2 ((d.setArg l a).2.strRefs F) := by
  have hold : strOfV (d.get l) = [] := by rw [hnull]; rfl
  have plain : ∀ v', strOfV v' = [] → Exact (d.set l v') ((d.set l v').strRefs F) := fun v' hv' =>
    set_gen_exact w hl hold rfl (fun _ _ => rfl) (by rw [hv']; exact he)
  have ext : ∀ (p : Int) (e : Nat) (d1 : Doc) v', d.allocExt p = (some e, d1) → strOfV v' = [] →
      Exact (d1.set l v') ((d1.set l v').strRefs F) := fun p e d1 v' hal hv' => by
    obtain ⟨_, hroot, _, _, hco, _, _, hnl, _⟩ := allocExt_spec w gok hal
    obtain ⟨h1, _⟩ := allocExt_str hal
    exact set_gen_exact w hl hold hroot (fun j hj => hco j (fun e' => hnl (e' ▸ w.live j hj)))
      (by rw [hv']; exact Exact_congr h1 he)
  have copied : ∀ (s : List Byte) (n : Nat) (d1 : Doc) v', d.saveString s = (some n, d1) → strOfV v' = [n] →
      Exact (d1.set l v') ((d1.set l v').strRefs F) := fun s n d1 v' hal hv' => by
    obtain ⟨_, hroot, hcells, _⟩ := saveString_spec hs.ids_nodup hs.ids_lt hal
    exact set_gen_exact w hl hold hroot (fun j _ => by simp only [Doc.cell, hcells])
      (by rw [hv']; exact saveString_exact hs he hal)
  have nofail : ∀ (s : List Byte) (d1 : Doc), d.saveString s = (none, d1) → d1.overflowed = true := by
    intro s d1 hal
    cases hf : d.strings.find? (·.bytes == s) with
    | some x => rw [saveString_found hf] at hal; simp at hal
    | none =>
      rw [saveString_new hf] at hal
      split at hal
      · simp only [Prod.mk.injEq, true_and] at hal; subst hal; rfl
      split at hal
      · simp only [Prod.mk.injEq, true_and] at hal; subst hal; rfl
      · simp at hal
  cases a with
  | null => exact he
  | bool b => exact plain _ rfl
  | f32 b => exact plain _ rfl
  | strLinked s => exact plain _ rfl
  | sint v =>
    simp only [Doc.setArg] at hok ⊢
    split
    · exact plain _ rfl
    · rename_i hr
      rw [if_neg hr] at hok
      generalize hal : d.allocExt v = r at hok ⊢
      obtain ⟨m, d1⟩ := r
      cases m with
      | none => simp at hok
      | some e => exact ext _ e d1 _ hal rfl
  | uint v =>
    simp only [Doc.setArg] at hok ⊢
    split
    · exact plain _ rfl
    · rename_i hr
      rw [if_neg hr] at hok
      generalize hal : d.allocExt v = r at hok ⊢
      obtain ⟨m, d1⟩ := r
      cases m with
      | none => simp at hok
      | some e => exact ext _ e d1 _ hal rfl
  | f64 b =>
    simp only [Doc.setArg] at hok ⊢
    split
    · exact plain (.f32 _) rfl
    · generalize hal : d.allocExt b = r at hok ⊢
      obtain ⟨m, d1⟩ := r
      cases m with
      | none => simp_all
      | some e => exact ext _ e d1 _ hal rfl
  | strCopied s =>
    simp only [Doc.setArg] at hok ⊢
    generalize hal : d.saveString s = r at hok ⊢
    obtain ⟨m, d1⟩ := r
    cases m with
    | none => exfalso; simp [nofail s d1 hal] at hok
    | some n => exact copied s n d1 _ hal rfl
  | raw s =>
    simp only [Doc.setArg] at hok ⊢
    generalize hal : d.saveString s = r at hok ⊢
    obtain ⟨m, d1⟩ := r
    cases m with
    | none => exfalso; simp [nofail s d1 hal] at hok
    | some n => exact copied s n d1 _ hal rfl

/-! ## Balance of the allocator log, stored-once invariant: `addElement`, `clearV` -/

theorem addElement_pl_s (d : Doc) (l : Loc) :
    (d.addElement l).2.pl = d.allocVariant.2.pl ∧ (d.addElement l).2.strings = d.strings := by
  have hs := (allocVariant_pl_s d).2
  simp only [Doc.addElement]
  generalize d.allocVariant = r at hs ⊢
  obtain ⟨m, d1⟩ := r
  cases m
  · exact ⟨rfl, hs⟩
  · exact ⟨appendOne_pl _ _ _, by rw [appendOne_strings]; exact hs⟩

theorem addElement_bal {d : Doc} (l : Loc) (h : Bal d) : Bal (d.addElement l).2 :=
  Bal_of (by rw [(addElement_pl_s d l).1, (allocVariant_pl_s d).1, PL.allocSlot_net]) (by rw [(addElement_pl_s d l).2]) h

theorem addElement_bytesNodup {d : Doc} (l : Loc) (h : BytesNodup d) : BytesNodup (d.addElement l).2 := by
  unfold BytesNodup at *; rw [(addElement_pl_s d l).2]; exact h

theorem clearV_bal {d : Doc} {F : Forest} {l : Loc} (w : WFG d F) (hs : StrOK d (d.strRefs F)) (hl : isLoc F l)
    (h : Bal d) : Bal (d.clearV l) := by
  obtain ⟨a, b, _⟩ := clearV_exact w hs hl
  unfold Bal at *
  rw [a, net_rel, h]; omega

theorem clearV_bytesNodup {d : Doc} {F : Forest} {l : Loc} (w : WFG d F) (hs : StrOK d (d.strRefs F)) (hl : isLoc F l)
    (h : BytesNodup d) : BytesNodup (d.clearV l) :=
  List.Nodup.sublist (clearV_exact w hs hl).2.2.2.1 h

/-! ## Small equations used to instantiate the theorems on concrete documents
    (`Std.HashMap` with a key other than 0 does not evaluate in the kernel: `USize`) -/

theorem setArg_sint_big {d d1 : Doc} {l : Loc} {v : Int} {e : Nat} (hv : ¬ (-2^31 ≤ v ∧ v < 2^31))
    (hal : d.allocExt v = (some e, d1)) : d.setArg l (.sint v) = (true, d1.set l (.i64 e)) := by
  simp only [Doc.setArg, if_neg hv, hal]

theorem setArg_copied_found {d : Doc} {l : Loc} {s : List Byte} {x : StrNode}
    (hf : d.strings.find? (·.bytes == s) = some x) :
    d.setArg l (.strCopied s) = (!d.overflowed, (d.saveString s).2.set l (.owned x.id)) := by
  simp only [Doc.setArg, saveString_found hf, set_overflowed]

theorem allocExt_root (d : Doc) (p : Int) : (d.allocExt p).2.root = d.root := by
  simp only [Doc.allocExt]; split <;> rfl

theorem allocVariant_overflowed_some {d d1 : Doc} {id : Nat} (h : d.allocVariant = (some id, d1)) :
    d1.overflowed = d.overflowed := by
  simp only [Doc.allocVariant] at h
  split at h
  · simp only [Prod.mk.injEq] at h; obtain ⟨_, rfl⟩ := h; rfl
  · simp at h

theorem addElement_overflowed_some {d : Doc} {l : Loc} {id : Nat} (h : (d.addElement l).1 = some id) :
    (d.addElement l).2.overflowed = d.overflowed := by
  generalize hal : d.allocVariant = r
  obtain ⟨m, d1⟩ := r
  simp only [Doc.addElement, hal] at h ⊢
  cases m with
  | none => simp at h
  | some j =>
    show (d1.appendOne l j).overflowed = _
    rw [appendOne_overflowed, allocVariant_overflowed_some hal]

/-- clearing a slot location leaves the root value in place -/
theorem clearV_slot_root {d : Doc} {F : Forest} {i : Nat} (w : WFG d F) (hs : StrOK d (d.strRefs F))
    (hl : isLoc F (.slot i)) : (d.clearV (.slot i)).root = d.root := by
  obtain ⟨dm, hdm, hex, _⟩ := clearV_x w hs hl
  rw [hdm, root_set_slot, hex.eff.root]

/-- the element added by `addElement` holds null -/
theorem addElement_get_new {d : Doc} {F : Forest} {l : Loc} {h t id : Nat} (w : WFG d F) (hs : StrOK d (d.strRefs F))
    (gok : PL.GeoOK d.g) (hl : isLoc F l) (hv : d.get l = .arr h t) (h1 : (d.addElement l).1 = some id) :
    (d.addElement l).2.get (.slot id) = .null := by
  generalize hal : d.allocVariant = r
  obtain ⟨m, d1⟩ := r
  have hm : m = some id := by
    have : (d.addElement l).1 = m := by simp only [Doc.addElement, hal]; cases m <;> rfl
    rw [← this, h1]
  subst hm
  have heq : d.addElement l = (some id, d1.appendOne l id) := by simp only [Doc.addElement, hal]
  rw [heq]
  obtain ⟨hg, _, hc, _, hnl, hlt, hlv⟩ := allocVariant_some gok w.pool hal
  obtain ⟨w1, _, _⟩ := wfg_of_grow w hs hg
  obtain ⟨o1, _, _⟩ := grow_obs w hs hg hl
  have hn : d1.null = d.null := by simp only [Doc.null, hg.g]
  have hv1 : d1.get l = .arr h t := by rw [o1]; exact hv
  have hidF : id ∉ F.ids := fun m => hnl (w.live id m)
  have hvs : VOK d1 (.arr h t) (layoutAt F l) := hv1 ▸ VOK_at w1 hl
  obtain ⟨hlk, ht⟩ := (VOK_arr _ _ _ _).1 hvs
  obtain ⟨htf, htl⟩ := tail_facts w1 hl hlk ht
  obtain ⟨_, _, _, _, _, hco, _, _, _⟩ := appendOne_cells (id := id) hv1 htl
  refine get_of_var (v := .null) (n := d.null) ?_
  show (d1.appendOne l id).cell id = _
  rw [hco id ?_ ?_, hc]
  · intro e
    exact hidF (isLoc_ids (e ▸ hl))
  · intro htn e; exact hidF (e ▸ (htf htn).2.2.1)

end DL
