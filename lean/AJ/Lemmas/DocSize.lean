/- Size of a document, on the value side and on the slot side.

   Value side (`JD.Val`): `slotsOf v` = pool slots a slot-level document needs to hold `v` below its root cell (one per
   array element, two per object member, one extension slot for every number that does not fit the 32-bit inline
   payload), `strsOf v` = the strings (values, raw values, keys) of `v` with multiplicity.  Both can only shrink under
   the filter projection `Spec.Filter.project`.

   Slot side (`DL.Doc` under `WFG d F`): `F.ids.length + extCount d F` tree slots, the string table `d.strings`, the
   live slots of the pool `liveCount d`.  The lemmas below relate the two sides; AJ/Props/C11Mem.lean turns an equation
   `abs df = project flt (abs du)` into memory inequalities. -/
import AJ.Lemmas.DocStr
import AJ.Spec.Filter
namespace DocSize
open JD (Byte Val Num Flt)
open DL
open Spec.Filter

/-! ## Value side -/

/-- extension slots a number needs: `setArg` stores 32-bit integers and `float` payloads inline, everything else in an
    extension slot -/
def numExt : Num → Nat
  | .uint n => if n < 2^32 then 0 else 1
  | .sint n => if -2^31 ≤ n ∧ n < 2^31 then 0 else 1
  | .f32 _ => 0
  | .f64 _ => 1

mutual
/-- pool slots needed below the cell that holds the value -/
def slotsOf : Val → Nat
  | .arr xs => slotsElems xs
  | .obj ms => slotsMembers ms
  | .num n => numExt n
  | _ => 0
def slotsElems : List Val → Nat
  | [] => 0
  | x :: xs => 1 + slotsOf x + slotsElems xs
def slotsMembers : List (List Byte × Val) → Nat
  | [] => 0
  | (_, x) :: ms => 2 + slotsOf x + slotsMembers ms
end

mutual
/-- the strings of a value: string values, raw values and member keys, with multiplicity, in document order -/
def strsOf : Val → List (List Byte)
  | .str s => [s]
  | .raw s => [s]
  | .arr xs => strsElems xs
  | .obj ms => strsMembers ms
  | _ => []
def strsElems : List Val → List (List Byte)
  | [] => []
  | x :: xs => strsOf x ++ strsElems xs
def strsMembers : List (List Byte × Val) → List (List Byte)
  | [] => []
  | (k, x) :: ms => k :: (strsOf x ++ strsMembers ms)
end

/-! ### the projection only removes -/

theorem project_size_facts : ∀ (n : Nat) (v : Val), sizeOf v ≤ n → ∀ f : Flt,
    slotsOf (project f v) ≤ slotsOf v ∧ (strsOf (project f v)).Sublist (strsOf v) := by
  intro n
  induction n with
  | zero => intro v hv; cases v <;> simp at hv <;> omega
  | succ n ih =>
    intro v hv f
    cases v with
    | arr xs =>
      simp only [project]
      split
      · simp only [slotsOf, strsOf]
        generalize f.subIdx = ef
        induction xs with
        | nil => simp only [projectElems]; exact ⟨Nat.le_refl _, List.Sublist.refl _⟩
        | cons x xs ihx =>
          simp only [Val.arr.sizeOf_spec, List.cons.sizeOf_spec] at hv
          have h1 := ih x (by omega) ef
          have h2 := ihx (by simp only [Val.arr.sizeOf_spec]; omega)
          simp only [projectElems]
          split
          · simp only [slotsElems, strsElems]
            exact ⟨by omega, List.Sublist.append h1.2 h2.2⟩
          · simp only [slotsElems, strsElems]
            exact ⟨by omega, (h2.2).trans (List.sublist_append_right _ _)⟩
      · simp only [slotsOf, strsOf]; exact ⟨Nat.zero_le _, List.nil_sublist _⟩
    | obj ms =>
      simp only [project]
      split
      · simp only [slotsOf, strsOf]
        induction ms with
        | nil => simp only [projectMembers]; exact ⟨Nat.le_refl _, List.Sublist.refl _⟩
        | cons kx ms ihm =>
          obtain ⟨k, x⟩ := kx
          simp only [Val.obj.sizeOf_spec, List.cons.sizeOf_spec, Prod.mk.sizeOf_spec] at hv
          have h1 := ih x (by omega) (f.subKey k)
          have h2 := ihm (by simp only [Val.obj.sizeOf_spec]; omega)
          simp only [projectMembers]
          split
          · simp only [slotsMembers, strsMembers]
            exact ⟨by omega, (List.Sublist.append h1.2 h2.2).cons_cons _⟩
          · simp only [slotsMembers, strsMembers]
            exact ⟨by omega, List.Sublist.cons _ ((h2.2).trans (List.sublist_append_right _ _))⟩
      · simp only [slotsOf, strsOf]; exact ⟨Nat.zero_le _, List.nil_sublist _⟩
    | null => simp only [project]; exact ⟨Nat.le_refl _, List.Sublist.refl _⟩
    | bool b => simp only [project]; split <;> exact ⟨Nat.le_refl _, List.Sublist.refl _⟩
    | num m =>
      simp only [project]; split
      · exact ⟨Nat.le_refl _, List.Sublist.refl _⟩
      · simp only [slotsOf, strsOf]; exact ⟨Nat.zero_le _, List.Sublist.refl _⟩
    | str s =>
      simp only [project]; split
      · exact ⟨Nat.le_refl _, List.Sublist.refl _⟩
      · simp only [slotsOf, strsOf]; exact ⟨Nat.le_refl _, List.nil_sublist _⟩
    | raw s =>
      simp only [project]; split
      · exact ⟨Nat.le_refl _, List.Sublist.refl _⟩
      · simp only [slotsOf, strsOf]; exact ⟨Nat.le_refl _, List.nil_sublist _⟩

/-- the projection of a document never needs more pool slots than the document -/
theorem project_slots_le (flt : Flt) (v : Val) : slotsOf (project flt v) ≤ slotsOf v :=
  (project_size_facts _ v (Nat.le_refl _) flt).1

/-- the strings of the projection are a sub-list (order and multiplicity) of the strings of the document -/
theorem project_strs_sublist (flt : Flt) (v : Val) : (strsOf (project flt v)).Sublist (strsOf v) :=
  (project_size_facts _ v (Nat.le_refl _) flt).2

theorem project_strs_subset (flt : Flt) (v : Val) : ∀ s ∈ strsOf (project flt v), s ∈ strsOf v :=
  fun _ hs => (project_strs_sublist flt v).subset hs

/-! ## Slot side -/

/-- extension slots referenced by the values of the document (the root and every slot of the layout) -/
def extIds (d : Doc) (F : Forest) : List Nat := (holders F).flatMap (fun l => extOfV (d.get l))
/-- number of extension slots of the document -/
def extCount (d : Doc) (F : Forest) : Nat := (extIds d F).length
/-- slots of the value tree: one per element, two per member, plus the extension slots -/
def treeSlots (d : Doc) (F : Forest) : Nat := F.ids.length + extCount d F
/-- live slots of the pool of the document, as a number: slots handed out minus free list
    (`PL.Inv.liveIds_length`: `liveCount d + d.pl.free.length = PL.usage d.pl`) -/
def liveCount (d : Doc) : Nat := (PL.liveIds d.g d.pl).length

/-- extension slots that the value read in a cell needs according to the value alone (0 for a collection) -/
def needV (d : Doc) (v : VData) : Nat := slotsOf (d.scalar v)
/-- strings read in a cell (none for a collection) -/
def valStrs (d : Doc) (v : VData) : List (List Byte) := strsOf (d.scalar v)
def needIn (d : Doc) (js : List Nat) : Nat := (js.map (fun j => needV d (d.get (.slot j)))).sum
def strsIn (d : Doc) (js : List Nat) : List (List Byte) := js.flatMap (fun j => valStrs d (d.get (.slot j)))
/-- extension slots the document needs according to the values it holds -/
def need (d : Doc) (F : Forest) : Nat := ((holders F).map (fun l => needV d (d.get l))).sum

theorem needIn_nil (d : Doc) : needIn d [] = 0 := rfl
theorem needIn_cons (d : Doc) (j : Nat) (js : List Nat) : needIn d (j :: js) = needV d (d.get (.slot j)) + needIn d js := by
  simp only [needIn, List.map_cons, List.sum_cons]
theorem needIn_append (d : Doc) (js ks : List Nat) : needIn d (js ++ ks) = needIn d js + needIn d ks := by
  simp only [needIn, List.map_append, List.sum_append]
theorem strsIn_nil (d : Doc) : strsIn d [] = [] := rfl
theorem strsIn_cons (d : Doc) (j : Nat) (js : List Nat) : strsIn d (j :: js) = valStrs d (d.get (.slot j)) ++ strsIn d js := by
  simp only [strsIn, List.flatMap_cons]
theorem strsIn_append (d : Doc) (js ks : List Nat) : strsIn d (js ++ ks) = strsIn d js ++ strsIn d ks := by
  simp only [strsIn, List.flatMap_append]

/-- slots / strings of the members of a chain: object chain (`true`) or array chain (`false`) -/
def slotsC : Bool → List (List Byte × Val) → Nat
  | true, sub => slotsMembers sub
  | false, sub => slotsElems (sub.map (·.2))
def strsC : Bool → List (List Byte × Val) → List (List Byte)
  | true, sub => strsMembers sub
  | false, sub => strsElems (sub.map (·.2))

/-- what the chain lemma says about a layout -/
def ChainSize (d : Doc) (F : Forest) : Prop :=
  ∀ (b : Bool) (h : Nat), Lk d b h F →
    slotsC b (vals d noOv F) = F.ids.length + needIn d F.ids ∧ strsC b (vals d noOv F) = strsIn d F.ids

theorem node_size {d : Doc} {v : VData} {s : Forest} (hs : ChainSize d s) (hv : VOK d v s) :
    slotsOf (mkVal d v (vals d noOv s)) = needV d v + (s.ids.length + needIn d s.ids) ∧
    strsOf (mkVal d v (vals d noOv s)) = valStrs d v ++ strsIn d s.ids := by
  cases v
  case arr h t =>
    obtain ⟨a, b⟩ := hs false h ((VOK_arr d h t s).1 hv).1
    refine ⟨?_, ?_⟩
    · show slotsC false _ = slotsOf .null + _; rw [a]; simp only [slotsOf, Nat.zero_add]
    · show strsC false _ = strsOf .null ++ _; rw [b]; simp only [strsOf, List.nil_append]
  case obj h t =>
    obtain ⟨a, b⟩ := hs true h ((VOK_obj d h t s).1 hv).1
    refine ⟨?_, ?_⟩
    · show slotsC true _ = slotsOf .null + _; rw [a]; simp only [slotsOf, Nat.zero_add]
    · show strsC true _ = strsOf .null ++ _; rw [b]; simp only [strsOf, List.nil_append]
  all_goals
    have e : s = .nil := hv
    subst e
    exact ⟨by simp only [mkVal, needV, Forest.ids, List.length_nil, needIn_nil, Nat.add_zero],
      by simp only [mkVal, valStrs, Forest.ids, strsIn_nil, List.append_nil]⟩

theorem key_size {d : Doc} {v : VData} (h : isKey v) : needV d v = 0 ∧ valStrs d v = [keyOfV d v] := by
  cases v <;> first | exact ⟨rfl, rfl⟩ | exact h.elim

theorem chainSize (d : Doc) (F : Forest) : ChainSize d F := by
  induction F with
  | nil => intro b h _; cases b <;> exact ⟨rfl, rfl⟩
  | cons key i s r ihs ihr =>
    intro b h hl
    rw [Lk_cons] at hl
    obtain ⟨h1, _, _, h4, h5⟩ := hl
    obtain ⟨n1, n2⟩ := node_size ihs h5
    obtain ⟨r1, r2⟩ := ihr b (d.nextOf i) h4
    cases b <;> cases key <;> simp only [KeyOK] at h1
    · simp only [slotsC, strsC] at r1 r2 ⊢
      simp only [vals, noOv, Option.getD_none, List.map_cons, slotsElems, strsElems, Forest.ids, Forest.keyL,
        List.nil_append, List.length_cons, List.length_append, needIn_cons, needIn_append, strsIn_cons, strsIn_append]
      rw [n1, n2, r1, r2]
      exact ⟨by omega, by simp only [List.append_assoc]⟩
    · rename_i k
      obtain ⟨_, _, _, hk, _⟩ := h1
      obtain ⟨k1, k2⟩ := key_size (d := d) hk
      simp only [slotsC, strsC] at r1 r2 ⊢
      simp only [vals, noOv, Option.getD_none, slotsMembers, strsMembers, Forest.ids, Forest.keyL,
        List.cons_append, List.nil_append, List.length_cons, List.length_append, needIn_cons, needIn_append,
        strsIn_cons, strsIn_append, keyB]
      rw [n1, n2, r1, r2, k1, k2]
      exact ⟨by omega, by simp only [List.append_assoc, List.cons_append, List.nil_append]⟩

theorem need_eq (d : Doc) (F : Forest) : need d F = needV d d.root + needIn d F.ids := by
  simp only [need, holders, List.map_cons, List.sum_cons, List.map_map, needIn]
  rfl

theorem strs_holders (d : Doc) (F : Forest) :
    (holders F).flatMap (fun l => valStrs d (d.get l)) = valStrs d d.root ++ strsIn d F.ids := by
  simp only [holders, List.flatMap_cons, strsIn, List.flatMap_map]
  rfl

/-- SLOTS, exact and unconditional: the value of a well-formed document needs one slot per slot of its layout, plus the
    extension slots that the numbers it holds need -/
theorem forest_slots_need {d : Doc} {F : Forest} (w : WFG d F) : slotsOf (abs d) = F.ids.length + need d F := by
  rw [abs_eq w, need_eq]
  have := (node_size (chainSize d F) w.root).1
  simp only [Doc.valOf]; omega

/-- STRINGS, exact and unconditional: the strings of the value are the strings read in the holders, in order -/
theorem forest_strs {d : Doc} {F : Forest} (w : WFG d F) :
    strsOf (abs d) = (holders F).flatMap (fun l => valStrs d (d.get l)) := by
  rw [abs_eq w, strs_holders]
  exact (node_size (chainSize d F) w.root).2

/-! ### canonical numbers: the value determines the extension slots -/

/-- an integer stored inline fits 32 bits (always so in the C++ representation: the inline payload is an `int32_t` /
    `uint32_t`; the model stores an unbounded `Int` / `Nat`) -/
def inlineSmallV : VData → Bool
  | .i32 x => decide (-2^31 ≤ x ∧ x < 2^31)
  | .u32 x => decide (x < 2^32)
  | _ => true
/-- an integer stored in an extension slot does not fit 32 bits (`setArg` never spends an extension slot otherwise) -/
def extBigV (d : Doc) : VData → Bool
  | .i64 s => !decide (-2^31 ≤ d.extOf s ∧ d.extOf s < 2^31)
  | .u64 s => !decide ((d.extOf s).toNat < 2^32)
  | _ => true
def InlineSmall (d : Doc) (F : Forest) : Prop := ∀ l ∈ holders F, inlineSmallV (d.get l) = true
def ExtBig (d : Doc) (F : Forest) : Prop := ∀ l ∈ holders F, extBigV d (d.get l) = true
/-- every number of the document is stored the way `setArg` stores it -/
def Canon (d : Doc) (F : Forest) : Prop := InlineSmall d F ∧ ExtBig d F

theorem needV_le_ext {d : Doc} {v : VData} (h : inlineSmallV v = true) : needV d v ≤ (extOfV v).length := by
  cases v <;> simp only [needV, Doc.scalar, slotsOf, numExt, extOfV, List.length_nil, List.length_cons, Nat.le_refl]
  case i32 x => simp only [inlineSmallV, decide_eq_true_eq] at h; rw [if_pos h]; exact Nat.le_refl _
  case u32 x => simp only [inlineSmallV, decide_eq_true_eq] at h; rw [if_pos h]; exact Nat.le_refl _
  case i64 s => split <;> omega
  case u64 s => split <;> omega

theorem ext_le_needV {d : Doc} {v : VData} (h : extBigV d v = true) : (extOfV v).length ≤ needV d v := by
  cases v <;> simp only [needV, Doc.scalar, slotsOf, numExt, extOfV, List.length_nil, List.length_cons, Nat.le_refl,
    Nat.zero_le]
  case i64 s => simp only [extBigV, Bool.not_eq_true', decide_eq_false_iff_not] at h; rw [if_neg h]; exact Nat.le_refl _
  case u64 s => simp only [extBigV, Bool.not_eq_true', decide_eq_false_iff_not] at h; rw [if_neg h]; exact Nat.le_refl _

theorem sum_map_le {α} {f g : α → Nat} : ∀ {l : List α}, (∀ a ∈ l, f a ≤ g a) → (l.map f).sum ≤ (l.map g).sum
  | [], _ => Nat.le_refl _
  | a :: l, h => by
    simp only [List.map_cons, List.sum_cons]
    have h1 := h a (by simp)
    have h2 := sum_map_le (l := l) (fun b hb => h b (List.mem_cons_of_mem _ hb))
    omega

theorem extCount_eq (d : Doc) (F : Forest) :
    extCount d F = ((holders F).map (fun l => (extOfV (d.get l)).length)).sum := by
  simp only [extCount, extIds, List.length_flatMap]

theorem need_le_extCount {d : Doc} {F : Forest} (h : InlineSmall d F) : need d F ≤ extCount d F := by
  rw [extCount_eq]; exact sum_map_le (fun l hl => needV_le_ext (h l hl))

theorem extCount_le_need {d : Doc} {F : Forest} (h : ExtBig d F) : extCount d F ≤ need d F := by
  rw [extCount_eq]; exact sum_map_le (fun l hl => ext_le_needV (h l hl))

/-- the value needs at most the slots the document uses, when inline integers are 32-bit -/
theorem forest_slots_ge {d : Doc} {F : Forest} (w : WFG d F) (h : InlineSmall d F) : slotsOf (abs d) ≤ treeSlots d F := by
  rw [forest_slots_need w]; have := need_le_extCount h; unfold treeSlots; omega

/-- the document uses at most the slots the value needs, when no extension slot is wasted on a 32-bit integer -/
theorem forest_slots_le {d : Doc} {F : Forest} (w : WFG d F) (h : ExtBig d F) : treeSlots d F ≤ slotsOf (abs d) := by
  rw [forest_slots_need w]; have := extCount_le_need h; unfold treeSlots; omega

/-- slots of the layout + extension slots of the holders = slots the value needs -/
theorem forest_slots {d : Doc} {F : Forest} (w : WFG d F) (h : Canon d F) :
    F.ids.length + extCount d F = slotsOf (abs d) :=
  Nat.le_antisymm (forest_slots_le w h.2) (forest_slots_ge w h.1)

/-! ### strings -/

def notLinkedV : VData → Bool | .linked _ => false | _ => true
/-- every string of the document is a copy held by the string table (deserialized documents: the parser copies) -/
def NoLinked (d : Doc) (F : Forest) : Prop := ∀ l ∈ holders F, notLinkedV (d.get l) = true

theorem valStrs_owned {d : Doc} {v : VData} (h : notLinkedV v = true) : valStrs d v = (strOfV v).map d.strBytes := by
  cases v <;> first | rfl | (simp only [notLinkedV] at h; cases h)

theorem strOfV_sub_valStrs (d : Doc) (v : VData) : ∀ n ∈ strOfV v, d.strBytes n ∈ valStrs d v := by
  intro n hn
  cases v <;> simp only [strOfV, List.mem_singleton, List.not_mem_nil] at hn
  all_goals subst hn; simp [valStrs, Doc.scalar, strsOf]

theorem strBytes_of_node {d : Doc} (hnd : (d.strings.map (·.id)).Nodup) {x : StrNode} (hx : x ∈ d.strings) :
    d.strBytes x.id = x.bytes := by
  simp only [Doc.strBytes, find_id_of_nodup hnd hx]

/-- every string of the value is stored in the string table (no linked strings) -/
theorem strs_in_table {d : Doc} {F : Forest} (w : WFG d F) (hs : StrOK d (d.strRefs F)) (hn : NoLinked d F) :
    ∀ s ∈ strsOf (abs d), ∃ n ∈ d.strings, n.bytes = s := by
  intro s hmem
  rw [forest_strs w] at hmem
  obtain ⟨l, hl, hsl⟩ := List.mem_flatMap.1 hmem
  rw [valStrs_owned (hn l hl)] at hsl
  obtain ⟨m, hm, rfl⟩ := List.mem_map.1 hsl
  obtain ⟨x, hx, hxid⟩ := hs.present m (List.mem_flatMap.2 ⟨l, hl, hm⟩)
  exact ⟨x, hx, by rw [← hxid, strBytes_of_node hs.ids_nodup hx]⟩

/-- every stored string is used by the value (exact reference counts: no unused node) -/
theorem table_in_strs {d : Doc} {F : Forest} (w : WFG d F) (hs : StrOK d (d.strRefs F)) (he : Exact d (d.strRefs F)) :
    ∀ n ∈ d.strings, n.bytes ∈ strsOf (abs d) := by
  intro n hn
  have hmem : n.id ∈ d.strRefs F := (node_iff_referenced hs he n.id).1 ⟨n, hn, rfl⟩
  obtain ⟨l, hl, hnl⟩ := List.mem_flatMap.1 hmem
  rw [forest_strs w, ← strBytes_of_node hs.ids_nodup hn]
  exact List.mem_flatMap.2 ⟨l, hl, strOfV_sub_valStrs d _ _ hnl⟩

/-! ### live slots -/

theorem nodup_flatMap {α β} {f : α → List β} : ∀ {l : List α}, l.Nodup → (∀ a ∈ l, (f a).Nodup) →
    (∀ a ∈ l, ∀ a' ∈ l, ∀ e, e ∈ f a → e ∈ f a' → a' = a) → (l.flatMap f).Nodup
  | [], _, _, _ => List.nodup_nil
  | a :: l, hn, hf, hu => by
    obtain ⟨ha, hl⟩ := List.nodup_cons.1 hn
    rw [List.flatMap_cons, List.nodup_append]
    refine ⟨hf a (by simp), nodup_flatMap hl (fun b hb => hf b (List.mem_cons_of_mem _ hb))
      (fun b hb b' hb' => hu b (List.mem_cons_of_mem _ hb) b' (List.mem_cons_of_mem _ hb')), ?_⟩
    intro x hx y hy e
    subst e
    obtain ⟨a', ha', hxa'⟩ := List.mem_flatMap.1 hy
    have := hu a (by simp) a' (List.mem_cons_of_mem _ ha') x hx hxa'
    subst this
    exact ha ha'

theorem extOfV_nodup (v : VData) : (extOfV v).Nodup := by
  cases v <;> simp [extOfV]

theorem extIds_nodup {d : Doc} {F : Forest} (w : WFG d F) : (extIds d F).Nodup :=
  nodup_flatMap (holders_nodup w.nodup) (fun _ _ => extOfV_nodup _)
    (fun l hl l' hl' e he he' => (w.ext l hl e he).2.2 l' hl' he')

theorem mem_extIds {d : Doc} {F : Forest} {e : Nat} : e ∈ extIds d F ↔ ∃ l ∈ holders F, e ∈ extOfV (d.get l) :=
  List.mem_flatMap

/-- the slots of the value tree as a list: slots of the layout, then extension slots -/
def treeIds (d : Doc) (F : Forest) : List Nat := F.ids ++ extIds d F

theorem treeIds_length (d : Doc) (F : Forest) : (treeIds d F).length = treeSlots d F := by
  simp only [treeIds, treeSlots, extCount, List.length_append]

theorem treeIds_nodup {d : Doc} {F : Forest} (w : WFG d F) : (treeIds d F).Nodup := by
  refine List.nodup_append.2 ⟨w.nodup, extIds_nodup w, ?_⟩
  intro x hx y hy e
  subst e
  obtain ⟨l, hl, he⟩ := mem_extIds.1 hy
  obtain ⟨⟨p, hp⟩, _, _⟩ := w.ext l hl x he
  have := w.isVar x hx
  rw [Doc.isVar, hp] at this
  cases this

theorem treeIds_live {d : Doc} {F : Forest} (w : WFG d F) : ∀ x ∈ treeIds d F, PL.live d.g d.pl x := by
  intro x hx
  rcases List.mem_append.1 hx with h | h
  · exact w.live x h
  · obtain ⟨l, hl, he⟩ := mem_extIds.1 h
    exact (w.ext l hl x he).2.1

/-- the slots of the value tree are live slots of the pool, all different -/
theorem live_ge {d : Doc} {F : Forest} (w : WFG d F) : F.ids.length + extCount d F ≤ liveCount d := by
  have := List.Nodup.length_le_of_subset (treeIds_nodup w) (l₂ := PL.liveIds d.g d.pl)
    (fun x hx => (PL.mem_liveIds d.g d.pl x).2 (treeIds_live w x hx))
  rw [treeIds_length] at this
  exact this

/-- no leak: every live slot of the pool is a slot of the value tree -/
def NoLeak (d : Doc) (F : Forest) : Prop := ∀ i, PL.live d.g d.pl i → i ∈ F.ids ∨ i ∈ extIds d F

theorem live_le {d : Doc} {F : Forest} (w : WFG d F) (hl : NoLeak d F) : liveCount d ≤ F.ids.length + extCount d F := by
  have := List.Nodup.length_le_of_subset (w.pool.liveIds_nodup) (l₂ := treeIds d F)
    (fun x hx => List.mem_append.2 (hl x ((PL.mem_liveIds d.g d.pl x).1 hx)))
  rw [treeIds_length] at this
  exact this

theorem live_eq {d : Doc} {F : Forest} (w : WFG d F) (hl : NoLeak d F) : liveCount d = treeSlots d F :=
  Nat.le_antisymm (live_le w hl) (live_ge w)

/-- `liveCount` against the counters of the pool model -/
theorem liveCount_usage {d : Doc} (hI : PL.Inv d.g d.pl) : liveCount d + d.pl.free.length = PL.usage d.pl :=
  hI.liveIds_length

/-! ### sums over lists without repetition -/

theorem sum_map_le_of_nodup_subset {α} [DecidableEq α] (f : α → Nat) :
    ∀ {l₁ l₂ : List α}, l₁.Nodup → (∀ a ∈ l₁, a ∈ l₂) → (l₁.map f).sum ≤ (l₂.map f).sum
  | [], _, _, _ => Nat.zero_le _
  | a :: l₁, l₂, hn, hs => by
    obtain ⟨ha, hl⟩ := List.nodup_cons.1 hn
    have hmem : a ∈ l₂ := hs a (by simp)
    have hp : List.Perm l₂ (a :: l₂.erase a) := List.perm_cons_erase hmem
    have hsub : ∀ b ∈ l₁, b ∈ l₂.erase a := fun b hb =>
      (List.mem_erase_of_ne (fun (e : b = a) => ha (e ▸ hb))).2 (hs b (List.mem_cons_of_mem _ hb))
    have ih := sum_map_le_of_nodup_subset f hl hsub
    have e : (l₂.map f).sum = ((a :: l₂.erase a).map f).sum := (hp.map f).sum_nat
    rw [e]
    simp only [List.map_cons, List.sum_cons]
    omega


/-! ## Establishing the side conditions: predicates that hold of every stored value -/

/-- `p` holds of the value read at every location (root and all cells; free and extension cells read as null) -/
def AllV (p : VData → Bool) (d : Doc) : Prop := ∀ l, p (d.get l) = true

/-- closure conditions on `p`: null and the collection headers satisfy it -/
structure PColl (p : VData → Bool) : Prop where
  null : p .null = true
  arr : ∀ h t, p (.arr h t) = true
  obj : ∀ h t, p (.obj h t) = true

theorem pcoll_notLinked : PColl notLinkedV := ⟨rfl, fun _ _ => rfl, fun _ _ => rfl⟩
theorem pcoll_inlineSmall : PColl inlineSmallV := ⟨rfl, fun _ _ => rfl, fun _ _ => rfl⟩

theorem AllV.noLinked {d : Doc} (h : AllV notLinkedV d) (F : Forest) : NoLinked d F := fun l _ => h l
theorem AllV.inlineSmall {d : Doc} (h : AllV inlineSmallV d) (F : Forest) : InlineSmall d F := fun l _ => h l

theorem get_of_cells {d d' : Doc} (hc : d'.cells = d.cells) (hr : d'.root = d.root) (l : Loc) : d'.get l = d.get l := by
  cases l with
  | root => exact hr
  | slot j => simp only [Doc.get, Doc.cell, hc]

theorem AllV.of_cells {p : VData → Bool} {d d' : Doc} (hc : d'.cells = d.cells) (hr : d'.root = d.root)
    (h : AllV p d) : AllV p d' := fun l => by rw [get_of_cells hc hr]; exact h l

variable {p : VData → Bool}

theorem AllV.set {d : Doc} (h : AllV p d) (l : Loc) {v : VData} (hv : p v = true) : AllV p (d.set l v) := by
  intro l'
  by_cases e : l' = l
  · subst e; rw [get_set_self]; exact hv
  · rw [get_set_ne e]; exact h l'

/-- the value read in a cell -/
def cellVal : Cell → VData | .var v _ => v | _ => .null
theorem get_cellVal (d : Doc) (j : Nat) : d.get (.slot j) = cellVal (d.cell j) := by
  rw [get_slot]; cases d.cell j <;> rfl

/-- a cell is replaced by one that reads as `v` -/
theorem AllV.insert {d : Doc} (h : AllV p d) {id : Nat} {c : Cell} {pl : PL.St} {ov : Bool} {v : VData}
    (hc : cellVal c = v) (hv : p v = true) :
    AllV p { d with pl := pl, cells := d.cells.insert id c, overflowed := ov } := by
  intro l
  cases l with
  | root => exact h .root
  | slot j =>
    have hcell : ({ d with pl := pl, cells := d.cells.insert id c, overflowed := ov } : Doc).cell j =
        if id = j then c else d.cell j := by simp only [Doc.cell, Std.HashMap.getD_insert, beq_iff_eq]
    rw [get_cellVal, hcell]
    by_cases e : id = j
    · rw [if_pos e, hc]; exact hv
    · rw [if_neg e, ← get_cellVal]; exact h (.slot j)

theorem AllV.setNext {d : Doc} (h : AllV p d) (i n : Nat) : AllV p (d.setNext i n) := by
  intro l
  cases l with
  | root => rw [show (d.setNext i n).get .root = (d.setNext i n).root from rfl, setNext_root]; exact h .root
  | slot j =>
    rw [get_cellVal, cell_setNext]
    by_cases e : i = j
    · subst e
      rw [if_pos rfl]
      have := h (.slot i)
      rw [get_cellVal] at this
      cases hc : d.cell i <;> simp only [hc, cellVal] at this ⊢ <;> exact this
    · rw [if_neg e, ← get_cellVal]; exact h (.slot j)

theorem AllV.allocVariant {d : Doc} (hp : PColl p) (h : AllV p d) : AllV p d.allocVariant.2 := by
  simp only [Doc.allocVariant]
  split
  · exact (h.insert (ov := d.overflowed) (v := .null) rfl hp.null)
  · exact h.of_cells rfl rfl

theorem AllV.allocExt {d : Doc} (hp : PColl p) (h : AllV p d) (x : Int) : AllV p (d.allocExt x).2 := by
  simp only [Doc.allocExt]
  split
  · exact (h.insert (ov := d.overflowed) (v := .null) rfl hp.null)
  · exact h.of_cells rfl rfl

theorem AllV.freeCell {d : Doc} (hp : PColl p) (h : AllV p d) (i : Nat) : AllV p (d.freeCell i) :=
  h.insert (ov := d.overflowed) (v := .null) rfl hp.null

theorem saveString_cells (d : Doc) (s : List Byte) : (d.saveString s).2.cells = d.cells ∧ (d.saveString s).2.root = d.root := by
  simp only [Doc.saveString]
  split
  · exact ⟨rfl, rfl⟩
  · split
    · exact ⟨rfl, rfl⟩
    generalize d.pl.alloc (s.length + d.strOverhead) = r
    obtain ⟨ok, pl⟩ := r
    cases ok <;> exact ⟨rfl, rfl⟩

theorem derefString_cells (d : Doc) (n : Nat) : (d.derefString n).cells = d.cells ∧ (d.derefString n).root = d.root := by
  simp only [Doc.derefString]
  split
  · exact ⟨rfl, rfl⟩
  · split <;> exact ⟨rfl, rfl⟩

theorem AllV.saveString {d : Doc} (h : AllV p d) (s : List Byte) : AllV p (d.saveString s).2 :=
  h.of_cells (saveString_cells d s).1 (saveString_cells d s).2
theorem AllV.derefString {d : Doc} (h : AllV p d) (n : Nat) : AllV p (d.derefString n) :=
  h.of_cells (derefString_cells d n).1 (derefString_cells d n).2

theorem AllV.appendOne {d : Doc} (hp : PColl p) (h : AllV p d) (l : Loc) (id : Nat) : AllV p (d.appendOne l id) := by
  simp only [Doc.appendOne]
  split
  · split
    · exact (h.setNext _ _).set l (hp.arr _ _)
    · exact h.set l (hp.arr _ _)
  · exact h

theorem AllV.appendPair {d : Doc} (hp : PColl p) (h : AllV p d) (l : Loc) (k v : Nat) : AllV p (d.appendPair l k v) := by
  simp only [Doc.appendPair]
  split
  · split
    · exact ((h.setNext _ _).setNext _ _).set l (hp.obj _ _)
    · exact (h.setNext _ _).set l (hp.obj _ _)
  · exact h.setNext _ _

theorem AllV.addElement {d : Doc} (hp : PColl p) (h : AllV p d) (l : Loc) : AllV p (d.addElement l).2 := by
  have := h.allocVariant hp
  simp only [Doc.addElement]
  generalize d.allocVariant = r at this
  obtain ⟨m, d1⟩ := r
  cases m
  · exact this
  · exact AllV.appendOne hp this l _

/-- the values `setArg … a` can store -/
def argWrites (a : Arg) (v : VData) : Prop :=
  match a with
  | .null => False
  | .bool b => v = .bool b
  | .sint x => (v = .i32 x ∧ (-2^31 ≤ x ∧ x < 2^31)) ∨ ∃ s, v = .i64 s
  | .uint x => (v = .u32 x ∧ x < 2^32) ∨ ∃ s, v = .u64 s
  | .f32 b => v = .f32 b
  | .f64 _ => (∃ f, v = .f32 f) ∨ ∃ s, v = .f64 s
  | .strLinked s => v = .linked s
  | .strCopied _ => ∃ n, v = .owned n
  | .raw _ => ∃ n, v = .raw n

theorem AllV.setArg {d : Doc} (hp : PColl p) (h : AllV p d) (l : Loc) (a : Arg)
    (hw : ∀ v, argWrites a v → p v = true) : AllV p (d.setArg l a).2 := by
  have ext : ∀ (x : Int) (k : Nat → VData), (∀ s, p (k s) = true) → AllV p (match d.allocExt x with
      | (some s, d) => (true, d.set l (k s)) | (none, d) => (false, d)).2 := by
    intro x k hk
    have := h.allocExt hp x
    generalize d.allocExt x = r at this ⊢
    obtain ⟨m, d1⟩ := r
    cases m
    · exact this
    · exact this.set l (hk _)
  have str : ∀ (s : List Byte) (k : Nat → VData), (∀ n, p (k n) = true) → AllV p (match d.saveString s with
      | (some n, d) => (let d := d.set l (k n); (!d.overflowed, d)) | (none, d) => (!d.overflowed, d)).2 := by
    intro s k hk
    have := h.saveString s
    generalize d.saveString s = r at this ⊢
    obtain ⟨m, d1⟩ := r
    cases m
    · exact this
    · exact this.set l (hk _)
  cases a with
  | null => exact h
  | bool b => exact h.set l (hw _ rfl)
  | f32 b => exact h.set l (hw _ rfl)
  | strLinked s => exact h.set l (hw _ rfl)
  | sint v =>
    simp only [Doc.setArg]; split
    · rename_i hr; exact h.set l (hw _ (Or.inl ⟨rfl, hr⟩))
    · exact ext v .i64 (fun s => hw _ (Or.inr ⟨s, rfl⟩))
  | uint v =>
    simp only [Doc.setArg]; split
    · rename_i hr; exact h.set l (hw _ (Or.inl ⟨rfl, hr⟩))
    · exact ext v .u64 (fun s => hw _ (Or.inr ⟨s, rfl⟩))
  | f64 b =>
    simp only [Doc.setArg]; split
    · exact h.set l (hw _ (Or.inl ⟨_, rfl⟩))
    · exact ext b .f64 (fun s => hw _ (Or.inr ⟨s, rfl⟩))
  | strCopied s => simp only [Doc.setArg]; exact str s .owned (fun n => hw _ ⟨n, rfl⟩)
  | raw s => simp only [Doc.setArg]; exact str s .raw (fun n => hw _ ⟨n, rfl⟩)

/-- `setArg` stores integers inline only when they fit 32 bits -/
theorem AllV.setArg_inlineSmall {d : Doc} (h : AllV inlineSmallV d) (l : Loc) (a : Arg) :
    AllV inlineSmallV (d.setArg l a).2 := by
  refine h.setArg pcoll_inlineSmall l a ?_
  intro v hv
  cases a <;> simp only [argWrites] at hv
  case sint x =>
    rcases hv with ⟨rfl, hr⟩ | ⟨s, rfl⟩
    · simp only [inlineSmallV, decide_eq_true_eq]; exact hr
    · rfl
  case uint x =>
    rcases hv with ⟨rfl, hr⟩ | ⟨s, rfl⟩
    · simp only [inlineSmallV, decide_eq_true_eq]; exact hr
    · rfl
  case f64 b => rcases hv with ⟨f, rfl⟩ | ⟨s, rfl⟩ <;> rfl
  case strCopied s => obtain ⟨n, rfl⟩ := hv; rfl
  case raw s => obtain ⟨n, rfl⟩ := hv; rfl
  all_goals subst hv; rfl

/-- `setArg` with anything but a linked string stores no linked string -/
theorem AllV.setArg_notLinked {d : Doc} (h : AllV notLinkedV d) (l : Loc) (a : Arg) (ha : ∀ s, a ≠ .strLinked s) :
    AllV notLinkedV (d.setArg l a).2 := by
  refine h.setArg pcoll_notLinked l a ?_
  intro v hv
  cases a <;> simp only [argWrites] at hv
  case strLinked s => exact absurd rfl (ha s)
  case sint x => rcases hv with ⟨rfl, _⟩ | ⟨s, rfl⟩ <;> rfl
  case uint x => rcases hv with ⟨rfl, _⟩ | ⟨s, rfl⟩ <;> rfl
  case f64 b => rcases hv with ⟨f, rfl⟩ | ⟨s, rfl⟩ <;> rfl
  case strCopied s => obtain ⟨n, rfl⟩ := hv; rfl
  case raw s => obtain ⟨n, rfl⟩ := hv; rfl
  all_goals subst hv; rfl

theorem AllV.walkFree {free1 : Doc → Nat → Doc} (hf : ∀ d id, AllV p d → AllV p (free1 d id)) :
    ∀ (w : Nat) (d : Doc) (id : Nat), AllV p d → AllV p (walkFree free1 w d id)
  | 0, _, _, h => h
  | w+1, d, id, h => by
    simp only [DL.walkFree]
    split
    · exact h
    · exact AllV.walkFree hf w _ _ (hf d id h)

theorem AllV.clearVF (hp : PColl p) : ∀ (f : Nat) (d : Doc) (l : Loc), AllV p d → AllV p (Doc.clearVF f d l)
  | 0, d, l, h => h.set l hp.null
  | f+1, d, l, h => by
    have hfree : ∀ (dd : Doc) (id : Nat), AllV p dd → AllV p ((Doc.clearVF f dd (.slot id)).freeCell id) :=
      fun dd id hdd => (AllV.clearVF hp f dd (.slot id) hdd).freeCell hp id
    simp only [Doc.clearVF]
    refine AllV.set ?_ l hp.null
    generalize d.get l = v
    cases v <;> dsimp only
    case owned n => exact h.derefString n
    case raw n => exact h.derefString n
    case i64 s => exact h.freeCell hp s
    case u64 s => exact h.freeCell hp s
    case f64 s => exact h.freeCell hp s
    case arr hd t => exact AllV.walkFree hfree _ _ _ h
    case obj hd t => exact AllV.walkFree hfree _ _ _ h
    all_goals exact h

theorem AllV.clearV (hp : PColl p) {d : Doc} (h : AllV p d) (l : Loc) : AllV p (d.clearV l) :=
  AllV.clearVF hp _ d l h

theorem AllV.clearAll (hp : PColl p) (d : Doc) : AllV p d.clearAll := by
  intro l
  cases l with
  | root => exact hp.null
  | slot j =>
    have : d.clearAll.cell j = .free := by simp [Doc.cell, Doc.clearAll]
    rw [get_cellVal, this]; exact hp.null

/-- changing the pool only (`PL.shrink` at the end of a deserialization) -/
theorem AllV.with_pl {d : Doc} (h : AllV p d) (pl : PL.St) : AllV p { d with pl := pl } := h.of_cells rfl rfl

/-- `ExtBig` only depends on the values of the holders and on the payloads of their extension slots -/
theorem ExtBig.congr {d d' : Doc} {F : Forest} (hget : ∀ l ∈ holders F, d'.get l = d.get l)
    (hext : ∀ l ∈ holders F, ∀ e ∈ extOfV (d.get l), d'.extOf e = d.extOf e) (h : ExtBig d F) : ExtBig d' F := by
  intro l hl
  have h1 := h l hl
  rw [hget l hl]
  have h2 := hext l hl
  revert h1 h2
  cases d.get l <;> intro h1 h2 <;> first | exact h1 | skip
  case i64 s => simp only [extBigV] at h1 ⊢; rw [h2 s (by simp [extOfV])]; exact h1
  case u64 s => simp only [extBigV] at h1 ⊢; rw [h2 s (by simp [extOfV])]; exact h1

end DocSize
