/- String table of the slot-level document `DL.Doc`: exact reference counts (`Exact`), what `saveString` and
   `derefString` do to the table, to the allocator log and to the pool (`PL.St.rel`). Used by AJ/Lemmas/DocReuse.lean,
   AJ/Props/C06Doc.lean and AJ/Props/C19Str.lean. -/
import AJ.Lemmas.DocFrame

/-! ## The allocator log as a ledger -/
namespace PL

/-- kind of an allocator log entry: `A<size>` successful allocate, `A<size>!` failed allocate, `R<size>[!]` reallocate,
    `D` deallocate -/
inductive EntryKind | allocOK | allocFail | realloc | dealloc | other
deriving DecidableEq, Repr

def entryKind (e : String) : EntryKind :=
  match e.toList with
  | 'D' :: _ => .dealloc
  | 'A' :: r => if r.getLast? = some '!' then .allocFail else .allocOK
  | 'R' :: _ => .realloc
  | _ => .other

/-- change of the number of blocks outstanding caused by one log entry: a successful allocate hands one out, a
    deallocate takes one back, a reallocate replaces a block by a block (or fails and leaves it) -/
def delta (e : String) : Int :=
  match entryKind e with | .allocOK => 1 | .dealloc => -1 | _ => 0

/-- blocks outstanding according to the allocator log (newest entry first) -/
def outstanding : List String → Int
  | [] => 0
  | e :: log => outstanding log + delta e

theorem delta_D : delta "D" = -1 := by decide

theorem toList_entry (c : String) (n : Nat) (b : Bool) :
    (toString c ++ toString n ++ toString (if b = true then "!" else "")).toList =
      c.toList ++ Nat.toDigits 10 n ++ (if b then ['!'] else []) := by
  rw [String.toList_append, String.toList_append]
  show c.toList ++ (Nat.repr n).toList ++ _ = _
  unfold Nat.repr
  cases b
  · simp; rfl
  · simp; rfl

theorem digits_last (n : Nat) : (Nat.toDigits 10 n).getLast? ≠ some '!' := by
  intro h
  have := Nat.isDigit_of_mem_toDigits (b := 10) (n := n) (by decide) (by decide) (List.mem_of_getLast? h)
  exact absurd this (by decide)

theorem delta_alloc (n : Nat) (fail : Bool) :
    delta (s!"A{n}{if fail then "!" else ""}") = if fail then 0 else 1 := by
  have h := toList_entry "A" n fail
  have hA : "A".toList = ['A'] := by decide
  rw [hA] at h
  unfold delta entryKind
  show (match (match (toString "A" ++ toString n ++ toString (if fail = true then "!" else "")).toList with
    | 'D' :: _ => EntryKind.dealloc
    | 'A' :: r => if r.getLast? = some '!' then .allocFail else .allocOK
    | 'R' :: _ => .realloc
    | _ => .other) with | .allocOK => (1 : Int) | .dealloc => -1 | _ => 0) = _
  rw [h]
  cases fail
  · simp [digits_last]
  · simp

theorem delta_realloc (n : Nat) (fail : Bool) :
    delta (s!"R{n}{if fail then "!" else ""}") = 0 := by
  have h := toList_entry "R" n fail
  have hA : "R".toList = ['R'] := by decide
  rw [hA] at h
  unfold delta entryKind
  show (match (match (toString "R" ++ toString n ++ toString (if fail = true then "!" else "")).toList with
    | 'D' :: _ => EntryKind.dealloc
    | 'A' :: r => if r.getLast? = some '!' then .allocFail else .allocOK
    | 'R' :: _ => .realloc
    | _ => .other) with | .allocOK => (1 : Int) | .dealloc => -1 | _ => 0) = _
  rw [h]
  rfl

theorem outstanding_replicate_D (k : Nat) (log : List String) :
    outstanding (List.replicate k "D" ++ log) = outstanding log - k := by
  induction k with
  | zero => simp
  | succ k ih =>
    rw [List.replicate_succ, List.cons_append]
    simp only [outstanding, ih, delta_D]
    omega

/-- blocks outstanding according to the log, minus the blocks the pool list owns: what is owned elsewhere (by the
    string table) -/
def net (s : St) : Int := outstanding s.log - blocks s

theorem alloc_facts (s : St) (n : Nat) : ∃ ok s1, s.alloc n = (ok, s1) ∧ s1.pools = s.pools ∧ s1.tableHeap = s.tableHeap ∧
    s1.tableCap = s.tableCap ∧ s1.free = s.free ∧
    outstanding s1.log = outstanding s.log + (if ok then 1 else 0) := by
  refine ⟨_, _, rfl, rfl, rfl, rfl, rfl, ?_⟩
  show outstanding (_ :: s.log) = _
  simp only [outstanding]
  have := delta_alloc n (s.failsAt (s.calls + 1))
  show _ + delta (s!"A{n}{if s.failsAt (s.calls + 1) then "!" else ""}") = _ + if (!s.failsAt (s.calls + 1)) = true then 1 else 0
  rw [this]
  cases s.failsAt (s.calls + 1) <;> rfl

theorem realloc_facts (s : St) (n : Nat) (b : Bool) : ∃ ok s1, s.realloc n b = (ok, s1) ∧ s1.pools = s.pools ∧
    s1.tableHeap = s.tableHeap ∧ s1.tableCap = s.tableCap ∧ s1.free = s.free ∧ outstanding s1.log = outstanding s.log := by
  refine ⟨_, _, rfl, rfl, rfl, rfl, rfl, ?_⟩
  show outstanding (_ :: s.log) = _
  simp only [outstanding]
  have := delta_realloc n (b && s.failsAt (s.calls + 1))
  show _ + delta (s!"R{n}{if (b && s.failsAt (s.calls + 1)) then "!" else ""}") = _
  rw [this]; omega

theorem allocFromLastPool_net (g : Geo) (s : St) : net (allocFromLastPool g s).2 = net s := by
  generalize h : allocFromLastPool g s = r
  obtain ⟨o, s'⟩ := r
  cases o with
  | none => rw [(allocFromLastPool_none h).1]
  | some id =>
    obtain ⟨ps, p, hs, _, _, _, rfl⟩ := allocFromLastPool_some h
    simp only [net, blocks, hs, List.countP_append, List.countP_cons, List.countP_nil]

theorem increaseCapacity_net (g : Geo) (s : St) : net (increaseCapacity g s).2 = net s := by
  unfold increaseCapacity
  split
  · rfl
  · simp only
    generalize (if (decide (g.wrap (s.tableCap * 2) > g.maxPools) ||
        decide (g.wrap (s.tableCap * 2) < s.tableCap)) = true then g.maxPools
        else g.wrap (s.tableCap * 2)) = nc
    cases hh : s.tableHeap
    · obtain ⟨ok, s1, h, h1, h2, h3, h4, h5⟩ := alloc_facts s (nc * g.poolSize)
      simp only [Bool.not_false, if_true, h]
      cases ok
      · simp only [Bool.not_false, if_true, net, blocks, h1, h2, h5]; simp
      · simp only [Bool.not_true, Bool.false_eq_true, if_false, net, blocks, h1, h5, hh]; simp; omega
    · obtain ⟨ok, s1, h, h1, h2, h3, h4, h5⟩ := realloc_facts s (nc * g.poolSize) true
      simp only [Bool.not_true, Bool.false_eq_true, if_false, h]
      cases ok
      · simp only [Bool.not_false, if_true, net, blocks, h1, h2, h5]
      · simp only [Bool.not_true, Bool.false_eq_true, if_false, net, blocks, h1, h2, h5]

theorem addPool_net (g : Geo) (s : St) : net (addPool g s).2 = net s := by
  unfold addPool
  split
  · rfl
  · simp only
    have hn : net (if (s.pools.length == s.tableCap) = true then increaseCapacity g s else (true, s)).2 = net s := by
      split
      · exact increaseCapacity_net g s
      · rfl
    generalize (if (s.pools.length == s.tableCap) = true then increaseCapacity g s else (true, s)) = r1 at hn
    obtain ⟨ok, s1⟩ := r1
    cases ok
    · exact hn
    · simp only [Bool.not_true, Bool.false_eq_true, if_false]
      generalize (if (g.wrap (s1.pools.length + 1) == g.maxPools) = true then g.nullSlot - (g.maxPools - 1) * g.poolCap
        else g.poolCap) = cap
      obtain ⟨got, s2, h, h1, h2, h3, h4, h5⟩ := alloc_facts s1 (cap * g.slotSize)
      rw [h]
      simp only at hn ⊢
      rw [← hn]
      cases got
      · simp [net, blocks, h1, h2, h5, List.countP_append]
      · simp [net, blocks, h1, h2, h5, List.countP_append]; omega

/-- `allocSlot` keeps the balance: every block it obtains from the allocator is owned by the pool list afterwards
    (a pool, or the pool table), and it never gives one back -/
theorem allocSlot_net (g : Geo) (s : St) : net (allocSlot g s).2 = net s := by
  unfold allocSlot
  split
  · rfl
  · simp only
    have hn : net (if s.pools.isEmpty = true then ((none : Option Nat), s) else allocFromLastPool g s).2 = net s := by
      split
      · rfl
      · exact allocFromLastPool_net g s
    generalize (if s.pools.isEmpty = true then ((none : Option Nat), s) else allocFromLastPool g s) = r1 at hn
    obtain ⟨o, s1⟩ := r1
    cases o with
    | some id => exact hn
    | none =>
      simp only
      have h2 := addPool_net g s
      generalize addPool g s = r2 at h2
      obtain ⟨ok, s2⟩ := r2
      cases ok
      · exact h2
      · simp only [Bool.not_true, Bool.false_eq_true, if_false]
        rw [allocFromLastPool_net]; exact h2

theorem freeSlot_net (s : St) (id : Nat) : net (freeSlot s id) = net s := rfl

theorem clear_net (g : Geo) (s : St) : outstanding (clear g s).log = net s ∧ blocks (clear g s) = 0 := by
  obtain ⟨a, b, c, _, _, _, h⟩ := clear_spec g s
  refine ⟨?_, by unfold blocks; rw [a, c]; rfl⟩
  rw [h, outstanding_replicate_D]; rfl
end PL

namespace DL
open JD (Byte Val)

/-! ## Pool after releases -/

/-- the pool state `p` after the slots `r` were pushed on the free list (most recent first) and `k` blocks were handed
    back to the allocator (`k` entries `D` in the log); nothing else differs: no allocator call, no pool touched -/
def _root_.PL.St.rel (p : PL.St) (r : List Nat) (k : Nat) : PL.St :=
  { p with free := r ++ p.free, log := List.replicate k "D" ++ p.log }

theorem rel_nil (p : PL.St) : p.rel [] 0 = p := rfl
theorem rel_rel (p : PL.St) (r1 r2 : List Nat) (k1 k2 : Nat) : (p.rel r1 k1).rel r2 k2 = p.rel (r2 ++ r1) (k2 + k1) := by
  simp only [PL.St.rel, List.append_assoc, ← List.replicate_append_replicate]
theorem freeSlot_rel (p : PL.St) (r : List Nat) (k id : Nat) : PL.freeSlot (p.rel r k) id = p.rel (id :: r) k := rfl
theorem dealloc_rel (p : PL.St) (r : List Nat) (k : Nat) : (p.rel r k).dealloc = p.rel r (k + 1) := rfl
@[simp] theorem rel_pools (p : PL.St) (r : List Nat) (k : Nat) : (p.rel r k).pools = p.pools := rfl
@[simp] theorem rel_free (p : PL.St) (r : List Nat) (k : Nat) : (p.rel r k).free = r ++ p.free := rfl
@[simp] theorem rel_log (p : PL.St) (r : List Nat) (k : Nat) : (p.rel r k).log = List.replicate k "D" ++ p.log := rfl
@[simp] theorem rel_calls (p : PL.St) (r : List Nat) (k : Nat) : (p.rel r k).calls = p.calls := rfl
@[simp] theorem rel_failAt (p : PL.St) (r : List Nat) (k : Nat) : (p.rel r k).failAt = p.failAt := rfl
@[simp] theorem rel_failFrom (p : PL.St) (r : List Nat) (k : Nat) : (p.rel r k).failFrom = p.failFrom := rfl
@[simp] theorem rel_tableCap (p : PL.St) (r : List Nat) (k : Nat) : (p.rel r k).tableCap = p.tableCap := rfl
@[simp] theorem rel_tableHeap (p : PL.St) (r : List Nat) (k : Nat) : (p.rel r k).tableHeap = p.tableHeap := rfl

/-! ## Exact reference counts -/

/-- reference count stored in node `id` (0 when the node does not exist) -/
def Doc.refsOf (d : Doc) (id : Nat) : Nat :=
  match d.strings.find? (·.id == id) with | some n => n.refs | none => 0

/-- `Exact d rs`: every node of the string table is referenced, and its counter is exactly the number of references
    to it in `rs`. (`StrOK` only says "at least"; together they say that the table holds exactly the strings in use.) -/
def Exact (d : Doc) (rs : List Nat) : Prop := ∀ n ∈ d.strings, n.refs = rs.count n.id ∧ 1 ≤ n.refs

theorem Exact_perm {d : Doc} {rs rs' : List Nat} (hp : List.Perm rs rs') (h : Exact d rs) : Exact d rs' :=
  fun n hn => by rw [← hp.count_eq]; exact h n hn

theorem Exact_congr {d d' : Doc} {rs : List Nat} (h1 : d'.strings = d.strings) (h : Exact d rs) : Exact d' rs := by
  intro n hn; rw [h1] at hn; exact h n hn

theorem refsOf_of_mem {d : Doc} (hnd : (d.strings.map (·.id)).Nodup) {x : StrNode} (hx : x ∈ d.strings) :
    d.refsOf x.id = x.refs := by
  simp only [Doc.refsOf, find_id_of_nodup hnd hx]

theorem refsOf_absent {d : Doc} {m : Nat} (h : ∀ x ∈ d.strings, x.id ≠ m) : d.refsOf m = 0 := by
  have : d.strings.find? (·.id == m) = none := by
    rw [List.find?_eq_none]; intro x hx; simpa using h x hx
  simp only [Doc.refsOf, this]

/-- under `StrOK` and `Exact` the counter of node `m` is the number of references to `m`, for every `m` -/
theorem refsOf_exact {d : Doc} {rs : List Nat} (hs : StrOK d rs) (he : Exact d rs) (m : Nat) :
    d.refsOf m = rs.count m := by
  by_cases h : ∃ x ∈ d.strings, x.id = m
  · obtain ⟨x, hx, rfl⟩ := h
    rw [refsOf_of_mem hs.ids_nodup hx]; exact (he x hx).1
  · have h' : ∀ x ∈ d.strings, x.id ≠ m := fun x hx e => h ⟨x, hx, e⟩
    rw [refsOf_absent h']
    symm; apply List.count_eq_zero.2
    intro hm
    obtain ⟨y, hy, hyid⟩ := hs.present m hm
    exact h' y hy hyid

/-- a node exists exactly when it is referenced -/
theorem node_iff_referenced {d : Doc} {rs : List Nat} (hs : StrOK d rs) (he : Exact d rs) (m : Nat) :
    (∃ x ∈ d.strings, x.id = m) ↔ m ∈ rs := by
  constructor
  · rintro ⟨x, hx, rfl⟩
    have := he x hx
    exact List.count_pos_iff.1 (by omega)
  · intro hm
    obtain ⟨y, hy, hyid⟩ := hs.present m hm
    exact ⟨y, hy, hyid⟩

/-! ## Removing a node -/

theorem filter_id_length {l : List StrNode} (hnd : (l.map (·.id)).Nodup) {x : StrNode} (hx : x ∈ l) :
    (l.filter (·.id != x.id)).length + 1 = l.length := by
  induction l with
  | nil => cases hx
  | cons y ys ih =>
    simp only [List.map_cons, List.nodup_cons] at hnd
    by_cases hyx : y.id = x.id
    · have hall : ys.filter (·.id != x.id) = ys := by
        apply List.filter_eq_self.2
        intro z hz
        have : z.id ≠ x.id := fun e => hnd.1 (by rw [hyx, ← e]; exact List.mem_map_of_mem hz)
        simpa using this
      have hb : (y.id != x.id) = false := by simp [hyx]
      rw [List.filter_cons, hb]
      simp only [Bool.false_eq_true, if_false, hall, List.length_cons]
    · have hxs : x ∈ ys := by
        rcases List.mem_cons.1 hx with e | m
        · exact absurd (by rw [e]) hyx
        · exact m
      have hb : (y.id != x.id) = true := by simp [hyx]
      rw [List.filter_cons, hb]
      simp only [if_true, List.length_cons]
      have := ih hnd.2 hxs
      omega

/-! ## `derefString` -/

theorem derefString_found {d : Doc} {n : Nat} {x : StrNode} (hf : d.strings.find? (·.id == n) = some x) :
    d.derefString n =
      if x.refs ≤ 1 then { d with strings := d.strings.filter (·.id != n), pl := d.pl.dealloc }
      else { d with strings := d.strings.map (fun y => if y.id == n then { y with refs := y.refs - 1 } else y) } := by
  simp only [Doc.derefString, hf]

theorem derefString_absent {d : Doc} {n : Nat} (hf : d.strings.find? (·.id == n) = none) : d.derefString n = d := by
  simp only [Doc.derefString, hf]

/-- releasing one reference to node `n`: the overflow flag is kept; the table loses at most one node, and exactly
    when it does one `D` is logged; the byte strings stored are a sub-list of the old ones; exact counts stay exact -/
theorem derefString_facts {d : Doc} {n : Nat} {keep : List Nat} (hs : StrOK d (n :: keep)) :
    (d.derefString n).overflowed = d.overflowed ∧
    (d.derefString n).strings.length ≤ d.strings.length ∧
    (d.derefString n).pl = d.pl.rel [] (d.strings.length - (d.derefString n).strings.length) ∧
    ((d.derefString n).strings.map (·.bytes)).Sublist (d.strings.map (·.bytes)) ∧
    (Exact d (n :: keep) → Exact (d.derefString n) keep) := by
  obtain ⟨x, hx, hxid⟩ := hs.present n (by simp)
  have hf : d.strings.find? (·.id == n) = some x := by rw [← hxid]; exact find_id_of_nodup hs.ids_nodup hx
  rw [derefString_found hf]
  split
  · rename_i hle
    have hlen := filter_id_length hs.ids_nodup hx
    rw [hxid] at hlen
    refine ⟨rfl, ?_, ?_, (List.filter_sublist).map _, ?_⟩
    · show (d.strings.filter (·.id != n)).length ≤ _; omega
    · show d.pl.dealloc = d.pl.rel [] (d.strings.length - (d.strings.filter (·.id != n)).length)
      have : d.strings.length - (d.strings.filter (·.id != n)).length = 1 := by omega
      rw [this]; rfl
    · intro he y hy
      obtain ⟨hy1, hy2⟩ := List.mem_filter.1 hy
      have hne : y.id ≠ n := by simpa using hy2
      have := he y hy1
      rw [List.count_cons] at this
      have hb : (n == y.id) = false := by simp [Ne.symm hne]
      simpa [hb] using this
  · rename_i hgt
    have hfb : ∀ y : StrNode, (if y.id == n then { y with refs := y.refs - 1 } else y).bytes = y.bytes := by
      intro y; split <;> rfl
    refine ⟨rfl, ?_, ?_, ?_, ?_⟩
    · show (d.strings.map _).length ≤ _; rw [List.length_map]; exact Nat.le_refl _
    · show d.pl = d.pl.rel [] (d.strings.length - (d.strings.map _).length)
      rw [List.length_map, Nat.sub_self]; rfl
    · show ((d.strings.map _).map _).Sublist _
      rw [List.map_map]
      have : ((fun (x : StrNode) => x.bytes) ∘ fun y => if y.id == n then { y with refs := y.refs - 1 } else y)
          = fun x => x.bytes := by funext y; exact hfb y
      rw [this]; exact List.Sublist.refl _
    · intro he y' hy'
      obtain ⟨y, hy, rfl⟩ := List.mem_map.1 hy'
      have := he y hy
      rw [List.count_cons] at this
      by_cases hyn : y.id = n
      · have hb : (y.id == n) = true := by simp [hyn]
        have hb' : (n == y.id) = true := by simp [hyn]
        have hyx : y = x := by
          have h1 := find_id_of_nodup hs.ids_nodup hy
          rw [hyn, hf] at h1; exact (Option.some.inj h1).symm
        simp only [hb, if_true]
        simp only [hb', if_true] at this
        show y.refs - 1 = keep.count y.id ∧ 1 ≤ y.refs - 1
        subst hyx; omega
      · have hb : (y.id == n) = false := by simp [hyn]
        have hb' : (n == y.id) = false := by simp [Ne.symm hyn]
        simp only [hb]
        simpa [hb'] using this

/-! ## `saveString` -/

theorem saveString_found {d : Doc} {s : List Byte} {x : StrNode} (hf : d.strings.find? (·.bytes == s) = some x) :
    d.saveString s =
      (some x.id, { d with strings := d.strings.map (fun y => if y.id == x.id then { y with refs := y.refs + 1 } else y) }) := by
  simp only [Doc.saveString, hf]

/-- a new string: refused without an allocator call beyond the length limit, otherwise one allocator call -/
theorem saveString_new {d : Doc} {s : List Byte} (hf : d.strings.find? (·.bytes == s) = none) :
    d.saveString s =
      if s.length > d.maxStrLen then (none, { d with overflowed := true }) else
      if d.pl.failsAt (d.pl.calls + 1) then
        (none, { d with pl := (d.pl.alloc (s.length + d.strOverhead)).2, overflowed := true })
      else (some d.nextNode, { d with pl := (d.pl.alloc (s.length + d.strOverhead)).2, strings := ⟨d.nextNode, s, 1⟩ :: d.strings, nextNode := d.nextNode + 1 }) := by
  simp only [Doc.saveString, hf]
  split
  · rfl
  have h1 := PL.alloc_fst d.pl (s.length + d.strOverhead)
  generalize hq : d.pl.alloc (s.length + d.strOverhead) = q at h1 ⊢
  obtain ⟨ok, pl⟩ := q
  simp only at h1 ⊢
  subst h1
  cases d.pl.failsAt (d.pl.calls + 1) <;> simp

/-- a new string beyond the length limit: refused, flag set, nothing else changes (no allocator call) -/
theorem saveString_long {d : Doc} {s : List Byte} (hf : d.strings.find? (·.bytes == s) = none) (hlong : d.maxStrLen < s.length) :
    d.saveString s = (none, { d with overflowed := true }) := by
  rw [saveString_new hf, if_pos hlong]

/-- a new string within the length limit: exactly one allocator call decides -/
theorem saveString_short {d : Doc} {s : List Byte} (hf : d.strings.find? (·.bytes == s) = none) (hlen : s.length ≤ d.maxStrLen) :
    d.saveString s =
      if d.pl.failsAt (d.pl.calls + 1) then
        (none, { d with pl := (d.pl.alloc (s.length + d.strOverhead)).2, overflowed := true })
      else (some d.nextNode, { d with pl := (d.pl.alloc (s.length + d.strOverhead)).2, strings := ⟨d.nextNode, s, 1⟩ :: d.strings, nextNode := d.nextNode + 1 }) := by
  rw [saveString_new hf, if_neg (Nat.not_lt.2 hlen)]

/-- `saveString` keeps exact counts exact, with one more reference to the node it returns -/
theorem saveString_exact {d d1 : Doc} {s : List Byte} {n : Nat} {rs : List Nat} (hs : StrOK d rs) (he : Exact d rs)
    (h : d.saveString s = (some n, d1)) : Exact d1 (n :: rs) := by
  cases hf : d.strings.find? (·.bytes == s) with
  | some x =>
    rw [saveString_found hf] at h
    simp only [Prod.mk.injEq, Option.some.injEq] at h
    obtain ⟨rfl, rfl⟩ := h
    intro y' hy'
    obtain ⟨y, hy, rfl⟩ := List.mem_map.1 hy'
    have := he y hy
    rw [List.count_cons]
    by_cases hyn : y.id = x.id
    · have hb : (y.id == x.id) = true := by simp [hyn]
      have hb' : (x.id == y.id) = true := by simp [hyn]
      simp only [hb, hb', if_true]
      show y.refs + 1 = _ ∧ 1 ≤ y.refs + 1
      omega
    · have hb : (y.id == x.id) = false := by simp [hyn]
      have hne : x.id ≠ y.id := Ne.symm hyn
      simp only [hb]
      simpa [hne] using this
  | none =>
    rw [saveString_new hf] at h
    split at h
    · simp only [Prod.mk.injEq] at h; exact absurd h.1 (by simp)
    split at h
    · simp only [Prod.mk.injEq] at h; exact absurd h.1 (by simp)
    · simp only [Prod.mk.injEq, Option.some.injEq] at h
      obtain ⟨rfl, rfl⟩ := h
      have hnotin : d.nextNode ∉ rs := by
        intro m
        obtain ⟨y, hy, hyid⟩ := hs.present _ m
        exact absurd (hs.ids_lt y hy) (by rw [hyid]; exact Nat.lt_irrefl _)
      intro y hy
      rw [List.count_cons]
      rcases List.mem_cons.1 hy with e | m
      · subst e
        have : rs.count d.nextNode = 0 := List.count_eq_zero.2 hnotin
        simp [this]
      · have hne : d.nextNode ≠ y.id := Nat.ne_of_gt (hs.ids_lt y m)
        have hb : (d.nextNode == y.id) = false := by simp [hne]
        simp only [hb]
        simpa using he y m

/-- `saveString` never changes cells, root, overflow flag (on success), geometry -/
theorem saveString_some_frame {d d1 : Doc} {s : List Byte} {n : Nat} (h : d.saveString s = (some n, d1)) :
    d1.cells = d.cells ∧ d1.root = d.root ∧ d1.g = d.g ∧ d1.overflowed = d.overflowed ∧ d1.strOverhead = d.strOverhead := by
  cases hf : d.strings.find? (·.bytes == s) with
  | some x =>
    rw [saveString_found hf] at h
    simp only [Prod.mk.injEq, Option.some.injEq] at h
    obtain ⟨_, rfl⟩ := h
    exact ⟨rfl, rfl, rfl, rfl, rfl⟩
  | none =>
    rw [saveString_new hf] at h
    split at h
    · simp only [Prod.mk.injEq] at h; exact absurd h.1 (by simp)
    split at h
    · simp only [Prod.mk.injEq] at h; exact absurd h.1 (by simp)
    · simp only [Prod.mk.injEq, Option.some.injEq] at h
      obtain ⟨_, rfl⟩ := h
      exact ⟨rfl, rfl, rfl, rfl, rfl⟩

/-- distinct nodes hold distinct byte strings ("equal copied strings are stored once") -/
def BytesNodup (d : Doc) : Prop := (d.strings.map (·.bytes)).Nodup

theorem find_bytes_none {l : List StrNode} {s : List Byte} (h : l.find? (·.bytes == s) = none) : s ∉ l.map (·.bytes) := by
  intro m
  obtain ⟨y, hy, e⟩ := List.mem_map.1 m
  have := List.find?_eq_none.1 h y hy
  simp [e] at this

theorem saveString_bytesNodup {d : Doc} {s : List Byte} (h : BytesNodup d) : BytesNodup (d.saveString s).2 := by
  cases hf : d.strings.find? (·.bytes == s) with
  | some x =>
    rw [saveString_found hf]
    show ((d.strings.map _).map _).Nodup
    rw [List.map_map]
    have : ((fun (x : StrNode) => x.bytes) ∘ fun y => if y.id == x.id then { y with refs := y.refs + 1 } else y)
        = fun x => x.bytes := by funext y; simp only [Function.comp]; split <;> rfl
    rw [this]; exact h
  | none =>
    rw [saveString_new hf]
    split
    · exact h
    split
    · exact h
    · show (List.map (fun (x : StrNode) => x.bytes) (_ :: d.strings)).Nodup
      simp only [List.map_cons, List.nodup_cons]
      exact ⟨find_bytes_none hf, h⟩

/-! ## Balance of the allocator log against the blocks owned -/

/-- `Bal d`: the blocks outstanding according to the allocator log are exactly the blocks the document owns: one per
    pool with a block, one for a heap-allocated pool table, one per string node -/
def Bal (d : Doc) : Prop := PL.net d.pl = d.strings.length

theorem Bal_of {d d' : Doc} (h1 : PL.net d'.pl = PL.net d.pl) (h2 : d'.strings.length = d.strings.length) (h : Bal d) :
    Bal d' := by
  unfold Bal at *; rw [h1, h2]; exact h

theorem net_rel (p : PL.St) (r : List Nat) (k : Nat) : PL.net (p.rel r k) = PL.net p - k := by
  simp only [PL.net, rel_log, PL.outstanding_replicate_D]
  have : PL.blocks (p.rel r k) = PL.blocks p := rfl
  rw [this]; omega

theorem alloc_net (s : PL.St) (n : Nat) :
    PL.net (s.alloc n).2 = PL.net s + (if s.failsAt (s.calls + 1) then 0 else 1) := by
  obtain ⟨ok, s1, h, h1, h2, _, _, h5⟩ := PL.alloc_facts s n
  have hok : ok = !s.failsAt (s.calls + 1) := by
    have := PL.alloc_fst s n; rw [h] at this; exact this
  rw [h]
  simp only [PL.net, PL.blocks, h1, h2, h5, hok]
  cases s.failsAt (s.calls + 1) <;> simp <;> omega

theorem set_bal {d : Doc} (l : Loc) (v : VData) (h : Bal d) : Bal (d.set l v) :=
  Bal_of (by rw [set_pl]) (by rw [set_strings]) h

theorem allocVariant_pl_s (d : Doc) :
    d.allocVariant.2.pl = (PL.allocSlot d.g d.pl).2 ∧ d.allocVariant.2.strings = d.strings := by
  simp only [Doc.allocVariant]
  split <;> (rename_i h; rw [h]; exact ⟨rfl, rfl⟩)

theorem allocExt_pl (d : Doc) (p : Int) :
    (d.allocExt p).2.pl = (PL.allocSlot d.g d.pl).2 ∧ (d.allocExt p).2.strings = d.strings := by
  simp only [Doc.allocExt]
  split <;> (rename_i h; rw [h]; exact ⟨rfl, rfl⟩)

theorem allocVariant_bal {d : Doc} (h : Bal d) : Bal d.allocVariant.2 :=
  Bal_of (by rw [(allocVariant_pl_s d).1, PL.allocSlot_net]) (by rw [(allocVariant_pl_s d).2]) h

theorem allocExt_bal {d : Doc} (p : Int) (h : Bal d) : Bal (d.allocExt p).2 :=
  Bal_of (by rw [(allocExt_pl d p).1, PL.allocSlot_net]) (by rw [(allocExt_pl d p).2]) h

theorem saveString_bal {d : Doc} (s : List Byte) (h : Bal d) : Bal (d.saveString s).2 := by
  cases hf : d.strings.find? (·.bytes == s) with
  | some x =>
    rw [saveString_found hf]
    exact Bal_of (d := d) rfl (by show (d.strings.map _).length = _; rw [List.length_map]) h
  | none =>
    rw [saveString_new hf]
    unfold Bal at *
    split
    · exact h
    split
    · rename_i hfail
      show PL.net (d.pl.alloc _).2 = (d.strings.length : Int)
      rw [alloc_net, hfail, h]; simp
    · rename_i hfail
      show PL.net (d.pl.alloc _).2 = ((_ :: d.strings).length : Int)
      have : d.pl.failsAt (d.pl.calls + 1) = false := by simpa using hfail
      rw [alloc_net, this, h]; simp

/-- anything kept by `set`, `allocExt` and `saveString` is kept by `setArg` -/
theorem setArg_preserves (P : Doc → Prop) (hset : ∀ d l v, P d → P (d.set l v))
    (hext : ∀ d p, P d → P (d.allocExt p).2) (hsave : ∀ d s, P d → P (d.saveString s).2)
    (d : Doc) (l : Loc) (a : Arg) (hP : P d) : P (d.setArg l a).2 := by
  have ext : ∀ (p : Int) (k : Nat → VData), P (match d.allocExt p with
      | (some s, d) => (true, d.set l (k s)) | (none, d) => (false, d)).2 := by
    intro p k
    have := hext d p hP
    generalize d.allocExt p = r at this ⊢
    obtain ⟨m, d1⟩ := r
    cases m
    · exact this
    · exact hset _ _ _ this
  have str : ∀ (s : List Byte) (k : Nat → VData), P (match d.saveString s with
      | (some n, d) => (let d := d.set l (k n); (!d.overflowed, d)) | (none, d) => (!d.overflowed, d)).2 := by
    intro s k
    have := hsave d s hP
    generalize d.saveString s = r at this ⊢
    obtain ⟨m, d1⟩ := r
    cases m
    · exact this
    · exact hset _ _ _ this
  cases a with
  | null => exact hP
  | bool b => exact hset _ _ _ hP
  | f32 b => exact hset _ _ _ hP
  | strLinked s => exact hset _ _ _ hP
  | sint v => simp only [Doc.setArg]; split; exact hset _ _ _ hP; exact ext v .i64
  | uint v => simp only [Doc.setArg]; split; exact hset _ _ _ hP; exact ext v .u64
  | f64 b =>
    simp only [Doc.setArg]; split
    · exact hset _ _ _ hP
    · exact ext b .f64
  | strCopied s => simp only [Doc.setArg]; exact str s .owned
  | raw s => simp only [Doc.setArg]; exact str s .raw

theorem setArg_bal {d : Doc} (l : Loc) (a : Arg) (h : Bal d) : Bal (d.setArg l a).2 :=
  setArg_preserves Bal (fun _ l v h => set_bal l v h) (fun _ p h => allocExt_bal p h) (fun _ s h => saveString_bal s h) d l a h

theorem setArg_bytesNodup {d : Doc} (l : Loc) (a : Arg) (h : BytesNodup d) : BytesNodup (d.setArg l a).2 :=
  setArg_preserves BytesNodup (fun d l v h => by unfold BytesNodup at *; rw [set_strings]; exact h)
    (fun d p h => by unfold BytesNodup at *; rw [(allocExt_pl d p).2]; exact h)
    (fun _ s h => saveString_bytesNodup h) d l a h

/-! ## `clearAll` -/

theorem foldl_dealloc (ss : List StrNode) (p : PL.St) :
    ss.foldl (fun pl _ => pl.dealloc) p = p.rel [] ss.length := by
  induction ss generalizing p with
  | nil => rfl
  | cons x xs ih =>
    rw [List.foldl_cons, ih]
    show (p.rel [] 0).dealloc.rel [] xs.length = _
    rw [dealloc_rel, rel_rel]; rfl

/-- `clearAll` hands back every block the document owns — one `D` per pool with a block, one for a heap-allocated
    pool table, one per string node — and nothing else happens to the allocator (no call); afterwards the document is
    empty and owns nothing -/
theorem clearAll_spec (d : Doc) :
    d.clearAll.pl.log = List.replicate (PL.blocks d.pl + d.strings.length) "D" ++ d.pl.log ∧
    d.clearAll.pl.calls = d.pl.calls ∧ d.clearAll.pl.pools = [] ∧ d.clearAll.pl.free = [] ∧
    PL.blocks d.clearAll.pl = 0 ∧ d.clearAll.strings = [] ∧ d.clearAll.root = .null ∧
    d.clearAll.overflowed = false ∧ (∀ j, d.clearAll.cell j = .free) := by
  obtain ⟨a, b, c, _, e, _, h⟩ := PL.clear_spec d.g d.pl
  have hpl : d.clearAll.pl = (PL.clear d.g d.pl).rel [] d.strings.length := foldl_dealloc _ _
  refine ⟨?_, by rw [hpl, rel_calls, e], by rw [hpl, rel_pools, a], by rw [hpl, rel_free, b]; rfl, ?_, rfl, rfl, rfl, ?_⟩
  · rw [hpl, rel_log, h, ← List.append_assoc, List.replicate_append_replicate, Nat.add_comm]
  · rw [hpl]; show PL.blocks (PL.clear d.g d.pl) = 0
    unfold PL.blocks; rw [a, c]; rfl
  · intro j; simp [Doc.cell, Doc.clearAll]

/-- with a balanced log, after `clearAll` no block is outstanding -/
theorem clearAll_outstanding {d : Doc} (h : Bal d) : PL.outstanding d.clearAll.pl.log = 0 := by
  rw [(clearAll_spec d).1, PL.outstanding_replicate_D]
  unfold Bal PL.net at h
  omega

end DL
