/- The position invariant `JD.Inv n s` (`pos + |unread| = n`, AJ/Lemmas/JDPos.lean) pushed through the FILTERED slot-level
   JSON deserializer `JDDF.parseVariant / parseElems / parseMembers` (AJ/Model/JDDF.lean), for every filter, document and
   allocator schedule: `JDDF.pos_run_le` — the filtered slot-level run never takes more bytes than the input has. No hypothesis
   (allocation failures stop the run earlier, never later). Same development as `JDD.mem_inv_all` (AJ/Lemmas/JddMem.lean) with the
   skipping branches (`JD.inv_skip_mutual`, `inv_skipQuoted`, `inv_skipNumeric`, AJ/Lemmas/JDPosF.lean).
   Used by AJ/Props/SlotCor2.lean. -/
import AJ.Lemmas.JddfInv
import AJ.Lemmas.JddMem
import AJ.Lemmas.JDPosF
namespace JDDF
open DL JDD
open JD (Byte Code Cfg Flt cur mv skipSpaces skipKeyword skipVariant skipElems skipMembers skipQuoted skipNumeric)

theorem pos_inv_all (cfg : Cfg) (n : Nat) : ∀ fuel,
    (∀ limit flt l x, JD.Inv n x.s → JD.Inv n (parseVariant cfg fuel limit flt l x).2.s) ∧
    (∀ limit flt l x, JD.Inv n x.s → JD.Inv n (parseElems cfg fuel limit flt l x).2.s) ∧
    (∀ limit flt l x, JD.Inv n x.s → JD.Inv n (parseMembers cfg fuel limit flt l x).2.s) := by
  intro fuel
  induction fuel with
  | zero =>
    refine ⟨?_, ?_, ?_⟩
    · intro limit flt l x h; simpa [parseVariant] using h
    · intro limit flt l x h; simpa [parseElems] using h
    · intro limit flt l x h; simpa [parseMembers] using h
  | succ f ih =>
    obtain ⟨ihV, ihE, ihM⟩ := ih
    have skV := fun limit s h => (JD.inv_skip_mutual (n := n) (cfg := cfg) f).1 limit s h
    have skE := fun limit s h => (JD.inv_skip_mutual (n := n) (cfg := cfg) f).2.1 limit s h
    have skM := fun limit s h => (JD.inv_skip_mutual (n := n) (cfg := cfg) f).2.2 limit s h
    refine ⟨?_, ?_, ?_⟩
    · intro limit flt l x h
      simp only [parseVariant]
      have h0 := JD.inv_skipSpaces (cfg := cfg) (f+1) x.s h
      split
      · rename_i s1 heq; rw [heq] at h0
        have h1 := JD.inv_cur h0
        split
        · -- `[`
          split
          · split
            · exact h1
            · have h2 := JD.inv_skipSpaces (cfg := cfg) (f+1) _ (JD.inv_mv h1)
              split
              · rename_i heq2; rw [heq2] at h2
                have h3 := JD.inv_cur h2
                split
                · exact JD.inv_mv h3
                · exact ihE _ _ _ _ h3
              · rename_i heq2; rw [heq2] at h2; exact h2
          · split
            · exact h1
            · exact skE _ _ (JD.inv_mv h1)
        · split
          · -- `{`
            split
            · split
              · exact h1
              · have h2 := JD.inv_skipSpaces (cfg := cfg) (f+1) _ (JD.inv_mv h1)
                split
                · rename_i heq2; rw [heq2] at h2
                  have h3 := JD.inv_cur h2
                  split
                  · exact JD.inv_mv h3
                  · exact ihM _ _ _ _ h3
                · rename_i heq2; rw [heq2] at h2; exact h2
            · split
              · exact h1
              · have h2 := JD.inv_skipSpaces (cfg := cfg) (f+1) _ (JD.inv_mv h1)
                split
                · rename_i heq2; rw [heq2] at h2
                  have h3 := JD.inv_cur h2
                  split
                  · exact JD.inv_mv h3
                  · exact skM _ _ h3
                · rename_i heq2; rw [heq2] at h2; exact h2
          · split
            · -- a string
              split
              · have h2 := mem_inv_quoted (n := n) cfg (f+1) (cur s1).1 ⟨mv (cur s1).2, x.d, x.b⟩ (JD.inv_mv h1)
                split
                · rename_i heq2; rw [heq2] at h2
                  show JD.Inv n (save _ _).2.s
                  rw [mem_save_s]; exact h2
                · rename_i heq2; rw [heq2] at h2; exact h2
              · exact JD.inv_skipQuoted _ _ (JD.inv_mv h1)
            · split
              · exact JD.inv_skipKeyword _ _ (by split <;> exact h1)
              · split
                · exact JD.inv_skipKeyword _ _ (by split <;> exact h1)
                · split
                  · exact JD.inv_skipKeyword _ _ h1
                  · split
                    · exact mem_inv_numeric cfg l ⟨(cur s1).2, x.d, x.b⟩ h1
                    · exact JD.inv_skipNumeric _ _ h1
      · rename_i heq; rw [heq] at h0; exact h0
    · intro limit flt l x h
      simp only [parseElems]
      split
      · rename_i x2 heq
        have hx2 : JD.Inv n x2.s := by
          split at heq
          · split at heq
            · cases heq
            · rename_i id d1 heq0
              have := ihV limit flt (.slot id) ⟨x.s, d1, x.b⟩ h
              rw [heq] at this; exact this
          · have := skV limit x.s h
            injection heq with _ h2
            subst h2; exact this
        have h1 := JD.inv_skipSpaces (cfg := cfg) (f+1) _ hx2
        split
        · rename_i heq3; rw [heq3] at h1
          have h2 := JD.inv_cur h1
          split
          · exact JD.inv_mv h2
          · split
            · exact ihE _ _ _ _ (JD.inv_mv h2)
            · exact h2
        · rename_i heq3; rw [heq3] at h1; exact h1
      · split
        · split
          · exact h
          · exact ihV _ _ _ _ h
        · exact skV _ _ h
    · intro limit flt l x h
      simp only [parseMembers]
      have hc := JD.inv_cur h
      have hkey : JD.Inv n (if ((cur x.s).fst == 34 || (cur x.s).fst == 39) = true then
            quoted cfg (f + 1) (cur x.s).fst { s := mv (cur x.s).snd, d := x.d, b := x.b }
          else
            if JD.inUnquoted (cur x.s).fst = true then unquoted cfg (f + 1) { s := (cur x.s).snd, d := x.d, b := x.b }
            else (Code.invalid, [], startString { s := (cur x.s).snd, d := x.d, b := x.b })).2.2.s := by
        split
        · exact mem_inv_quoted cfg _ _ ⟨mv (cur x.s).2, x.d, x.b⟩ (JD.inv_mv hc)
        · split
          · exact mem_inv_unquoted cfg _ ⟨(cur x.s).2, x.d, x.b⟩ hc
          · show JD.Inv n (startString _).s
            rw [(startString_spec _).2.1]; exact hc
      generalize (if ((cur x.s).fst == 34 || (cur x.s).fst == 39) = true then
            quoted cfg (f + 1) (cur x.s).fst { s := mv (cur x.s).snd, d := x.d, b := x.b }
          else
            if JD.inUnquoted (cur x.s).fst = true then unquoted cfg (f + 1) { s := (cur x.s).snd, d := x.d, b := x.b }
            else (Code.invalid, [], startString { s := (cur x.s).snd, d := x.d, b := x.b })) = kr at hkey ⊢
      obtain ⟨kc, key, x1⟩ := kr
      cases kc <;> simp only at hkey ⊢ <;> try exact hkey
      have h1 := JD.inv_skipSpaces (cfg := cfg) (f+1) _ hkey
      split
      · rename_i s2 heq; rw [heq] at h1
        have h2 := JD.inv_cur h1
        split
        · exact h2
        · have h3 := JD.inv_mv h2
          have hsv := mem_save_s { s := mv (cur s2).2, d := x1.d, b := x1.b } key
          split
          · rename_i x2 heq2
            have hx2 : JD.Inv n x2.s := by
              split at heq2
              · split at heq2
                · cases heq2
                · rename_i v x3 hs
                  have hx3 : JD.Inv n x3.s := by
                    split at hs
                    · injection hs with _ e; subst e; exact h3
                    · split at hs
                      · injection hs with _ e; subst e
                        show JD.Inv n (save _ key).2.s
                        rw [hsv]; exact h3
                      · cases hs
                  have := ihV limit (flt.subKey key) (.slot v) x3 hx3
                  rw [heq2] at this; exact this
              · have := skV limit _ h3
                injection heq2 with _ e
                subst e; exact this
            have h4 := JD.inv_skipSpaces (cfg := cfg) (f+1) _ hx2
            split
            · rename_i heq5; rw [heq5] at h4
              have h5 := JD.inv_cur h4
              split
              · exact JD.inv_mv h5
              · split
                · have h6 := JD.inv_skipSpaces (cfg := cfg) (f+1) _ (JD.inv_mv h5)
                  split
                  · rename_i heq6; rw [heq6] at h6; exact ihM _ _ _ _ h6
                  · rename_i heq6; rw [heq6] at h6; exact h6
                · exact h5
            · rename_i heq5; rw [heq5] at h4; exact h4
          · split
            · split
              · rename_i x3 hs
                split at hs
                · cases hs
                · split at hs
                  · cases hs
                  · injection hs with _ e; subst e
                    show JD.Inv n (save _ key).2.s
                    rw [hsv]; exact h3
              · rename_i v x3 hs
                have hx3 : JD.Inv n x3.s := by
                  split at hs
                  · injection hs with _ e; subst e; exact h3
                  · split at hs
                    · injection hs with _ e; subst e
                      show JD.Inv n (save _ key).2.s
                      rw [hsv]; exact h3
                    · cases hs
                exact ihV _ _ _ _ hx3
            · exact skV _ _ h3
      · rename_i heq; rw [heq] at h1; exact h1

/-- the filtered slot-level JSON run never consumes more bytes than the input has — every filter, document, allocator
    schedule -/
theorem pos_run_le (cfg : Cfg) (limit : Nat) (flt : Flt) (d : Doc) (input : List Byte) :
    (run cfg limit flt d input).2.2 ≤ input.length := by
  have h0 : JD.Inv input.length (start d input).s := by simp [JD.Inv, start]
  have h := (pos_inv_all cfg input.length (2 * input.length + 4)).1 limit flt .root (start d input) h0
  rw [run_eq]
  unfold JD.Inv at h
  show (stop cfg limit flt d input).2.s.l.pos ≤ _
  unfold stop
  omega

end JDDF
