/- The position invariant `MDD.MemQ n r` (`pos + |unread| = n`, AJ/Lemmas/MddMem.lean) pushed through the FILTERED slot-level
   MessagePack deserializer `MDDF.parseVariant / readArray / readObject` (AJ/Model/MDDF.lean), for every filter, destination,
   document and allocator schedule: `MDDF.pos_run_le` — the filtered slot-level run never takes more bytes than the input has.
   No hypothesis. Same development as `MDD.mem_q_all` with the branches that skip on the reader only.
   Used by AJ/Props/SlotCor2.lean. -/
import AJ.Model.MDDF
import AJ.Lemmas.MddMem
namespace MDDF
open DL MD
open JD (Byte Code Flt)
open MDD (S reserve save readString store MemQ mem_q_read mem_q_readBytes mem_q_reserve mem_q_of_reserve mem_save_r
  mem_q_readString mem_q_hdr mem_q_keyLen)

theorem pos_q_skipBytes {n : Nat} {r r1 : R} {m : Nat} {o : Bool} (h : MemQ n r) (e : r.skipBytes m = (o, r1)) :
    MemQ n r1 := by
  have := (MD.q_skipBytes (n := n) (k := n) m ⟨h, by unfold MemQ at h; omega⟩).1
  rw [e] at this; exact this

theorem pos_store_r (x : S) (l : Loc) (a : Arg) : (store x l a).2.r = x.r := rfl

local macro "qsplit" : tactic =>
  `(tactic| refine MD.ite_elim (P := fun (out : Code × S × Bool) => MemQ _ out.2.1.r) (fun _ => ?_) (fun _ => ?_))

set_option maxRecDepth 8000 in
theorem pos_q_all (env : Env) (n : Nat) : ∀ fuel,
    (∀ limit flt l x, MemQ n x.r → MemQ n (parseVariant env fuel limit flt l x).2.1.r) ∧
    (∀ limit flt l m x, MemQ n x.r → MemQ n (readArray env fuel limit flt l m x).2.r) ∧
    (∀ limit flt l m x, MemQ n x.r → MemQ n (readObject env fuel limit flt l m x).2.r) := by
  intro fuel
  induction fuel with
  | zero =>
    refine ⟨?_, ?_, ?_⟩
    · intro limit flt l x h; simpa [parseVariant] using h
    · intro limit flt l m x h; simpa [readArray] using h
    · intro limit flt l m x h; simpa [readObject] using h
  | succ f ih =>
    obtain ⟨ihV, ihA, ihO⟩ := ih
    refine ⟨?_, ?_, ?_⟩
    · intro limit flt l x h
      simp only [parseVariant]
      split
      · rename_i heq; exact mem_q_read h heq
      · rename_i code r1 heq
        have h1 := mem_q_read h heq
        qsplit
        · split
          · split
            · rename_i heq2
              have h2 := mem_q_readBytes h1 heq2
              split <;> exact h2
            · rename_i heq2; exact mem_q_readBytes h1 heq2
          · split <;> (rename_i heq2; exact pos_q_skipBytes h1 heq2)
        qsplit
        · exact h1
        qsplit
        · exact h1
        qsplit
        · split <;> exact h1
        qsplit
        · split
          · split <;> (rename_i heq2; exact mem_q_readBytes h1 heq2)
          · split <;> (rename_i heq2; exact pos_q_skipBytes h1 heq2)
        qsplit
        · split
          · split <;> (rename_i heq2; exact mem_q_readBytes h1 heq2)
          · split <;> (rename_i heq2; exact pos_q_skipBytes h1 heq2)
        qsplit
        · split <;> exact h1
        split
        · rename_i heq2; exact mem_q_hdr h1 heq2
        · rename_i hb size r2 heq2
          have h2 := mem_q_hdr h1 heq2
          clear heq2
          qsplit
          · split
            · exact h2
            · split
              · exact ihA _ _ _ _ ⟨r2, _, x.b⟩ h2
              · exact ihA _ _ _ _ ⟨r2, _, x.b⟩ h2
          qsplit
          · split
            · exact h2
            · split
              · exact ihO _ _ _ _ ⟨r2, _, x.b⟩ h2
              · exact ihO _ _ _ _ ⟨r2, _, x.b⟩ h2
          qsplit
          · split
            · have h3 := mem_q_readString env ⟨r2, x.d, x.b⟩ size h2
              split
              · rename_i heq3; rw [heq3] at h3
                show MemQ n (save _ _).2.r
                rw [mem_save_r]; exact h3
              · rename_i heq3; rw [heq3] at h3; exact h3
            · split <;> (rename_i heq3; exact pos_q_skipBytes h2 heq3)
          · split
            · split
              · rename_i heq3
                exact mem_q_of_reserve (x := ⟨r2, x.d, x.b⟩) h2 heq3
              · rename_i x' heq3
                have h4 := mem_q_of_reserve (x := ⟨r2, x.d, x.b⟩) h2 heq3
                split
                · rename_i heq4
                  show MemQ n (save _ _).2.r
                  rw [mem_save_r]; exact mem_q_readBytes h4 heq4
                · rename_i heq4; exact mem_q_readBytes h4 heq4
            · split <;> (rename_i heq3; exact pos_q_skipBytes h2 heq3)
    · intro limit flt l m x h
      simp only [readArray]
      refine MD.ite_elim (P := fun (out : Code × S) => MemQ n out.2.r) (fun _ => h) (fun _ => ?_)
      split
      · rename_i x2 hs
        split at hs
        · split at hs
          · injection hs with _ e; subst e; exact h
          · cases hs
        · cases hs
      · rename_i dst x2 hs
        have hx2 : MemQ n x2.r := by
          split at hs
          · split at hs
            · cases hs
            · injection hs with _ e; subst e; exact h
          · injection hs with _ e; subst e; exact h
        have h1 := ihV limit flt dst x2 hx2
        split
        · rename_i heq2; rw [heq2] at h1; exact ihA _ _ _ _ _ h1
        · rename_i heq2; rw [heq2] at h1; exact h1
    · intro limit flt l m x h
      simp only [readObject]
      refine MD.ite_elim (P := fun (out : Code × S) => MemQ n out.2.r) (fun _ => h) (fun _ => ?_)
      split
      · rename_i heq; exact mem_q_read h heq
      · rename_i code r1 heq
        have h1 := mem_q_read h heq
        split
        · rename_i heq2; exact mem_q_keyLen h1 heq2
        · rename_i heq2; exact mem_q_keyLen h1 heq2
        · rename_i len r2 heq2
          have h2 := mem_q_keyLen h1 heq2
          have h3 := mem_q_readString env ⟨r2, x.d, x.b⟩ len h2
          split
          · rename_i key x1 heq3
            rw [heq3] at h3
            simp only at h3
            have hsv : MemQ n (save x1 key).2.r := by rw [mem_save_r]; exact h3
            split
            · rename_i x2 hs
              split at hs
              · split at hs
                · injection hs with _ e; subst e; exact hsv
                · cases hs
              · cases hs
            · rename_i dst x2 hs
              have hx2 : MemQ n x2.r := by
                split at hs
                · split at hs
                  · cases hs
                  · injection hs with _ e; subst e; exact hsv
                · injection hs with _ e; subst e; exact h3
              have h4 := ihV limit (flt.subKey key) dst x2 hx2
              split
              · rename_i heq5; rw [heq5] at h4; exact ihO _ _ _ _ _ h4
              · rename_i heq5; rw [heq5] at h4; exact h4
          · rename_i heq3; rw [heq3] at h3; exact h3

/-- the filtered slot-level MessagePack run never consumes more bytes than the input has — every filter, document, allocator
    schedule -/
theorem pos_run_le (env : Env) (limit : Nat) (flt : Flt) (d : Doc) (input : List Byte) :
    (run env limit flt d input).2.2 ≤ input.length := by
  have h0 : MemQ input.length ({ unread := input } : R) := by simp [MemQ]
  have h := (pos_q_all env input.length (2 * input.length + 4)).1 limit flt (some .root)
    { r := { unread := input }, d := d.clearAll } h0
  unfold MemQ at h
  unfold run
  simp only
  generalize parseVariant env (2 * input.length + 4) limit flt (some .root) { r := { unread := input }, d := d.clearAll } = r
    at h ⊢
  obtain ⟨c, x, fnd⟩ := r
  simp only at h ⊢
  omega

end MDDF
