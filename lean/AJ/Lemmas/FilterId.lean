/- Transparent filters (`AllowAllFilter`, or a `Filter` over a document that is `true`) make the filtered
   deserializers coincide with the unfiltered ones; "no destination, no value" discipline of the MessagePack model. -/
import AJ.Model.JD
import AJ.Model.MD
namespace JD

/-- a filter that lets everything through: `AllowAllFilter`, or `Filter(v)` with `v == true` -/
def Transparent (f : Flt) : Prop := f = .all ∨ ∃ v, f = .doc (some v) ∧ isTrueVal v = true

theorem isTrueVal_truthy : ∀ v, isTrueVal v = true → truthy v = true := by
  intro v h
  unfold isTrueVal at h
  split at h <;> first | rfl | (simp only [truthy]; decide) | exact absurd h (by decide)

theorem Transparent.allow {f} (h : Transparent f) : f.allow = true := by
  rcases h with rfl | ⟨v, rfl, hv⟩
  · rfl
  · exact isTrueVal_truthy v hv

theorem Transparent.allowArray {f} (h : Transparent f) : f.allowArray = true := by
  rcases h with rfl | ⟨v, rfl, hv⟩
  · rfl
  · simp only [Flt.allowArray, hv, Bool.true_or]

theorem Transparent.allowObject {f} (h : Transparent f) : f.allowObject = true := by
  rcases h with rfl | ⟨v, rfl, hv⟩
  · rfl
  · simp only [Flt.allowObject, hv, Bool.true_or]

theorem Transparent.allowValue {f} (h : Transparent f) : f.allowValue = true := by
  rcases h with rfl | ⟨v, rfl, hv⟩
  · rfl
  · exact hv

theorem Transparent.subIdx_eq {f} (h : Transparent f) : f.subIdx = f := by
  rcases h with rfl | ⟨v, rfl, hv⟩
  · rfl
  · simp only [Flt.subIdx, hv, if_true]

theorem Transparent.subKey_eq {f} (h : Transparent f) (k : List Byte) : f.subKey k = f := by
  rcases h with rfl | ⟨v, rfl, hv⟩
  · rfl
  · simp only [Flt.subKey, hv, if_true]

theorem Transparent.subIdx {f} (h : Transparent f) : Transparent f.subIdx := by
  rw [h.subIdx_eq]; exact h

theorem Transparent.subKey {f} (h : Transparent f) (k : List Byte) : Transparent (f.subKey k) := by
  rw [h.subKey_eq]; exact h

/-- the bundle asked for by the property -/
theorem Transparent.all_props {f} (h : Transparent f) :
    f.allow = true ∧ f.allowArray = true ∧ f.allowObject = true ∧ f.allowValue = true ∧
    Transparent f.subIdx ∧ ∀ k, Transparent (f.subKey k) :=
  ⟨h.allow, h.allowArray, h.allowObject, h.allowValue, h.subIdx, h.subKey⟩

theorem transparent_all : Transparent .all := Or.inl rfl
theorem transparent_true {v} (h : isTrueVal v = true) : Transparent (.doc (some v)) := Or.inr ⟨v, rfl, h⟩

set_option maxRecDepth 8000 in
theorem fparse_eq_parse {cfg : Cfg} : ∀ fuel,
    (∀ limit f s, Transparent f → fparseVariant cfg fuel limit f s = parseVariant cfg fuel limit s) ∧
    (∀ limit f s acc, Transparent f → fparseElems cfg fuel limit f s acc = parseElems cfg fuel limit s acc) ∧
    (∀ limit f s ms, Transparent f → fparseMembers cfg fuel limit f s ms = parseMembers cfg fuel limit s ms) := by
  intro fuel
  induction fuel with
  | zero =>
    refine ⟨?_, ?_, ?_⟩
    · intro limit f s _; simp only [fparseVariant, parseVariant]
    · intro limit f s acc _; simp only [fparseElems, parseElems]
    · intro limit f s ms _; simp only [fparseMembers, parseMembers]
  | succ n ih =>
    obtain ⟨ihV, ihE, ihM⟩ := ih
    refine ⟨?_, ?_, ?_⟩
    · intro limit f s h
      have hE : ∀ l s acc, fparseElems cfg n l f.subIdx s acc = parseElems cfg n l s acc :=
        fun l s acc => ihE l _ s acc h.subIdx
      have hM : ∀ l s ms, fparseMembers cfg n l f s ms = parseMembers cfg n l s ms :=
        fun l s ms => ihM l _ s ms h
      simp only [fparseVariant, parseVariant, h.allowArray, h.allowObject, h.allowValue, if_true, hE, hM]
    · intro limit f s acc h
      simp only [fparseElems, parseElems, h.allow, if_true, ihV limit f s h]
      generalize parseVariant cfg n limit s = r
      obtain ⟨e, v, s'⟩ := r
      have hE : ∀ s acc, fparseElems cfg n limit f s acc = parseElems cfg n limit s acc :=
        fun s acc => ihE limit f s acc h
      cases e <;> simp only [hE]
    · intro limit f s ms h
      simp only [fparseMembers, parseMembers]
      have hA : ∀ k, (f.subKey k).allow = true := fun k => (h.subKey k).allow
      have hV : ∀ k s, fparseVariant cfg n limit (f.subKey k) s = parseVariant cfg n limit s :=
        fun k s => ihV limit _ s (h.subKey k)
      have hM : ∀ s ms, fparseMembers cfg n limit f s ms = parseMembers cfg n limit s ms :=
        fun s ms => ihM limit f s ms h
      split
      · split
        · split
          · rfl
          · simp only [hA, if_true, hV]
            rename_i s2 _ _
            generalize parseVariant cfg n limit (mv (cur s2).2) = r
            obtain ⟨e, v, s'⟩ := r
            cases e <;> simp only [hM]
        · rfl
      · rfl

/-! ## one level of projection: what a non-transparent filter does to the top-level value -/

/-- shape predicates for the result value -/
def Val.isArr : Val → Bool | .arr _ => true | _ => false
def Val.isObj : Val → Bool | .obj _ => true | _ => false

theorem parseMembers_isObj {cfg : Cfg} : ∀ fuel limit s ms, (parseMembers cfg fuel limit s ms).2.1.isObj = true := by
  intro fuel
  induction fuel with
  | zero => intro limit s ms; simp only [parseMembers, Val.isObj]
  | succ n ih =>
    intro limit s ms
    simp only [parseMembers]
    repeat' split
    all_goals first | rfl | exact ih _ _ _

theorem parseElems_isArr {cfg : Cfg} : ∀ fuel limit s acc, (parseElems cfg fuel limit s acc).2.1.isArr = true := by
  intro fuel
  induction fuel with
  | zero => intro limit s acc; simp only [parseElems, Val.isArr]
  | succ n ih =>
    intro limit s acc
    simp only [parseElems]
    repeat' split
    all_goals first | rfl | exact ih _ _ _

theorem isObj_not_isArr (v : Val) (h : v.isObj = true) : v.isArr = false := by
  cases v <;> first | rfl | exact Bool.noConfusion h
theorem isArr_not_isObj (v : Val) (h : v.isArr = true) : v.isObj = false := by
  cases v <;> first | rfl | exact Bool.noConfusion h

theorem parseNumeric_scalar {cfg : Cfg} (s : St) :
    (parseNumeric cfg s).2.1.isArr = false ∧ (parseNumeric cfg s).2.1.isObj = false := by
  simp only [parseNumeric]
  split <;> exact ⟨rfl, rfl⟩


set_option maxRecDepth 8000 in
/-- all three `allow*` answers negative: the filtered parser builds nothing -/
theorem fparseVariant_closed {cfg : Cfg} (fuel limit : Nat) (flt : Flt) (s : St)
    (hA : flt.allowArray = false) (hO : flt.allowObject = false) (hV : flt.allowValue = false) :
    (fparseVariant cfg fuel limit flt s).2.1 = .null := by
  cases fuel with
  | zero => simp only [fparseVariant]
  | succ n =>
    simp only [fparseVariant, hA, hO, hV, Bool.false_eq_true, if_false]
    repeat' split
    all_goals rfl

set_option maxRecDepth 8000 in
theorem fparseVariant_arr_null {cfg : Cfg} (fuel limit : Nat) (flt : Flt) (s : St)
    (hA : flt.allowArray = false) (h : (parseVariant cfg fuel limit s).2.1.isArr = true) :
    (fparseVariant cfg fuel limit flt s).2.1 = .null := by
  cases fuel with
  | zero => simp only [fparseVariant]
  | succ n =>
    simp only [parseVariant] at h
    simp only [fparseVariant, hA]
    generalize skipSpaces cfg (n+1) s = r at h ⊢
    obtain ⟨e, s1⟩ := r
    cases e <;> simp only at h ⊢
    by_cases hc : ((cur s1).1 == 0x5B) = true
    · simp only [hc, if_true, Bool.false_eq_true, if_false]
      repeat' split
      all_goals rfl
    · exfalso
      simp only [hc, Bool.false_eq_true, if_false] at h
      repeat' (split at h)
      all_goals first
        | exact Bool.noConfusion h
        | exact absurd h (by rw [isObj_not_isArr _ (parseMembers_isObj _ _ _ _)]; decide)
        | exact absurd h (by rw [(parseNumeric_scalar _).1]; decide)

set_option maxRecDepth 8000 in
theorem fparseVariant_obj_null {cfg : Cfg} (fuel limit : Nat) (flt : Flt) (s : St)
    (hO : flt.allowObject = false) (h : (parseVariant cfg fuel limit s).2.1.isObj = true) :
    (fparseVariant cfg fuel limit flt s).2.1 = .null := by
  cases fuel with
  | zero => simp only [fparseVariant]
  | succ n =>
    simp only [parseVariant] at h
    simp only [fparseVariant, hO]
    generalize skipSpaces cfg (n+1) s = r at h ⊢
    obtain ⟨e, s1⟩ := r
    cases e <;> simp only at h ⊢
    by_cases hc : ((cur s1).1 == 0x5B) = true
    · exfalso
      simp only [hc, if_true] at h
      repeat' (split at h)
      all_goals first
        | exact Bool.noConfusion h
        | exact absurd h (by rw [isArr_not_isObj _ (parseElems_isArr _ _ _ _)]; decide)
    · simp only [hc, Bool.false_eq_true, if_false] at h ⊢
      by_cases hd : ((cur s1).1 == 0x7B) = true
      · simp only [hd, if_true]
        repeat' split
        all_goals rfl
      · exfalso
        simp only [hd, Bool.false_eq_true, if_false] at h
        repeat' (split at h)
        all_goals first
          | exact Bool.noConfusion h
          | exact absurd h (by rw [(parseNumeric_scalar _).2]; decide)

theorem frun_val (cfg : Cfg) (L : Nat) (flt : Flt) (input : List Byte) :
    (frun cfg L flt input).2.1 = (fparseVariant cfg (2 * input.length + 4) L flt { l := { unread := input } }).2.1 := by
  simp only [frun]
  generalize fparseVariant cfg (2 * input.length + 4) L flt { l := { unread := input } } = r
  obtain ⟨e, v, s⟩ := r
  cases e <;> simp only
  split <;> rfl

theorem run_val (cfg : Cfg) (L : Nat) (input : List Byte) :
    (run cfg L input).2.1 = (parseVariant cfg (2 * input.length + 4) L { l := { unread := input } }).2.1 := by
  simp only [run]
  generalize parseVariant cfg (2 * input.length + 4) L { l := { unread := input } } = r
  obtain ⟨e, v, s⟩ := r
  cases e <;> simp only
  split <;> rfl

set_option maxRecDepth 8000 in
/-- scalars, `allowValue = true`: the filtered parser is the unfiltered one (whole result, state included) -/
theorem fparseVariant_scalar_keep {cfg : Cfg} (fuel limit : Nat) (flt : Flt) (s : St)
    (hV : flt.allowValue = true)
    (h1 : (parseVariant cfg fuel limit s).2.1.isArr = false) (h2 : (parseVariant cfg fuel limit s).2.1.isObj = false) :
    fparseVariant cfg fuel limit flt s = parseVariant cfg fuel limit s := by
  cases fuel with
  | zero => simp only [fparseVariant, parseVariant]
  | succ n =>
    simp only [parseVariant] at h1 h2 ⊢
    simp only [fparseVariant, hV]
    generalize skipSpaces cfg (n+1) s = r at h1 h2 ⊢
    obtain ⟨e, s1⟩ := r
    cases e <;> simp only at h1 h2 ⊢
    by_cases hc : ((cur s1).1 == 0x5B) = true
    · exfalso
      simp only [hc, if_true] at h1
      repeat' (split at h1)
      all_goals first
        | exact Bool.noConfusion h1
        | exact absurd h1 (by rw [parseElems_isArr]; decide)
    · simp only [hc, Bool.false_eq_true, if_false] at h2 ⊢
      by_cases hd : ((cur s1).1 == 0x7B) = true
      · exfalso
        simp only [hd, if_true] at h2
        repeat' (split at h2)
        all_goals first
          | exact Bool.noConfusion h2
          | exact absurd h2 (by rw [parseMembers_isObj]; decide)
      · simp only [hd, Bool.false_eq_true, if_false, if_true]

set_option maxRecDepth 8000 in
/-- scalars, `allowValue = false`: nothing is built -/
theorem fparseVariant_scalar_drop {cfg : Cfg} (fuel limit : Nat) (flt : Flt) (s : St)
    (hV : flt.allowValue = false)
    (h1 : (parseVariant cfg fuel limit s).2.1.isArr = false) (h2 : (parseVariant cfg fuel limit s).2.1.isObj = false) :
    (fparseVariant cfg fuel limit flt s).2.1 = .null := by
  cases fuel with
  | zero => simp only [fparseVariant]
  | succ n =>
    simp only [parseVariant] at h1 h2
    simp only [fparseVariant, hV]
    generalize skipSpaces cfg (n+1) s = r at h1 h2 ⊢
    obtain ⟨e, s1⟩ := r
    cases e <;> simp only at h1 h2 ⊢
    by_cases hc : ((cur s1).1 == 0x5B) = true
    · exfalso
      simp only [hc, if_true] at h1
      repeat' (split at h1)
      all_goals first
        | exact Bool.noConfusion h1
        | exact absurd h1 (by rw [parseElems_isArr]; decide)
    · simp only [hc, Bool.false_eq_true, if_false] at h2 ⊢
      by_cases hd : ((cur s1).1 == 0x7B) = true
      · exfalso
        simp only [hd, if_true] at h2
        repeat' (split at h2)
        all_goals first
          | exact Bool.noConfusion h2
          | exact absurd h2 (by rw [parseMembers_isObj]; decide)
      · simp only [hd, Bool.false_eq_true, if_false]
        repeat' split
        all_goals rfl
end JD

namespace MD
open JD

set_option maxRecDepth 8000 in
/-- two transparent filters are indistinguishable for the MessagePack deserializer -/
theorem parse_transparent {env : Env} : ∀ fuel,
    (∀ limit f g hd r, Transparent f → Transparent g →
      parseVariant env fuel limit f hd r = parseVariant env fuel limit g hd r) ∧
    (∀ limit f g ha n r acc, Transparent f → Transparent g →
      readArray env fuel limit f ha n r acc = readArray env fuel limit g ha n r acc) ∧
    (∀ limit f g ho n r ms, Transparent f → Transparent g →
      readObject env fuel limit f ho n r ms = readObject env fuel limit g ho n r ms) := by
  intro fuel
  induction fuel with
  | zero =>
    refine ⟨?_, ?_, ?_⟩
    · intro limit f g hd r _ _; simp only [parseVariant]
    · intro limit f g ha n r acc _ _; simp only [readArray]
    · intro limit f g ho n r ms _ _; simp only [readObject]
  | succ k ih =>
    obtain ⟨ihV, ihA, ihO⟩ := ih
    refine ⟨?_, ?_, ?_⟩
    · intro limit f g hd r hf hg
      have hA : ∀ l b n r acc, readArray env k l f.subIdx b n r acc = readArray env k l g.subIdx b n r acc :=
        fun l b n r acc => ihA l _ _ b n r acc hf.subIdx hg.subIdx
      have hO : ∀ l b n r ms, readObject env k l f b n r ms = readObject env k l g b n r ms :=
        fun l b n r ms => ihO l _ _ b n r ms hf hg
      simp only [parseVariant, hf.allowArray, hf.allowObject, hf.allowValue,
        hg.allowArray, hg.allowObject, hg.allowValue, hA, hO]
    · intro limit f g ha n r acc hf hg
      simp only [readArray, hf.allow, hg.allow, ihV limit f g _ r hf hg]
      have hA : ∀ n r acc, readArray env k limit f ha n r acc = readArray env k limit g ha n r acc :=
        fun n r acc => ihA limit f g ha n r acc hf hg
      simp only [hA]
    · intro limit f g ho n r ms hf hg
      have hA : ∀ key, (f.subKey key).allow = true := fun key => (hf.subKey key).allow
      have hB : ∀ key, (g.subKey key).allow = true := fun key => (hg.subKey key).allow
      have hV : ∀ key b r, parseVariant env k limit (f.subKey key) b r = parseVariant env k limit (g.subKey key) b r :=
        fun key b r => ihV limit _ _ b r (hf.subKey key) (hg.subKey key)
      have hO : ∀ n r ms, readObject env k limit f ho n r ms = readObject env k limit g ho n r ms :=
        fun n r ms => ihO limit f g ho n r ms hf hg
      simp only [readObject, hA, hB, hV, hO]

set_option maxRecDepth 8000 in
/-- no destination, no value: with `hasDst = false` the value slot stays `.null`, whatever the filter -/
theorem parseVariant_noDst {env : Env} (fuel limit : Nat) (flt : Flt) (r : R) :
    (parseVariant env fuel limit flt false r).2.1 = .null := by
  cases fuel with
  | zero => simp only [parseVariant]
  | succ k =>
    simp -zeta only [parseVariant]
    split
    · rfl
    extract_lets allowValue c fin width sizeBytes isExt0 size1 size2 hdr
    have hav : allowValue = false := rfl
    clear_value c width sizeBytes isExt0 size1 size2 hdr allowValue
    subst hav
    simp only [fin, Bool.false_and, Bool.false_eq_true, ↓reduceIte]
    by_cases h1 : (decide (204 ≤ c) && decide (c ≤ 211)) = true
    · rw [if_pos h1]; split <;> rfl
    rw [if_neg h1]
    by_cases h2 : (c == 192) = true
    · rw [if_pos h2]
    rw [if_neg h2]
    repeat' split
    all_goals rfl

theorem readArray_noArr {env : Env} : ∀ fuel limit ef n r acc,
    (readArray env fuel limit ef false n r acc).2.1 = acc.reverse := by
  intro fuel
  induction fuel with
  | zero => intro limit ef n r acc; simp only [readArray]
  | succ k ih =>
    intro limit ef n r acc
    simp only [readArray, Bool.false_and]
    split
    · rfl
    · split
      · exact ih _ _ _ _ _
      · rfl

theorem readObject_noObj {env : Env} : ∀ fuel limit flt n r ms,
    (readObject env fuel limit flt false n r ms).2.1 = ms := by
  intro fuel
  induction fuel with
  | zero => intro limit flt n r ms; simp only [readObject]
  | succ k ih =>
    intro limit flt n r ms
    simp only [readObject, Bool.false_and, Bool.false_eq_true, ↓reduceIte]
    repeat' split
    all_goals first | rfl | exact ih _ _ _ _ _
end MD
