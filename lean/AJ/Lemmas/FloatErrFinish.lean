/- C12 (floating-point clauses): the last stage of `parseNumber` (`Digits.finish`): range tests, sign, the two paths. -/
import AJ.Lemmas.FloatErrMake
import AJ.Lemmas.FloatErrScan
namespace C12
open SF JD Digits

/-! ## sign -/
theorem negBits_false (f : Fmt) (r : Nat) : negBits f false r = r := rfl

theorem flip_arith (A B r : Nat) (hA : 0 < A) (hB : 0 < B) (hs : r / (A * B) % 2 = 0) :
    let r' := if r ≥ A * B then r - A * B else r + A * B
    r' / (A * B) % 2 = 1 ∧ r' / A % B = r / A % B ∧ r' % A = r % A := by
  intro r'
  have key : ∀ x : Nat, (x + A * B) / (A * B) = x / (A * B) + 1 ∧ (x + A * B) / A % B = x / A % B ∧ (x + A * B) % A = x % A := by
    intro x
    refine ⟨?_, ?_, ?_⟩
    · exact Nat.add_div_right _ (Nat.mul_pos hA hB)
    · rw [Nat.add_mul_div_left _ _ hA, Nat.add_mod_right]
    · rw [Nat.add_mul_mod_self_left]
  by_cases h : r ≥ A * B
  · have hr : r' = r - A * B := if_pos h
    obtain ⟨k1, k2, k3⟩ := key (r - A * B)
    have : r - A * B + A * B = r := by omega
    rw [this] at k1 k2 k3
    rw [hr]
    refine ⟨by omega, k2.symm, k3.symm⟩
  · have hr : r' = r + A * B := if_neg h
    obtain ⟨k1, k2, k3⟩ := key r
    rw [hr]
    refine ⟨by omega, k2, k3⟩

/-- `negBits` flips the sign of a non-negative finite datum and keeps its magnitude -/
theorem negBits_decode (f : Fmt) (neg : Bool) (r m : Nat) (e : Int) (h : decode f r = .fin false m e) :
    decode f (negBits f neg r) = .fin neg m e := by
  cases neg
  · exact h
  · have hsb : f.signBit = 2 ^ f.mbits * 2 ^ f.ebits := by simp [Fmt.signBit, Nat.pow_add]
    have hs : r / (2 ^ f.mbits * 2 ^ f.ebits) % 2 = 0 := by
      unfold decode at h
      simp only [hsb] at h
      by_cases hc : r / (2 ^ f.mbits * 2 ^ f.ebits) % 2 = 1
      · simp only [hc, beq_self_eq_true] at h
        split at h
        · split at h <;> cases h
        · split at h <;> cases h
      · omega
    obtain ⟨a1, a2, a3⟩ := flip_arith (2 ^ f.mbits) (2 ^ f.ebits) r (Nat.two_pow_pos _) (Nat.two_pow_pos _) hs
    have hn : negBits f true r = if r ≥ 2 ^ f.mbits * 2 ^ f.ebits then r - 2 ^ f.mbits * 2 ^ f.ebits else r + 2 ^ f.mbits * 2 ^ f.ebits := by
      simp [negBits, hsb]
    rw [hn]
    generalize (if r ≥ 2 ^ f.mbits * 2 ^ f.ebits then r - 2 ^ f.mbits * 2 ^ f.ebits else r + 2 ^ f.mbits * 2 ^ f.ebits) = r' at *
    unfold decode at h ⊢
    simp only [hsb, a1, a2, a3, hs] at h ⊢
    simp only [beq_self_eq_true] at h ⊢
    have : ((0 : Nat) == 1) = false := rfl
    simp only [this] at h
    split at h
    · split at h <;> cases h
    · rename_i hc1
      split at h
      · rename_i hc3; rw [if_neg hc1, if_pos hc3]; cases h; rfl
      · rename_i hc3; rw [if_neg hc1, if_neg hc3]; cases h; rfl

/-! ## the range tests (magnitude clause, on the scanned pair) -/

theorem finish_zero (neg : Bool) (e : Int) : finish neg [] 0 e = .f32 (negBits b32 neg 0) := by
  simp [finish]

theorem finish_huge (neg : Bool) (mant : Nat) (e : Int) (hm : mant ≠ 0) (he : 308 < e) :
    finish neg [] mant e = .f64 (infBits b64 neg) := by
  have h1 : (mant == 0) = false := by simpa using hm
  have h2 : e > (Gen.exponent_max64 : Int) := by show e > 308; exact he
  simp only [finish, List.isEmpty_nil, Bool.not_true, Bool.false_eq_true, ↓reduceIte, h1, if_pos h2]

theorem finish_tiny (neg : Bool) (mant : Nat) (e : Int) (hm : mant ≠ 0) (he : e < -325) :
    finish neg [] mant e = .f32 (negBits b32 neg 0) := by
  have h1 : (mant == 0) = false := by simpa using hm
  have h2 : ¬ e > (Gen.exponent_max64 : Int) := by show ¬ e > 308; omega
  have h3 : e < -((Gen.exponent_max64 : Int) + 17) := by show e < -(308 + 17); omega
  simp only [finish, List.isEmpty_nil, Bool.not_true, Bool.false_eq_true, ↓reduceIte, h1, if_neg h2, if_pos h3]

theorem zero32_decode (neg : Bool) : decode b32 (negBits b32 neg 0) = .fin neg 0 (-149) := by
  cases neg <;> decide +kernel

/-- between the range tests -/
theorem finish_mid (neg : Bool) (mant : Nat) (e : Int) (hm : mant ≠ 0) (h1 : -325 ≤ e) (h2 : e ≤ 308) :
    finish neg [] mant e =
      (if (e < -38 ∨ 38 < e ∨ 8388607 < mant) then
        (match makeFloat b64 pos64 neg64 (ofNat b64 mant) e with
          | none => .fault
          | some r => .f64 (negBits b64 neg r))
      else
        match makeFloat b32 pos32 neg32 (ofNat b32 mant) e with
        | none => .fault
        | some r => if isInf b32 r then
            (match makeFloat b64 pos64 neg64 (ofNat b64 mant) e with
              | none => .fault
              | some r => .f64 (negBits b64 neg r))
          else .f32 (negBits b32 neg r)) := by
  have c1 : (mant == 0) = false := by simpa using hm
  have c2 : ¬ e > (Gen.exponent_max64 : Int) := by show ¬ e > 308; omega
  have c3 : ¬ e < -((Gen.exponent_max64 : Int) + 17) := by show ¬ e < -(308 + 17); omega
  simp only [finish, List.isEmpty_nil, Bool.not_true, Bool.false_eq_true, ↓reduceIte, c1, if_neg c2, if_neg c3]
  have hD : (decide (e < -(Gen.exponent_max32 : Int)) || decide (e > (Gen.exponent_max32 : Int)) || decide (mant > Gen.mantissa_max32)) = true ↔
      (e < -38 ∨ 38 < e ∨ 8388607 < mant) := by
    show (decide (e < -(38 : Int)) || decide (e > (38 : Int)) || decide (mant > 8388607)) = true ↔ _
    simp only [Bool.or_eq_true, decide_eq_true_eq]
    constructor
    · rintro ((h | h) | h)
      · exact Or.inl h
      · exact Or.inr (Or.inl h)
      · exact Or.inr (Or.inr h)
    · rintro (h | h | h)
      · exact Or.inl (Or.inl h)
      · exact Or.inl (Or.inr h)
      · exact Or.inr h
  by_cases hd : (e < -38 ∨ 38 < e ∨ 8388607 < mant)
  · rw [if_pos (hD.mpr hd), if_pos hd]; rfl
  · rw [if_neg (fun h => hd (hD.mp h)), if_neg hd]; rfl

/-! ## exponent range from the magnitude -/

theorem big_num_1 : (2 : ℚ) ^ (1000 : Int) < (10 : ℚ) ^ (309 : Int) := by
  have : (2 ^ 1000 : Nat) < 10 ^ 309 := by decide +kernel
  have h : ((2 ^ 1000 : Nat) : ℚ) < ((10 ^ 309 : Nat) : ℚ) := by exact_mod_cast this
  rw [show (1000 : Int) = ((1000 : Nat) : Int) from rfl, show (309 : Int) = ((309 : Nat) : Int) from rfl,
    zpow_natCast, zpow_natCast]
  push_cast at h; exact h

theorem big_num_2 : (2 : ℚ) ^ 53 * (10 : ℚ) ^ (-326 : Int) < (2 : ℚ) ^ (-1000 : Int) := by
  have : (2 ^ 53 * 2 ^ 1000 : Nat) < 10 ^ 326 := by decide +kernel
  have h : ((2 ^ 53 * 2 ^ 1000 : Nat) : ℚ) < ((10 ^ 326 : Nat) : ℚ) := by exact_mod_cast this
  push_cast at h
  rw [show (-326 : Int) = -((326 : Nat) : Int) from rfl, show (-1000 : Int) = -((1000 : Nat) : Int) from rfl,
    zpow_neg, zpow_neg, zpow_natCast, zpow_natCast]
  have hA : (0 : ℚ) < (10 : ℚ) ^ 326 := by positivity
  have hB : (0 : ℚ) < (2 : ℚ) ^ 1000 := by positivity
  generalize (10 : ℚ) ^ 326 = A at *
  generalize (2 : ℚ) ^ 1000 = B at *
  have hC : (2 : ℚ) ^ 53 = 9007199254740992 := by norm_num
  rw [hC, ← div_eq_mul_inv, div_lt_iff₀ hA, inv_mul_eq_div, lt_div_iff₀ hB]
  exact h

theorem exp_le_of (mant : Nat) (e : Int) (hm : mant ≠ 0) (h : (mant : ℚ) * (10 : ℚ) ^ e ≤ (2 : ℚ) ^ (1000 : Int)) : e ≤ 308 := by
  by_contra hc
  have hmq : (1 : ℚ) ≤ (mant : ℚ) := by exact_mod_cast Nat.pos_of_ne_zero hm
  have h1 : (10 : ℚ) ^ (309 : Int) ≤ (10 : ℚ) ^ e := zpow_le_zpow_right₀ (by norm_num) (by omega)
  have hp : (0 : ℚ) < (10 : ℚ) ^ e := zpow_pos (by norm_num) e
  have h3 : (10 : ℚ) ^ e ≤ (mant : ℚ) * (10 : ℚ) ^ e := le_mul_of_one_le_left hp.le hmq
  exact absurd (lt_of_lt_of_le big_num_1 (h1.trans (h3.trans h))) (lt_irrefl _)

theorem exp_ge_of (mant : Nat) (e : Int) (hlt : mant < 2 ^ 53) (h : (2 : ℚ) ^ (-1000 : Int) ≤ (mant : ℚ) * (10 : ℚ) ^ e) : -325 ≤ e := by
  by_contra hc
  have hmq : (mant : ℚ) ≤ 2 ^ 53 := by exact_mod_cast hlt.le
  have h1 : (10 : ℚ) ^ e ≤ (10 : ℚ) ^ (-326 : Int) := zpow_le_zpow_right₀ (by norm_num) (by omega)
  have hp : (0 : ℚ) < (10 : ℚ) ^ e := zpow_pos (by norm_num) e
  have h3 : (mant : ℚ) * (10 : ℚ) ^ e ≤ 2 ^ 53 * (10 : ℚ) ^ (-326 : Int) := by
    calc (mant : ℚ) * (10 : ℚ) ^ e ≤ 2 ^ 53 * (10 : ℚ) ^ e := mul_le_mul_of_nonneg_right hmq hp.le
      _ ≤ 2 ^ 53 * (10 : ℚ) ^ (-326 : Int) := mul_le_mul_of_nonneg_left h1 (by positivity)
  exact absurd (lt_of_le_of_lt (h.trans h3) big_num_2) (lt_irrefl _)

theorem isInf_fin (f : Fmt) (r : Nat) (n : Bool) (m : Nat) (e : Int) (h : decode f r = .fin n m e) : isInf f r = false := by
  unfold isInf; rw [h]

/-- THE BINARY64 PATH of the last stage: a scanned pair `(mant, e)` with `0 < mant < 2^53` and
    `mant·10^e ∈ [2^-1000, 2^1000]` never yields an integer/invalid/fault; and whenever the stage returns a binary64
    pattern, it is a finite datum of the literal's sign within `22.5·2^-53` of `mant·10^e`. -/
theorem finish_f64_close (neg : Bool) (mant : Nat) (e : Int) (hm : mant ≠ 0) (hlt : mant < 2 ^ 53)
    (h3 : (2 : ℚ) ^ (-1000 : Int) ≤ (mant : ℚ) * (10 : ℚ) ^ e) (h4 : (mant : ℚ) * (10 : ℚ) ^ e ≤ (2 : ℚ) ^ (1000 : Int)) :
    ((∃ bits, finish neg [] mant e = .f64 bits) ∨ (∃ bits, finish neg [] mant e = .f32 bits)) ∧
    ∀ bits, finish neg [] mant e = .f64 bits →
      ∃ (m : Nat) (ex : Int), decode b64 bits = .fin neg m ex ∧ m ≠ 0 ∧
        Close (45 / 2 ^ 54) (qv m ex) ((mant : ℚ) * (10 : ℚ) ^ e) := by
  have e1 := exp_ge_of mant e hlt h3
  have e2 := exp_le_of mant e hm h4
  obtain ⟨r, m, ex, hmk, hdec, hm0, hcl⟩ := makeFloat64_close mant e hm hlt (by omega) h3 h4
  have hneg := negBits_decode b64 neg r m ex hdec
  rw [finish_mid neg mant e hm e1 e2, hmk]
  simp only
  by_cases hd : (e < -38 ∨ 38 < e ∨ 8388607 < mant)
  · rw [if_pos hd]
    refine ⟨Or.inl ⟨_, rfl⟩, ?_⟩
    intro bits hb
    cases hb
    exact ⟨m, ex, hneg, hm0, hcl⟩
  · rw [if_neg hd]
    cases hmk32 : makeFloat b32 pos32 neg32 (ofNat b32 mant) e with
    | none =>
      exfalso
      have h6 : pos32.length = 6 := tables32_ok.1
      have h6' : neg32.length = 6 := tables32_ok.2.1
      exact JD.makeFloat_some b32 pos32 neg32 (ofNat b32 mant) e (by rw [h6]; omega) (by rw [h6']; omega) hmk32
    | some r32 =>
      simp only
      by_cases hi : isInf b32 r32 = true
      · rw [if_pos hi]
        refine ⟨Or.inl ⟨_, rfl⟩, ?_⟩
        intro bits hb
        cases hb
        exact ⟨m, ex, hneg, hm0, hcl⟩
      · rw [if_neg hi]
        refine ⟨Or.inr ⟨_, rfl⟩, ?_⟩
        intro bits hb
        cases hb

/-- THE BINARY32 PATH (partial: the magnitude must lie in `[2^-125, 2^125] ⊃ [2.4e-38, 4.2e37]`, i.e. away from the
    subnormal range and from the top binade of binary32): whenever the stage returns a binary32 pattern it is a
    finite datum of the literal's sign within `15·2^-24 < 8.95e-7` of `mant·10^e`. -/
theorem finish_f32_close (neg : Bool) (mant : Nat) (e : Int) (hm : mant ≠ 0)
    (h3 : (2 : ℚ) ^ (-125 : Int) ≤ (mant : ℚ) * (10 : ℚ) ^ e) (h4 : (mant : ℚ) * (10 : ℚ) ^ e ≤ (2 : ℚ) ^ (125 : Int))
    (e1 : -325 ≤ e) (e2 : e ≤ 308) :
    ∀ bits, finish neg [] mant e = .f32 bits →
      ∃ (m : Nat) (ex : Int), decode b32 bits = .fin neg m ex ∧ m ≠ 0 ∧
        Close (15 / 2 ^ 24) (qv m ex) ((mant : ℚ) * (10 : ℚ) ^ e) := by
  intro bits hb
  rw [finish_mid neg mant e hm e1 e2] at hb
  by_cases hd : (e < -38 ∨ 38 < e ∨ 8388607 < mant)
  · rw [if_pos hd] at hb
    split at hb <;> cases hb
  · rw [if_neg hd] at hb
    obtain ⟨r, m, ex, hmk, hdec, hm0, hcl⟩ := makeFloat32_close mant e hm (by omega) (by omega) h3 h4
    rw [hmk] at hb
    simp only [isInf_fin b32 r false m ex hdec, Bool.false_eq_true, ↓reduceIte] at hb
    cases hb
    exact ⟨m, ex, negBits_decode b32 neg r m ex hdec, hm0, hcl⟩

/-! ## overflow allowed -/

theorem negBits_decode_inf (f : Fmt) (neg : Bool) (r : Nat) (h : decode f r = .inf false) :
    decode f (negBits f neg r) = .inf neg := by
  cases neg
  · exact h
  · have hsb : f.signBit = 2 ^ f.mbits * 2 ^ f.ebits := by simp [Fmt.signBit, Nat.pow_add]
    have hs : r / (2 ^ f.mbits * 2 ^ f.ebits) % 2 = 0 := by
      unfold decode at h
      simp only [hsb] at h
      by_cases hc : r / (2 ^ f.mbits * 2 ^ f.ebits) % 2 = 1
      · simp only [hc, beq_self_eq_true] at h
        split at h
        · split at h <;> cases h
        · split at h <;> cases h
      · omega
    obtain ⟨a1, a2, a3⟩ := flip_arith (2 ^ f.mbits) (2 ^ f.ebits) r (Nat.two_pow_pos _) (Nat.two_pow_pos _) hs
    have hn : negBits f true r = if r ≥ 2 ^ f.mbits * 2 ^ f.ebits then r - 2 ^ f.mbits * 2 ^ f.ebits else r + 2 ^ f.mbits * 2 ^ f.ebits := by
      simp [negBits, hsb]
    rw [hn]
    generalize (if r ≥ 2 ^ f.mbits * 2 ^ f.ebits then r - 2 ^ f.mbits * 2 ^ f.ebits else r + 2 ^ f.mbits * 2 ^ f.ebits) = r' at *
    unfold decode at h ⊢
    simp only [hsb, a1, a2, a3, hs] at h ⊢
    simp only [beq_self_eq_true] at h ⊢
    have : ((0 : Nat) == 1) = false := rfl
    simp only [this] at h
    split at h
    · rename_i hc1
      split at h
      · rename_i hc2; rw [if_pos hc1, if_pos hc2]
      · cases h
    · split at h <;> cases h

theorem isInf_inf (f : Fmt) (r : Nat) (n : Bool) (h : decode f r = .inf n) : isInf f r = true := by
  unfold isInf; rw [h]

/-- every finite datum is below `2^(emax-bias)` (binary64: `2^1024`, binary32: `2^128`) -/
theorem fin_lt_top (f : Fmt) (b : Nat) (n : Bool) (m : Nat) (e : Int) (h : decode f b = .fin n m e) (he : 2 ≤ f.emax) :
    qv m e < (2 : ℚ) ^ ((f.emax : Int) - f.bias) := by
  have h1 := (decode_fin_bounds f b n m e h).2
  have h2 := decode_fin_exp_lt f b n m e h he
  have hq : (m : ℚ) < ((2 ^ (f.mbits + 1) : Nat) : ℚ) := by exact_mod_cast h1
  have hp := two_zpow_pos e
  unfold qv
  calc (m : ℚ) * 2 ^ e < ((2 ^ (f.mbits + 1) : Nat) : ℚ) * 2 ^ e := mul_lt_mul_of_pos_right hq hp
    _ = (2 : ℚ) ^ (((f.mbits + 1 : Nat) : Int) + e) := by
        rw [zpow_add₀ (by norm_num : (2 : ℚ) ≠ 0), zpow_natCast]; push_cast; ring
    _ ≤ (2 : ℚ) ^ ((f.emax : Int) - f.bias) := zpow_le_zpow_right₀ (by norm_num) (by push_cast; omega)

/-- the binary64 path with overflow allowed: lower bound on the magnitude only -/
theorem finish_f64_or_inf (neg : Bool) (mant : Nat) (e : Int) (hm : mant ≠ 0) (hlt : mant < 2 ^ 53)
    (h3 : (2 : ℚ) ^ (-1000 : Int) ≤ (mant : ℚ) * (10 : ℚ) ^ e) :
    ((∃ bits, finish neg [] mant e = .f64 bits) ∨ (∃ bits, finish neg [] mant e = .f32 bits)) ∧
    ∀ bits, finish neg [] mant e = .f64 bits →
      decode b64 bits = .inf neg ∨
      ∃ (m : Nat) (ex : Int), decode b64 bits = .fin neg m ex ∧ m ≠ 0 ∧
        Close (45 / 2 ^ 54) (qv m ex) ((mant : ℚ) * (10 : ℚ) ^ e) := by
  have e1 := exp_ge_of mant e hlt h3
  by_cases e2 : 308 < e
  · rw [finish_huge neg mant e hm e2]
    refine ⟨Or.inl ⟨_, rfl⟩, ?_⟩
    intro bits hb; cases hb
    exact Or.inl (decode_inf b64 neg)
  have e2 : e ≤ 308 := by omega
  obtain ⟨r, hmk, hacc⟩ := makeFloat64_close_or_inf mant e hm hlt (by omega) h3
  have hres : decode b64 (negBits b64 neg r) = .inf neg ∨
      ∃ (m : Nat) (ex : Int), decode b64 (negBits b64 neg r) = .fin neg m ex ∧ m ≠ 0 ∧
        Close (45 / 2 ^ 54) (qv m ex) ((mant : ℚ) * (10 : ℚ) ^ e) := by
    rcases hacc with hi | ⟨m, ex, hdec, hm0, hcl⟩
    · exact Or.inl (negBits_decode_inf b64 neg r hi)
    · exact Or.inr ⟨m, ex, negBits_decode b64 neg r m ex hdec, hm0, hcl⟩
  rw [finish_mid neg mant e hm e1 e2, hmk]
  simp only
  by_cases hd : (e < -38 ∨ 38 < e ∨ 8388607 < mant)
  · rw [if_pos hd]
    refine ⟨Or.inl ⟨_, rfl⟩, ?_⟩
    intro bits hb
    cases hb
    exact hres
  · rw [if_neg hd]
    cases hmk32 : makeFloat b32 pos32 neg32 (ofNat b32 mant) e with
    | none =>
      exfalso
      have h6 : pos32.length = 6 := tables32_ok.1
      have h6' : neg32.length = 6 := tables32_ok.2.1
      exact JD.makeFloat_some b32 pos32 neg32 (ofNat b32 mant) e (by rw [h6]; omega) (by rw [h6']; omega) hmk32
    | some r32 =>
      simp only
      by_cases hi : isInf b32 r32 = true
      · rw [if_pos hi]
        refine ⟨Or.inl ⟨_, rfl⟩, ?_⟩
        intro bits hb
        cases hb
        exact hres
      · rw [if_neg hi]
        refine ⟨Or.inr ⟨_, rfl⟩, ?_⟩
        intro bits hb
        cases hb

/-- the binary32 path with overflow allowed (lower bound `2^-125` only): a binary32 result is never an infinity -/
theorem finish_f32_lo (neg : Bool) (mant : Nat) (e : Int) (hm : mant ≠ 0) (hlt : mant < 2 ^ 53)
    (h3 : (2 : ℚ) ^ (-125 : Int) ≤ (mant : ℚ) * (10 : ℚ) ^ e) :
    ∀ bits, finish neg [] mant e = .f32 bits →
      ∃ (m : Nat) (ex : Int), decode b32 bits = .fin neg m ex ∧ m ≠ 0 ∧
        Close (15 / 2 ^ 24) (qv m ex) ((mant : ℚ) * (10 : ℚ) ^ e) := by
  intro bits hb
  have e1 := exp_ge_of mant e hlt (le_trans (zpow_le_zpow_right₀ (by norm_num) (by norm_num)) h3)
  by_cases e2 : 308 < e
  · rw [finish_huge neg mant e hm e2] at hb; cases hb
  have e2 : e ≤ 308 := by omega
  rw [finish_mid neg mant e hm e1 e2] at hb
  by_cases hd : (e < -38 ∨ 38 < e ∨ 8388607 < mant)
  · rw [if_pos hd] at hb
    split at hb <;> cases hb
  · rw [if_neg hd] at hb
    obtain ⟨r, hmk, hacc⟩ := makeFloat32_close_or_inf mant e hm (by omega) (by omega) h3
    rw [hmk] at hb
    rcases hacc with hi | ⟨m, ex, hdec, hm0, hcl⟩
    · simp only [isInf_inf b32 r false hi, ↓reduceIte] at hb
      split at hb <;> cases hb
    · simp only [isInf_fin b32 r false m ex hdec, Bool.false_eq_true, ↓reduceIte] at hb
      cases hb
      exact ⟨m, ex, negBits_decode b32 neg r m ex hdec, hm0, hcl⟩

theorem big_num_6 : (2 : ℚ) ^ (-125 : Int) ≤ (10 : ℚ) ^ (-37 : Int) := by
  have h : (10 : ℚ) ^ 37 ≤ (2 : ℚ) ^ 125 := by norm_num
  rw [show (-37 : Int) = -((37 : Nat) : Int) from rfl, show (-125 : Int) = -((125 : Nat) : Int) from rfl,
    zpow_neg, zpow_neg, zpow_natCast, zpow_natCast]
  exact inv_anti₀ (by positivity) h

theorem big_num_7 : (2 : ℚ) ^ (-125 : Int) ≤ 3 * (10 : ℚ) ^ (-38 : Int) := by
  have h : (10 : ℚ) ^ 38 ≤ 3 * (2 : ℚ) ^ 125 := by norm_num
  rw [show (-38 : Int) = -((38 : Nat) : Int) from rfl, show (-125 : Int) = -((125 : Nat) : Int) from rfl,
    zpow_neg, zpow_neg, zpow_natCast, zpow_natCast]
  have hA : (0 : ℚ) < (10 : ℚ) ^ 38 := by positivity
  have hB : (0 : ℚ) < (2 : ℚ) ^ 125 := by positivity
  generalize (10 : ℚ) ^ 38 = A at *
  generalize (2 : ℚ) ^ 125 = B at *
  rw [← div_eq_mul_inv, le_div_iff₀ hA, inv_mul_eq_div, div_le_iff₀ hB]
  linarith

/-- the two binary32-path pairs below `2^-125`: `1e-38` and `2e-38` (subnormal results), checked directly -/
theorem finish_f32_small (neg : Bool) (mant : Nat) (hm : mant = 1 ∨ mant = 2) :
    ∀ bits, finish neg [] mant (-38) = .f32 bits →
      ∃ (m : Nat) (ex : Int), decode b32 bits = .fin neg m ex ∧ m ≠ 0 ∧
        Close (9 / 10 ^ 7) (qv m ex) ((mant : ℚ) * (10 : ℚ) ^ (-38 : Int)) := by
  intro bits hb
  have k1 : ∀ n, finish n [] 1 (-38) = .f32 (negBits b32 n 7136239) := by intro n; cases n <;> decide +kernel
  have k2 : ∀ n, finish n [] 2 (-38) = .f32 (negBits b32 n 14272477) := by intro n; cases n <;> decide +kernel
  have d1 : decode b32 7136239 = .fin false 7136239 (-149) := by decide +kernel
  have d2 : decode b32 14272477 = .fin false 14272477 (-149) := by decide +kernel
  rcases hm with rfl | rfl
  · rw [k1] at hb; cases hb
    refine ⟨7136239, -149, negBits_decode b32 neg _ _ _ d1, by decide, ?_⟩
    unfold Close qv
    rw [abs_le]; constructor <;> norm_num [zpow_neg]
  · rw [k2] at hb; cases hb
    refine ⟨14272477, -149, negBits_decode b32 neg _ _ _ d2, by decide, ?_⟩
    unfold Close qv
    rw [abs_le]; constructor <;> norm_num [zpow_neg]

/-- THE BINARY32 PATH, complete: for a scanned pair with `mant·10^e ≥ 2^-1000` (so that the pair is not flushed to zero by
    the range test), every binary32 result is a finite datum of the literal's sign within `9e-7` of `mant·10^e`. -/
theorem finish_f32_full (neg : Bool) (mant : Nat) (e : Int) (hm : mant ≠ 0) (hlt : mant < 2 ^ 53)
    (h3 : (2 : ℚ) ^ (-1000 : Int) ≤ (mant : ℚ) * (10 : ℚ) ^ e) :
    ∀ bits, finish neg [] mant e = .f32 bits →
      ∃ (m : Nat) (ex : Int), decode b32 bits = .fin neg m ex ∧ m ≠ 0 ∧
        Close (9 / 10 ^ 7) (qv m ex) ((mant : ℚ) * (10 : ℚ) ^ e) := by
  intro bits hb
  have hpos : 0 < (mant : ℚ) * (10 : ℚ) ^ e := lt_of_lt_of_le (two_zpow_pos _) h3
  by_cases hbig : (2 : ℚ) ^ (-125 : Int) ≤ (mant : ℚ) * (10 : ℚ) ^ e
  · obtain ⟨m, ex, h1, h2, hc⟩ := finish_f32_lo neg mant e hm hlt hbig bits hb
    exact ⟨m, ex, h1, h2, hc.mono hpos.le (by norm_num)⟩
  · have e1 := exp_ge_of mant e hlt h3
    by_cases e2 : 308 < e
    · rw [finish_huge neg mant e hm e2] at hb; cases hb
    have e2 : e ≤ 308 := by omega
    have hb' := hb
    rw [finish_mid neg mant e hm e1 e2] at hb'
    by_cases hd : (e < -38 ∨ 38 < e ∨ 8388607 < mant)
    · rw [if_pos hd] at hb'
      split at hb' <;> cases hb'
    · have hmq : (1 : ℚ) ≤ (mant : ℚ) := by exact_mod_cast Nat.pos_of_ne_zero hm
      have he38 : e = -38 := by
        by_contra hne
        apply hbig
        have h1 : (10 : ℚ) ^ (-37 : Int) ≤ (10 : ℚ) ^ e := zpow_le_zpow_right₀ (by norm_num) (by omega)
        have hp : (0 : ℚ) < (10 : ℚ) ^ e := zpow_pos (by norm_num) e
        exact le_trans big_num_6 (le_trans h1 (le_mul_of_one_le_left hp.le hmq))
      subst he38
      have hm12 : mant = 1 ∨ mant = 2 := by
        by_contra hne
        apply hbig
        have : 3 ≤ mant := by omega
        have hq : (3 : ℚ) ≤ (mant : ℚ) := by exact_mod_cast this
        have hp : (0 : ℚ) < (10 : ℚ) ^ (-38 : Int) := zpow_pos (by norm_num) _
        exact le_trans big_num_7 (mul_le_mul_of_nonneg_right hq hp.le)
      exact finish_f32_small neg mant hm12 bits hb

/-- a scanned pair of magnitude at least `2^1025` is `±inf` (through the range test, or through the overflow of a
    multiplication of `make_float`, in either format) -/
theorem finish_huge_value (neg : Bool) (mant : Nat) (e : Int) (hm : mant ≠ 0) (hlt : mant < 2 ^ 53)
    (h3 : (2 : ℚ) ^ (1025 : Int) ≤ (mant : ℚ) * (10 : ℚ) ^ e) :
    ∃ bits, finish neg [] mant e = .f64 bits ∧ decode b64 bits = .inf neg := by
  have hA : (2 : ℚ) ^ (1025 : Int) = 2 * (2 : ℚ) ^ (1024 : Int) := by
    rw [show (1025 : Int) = 1 + 1024 from rfl, zpow_add₀ (by norm_num)]; simp
  have hApos := two_zpow_pos 1024
  have hlo1000 : (2 : ℚ) ^ (-1000 : Int) ≤ (mant : ℚ) * (10 : ℚ) ^ e :=
    le_trans (zpow_le_zpow_right₀ (by norm_num) (by norm_num)) h3
  have hlo125 : (2 : ℚ) ^ (-125 : Int) ≤ (mant : ℚ) * (10 : ℚ) ^ e :=
    le_trans (zpow_le_zpow_right₀ (by norm_num) (by norm_num)) h3
  obtain ⟨hk, h64⟩ := finish_f64_or_inf neg mant e hm hlt hlo1000
  have h32 := finish_f32_lo neg mant e hm hlt hlo125
  rcases hk with ⟨bits, hb⟩ | ⟨bits, hb⟩
  · refine ⟨bits, hb, ?_⟩
    rcases h64 bits hb with hi | ⟨m, ex, hdec, _, hcl⟩
    · exact hi
    · exfalso
      have ht := fin_lt_top b64 bits neg m ex hdec (by decide)
      rw [show (b64.emax : Int) - b64.bias = 1024 from by decide] at ht
      have hge := hcl.ge
      have hd : (1 / 2 : ℚ) ≤ 1 - 45 / 2 ^ 54 := by norm_num
      rw [hA] at h3
      generalize (2 : ℚ) ^ (1024 : Int) = A at *
      generalize (mant : ℚ) * (10 : ℚ) ^ e = Y at *
      generalize qv m ex = Q at *
      clear hlo1000 hlo125 hA h64 h32
      have hY : 0 ≤ Y := by linarith
      have := mul_le_mul_of_nonneg_right hd hY
      linarith
  · exfalso
    obtain ⟨m, ex, hdec, _, hcl⟩ := h32 bits hb
    have ht := fin_lt_top b32 bits neg m ex hdec (by decide)
    rw [show (b32.emax : Int) - b32.bias = 128 from by decide] at ht
    have ht' : qv m ex < (2 : ℚ) ^ (1024 : Int) :=
      lt_of_lt_of_le ht (zpow_le_zpow_right₀ (by norm_num) (by norm_num))
    have hge := hcl.ge
    have hd : (1 / 2 : ℚ) ≤ 1 - 15 / 2 ^ 24 := by norm_num
    rw [hA] at h3
    generalize (2 : ℚ) ^ (1024 : Int) = A at *
    generalize (mant : ℚ) * (10 : ℚ) ^ e = Y at *
    generalize qv m ex = Q at *
    clear hlo1000 hlo125 hA h64 ht
    have hY : 0 ≤ Y := by linarith
    have := mul_le_mul_of_nonneg_right hd hY
    linarith

end C12
