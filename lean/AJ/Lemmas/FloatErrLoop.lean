/- C12 (floating-point clauses), part 4: the `make_float` loop accumulates at most 5/2 unit roundoffs per table entry. -/
import AJ.Lemmas.FloatErrQ
namespace C12
open SF JD

theorem three_u (δ u : ℚ) (hδ : 0 ≤ δ) (hu : 0 ≤ u) (h : δ + 5 / 2 * u ≤ 1 / 8) :
    u + (δ + u + δ * u) + u * (δ + u + δ * u) ≤ δ + 5 / 2 * u := by
  have h1 : δ ≤ 1 / 8 := by linarith
  have h2 : u ≤ 1 / 20 := by linarith
  nlinarith [mul_nonneg hδ hu, mul_nonneg hu hu, mul_nonneg (mul_nonneg hδ hu) hu]

/-- a value between two bounds: monotone partial products -/
theorem between {T y lo hi : ℚ} (hT : 0 < T) (hmono : 1 ≤ T ∨ T ≤ 1) (hy : 0 < y) (a b : Nat)
    (h1 : lo ≤ y) (h2 : y ≤ hi) (h3 : lo ≤ y * T ^ a * T ^ b) (h4 : y * T ^ a * T ^ b ≤ hi) :
    lo ≤ y * T ^ a ∧ y * T ^ a ≤ hi := by
  have ha : 0 < T ^ a := by positivity
  rcases hmono with h | h
  · have p1 : 1 ≤ T ^ a := one_le_pow₀ h
    have p2 : 1 ≤ T ^ b := one_le_pow₀ h
    constructor
    · nlinarith
    · have : y * T ^ a ≤ y * T ^ a * T ^ b := by
        have : 0 < y * T ^ a := by positivity
        nlinarith
      linarith
  · have p1 : T ^ a ≤ 1 := pow_le_one₀ hT.le h
    have p2 : T ^ b ≤ 1 := pow_le_one₀ hT.le h
    constructor
    · have : y * T ^ a * T ^ b ≤ y * T ^ a := by
        have : 0 < y * T ^ a := by positivity
        nlinarith
      linarith
    · nlinarith

theorem go_close (f : Fmt) (tbl : List Nat) (T lo hi : ℚ) (hf : 0 < f.emax) (hT : 0 < T) (hmono : 1 ≤ T ∨ T ≤ 1)
    (htbl : ∀ i (h : i < tbl.length), ∃ (m : Nat) (e : Int), decode f tbl[i] = .fin false m e ∧ m ≠ 0 ∧
      Close (uro f) (qv m e) (T ^ (2 ^ i)))
    (hlo0 : 0 < lo) (hlo : (2 : ℚ) ^ (emin f + f.mbits) ≤ lo / 2)
    (hhi : 2 * hi < (2 : ℚ) ^ ((f.emax : Int) - f.bias - 1)) :
    ∀ (fuel acc eb idx : Nat) (δ y : ℚ) (ma : Nat) (ea : Int),
      decode f acc = .fin false ma ea → ma ≠ 0 → Close δ (qv ma ea) y → 0 ≤ δ →
      eb < 2 ^ (tbl.length - idx) → idx ≤ tbl.length → tbl.length - idx ≤ fuel →
      δ + 5 / 2 * uro f * ((tbl.length - idx : Nat) : ℚ) ≤ 1 / 8 →
      lo ≤ y → y ≤ hi → lo ≤ y * T ^ (eb * 2 ^ idx) → y * T ^ (eb * 2 ^ idx) ≤ hi →
      ∃ (r mr : Nat) (er : Int), makeFloat.go f tbl fuel acc eb idx = some r ∧ decode f r = .fin false mr er ∧ mr ≠ 0 ∧
        Close (δ + 5 / 2 * uro f * ((tbl.length - idx : Nat) : ℚ)) (qv mr er) (y * T ^ (eb * 2 ^ idx)) := by
  have hu := uro_pos f
  intro fuel
  induction fuel with
  | zero =>
    intro acc eb idx δ y ma ea hd hma hc hδ heb hidx hfuel hsum h1 h2 h3 h4
    have : tbl.length - idx = 0 := by omega
    rw [this] at heb
    have : eb = 0 := by omega
    subst this
    refine ⟨acc, ma, ea, rfl, hd, hma, ?_⟩
    simp only [Nat.zero_mul, pow_zero, mul_one]
    exact hc.mono (by linarith) (by have : (0:ℚ) ≤ ((tbl.length - idx : Nat) : ℚ) := by positivity
                                    nlinarith)
  | succ n ih =>
    intro acc eb idx δ y ma ea hd hma hc hδ heb hidx hfuel hsum h1 h2 h3 h4
    have hy : 0 < y := lt_of_lt_of_le hlo0 h1
    have hcnt : (0:ℚ) ≤ ((tbl.length - idx : Nat) : ℚ) := by positivity
    simp only [makeFloat.go]
    by_cases he0 : eb = 0
    · subst he0
      rw [if_pos rfl]
      refine ⟨acc, ma, ea, rfl, hd, hma, ?_⟩
      simp only [Nat.zero_mul, pow_zero, mul_one]
      exact hc.mono hy.le (by nlinarith)
    · rw [if_neg he0]
      have hlt : idx < tbl.length := by
        rcases Nat.lt_or_ge idx tbl.length with h | h
        · exact h
        · have : tbl.length - idx = 0 := by omega
          rw [this] at heb; simp at heb; omega
      have hpow : 2 ^ (tbl.length - idx) = 2 * 2 ^ (tbl.length - (idx + 1)) := by
        have : tbl.length - idx = (tbl.length - (idx + 1)) + 1 := by omega
        rw [this, Nat.pow_succ]; omega
      have he' : eb / 2 < 2 ^ (tbl.length - (idx + 1)) := by omega
      have hcnt' : ((tbl.length - idx : Nat) : ℚ) = ((tbl.length - (idx + 1) : Nat) : ℚ) + 1 := by
        have : tbl.length - idx = (tbl.length - (idx + 1)) + 1 := by omega
        rw [this]; push_cast; ring
      have hcnt2 : (0:ℚ) ≤ ((tbl.length - (idx + 1) : Nat) : ℚ) := by positivity
      by_cases hodd : eb % 2 = 1
      · rw [if_pos hodd, List.getElem?_eq_getElem hlt]
        simp only
        obtain ⟨mt, et, hdt, hmt, hct⟩ := htbl idx hlt
        -- exponent bookkeeping
        have hexp : eb * 2 ^ idx = 2 ^ idx + (eb / 2) * 2 ^ (idx + 1) := by
          have : eb = 2 * (eb / 2) + 1 := by omega
          conv_lhs => rw [this]
          rw [Nat.pow_succ]; ring
        have hsplit : y * T ^ (eb * 2 ^ idx) = y * T ^ (2 ^ idx) * T ^ ((eb / 2) * 2 ^ (idx + 1)) := by
          rw [hexp, pow_add]; ring
        rw [hsplit] at h3 h4 ⊢
        obtain ⟨b1, b2⟩ := between hT hmono hy _ _ h1 h2 h3 h4
        have hy' : 0 < y * T ^ (2 ^ idx) := by positivity
        -- the exact product
        have hδ3 : δ + 5 / 2 * uro f ≤ 1 / 8 := by rw [hcnt'] at hsum; nlinarith
        have hP := hc.mul hct hy (by positivity) hδ hu.le
        have hd1 : δ + uro f + δ * uro f ≤ 1 / 2 := by nlinarith
        have hd0 : 0 ≤ δ + uro f + δ * uro f := by positivity
        have hPlo := hP.ge
        have hPhi := hP.le
        have hPlo' : (2 : ℚ) ^ (emin f + f.mbits) ≤ qv ma ea * qv mt et := by nlinarith
        have hPhi' : qv ma ea * qv mt et < (2 : ℚ) ^ ((f.emax : Int) - f.bias - 1) := by nlinarith
        obtain ⟨mr, er, hdr, _, _, hcr⟩ := mul_relQ f acc tbl[idx] false false ma mt ea et hf hd hdt hma hmt hPlo' hPhi'
        have hmr : mr ≠ 0 := by have := Nat.two_pow_pos f.mbits; omega
        have hcr' := (hcr.trans hP hy' hu.le hd0).mono hy'.le (three_u δ (uro f) hδ hu.le hδ3)
        have hdr' : decode f (SF.mul f acc tbl[idx]) = .fin false mr er := by simpa using hdr
        obtain ⟨r, mr', er', hgo, hdec, hne, hfin⟩ := ih (SF.mul f acc tbl[idx]) (eb / 2) (idx + 1) (δ + 5 / 2 * uro f) (y * T ^ (2 ^ idx))
          mr er hdr' hmr hcr' (by positivity) he' (by omega) (by omega)
          (by rw [hcnt'] at hsum; linarith) b1 b2 h3 h4
        refine ⟨r, mr', er', hgo, hdec, hne, ?_⟩
        have : δ + 5 / 2 * uro f + 5 / 2 * uro f * ((tbl.length - (idx + 1) : Nat) : ℚ) =
            δ + 5 / 2 * uro f * ((tbl.length - idx : Nat) : ℚ) := by rw [hcnt']; ring
        rw [← this]; exact hfin
      · rw [if_neg hodd]
        have hexp : eb * 2 ^ idx = (eb / 2) * 2 ^ (idx + 1) := by
          have : eb = 2 * (eb / 2) := by omega
          conv_lhs => rw [this]
          rw [Nat.pow_succ]; ring
        rw [hexp] at h3 h4 ⊢
        obtain ⟨r, mr', er', hgo, hdec, hne, hfin⟩ := ih acc (eb / 2) (idx + 1) δ y ma ea hd hma hc hδ he' (by omega) (by omega)
          (by rw [hcnt'] at hsum; nlinarith) h1 h2 h3 h4
        refine ⟨r, mr', er', hgo, hdec, hne, ?_⟩
        exact hfin.mono (le_trans hlo0.le h3) (by rw [hcnt']; nlinarith)
/-! ## the same loop when overflow to `+inf` is allowed (no upper bound on the magnitude) -/

/-- state of the accumulator: `+inf`, or a finite positive datum approximating `y` within `δ` -/
def AccOK (f : Fmt) (acc : Nat) (δ y : ℚ) : Prop :=
  decode f acc = .inf false ∨ ∃ (ma : Nat) (ea : Int), decode f acc = .fin false ma ea ∧ ma ≠ 0 ∧ Close δ (qv ma ea) y

theorem between_lo {T y lo : ℚ} (hT : 0 < T) (hmono : 1 ≤ T ∨ T ≤ 1) (hy : 0 < y) (a b : Nat)
    (h1 : lo ≤ y) (h3 : lo ≤ y * T ^ a * T ^ b) : lo ≤ y * T ^ a := by
  have ha : 0 < T ^ a := by positivity
  rcases hmono with h | h
  · have p1 : 1 ≤ T ^ a := one_le_pow₀ h
    nlinarith
  · have p2 : T ^ b ≤ 1 := pow_le_one₀ hT.le h
    have : y * T ^ a * T ^ b ≤ y * T ^ a := by
      have : 0 < y * T ^ a := by positivity
      nlinarith
    linarith

theorem go_inf (f : Fmt) (tbl : List Nat)
    (htbl : ∀ i (h : i < tbl.length), ∃ (m : Nat) (e : Int), decode f tbl[i] = .fin false m e ∧ m ≠ 0) :
    ∀ (fuel acc eb idx : Nat), decode f acc = .inf false → eb < 2 ^ (tbl.length - idx) → idx ≤ tbl.length →
      ∃ r, makeFloat.go f tbl fuel acc eb idx = some r ∧ decode f r = .inf false := by
  intro fuel
  induction fuel with
  | zero => intro acc eb idx h _ _; exact ⟨acc, rfl, h⟩
  | succ n ih =>
    intro acc eb idx h heb hidx
    simp only [makeFloat.go]
    by_cases he0 : eb = 0
    · rw [if_pos he0]; exact ⟨acc, rfl, h⟩
    · rw [if_neg he0]
      have hlt : idx < tbl.length := by
        rcases Nat.lt_or_ge idx tbl.length with h | h
        · exact h
        · have : tbl.length - idx = 0 := by omega
          rw [this] at heb; simp at heb; omega
      have hpow : 2 ^ (tbl.length - idx) = 2 * 2 ^ (tbl.length - (idx + 1)) := by
        have : tbl.length - idx = (tbl.length - (idx + 1)) + 1 := by omega
        rw [this, Nat.pow_succ]; omega
      have he' : eb / 2 < 2 ^ (tbl.length - (idx + 1)) := by omega
      by_cases hodd : eb % 2 = 1
      · rw [if_pos hodd, List.getElem?_eq_getElem hlt]
        simp only
        obtain ⟨mt, et, hdt, hmt⟩ := htbl idx hlt
        have := mul_inf_fin f acc tbl[idx] false false mt et h hdt hmt
        exact ih _ _ _ (by simpa using this) he' (by omega)
      · rw [if_neg hodd]
        exact ih _ _ _ h he' (by omega)

theorem go_close_or_inf (f : Fmt) (tbl : List Nat) (T lo : ℚ) (hf : 0 < f.emax) (hT : 0 < T) (hmono : 1 ≤ T ∨ T ≤ 1)
    (htbl : ∀ i (h : i < tbl.length), ∃ (m : Nat) (e : Int), decode f tbl[i] = .fin false m e ∧ m ≠ 0 ∧
      Close (uro f) (qv m e) (T ^ (2 ^ i)))
    (hlo0 : 0 < lo) (hlo : (2 : ℚ) ^ (emin f + f.mbits) ≤ lo / 2) :
    ∀ (fuel acc eb idx : Nat) (δ y : ℚ), AccOK f acc δ y → 0 ≤ δ →
      eb < 2 ^ (tbl.length - idx) → idx ≤ tbl.length → tbl.length - idx ≤ fuel →
      δ + 5 / 2 * uro f * ((tbl.length - idx : Nat) : ℚ) ≤ 1 / 8 →
      lo ≤ y → lo ≤ y * T ^ (eb * 2 ^ idx) →
      ∃ (r : Nat), makeFloat.go f tbl fuel acc eb idx = some r ∧
        AccOK f r (δ + 5 / 2 * uro f * ((tbl.length - idx : Nat) : ℚ)) (y * T ^ (eb * 2 ^ idx)) := by
  have hu := uro_pos f
  have htbl' : ∀ i (h : i < tbl.length), ∃ (m : Nat) (e : Int), decode f tbl[i] = .fin false m e ∧ m ≠ 0 := by
    intro i h; obtain ⟨m, e, h1, h2, _⟩ := htbl i h; exact ⟨m, e, h1, h2⟩
  intro fuel
  induction fuel with
  | zero =>
    intro acc eb idx δ y hacc hδ heb hidx hfuel hsum h1 h3
    have : tbl.length - idx = 0 := by omega
    rw [this] at heb
    have : eb = 0 := by omega
    subst this
    refine ⟨acc, rfl, ?_⟩
    simp only [Nat.zero_mul, pow_zero, mul_one]
    rcases hacc with h | ⟨ma, ea, hd, hma, hc⟩
    · exact Or.inl h
    · exact Or.inr ⟨ma, ea, hd, hma, hc.mono (by linarith) (by
        have : (0:ℚ) ≤ ((tbl.length - idx : Nat) : ℚ) := by positivity
        nlinarith)⟩
  | succ n ih =>
    intro acc eb idx δ y hacc hδ heb hidx hfuel hsum h1 h3
    rcases hacc with hinf | ⟨ma, ea, hd, hma, hc⟩
    · obtain ⟨r, h1, h2⟩ := go_inf f tbl htbl' (n + 1) acc eb idx hinf heb hidx
      exact ⟨r, h1, Or.inl h2⟩
    have hy : 0 < y := lt_of_lt_of_le hlo0 h1
    have hcnt : (0:ℚ) ≤ ((tbl.length - idx : Nat) : ℚ) := by positivity
    simp only [makeFloat.go]
    by_cases he0 : eb = 0
    · subst he0
      rw [if_pos rfl]
      refine ⟨acc, rfl, Or.inr ⟨ma, ea, hd, hma, ?_⟩⟩
      simp only [Nat.zero_mul, pow_zero, mul_one]
      exact hc.mono hy.le (by nlinarith)
    · rw [if_neg he0]
      have hlt : idx < tbl.length := by
        rcases Nat.lt_or_ge idx tbl.length with h | h
        · exact h
        · have : tbl.length - idx = 0 := by omega
          rw [this] at heb; simp at heb; omega
      have hpow : 2 ^ (tbl.length - idx) = 2 * 2 ^ (tbl.length - (idx + 1)) := by
        have : tbl.length - idx = (tbl.length - (idx + 1)) + 1 := by omega
        rw [this, Nat.pow_succ]; omega
      have he' : eb / 2 < 2 ^ (tbl.length - (idx + 1)) := by omega
      have hcnt' : ((tbl.length - idx : Nat) : ℚ) = ((tbl.length - (idx + 1) : Nat) : ℚ) + 1 := by
        have : tbl.length - idx = (tbl.length - (idx + 1)) + 1 := by omega
        rw [this]; push_cast; ring
      have hcnt2 : (0:ℚ) ≤ ((tbl.length - (idx + 1) : Nat) : ℚ) := by positivity
      by_cases hodd : eb % 2 = 1
      · rw [if_pos hodd, List.getElem?_eq_getElem hlt]
        simp only
        obtain ⟨mt, et, hdt, hmt, hct⟩ := htbl idx hlt
        have hexp : eb * 2 ^ idx = 2 ^ idx + (eb / 2) * 2 ^ (idx + 1) := by
          have : eb = 2 * (eb / 2) + 1 := by omega
          conv_lhs => rw [this]
          rw [Nat.pow_succ]; ring
        have hsplit : y * T ^ (eb * 2 ^ idx) = y * T ^ (2 ^ idx) * T ^ ((eb / 2) * 2 ^ (idx + 1)) := by
          rw [hexp, pow_add]; ring
        rw [hsplit] at h3 ⊢
        have b1 := between_lo hT hmono hy _ _ h1 h3
        have hy' : 0 < y * T ^ (2 ^ idx) := by positivity
        have hδ3 : δ + 5 / 2 * uro f ≤ 1 / 8 := by rw [hcnt'] at hsum; nlinarith
        have hP := hc.mul hct hy (by positivity) hδ hu.le
        have hd1 : δ + uro f + δ * uro f ≤ 1 / 2 := by nlinarith
        have hd0 : 0 ≤ δ + uro f + δ * uro f := by positivity
        have hPlo := hP.ge
        have hPlo' : (2 : ℚ) ^ (emin f + f.mbits) ≤ qv ma ea * qv mt et := by nlinarith
        have hsum' : δ + 5 / 2 * uro f + 5 / 2 * uro f * ((tbl.length - (idx + 1) : Nat) : ℚ) ≤ 1 / 8 := by
          rw [hcnt'] at hsum; linarith
        have hfin : δ + 5 / 2 * uro f + 5 / 2 * uro f * ((tbl.length - (idx + 1) : Nat) : ℚ) =
            δ + 5 / 2 * uro f * ((tbl.length - idx : Nat) : ℚ) := by rw [hcnt']; ring
        have hnext : AccOK f (SF.mul f acc tbl[idx]) (δ + 5 / 2 * uro f) (y * T ^ (2 ^ idx)) := by
          rcases mul_relQ_or_inf f acc tbl[idx] false false ma mt ea et hf hd hdt hma hmt hPlo' with ⟨hi, _⟩ | ⟨mr, er, hdr, _, _, hcr⟩
          · exact Or.inl (by simpa using hi)
          · have hmr : mr ≠ 0 := by have := Nat.two_pow_pos f.mbits; omega
            exact Or.inr ⟨mr, er, by simpa using hdr, hmr,
              (hcr.trans hP hy' hu.le hd0).mono hy'.le (three_u δ (uro f) hδ hu.le hδ3)⟩
        obtain ⟨r, hgo, hfinal⟩ := ih (SF.mul f acc tbl[idx]) (eb / 2) (idx + 1) (δ + 5 / 2 * uro f) (y * T ^ (2 ^ idx))
          hnext (by positivity) he' (by omega) (by omega) hsum' b1 h3
        refine ⟨r, hgo, ?_⟩
        rw [← hfin]; exact hfinal
      · rw [if_neg hodd]
        have hexp : eb * 2 ^ idx = (eb / 2) * 2 ^ (idx + 1) := by
          have : eb = 2 * (eb / 2) := by omega
          conv_lhs => rw [this]
          rw [Nat.pow_succ]; ring
        rw [hexp] at h3 ⊢
        obtain ⟨r, hgo, hfinal⟩ := ih acc (eb / 2) (idx + 1) δ y (Or.inr ⟨ma, ea, hd, hma, hc⟩) hδ he' (by omega) (by omega)
          (by rw [hcnt'] at hsum; nlinarith) h1 h3
        refine ⟨r, hgo, ?_⟩
        rcases hfinal with h | ⟨mr, er, hdr, hmr, hcr⟩
        · exact Or.inl h
        · exact Or.inr ⟨mr, er, hdr, hmr, hcr.mono (le_trans hlo0.le h3) (by rw [hcnt']; nlinarith)⟩
end C12
