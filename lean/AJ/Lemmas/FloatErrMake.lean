/- C12 (floating-point clauses), part 4: `make_float` on the generated tables. -/
import AJ.Lemmas.FloatErrLoop
namespace C12
open SF JD

theorem emin_b64 : emin b64 + (b64.mbits : Int) = -1022 := by decide
theorem top_b64 : (b64.emax : Int) - b64.bias - 1 = 1023 := by decide
theorem emin_b32 : emin b32 + (b32.mbits : Int) = -126 := by decide
theorem top_b32 : (b32.emax : Int) - b32.bias - 1 = 127 := by decide

theorem getD_getElem (l : List Nat) (i : Nat) (h : i < l.length) : l.getD i 0 = l[i] := by
  simp [List.getD, List.getElem?_eq_getElem h]

theorem pos64_close : ∀ i (h : i < pos64.length), ∃ (m : Nat) (e : Int), decode b64 pos64[i] = .fin false m e ∧ m ≠ 0 ∧
    Close (uro b64) (qv m e) ((10 : ℚ) ^ (2 ^ i)) := by
  intro i h
  have hl : pos64.length = 9 := tables64_ok.1
  obtain ⟨_, h2, _, _⟩ := tables64_ok.2.2 i (by omega)
  have h2' : entryOK b64 pos64[i] (10 ^ 2 ^ i) 1 = true := by
    rw [← getD_getElem pos64 i h]; exact h2
  obtain ⟨m, e, hd, hm, hc⟩ := entry_close h2' (by positivity) (by decide)
  refine ⟨m, e, hd, hm, ?_⟩
  simpa using hc

theorem neg64_close : ∀ i (h : i < neg64.length), ∃ (m : Nat) (e : Int), decode b64 neg64[i] = .fin false m e ∧ m ≠ 0 ∧
    Close (uro b64) (qv m e) ((1 / 10 : ℚ) ^ (2 ^ i)) := by
  intro i h
  have hl : neg64.length = 9 := tables64_ok.2.1
  obtain ⟨_, _, h3, _⟩ := tables64_ok.2.2 i (by omega)
  have h3' : entryOK b64 neg64[i] 1 (10 ^ 2 ^ i) = true := by
    rw [← getD_getElem neg64 i h]; exact h3
  obtain ⟨m, e, hd, hm, hc⟩ := entry_close h3' (by decide) (by positivity)
  refine ⟨m, e, hd, hm, ?_⟩
  have : ((1 : Nat) : ℚ) / ((10 ^ 2 ^ i : Nat) : ℚ) = (1 / 10 : ℚ) ^ (2 ^ i) := by
    push_cast; rw [one_div, one_div, inv_pow]
  rw [← this]; exact hc

theorem pos32_close : ∀ i (h : i < pos32.length), ∃ (m : Nat) (e : Int), decode b32 pos32[i] = .fin false m e ∧ m ≠ 0 ∧
    Close (uro b32) (qv m e) ((10 : ℚ) ^ (2 ^ i)) := by
  intro i h
  have hl : pos32.length = 6 := tables32_ok.1
  obtain ⟨_, h2, _, _⟩ := tables32_ok.2.2 i (by omega)
  have h2' : entryOK b32 pos32[i] (10 ^ 2 ^ i) 1 = true := by
    rw [← getD_getElem pos32 i h]; exact h2
  obtain ⟨m, e, hd, hm, hc⟩ := entry_close h2' (by positivity) (by decide)
  refine ⟨m, e, hd, hm, ?_⟩
  simpa using hc

theorem neg32_close : ∀ i (h : i < neg32.length), ∃ (m : Nat) (e : Int), decode b32 neg32[i] = .fin false m e ∧ m ≠ 0 ∧
    Close (uro b32) (qv m e) ((1 / 10 : ℚ) ^ (2 ^ i)) := by
  intro i h
  have hl : neg32.length = 6 := tables32_ok.2.1
  obtain ⟨_, _, h3, _⟩ := tables32_ok.2.2 i (by omega)
  have h3' : entryOK b32 neg32[i] 1 (10 ^ 2 ^ i) = true := by
    rw [← getD_getElem neg32 i h]; exact h3
  obtain ⟨m, e, hd, hm, hc⟩ := entry_close h3' (by decide) (by positivity)
  refine ⟨m, e, hd, hm, ?_⟩
  have : ((1 : Nat) : ℚ) / ((10 ^ 2 ^ i : Nat) : ℚ) = (1 / 10 : ℚ) ^ (2 ^ i) := by
    push_cast; rw [one_div, one_div, inv_pow]
  rw [← this]; exact hc

/-- `10^e` for an integer `e`, through `|e|` -/
theorem ten_zpow_pos_exp (e : Int) (h : 0 < e) : (10 : ℚ) ^ e = (10 : ℚ) ^ e.natAbs := by
  have : e = (e.natAbs : Int) := by omega
  conv_lhs => rw [this]
  rw [zpow_natCast]
theorem ten_zpow_neg_exp (e : Int) (h : e ≤ 0) : (10 : ℚ) ^ e = (1 / 10 : ℚ) ^ e.natAbs := by
  have : e = -(e.natAbs : Int) := by omega
  conv_lhs => rw [this]
  rw [zpow_neg, zpow_natCast, one_div, inv_pow]

/-- GENERIC `make_float`: exact start value `mant`, target `mant·10^e` -/
theorem makeFloat_close (f : Fmt) (tp tn : List Nat) (lo hi : ℚ) (hf : 0 < f.emax) (hlen : tp.length = tn.length)
    (hp : ∀ i (h : i < tp.length), ∃ (m : Nat) (e : Int), decode f tp[i] = .fin false m e ∧ m ≠ 0 ∧
      Close (uro f) (qv m e) ((10 : ℚ) ^ (2 ^ i)))
    (hn : ∀ i (h : i < tn.length), ∃ (m : Nat) (e : Int), decode f tn[i] = .fin false m e ∧ m ≠ 0 ∧
      Close (uro f) (qv m e) ((1 / 10 : ℚ) ^ (2 ^ i)))
    (hl64 : tp.length ≤ 64)
    (hlo0 : 0 < lo) (hlo : (2 : ℚ) ^ (emin f + f.mbits) ≤ lo / 2)
    (hhi : 2 * hi < (2 : ℚ) ^ ((f.emax : Int) - f.bias - 1))
    (hu : 5 / 2 * uro f * (tp.length : ℚ) ≤ 1 / 8)
    (acc ma : Nat) (ea : Int) (mant : Nat) (e : Int)
    (hacc : decode f acc = .fin false ma ea) (hma : ma ≠ 0) (hval : qv ma ea = (mant : ℚ))
    (he : e.natAbs < 2 ^ tp.length)
    (h1 : lo ≤ (mant : ℚ)) (h2 : (mant : ℚ) ≤ hi) (h3 : lo ≤ (mant : ℚ) * (10 : ℚ) ^ e) (h4 : (mant : ℚ) * (10 : ℚ) ^ e ≤ hi) :
    ∃ (r m : Nat) (ex : Int), makeFloat f tp tn acc e = some r ∧ decode f r = .fin false m ex ∧ m ≠ 0 ∧
      Close (5 / 2 * uro f * (tp.length : ℚ)) (qv m ex) ((mant : ℚ) * (10 : ℚ) ^ e) := by
  have hc0 : Close 0 (qv ma ea) (mant : ℚ) := by rw [hval]; exact Close.refl _
  simp only [makeFloat]
  by_cases hpos : e > 0
  · rw [if_pos hpos]
    rw [ten_zpow_pos_exp e hpos] at h3 h4 ⊢
    have := go_close f tp 10 lo hi hf (by norm_num) (Or.inl (by norm_num)) hp hlo0 hlo hhi 64 acc e.natAbs 0 0 mant ma ea
      hacc hma hc0 (le_refl _) (by simpa using he) (by omega) (by omega)
      (by simpa using hu) h1 h2 (by simpa using h3) (by simpa using h4)
    simpa using this
  · rw [if_neg hpos]
    rw [ten_zpow_neg_exp e (by omega)] at h3 h4 ⊢
    have := go_close f tn (1 / 10) lo hi hf (by norm_num) (Or.inr (by norm_num)) hn hlo0 hlo hhi 64 acc e.natAbs 0 0 mant ma ea
      hacc hma hc0 (le_refl _) (by rw [← hlen]; simpa using he) (by omega) (by omega)
      (by rw [← hlen]; simpa using hu) h1 h2 (by simpa using h3) (by simpa using h4)
    rw [← hlen] at this
    simpa using this

/-- binary64 `make_float`: `mant < 2^53` converts exactly; if `mant·10^e ∈ [2^-1000, 2^1000]` (that contains
    `[5e-301, 1e301]`) the result is a finite positive datum within `22.5·2^-53 < 2.5e-15` of `mant·10^e`. -/
theorem makeFloat64_close (mant : Nat) (e : Int) (hm : mant ≠ 0) (hlt : mant < 2 ^ 53) (he : e.natAbs < 512)
    (h3 : (2 : ℚ) ^ (-1000 : Int) ≤ (mant : ℚ) * (10 : ℚ) ^ e) (h4 : (mant : ℚ) * (10 : ℚ) ^ e ≤ (2 : ℚ) ^ (1000 : Int)) :
    ∃ (r m : Nat) (ex : Int), makeFloat b64 pos64 neg64 (ofNat b64 mant) e = some r ∧ decode b64 r = .fin false m ex ∧
      m ≠ 0 ∧ Close (45 / 2 ^ 54) (qv m ex) ((mant : ℚ) * (10 : ℚ) ^ e) := by
  obtain ⟨ma, ea, hacc, hma, hval⟩ := ofNat_exactQ b64 mant hm hlt (by decide) (by decide)
  have hl : pos64.length = 9 := tables64_ok.1
  have hl' : neg64.length = 9 := tables64_ok.2.1
  have hmq : (1 : ℚ) ≤ (mant : ℚ) := by exact_mod_cast Nat.pos_of_ne_zero hm
  have hmq2 : (mant : ℚ) ≤ 2 ^ 53 := by exact_mod_cast hlt.le
  have hu : uro b64 = 1 / 2 ^ 53 := rfl
  have := makeFloat_close b64 pos64 neg64 ((2 : ℚ) ^ (-1000 : Int)) ((2 : ℚ) ^ (1000 : Int)) (by decide) (by rw [hl, hl'])
    pos64_close neg64_close (by omega) (by positivity)
    (by rw [emin_b64]
        have : (2 : ℚ) ^ (-1000 : Int) / 2 = (2 : ℚ) ^ (-1001 : Int) := by
          rw [show (-1000 : Int) = -1001 + 1 from rfl, zpow_add₀ (by norm_num)]; simp
        rw [this]; exact zpow_le_zpow_right₀ (by norm_num) (by norm_num))
    (by rw [top_b64]
        have : 2 * (2 : ℚ) ^ (1000 : Int) = (2 : ℚ) ^ (1001 : Int) := by
          rw [show (1001 : Int) = 1 + 1000 from rfl, zpow_add₀ (by norm_num)]; simp
        rw [this]; exact zpow_lt_zpow_right₀ (by norm_num) (by norm_num))
    (by rw [hl, hu]; norm_num)
    (ofNat b64 mant) ma ea mant e hacc hma hval (by rw [hl]; exact he)
    (le_trans (zpow_le_one_of_nonpos₀ (by norm_num) (by norm_num)) hmq)
    (le_trans hmq2 (by rw [← zpow_natCast]; exact zpow_le_zpow_right₀ (by norm_num) (by norm_num)))
    h3 h4
  rw [hl, hu] at this
  have e27 : (5 / 2 : ℚ) * (1 / 2 ^ 53) * ((9 : Nat) : ℚ) = 45 / 2 ^ 54 := by norm_num
  rw [e27] at this
  exact this

/-- binary32 `make_float`: `mant < 2^24` converts exactly; if `mant·10^e ∈ [2^-125, 2^125]` (that contains
    `[2.4e-38, 4.2e37]`) the result is a finite positive datum within `15·2^-24 < 8.95e-7` of `mant·10^e`. -/
theorem makeFloat32_close (mant : Nat) (e : Int) (hm : mant ≠ 0) (hlt : mant < 2 ^ 24) (he : e.natAbs < 64)
    (h3 : (2 : ℚ) ^ (-125 : Int) ≤ (mant : ℚ) * (10 : ℚ) ^ e) (h4 : (mant : ℚ) * (10 : ℚ) ^ e ≤ (2 : ℚ) ^ (125 : Int)) :
    ∃ (r m : Nat) (ex : Int), makeFloat b32 pos32 neg32 (ofNat b32 mant) e = some r ∧ decode b32 r = .fin false m ex ∧
      m ≠ 0 ∧ Close (15 / 2 ^ 24) (qv m ex) ((mant : ℚ) * (10 : ℚ) ^ e) := by
  obtain ⟨ma, ea, hacc, hma, hval⟩ := ofNat_exactQ b32 mant hm hlt (by decide) (by decide)
  have hl : pos32.length = 6 := tables32_ok.1
  have hl' : neg32.length = 6 := tables32_ok.2.1
  have hmq : (1 : ℚ) ≤ (mant : ℚ) := by exact_mod_cast Nat.pos_of_ne_zero hm
  have hmq2 : (mant : ℚ) ≤ 2 ^ 24 := by exact_mod_cast hlt.le
  have hu : uro b32 = 1 / 2 ^ 24 := rfl
  have := makeFloat_close b32 pos32 neg32 ((2 : ℚ) ^ (-125 : Int)) ((2 : ℚ) ^ (125 : Int)) (by decide) (by rw [hl, hl'])
    pos32_close neg32_close (by omega) (by positivity)
    (by rw [emin_b32]
        have : (2 : ℚ) ^ (-125 : Int) / 2 = (2 : ℚ) ^ (-126 : Int) := by
          rw [show (-125 : Int) = -126 + 1 from rfl, zpow_add₀ (by norm_num)]; simp
        rw [this])
    (by rw [top_b32]
        have : 2 * (2 : ℚ) ^ (125 : Int) = (2 : ℚ) ^ (126 : Int) := by
          rw [show (126 : Int) = 1 + 125 from rfl, zpow_add₀ (by norm_num)]; simp
        rw [this]; exact zpow_lt_zpow_right₀ (by norm_num) (by norm_num))
    (by rw [hl, hu]; norm_num)
    (ofNat b32 mant) ma ea mant e hacc hma hval (by rw [hl]; exact he)
    (le_trans (zpow_le_one_of_nonpos₀ (by norm_num) (by norm_num)) hmq)
    (le_trans hmq2 (by rw [← zpow_natCast]; exact zpow_le_zpow_right₀ (by norm_num) (by norm_num)))
    h3 h4
  rw [hl, hu] at this
  have e18 : (5 / 2 : ℚ) * (1 / 2 ^ 24) * ((6 : Nat) : ℚ) = 15 / 2 ^ 24 := by norm_num
  rw [e18] at this
  exact this

/-! ## overflow allowed: only a lower bound on the magnitude -/

/-- GENERIC `make_float`, overflow allowed -/
theorem makeFloat_close_or_inf (f : Fmt) (tp tn : List Nat) (lo : ℚ) (hf : 0 < f.emax) (hlen : tp.length = tn.length)
    (hp : ∀ i (h : i < tp.length), ∃ (m : Nat) (e : Int), decode f tp[i] = .fin false m e ∧ m ≠ 0 ∧
      Close (uro f) (qv m e) ((10 : ℚ) ^ (2 ^ i)))
    (hn : ∀ i (h : i < tn.length), ∃ (m : Nat) (e : Int), decode f tn[i] = .fin false m e ∧ m ≠ 0 ∧
      Close (uro f) (qv m e) ((1 / 10 : ℚ) ^ (2 ^ i)))
    (hl64 : tp.length ≤ 64)
    (hlo0 : 0 < lo) (hlo : (2 : ℚ) ^ (emin f + f.mbits) ≤ lo / 2)
    (hu : 5 / 2 * uro f * (tp.length : ℚ) ≤ 1 / 8)
    (acc ma : Nat) (ea : Int) (mant : Nat) (e : Int)
    (hacc : decode f acc = .fin false ma ea) (hma : ma ≠ 0) (hval : qv ma ea = (mant : ℚ))
    (he : e.natAbs < 2 ^ tp.length)
    (h1 : lo ≤ (mant : ℚ)) (h3 : lo ≤ (mant : ℚ) * (10 : ℚ) ^ e) :
    ∃ (r : Nat), makeFloat f tp tn acc e = some r ∧
      AccOK f r (5 / 2 * uro f * (tp.length : ℚ)) ((mant : ℚ) * (10 : ℚ) ^ e) := by
  have hc0 : AccOK f acc 0 (mant : ℚ) := Or.inr ⟨ma, ea, hacc, hma, by rw [hval]; exact Close.refl _⟩
  simp only [makeFloat]
  by_cases hpos : e > 0
  · rw [if_pos hpos]
    rw [ten_zpow_pos_exp e hpos] at h3 ⊢
    have := go_close_or_inf f tp 10 lo hf (by norm_num) (Or.inl (by norm_num)) hp hlo0 hlo 64 acc e.natAbs 0 0 mant
      hc0 (le_refl _) (by simpa using he) (by omega) (by omega)
      (by simpa using hu) h1 (by simpa using h3)
    simpa using this
  · rw [if_neg hpos]
    rw [ten_zpow_neg_exp e (by omega)] at h3 ⊢
    have := go_close_or_inf f tn (1 / 10) lo hf (by norm_num) (Or.inr (by norm_num)) hn hlo0 hlo 64 acc e.natAbs 0 0 mant
      hc0 (le_refl _) (by rw [← hlen]; simpa using he) (by omega) (by omega)
      (by rw [← hlen]; simpa using hu) h1 (by simpa using h3)
    rw [← hlen] at this
    simpa using this

/-- binary64 `make_float`, overflow allowed: `mant·10^e ≥ 2^-1000` gives `+inf` or a finite positive datum within
    `22.5·2^-53` of `mant·10^e` -/
theorem makeFloat64_close_or_inf (mant : Nat) (e : Int) (hm : mant ≠ 0) (hlt : mant < 2 ^ 53) (he : e.natAbs < 512)
    (h3 : (2 : ℚ) ^ (-1000 : Int) ≤ (mant : ℚ) * (10 : ℚ) ^ e) :
    ∃ (r : Nat), makeFloat b64 pos64 neg64 (ofNat b64 mant) e = some r ∧
      AccOK b64 r (45 / 2 ^ 54) ((mant : ℚ) * (10 : ℚ) ^ e) := by
  obtain ⟨ma, ea, hacc, hma, hval⟩ := ofNat_exactQ b64 mant hm hlt (by decide) (by decide)
  have hl : pos64.length = 9 := tables64_ok.1
  have hl' : neg64.length = 9 := tables64_ok.2.1
  have hmq : (1 : ℚ) ≤ (mant : ℚ) := by exact_mod_cast Nat.pos_of_ne_zero hm
  have hu : uro b64 = 1 / 2 ^ 53 := rfl
  have := makeFloat_close_or_inf b64 pos64 neg64 ((2 : ℚ) ^ (-1000 : Int)) (by decide) (by rw [hl, hl'])
    pos64_close neg64_close (by omega) (by positivity)
    (by rw [emin_b64]
        have : (2 : ℚ) ^ (-1000 : Int) / 2 = (2 : ℚ) ^ (-1001 : Int) := by
          rw [show (-1000 : Int) = -1001 + 1 from rfl, zpow_add₀ (by norm_num)]; simp
        rw [this]; exact zpow_le_zpow_right₀ (by norm_num) (by norm_num))
    (by rw [hl, hu]; norm_num)
    (ofNat b64 mant) ma ea mant e hacc hma hval (by rw [hl]; exact he)
    (le_trans (zpow_le_one_of_nonpos₀ (by norm_num) (by norm_num)) hmq)
    h3
  rw [hl, hu] at this
  have e27 : (5 / 2 : ℚ) * (1 / 2 ^ 53) * ((9 : Nat) : ℚ) = 45 / 2 ^ 54 := by norm_num
  rw [e27] at this
  exact this

/-- binary32 `make_float`, overflow allowed: `mant·10^e ≥ 2^-125` gives `+inf` or a finite positive datum within
    `15·2^-24` of `mant·10^e` -/
theorem makeFloat32_close_or_inf (mant : Nat) (e : Int) (hm : mant ≠ 0) (hlt : mant < 2 ^ 24) (he : e.natAbs < 64)
    (h3 : (2 : ℚ) ^ (-125 : Int) ≤ (mant : ℚ) * (10 : ℚ) ^ e) :
    ∃ (r : Nat), makeFloat b32 pos32 neg32 (ofNat b32 mant) e = some r ∧
      AccOK b32 r (15 / 2 ^ 24) ((mant : ℚ) * (10 : ℚ) ^ e) := by
  obtain ⟨ma, ea, hacc, hma, hval⟩ := ofNat_exactQ b32 mant hm hlt (by decide) (by decide)
  have hl : pos32.length = 6 := tables32_ok.1
  have hl' : neg32.length = 6 := tables32_ok.2.1
  have hmq : (1 : ℚ) ≤ (mant : ℚ) := by exact_mod_cast Nat.pos_of_ne_zero hm
  have hu : uro b32 = 1 / 2 ^ 24 := rfl
  have := makeFloat_close_or_inf b32 pos32 neg32 ((2 : ℚ) ^ (-125 : Int)) (by decide) (by rw [hl, hl'])
    pos32_close neg32_close (by omega) (by positivity)
    (by rw [emin_b32]
        have : (2 : ℚ) ^ (-125 : Int) / 2 = (2 : ℚ) ^ (-126 : Int) := by
          rw [show (-125 : Int) = -126 + 1 from rfl, zpow_add₀ (by norm_num)]; simp
        rw [this])
    (by rw [hl, hu]; norm_num)
    (ofNat b32 mant) ma ea mant e hacc hma hval (by rw [hl]; exact he)
    (le_trans (zpow_le_one_of_nonpos₀ (by norm_num) (by norm_num)) hmq)
    h3
  rw [hl, hu] at this
  have e18 : (5 / 2 : ℚ) * (1 / 2 ^ 24) * ((6 : Nat) : ℚ) = 15 / 2 ^ 24 := by norm_num
  rw [e18] at this
  exact this

end C12
