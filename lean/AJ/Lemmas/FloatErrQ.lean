/- C12 (floating-point clauses), parts 2 and 4 over ℚ: relative-error calculus, one rounding / one multiplication,
   the `make_float` loop. Imports single Mathlib modules (ordered-field tactics only). -/
import Mathlib.Tactic.Ring
import Mathlib.Tactic.Linarith
import Mathlib.Tactic.NormNum
import Mathlib.Tactic.Positivity
import Mathlib.Tactic.FieldSimp
import Mathlib.Algebra.Order.Field.Basic
import Mathlib.Algebra.Order.Field.Power
import Mathlib.Algebra.Order.Field.Rat
import Mathlib.Algebra.Order.AbsoluteValue.Basic
import AJ.Lemmas.FloatErrRound
import AJ.Lemmas.FloatErrTables
namespace C12
open SF

/-- exact value of the dyadic `m·2^e` -/
def qv (m : Nat) (e : Int) : ℚ := (m : ℚ) * (2 : ℚ) ^ e

/-- `x` approximates `y > 0` with relative error at most `δ` -/
def Close (δ x y : ℚ) : Prop := |x - y| ≤ δ * y

theorem two_zpow_pos (e : Int) : (0 : ℚ) < (2 : ℚ) ^ e := zpow_pos (by norm_num) e

theorem qv_nonneg (m : Nat) (e : Int) : 0 ≤ qv m e := by
  unfold qv; have := two_zpow_pos e; positivity

theorem qv_pos {m : Nat} (hm : m ≠ 0) (e : Int) : 0 < qv m e := by
  unfold qv; have := two_zpow_pos e
  have : (0 : ℚ) < m := by exact_mod_cast Nat.pos_of_ne_zero hm
  positivity

/-- scaled naturals are values: `(m·2^(e-E))·2^E = m·2^e` for `E ≤ e` -/
theorem qv_scaled (m : Nat) (e E : Int) (h : E ≤ e) : qv (m * 2 ^ (e - E).toNat) E = qv m e := by
  unfold qv
  have h2 : (2 : ℚ) ≠ 0 := by norm_num
  have : e = ((e - E).toNat : Int) + E := by omega
  conv_rhs => rw [this, zpow_add₀ h2, zpow_natCast]
  push_cast; ring

theorem Close.refl (x : ℚ) : Close 0 x x := by unfold Close; simp

theorem Close.mono {δ δ' x y : ℚ} (h : Close δ x y) (hy : 0 ≤ y) (hd : δ ≤ δ') : Close δ' x y := by
  unfold Close at *; nlinarith

theorem Close.le {δ x y : ℚ} (h : Close δ x y) : x ≤ (1 + δ) * y := by
  unfold Close at h; have := (abs_le.mp h).2; linarith
theorem Close.ge {δ x y : ℚ} (h : Close δ x y) : (1 - δ) * y ≤ x := by
  unfold Close at h; have := (abs_le.mp h).1; linarith

/-- product of two approximations -/
theorem Close.mul {a b x y s t : ℚ} (h1 : Close a x y) (h2 : Close b s t) (hy : 0 < y) (ht : 0 < t)
    (ha : 0 ≤ a) (hb : 0 ≤ b) : Close (a + b + a * b) (x * s) (y * t) := by
  unfold Close at *
  have e : x * s - y * t = (x - y) * s + y * (s - t) := by ring
  have hs : |s| ≤ (1 + b) * t := by
    have := abs_le.mp h2
    rw [abs_le]; constructor <;> nlinarith
  calc |x * s - y * t| = |(x - y) * s + y * (s - t)| := by rw [e]
    _ ≤ |(x - y) * s| + |y * (s - t)| := abs_add_le _ _
    _ = |x - y| * |s| + y * |s - t| := by rw [abs_mul, abs_mul, abs_of_pos hy]
    _ ≤ (a * y) * ((1 + b) * t) + y * (b * t) := by
        have h0 : 0 ≤ |x - y| := abs_nonneg _
        have h3 : 0 ≤ a * y := by positivity
        have := mul_le_mul h1 hs (abs_nonneg s) h3
        have := mul_le_mul_of_nonneg_left h2 hy.le
        linarith
    _ = (a + b + a * b) * (y * t) := by ring

/-- chaining two approximations -/
theorem Close.trans {c d z w v : ℚ} (h1 : Close c z w) (h2 : Close d w v) (hv : 0 < v) (hc : 0 ≤ c) (hd : 0 ≤ d) :
    Close (c + d + c * d) z v := by
  unfold Close at *
  have hw : |w| ≤ (1 + d) * v := by
    have := abs_le.mp h2
    rw [abs_le]; constructor <;> nlinarith
  have hw' : w ≤ (1 + d) * v := le_trans (le_abs_self w) hw
  calc |z - v| = |(z - w) + (w - v)| := by ring_nf
    _ ≤ |z - w| + |w - v| := abs_add_le _ _
    _ ≤ c * w + d * v := add_le_add h1 h2
    _ ≤ c * ((1 + d) * v) + d * v := by have := mul_le_mul_of_nonneg_left hw' hc; linarith
    _ = (c + d + c * d) * v := by ring

/-- the unit roundoff `2^-(mbits+1)` of a format -/
def uro (f : Fmt) : ℚ := 1 / (2 : ℚ) ^ (f.mbits + 1)

theorem uro_pos (f : Fmt) : 0 < uro f := by unfold uro; positivity

theorem natAbs_cast_le {A B C : Nat} {K : Nat} (h : (((A : Nat) : Int) - ((B : Nat) : Int)).natAbs * K ≤ C) :
    |(A : ℚ) - (B : ℚ)| * (K : ℚ) ≤ (C : ℚ) := by
  have h1 : (((((A : Nat) : Int) - ((B : Nat) : Int)).natAbs * K : Nat) : ℚ) ≤ (C : ℚ) := by exact_mod_cast h
  rw [Nat.cast_mul, Nat.cast_natAbs, Int.cast_abs] at h1
  push_cast at h1
  exact h1

theorem log2_bounds_q {m : Nat} (hm : m ≠ 0) (e : Int) :
    (2 : ℚ) ^ ((Nat.log2 m : Int) + e) ≤ qv m e ∧ qv m e < (2 : ℚ) ^ ((Nat.log2 m : Int) + 1 + e) := by
  have h2 : (2 : ℚ) ≠ 0 := by norm_num
  have hL1 : ((2 ^ Nat.log2 m : Nat) : ℚ) ≤ (m : ℚ) := by exact_mod_cast Nat.log2_self_le hm
  have hL2 : (m : ℚ) < ((2 ^ (Nat.log2 m + 1) : Nat) : ℚ) := by exact_mod_cast Nat.lt_log2_self (n := m)
  have hp := two_zpow_pos e
  unfold qv
  constructor
  · rw [zpow_add₀ h2, zpow_natCast]
    push_cast at hL1
    exact mul_le_mul_of_nonneg_right hL1 hp.le
  · have : (Nat.log2 m : Int) + 1 + e = ((Nat.log2 m + 1 : Nat) : Int) + e := by push_cast; ring
    rw [this, zpow_add₀ h2, zpow_natCast]
    push_cast at hL2 ⊢
    exact mul_lt_mul_of_pos_right hL2 hp

theorem close_of_int (f : Fmt) {m'' m : Nat} {e'' e E : Int} (hE1 : E ≤ e) (hE2 : E ≤ e'')
    (herr : (((m'' * 2 ^ (e'' - E).toNat : Nat) : Int) - ((m * 2 ^ (e - E).toNat : Nat) : Int)).natAbs * 2 ^ (f.mbits + 1)
        ≤ m * 2 ^ (e - E).toNat) : Close (uro f) (qv m'' e'') (qv m e) := by
  have hq := natAbs_cast_le herr
  rw [← qv_scaled m'' e'' E hE2, ← qv_scaled m e E hE1]
  generalize m'' * 2 ^ (e'' - E).toNat = A at *
  generalize m * 2 ^ (e - E).toNat = B at *
  unfold Close qv uro
  have hp := two_zpow_pos E
  have hK : (0 : ℚ) < (2 : ℚ) ^ (f.mbits + 1) := by positivity
  push_cast at hq
  have e1 : (A : ℚ) * 2 ^ E - (B : ℚ) * 2 ^ E = ((A : ℚ) - B) * 2 ^ E := by ring
  rw [e1, abs_mul, abs_of_pos hp]
  have : |(A : ℚ) - (B : ℚ)| ≤ (B : ℚ) / (2 : ℚ) ^ (f.mbits + 1) := by
    rw [le_div_iff₀ hK]; exact hq
  calc |(A : ℚ) - (B : ℚ)| * 2 ^ E ≤ (B : ℚ) / (2 : ℚ) ^ (f.mbits + 1) * 2 ^ E :=
        mul_le_mul_of_nonneg_right this hp.le
    _ = 1 / (2 : ℚ) ^ (f.mbits + 1) * ((B : ℚ) * 2 ^ E) := by ring

/-- ONE ROUNDING over ℚ, overflow allowed: an exact value `m·2^e ≥ 2^(emin+mbits)` (the smallest normal number) is rounded
    to the infinity of the requested sign (only if `m·2^e ≥ 2^(emax-bias-1)`, the top binade), or to a finite normal datum
    of the requested sign within relative error `2^-(mbits+1)`. -/
theorem roundPos_relQ_or_inf (f : Fmt) (n : Bool) (m : Nat) (e : Int) (hm : m ≠ 0) (hf : 0 < f.emax)
    (hlo : (2 : ℚ) ^ (emin f + f.mbits) ≤ qv m e) :
    (decode f (roundPos f n m e) = .inf n ∧ (2 : ℚ) ^ ((f.emax : Int) - f.bias - 1) ≤ qv m e) ∨
    ∃ (m'' : Nat) (e'' : Int), decode f (roundPos f n m e) = .fin n m'' e'' ∧
      2 ^ f.mbits ≤ m'' ∧ m'' < 2 ^ (f.mbits + 1) ∧ Close (uro f) (qv m'' e'') (qv m e) := by
  obtain ⟨b1, b2⟩ := log2_bounds_q hm e
  have one_lt : (1 : ℚ) < 2 := by norm_num
  have c1 : emin f + f.mbits < (Nat.log2 m : Int) + 1 + e :=
    (zpow_lt_zpow_iff_right₀ one_lt).mp (lt_of_le_of_lt hlo b2)
  rcases roundPos_rel_or_inf f n m e hm hf (by push_cast; omega) with ⟨hinf, hbig⟩ | ⟨m'', e'', E, hd, n1, n2, hE1, hE2, herr⟩
  · left
    refine ⟨hinf, le_trans (zpow_le_zpow_right₀ one_lt.le ?_) b1⟩
    push_cast at hbig; omega
  · right
    exact ⟨m'', e'', hd, n1, n2, close_of_int f hE1 hE2 herr⟩

/-- ONE ROUNDING over ℚ: an exact value `m·2^e` in `[2^(emin+mbits), 2^(emax-bias-1))` (the normal range, minus its top
    binade) is rounded to a finite normal datum of the requested sign within relative error `2^-(mbits+1)`. -/
theorem roundPos_relQ (f : Fmt) (n : Bool) (m : Nat) (e : Int) (hm : m ≠ 0) (hf : 0 < f.emax)
    (hlo : (2 : ℚ) ^ (emin f + f.mbits) ≤ qv m e) (hhi : qv m e < (2 : ℚ) ^ ((f.emax : Int) - f.bias - 1)) :
    ∃ (m'' : Nat) (e'' : Int), decode f (roundPos f n m e) = .fin n m'' e'' ∧
      2 ^ f.mbits ≤ m'' ∧ m'' < 2 ^ (f.mbits + 1) ∧ Close (uro f) (qv m'' e'') (qv m e) := by
  rcases roundPos_relQ_or_inf f n m e hm hf hlo with ⟨_, h⟩ | h
  · exact absurd (lt_of_le_of_lt h hhi) (lt_irrefl _)
  · exact h

theorem mul_fin (f : Fmt) (a b : Nat) (n1 n2 : Bool) (m1 m2 : Nat) (e1 e2 : Int)
    (ha : decode f a = .fin n1 m1 e1) (hb : decode f b = .fin n2 m2 e2) :
    SF.mul f a b = roundPos f (n1 != n2) (m1 * m2) (e1 + e2) := by
  unfold SF.mul; rw [ha, hb]

theorem qv_mul (m1 m2 : Nat) (e1 e2 : Int) : qv (m1 * m2) (e1 + e2) = qv m1 e1 * qv m2 e2 := by
  unfold qv
  rw [zpow_add₀ (by norm_num : (2 : ℚ) ≠ 0)]
  push_cast; ring

/-- ONE MULTIPLICATION: finite non-zero operands whose exact product lies in the normal range (minus the top binade)
    give a finite normal datum, sign = xor of the signs, within relative error `2^-(mbits+1)` of the exact product. -/
theorem mul_relQ (f : Fmt) (a b : Nat) (n1 n2 : Bool) (m1 m2 : Nat) (e1 e2 : Int) (hf : 0 < f.emax)
    (ha : decode f a = .fin n1 m1 e1) (hb : decode f b = .fin n2 m2 e2) (h1 : m1 ≠ 0) (h2 : m2 ≠ 0)
    (hlo : (2 : ℚ) ^ (emin f + f.mbits) ≤ qv m1 e1 * qv m2 e2)
    (hhi : qv m1 e1 * qv m2 e2 < (2 : ℚ) ^ ((f.emax : Int) - f.bias - 1)) :
    ∃ (m : Nat) (e : Int), decode f (SF.mul f a b) = .fin (n1 != n2) m e ∧
      2 ^ f.mbits ≤ m ∧ m < 2 ^ (f.mbits + 1) ∧ Close (uro f) (qv m e) (qv m1 e1 * qv m2 e2) := by
  rw [mul_fin f a b n1 n2 m1 m2 e1 e2 ha hb, ← qv_mul]
  rw [← qv_mul] at hlo hhi
  exact roundPos_relQ f _ _ _ (Nat.mul_ne_zero h1 h2) hf hlo hhi

/-- ONE MULTIPLICATION, overflow allowed -/
theorem mul_relQ_or_inf (f : Fmt) (a b : Nat) (n1 n2 : Bool) (m1 m2 : Nat) (e1 e2 : Int) (hf : 0 < f.emax)
    (ha : decode f a = .fin n1 m1 e1) (hb : decode f b = .fin n2 m2 e2) (h1 : m1 ≠ 0) (h2 : m2 ≠ 0)
    (hlo : (2 : ℚ) ^ (emin f + f.mbits) ≤ qv m1 e1 * qv m2 e2) :
    (decode f (SF.mul f a b) = .inf (n1 != n2) ∧ (2 : ℚ) ^ ((f.emax : Int) - f.bias - 1) ≤ qv m1 e1 * qv m2 e2) ∨
    ∃ (m : Nat) (e : Int), decode f (SF.mul f a b) = .fin (n1 != n2) m e ∧
      2 ^ f.mbits ≤ m ∧ m < 2 ^ (f.mbits + 1) ∧ Close (uro f) (qv m e) (qv m1 e1 * qv m2 e2) := by
  rw [mul_fin f a b n1 n2 m1 m2 e1 e2 ha hb, ← qv_mul]
  rw [← qv_mul] at hlo
  exact roundPos_relQ_or_inf f _ _ _ (Nat.mul_ne_zero h1 h2) hf hlo

/-! ## `ofNat` -/

theorem ofNat_relQ (f : Fmt) (n : Nat) (hn : n ≠ 0) (hf : 0 < f.emax)
    (hlo : (2 : ℚ) ^ (emin f + f.mbits) ≤ (n : ℚ)) (hhi : (n : ℚ) < (2 : ℚ) ^ ((f.emax : Int) - f.bias - 1)) :
    ∃ (m : Nat) (e : Int), decode f (ofNat f n) = .fin false m e ∧
      2 ^ f.mbits ≤ m ∧ m < 2 ^ (f.mbits + 1) ∧ Close (uro f) (qv m e) (n : ℚ) := by
  have h0 : qv n 0 = (n : ℚ) := by unfold qv; simp
  rw [← h0] at hlo hhi ⊢
  exact roundPos_relQ f false n 0 hn hf hlo hhi

/-- integers below `2^(mbits+1)` convert exactly -/
theorem ofNat_exactQ (f : Fmt) (n : Nat) (hn : n ≠ 0) (hlt : n < 2 ^ (f.mbits + 1)) (hb : 1 ≤ f.bias)
    (he : f.mbits + f.bias < f.emax) :
    ∃ (m : Nat) (e : Int), decode f (ofNat f n) = .fin false m e ∧ m ≠ 0 ∧ qv m e = (n : ℚ) := by
  have hL : Nat.log2 n < f.mbits + 1 := (Nat.log2_lt hn).2 hlt
  have := roundPos_exact f false n 0 hn (by omega) (by unfold emin; omega) (by omega)
  refine ⟨_, _, this, ?_, ?_⟩
  · exact Nat.mul_ne_zero hn (Nat.pos_iff_ne_zero.mp (Nat.two_pow_pos _))
  · have h1 : (0 - (0 + (Nat.log2 n : Int) - f.mbits)).toNat = f.mbits - Nat.log2 n := by omega
    have h2 := qv_scaled n 0 (0 + (Nat.log2 n : Int) - f.mbits) (by omega)
    rw [h1] at h2
    rw [h2]; unfold qv; simp

/-! ## table entries as approximations -/

theorem zpow_split (e : Int) : (2 : ℚ) ^ e = (2 : ℚ) ^ e.toNat / (2 : ℚ) ^ (-e).toNat := by
  rcases le_total 0 e with h | h
  · have : (-e).toNat = 0 := by omega
    rw [this, pow_zero, div_one, ← zpow_natCast, Int.toNat_of_nonneg h]
  · have : e.toNat = 0 := by omega
    rw [this, pow_zero, one_div, ← zpow_natCast, ← zpow_neg, Int.toNat_of_nonneg (by omega), neg_neg]

theorem entry_close {f : Fmt} {bits num den : Nat} (h : entryOK f bits num den = true) (hnum : 0 < num) (hden : 0 < den) :
    ∃ (m : Nat) (e : Int), decode f bits = .fin false m e ∧ m ≠ 0 ∧ Close (uro f) (qv m e) ((num : ℚ) / (den : ℚ)) := by
  obtain ⟨m, e, hd, n1, _, _, hrel⟩ := entryOK_spec h
  refine ⟨m, e, hd, ?_, ?_⟩
  · have := Nat.two_pow_pos f.mbits; omega
  · have hq := natAbs_cast_le hrel
    push_cast at hq
    unfold Close qv uro
    rw [zpow_split e]
    have hP : (0 : ℚ) < (2 : ℚ) ^ e.toNat := by positivity
    have hN : (0 : ℚ) < (2 : ℚ) ^ (-e).toNat := by positivity
    have hK : (0 : ℚ) < (2 : ℚ) ^ (f.mbits + 1) := by positivity
    have hD : (0 : ℚ) < (den : ℚ) := by exact_mod_cast hden
    generalize (2 : ℚ) ^ e.toNat = P at *
    generalize (2 : ℚ) ^ (-e).toNat = N at *
    generalize (2 : ℚ) ^ (f.mbits + 1) = K at *
    have e1 : (m : ℚ) * (P / N) - (num : ℚ) / den = ((m : ℚ) * den * P - num * N) / (den * N) := by
      field_simp
    rw [e1, abs_div, abs_of_pos (by positivity : (0 : ℚ) < den * N), div_le_iff₀ (by positivity)]
    have : |(m : ℚ) * den * P - num * N| ≤ num * N / K := by rw [le_div_iff₀ hK]; exact hq
    calc _ ≤ (num : ℚ) * N / K := this
      _ = 1 / K * (num / den) * (den * N) := by field_simp

end C12
