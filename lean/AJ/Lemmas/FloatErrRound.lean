/- C12 (floating-point clauses), part 2 (integer level): one rounding of the softfloat has relative error at most
   `2^-(mbits+1)` as long as the exact value is in the normal range; hence one multiplication and `ofNat`. Core Lean only. -/
import AJ.Model.JD
import AJ.Lemmas.ConvLemmas
namespace SF

/-- a finite datum whose exponent is above the subnormal exponent is normal -/
theorem decode_fin_normal (f : Fmt) (b : Nat) (n : Bool) (m : Nat) (e : Int) (h : decode f b = .fin n m e)
    (he : emin f < e) : 2 ^ f.mbits ≤ m := by
  unfold decode at h
  simp only at h
  split at h
  · split at h <;> cases h
  · split at h
    · cases h; unfold emin at he; omega
    · cases h; omega

/-- `|R·2^k − m| ≤ 2^(k-1)` for `R = rneShift m k` -/
theorem rneShift_err (m k : Nat) (hk : 0 < k) :
    (((rneShift m k * 2 ^ k : Nat) : Int) - (m : Int)).natAbs ≤ 2 ^ (k - 1) := by
  have hdm := Nat.div_add_mod m (2 ^ k)
  have hr := Nat.mod_lt m (Nat.two_pow_pos k)
  have hK : 2 ^ k = 2 * 2 ^ (k - 1) := by
    obtain ⟨d, rfl⟩ : ∃ d, k = d + 1 := ⟨k - 1, by omega⟩
    rw [Nat.pow_succ, Nat.mul_comm]; rfl
  rcases rneShift_cases m k hk with ⟨c, e⟩ | ⟨c, e⟩
  · rw [e]
    have : m / 2 ^ k * 2 ^ k = 2 ^ k * (m / 2 ^ k) := Nat.mul_comm _ _
    omega
  · rw [e]
    have : (m / 2 ^ k + 1) * 2 ^ k = 2 ^ k * (m / 2 ^ k) + 2 ^ k := by rw [Nat.add_mul, Nat.mul_comm]; omega
    omega

/-- ONE ROUNDING, overflow allowed. If the exact value `m·2^e` is at least the smallest normal number
    (`2^(emin+mbits) ≤ 2^(e+len-1)`, `len` = bit length of `m`), then `roundPos` returns either the infinity of the requested
    sign (only possible when `2^(e+len) ≥ 2^(emax-bias)`), or a finite NORMAL datum `m''·2^e''` of the requested sign with
    `|m''·2^e'' − m·2^e| ≤ 2^-(mbits+1) · m·2^e`  (both sides scaled by `2^-E`, `E` a common lower exponent). -/
theorem roundPos_rel_or_inf (f : Fmt) (n : Bool) (m : Nat) (e : Int) (hm : m ≠ 0) (hf : 0 < f.emax)
    (hlo : emin f + f.mbits + 1 ≤ e + ((Nat.log2 m + 1 : Nat) : Int)) :
    (decode f (roundPos f n m e) = .inf n ∧ (f.emax : Int) ≤ e + ((Nat.log2 m + 1 : Nat) : Int) + f.bias) ∨
    ∃ (m'' : Nat) (e'' E : Int), decode f (roundPos f n m e) = .fin n m'' e'' ∧
      2 ^ f.mbits ≤ m'' ∧ m'' < 2 ^ (f.mbits + 1) ∧ E ≤ e ∧ E ≤ e'' ∧
      (((m'' * 2 ^ (e'' - E).toNat : Nat) : Int) - ((m * 2 ^ (e - E).toNat : Nat) : Int)).natAbs * 2 ^ (f.mbits + 1)
        ≤ m * 2 ^ (e - E).toNat := by
  have hL1 := Nat.log2_self_le hm
  have hE : rpExp f m e = e + (Nat.log2 m : Int) - f.mbits := by unfold rpExp; push_cast at hlo ⊢; omega
  have hge := rpExp_ge f m e
  by_cases h : rpExp f m e ≤ e
  · obtain ⟨hM, hlt, _⟩ := rp_case_exact f m e hm h
    have hnorm : 2 ^ f.mbits ≤ m * 2 ^ (e - rpExp f m e).toNat := by
      have hd : (e - rpExp f m e).toNat + Nat.log2 m = f.mbits := by omega
      rw [← hd, Nat.pow_add, Nat.mul_comm]
      exact Nat.mul_le_mul_right _ hL1
    rcases rp_decode f n m e hm hf (by rw [hM]; intro hc; omega) (by rw [hM]; omega) with ⟨hi1, hinf⟩ | ⟨m'', e'', hd, hle, hval⟩
    · left; exact ⟨hi1, by push_cast; omega⟩
    · right
      rw [hM] at hval
      have hb := decode_fin_bounds f _ n m'' e'' hd
      refine ⟨m'', e'', rpExp f m e, hd, ?_, hb.2, h, hle, ?_⟩
      · by_cases hc : emin f < e''
        · exact decode_fin_normal f _ n m'' e'' hd hc
        · have : (e'' - rpExp f m e).toNat = 0 := by omega
          rw [this, Nat.pow_zero, Nat.mul_one] at hval
          rw [hval]; exact hnorm
      · rw [hval]; simp
  · have h' : e < rpExp f m e := by omega
    obtain ⟨hM, hk, hq, hgrid⟩ := rp_case_round f m e hm h'
    have hcases := rneShift_cases m _ hk
    have hnorm : 2 ^ f.mbits ≤ m / 2 ^ (rpExp f m e - e).toNat := by
      rw [Nat.le_div_iff_mul_le (Nat.two_pow_pos _), ← Nat.pow_add]
      have : f.mbits + (rpExp f m e - e).toNat = Nat.log2 m := by omega
      rw [this]; exact hL1
    rcases rp_decode f n m e hm hf
        (by rw [hM]; intro hlt; rcases hcases with ⟨_, c⟩ | ⟨_, c⟩ <;> omega)
        (by rw [hM]; rcases hcases with ⟨_, c⟩ | ⟨_, c⟩ <;> omega) with ⟨hi1, hinf⟩ | ⟨m'', e'', hd, hle, hval⟩
    · left; exact ⟨hi1, by push_cast; omega⟩
    · right
      rw [hM] at hval
      have hb := decode_fin_bounds f _ n m'' e'' hd
      have herr := rneShift_err m _ hk
      refine ⟨m'', e'', e, hd, ?_, hb.2, Int.le_refl _, by omega, ?_⟩
      · by_cases hc : emin f < e''
        · exact decode_fin_normal f _ n m'' e'' hd hc
        · have : (e'' - rpExp f m e).toNat = 0 := by omega
          rw [this, Nat.pow_zero, Nat.mul_one] at hval
          rw [hval]; rcases hcases with ⟨_, c⟩ | ⟨_, c⟩ <;> omega
      · have a1 : (e'' - e).toNat = (e'' - rpExp f m e).toNat + (rpExp f m e - e).toNat := by omega
        have a2 : (e - e).toNat = 0 := by omega
        rw [a1, Nat.pow_add, ← Nat.mul_assoc, hval, a2, Nat.pow_zero, Nat.mul_one]
        -- 2^(k-1) * 2^(mbits+1) = 2^(mbits+k) ≤ m
        have hmk : 2 ^ (f.mbits + (rpExp f m e - e).toNat) ≤ m := by
          have : f.mbits + (rpExp f m e - e).toNat = Nat.log2 m := by omega
          rw [this]; exact hL1
        generalize (rpExp f m e - e).toNat = k at *
        have hp : 2 ^ (k - 1) * 2 ^ (f.mbits + 1) = 2 ^ (f.mbits + k) := by
          rw [← Nat.pow_add]; congr 1; omega
        calc _ ≤ 2 ^ (k - 1) * 2 ^ (f.mbits + 1) := Nat.mul_le_mul_right _ herr
          _ = 2 ^ (f.mbits + k) := hp
          _ ≤ m := hmk
/-- ONE ROUNDING. If the exact value `m·2^e` lies in the normal range of the format
    (`2^(emin+mbits) ≤ 2^(e+len-1)` below, `2^(e+len) ≤ 2^(emax-bias-1)` above, `len` = bit length of `m`), then
    `roundPos` returns a finite NORMAL datum `m''·2^e''` of the requested sign with
    `|m''·2^e'' − m·2^e| ≤ 2^-(mbits+1) · m·2^e`  (both sides scaled by `2^-E`, `E` a common lower exponent). -/
theorem roundPos_rel (f : Fmt) (n : Bool) (m : Nat) (e : Int) (hm : m ≠ 0) (hf : 0 < f.emax)
    (hlo : emin f + f.mbits + 1 ≤ e + ((Nat.log2 m + 1 : Nat) : Int))
    (hhi : e + ((Nat.log2 m + 1 : Nat) : Int) + f.bias < f.emax) :
    ∃ (m'' : Nat) (e'' E : Int), decode f (roundPos f n m e) = .fin n m'' e'' ∧
      2 ^ f.mbits ≤ m'' ∧ m'' < 2 ^ (f.mbits + 1) ∧ E ≤ e ∧ E ≤ e'' ∧
      (((m'' * 2 ^ (e'' - E).toNat : Nat) : Int) - ((m * 2 ^ (e - E).toNat : Nat) : Int)).natAbs * 2 ^ (f.mbits + 1)
        ≤ m * 2 ^ (e - E).toNat := by
  rcases roundPos_rel_or_inf f n m e hm hf hlo with ⟨_, h⟩ | h
  · exfalso; omega
  · exact h

/-- `inf × finite non-zero = inf`, sign = xor -/
theorem mul_inf_fin (f : Fmt) (a b : Nat) (n1 n2 : Bool) (m : Nat) (e : Int)
    (ha : decode f a = .inf n1) (hb : decode f b = .fin n2 m e) (hm : m ≠ 0) :
    decode f (SF.mul f a b) = .inf (n1 != n2) := by
  unfold SF.mul; rw [ha, hb]; simp only [if_neg hm]; exact decode_inf f _
end SF
