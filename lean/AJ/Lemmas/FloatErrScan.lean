/- C12 (floating-point clauses), part 3: the decimal scan of `parseNumber` truncates the digit string to a mantissa
   `mant ≤ 2^52-1` with a decimal exponent such that `mant·10^p ≤ N < (mant+1)·10^p` (`N` the value of ALL digits),
   and digits are only dropped once `mant ≥ (2^52-1)/10`. Core Lean only. -/
import AJ.Lemmas.NumLit
namespace JD
open SF Digits Spec.Json

/-- the scan invariant: `m` is `N` with its last `p` decimal digits dropped (truncation), and digits were dropped only
    from a mantissa that had already reached `mmax/10` -/
def Scan (mmax N m p : Nat) : Prop := m * 10 ^ p ≤ N ∧ N < (m + 1) * 10 ^ p ∧ (p = 0 ∨ mmax / 10 ≤ m)

theorem Scan.exact {mmax N m : Nat} (h : Scan mmax N m 0) : m = N := by
  obtain ⟨h1, h2, _⟩ := h; simp at h1 h2; omega

theorem digit_toNat {c : Byte} (hc : 0x30 ≤ c ∧ c ≤ 0x39) : 48 ≤ c.toNat ∧ c.toNat ≤ 57 :=
  ⟨UInt8.le_iff_toNat_le.mp hc.1, UInt8.le_iff_toNat_le.mp hc.2⟩

/-- leading digits: the loop consumes a prefix exactly; if it stops early the accumulator is at least `(2^64-1)/10` -/
theorem takeDigitsMant_scan {tail : List Byte} (ht : Stop tail) (ds : List Byte) (hd : AllDigits ds) :
    ∀ acc, acc < 2 ^ 64 → ∃ ds1 ds2, ds = ds1 ++ ds2 ∧
      takeDigitsMant (2 ^ 64 - 1) acc (ds ++ tail) = (decValAux acc ds1, ds2 ++ tail) ∧
      decValAux acc ds1 < 2 ^ 64 ∧ (ds2 ≠ [] → (2 ^ 64 - 1) / 10 ≤ decValAux acc ds1) := by
  induction ds with
  | nil =>
    intro acc ha
    refine ⟨[], [], rfl, ?_, by rw [decValAux_nil]; exact ha, fun h => absurd rfl h⟩
    rw [decValAux_nil]
    cases tail with
    | nil => rfl
    | cons c r => simp only [List.nil_append, takeDigitsMant, ht c r rfl, Bool.false_eq_true, ↓reduceIte]
  | cons d ds ih =>
    intro acc ha
    rw [AllDigits_cons] at hd
    have hn := digit_toNat hd.1
    simp only [List.cons_append, takeDigitsMant, isDigit_of_range hd.1, ↓reduceIte]
    by_cases g1 : acc > (2 ^ 64 - 1) / 10
    · rw [if_pos g1]
      exact ⟨[], d :: ds, rfl, by rw [decValAux_nil]; rfl, by rw [decValAux_nil]; exact ha,
        fun _ => by rw [decValAux_nil]; omega⟩
    · rw [if_neg g1]
      by_cases g2 : acc * 10 > 2 ^ 64 - 1 - digitVal d
      · rw [if_pos g2]
        refine ⟨[], d :: ds, rfl, by rw [decValAux_nil]; rfl, by rw [decValAux_nil]; exact ha, fun _ => ?_⟩
        rw [decValAux_nil]; rw [digitVal_eq] at g2; omega
      · rw [if_neg g2]
        rw [digitVal_eq] at g2 ⊢
        obtain ⟨ds1, ds2, e, h1, h2, h3⟩ := ih hd.2 (acc * 10 + (d.toNat - 48)) (by omega)
        refine ⟨d :: ds1, ds2, by rw [e]; rfl, ?_, ?_, ?_⟩
        · rw [decValAux_cons]; exact h1
        · rw [decValAux_cons]; exact h2
        · rw [decValAux_cons]; exact h3

/-- `reduceMant`: divide by ten until the mantissa fits; truncation bracket -/
theorem reduceMant_scan (mmax : Nat) : ∀ (fuel m : Nat) (off : Int), m < (mmax + 1) * 10 ^ fuel →
    ∃ m' k, reduceMant mmax fuel m off = (m', off + (k : Nat)) ∧ m' ≤ mmax ∧
      m' * 10 ^ k ≤ m ∧ m < (m' + 1) * 10 ^ k ∧ ((k = 0 ∧ m' = m) ∨ mmax / 10 ≤ m') := by
  intro fuel
  induction fuel with
  | zero =>
    intro m off h
    exact ⟨m, 0, by simp [reduceMant], by simp at h; omega, by simp, by simp, Or.inl ⟨rfl, rfl⟩⟩
  | succ n ih =>
    intro m off h
    simp only [reduceMant]
    by_cases g : m > mmax
    · rw [if_pos g]
      have h' : m / 10 < (mmax + 1) * 10 ^ n := by
        rw [Nat.pow_succ, ← Nat.mul_assoc] at h
        omega
      obtain ⟨m', k, e, b0, b1, b2, b3⟩ := ih (m / 10) (off + 1) h'
      refine ⟨m', k + 1, ?_, b0, ?_, ?_, ?_⟩
      · rw [e]; congr 1; push_cast; omega
      · rw [Nat.pow_succ, ← Nat.mul_assoc]; omega
      · rw [Nat.pow_succ, ← Nat.mul_assoc]; omega
      · right
        rcases b3 with ⟨_, b3⟩ | b3
        · rw [b3]; omega
        · exact b3
    · rw [if_neg g]
      exact ⟨m, 0, by simp, by omega, by simp, by simp, Or.inl ⟨rfl, rfl⟩⟩

theorem skipDigitsCount_scan {tail : List Byte} (ht : Stop tail) (ds : List Byte) (hd : AllDigits ds) :
    ∀ off, skipDigitsCount (ds ++ tail) off = (tail, off + (ds.length : Nat)) := by
  induction ds with
  | nil =>
    intro off
    cases tail with
    | nil => simp [skipDigitsCount]
    | cons c r => simp only [List.nil_append, skipDigitsCount, ht c r rfl, Bool.false_eq_true, ↓reduceIte]; simp
  | cons d ds ih =>
    intro off
    rw [AllDigits_cons] at hd
    simp only [List.cons_append, skipDigitsCount, isDigit_of_range hd.1, ↓reduceIte]
    rw [ih hd.2]; congr 1; simp only [List.length_cons]; push_cast; omega

theorem decValAux_lt (a : Nat) (ds : List Byte) (hd : AllDigits ds) :
    decValAux a ds < (a + 1) * 10 ^ ds.length ∧ a * 10 ^ ds.length ≤ decValAux a ds := by
  induction ds generalizing a with
  | nil => simp [decValAux_nil]
  | cons d ds ih =>
    rw [AllDigits_cons] at hd
    have hn := digit_toNat hd.1
    rw [decValAux_cons, List.length_cons, Nat.pow_succ]
    obtain ⟨i1, i2⟩ := ih (a * 10 + (d.toNat - 48)) hd.2
    have e1 : (a + 1) * (10 ^ ds.length * 10) = (a * 10 + 10) * 10 ^ ds.length := by grind
    have e2 : a * (10 ^ ds.length * 10) = (a * 10) * 10 ^ ds.length := by grind
    rw [e1, e2]
    constructor
    · exact Nat.lt_of_lt_of_le i1 (Nat.mul_le_mul_right _ (by omega))
    · exact Nat.le_trans (Nat.mul_le_mul_right _ (by omega)) i2

/-- skipped integer digits keep the invariant -/
theorem Scan.skip {mmax N m p : Nat} (h : Scan mmax N m p) (ds : List Byte)
    (hd : AllDigits ds) (hne : ds = [] ∨ mmax / 10 ≤ m) : Scan mmax (decValAux N ds) m (p + ds.length) := by
  obtain ⟨h1, h2, h3⟩ := h
  obtain ⟨i1, i2⟩ := decValAux_lt N ds hd
  refine ⟨?_, ?_, ?_⟩
  · rw [Nat.pow_add, ← Nat.mul_assoc]
    exact Nat.le_trans (Nat.mul_le_mul_right _ h1) i2
  · rw [Nat.pow_add, ← Nat.mul_assoc]
    exact Nat.lt_of_lt_of_le i1 (Nat.mul_le_mul_right _ h2)
  · rcases hne with rfl | h
    · simpa using h3
    · exact Or.inr h

/-- fraction digits: appended while the mantissa is below `mmax/10` (then the scan is still exact), dropped afterwards -/
theorem fracDigits_scan (mmax : Nat) {tail : List Byte} (ht : Stop tail) (ds : List Byte) (hd : AllDigits ds) :
    ∀ (N m p : Nat) (off : Int), Scan mmax N m p → m ≤ mmax → 10 ≤ mmax →
      ∃ m' p', fracDigits mmax (ds ++ tail) m off = (tail, m', off - (ds.length : Nat) + (p' : Nat) - (p : Nat)) ∧
        Scan mmax (decValAux N ds) m' p' ∧ m' ≤ mmax := by
  induction ds with
  | nil =>
    intro N m p off hs hm _
    refine ⟨m, p, ?_, by rw [decValAux_nil]; exact hs, hm⟩
    have : off - ((([] : List Byte).length : Nat) : Int) + (p : Int) - (p : Int) = off := by simp
    rw [this]
    cases tail with
    | nil => rfl
    | cons c r => simp only [List.nil_append, fracDigits, ht c r rfl, Bool.false_eq_true, ↓reduceIte]
  | cons d ds ih =>
    intro N m p off hs hm h10
    rw [AllDigits_cons] at hd
    have hn := digit_toNat hd.1
    simp only [List.cons_append, fracDigits, isDigit_of_range hd.1, ↓reduceIte]
    rw [decValAux_cons]
    by_cases g : m < mmax / 10
    · rw [if_pos g, digitVal_eq]
      obtain ⟨h1, h2, h3⟩ := hs
      have hp : p = 0 := by rcases h3 with h | h; exact h; omega
      subst hp
      have hmN : m = N := Scan.exact ⟨h1, h2, h3⟩
      subst hmN
      obtain ⟨m', p', e, s', b⟩ := ih hd.2 (m * 10 + (d.toNat - 48)) (m * 10 + (d.toNat - 48)) 0 (off - 1)
        ⟨by simp, by simp, Or.inl rfl⟩ (by omega) h10
      refine ⟨m', p', ?_, s', b⟩
      rw [e]; congr 2; simp only [List.length_cons]; push_cast; omega
    · rw [if_neg g]
      obtain ⟨h1, h2, h3⟩ := hs
      obtain ⟨m', p', e, s', b⟩ := ih hd.2 (N * 10 + (d.toNat - 48)) m (p + 1) off
        ⟨by rw [Nat.pow_succ, ← Nat.mul_assoc]; omega, by rw [Nat.pow_succ, ← Nat.mul_assoc]; omega, Or.inr (by omega)⟩ hm h10
      refine ⟨m', p', ?_, s', b⟩
      rw [e]; congr 2; simp only [List.length_cons]; push_cast; omega

theorem decValAux_mono (ds : List Byte) {a b : Nat} (h : a ≤ b) : decValAux a ds ≤ decValAux b ds := by
  induction ds generalizing a b with
  | nil => simpa [decValAux_nil] using h
  | cons d ds ih => rw [decValAux_cons, decValAux_cons]; exact ih (by omega)

/-- exponent digits below the saturation threshold are read exactly -/
theorem expDigits_exact (ds : List Byte) (hd : AllDigits ds) : ∀ acc, decValAux acc ds < 100000 →
    expDigits ds acc = ([], decValAux acc ds) := by
  induction ds with
  | nil => intro acc _; rfl
  | cons d ds ih =>
    intro acc h
    rw [AllDigits_cons] at hd
    rw [decValAux_cons] at h ⊢
    have := le_decValAux (acc * 10 + (d.toNat - 48)) ds
    simp only [expDigits, isDigit_of_range hd.1, ↓reduceIte]
    rw [if_pos (by omega), digitVal_eq]
    exact ih hd.2 _ h

/-- saturation: once `100000` is reached the accumulator is frozen; the result never exceeds the true value and
    is at least `100000` whenever the true value is -/
theorem expDigits_sat (ds : List Byte) (hd : AllDigits ds) : ∀ acc, ∃ e', expDigits ds acc = ([], e') ∧
    e' ≤ decValAux acc ds ∧ (100000 ≤ decValAux acc ds → 100000 ≤ e') := by
  induction ds with
  | nil => intro acc; exact ⟨acc, rfl, by rw [decValAux_nil]; omega, by rw [decValAux_nil]; exact id⟩
  | cons d ds ih =>
    intro acc
    rw [AllDigits_cons] at hd
    rw [decValAux_cons]
    simp only [expDigits, isDigit_of_range hd.1, ↓reduceIte]
    by_cases g : acc < 100000
    · rw [if_pos g, digitVal_eq]; exact ih hd.2 _
    · rw [if_neg g]
      obtain ⟨e', h1, h2, h3⟩ := ih hd.2 acc
      have hmono : decValAux acc ds ≤ decValAux (acc * 10 + (d.toNat - 48)) ds := decValAux_mono ds (by omega)
      have hge := le_decValAux acc ds
      exact ⟨e', h1, by omega, fun _ => by omega⟩
/-! ## the stages of `parseNumber` on the parts of a literal, with exact bookkeeping -/

/-- exact value of an exponent part `[eE][+-]?digits` (`0` for the empty part) -/
def expVal : List Byte → Int
  | [] => 0
  | _ :: 0x2D :: ds => -(Digits.decVal ds : Int)
  | _ :: 0x2B :: ds => (Digits.decVal ds : Int)
  | _ :: ds => (Digits.decVal ds : Int)

theorem expVal_nosign (c d : Byte) (r : List Byte) (hd : 0x30 ≤ d ∧ d ≤ 0x39) :
    expVal (c :: d :: r) = (Digits.decVal (d :: r) : Int) := by
  have n1 : d ≠ 0x2D := by rintro rfl; exact absurd hd (by decide)
  have n2 : d ≠ 0x2B := by rintro rfl; exact absurd hd (by decide)
  unfold expVal
  split
  · rename_i h; cases h
  · rename_i h; exact absurd (List.cons.inj (List.cons.inj h).2).1 n1
  · rename_i h; exact absurd (List.cons.inj (List.cons.inj h).2).1 n2
  · rename_i heq; cases heq; rfl

/-- relation between the written exponent `X` and the exponent `X'` the model uses: equal below the saturation
    threshold, otherwise frozen somewhere between `±100000` and `X` -/
def ExpRel (X X' : Int) : Prop :=
  (X.natAbs < 100000 → X' = X) ∧ (100000 ≤ X → 100000 ≤ X' ∧ X' ≤ X) ∧ (X ≤ -100000 → X ≤ X' ∧ X' ≤ -100000)

theorem expDigits_rel (ds : List Byte) (hd : AllDigits ds) :
    ∃ e' : Nat, expDigits ds 0 = ([], e') ∧ ExpRel (Digits.decVal ds : Int) (e' : Int) ∧ ExpRel (-(Digits.decVal ds : Int)) (-(e' : Int)) := by
  obtain ⟨e', h1, h2, h3⟩ := expDigits_sat ds hd 0
  have hex : Digits.decVal ds < 100000 → e' = Digits.decVal ds := by
    intro hlt
    have := expDigits_exact ds hd 0 hlt
    rw [h1] at this
    exact (Prod.mk.inj this).2
  have h2' : e' ≤ Digits.decVal ds := h2
  have h3' : 100000 ≤ Digits.decVal ds → 100000 ≤ e' := h3
  refine ⟨e', h1, ⟨?_, ?_, ?_⟩, ⟨?_, ?_, ?_⟩⟩
  · intro h; have := hex (by omega); omega
  · intro h; have := h3' (by omega); omega
  · intro h; omega
  · intro h; have := hex (by omega); omega
  · intro h; omega
  · intro h; have := h3' (by omega); omega

theorem stage3_scan (neg : Bool) (mant : Nat) (off : Int) {e : List Byte} (h : ExpPart e) :
    ∃ X' : Int, ExpRel (expVal e) X' ∧ stage3 neg e mant off = finish neg [] mant (X' + off) := by
  rcases h with rfl | ⟨c, sg, ds, hc, hsg, hds, rfl⟩
  · exact ⟨0, ⟨fun _ => rfl, fun h => by simp [expVal] at h, fun h => by simp [expVal] at h⟩, rfl⟩
  · have hc' : (c == 0x65 || c == 0x45) = true := by rcases hc with rfl | rfl <;> decide
    obtain ⟨d, r, rfl, hd⟩ := digits1_head hds
    obtain ⟨e', he', hr1, hr2⟩ := expDigits_rel (d :: r) hds.2
    rcases hsg with rfl | rfl | rfl
    · have n1 : d ≠ 0x2D := by rintro rfl; exact absurd hd (by decide)
      have n2 : d ≠ 0x2B := by rintro rfl; exact absurd hd (by decide)
      refine ⟨(e' : Int), by rw [List.nil_append, expVal_nosign c d r hd]; exact hr1, ?_⟩
      simp only [stage3, List.nil_append, hc', ↓reduceIte]
      split
      · rename_i r' h; exact absurd (List.cons.inj h).1 n1
      · rename_i r' h; exact absurd (List.cons.inj h).1 n2
      · simp only [he', Bool.false_eq_true, ↓reduceIte]
    · have hv : expVal (c :: ([0x2B] ++ d :: r)) = (Digits.decVal (d :: r) : Int) := rfl
      refine ⟨(e' : Int), by rw [hv]; exact hr1, ?_⟩
      simp only [stage3, List.cons_append, List.nil_append, hc', ↓reduceIte, he', Bool.false_eq_true]
    · have hv : expVal (c :: ([0x2D] ++ d :: r)) = -(Digits.decVal (d :: r) : Int) := rfl
      refine ⟨-(e' : Int), by rw [hv]; exact hr2, ?_⟩
      simp only [stage3, List.cons_append, List.nil_append, hc', ↓reduceIte, he']

theorem stage2_scan (neg : Bool) (N mant p : Nat) (off : Int) {f e : List Byte} (hf : FracPart f) (he : ExpPart e)
    (hs : Scan Gen.mantissa_max64 N mant p) (hm : mant ≤ Gen.mantissa_max64) :
    ∃ (X' : Int) (m' p' : Nat), ExpRel (expVal e) X' ∧ stage2 neg (f ++ e) mant off =
        finish neg [] m' (X' + (off - (f.tail.length : Nat) + (p' : Nat) - (p : Nat))) ∧
      Scan Gen.mantissa_max64 (decValAux N f.tail) m' p' ∧ m' ≤ Gen.mantissa_max64 := by
  rcases hf with rfl | ⟨ds, hds, rfl⟩
  · obtain ⟨X', hX, h3⟩ := stage3_scan neg mant off he
    refine ⟨X', mant, p, hX, ?_, by simpa [decValAux_nil] using hs, hm⟩
    have : off - ((([] : List Byte).tail.length : Nat) : Int) + (p : Int) - (p : Int) = off := by simp
    rw [this, ← h3, List.nil_append]
    unfold stage2
    split
    rename_i heq
    split at heq
    · exact (expPart_not_dot he).elim
    · cases heq; rfl
  · obtain ⟨m', p', hF, s', b⟩ := fracDigits_scan Gen.mantissa_max64 (expPart_stop he) ds hds.2 N mant p off hs hm (by decide)
    obtain ⟨X', hX, h3⟩ := stage3_scan neg m' (off - (ds.length : Nat) + (p' : Nat) - (p : Nat)) he
    refine ⟨X', m', p', hX, ?_, s', b⟩
    rw [List.tail_cons, ← h3]
    simp only [stage2, List.cons_append, hF]

theorem stage1_scan (neg : Bool) (m0 : Nat) {ds' f e : List Byte} (hd : AllDigits ds') (hf : FracPart f) (he : ExpPart e)
    (hm0 : m0 < 2 ^ 64) (hstop : ds' ≠ [] → (2 ^ 64 - 1) / 10 ≤ m0) :
    (ds' = [] ∧ f = [] ∧ e = [] ∧ (stage1 neg m0 (ds' ++ (f ++ e)) = .uint m0 ∨ stage1 neg m0 (ds' ++ (f ++ e)) = .sint (-(m0 : Int)))) ∨
    ∃ (X' : Int) (mant p : Nat), ExpRel (expVal e) X' ∧
      stage1 neg m0 (ds' ++ (f ++ e)) = finish neg [] mant (X' - (f.tail.length : Nat) + (p : Nat)) ∧
      Scan Gen.mantissa_max64 (decValAux (decValAux m0 ds') f.tail) mant p ∧ mant ≤ Gen.mantissa_max64 := by
  have hmm : Gen.mantissa_max64 = 4503599627370495 := rfl
  have float_path : ∃ (X' : Int) (mant p : Nat), ExpRel (expVal e) X' ∧
      (let (mant, off) := reduceMant Gen.mantissa_max64 32 m0 0
       let (s, off) := skipDigitsCount (ds' ++ (f ++ e)) off
       stage2 neg s mant off) = finish neg [] mant (X' - (f.tail.length : Nat) + (p : Nat)) ∧
      Scan Gen.mantissa_max64 (decValAux (decValAux m0 ds') f.tail) mant p ∧ mant ≤ Gen.mantissa_max64 := by
    obtain ⟨m1, k, hR, b0, b1, b2, b3⟩ := reduceMant_scan Gen.mantissa_max64 32 m0 0 (by rw [hmm]; omega)
    rw [hR]
    simp only
    rw [skipDigitsCount_scan (tail_stop hf he) ds' hd]
    simp only
    have hs1 : Scan Gen.mantissa_max64 m0 m1 k := ⟨b1, b2, by rcases b3 with ⟨h, _⟩ | h; exact Or.inl h; exact Or.inr h⟩
    have hs2 : Scan Gen.mantissa_max64 (decValAux m0 ds') m1 (k + ds'.length) := by
      apply hs1.skip ds' hd
      by_cases hne : ds' = []
      · exact Or.inl hne
      · right
        have := hstop hne
        rcases b3 with ⟨_, h⟩ | h
        · rw [hmm] at b0; omega
        · exact h
    obtain ⟨X', m', p', hX, h2, s', b⟩ := stage2_scan neg _ m1 (k + ds'.length) (0 + (k : Nat) + (ds'.length : Nat)) hf he hs2 b0
    refine ⟨X', m', p', hX, ?_, s', b⟩
    rw [h2]; congr 1; push_cast; omega
  unfold stage1
  by_cases h1 : ((ds' ++ (f ++ e)).isEmpty && !neg) = true
  · rw [if_pos h1]
    left
    simp only [Bool.and_eq_true, List.isEmpty_iff, List.append_eq_nil_iff] at h1
    exact ⟨h1.1.1, h1.1.2.1, h1.1.2.2, Or.inl rfl⟩
  · rw [if_neg h1]
    by_cases h2 : ((ds' ++ (f ++ e)).isEmpty && neg && decide (m0 ≤ 2 ^ 63)) = true
    · rw [if_pos h2]
      left
      simp only [Bool.and_eq_true, List.isEmpty_iff, List.append_eq_nil_iff] at h2
      exact ⟨h2.1.1.1, h2.1.1.2.1, h2.1.1.2.2, Or.inr rfl⟩
    · rw [if_neg h2]
      right
      exact float_path

/-- THE SCAN. For a literal `sg ip f e` (sign, integer digits, fraction part, exponent part), `parseNumber` either returns the
    exact integer (no fraction, no exponent), or continues as `finish neg [] mant (X' − |fd| + p)` where `X'` is the written
    exponent `X` (frozen near `±100000` when `|X| ≥ 100000`: `ExpRel`), `fd` the fraction digits, and `mant` is the
    number `N` formed by ALL digits `ip ++ fd` with its last `p` digits truncated: `mant·10^p ≤ N < (mant+1)·10^p`,
    `mant ≤ 2^52−1`, and `p = 0` (nothing dropped) or `mant ≥ (2^52−1)/10`. -/
theorem parse_scan_gen (cfg : Cfg) (neg : Bool) {ip f e : List Byte} (hip : AllDigits ip) (hne : ip ≠ [])
    (hf : FracPart f) (he : ExpPart e) :
    let lit := (if neg then [0x2D] else []) ++ ip ++ f ++ e
    let N := Digits.decVal (ip ++ f.tail)
    (f = [] ∧ e = [] ∧ (parseNumber cfg lit = .uint N ∨ parseNumber cfg lit = .sint (-(N : Int)))) ∨
    ∃ (X' : Int) (mant p : Nat), ExpRel (expVal e) X' ∧
      parseNumber cfg lit = finish neg [] mant (X' - (f.tail.length : Nat) + (p : Nat)) ∧
      Scan Gen.mantissa_max64 N mant p ∧ mant ≤ Gen.mantissa_max64 := by
  intro lit N
  obtain ⟨d, ipr, rfl⟩ : ∃ d ipr, ip = d :: ipr := by
    cases ip with
    | nil => exact absurd rfl hne
    | cons d r => exact ⟨d, r, rfl⟩
  have hc := (AllDigits_cons.mp hip).1
  obtain ⟨ds1, ds2, hsplit, hT, hlt, hstop⟩ := takeDigitsMant_scan (tail_stop hf he) (d :: ipr) hip 0 (by decide)
  have hcore : parseNumber cfg lit = stage1 neg (decValAux 0 ds1) (ds2 ++ (f ++ e)) := by
    have hcore' : core cfg neg ((d :: ipr) ++ (f ++ e)) = stage1 neg (decValAux 0 ds1) (ds2 ++ (f ++ e)) := by
      unfold core
      simp only [List.cons_append, List.headD_cons,
        digit_ne hc 110 (by decide), digit_ne hc 78 (by decide), digit_ne hc 105 (by decide), digit_ne hc 73 (by decide),
        isDigit_of_range hc, Bool.or_self, Bool.and_false, Bool.false_eq_true, ↓reduceIte, Bool.not_true, Bool.false_and]
      rw [List.cons_append] at hT
      rw [hT]
    rw [← hcore']
    cases neg
    · have n1 : d ≠ 0x2D := by rintro rfl; exact absurd hc (by decide)
      have n2 : d ≠ 0x2B := by rintro rfl; exact absurd hc (by decide)
      have e1 : lit = d :: (ipr ++ (f ++ e)) := by simp [lit]
      rw [e1, parseNumber_digit cfg d _ n1 n2]; rfl
    · have e1 : lit = 0x2D :: ((d :: ipr) ++ (f ++ e)) := by simp [lit]
      rw [e1, parseNumber_minus]
  have hN : N = decValAux (decValAux (decValAux 0 ds1) ds2) f.tail := by
    show Digits.decVal (d :: ipr ++ f.tail) = _
    rw [hsplit]; unfold Digits.decVal; rw [decValAux_append, decValAux_append]
  have hds2 : AllDigits ds2 := by rw [hsplit] at hip; exact (AllDigits_append.mp hip).2
  rw [hcore]
  rcases stage1_scan neg (decValAux 0 ds1) hds2 hf he hlt hstop with ⟨h1, h2, h3, h4⟩ | ⟨X', mant, p, hX, h1, h2, h3⟩
  · left
    refine ⟨h2, h3, ?_⟩
    have : N = decValAux 0 ds1 := by rw [hN, h1, h2]; simp [decValAux_nil]
    rw [this]; exact h4
  · right
    exact ⟨X', mant, p, hX, h1, by rw [hN]; exact h2, h3⟩

/-- `parse_scan_gen` for an exponent below the saturation threshold: the model uses the written exponent -/
theorem parse_scan (cfg : Cfg) (neg : Bool) {ip f e : List Byte} (hip : AllDigits ip) (hne : ip ≠ [])
    (hf : FracPart f) (he : ExpPart e) (hx : (expVal e).natAbs < 100000) :
    let lit := (if neg then [0x2D] else []) ++ ip ++ f ++ e
    let N := Digits.decVal (ip ++ f.tail)
    (f = [] ∧ e = [] ∧ (parseNumber cfg lit = .uint N ∨ parseNumber cfg lit = .sint (-(N : Int)))) ∨
    ∃ mant p, parseNumber cfg lit = finish neg [] mant (expVal e - (f.tail.length : Nat) + (p : Nat)) ∧
      Scan Gen.mantissa_max64 N mant p ∧ mant ≤ Gen.mantissa_max64 := by
  intro lit N
  rcases parse_scan_gen cfg neg hip hne hf he with h | ⟨X', mant, p, hX, h1, h2, h3⟩
  · exact Or.inl h
  · right
    have : X' = expVal e := hX.1 hx
    subst this
    exact ⟨mant, p, h1, h2, h3⟩
end JD
