/- C12 (floating-point clauses), part 1: the generated powers-of-ten tables are correctly rounded.
   Everything about the tables is checked by `decide +kernel` on the GENERATED lists (`AJ/Gen/Tables.lean`),
   so it is re-checked whenever the tables change. Core Lean only. -/
import AJ.Model.JD
import AJ.Lemmas.ConvLemmas
namespace C12
open SF

/-- `bits` is a positive NORMAL datum `m·2^e` of format `f` (`2^mbits ≤ m < 2^(mbits+1)`) and, for the exact
    rational `q = num/den`:  `|m·2^e − q| ≤ 2^e/2` (half a unit in the last place: nothing representable in
    that binade is closer) and `|m·2^e − q| ≤ 2^-(mbits+1)·q` (relative form).
    All comparisons are cross-multiplied by `den·2^max(0,-e)` so that they are comparisons of naturals. -/
def entryOK (f : Fmt) (bits num den : Nat) : Bool :=
  match decode f bits with
  | .fin false m e =>
    let a : Int := (m * den * 2 ^ e.toNat : Nat)
    let b : Int := (num * 2 ^ (-e).toNat : Nat)
    decide (2 ^ f.mbits ≤ m ∧ m < 2 ^ (f.mbits + 1) ∧
      (a - b).natAbs * 2 ≤ den * 2 ^ e.toNat ∧ (a - b).natAbs * 2 ^ (f.mbits + 1) ≤ num * 2 ^ (-e).toNat)
  | _ => false

/-- the entry is not the lowest datum of its binade (then "within half an ulp" means "a nearest datum of the
    whole format", because both neighbours are one ulp away) -/
def interiorOK (f : Fmt) (bits : Nat) : Bool :=
  match decode f bits with
  | .fin _ m _ => decide (2 ^ f.mbits < m)
  | _ => false

theorem entryOK_spec {f : Fmt} {bits num den : Nat} (h : entryOK f bits num den = true) :
    ∃ (m : Nat) (e : Int), decode f bits = .fin false m e ∧ 2 ^ f.mbits ≤ m ∧ m < 2 ^ (f.mbits + 1) ∧
      (((m * den * 2 ^ e.toNat : Nat) : Int) - ((num * 2 ^ (-e).toNat : Nat) : Int)).natAbs * 2 ≤ den * 2 ^ e.toNat ∧
      (((m * den * 2 ^ e.toNat : Nat) : Int) - ((num * 2 ^ (-e).toNat : Nat) : Int)).natAbs * 2 ^ (f.mbits + 1)
        ≤ num * 2 ^ (-e).toNat := by
  unfold entryOK at h
  split at h
  · rename_i m e heq
    exact ⟨m, e, heq, by simpa using h⟩
  · cases h

/-- binary64 tables, 9 entries each: `pos64[i]` is the correctly rounded `10^(2^i)` (it IS what the softfloat's
    round-to-nearest-even conversion returns), within half an ulp and within `2^-53` relatively;
    `neg64[i]` is within half an ulp of `10^(-2^i)`, interior to its binade, and within `2^-53` relatively. -/
theorem tables64_ok :
    Gen.pos64.length = 9 ∧ Gen.neg64.length = 9 ∧
    ∀ i, i < 9 →
      ofNat b64 (10 ^ 2 ^ i) = Gen.pos64.getD i 0 ∧
      entryOK b64 (Gen.pos64.getD i 0) (10 ^ 2 ^ i) 1 = true ∧
      entryOK b64 (Gen.neg64.getD i 0) 1 (10 ^ 2 ^ i) = true ∧
      interiorOK b64 (Gen.neg64.getD i 0) = true := by decide +kernel

/-- binary32 tables, 6 entries each (same statement with `2^-24`) -/
theorem tables32_ok :
    Gen.pos32.length = 6 ∧ Gen.neg32.length = 6 ∧
    ∀ i, i < 6 →
      ofNat b32 (10 ^ 2 ^ i) = Gen.pos32.getD i 0 ∧
      entryOK b32 (Gen.pos32.getD i 0) (10 ^ 2 ^ i) 1 = true ∧
      entryOK b32 (Gen.neg32.getD i 0) 1 (10 ^ 2 ^ i) = true ∧
      interiorOK b32 (Gen.neg32.getD i 0) = true := by decide +kernel

end C12
