/- C12 (floating-point clauses): the exact rational value of a literal and the truncation error of the scan over ℚ. -/
import AJ.Lemmas.FloatErrFinish
namespace C12
open SF JD Digits

/-- `|v|` for the literal with integer digits `ip`, fraction part `f` (`[]` or `'.' :: digits`) and exponent part `e`:
    `N·10^(X − |fd|)`, `N` the number written by all digits, `X` the written exponent -/
def litAbs (ip f e : List Byte) : ℚ :=
  (Digits.decVal (ip ++ f.tail) : ℚ) * (10 : ℚ) ^ (expVal e - (f.tail.length : Int))

/-- the exact rational value of the literal -/
def litVal (neg : Bool) (ip f e : List Byte) : ℚ := (if neg then -1 else 1) * litAbs ip f e

/-- the exact rational value of a finite datum -/
def sval (n : Bool) (m : Nat) (e : Int) : ℚ := (if n then -1 else 1) * qv m e

theorem ten_zpow_pos (e : Int) : (0 : ℚ) < (10 : ℚ) ^ e := zpow_pos (by norm_num) e

theorem scan_exp (X : Int) (L p : Nat) :
    (10 : ℚ) ^ (X - (L : Int) + (p : Int)) = ((10 ^ p : Nat) : ℚ) * (10 : ℚ) ^ (X - (L : Int)) := by
  rw [zpow_add₀ (by norm_num : (10 : ℚ) ≠ 0), zpow_natCast]; push_cast; ring

/-- the scan over ℚ: truncation bracket `mant·10^E ≤ |v| < (mant+1)·10^E`, and relative error at most
    `1/450359962737049 < 2.23e-15` (zero when nothing was dropped) -/
theorem scan_q {N mant p : Nat} (hs : Scan Gen.mantissa_max64 N mant p) (S : ℚ) (hS : 0 < S) :
    (mant : ℚ) * (((10 ^ p : Nat) : ℚ) * S) ≤ (N : ℚ) * S ∧ (N : ℚ) * S < ((mant : ℚ) + 1) * (((10 ^ p : Nat) : ℚ) * S) ∧
    (0 < N → mant ≠ 0 ∧ Close (1 / 450359962737049) ((mant : ℚ) * (((10 ^ p : Nat) : ℚ) * S)) ((N : ℚ) * S)) := by
  obtain ⟨h1, h2, h3⟩ := hs
  have q1 : ((mant * 10 ^ p : Nat) : ℚ) ≤ (N : ℚ) := by exact_mod_cast h1
  have q2 : (N : ℚ) < (((mant + 1) * 10 ^ p : Nat) : ℚ) := by exact_mod_cast h2
  rw [Nat.cast_mul] at q1 q2
  rw [Nat.cast_add, Nat.cast_one] at q2
  have hP : (0 : ℚ) < ((10 ^ p : Nat) : ℚ) := by positivity
  obtain ⟨P, hPe⟩ : ∃ P : ℚ, P = ((10 ^ p : Nat) : ℚ) := ⟨_, rfl⟩
  rw [← hPe] at q1 q2 hP ⊢
  refine ⟨by nlinarith, by nlinarith, ?_⟩
  intro hN
  have hmm : Gen.mantissa_max64 / 10 = 450359962737049 := by decide
  have hm0 : mant ≠ 0 := by
    rintro rfl
    rcases h3 with rfl | h3
    · simp at h2; omega
    · rw [hmm] at h3; omega
  refine ⟨hm0, ?_⟩
  unfold Close
  have e1 : (mant : ℚ) * (P * S) - (N : ℚ) * S = -(((N : ℚ) - mant * P) * S) := by ring
  have hnn : 0 ≤ (N : ℚ) - mant * P := by linarith
  rw [e1, abs_neg, abs_of_nonneg (by positivity)]
  rcases h3 with rfl | h3
  · -- nothing dropped: exact
    simp at h1 h2
    have : mant = N := by omega
    subst this
    have hP1 : P = 1 := by simpa using hPe
    have : (mant : ℚ) - mant * P ≤ 0 := by rw [hP1]; simp
    have hNq : (0 : ℚ) < (mant : ℚ) := by exact_mod_cast hN
    have : ((mant : ℚ) - mant * P) * S ≤ 0 := by nlinarith
    have : 0 ≤ 1 / 450359962737049 * ((mant : ℚ) * S) := by positivity
    linarith
  · rw [hmm] at h3
    have hmq : (450359962737049 : ℚ) ≤ (mant : ℚ) := by exact_mod_cast h3
    -- N - mant·P < P ≤ mant·P / M0 ≤ N / M0
    have k1 : (N : ℚ) - mant * P ≤ P := by linarith
    have k2 : P * 450359962737049 ≤ (N : ℚ) := by nlinarith
    have k3 : ((N : ℚ) - mant * P) * S ≤ P * S := mul_le_mul_of_nonneg_right k1 hS.le
    have k4 : P * S * 450359962737049 ≤ (N : ℚ) * S := by nlinarith
    have : P * S ≤ 1 / 450359962737049 * ((N : ℚ) * S) := by
      rw [one_div, inv_mul_eq_div, le_div_iff₀ (by norm_num)]; exact k4
    linarith

theorem big_num_3 : (10 : ℚ) ^ (300 : Int) ≤ (2 : ℚ) ^ (1000 : Int) := by
  have : (10 ^ 300 : Nat) ≤ 2 ^ 1000 := by decide +kernel
  have h : ((10 ^ 300 : Nat) : ℚ) ≤ ((2 ^ 1000 : Nat) : ℚ) := by exact_mod_cast this
  rw [show (1000 : Int) = ((1000 : Nat) : Int) from rfl, show (300 : Int) = ((300 : Nat) : Int) from rfl,
    zpow_natCast, zpow_natCast]
  push_cast at h; exact h

theorem big_num_4 : (2 : ℚ) ^ (-1000 : Int) ≤ (10 : ℚ) ^ (-300 : Int) / 2 := by
  have : (2 * 10 ^ 300 : Nat) ≤ 2 ^ 1000 := by decide +kernel
  have h : ((2 * 10 ^ 300 : Nat) : ℚ) ≤ ((2 ^ 1000 : Nat) : ℚ) := by exact_mod_cast this
  push_cast at h
  rw [show (-300 : Int) = -((300 : Nat) : Int) from rfl, show (-1000 : Int) = -((1000 : Nat) : Int) from rfl,
    zpow_neg, zpow_neg, zpow_natCast, zpow_natCast]
  have hA : (0 : ℚ) < (10 : ℚ) ^ 300 := by positivity
  have hB : (0 : ℚ) < (2 : ℚ) ^ 1000 := by positivity
  generalize (10 : ℚ) ^ 300 = A at *
  generalize (2 : ℚ) ^ 1000 = B at *
  rw [le_div_iff₀ (by norm_num), ← one_div, ← one_div, div_mul_eq_mul_div, div_le_div_iff₀ hB hA]
  linarith

theorem big_num_5 : (2 : ℚ) ^ (1025 : Int) ≤ (10 : ℚ) ^ (309 : Int) / 2 := by
  have : (2 * 2 ^ 1025 : Nat) ≤ 10 ^ 309 := by decide +kernel
  have h : ((2 * 2 ^ 1025 : Nat) : ℚ) ≤ ((10 ^ 309 : Nat) : ℚ) := by exact_mod_cast this
  push_cast at h
  rw [show (1025 : Int) = ((1025 : Nat) : Int) from rfl, show (309 : Int) = ((309 : Nat) : Int) from rfl,
    zpow_natCast, zpow_natCast]
  generalize (10 : ℚ) ^ 309 = A at *
  generalize (2 : ℚ) ^ 1025 = B at *
  rw [le_div_iff₀ (by norm_num)]
  linarith

end C12
