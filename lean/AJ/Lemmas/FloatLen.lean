/- Length of the text of a float (`JS.writeFloat`): loop invariants of `JS.normalize` / `JS.decompose`.
   This is a copy of the last section of AJ/Lemmas/FloatText.lean (namespace `C07`) that does not depend on
   AJ/Lemmas/JsonRoundTrip.lean, so that it can be imported together with AJ/Lemmas/JsonComplete.lean / AJ/Props/C01.lean
   (JsonRoundTrip.lean and JsonComplete.lean both declare `JD.Delim`, `JD.Tok`, `JD.pv_num`, `JD.kw_null`, … and
   cannot be imported into the same file). -/
import AJ.Model.JS
import AJ.Lemmas.Digits
namespace FloatLen
open JD JS Digits SF

theorem digits_length_le (k : Nat) : ∀ n, n < 10 ^ (k + 1) → (JS.digits n).length ≤ k + 1 := by
  induction k with
  | zero => intro n h; rw [digits_rec, if_pos (by simpa using h)]; simp
  | succ k ih =>
    intro n h
    rw [digits_rec]
    split
    · simp
    · have := ih (n / 10) (by rw [Nat.pow_succ] at h; omega)
      simp only [List.length_append, List.length_cons, List.length_nil]; omega

theorem digits_length_le_20 (n : Nat) (h : n < 2 ^ 64) : (JS.digits n).length ≤ 20 :=
  digits_length_le 19 n (by have : (2 : Nat) ^ 64 < 10 ^ 20 := by decide
                            omega)

theorem padDigits_allDigits (n w : Nat) : AllDigits (padDigits n w) := by
  intro c hc
  simp only [padDigits, List.mem_append, List.mem_replicate] at hc
  rcases hc with ⟨_, rfl⟩ | hc
  · decide
  · exact (digits_spec n).1 c (List.mem_of_mem_drop hc)

/-! ### bounds on `JS.normalize` / `JS.decompose` (loop invariants), and the length of a float text -/

theorem list_forIn_inv {α β : Type} (P : β → Prop) (f : α → β → Id (ForInStep β))
    (hstep : ∀ x b, P b → P (f x b).run.value) : ∀ (l : List α) (init : β), P init → P (forIn l init f : Id β).run := by
  intro l
  induction l with
  | nil => intro init h; simpa using h
  | cons a as ih =>
    intro init h
    rw [List.forIn_cons]
    have := hstep a init h
    cases hf : (f a init).run with
    | done b =>
      rw [hf] at this
      have e : f a init = pure (ForInStep.done b) := hf
      rw [e]; simpa using this
    | yield b =>
      rw [hf] at this
      have e : f a init = pure (ForInStep.yield b) := hf
      rw [e]; simpa using ih b this

theorem range_forIn_inv {β : Type} (P : β → Prop) (r : Std.Legacy.Range) (f : Nat → β → Id (ForInStep β))
    (hstep : ∀ x b, P b → P (f x b).run.value) (init : β) (h : P init) : P (forIn r init f : Id β).run := by
  rw [Std.Legacy.Range.forIn_eq_forIn_range']
  exact list_forIn_inv P f hstep _ init h



theorem id_bind_prop {β γ : Type} (x : Id β) (K : β → Id γ) (P : β → Prop) (Q : γ → Prop) (hx : P x.run)
    (hK : ∀ b, P b → Q (K b).run) : Q (x >>= K).run := hK _ hx

def NI (s : Nat × Int × Int × Nat) : Prop := s.2.1.natAbs + 2 * s.2.2.2 ≤ 512

theorem normalize_bound (v : Nat) : (normalize v).2.natAbs ≤ 512 := by
  unfold normalize
  simp only [Id.run]
  have second : ∀ b : Nat × Int × Int × Nat, NI b →
      (fun r : Nat × Int => r.2.natAbs ≤ 512) (Id.run (
        if (gt b64 b.fst 0 && le b64 b.fst tenEm5) = true then do
              let __s ←
                forIn [:9] (b.fst, b.snd.fst, b.snd.snd.fst, b.snd.snd.snd) fun x __s =>
                    if __s.snd.snd.fst ≥ 0 then
                      if lt b64 __s.fst (mul b64 JD.neg64[__s.snd.snd.fst.toNat]! ten) = true then
                        pure
                          (ForInStep.yield
                            (mul b64 __s.fst JD.pos64[__s.snd.snd.fst.toNat]!, __s.snd.fst - ↑__s.snd.snd.snd,
                              __s.snd.snd.fst - 1, __s.snd.snd.snd / 2))
                      else pure (ForInStep.yield (__s.fst, __s.snd.fst, __s.snd.snd.fst - 1, __s.snd.snd.snd / 2))
                    else pure (ForInStep.yield (__s.fst, __s.snd.fst, __s.snd.snd.fst, __s.snd.snd.snd))
              pure (__s.fst, __s.snd.fst)
            else pure (b.fst, b.snd.fst))) := by
    intro b hb
    split
    · refine id_bind_prop _ _ NI (fun r : Nat × Int => r.2.natAbs ≤ 512) ?_ ?_
      · refine range_forIn_inv NI _ _ ?_ _ hb
        intro x s hs
        simp only [NI] at hs ⊢
        split
        · split
          · simp only [Id.run, pure, ForInStep.value]; omega
          · simp only [Id.run, pure, ForInStep.value]; omega
        · simp only [Id.run, pure, ForInStep.value]; omega
      · intro s hs
        simp only [NI] at hs
        simp only [Id.run, pure]; omega
    · simp only [NI] at hb
      simp only [Id.run, pure]; omega
  split
  · refine id_bind_prop _ _ NI (fun r : Nat × Int => r.2.natAbs ≤ 512) ?_ second
    refine range_forIn_inv NI _ _ ?_ _ (by simp [NI])
    intro x s hs
    simp only [NI] at hs ⊢
    split
    · split
      · simp only [Id.run, pure, ForInStep.value]; omega
      · simp only [Id.run, pure, ForInStep.value]; omega
    · simp only [Id.run, pure, ForInStep.value]; omega
  · exact second (v, 0, 8, 256) (by simp [NI])


def DQ (places : Nat) (r : Parts) : Prop :=
  r.integral < 2 ^ 32 ∧ r.decimalPlaces ≤ places ∧ r.exponent.natAbs ≤ 513

theorem loop2_inv (places : Nat) (init : Nat × Nat) (h : init.1 ≤ places) :
    (fun s : Nat × Nat => s.1 ≤ places) (Id.run (forIn [:12] init fun (_ : Nat) (__s : Nat × Nat) =>
        if (__s.snd % 10 == 0 && decide (__s.fst > 0)) = true then
          (pure (ForInStep.yield (__s.fst - 1, __s.snd / 10)) : Id _)
        else pure (ForInStep.yield (__s.fst, __s.snd)))) := by
  refine range_forIn_inv (fun s : Nat × Nat => s.1 ≤ places) _ _ ?_ _ h
  intro x s hs
  split
  · simp only [Id.run, pure, ForInStep.value]; omega
  · simp only [Id.run, pure, ForInStep.value]; exact hs

theorem decompose_bounds (v places : Nat) : DQ places (decompose v places) := by
  unfold decompose
  simp only [Id.run]
  have hn := normalize_bound v
  generalize normalize v = nv at hn
  obtain ⟨value, e0⟩ := nv
  simp only at hn ⊢
  have hig : toNatTrunc b64 value % 2 ^ 32 < 2 ^ 32 := Nat.mod_lt _ (by decide)
  generalize toNatTrunc b64 value % 2 ^ 32 = ig at hig ⊢
  refine id_bind_prop _ _ (fun s : Nat × Nat × Nat => s.2.1 ≤ places) (DQ places) ?_ ?_
  · refine range_forIn_inv (fun s : Nat × Nat × Nat => s.2.1 ≤ places) _ _ ?_ _ (Nat.le_refl _)
    intro x s hs
    split
    · simp only [Id.run, pure, ForInStep.value]; omega
    · simp only [Id.run, pure, ForInStep.value]; exact hs
  · intro s hs
    split
    · split
      · refine id_bind_prop _ _ (fun s : Nat × Nat => s.1 ≤ places) (DQ places) (loop2_inv places _ hs) ?_
        intro s2 hs2
        simp only [Id.run, pure, DQ]
        exact ⟨by decide, hs2, by omega⟩
      · refine id_bind_prop _ _ (fun s : Nat × Nat => s.1 ≤ places) (DQ places) (loop2_inv places _ hs) ?_
        intro s2 hs2
        simp only [Id.run, pure, DQ]
        exact ⟨Nat.mod_lt _ (by decide), hs2, by omega⟩
    · refine id_bind_prop _ _ (fun s : Nat × Nat => s.1 ≤ places) (DQ places) (loop2_inv places _ hs) ?_
      intro s2 hs2
      simp only [Id.run, pure, DQ]
      exact ⟨hig, hs2, by omega⟩

theorem padDigits_length (n w : Nat) : (padDigits n w).length = w := by
  simp only [padDigits, List.length_append, List.length_replicate, List.length_drop]; omega

theorem kw_lengths : "NaN".toUTF8.toList.length = 3 ∧ "null".toUTF8.toList.length = 4 ∧
    "-Infinity".toUTF8.toList.length = 9 ∧ "Infinity".toUTF8.toList.length = 8 := by decide +kernel

/-- every float text has at most `17 + places` bytes: sign, ≤ 10 integral digits, point, `places` decimals,
    `e`, sign, ≤ 3 exponent digits -/
theorem writeFloat_length_le (cfg : Cfg) (v places : Nat) : (writeFloat cfg v places).length ≤ 17 + places := by
  obtain ⟨k1, k2, k3, k4⟩ := kw_lengths
  simp only [writeFloat]
  split
  · cases cfg.nan
    · simp only [Bool.false_eq_true, ↓reduceIte, k2]; omega
    · simp only [↓reduceIte, k1]; omega
  · split
    · cases cfg.inf
      · simp only [Bool.false_eq_true, ↓reduceIte, k2]; omega
      · simp only [↓reduceIte]; split
        · rw [k3]; omega
        · rw [k4]; omega
    · obtain ⟨h1, h2, h3⟩ := decompose_bounds (if lt b64 v 0 = true then absBits b64 v else v) places
      generalize decompose (if lt b64 v 0 = true then absBits b64 v else v) places = p at h1 h2 h3
      have p10 : (2 : Nat) ^ 32 < 10 ^ (9 + 1) := by decide
      have p3 : (513 : Nat) < 10 ^ (2 + 1) := by decide
      have d1 := digits_length_le 9 p.integral (by omega)
      have d2 := digits_length_le 2 p.exponent.natAbs (by omega)
      simp only [List.length_append]
      have a : (if lt b64 v 0 = true then [(0x2D : UInt8)] else []).length ≤ 1 := by split <;> simp
      have b : (if p.decimalPlaces > 0 then 0x2E :: padDigits p.decimal p.decimalPlaces else []).length ≤ 1 + places := by
        split
        · simp only [List.length_cons, padDigits_length]; omega
        · simp
      have c : (if (p.exponent != 0) = true then
          0x65 :: ((if p.exponent < 0 then [(0x2D : UInt8)] else []) ++ digits p.exponent.natAbs) else []).length ≤ 5 := by
        split
        · simp only [List.length_cons, List.length_append]
          have : (if p.exponent < 0 then [(0x2D : UInt8)] else []).length ≤ 1 := by split <;> simp
          omega
        · simp
      omega

end FloatLen
