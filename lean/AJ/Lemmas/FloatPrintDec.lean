/- C12 (printing clauses): `JS.decompose` over ℚ: the integral part is the floor, the decimal part is the fraction scaled by
   `10^places'` and rounded half up (one multiplication error), carries and trailing-zero removal are exact. -/
import AJ.Lemmas.FloatPrintNorm
namespace C12
open SF JD JS

/-! ## `decompose` in named pieces -/

def bodyD : Nat → Nat × Nat × Nat → Id (ForInStep (Nat × Nat × Nat)) := fun _ s =>
  if s.2.2 ≥ 10 then pure (ForInStep.yield (s.1 / 10, s.2.1 - 1, s.2.2 / 10))
  else pure (ForInStep.yield (s.1, s.2.1, s.2.2))

def bodyZ : Nat → Nat × Nat → Id (ForInStep (Nat × Nat)) := fun _ s =>
  if (s.2 % 10 == 0 && decide (s.1 > 0)) = true then pure (ForInStep.yield (s.1 - 1, s.2 / 10))
  else pure (ForInStep.yield (s.1, s.2))

/-- (maxDecimalPart, decimalPlaces, tmp) after the digit-counting loop -/
def digLoop (places integral : Nat) : Nat × Nat × Nat := (forIn [:12] (10 ^ places, places, integral) bodyD : Id _).run
/-- (decimalPlaces, decimal) after the removal of trailing zeros -/
def zeroLoop (pl dec : Nat) : Nat × Nat := (forIn [:12] (pl, dec) bodyZ : Id _).run

/-- the remainder `(value − integral)·maxDec` as computed -/
def remBits (value integral maxDec : Nat) : Nat := SF.mul b64 (SF.sub b64 value (ofNat b64 integral)) (ofNat b64 maxDec)

/-- the decimal part: the remainder rounded half up -/
def decPart (value integral maxDec : Nat) : Nat :=
  (toNatTrunc b64 (remBits value integral maxDec) % 2 ^ 32 +
    toNatTrunc b64 (SF.mul b64 (SF.sub b64 (remBits value integral maxDec)
        (ofNat b64 (toNatTrunc b64 (remBits value integral maxDec) % 2 ^ 32))) 0x4000000000000000) % 2 ^ 32) % 2 ^ 32

def decomposeCore (value : Nat) (e0 : Int) (places : Nat) : Parts :=
  let integral := toNatTrunc b64 value % 2 ^ 32
  let s := digLoop places integral
  let dec := decPart value integral s.1
  if dec ≥ s.1 then
    if (e0 != 0 && decide ((integral + 1) % 2 ^ 32 ≥ 10)) = true then
      { integral := 1, decimal := (zeroLoop s.2.1 0).2, exponent := e0 + 1, decimalPlaces := (zeroLoop s.2.1 0).1 }
    else
      { integral := (integral + 1) % 2 ^ 32, decimal := (zeroLoop s.2.1 0).2, exponent := e0, decimalPlaces := (zeroLoop s.2.1 0).1 }
  else
    { integral := integral, decimal := (zeroLoop s.2.1 dec).2, exponent := e0, decimalPlaces := (zeroLoop s.2.1 dec).1 }

theorem decompose_eq (v places : Nat) : decompose v places = decomposeCore (normalize v).1 (normalize v).2 places := by
  unfold decompose
  rfl

/-! ## the digit-counting loop -/

theorem digLoop_spec (places I : Nat) (hp : 6 ≤ places) (hI : I < 10 ^ 7) :
    ∃ j, j ≤ 6 ∧ (digLoop places I).1 = 10 ^ (places - j) ∧ (digLoop places I).2.1 = places - j ∧ (j = 0 ∨ 10 ^ j ≤ I) := by
  have key := FloatLen.range_forIn_inv
    (fun s : Nat × Nat × Nat => ∃ j, s = (10 ^ (places - j), places - j, I / 10 ^ j) ∧ (j = 0 ∨ 10 ^ j ≤ I))
    [:12] bodyD ?_ (10 ^ places, places, I) ⟨0, by simp, Or.inl rfl⟩
  · obtain ⟨j, hs, hj⟩ := key
    have hj6 : j ≤ 6 := by
      rcases hj with rfl | hj
      · omega
      · have : 10 ^ j < 10 ^ 7 := lt_of_le_of_lt hj hI
        have := (Nat.pow_lt_pow_iff_right (by decide : 1 < 10)).mp this
        omega
    unfold digLoop
    rw [hs]
    exact ⟨j, hj6, rfl, rfl, hj⟩
  · intro x s ⟨j, hs, hj⟩
    subst hs
    unfold bodyD
    simp only
    split
    · rename_i hge
      have h10 : 10 ^ (j + 1) ≤ I := by
        have : 10 * 10 ^ j ≤ I := by
          have := (Nat.le_div_iff_mul_le (Nat.pow_pos (by decide : 0 < 10))).mp hge
          omega
        rw [Nat.pow_succ]; omega
      have hj6 : j + 1 ≤ 6 := by
        have : 10 ^ (j + 1) < 10 ^ 7 := lt_of_le_of_lt h10 hI
        have := (Nat.pow_lt_pow_iff_right (by decide : 1 < 10)).mp this
        omega
      refine ⟨j + 1, ?_, Or.inr h10⟩
      simp only [Id.run, pure, ForInStep.value]
      have e1 : places - j = (places - (j + 1)) + 1 := by omega
      refine Prod.ext ?_ (Prod.ext ?_ ?_)
      · simp only; rw [e1, Nat.pow_succ, Nat.mul_div_cancel _ (by decide : 0 < 10)]
      · simp only; omega
      · simp only; rw [Nat.div_div_eq_div_mul, ← Nat.pow_succ]
    · exact ⟨j, rfl, hj⟩

/-! ## removal of trailing zeros keeps the value of the decimal part -/

theorem zeroLoop_spec (pl dec : Nat) (h : dec < 10 ^ pl) :
    (zeroLoop pl dec).1 ≤ pl ∧ (zeroLoop pl dec).2 < 10 ^ (zeroLoop pl dec).1 ∧
    ((zeroLoop pl dec).2 : ℚ) / (10 : ℚ) ^ (zeroLoop pl dec).1 = (dec : ℚ) / (10 : ℚ) ^ pl := by
  refine FloatLen.range_forIn_inv
    (fun s : Nat × Nat => s.1 ≤ pl ∧ s.2 < 10 ^ s.1 ∧ (s.2 : ℚ) / (10 : ℚ) ^ s.1 = (dec : ℚ) / (10 : ℚ) ^ pl)
    [:12] bodyZ ?_ (pl, dec) ⟨Nat.le_refl _, h, rfl⟩
  intro x s ⟨h1, h2, h3⟩
  obtain ⟨k, d⟩ := s
  simp only at h1 h2 h3
  unfold bodyZ
  simp only
  split
  · rename_i hc
    simp only [Bool.and_eq_true, beq_iff_eq, decide_eq_true_eq] at hc
    obtain ⟨hd0, hk0⟩ := hc
    obtain ⟨k', rfl⟩ : ∃ k', k = k' + 1 := ⟨k - 1, by omega⟩
    obtain ⟨q, rfl⟩ : ∃ q, d = 10 * q := ⟨d / 10, by omega⟩
    simp only [Id.run, pure, ForInStep.value, Nat.add_sub_cancel]
    have hq : 10 * q / 10 = q := by omega
    rw [hq]
    refine ⟨by omega, ?_, ?_⟩
    · rw [Nat.pow_succ] at h2; omega
    · rw [← h3]; push_cast; rw [pow_succ]; field_simp
  · exact ⟨h1, h2, h3⟩

/-! ## the decimal part -/

theorem frac_lower (value my : Nat) (ey : Int) (hd : decode b64 value = .fin false my ey)
    (hY : (2 : ℚ) ^ (-1022 : Int) ≤ qv my ey) :
    qv my ey - ((toNatTrunc b64 value : Nat) : ℚ) = 0 ∨
    (2 : ℚ) ^ (-1022 : Int) ≤ qv my ey - ((toNatTrunc b64 value : Nat) : ℚ) := by
  obtain ⟨f1, f2, r, hr, hfr, hr0⟩ := toNatTrunc_floor b64 value false my ey hd
  obtain ⟨_, hb2⟩ := decode_fin_bounds b64 value false my ey hd
  by_cases hr1 : r = 0
  · left; rw [hfr, hr1]; unfold qv; simp
  · right
    by_cases hT : toNatTrunc b64 value = 0
    · rw [hT]; simpa using hY
    · have hT1 : (1 : ℚ) ≤ ((toNatTrunc b64 value : Nat) : ℚ) := by exact_mod_cast Nat.pos_of_ne_zero hT
      have hY1 : (1 : ℚ) ≤ qv my ey := le_trans hT1 f1
      have hey : -52 ≤ ey := by
        by_contra hc
        have h1 : (2 : ℚ) ^ ey ≤ (2 : ℚ) ^ (-53 : Int) := zpow_le_zpow_right₀ (by norm_num) (by omega)
        have h2 : (my : ℚ) < 2 ^ 53 := by exact_mod_cast hb2
        have hp := two_zpow_pos ey
        have : qv my ey < 1 := by
          unfold qv
          calc (my : ℚ) * 2 ^ ey < 2 ^ 53 * 2 ^ ey := mul_lt_mul_of_pos_right h2 hp
            _ ≤ 2 ^ 53 * (2 : ℚ) ^ (-53 : Int) := mul_le_mul_of_nonneg_left h1 (by positivity)
            _ = 1 := by norm_num [zpow_neg]
        linarith
      rw [hfr]
      have hrq : (1 : ℚ) ≤ (r : ℚ) := by exact_mod_cast Nat.pos_of_ne_zero hr1
      have hp := two_zpow_pos ey
      calc (2 : ℚ) ^ (-1022 : Int) ≤ (2 : ℚ) ^ ey := zpow_le_zpow_right₀ (by norm_num) (by omega)
        _ ≤ qv r ey := by unfold qv; nlinarith

theorem mul_zero_left64 (b : Nat) (n2 : Bool) (m2 : Nat) (e1 e2 : Int) (a : Nat)
    (ha : decode b64 a = .fin false 0 e1) (hb : decode b64 b = .fin n2 m2 e2) (hn : n2 = false) :
    SF.mul b64 a b = 0 := by
  subst hn
  rw [mul_fin b64 a b false false 0 m2 e1 e2 ha hb]
  simp [roundPos]

/-- the computed remainder `fl((y − ⌊y⌋)·10^q)` -/
theorem remBits_spec (value my : Nat) (ey : Int) (hd : decode b64 value = .fin false my ey)
    (hY : (2 : ℚ) ^ (-1022 : Int) ≤ qv my ey) (q : Nat) (hq : q ≤ 9) (hT : toNatTrunc b64 value < 2 ^ 32) :
    ∃ (mR : Nat) (eR : Int), decode b64 (remBits value (toNatTrunc b64 value) (10 ^ q)) = .fin false mR eR ∧
      |qv mR eR - (qv my ey - ((toNatTrunc b64 value : Nat) : ℚ)) * (10 : ℚ) ^ q| ≤
        1 / 2 ^ 53 * ((qv my ey - ((toNatTrunc b64 value : Nat) : ℚ)) * (10 : ℚ) ^ q) := by
  obtain ⟨f1, f2, _⟩ := toNatTrunc_floor b64 value false my ey hd
  obtain ⟨m1, e1, hd1, hv1⟩ := sub_trunc value my ey hd (lt_trans hT (by decide))
  have hq9 : 10 ^ q ≤ 10 ^ 9 := Nat.pow_le_pow_right (by decide) hq
  obtain ⟨mq, eq, hdq, hmq, hvq⟩ := ofNat_exactQ b64 (10 ^ q) (Nat.pos_iff_ne_zero.mp (Nat.pow_pos (by decide)))
    (lt_of_le_of_lt hq9 (by decide)) (by decide) (by decide)
  have hvq' : qv mq eq = (10 : ℚ) ^ q := by rw [hvq]; push_cast; rfl
  have hM1 : (1 : ℚ) ≤ (10 : ℚ) ^ q := one_le_pow₀ (by norm_num)
  have hM9 : (10 : ℚ) ^ q ≤ 10 ^ 9 := pow_le_pow_right₀ (by norm_num) hq
  unfold remBits
  rw [← hv1]
  by_cases hm1 : m1 = 0
  · subst hm1
    rw [mul_zero_left64 _ false mq e1 eq _ hd1 hdq rfl]
    refine ⟨0, emin b64, decode_zero b64 (by decide), ?_⟩
    unfold qv; simp
  · have hF0 : 0 < qv m1 e1 := qv_pos hm1 e1
    have hFlo : (2 : ℚ) ^ (-1022 : Int) ≤ qv m1 e1 := by
      rcases frac_lower value my ey hd hY with h | h
      · rw [← hv1] at h; linarith
      · rw [← hv1] at h; exact h
    have hF1 : qv m1 e1 < 1 := by rw [hv1]; linarith
    have hlo : (2 : ℚ) ^ (emin b64 + (b64.mbits : Int)) ≤ qv m1 e1 * qv mq eq := by
      rw [emin_b64, hvq']
      generalize (2 : ℚ) ^ (-1022 : Int) = W at *
      nlinarith
    have hhi : qv m1 e1 * qv mq eq < (2 : ℚ) ^ ((b64.emax : Int) - b64.bias - 1) := by
      rw [hvq', top_b64]
      have h30 : (10 : ℚ) ^ 9 ≤ (2 : ℚ) ^ (1023 : Int) := by
        calc (10 : ℚ) ^ 9 ≤ (2 : ℚ) ^ (30 : Int) := by norm_num
          _ ≤ _ := zpow_le_zpow_right₀ (by norm_num) (by norm_num)
      generalize (2 : ℚ) ^ (1023 : Int) = W at *
      nlinarith
    obtain ⟨mR, eR, hdR, _, _, hcR⟩ := mul_relQ b64 _ _ false false m1 mq e1 eq (by decide) hd1 hdq hm1 hmq hlo hhi
    refine ⟨mR, eR, by simpa using hdR, ?_⟩
    rw [hvq'] at hcR
    exact hcR

/-- THE DECIMAL PART: `decPart` is `(y − ⌊y⌋)·10^q` rounded half up, up to the error `2^-53·10^9 < 2e-7` of one
    multiplication; it never exceeds `10^q` -/
theorem decPart_spec (value my : Nat) (ey : Int) (hd : decode b64 value = .fin false my ey)
    (hY : (2 : ℚ) ^ (-1022 : Int) ≤ qv my ey) (q : Nat) (hq : q ≤ 9) (hT : toNatTrunc b64 value < 2 ^ 32) :
    |((decPart value (toNatTrunc b64 value) (10 ^ q) : Nat) : ℚ) -
        (qv my ey - ((toNatTrunc b64 value : Nat) : ℚ)) * (10 : ℚ) ^ q| ≤ 1 / 2 + 2 / 10 ^ 7 ∧
    decPart value (toNatTrunc b64 value) (10 ^ q) ≤ 10 ^ q := by
  obtain ⟨f1, f2, _⟩ := toNatTrunc_floor b64 value false my ey hd
  obtain ⟨mR, eR, hdR, hcR⟩ := remBits_spec value my ey hd hY q hq hT
  have hM1 : (1 : ℚ) ≤ (10 : ℚ) ^ q := one_le_pow₀ (by norm_num)
  have hM9 : (10 : ℚ) ^ q ≤ 10 ^ 9 := pow_le_pow_right₀ (by norm_num) hq
  obtain ⟨g1, g2, _⟩ := toNatTrunc_floor b64 _ false mR eR hdR
  -- the fraction F and the scaled fraction
  obtain ⟨F, hF⟩ : ∃ F, F = qv my ey - ((toNatTrunc b64 value : Nat) : ℚ) := ⟨_, rfl⟩
  rw [← hF] at hcR ⊢
  have hF0 : 0 ≤ F := by rw [hF]; linarith
  have hF1 : F < 1 := by rw [hF]; linarith
  have hFM : F * (10 : ℚ) ^ q < (10 : ℚ) ^ q := by nlinarith
  have hFM0 : 0 ≤ F * (10 : ℚ) ^ q := by positivity
  obtain ⟨hR1, hR2⟩ := abs_le.mp hcR
  have hRhi : qv mR eR < 10 ^ 9 + 1 / 2 := by
    have : (1 / 2 ^ 53 : ℚ) * (F * (10 : ℚ) ^ q) ≤ 1 / 2 ^ 53 * 10 ^ 9 := by
      apply mul_le_mul_of_nonneg_left _ (by norm_num); linarith
    have : (1 / 2 ^ 53 : ℚ) * 10 ^ 9 < 1 / 2 := by norm_num
    linarith
  have hTR : toNatTrunc b64 (remBits value (toNatTrunc b64 value) (10 ^ q)) < 2 ^ 32 := by
    have : ((toNatTrunc b64 (remBits value (toNatTrunc b64 value) (10 ^ q)) : Nat) : ℚ) < ((2 ^ 32 : Nat) : ℚ) := by
      push_cast; linarith
    exact_mod_cast this
  obtain ⟨r1, r2⟩ := round_half_up _ mR eR hdR (lt_trans hTR (by decide))
  unfold decPart
  rw [Nat.mod_eq_of_lt hTR]
  generalize toNatTrunc b64 (SF.mul b64 (SF.sub b64 (remBits value (toNatTrunc b64 value) (10 ^ q))
    (ofNat b64 (toNatTrunc b64 (remBits value (toNatTrunc b64 value) (10 ^ q))))) 0x4000000000000000) = T2 at *
  generalize toNatTrunc b64 (remBits value (toNatTrunc b64 value) (10 ^ q)) = TR at *
  have hsum : TR + T2 < 2 ^ 32 := by
    have : ((TR + T2 : Nat) : ℚ) < ((2 ^ 32 : Nat) : ℚ) := by push_cast at r1 ⊢; linarith
    exact_mod_cast this
  rw [Nat.mod_eq_of_lt (by omega : T2 < 2 ^ 32), Nat.mod_eq_of_lt hsum]
  have hsmall : (1 / 2 ^ 53 : ℚ) * (F * (10 : ℚ) ^ q) ≤ 2 / 10 ^ 7 := by
    have : (1 / 2 ^ 53 : ℚ) * (F * (10 : ℚ) ^ q) ≤ 1 / 2 ^ 53 * 10 ^ 9 := by
      apply mul_le_mul_of_nonneg_left _ (by norm_num); linarith
    have : (1 / 2 ^ 53 : ℚ) * 10 ^ 9 ≤ 2 / 10 ^ 7 := by norm_num
    linarith
  push_cast at r1 r2
  constructor
  · push_cast; rw [abs_le]; constructor <;> linarith
  · have : ((TR + T2 : Nat) : ℚ) < ((10 ^ q : Nat) : ℚ) + 1 := by push_cast; linarith
    have : ((TR + T2 : Nat) : ℚ) < ((10 ^ q + 1 : Nat) : ℚ) := by push_cast at this ⊢; linarith
    have : TR + T2 < 10 ^ q + 1 := by exact_mod_cast this
    omega

/-! ## `decompose` -/

/-- the exact value denoted by the parts: `(integral + decimal/10^decimalPlaces)·10^exponent` -/
def partsVal (p : Parts) : ℚ :=
  ((p.integral : ℚ) + (p.decimal : ℚ) / (10 : ℚ) ^ p.decimalPlaces) * (10 : ℚ) ^ p.exponent

theorem scaled_err {A Y D F M c E K : ℚ} (hM : 0 < M) (hE : 0 < E) (hc : |D - F * M| ≤ c) (hA : A - Y = (D - F * M) / M)
    (hK : 1 / M ≤ K) (hc0 : 0 ≤ c) : |A * E - Y * E| ≤ c * K * E := by
  have h1 : A * E - Y * E = (D - F * M) / M * E := by rw [← hA]; ring
  rw [h1, abs_mul, abs_div, abs_of_pos hM, abs_of_pos hE]
  have h2 : |D - F * M| / M ≤ c * K := by
    rw [div_eq_mul_one_div]
    exact mul_le_mul hc hK (by positivity) hc0
  exact mul_le_mul_of_nonneg_right h2 hE.le

/-- DECOMPOSE. For a normalized value `y` (`2^-1022 ≤ y < 1e7`; `y ≤ 10.5` when an exponent is used) and `6 ≤ places ≤ 9`, the
    parts denote `y·10^e0` within `(1/2 + 2e-7)·10^-places·max(1,y)·10^e0`; the decimal part fits its places. -/
theorem decomposeCore_spec (value my : Nat) (ey : Int) (hd : decode b64 value = .fin false my ey)
    (hY : (2 : ℚ) ^ (-1022 : Int) ≤ qv my ey) (hY7 : qv my ey < 10 ^ 7) (e0 : Int) (he0 : e0 ≠ 0 → qv my ey ≤ 21 / 2)
    (places : Nat) (hp6 : 6 ≤ places) (hp9 : places ≤ 9) :
    (decomposeCore value e0 places).decimal < 10 ^ (decomposeCore value e0 places).decimalPlaces ∧
    (decomposeCore value e0 places).decimalPlaces ≤ places ∧
    |partsVal (decomposeCore value e0 places) - qv my ey * (10 : ℚ) ^ e0| ≤
      (1 / 2 + 2 / 10 ^ 7) * (max 1 (qv my ey) / (10 : ℚ) ^ places) * (10 : ℚ) ^ e0 := by
  obtain ⟨f1, f2, _⟩ := toNatTrunc_floor b64 value false my ey hd
  have hT7 : toNatTrunc b64 value < 10 ^ 7 := by
    have : ((toNatTrunc b64 value : Nat) : ℚ) < ((10 ^ 7 : Nat) : ℚ) := by push_cast; linarith
    exact_mod_cast this
  have hT32 : toNatTrunc b64 value < 2 ^ 32 := lt_trans hT7 (by decide)
  obtain ⟨j, hj6, hs1, hs2, hj⟩ := digLoop_spec places (toNatTrunc b64 value) hp6 hT7
  obtain ⟨q, hq⟩ : ∃ q, q = places - j := ⟨_, rfl⟩
  rw [← hq] at hs1 hs2
  obtain ⟨hD, hDle⟩ := decPart_spec value my ey hd hY q (by omega) hT32
  have hE := ten_zpow_pos e0
  have hM : (0 : ℚ) < (10 : ℚ) ^ q := by positivity
  have hc0 : (0 : ℚ) ≤ 1 / 2 + 2 / 10 ^ 7 := by norm_num
  -- 1/10^q ≤ max 1 y / 10^places
  have hK : 1 / (10 : ℚ) ^ q ≤ max 1 (qv my ey) / (10 : ℚ) ^ places := by
    have hpl : places = q + j := by omega
    rw [hpl, pow_add, div_le_div_iff₀ hM (by positivity)]
    have : (10 : ℚ) ^ j ≤ max 1 (qv my ey) := by
      rcases hj with rfl | hj
      · simp
      · have : ((10 ^ j : Nat) : ℚ) ≤ ((toNatTrunc b64 value : Nat) : ℚ) := by exact_mod_cast hj
        push_cast at this
        exact le_trans (le_trans this f1) (le_max_right _ _)
    nlinarith
  unfold decomposeCore
  simp only [Nat.mod_eq_of_lt hT32, hs1, hs2]
  generalize decPart value (toNatTrunc b64 value) (10 ^ q) = D at *
  generalize toNatTrunc b64 value = T at *
  generalize qv my ey = Y at *
  by_cases hcar : D ≥ 10 ^ q
  · have hDq : D = 10 ^ q := by omega
    obtain ⟨z1, z2, z3⟩ := zeroLoop_spec q 0 (Nat.pow_pos (by decide))
    have hz : ((zeroLoop q 0).2 : ℚ) / (10 : ℚ) ^ (zeroLoop q 0).1 = 0 := by rw [z3]; simp
    rw [if_pos hcar]
    have hT1 : (T + 1) % 2 ^ 32 = T + 1 := Nat.mod_eq_of_lt (by omega)
    rw [hT1]
    have hAY : ((T + 1 : Nat) : ℚ) - Y = ((D : ℚ) - (Y - (T : ℚ)) * (10 : ℚ) ^ q) / (10 : ℚ) ^ q := by
      rw [hDq]; push_cast; field_simp; ring
    by_cases hexp : (e0 != 0 && decide (T + 1 ≥ 10)) = true
    · rw [if_pos hexp]
      simp only [Bool.and_eq_true, bne_iff_ne, ne_eq, decide_eq_true_eq] at hexp
      obtain ⟨hne, hT10⟩ := hexp
      have hY10 := he0 hne
      have hTle : T ≤ 10 := by
        have : (T : ℚ) ≤ ((10 : Nat) : ℚ) + 1 / 2 := by push_cast; linarith
        have : (T : ℚ) < ((11 : Nat) : ℚ) := by push_cast at this ⊢; linarith
        have : T < 11 := by exact_mod_cast this
        omega
      have hT9 : T = 9 := by
        by_contra hne9
        have hT10' : T = 10 := by omega
        subst hT10'
        -- j ≤ 1, so q ≥ 5 and 10^q ≥ 10^5, but 10^q/2 ≤ 1/2 + 2e-7
        have hj1 : j ≤ 1 := by
          rcases hj with rfl | hj
          · omega
          · have : 10 ^ j < 10 ^ 2 := lt_of_le_of_lt hj (by decide)
            have := (Nat.pow_lt_pow_iff_right (by decide : 1 < 10)).mp this
            omega
        have hq5 : (10 : ℚ) ^ 5 ≤ (10 : ℚ) ^ q := pow_le_pow_right₀ (by norm_num) (by omega)
        have := (abs_le.mp hD).2
        rw [hDq] at this
        push_cast at this
        nlinarith
      subst hT9
      refine ⟨z2, le_trans z1 (by omega), ?_⟩
      have hv : partsVal { integral := 1, decimal := (zeroLoop q 0).2, exponent := e0 + 1, decimalPlaces := (zeroLoop q 0).1 } =
          ((9 + 1 : Nat) : ℚ) * (10 : ℚ) ^ e0 := by
        unfold partsVal
        simp only [hz]
        rw [zpow_add₀ (by norm_num : (10 : ℚ) ≠ 0)]
        push_cast; ring
      rw [hv]
      exact scaled_err hM hE hD hAY hK hc0
    · rw [if_neg hexp]
      refine ⟨z2, le_trans z1 (by omega), ?_⟩
      have hv : partsVal { integral := T + 1, decimal := (zeroLoop q 0).2, exponent := e0, decimalPlaces := (zeroLoop q 0).1 } =
          ((T + 1 : Nat) : ℚ) * (10 : ℚ) ^ e0 := by
        unfold partsVal
        simp only [hz]
        ring
      rw [hv]
      exact scaled_err hM hE hD hAY hK hc0
  · rw [if_neg hcar]
    obtain ⟨z1, z2, z3⟩ := zeroLoop_spec q D (by omega)
    refine ⟨z2, le_trans z1 (by omega), ?_⟩
    have hv : partsVal { integral := T, decimal := (zeroLoop q D).2, exponent := e0, decimalPlaces := (zeroLoop q D).1 } =
        ((T : ℚ) + (D : ℚ) / (10 : ℚ) ^ q) * (10 : ℚ) ^ e0 := by
      unfold partsVal
      simp only [z3]
    rw [hv]
    have hAY : ((T : ℚ) + (D : ℚ) / (10 : ℚ) ^ q) - Y = ((D : ℚ) - (Y - (T : ℚ)) * (10 : ℚ) ^ q) / (10 : ℚ) ^ q := by
      field_simp; ring
    exact scaled_err hM hE hD hAY hK hc0

theorem low_1em6 : (2 : ℚ) ^ (-1022 : Int) ≤ 1 / 10 ^ 6 := by
  calc (2 : ℚ) ^ (-1022 : Int) ≤ (2 : ℚ) ^ (-20 : Int) := zpow_le_zpow_right₀ (by norm_num) (by norm_num)
    _ ≤ 1 / 10 ^ 6 := by norm_num [zpow_neg]

/-- DECOMPOSE ∘ NORMALIZE: for every positive finite binary64 datum `x` and `6 ≤ places ≤ 9`, the parts computed by `decompose`
    denote `x` within `0.51·10^-places·max(1, x)` (actual bound: `(1/2 + 2e-7)(1 + 1e-12) + 2.5e-15·10^places` units) -/
theorem decompose_spec (v m : Nat) (e : Int) (hd : decode b64 v = .fin false m e) (hm : m ≠ 0)
    (places : Nat) (hp6 : 6 ≤ places) (hp9 : places ≤ 9) :
    (decompose v places).decimal < 10 ^ (decompose v places).decimalPlaces ∧
    (decompose v places).decimalPlaces ≤ places ∧
    |partsVal (decompose v places) - qv m e| ≤ 51 / 100 * (max 1 (qv m e) / (10 : ℚ) ^ places) := by
  rw [decompose_eq]
  have hN : (0 : ℚ) < (10 : ℚ) ^ places := by positivity
  have hN9 : (10 : ℚ) ^ places ≤ 10 ^ 9 := pow_le_pow_right₀ (by norm_num) hp9
  rcases normalize_spec v m e hd hm with ⟨hn, hlo, hhi⟩ | ⟨my, ey, hdy, hmy, hcl, hylo, hyhi⟩
  · rw [hn]
    obtain ⟨h1, h2, h3⟩ := decomposeCore_spec v m e hd (le_trans low_1em6 hlo.le) hhi 0 (fun h => absurd rfl h) places hp6 hp9
    refine ⟨h1, h2, ?_⟩
    simp only [zpow_zero, mul_one] at h3
    refine le_trans h3 (mul_le_mul_of_nonneg_right (by norm_num) ?_)
    have : (0 : ℚ) < max 1 (qv m e) := lt_of_lt_of_le one_pos (le_max_left _ _)
    positivity
  · obtain ⟨p, hp⟩ : ∃ p, p = (normalize v).2 := ⟨_, rfl⟩
    rw [← hp] at hcl ⊢
    have hx : 0 < qv m e := qv_pos hm e
    have hY2 : (2 : ℚ) ^ (-1022 : Int) ≤ qv my ey := by
      have : (1 / 10 ^ 6 : ℚ) ≤ 1 - 27 / 2 ^ 53 := by norm_num
      exact le_trans low_1em6 (le_trans this hylo)
    obtain ⟨h1, h2, h3⟩ := decomposeCore_spec (normalize v).1 my ey hdy hY2
      (lt_of_le_of_lt hyhi (by norm_num)) p (fun _ => le_trans hyhi (by norm_num)) places hp6 hp9
    refine ⟨h1, h2, ?_⟩
    have hE := ten_zpow_pos p
    -- Z = x·10^-p, x = Z·10^p
    have hXZ : qv m e = qv m e * (10 : ℚ) ^ (-p) * (10 : ℚ) ^ p := by
      rw [mul_assoc, ← zpow_add₀ (by norm_num : (10 : ℚ) ≠ 0)]; simp
    have hZ : 0 < qv m e * (10 : ℚ) ^ (-p) := mul_pos hx (ten_zpow_pos _)
    rw [hXZ]
    generalize qv m e * (10 : ℚ) ^ (-p) = Z at *
    generalize (10 : ℚ) ^ p = E at *
    generalize qv my ey = Y at *
    generalize partsVal (decomposeCore (normalize v).1 p places) = PV at *
    generalize (10 : ℚ) ^ places = N at *
    unfold Close at hcl
    have hYle := (abs_le.mp hcl).2
    have hYge := (abs_le.mp hcl).1
    have hmax : max 1 Y ≤ (1 + 1 / 10 ^ 12) * Z := by
      apply max_le
      · have h4 : (1 - 27 / 2 ^ 53 : ℚ) ≤ (1 + 45 / 2 ^ 54) * Z := by linarith
        have h5 : (1 : ℚ) * (1 + 45 / 2 ^ 54) ≤ (1 + 1 / 10 ^ 12) * (1 - 27 / 2 ^ 53) := by norm_num
        nlinarith
      · nlinarith
    have hW : 0 < Z * E := mul_pos hZ hE
    -- first part
    have hA1 : (1 / 2 + 2 / 10 ^ 7) * (max 1 Y / N) * E ≤ (1 / 2 + 2 / 10 ^ 7) * (1 + 1 / 10 ^ 12) * (Z * E / N) := by
      have h6 : max 1 Y / N ≤ (1 + 1 / 10 ^ 12) * Z / N := div_le_div_of_nonneg_right hmax hN.le
      have h7 : (1 / 2 + 2 / 10 ^ 7) * (max 1 Y / N) ≤ (1 / 2 + 2 / 10 ^ 7) * ((1 + 1 / 10 ^ 12) * Z / N) :=
        mul_le_mul_of_nonneg_left h6 (by norm_num)
      calc (1 / 2 + 2 / 10 ^ 7) * (max 1 Y / N) * E ≤ (1 / 2 + 2 / 10 ^ 7) * ((1 + 1 / 10 ^ 12) * Z / N) * E :=
            mul_le_mul_of_nonneg_right h7 hE.le
        _ = _ := by ring
    have hA2 : |Y * E - Z * E| ≤ 45 / 2 ^ 54 * N * (Z * E / N) := by
      have : Y * E - Z * E = (Y - Z) * E := by ring
      rw [this, abs_mul, abs_of_pos hE]
      calc |Y - Z| * E ≤ 45 / 2 ^ 54 * Z * E := mul_le_mul_of_nonneg_right hcl hE.le
        _ = _ := by field_simp
    have hWN : 0 ≤ Z * E / N := by positivity
    have hcoef : (1 / 2 + 2 / 10 ^ 7) * (1 + 1 / 10 ^ 12) + 45 / 2 ^ 54 * N ≤ (51 / 100 : ℚ) := by
      have : (45 / 2 ^ 54 : ℚ) * N ≤ 45 / 2 ^ 54 * 10 ^ 9 := mul_le_mul_of_nonneg_left hN9 (by norm_num)
      have h8 : (1 / 2 + 2 / 10 ^ 7) * (1 + 1 / 10 ^ 12) + 45 / 2 ^ 54 * 10 ^ 9 ≤ (51 / 100 : ℚ) := by norm_num
      linarith
    have hfin : Z * E / N ≤ max 1 (Z * E) / N := div_le_div_of_nonneg_right (le_max_right _ _) hN.le
    calc |PV - Z * E| = |(PV - Y * E) + (Y * E - Z * E)| := by ring_nf
      _ ≤ |PV - Y * E| + |Y * E - Z * E| := abs_add_le _ _
      _ ≤ ((1 / 2 + 2 / 10 ^ 7) * (1 + 1 / 10 ^ 12) + 45 / 2 ^ 54 * N) * (Z * E / N) := by
          have := le_trans h3 hA1
          linarith
      _ ≤ 51 / 100 * (Z * E / N) := mul_le_mul_of_nonneg_right hcoef hWN
      _ ≤ 51 / 100 * (max 1 (Z * E) / N) := mul_le_mul_of_nonneg_left hfin (by norm_num)

end C12
