/- C12 (printing clauses): `JS.normalize` over ℚ. A finite positive binary64 value `x` is either left alone (`1e-5 < x < 1e7`)
   or scaled by table powers of ten into `[1 − 27u, 10·(1 + 27u)]` with relative error at most `22.5u` (`u = 2^-53`). -/
import AJ.Lemmas.FloatPrintSF
import AJ.Lemmas.FloatLen
namespace C12
open SF JD JS

/-! ## counted `for` loops -/

theorem list_forIn_idx {α β : Type} (P : Nat → β → Prop) (f : α → β → Id (ForInStep β))
    (l : List α) : ∀ (j : Nat) (init : β), P j init →
    (∀ i x b, j ≤ i → i < j + l.length → P i b → ∃ b', f x b = pure (ForInStep.yield b') ∧ P (i + 1) b') →
    P (j + l.length) (forIn l init f : Id β).run := by
  induction l with
  | nil => intro j init h _; simpa using h
  | cons a as ih =>
    intro j init h hstep
    rw [List.forIn_cons]
    obtain ⟨b', hb, hP⟩ := hstep j a init (Nat.le_refl _) (by simp) h
    rw [hb]
    have := ih (j + 1) b' hP (fun i x b h1 h2 hp => hstep i x b (by omega) (by simp at h2 ⊢; omega) hp)
    simp only [List.length_cons]
    rw [show j + (as.length + 1) = j + 1 + as.length by omega]
    simpa using this

/-- a loop `for _ in [0:n]` whose body always continues: an invariant indexed by the iteration count -/
theorem range_forIn_idx {β : Type} (P : Nat → β → Prop) (n : Nat) (f : Nat → β → Id (ForInStep β)) (init : β)
    (h0 : P 0 init)
    (hstep : ∀ i x b, i < n → P i b → ∃ b', f x b = pure (ForInStep.yield b') ∧ P (i + 1) b') :
    P n (forIn [:n] init f : Id β).run := by
  rw [Std.Legacy.Range.forIn_eq_forIn_range']
  have := list_forIn_idx P f (List.range' 0 ([:n] : Std.Legacy.Range).size 1) 0 init h0
    (fun i x b _ h2 hp => hstep i x b (by simpa [Std.Legacy.Range.size] using h2) hp)
  simpa [Std.Legacy.Range.size] using this

/-! ## the table entries, as `normalize` reads them -/

theorem pos64_bang (k : Nat) (hk : k < 9) : ∃ (m : Nat) (e : Int), decode b64 (pos64[k]!) = .fin false m e ∧ m ≠ 0 ∧
    Close (1 / 2 ^ 53) (qv m e) ((10 : ℚ) ^ (2 ^ k)) := by
  have hl : pos64.length = 9 := tables64_ok.1
  have h : k < pos64.length := by omega
  rw [getElem!_pos pos64 k h]
  exact pos64_close k h

theorem neg64_bang (k : Nat) (hk : k < 9) : ∃ (m : Nat) (e : Int), decode b64 (neg64[k]!) = .fin false m e ∧ m ≠ 0 ∧
    Close (1 / 2 ^ 53) (qv m e) ((1 / 10 : ℚ) ^ (2 ^ k)) := by
  have hl : neg64.length = 9 := tables64_ok.2.1
  have h : k < neg64.length := by omega
  rw [getElem!_pos neg64 k h]
  exact neg64_close k h

theorem decode_ten64 : decode b64 JS.ten = .fin false 5629499534213120 (-49) := by decide +kernel

theorem qv_ten : qv 5629499534213120 (-49) = 10 := by unfold qv; norm_num [zpow_neg]

theorem ten_pow_ge (k : Nat) : (10 : ℚ) ≤ (10 : ℚ) ^ (2 ^ k) := by
  have : (10 : ℚ) ^ 1 ≤ (10 : ℚ) ^ (2 ^ k) := pow_le_pow_right₀ (by norm_num) (Nat.one_le_two_pow)
  simpa using this

theorem ten_pow_sq (k : Nat) : (10 : ℚ) ^ (2 ^ (k + 1)) = (10 : ℚ) ^ (2 ^ k) * (10 : ℚ) ^ (2 ^ k) := by
  rw [← pow_add]; congr 1; rw [Nat.pow_succ]; omega

theorem tenth_pow (k : Nat) : (1 / 10 : ℚ) ^ (2 ^ k) = 1 / (10 : ℚ) ^ (2 ^ k) := by
  rw [one_div_pow]

theorem low64 : (2 : ℚ) ^ (emin b64 + (b64.mbits : Int)) ≤ 1 / 2 := by
  rw [emin_b64]
  calc (2 : ℚ) ^ (-1022 : Int) ≤ (2 : ℚ) ^ (-1 : Int) := zpow_le_zpow_right₀ (by norm_num) (by norm_num)
    _ = 1 / 2 := by norm_num

theorem fin_lt_top64 (b : Nat) (n : Bool) (m : Nat) (e : Int) (h : decode b64 b = .fin n m e) :
    qv m e < 2 * (2 : ℚ) ^ ((b64.emax : Int) - b64.bias - 1) := by
  have := fin_lt_top b64 b n m e h (by decide)
  have e1 : (b64.emax : Int) - b64.bias = 1 + ((b64.emax : Int) - b64.bias - 1) := by ring
  rw [e1, zpow_add₀ (by norm_num : (2 : ℚ) ≠ 0)] at this
  simpa using this

/-! ## one step of the first loop (values `≥ 1e7` are divided by powers of ten) -/

theorem stepA_math (k : Nat) (hk : k < 9) (v m : Nat) (e : Int) (X δ ε : ℚ)
    (hd : decode b64 v = .fin false m e) (hm : m ≠ 0) (hX : 0 < X)
    (hδ : 0 ≤ δ) (hδ2 : δ + 5 / 2 * (1 / 2 ^ 53) ≤ 1 / 8) (hε : 0 ≤ ε) (hε2 : ε ≤ 1 / 8)
    (hc : Close δ (qv m e) X) (hlo : 1 - 3 / 2 ^ 53 ≤ qv m e)
    (hhi : qv m e ≤ (10 : ℚ) ^ (2 ^ (k + 1)) * (1 + ε)) :
    (SF.ge b64 v (pos64[k]!) = true →
      ∃ (m' : Nat) (e' : Int), decode b64 (SF.mul b64 v (neg64[k]!)) = .fin false m' e' ∧ m' ≠ 0 ∧
        Close (δ + 5 / 2 * (1 / 2 ^ 53)) (qv m' e') (X * (1 / 10 : ℚ) ^ (2 ^ k)) ∧
        1 - 3 / 2 ^ 53 ≤ qv m' e' ∧ qv m' e' ≤ (10 : ℚ) ^ (2 ^ k) * (1 + (ε + 3 / 2 ^ 53))) ∧
    (SF.ge b64 v (pos64[k]!) = false → qv m e ≤ (10 : ℚ) ^ (2 ^ k) * (1 + (ε + 3 / 2 ^ 53))) := by
  obtain ⟨mp, ep, hdp, hmp, hcp⟩ := pos64_bang k hk
  obtain ⟨mn, en, hdn, hmn, hcn⟩ := neg64_bang k hk
  have hT10 := ten_pow_ge k
  rw [ten_pow_sq] at hhi
  rw [tenth_pow] at hcn ⊢
  generalize (10 : ℚ) ^ (2 ^ k) = T at *
  have hT : 0 < T := by linarith
  have hV : 0 < qv m e := qv_pos hm e
  have hPge := hcp.ge
  have hPle := hcp.le
  have hNge := hcn.ge
  have hNle := hcn.le
  have hNpos : 0 < qv mn en := qv_pos hmn en
  constructor
  · intro hge
    have hPV : qv mp ep ≤ qv m e := (ge_q b64 v _ m mp e ep hd hdp).mp hge
    have hu : (0 : ℚ) ≤ 1 / 2 ^ 53 := by norm_num
    have hP := hc.mul hcn hX (by positivity) hδ hu
    -- the exact product is in the normal range
    have hTT : T * (1 / T) = 1 := by field_simp
    have hprodlo : (1 - 1 / 2 ^ 53) * (1 - 1 / 2 ^ 53) ≤ qv m e * qv mn en := by
      have h1 : (1 - 1 / 2 ^ 53) * T ≤ qv m e := le_trans hPge hPV
      have h53 : (0 : ℚ) ≤ 1 - 1 / 2 ^ 53 := by norm_num
      have h3 : (0 : ℚ) ≤ (1 - 1 / 2 ^ 53) * (1 / T) := mul_nonneg h53 (by positivity)
      have := mul_le_mul h1 hNge h3 hV.le
      calc (1 - 1 / 2 ^ 53) * (1 - 1 / 2 ^ 53) = (1 - 1 / 2 ^ 53) * T * ((1 - 1 / 2 ^ 53) * (1 / T)) := by
            field_simp
        _ ≤ _ := this
    have hlo' : (2 : ℚ) ^ (emin b64 + (b64.mbits : Int)) ≤ qv m e * qv mn en :=
      le_trans low64 (le_trans (by norm_num) hprodlo)
    have hN10 : qv mn en ≤ (1 + 1 / 2 ^ 53) * (1 / 10) := by
      have : 1 / T ≤ 1 / 10 := one_div_le_one_div_of_le (by norm_num) hT10
      have h53 : (0 : ℚ) ≤ 1 + 1 / 2 ^ 53 := by norm_num
      exact le_trans hNle (mul_le_mul_of_nonneg_left this h53)
    have hhi' : qv m e * qv mn en < (2 : ℚ) ^ ((b64.emax : Int) - b64.bias - 1) := by
      have h1 := fin_lt_top64 v false m e hd
      have hW := two_zpow_pos ((b64.emax : Int) - b64.bias - 1)
      generalize (2 : ℚ) ^ ((b64.emax : Int) - b64.bias - 1) = W at *
      have : qv m e * qv mn en ≤ qv m e * ((1 + 1 / 2 ^ 53) * (1 / 10)) := mul_le_mul_of_nonneg_left hN10 hV.le
      nlinarith
    obtain ⟨m', e', hdr, hn1, _, hcr⟩ := mul_relQ b64 v (neg64[k]!) false false m mn e en (by decide) hd hdn hm hmn hlo' hhi'
    have hm' : m' ≠ 0 := by have := Nat.two_pow_pos b64.mbits; omega
    have hd0 : 0 ≤ δ + 1 / 2 ^ 53 + δ * (1 / 2 ^ 53) := by positivity
    have hXT : 0 < X * (1 / T) := by positivity
    have hcr' := (hcr.trans hP hXT hu hd0).mono hXT.le (three_u δ (1 / 2 ^ 53) hδ hu hδ2)
    refine ⟨m', e', by simpa using hdr, hm', hcr', ?_, ?_⟩
    · have := hcr.ge
      have hu' : uro b64 = 1 / 2 ^ 53 := rfl
      rw [hu'] at this
      have h53 : (0 : ℚ) ≤ 1 - 1 / 2 ^ 53 := by norm_num
      have h2 := mul_le_mul_of_nonneg_left hprodlo h53
      have h3 : (1 - 3 / 2 ^ 53 : ℚ) ≤ (1 - 1 / 2 ^ 53) * ((1 - 1 / 2 ^ 53) * (1 - 1 / 2 ^ 53)) := by norm_num
      linarith
    · have := hcr.le
      have hu' : uro b64 = 1 / 2 ^ 53 := rfl
      rw [hu'] at this
      -- V·N ≤ T·T·(1+ε) · (1+u)/T
      have h1 : qv m e * qv mn en ≤ (T * T * (1 + ε)) * ((1 + 1 / 2 ^ 53) * (1 / T)) :=
        mul_le_mul hhi hNle hNpos.le (by positivity)
      have h2 : (T * T * (1 + ε)) * ((1 + 1 / 2 ^ 53) * (1 / T)) = T * ((1 + ε) * (1 + 1 / 2 ^ 53)) := by
        field_simp
      rw [h2] at h1
      have h3 : (1 + 1 / 2 ^ 53) * (T * ((1 + ε) * (1 + 1 / 2 ^ 53))) ≤ T * (1 + (ε + 3 / 2 ^ 53)) := by
        have : (1 + 1 / 2 ^ 53) * ((1 + ε) * (1 + 1 / 2 ^ 53)) ≤ 1 + (ε + 3 / 2 ^ 53) := by nlinarith
        nlinarith
      have h4 : (1 + 1 / 2 ^ 53) * (qv m e * qv mn en) ≤ (1 + 1 / 2 ^ 53) * (T * ((1 + ε) * (1 + 1 / 2 ^ 53))) :=
        mul_le_mul_of_nonneg_left h1 (by norm_num)
      linarith
  · intro hge
    have hPV : ¬ qv mp ep ≤ qv m e := by
      intro h; rw [(ge_q b64 v _ m mp e ep hd hdp).mpr h] at hge; cases hge
    have : qv m e ≤ (1 + 1 / 2 ^ 53) * T := by linarith
    nlinarith
/-! ## one step of the second loop (values `≤ 1e-5` are multiplied by powers of ten) -/

theorem big_num_8 : (10 : ℚ) ^ 256 ≤ (2 : ℚ) ^ (1000 : Int) := by
  have : (10 ^ 256 : Nat) ≤ 2 ^ 1000 := by decide +kernel
  have h : ((10 ^ 256 : Nat) : ℚ) ≤ ((2 ^ 1000 : Nat) : ℚ) := by exact_mod_cast this
  rw [show (1000 : Int) = ((1000 : Nat) : Int) from rfl, zpow_natCast]
  push_cast at h; exact h

theorem ten_pow_le (k : Nat) (hk : k < 9) : (10 : ℚ) ^ (2 ^ k) ≤ (2 : ℚ) ^ (1000 : Int) := by
  have h1 : 2 ^ k ≤ 256 := by
    have : 2 ^ k ≤ 2 ^ 8 := Nat.pow_le_pow_right (by decide) (by omega)
    simpa using this
  exact le_trans (pow_le_pow_right₀ (by norm_num) h1) big_num_8

theorem tenth_pow_sq (k : Nat) : (1 / 10 : ℚ) ^ (2 ^ (k + 1)) = 1 / ((10 : ℚ) ^ (2 ^ k) * (10 : ℚ) ^ (2 ^ k)) := by
  rw [one_div_pow, ten_pow_sq]

/-- the threshold `fl(neg64[k]·10)` of the second loop is within `(1 ± u)^2` of `10^(1 − 2^k)` -/
theorem thresholdB (k : Nat) (hk : k < 9) :
    ∃ (mt : Nat) (et : Int), decode b64 (SF.mul b64 (neg64[k]!) JS.ten) = .fin false mt et ∧
      (1 - 1 / 2 ^ 53) * ((1 - 1 / 2 ^ 53) * (10 / (10 : ℚ) ^ (2 ^ k))) ≤ qv mt et ∧
      qv mt et ≤ (1 + 1 / 2 ^ 53) * ((1 + 1 / 2 ^ 53) * (10 / (10 : ℚ) ^ (2 ^ k))) := by
  obtain ⟨mn, en, hdn, hmn, hcn⟩ := neg64_bang k hk
  have hT10 := ten_pow_ge k
  have hTle := ten_pow_le k hk
  rw [tenth_pow] at hcn
  have hW : (2 : ℚ) ^ (emin b64 + (b64.mbits : Int)) ≤ (2 : ℚ) ^ (-1000 : Int) := by
    rw [emin_b64]; exact zpow_le_zpow_right₀ (by norm_num) (by norm_num)
  have hWW : (2 : ℚ) ^ (-1000 : Int) * (2 : ℚ) ^ (1000 : Int) = 1 := by
    rw [← zpow_add₀ (by norm_num : (2 : ℚ) ≠ 0)]; norm_num
  have hWp := two_zpow_pos (-1000)
  have hTop : (16 : ℚ) ≤ (2 : ℚ) ^ ((b64.emax : Int) - b64.bias - 1) := by
    rw [top_b64]
    calc (16 : ℚ) = (2 : ℚ) ^ (4 : Int) := by norm_num
      _ ≤ _ := zpow_le_zpow_right₀ (by norm_num) (by norm_num)
  have hmul := fun hlo hhi => mul_relQ b64 (neg64[k]!) JS.ten false false mn 5629499534213120 en (-49) (by decide)
    hdn decode_ten64 hmn (by decide) hlo hhi
  generalize (2 : ℚ) ^ ((b64.emax : Int) - b64.bias - 1) = Top at *
  generalize (2 : ℚ) ^ (emin b64 + (b64.mbits : Int)) = Low at *
  generalize (2 : ℚ) ^ (-1000 : Int) = W at *
  generalize (2 : ℚ) ^ (1000 : Int) = W' at *
  generalize (10 : ℚ) ^ (2 ^ k) = T at *
  have hT : 0 < T := by linarith
  have hWT : W ≤ 1 / T := by
    rw [le_div_iff₀ hT]
    calc W * T ≤ W * W' := mul_le_mul_of_nonneg_left hTle hWp.le
      _ = 1 := hWW
  have hNge := hcn.ge
  have hNle := hcn.le
  have hT1 : 1 / T ≤ 1 / 10 := one_div_le_one_div_of_le (by norm_num) hT10
  have hlo : Low ≤ qv mn en * qv 5629499534213120 (-49) := by
    rw [qv_ten]; nlinarith
  have hhi : qv mn en * qv 5629499534213120 (-49) < Top := by
    rw [qv_ten]; nlinarith
  obtain ⟨mt, et, hdt, _, _, hct⟩ := hmul hlo hhi
  refine ⟨mt, et, by simpa using hdt, ?_, ?_⟩
  · have := hct.ge
    rw [qv_ten, show uro b64 = 1 / 2 ^ 53 from rfl] at this
    have h2 : (1 - 1 / 2 ^ 53) * ((1 - 1 / 2 ^ 53) * (1 / T) * 10) ≤ (1 - 1 / 2 ^ 53) * (qv mn en * 10) :=
      mul_le_mul_of_nonneg_left (by linarith) (by norm_num)
    have h3 : (1 - 1 / 2 ^ 53) * ((1 - 1 / 2 ^ 53) * (10 / T)) = (1 - 1 / 2 ^ 53) * ((1 - 1 / 2 ^ 53) * (1 / T) * 10) := by ring
    linarith
  · have := hct.le
    rw [qv_ten, show uro b64 = 1 / 2 ^ 53 from rfl] at this
    have h2 : (1 + 1 / 2 ^ 53) * (qv mn en * 10) ≤ (1 + 1 / 2 ^ 53) * ((1 + 1 / 2 ^ 53) * (1 / T) * 10) :=
      mul_le_mul_of_nonneg_left (by linarith) (by norm_num)
    have h3 : (1 + 1 / 2 ^ 53) * ((1 + 1 / 2 ^ 53) * (10 / T)) = (1 + 1 / 2 ^ 53) * ((1 + 1 / 2 ^ 53) * (1 / T) * 10) := by ring
    linarith

theorem stepB_math (k : Nat) (hk : k < 9) (v m : Nat) (e : Int) (X δ ε : ℚ)
    (hd : decode b64 v = .fin false m e) (hm : m ≠ 0) (hX : 0 < X)
    (hδ : 0 ≤ δ) (hδ2 : δ + 5 / 2 * (1 / 2 ^ 53) ≤ 1 / 8) (hε : 0 ≤ ε) (hε2 : ε ≤ 1 / 8)
    (hc : Close δ (qv m e) X)
    (hlo : 10 / ((10 : ℚ) ^ (2 ^ k) * (10 : ℚ) ^ (2 ^ k)) * (1 - ε) ≤ qv m e)
    (hhi : qv m e ≤ 10 * (1 + 5 / 2 ^ 53)) :
    (SF.lt b64 v (SF.mul b64 (neg64[k]!) JS.ten) = true →
      ∃ (m' : Nat) (e' : Int), decode b64 (SF.mul b64 v (pos64[k]!)) = .fin false m' e' ∧ m' ≠ 0 ∧
        Close (δ + 5 / 2 * (1 / 2 ^ 53)) (qv m' e') (X * (10 : ℚ) ^ (2 ^ k)) ∧
        10 / (10 : ℚ) ^ (2 ^ k) * (1 - (ε + 3 / 2 ^ 53)) ≤ qv m' e' ∧ qv m' e' ≤ 10 * (1 + 5 / 2 ^ 53)) ∧
    (SF.lt b64 v (SF.mul b64 (neg64[k]!) JS.ten) = false →
      10 / (10 : ℚ) ^ (2 ^ k) * (1 - (ε + 3 / 2 ^ 53)) ≤ qv m e) := by
  obtain ⟨mp, ep, hdp, hmp, hcp⟩ := pos64_bang k hk
  obtain ⟨mt, et, hdt, htlo, hthi⟩ := thresholdB k hk
  have hT10 := ten_pow_ge k
  have hTle := ten_pow_le k hk
  have hW : (2 : ℚ) ^ (emin b64 + (b64.mbits : Int)) ≤ (2 : ℚ) ^ (-1000 : Int) := by
    rw [emin_b64]; exact zpow_le_zpow_right₀ (by norm_num) (by norm_num)
  have hWW : (2 : ℚ) ^ (-1000 : Int) * (2 : ℚ) ^ (1000 : Int) = 1 := by
    rw [← zpow_add₀ (by norm_num : (2 : ℚ) ≠ 0)]; norm_num
  have hWp := two_zpow_pos (-1000)
  have hTop : (16 : ℚ) ≤ (2 : ℚ) ^ ((b64.emax : Int) - b64.bias - 1) := by
    rw [top_b64]
    calc (16 : ℚ) = (2 : ℚ) ^ (4 : Int) := by norm_num
      _ ≤ _ := zpow_le_zpow_right₀ (by norm_num) (by norm_num)
  have hmul := fun hlo hhi => mul_relQ b64 v (pos64[k]!) false false m mp e ep (by decide) hd hdp hm hmp hlo hhi
  generalize (2 : ℚ) ^ ((b64.emax : Int) - b64.bias - 1) = Top at *
  generalize (2 : ℚ) ^ (emin b64 + (b64.mbits : Int)) = Low at *
  generalize (2 : ℚ) ^ (-1000 : Int) = W at *
  generalize (2 : ℚ) ^ (1000 : Int) = W' at *
  generalize (10 : ℚ) ^ (2 ^ k) = T at *
  have hT : 0 < T := by linarith
  have hWT : W ≤ 1 / T := by
    rw [le_div_iff₀ hT]
    calc W * T ≤ W * W' := mul_le_mul_of_nonneg_left hTle hWp.le
      _ = 1 := hWW
  have hV : 0 < qv m e := qv_pos hm e
  have hPge := hcp.ge
  have hPle := hcp.le
  have hPpos : 0 < qv mp ep := qv_pos hmp ep
  have hu : (0 : ℚ) ≤ 1 / 2 ^ 53 := by norm_num
  have h10T : 10 / T = 10 * (1 / T) := by ring
  constructor
  · intro hlt
    have hVT : qv m e < qv mt et := (lt_q b64 v _ m mt e et hd hdt).mp hlt
    have hP := hc.mul hcp hX hT hδ hu
    -- lower bound of the exact product: 10/T·(1−ε)(1−u)
    have hprodlo : 10 / T * ((1 - ε) * (1 - 1 / 2 ^ 53)) ≤ qv m e * qv mp ep := by
      have h3 : (0 : ℚ) ≤ (1 - 1 / 2 ^ 53) * T := by positivity
      have := mul_le_mul hlo hPge h3 hV.le
      calc 10 / T * ((1 - ε) * (1 - 1 / 2 ^ 53)) = 10 / (T * T) * (1 - ε) * ((1 - 1 / 2 ^ 53) * T) := by
            field_simp
        _ ≤ _ := this
    have hprodhi : qv m e * qv mp ep ≤ 10 * ((1 + 1 / 2 ^ 53) * (1 + 1 / 2 ^ 53) * (1 + 1 / 2 ^ 53)) := by
      have h1 : qv m e ≤ (1 + 1 / 2 ^ 53) * ((1 + 1 / 2 ^ 53) * (10 / T)) := le_trans hVT.le hthi
      have := mul_le_mul h1 hPle hPpos.le (by positivity)
      calc qv m e * qv mp ep ≤ (1 + 1 / 2 ^ 53) * ((1 + 1 / 2 ^ 53) * (10 / T)) * ((1 + 1 / 2 ^ 53) * T) := this
        _ = _ := by field_simp
    have hfac : (1 / 2 : ℚ) ≤ (1 - ε) * (1 - 1 / 2 ^ 53) := by nlinarith
    have hlo' : Low ≤ qv m e * qv mp ep := by
      have : 1 / T * (1 / 2 * 10) ≤ 10 / T * ((1 - ε) * (1 - 1 / 2 ^ 53)) := by
        rw [h10T]
        have : (0 : ℚ) < 1 / T := by positivity
        nlinarith
      nlinarith
    have hhi' : qv m e * qv mp ep < Top := by
      have : (10 : ℚ) * ((1 + 1 / 2 ^ 53) * (1 + 1 / 2 ^ 53) * (1 + 1 / 2 ^ 53)) < 16 := by norm_num
      linarith
    obtain ⟨m', e', hdr, hn1, _, hcr⟩ := hmul hlo' hhi'
    have hm' : m' ≠ 0 := by have := Nat.two_pow_pos b64.mbits; omega
    have hd0 : 0 ≤ δ + 1 / 2 ^ 53 + δ * (1 / 2 ^ 53) := by positivity
    have hXT : 0 < X * T := by positivity
    have hcr' := (hcr.trans hP hXT hu hd0).mono hXT.le (three_u δ (1 / 2 ^ 53) hδ hu hδ2)
    have hu' : uro b64 = 1 / 2 ^ 53 := rfl
    refine ⟨m', e', by simpa using hdr, hm', hcr', ?_, ?_⟩
    · have := hcr.ge
      rw [hu'] at this
      have h2 := mul_le_mul_of_nonneg_left hprodlo (by norm_num : (0 : ℚ) ≤ 1 - 1 / 2 ^ 53)
      have h3 : 10 / T * (1 - (ε + 3 / 2 ^ 53)) ≤ (1 - 1 / 2 ^ 53) * (10 / T * ((1 - ε) * (1 - 1 / 2 ^ 53))) := by
        have h4 : 1 - (ε + 3 / 2 ^ 53) ≤ (1 - 1 / 2 ^ 53) * ((1 - ε) * (1 - 1 / 2 ^ 53)) := by nlinarith
        have h5 : (0 : ℚ) ≤ 10 / T := by positivity
        calc 10 / T * (1 - (ε + 3 / 2 ^ 53)) ≤ 10 / T * ((1 - 1 / 2 ^ 53) * ((1 - ε) * (1 - 1 / 2 ^ 53))) :=
              mul_le_mul_of_nonneg_left h4 h5
          _ = _ := by ring
      linarith
    · have := hcr.le
      rw [hu'] at this
      have h2 := mul_le_mul_of_nonneg_left hprodhi (by norm_num : (0 : ℚ) ≤ 1 + 1 / 2 ^ 53)
      have h3 : (1 + 1 / 2 ^ 53) * (10 * ((1 + 1 / 2 ^ 53) * (1 + 1 / 2 ^ 53) * (1 + 1 / 2 ^ 53))) ≤ (10 : ℚ) * (1 + 5 / 2 ^ 53) := by
        norm_num
      linarith
  · intro hlt
    have hVT : qv mt et ≤ qv m e := (lt_q_false b64 v _ m mt e et hd hdt).mp hlt
    have h4 : 1 - (ε + 3 / 2 ^ 53) ≤ (1 - 1 / 2 ^ 53) * (1 - 1 / 2 ^ 53) := by nlinarith
    have h5 : (0 : ℚ) ≤ 10 / T := by positivity
    calc 10 / T * (1 - (ε + 3 / 2 ^ 53)) ≤ 10 / T * ((1 - 1 / 2 ^ 53) * (1 - 1 / 2 ^ 53)) :=
          mul_le_mul_of_nonneg_left h4 h5
      _ = (1 - 1 / 2 ^ 53) * ((1 - 1 / 2 ^ 53) * (10 / T)) := by ring
      _ ≤ qv mt et := htlo
      _ ≤ qv m e := hVT

/-! ## the two loops -/

abbrev NSt := Nat × Int × Int × Nat    -- (value, powersOf10, index, bit)

def bodyA : Nat → NSt → Id (ForInStep NSt) := fun _ s =>
  if s.2.2.1 ≥ 0 then
    if SF.ge b64 s.1 (pos64[s.2.2.1.toNat]!) = true then
      pure (ForInStep.yield (SF.mul b64 s.1 (neg64[s.2.2.1.toNat]!), s.2.1 + ↑s.2.2.2, s.2.2.1 - 1, s.2.2.2 / 2))
    else pure (ForInStep.yield (s.1, s.2.1, s.2.2.1 - 1, s.2.2.2 / 2))
  else pure (ForInStep.yield (s.1, s.2.1, s.2.2.1, s.2.2.2))

def bodyB : Nat → NSt → Id (ForInStep NSt) := fun _ s =>
  if s.2.2.1 ≥ 0 then
    if SF.lt b64 s.1 (SF.mul b64 (neg64[s.2.2.1.toNat]!) JS.ten) = true then
      pure (ForInStep.yield (SF.mul b64 s.1 (pos64[s.2.2.1.toNat]!), s.2.1 - ↑s.2.2.2, s.2.2.1 - 1, s.2.2.2 / 2))
    else pure (ForInStep.yield (s.1, s.2.1, s.2.2.1 - 1, s.2.2.2 / 2))
  else pure (ForInStep.yield (s.1, s.2.1, s.2.2.1, s.2.2.2))

def loopA (s : NSt) : NSt := (forIn [:9] s bodyA : Id NSt).run
def loopB (s : NSt) : NSt := (forIn [:9] s bodyB : Id NSt).run

theorem normalize_eq (v : Nat) : normalize v =
    if SF.ge b64 v tenE7 = true then
      (if (SF.gt b64 (loopA (v, 0, 8, 256)).1 0 && SF.le b64 (loopA (v, 0, 8, 256)).1 tenEm5) = true then
        ((loopB (loopA (v, 0, 8, 256))).1, (loopB (loopA (v, 0, 8, 256))).2.1)
       else ((loopA (v, 0, 8, 256)).1, (loopA (v, 0, 8, 256)).2.1))
    else if (SF.gt b64 v 0 && SF.le b64 v tenEm5) = true then
      ((loopB (v, 0, 8, 256)).1, (loopB (v, 0, 8, 256)).2.1)
    else (v, 0) := by
  unfold normalize
  rfl

/-- invariant of the first loop after `j` iterations, for the exact input value `x` -/
def NormInvA (x : ℚ) (j : Nat) (s : NSt) : Prop :=
  s.2.2.1 = 8 - (j : Int) ∧ (j ≤ 8 → s.2.2.2 = 2 ^ (8 - j)) ∧
  ∃ (m : Nat) (e : Int), decode b64 s.1 = .fin false m e ∧ m ≠ 0 ∧
    Close (5 / 2 * (1 / 2 ^ 53) * (j : ℚ)) (qv m e) (x * (10 : ℚ) ^ (-s.2.1)) ∧
    1 - 3 / 2 ^ 53 ≤ qv m e ∧ qv m e ≤ (10 : ℚ) ^ (2 ^ (9 - j)) * (1 + 3 / 2 ^ 53 * (j : ℚ))

theorem zpow_neg_add_nat (p : Int) (n : Nat) :
    (10 : ℚ) ^ (-(p + ((n : Nat) : Int))) = (10 : ℚ) ^ (-p) * (1 / 10 : ℚ) ^ n := by
  rw [neg_add, zpow_add₀ (by norm_num : (10 : ℚ) ≠ 0), zpow_neg _ (n : Int), zpow_natCast, one_div_pow, one_div]

theorem zpow_neg_sub_nat (p : Int) (n : Nat) :
    (10 : ℚ) ^ (-(p - ((n : Nat) : Int))) = (10 : ℚ) ^ (-p) * (10 : ℚ) ^ n := by
  rw [neg_sub, show ((n : Nat) : Int) - p = -p + (n : Int) by ring, zpow_add₀ (by norm_num : (10 : ℚ) ≠ 0), zpow_natCast]

theorem stepA_inv (x : ℚ) (hx : 0 < x) (i xx : Nat) (b : NSt) (hi : i < 9) (h : NormInvA x i b) :
    ∃ b', bodyA xx b = pure (ForInStep.yield b') ∧ NormInvA x (i + 1) b' := by
  obtain ⟨v, p, idx, bit⟩ := b
  obtain ⟨hidx, hbit, m, e, hd, hm, hc, hlo, hhi⟩ := h
  simp only at hidx hbit hd hc hhi
  have hbit' : bit = 2 ^ (8 - i) := hbit (by omega)
  obtain ⟨k, hk⟩ : ∃ k, k = 8 - i := ⟨_, rfl⟩
  have hk9 : k < 9 := by omega
  have hidx0 : idx ≥ 0 := by omega
  have htn : idx.toNat = k := by omega
  have e9 : 9 - i = k + 1 := by omega
  have e9' : 9 - (i + 1) = k := by omega
  rw [e9] at hhi
  rw [← hk] at hbit'
  have hiq : (i : ℚ) ≤ 8 := by exact_mod_cast (by omega : i ≤ 8)
  have hi0 : (0 : ℚ) ≤ (i : ℚ) := by positivity
  have hX : 0 < x * (10 : ℚ) ^ (-p) := mul_pos hx (ten_zpow_pos _)
  obtain ⟨h1, h2⟩ := stepA_math k hk9 v m e (x * (10 : ℚ) ^ (-p)) (5 / 2 * (1 / 2 ^ 53) * (i : ℚ)) (3 / 2 ^ 53 * (i : ℚ))
    hd hm hX (by positivity) (by nlinarith) (by positivity) (by nlinarith) hc hlo hhi
  have hδ' : 5 / 2 * (1 / 2 ^ 53) * ((i + 1 : Nat) : ℚ) = 5 / 2 * (1 / 2 ^ 53) * (i : ℚ) + 5 / 2 * (1 / 2 ^ 53) := by
    push_cast; ring
  have hε' : 3 / 2 ^ 53 * ((i + 1 : Nat) : ℚ) = 3 / 2 ^ 53 * (i : ℚ) + 3 / 2 ^ 53 := by push_cast; ring
  have hidx' : idx - 1 = 8 - ((i + 1 : Nat) : Int) := by push_cast; omega
  have hbitn : i + 1 ≤ 8 → bit / 2 = 2 ^ (8 - (i + 1)) := by
    intro h8
    have : k = (8 - (i + 1)) + 1 := by omega
    rw [hbit', this, Nat.pow_succ, Nat.mul_div_cancel _ (by decide : 0 < 2)]
  unfold bodyA
  simp only [hidx0, htn, if_true]
  by_cases hge : SF.ge b64 v (pos64[k]!) = true
  · rw [if_pos hge]
    refine ⟨_, rfl, hidx', hbitn, ?_⟩
    obtain ⟨m', e', hd', hm', hc', hlo', hhi'⟩ := h1 hge
    refine ⟨m', e', hd', hm', ?_, hlo', ?_⟩
    · show Close _ _ (x * (10 : ℚ) ^ (-(p + ((bit : Nat) : Int))))
      rw [hδ', hbit', zpow_neg_add_nat, ← mul_assoc]; exact hc'
    · rw [e9', hε']; exact hhi'
  · rw [if_neg hge]
    refine ⟨_, rfl, hidx', hbitn, m, e, hd, hm, ?_, hlo, ?_⟩
    · rw [hδ']; exact hc.mono hX.le (by norm_num)
    · rw [e9', hε']; exact h2 (by simpa using hge)

/-- invariant of the second loop after `j` iterations -/
def NormInvB (x : ℚ) (j : Nat) (s : NSt) : Prop :=
  s.2.2.1 = 8 - (j : Int) ∧ (j ≤ 8 → s.2.2.2 = 2 ^ (8 - j)) ∧
  ∃ (m : Nat) (e : Int), decode b64 s.1 = .fin false m e ∧ m ≠ 0 ∧
    Close (5 / 2 * (1 / 2 ^ 53) * (j : ℚ)) (qv m e) (x * (10 : ℚ) ^ (-s.2.1)) ∧
    10 / (10 : ℚ) ^ (2 ^ (9 - j)) * (1 - 3 / 2 ^ 53 * (j : ℚ)) ≤ qv m e ∧ qv m e ≤ 10 * (1 + 5 / 2 ^ 53)

theorem stepB_inv (x : ℚ) (hx : 0 < x) (i xx : Nat) (b : NSt) (hi : i < 9) (h : NormInvB x i b) :
    ∃ b', bodyB xx b = pure (ForInStep.yield b') ∧ NormInvB x (i + 1) b' := by
  obtain ⟨v, p, idx, bit⟩ := b
  obtain ⟨hidx, hbit, m, e, hd, hm, hc, hlo, hhi⟩ := h
  simp only at hidx hbit hd hc hlo
  have hbit' : bit = 2 ^ (8 - i) := hbit (by omega)
  obtain ⟨k, hk⟩ : ∃ k, k = 8 - i := ⟨_, rfl⟩
  have hk9 : k < 9 := by omega
  have hidx0 : idx ≥ 0 := by omega
  have htn : idx.toNat = k := by omega
  have e9 : 9 - i = k + 1 := by omega
  have e9' : 9 - (i + 1) = k := by omega
  rw [e9, ten_pow_sq] at hlo
  rw [← hk] at hbit'
  have hiq : (i : ℚ) ≤ 8 := by exact_mod_cast (by omega : i ≤ 8)
  have hi0 : (0 : ℚ) ≤ (i : ℚ) := by positivity
  have hX : 0 < x * (10 : ℚ) ^ (-p) := mul_pos hx (ten_zpow_pos _)
  obtain ⟨h1, h2⟩ := stepB_math k hk9 v m e (x * (10 : ℚ) ^ (-p)) (5 / 2 * (1 / 2 ^ 53) * (i : ℚ)) (3 / 2 ^ 53 * (i : ℚ))
    hd hm hX (by positivity) (by nlinarith) (by positivity) (by nlinarith) hc hlo hhi
  have hδ' : 5 / 2 * (1 / 2 ^ 53) * ((i + 1 : Nat) : ℚ) = 5 / 2 * (1 / 2 ^ 53) * (i : ℚ) + 5 / 2 * (1 / 2 ^ 53) := by
    push_cast; ring
  have hε' : 3 / 2 ^ 53 * ((i + 1 : Nat) : ℚ) = 3 / 2 ^ 53 * (i : ℚ) + 3 / 2 ^ 53 := by push_cast; ring
  have hidx' : idx - 1 = 8 - ((i + 1 : Nat) : Int) := by push_cast; omega
  have hbitn : i + 1 ≤ 8 → bit / 2 = 2 ^ (8 - (i + 1)) := by
    intro h8
    have : k = (8 - (i + 1)) + 1 := by omega
    rw [hbit', this, Nat.pow_succ, Nat.mul_div_cancel _ (by decide : 0 < 2)]
  unfold bodyB
  simp only [hidx0, htn, if_true]
  by_cases hlt : SF.lt b64 v (SF.mul b64 (neg64[k]!) JS.ten) = true
  · rw [if_pos hlt]
    refine ⟨_, rfl, hidx', hbitn, ?_⟩
    obtain ⟨m', e', hd', hm', hc', hlo', hhi'⟩ := h1 hlt
    refine ⟨m', e', hd', hm', ?_, ?_, hhi'⟩
    · show Close _ _ (x * (10 : ℚ) ^ (-(p - ((bit : Nat) : Int))))
      rw [hδ', hbit', zpow_neg_sub_nat, ← mul_assoc]; exact hc'
    · rw [e9', hε']; exact hlo'
  · rw [if_neg hlt]
    refine ⟨_, rfl, hidx', hbitn, m, e, hd, hm, ?_, ?_, hhi⟩
    · rw [hδ']; exact hc.mono hX.le (by norm_num)
    · rw [e9', hε']; exact h2 (by simpa using hlt)

theorem loopA_spec (x : ℚ) (hx : 0 < x) (s : NSt) (h : NormInvA x 0 s) : NormInvA x 9 (loopA s) :=
  range_forIn_idx (NormInvA x) 9 bodyA s h (fun i xx b hi hp => stepA_inv x hx i xx b hi hp)

theorem loopB_spec (x : ℚ) (hx : 0 < x) (s : NSt) (h : NormInvB x 0 s) : NormInvB x 9 (loopB s) :=
  range_forIn_idx (NormInvB x) 9 bodyB s h (fun i xx b hi hp => stepB_inv x hx i xx b hi hp)

/-! ## `normalize` -/

theorem decode_tenE7 : decode b64 tenE7 = .fin false 5368709120000000 (-29) := by decide +kernel
theorem decode_tenEm5 : decode b64 tenEm5 = .fin false 5902958103587057 (-69) := by decide +kernel
theorem qv_tenE7 : qv 5368709120000000 (-29) = 10 ^ 7 := by unfold qv; norm_num [zpow_neg]
theorem qv_tenEm5 : 1 / 10 ^ 6 < qv 5902958103587057 (-69) ∧ qv 5902958103587057 (-69) < 2 / 10 ^ 5 := by
  unfold qv; constructor <;> norm_num [zpow_neg]

theorem big_num_9 : 2 * (2 : ℚ) ^ ((b64.emax : Int) - b64.bias - 1) ≤ (10 : ℚ) ^ (2 ^ 9) := by
  have : (2 * 2 ^ 1023 : Nat) ≤ 10 ^ 512 := by decide +kernel
  have h : ((2 * 2 ^ 1023 : Nat) : ℚ) ≤ ((10 ^ 512 : Nat) : ℚ) := by exact_mod_cast this
  rw [top_b64, show (1023 : Int) = ((1023 : Nat) : Int) from rfl, zpow_natCast, show (2 : Nat) ^ 9 = 512 from rfl]
  push_cast at h; exact h

theorem big_num_10 : 10 / (10 : ℚ) ^ (2 ^ 9) ≤ (2 : ℚ) ^ (-1074 : Int) := by
  have : (10 * 2 ^ 1074 : Nat) ≤ 10 ^ 512 := by decide +kernel
  have h : ((10 * 2 ^ 1074 : Nat) : ℚ) ≤ ((10 ^ 512 : Nat) : ℚ) := by exact_mod_cast this
  rw [show (-1074 : Int) = -((1074 : Nat) : Int) from rfl, zpow_neg, zpow_natCast, show (2 : Nat) ^ 9 = 512 from rfl]
  push_cast at h
  have hA : (0 : ℚ) < (10 : ℚ) ^ 512 := by positivity
  have hB : (0 : ℚ) < (2 : ℚ) ^ 1074 := by positivity
  generalize (10 : ℚ) ^ 512 = A at *
  generalize (2 : ℚ) ^ 1074 = B at *
  rw [div_le_iff₀ hA, ← one_div, div_mul_eq_mul_div, le_div_iff₀ hB]
  linarith

/-- every non-zero finite datum is at least `2^emin` -/
theorem fin_ge_bot (f : Fmt) (b : Nat) (n : Bool) (m : Nat) (e : Int) (h : decode f b = .fin n m e) (hm : m ≠ 0) :
    (2 : ℚ) ^ (emin f) ≤ qv m e := by
  have h1 := (decode_fin_bounds f b n m e h).1
  have hmq : (1 : ℚ) ≤ (m : ℚ) := by exact_mod_cast Nat.pos_of_ne_zero hm
  have h2 : (2 : ℚ) ^ (emin f) ≤ (2 : ℚ) ^ e := zpow_le_zpow_right₀ (by norm_num) h1
  have hp := two_zpow_pos e
  unfold qv
  nlinarith

/-- NORMALIZE. A positive finite binary64 datum `x` is returned unchanged with exponent `0` (then `1e-6 < x < 1e7`), or is
    scaled to `y ∈ [1 − 27u, 10·(1 + 27u)]`, `u = 2^-53`, with `|y − x·10^-p| ≤ 22.5u · x·10^-p` for the returned exponent `p`. -/
theorem normalize_spec (v m : Nat) (e : Int) (hd : decode b64 v = .fin false m e) (hm : m ≠ 0) :
    (normalize v = (v, 0) ∧ 1 / 10 ^ 6 < qv m e ∧ qv m e < 10 ^ 7) ∨
    (∃ (my : Nat) (ey : Int), decode b64 (normalize v).1 = .fin false my ey ∧ my ≠ 0 ∧
      Close (45 / 2 ^ 54) (qv my ey) (qv m e * (10 : ℚ) ^ (-(normalize v).2)) ∧
      1 - 27 / 2 ^ 53 ≤ qv my ey ∧ qv my ey ≤ 10 * (1 + 27 / 2 ^ 53)) := by
  have hx : 0 < qv m e := qv_pos hm e
  have hgt0 : SF.gt b64 v 0 = true := (gt_q b64 v 0 m 0 e _ hd (decode_zero b64 (by decide))).mpr (by unfold qv at *; simpa using hx)
  rw [normalize_eq]
  by_cases h7 : SF.ge b64 v tenE7 = true
  · rw [if_pos h7]
    right
    have hx7 : (10 : ℚ) ^ 7 ≤ qv m e := by
      have := (ge_q b64 v tenE7 m _ e _ hd decode_tenE7).mp h7
      rwa [qv_tenE7] at this
    have h0 : NormInvA (qv m e) 0 (v, 0, 8, 256) := by
      refine ⟨by simp, fun _ => by norm_num, m, e, hd, hm, ?_, ?_, ?_⟩
      · simp [Close]
      · linarith
      · have := fin_lt_top64 v false m e hd
        have h9 := big_num_9
        simp only [Nat.sub_zero, Nat.cast_zero, mul_zero, add_zero, mul_one]
        generalize (10 : ℚ) ^ (2 ^ 9) = A at *
        generalize (2 : ℚ) ^ ((b64.emax : Int) - b64.bias - 1) = B at *
        linarith
    obtain ⟨_, _, my, ey, hdy, hmy, hcy, hloy, hhiy⟩ := loopA_spec (qv m e) hx _ h0
    have hle : SF.le b64 (loopA (v, 0, 8, 256)).1 tenEm5 = false := by
      by_contra hc
      have hc' : SF.le b64 (loopA (v, 0, 8, 256)).1 tenEm5 = true := by simpa using hc
      have := (le_q b64 _ tenEm5 my _ ey _ hdy decode_tenEm5).mp hc'
      have h5 := qv_tenEm5.2
      have : (1 : ℚ) - 3 / 2 ^ 53 ≤ 2 / 10 ^ 5 := by linarith
      norm_num at this
    rw [hle, Bool.and_false, if_neg (by simp)]
    refine ⟨my, ey, hdy, hmy, ?_, by linarith, ?_⟩
    · have : (5 / 2 * (1 / 2 ^ 53) * ((9 : Nat) : ℚ)) = 45 / 2 ^ 54 := by norm_num
      rw [this] at hcy; exact hcy
    · have : (10 : ℚ) ^ (2 ^ (9 - 9)) * (1 + 3 / 2 ^ 53 * ((9 : Nat) : ℚ)) = 10 * (1 + 27 / 2 ^ 53) := by norm_num
      rw [this] at hhiy; exact hhiy
  · rw [if_neg h7]
    have hx7 : qv m e < (10 : ℚ) ^ 7 := by
      by_contra hc
      have := (ge_q b64 v tenE7 m _ e _ hd decode_tenE7).mpr (by rw [qv_tenE7]; linarith)
      exact h7 this
    by_cases h5 : SF.le b64 v tenEm5 = true
    · rw [hgt0, h5, Bool.and_self, if_pos rfl]
      right
      have hx5 : qv m e ≤ qv 5902958103587057 (-69) := (le_q b64 v tenEm5 m _ e _ hd decode_tenEm5).mp h5
      have h0 : NormInvB (qv m e) 0 (v, 0, 8, 256) := by
        refine ⟨by simp, fun _ => by norm_num, m, e, hd, hm, ?_, ?_, ?_⟩
        · simp [Close]
        · have := fin_ge_bot b64 v false m e hd hm
          have h10 := big_num_10
          rw [show emin b64 = -1074 from by decide] at this
          simp only [Nat.sub_zero, Nat.cast_zero, mul_zero, sub_zero, mul_one]
          generalize (10 : ℚ) ^ (2 ^ 9) = A at *
          generalize (2 : ℚ) ^ (-1074 : Int) = B at *
          linarith
        · have := qv_tenEm5.2
          have h2 : (2 / 10 ^ 5 : ℚ) ≤ 10 * (1 + 5 / 2 ^ 53) := by norm_num
          linarith
      obtain ⟨_, _, my, ey, hdy, hmy, hcy, hloy, hhiy⟩ := loopB_spec (qv m e) hx _ h0
      refine ⟨my, ey, hdy, hmy, ?_, ?_, by linarith⟩
      · have : (5 / 2 * (1 / 2 ^ 53) * ((9 : Nat) : ℚ)) = 45 / 2 ^ 54 := by norm_num
        rw [this] at hcy; exact hcy
      · have : 10 / (10 : ℚ) ^ (2 ^ (9 - 9)) * (1 - 3 / 2 ^ 53 * ((9 : Nat) : ℚ)) = 1 - 27 / 2 ^ 53 := by norm_num
        rw [this] at hloy; exact hloy
    · have h5' : SF.le b64 v tenEm5 = false := by simpa using h5
      rw [h5', Bool.and_false, if_neg (by simp)]
      left
      refine ⟨rfl, ?_, hx7⟩
      have : ¬ qv m e ≤ qv 5902958103587057 (-69) := by
        intro h; exact h5 ((le_q b64 v tenEm5 m _ e _ hd decode_tenEm5).mpr h)
      have := qv_tenEm5.1
      linarith

end C12
