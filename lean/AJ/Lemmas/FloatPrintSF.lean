/- C12 (printing clauses): softfloat facts over ℚ used by the printer analysis: comparisons, truncation, exact roundings
   (a value that is representable is returned exactly), exact subtraction of the integral part, doubling. -/
import AJ.Lemmas.FloatErrTop
namespace C12
open SF JD

/-! ## comparisons of non-negative finite data are comparisons of their exact values -/

theorem qv_lt_iff_scaled (ma mb : Nat) (ea eb E : Int) (h1 : E ≤ ea) (h2 : E ≤ eb) :
    qv ma ea < qv mb eb ↔ ma * 2 ^ (ea - E).toNat < mb * 2 ^ (eb - E).toNat := by
  rw [← qv_scaled ma ea E h1, ← qv_scaled mb eb E h2]
  unfold qv
  have hp := two_zpow_pos E
  constructor
  · intro h
    have := lt_of_mul_lt_mul_right h hp.le
    exact_mod_cast this
  · intro h
    have : ((ma * 2 ^ (ea - E).toNat : Nat) : ℚ) < ((mb * 2 ^ (eb - E).toNat : Nat) : ℚ) := by exact_mod_cast h
    exact mul_lt_mul_of_pos_right this hp

theorem lt_q (f : Fmt) (a b : Nat) (ma mb : Nat) (ea eb : Int)
    (ha : decode f a = .fin false ma ea) (hb : decode f b = .fin false mb eb) :
    SF.lt f a b = true ↔ qv ma ea < qv mb eb := by
  rw [lt_fin f a b false false ma mb ea eb ha hb, qv_lt_iff_scaled ma mb ea eb (min ea eb) (by omega) (by omega)]
  unfold DyLt sv sgnm
  simp only [Bool.false_eq_true, if_false]
  constructor
  · intro h; exact_mod_cast h
  · intro h; exact_mod_cast h

theorem lt_q_false (f : Fmt) (a b : Nat) (ma mb : Nat) (ea eb : Int)
    (ha : decode f a = .fin false ma ea) (hb : decode f b = .fin false mb eb) :
    SF.lt f a b = false ↔ qv mb eb ≤ qv ma ea := by
  rw [← not_lt, ← lt_q f a b ma mb ea eb ha hb]; simp

theorem le_q (f : Fmt) (a b : Nat) (ma mb : Nat) (ea eb : Int)
    (ha : decode f a = .fin false ma ea) (hb : decode f b = .fin false mb eb) :
    SF.le f a b = true ↔ qv ma ea ≤ qv mb eb := by
  have h := lt_q_false f b a mb ma eb ea hb ha
  unfold SF.le
  rw [ha, hb]
  simp only [Bool.not_eq_true']
  exact h

theorem ge_q (f : Fmt) (a b : Nat) (ma mb : Nat) (ea eb : Int)
    (ha : decode f a = .fin false ma ea) (hb : decode f b = .fin false mb eb) :
    SF.ge f a b = true ↔ qv mb eb ≤ qv ma ea := by
  unfold SF.ge; exact le_q f b a mb ma eb ea hb ha

theorem gt_q (f : Fmt) (a b : Nat) (ma mb : Nat) (ea eb : Int)
    (ha : decode f a = .fin false ma ea) (hb : decode f b = .fin false mb eb) :
    SF.gt f a b = true ↔ qv mb eb < qv ma ea := by
  unfold SF.gt; exact lt_q f b a mb ma eb ea hb ha

/-! ## truncation -/

theorem toNatTrunc_fin (f : Fmt) (a : Nat) (n : Bool) (m : Nat) (e : Int) (h : decode f a = .fin n m e) :
    toNatTrunc f a = if e ≥ 0 then m * 2 ^ e.toNat else m / 2 ^ (-e).toNat := by
  unfold toNatTrunc; rw [h]

/-- `toNatTrunc` is the floor of the exact value, and the fractional part is the datum `(m mod 2^-e)·2^e` -/
theorem toNatTrunc_floor (f : Fmt) (a : Nat) (n : Bool) (m : Nat) (e : Int) (h : decode f a = .fin n m e) :
    ((toNatTrunc f a : Nat) : ℚ) ≤ qv m e ∧ qv m e < ((toNatTrunc f a : Nat) : ℚ) + 1 ∧
    ∃ r : Nat, r ≤ m ∧ qv m e - ((toNatTrunc f a : Nat) : ℚ) = qv r e ∧ (0 ≤ e → r = 0) := by
  rw [toNatTrunc_fin f a n m e h]
  by_cases he : e ≥ 0
  · rw [if_pos he]
    have : qv m e = ((m * 2 ^ e.toNat : Nat) : ℚ) := by
      unfold qv
      conv_lhs => rw [← Int.toNat_of_nonneg he, zpow_natCast]
      push_cast; ring
    rw [this]
    refine ⟨le_refl _, by linarith, 0, Nat.zero_le _, ?_, fun _ => rfl⟩
    unfold qv; simp
  · rw [if_neg he]
    have hk : e = -(((-e).toNat : Nat) : Int) := by omega
    generalize (-e).toNat = k at hk
    have hK : (0 : ℚ) < (2 : ℚ) ^ k := by positivity
    have hq : qv m e = (m : ℚ) / (2 : ℚ) ^ k := by
      unfold qv; rw [hk, zpow_neg, zpow_natCast]; ring
    have hdm := Nat.div_add_mod m (2 ^ k)
    have hr := Nat.mod_lt m (Nat.two_pow_pos k)
    have hmq : (m : ℚ) = (2 : ℚ) ^ k * ((m / 2 ^ k : Nat) : ℚ) + ((m % 2 ^ k : Nat) : ℚ) := by
      have : ((2 ^ k * (m / 2 ^ k) + m % 2 ^ k : Nat) : ℚ) = (m : ℚ) := by rw [hdm]
      rw [← this]; push_cast; ring
    have hrq : ((m % 2 ^ k : Nat) : ℚ) < (2 : ℚ) ^ k := by
      have : ((m % 2 ^ k : Nat) : ℚ) < ((2 ^ k : Nat) : ℚ) := by exact_mod_cast hr
      simpa using this
    have hr0 : (0 : ℚ) ≤ ((m % 2 ^ k : Nat) : ℚ) := by positivity
    have hfr : qv (m % 2 ^ k) e = ((m % 2 ^ k : Nat) : ℚ) / (2 : ℚ) ^ k := by
      unfold qv; rw [hk, zpow_neg, zpow_natCast]; ring
    generalize ((m / 2 ^ k : Nat) : ℚ) = Q at *
    generalize ((m % 2 ^ k : Nat) : ℚ) = R at *
    refine ⟨?_, ?_, m % 2 ^ k, Nat.mod_le _ _, ?_, fun h0 => absurd h0 he⟩
    · rw [hq, le_div_iff₀ hK]; nlinarith
    · rw [hq, div_lt_iff₀ hK]; nlinarith
    · rw [hfr, hq, hmq]
      field_simp
      ring

/-! ## a representable value is returned exactly -/

theorem rneShift_mul_pow (q k : Nat) : rneShift (q * 2 ^ k) k = q := by
  unfold rneShift
  by_cases hk : k = 0
  · subst hk; simp
  · rw [if_neg hk]
    have h1 : q * 2 ^ k / 2 ^ k = q := Nat.mul_div_cancel _ (Nat.two_pow_pos k)
    have h2 : q * 2 ^ k % 2 ^ k = 0 := Nat.mul_mod_left _ _
    simp only [h1, h2]
    have : 0 < 2 ^ (k - 1) := Nat.two_pow_pos _
    rw [if_neg (by omega), if_pos (by omega)]

theorem log2_mul_pow (m k : Nat) (hm : m ≠ 0) : Nat.log2 (m * 2 ^ k) = Nat.log2 m + k := by
  have h0 : m * 2 ^ k ≠ 0 := Nat.mul_ne_zero hm (Nat.pos_iff_ne_zero.mp (Nat.two_pow_pos k))
  rw [Nat.log2_eq_iff h0]
  constructor
  · rw [Nat.pow_add]; exact Nat.mul_le_mul_right _ (Nat.log2_self_le hm)
  · rw [show Nat.log2 m + k + 1 = (Nat.log2 m + 1) + k by omega, Nat.pow_add]
    exact Nat.mul_lt_mul_of_pos_right Nat.lt_log2_self (Nat.two_pow_pos k)

/-- EXACT ROUNDING: the value `m'·2^e'` with `m' < 2^(mbits+1)`, `e' ≥ emin` (a datum of the format), presented to `roundPos` as
    `(m'·2^k)·2^(e'-k)`, is returned exactly -/
theorem roundPos_scaled_exact (f : Fmt) (n : Bool) (m' : Nat) (e' : Int) (k : Nat) (hm' : m' ≠ 0)
    (hlt : m' < 2 ^ (f.mbits + 1)) (he' : emin f ≤ e') (hf : 0 < f.emax) (htop : e' + 1 + f.bias + f.mbits < f.emax) :
    ∃ (m'' : Nat) (e'' : Int), decode f (roundPos f n (m' * 2 ^ k) (e' - k)) = .fin n m'' e'' ∧ qv m'' e'' = qv m' e' := by
  have hm : m' * 2 ^ k ≠ 0 := Nat.mul_ne_zero hm' (Nat.pos_iff_ne_zero.mp (Nat.two_pow_pos k))
  have hL : Nat.log2 m' ≤ f.mbits := by
    have := (Nat.log2_lt hm').2 hlt; omega
  have hL1 := Nat.log2_self_le hm'
  have hL2 := Nat.lt_log2_self (n := m')
  have hE : rpExp f (m' * 2 ^ k) (e' - k) = max (e' + (Nat.log2 m' : Int) - f.mbits) (emin f) := by
    unfold rpExp; rw [log2_mul_pow m' k hm']; push_cast; omega
  have hle : rpExp f (m' * 2 ^ k) (e' - k) ≤ e' := by rw [hE]; omega
  have hge : e' + (Nat.log2 m' : Int) - f.mbits ≤ rpExp f (m' * 2 ^ k) (e' - k) := by rw [hE]; omega
  have hgm := rpExp_ge f (m' * 2 ^ k) (e' - k)
  have hcase : rpExp f (m' * 2 ^ k) (e' - k) = emin f ∨ rpExp f (m' * 2 ^ k) (e' - k) = e' + (Nat.log2 m' : Int) - f.mbits := by
    rw [hE]; omega
  have hrp := rp_decode f n (m' * 2 ^ k) (e' - k) hm hf
  generalize rpExp f (m' * 2 ^ k) (e' - k) = e1 at *
  have hM : rpMant (m' * 2 ^ k) (e' - k) e1 = m' * 2 ^ (e' - e1).toNat := by
    unfold rpMant
    by_cases hc : e1 ≥ e' - k
    · rw [if_pos hc]
      obtain ⟨i, hi⟩ : ∃ i, i = (e' - e1).toNat := ⟨_, rfl⟩
      obtain ⟨j, hj⟩ : ∃ j, j = (e1 - (e' - k)).toNat := ⟨_, rfl⟩
      rw [← hi, ← hj]
      have hk : k = i + j := by omega
      have hpow : m' * 2 ^ k = m' * 2 ^ i * 2 ^ j := by rw [hk, Nat.pow_add, Nat.mul_assoc]
      rw [hpow]
      exact rneShift_mul_pow _ _
    · rw [if_neg hc]
      have hj : (e' - e1).toNat = k + (e' - k - e1).toNat := by omega
      rw [hj, Nat.pow_add, Nat.mul_assoc]
  have hlo : rpMant (m' * 2 ^ k) (e' - k) e1 < 2 ^ f.mbits → e1 = emin f := by
    rw [hM]
    intro hsmall
    rcases hcase with h | h
    · exact h
    · exfalso
      have hj : (e' - e1).toNat = f.mbits - Nat.log2 m' := by omega
      rw [hj] at hsmall
      have : 2 ^ f.mbits ≤ m' * 2 ^ (f.mbits - Nat.log2 m') := by
        calc 2 ^ f.mbits = 2 ^ Nat.log2 m' * 2 ^ (f.mbits - Nat.log2 m') := by rw [← Nat.pow_add]; congr 1; omega
          _ ≤ m' * 2 ^ (f.mbits - Nat.log2 m') := Nat.mul_le_mul_right _ hL1
      omega
  have hhi : rpMant (m' * 2 ^ k) (e' - k) e1 ≤ 2 ^ (f.mbits + 1) := by
    rw [hM]
    have hj : (e' - e1).toNat ≤ f.mbits - Nat.log2 m' := by omega
    calc m' * 2 ^ (e' - e1).toNat ≤ m' * 2 ^ (f.mbits - Nat.log2 m') :=
          Nat.mul_le_mul_left _ (Nat.pow_le_pow_right (by decide) hj)
      _ ≤ 2 ^ (Nat.log2 m' + 1) * 2 ^ (f.mbits - Nat.log2 m') := Nat.mul_le_mul_right _ hL2.le
      _ = 2 ^ (f.mbits + 1) := by rw [← Nat.pow_add]; congr 1; omega
  rcases hrp hlo hhi with ⟨_, hinf⟩ | ⟨m'', e'', hd, hle2, hval⟩
  · exfalso; omega
  · refine ⟨m'', e'', hd, ?_⟩
    rw [← qv_scaled m'' e'' e1 hle2, hval, hM, qv_scaled m' e' e1 hle]

theorem decode_zero (f : Fmt) (hf : 0 < f.emax) : decode f 0 = .fin false 0 (emin f) := by
  have := decode_sub f false 0 (Nat.two_pow_pos _) hf
  simpa using this

/-- EXACT SUBTRACTION: if the exact difference `a − b ≥ 0` of two non-negative data is a datum `m'·2^e'` of the format
    (with `e'` not below the smaller exponent), `sub` returns it exactly -/
theorem sub_exactQ (f : Fmt) (a b ma mb : Nat) (ea eb : Int) (ha : decode f a = .fin false ma ea)
    (hb : decode f b = .fin false mb eb) (m' : Nat) (e' : Int) (hlt : m' < 2 ^ (f.mbits + 1)) (he' : emin f ≤ e')
    (hmin : min ea eb ≤ e') (hval : qv ma ea - qv mb eb = qv m' e') (hf : 0 < f.emax)
    (htop : m' ≠ 0 → e' + 1 + f.bias + f.mbits < f.emax) :
    ∃ (m'' : Nat) (e'' : Int), decode f (SF.sub f a b) = .fin false m'' e'' ∧ qv m'' e'' = qv m' e' := by
  obtain ⟨e, hee⟩ : ∃ e, e = min ea eb := ⟨_, rfl⟩
  have h1 : e ≤ ea := by omega
  have h2 : e ≤ eb := by omega
  have h3 : e ≤ e' := by omega
  -- the three scaled naturals
  have hnat : ma * 2 ^ (ea - e).toNat = mb * 2 ^ (eb - e).toNat + m' * 2 ^ (e' - e).toNat := by
    rw [← qv_scaled ma ea e h1, ← qv_scaled mb eb e h2, ← qv_scaled m' e' e h3] at hval
    unfold qv at hval
    have hp := two_zpow_pos e
    have : ((ma * 2 ^ (ea - e).toNat : Nat) : ℚ) = ((mb * 2 ^ (eb - e).toNat : Nat) : ℚ) + ((m' * 2 ^ (e' - e).toNat : Nat) : ℚ) := by
      have h4 : (((ma * 2 ^ (ea - e).toNat : Nat) : ℚ) - ((mb * 2 ^ (eb - e).toNat : Nat) : ℚ) - ((m' * 2 ^ (e' - e).toNat : Nat) : ℚ)) * 2 ^ e = 0 := by
        linarith
      rcases mul_eq_zero.mp h4 with h5 | h5
      · linarith
      · exact absurd h5 hp.ne'
    exact_mod_cast this
  unfold SF.sub
  rw [ha, hb]
  simp only [Bool.false_eq_true, if_false, Int.one_mul, ← hee]
  by_cases hm0 : m' = 0
  · subst hm0
    have hd : ((ma * 2 ^ (ea - e).toNat : Nat) : Int) - ((mb * 2 ^ (eb - e).toNat : Nat) : Int) = 0 := by
      rw [hnat]; push_cast; simp
    rw [if_pos hd]
    exact ⟨0, emin f, decode_zero f hf, by unfold qv; simp⟩
  · have hC : 0 < m' * 2 ^ (e' - e).toNat := Nat.mul_pos (Nat.pos_of_ne_zero hm0) (Nat.two_pow_pos _)
    have hd : ((ma * 2 ^ (ea - e).toNat : Nat) : Int) - ((mb * 2 ^ (eb - e).toNat : Nat) : Int) = ((m' * 2 ^ (e' - e).toNat : Nat) : Int) := by
      rw [hnat]; push_cast; ring
    rw [hd, if_neg (by exact_mod_cast hC.ne')]
    have hneg : decide (((m' * 2 ^ (e' - e).toNat : Nat) : Int) < 0) = false := by
      simp only [decide_eq_false_iff_not, not_lt]; exact Int.natCast_nonneg _
    rw [hneg, Int.natAbs_natCast]
    have hee' : e = e' - ((e' - e).toNat : Int) := by omega
    conv => enter [1, m'', 1, e'', 1, 1, 2, 4]; rw [hee']
    exact roundPos_scaled_exact f false m' e' _ hm0 hlt he' hf (htop hm0)

theorem ofNat_zero (f : Fmt) : ofNat f 0 = 0 := by simp [ofNat, roundPos]

/-- a non-negative binary64 datum minus its integral part (below `2^53`): exact -/
theorem sub_trunc (a ma : Nat) (ea : Int) (ha : decode b64 a = .fin false ma ea) (hT : toNatTrunc b64 a < 2 ^ 53) :
    ∃ (m'' : Nat) (e'' : Int), decode b64 (SF.sub b64 a (ofNat b64 (toNatTrunc b64 a))) = .fin false m'' e'' ∧
      qv m'' e'' = qv ma ea - ((toNatTrunc b64 a : Nat) : ℚ) := by
  obtain ⟨_, _, r, hr, hfr, hr0⟩ := toNatTrunc_floor b64 a false ma ea ha
  obtain ⟨hb1, hb2⟩ := decode_fin_bounds b64 a false ma ea ha
  have hemin : emin b64 = -1074 := by decide
  have htop : r ≠ 0 → ea + 1 + (b64.bias : Int) + (b64.mbits : Int) < (b64.emax : Int) := by
    intro hr1
    have : ea < 0 := by
      by_contra hc
      exact hr1 (hr0 (by omega))
    show ea + 1 + (1023 : Int) + (52 : Int) < (2047 : Int)
    omega
  have key : ∀ (mb : Nat) (eb : Int), decode b64 (ofNat b64 (toNatTrunc b64 a)) = .fin false mb eb →
      qv mb eb = ((toNatTrunc b64 a : Nat) : ℚ) →
      ∃ (m'' : Nat) (e'' : Int), decode b64 (SF.sub b64 a (ofNat b64 (toNatTrunc b64 a))) = .fin false m'' e'' ∧
        qv m'' e'' = qv ma ea - ((toNatTrunc b64 a : Nat) : ℚ) := by
    intro mb eb hdb hvb
    have := sub_exactQ b64 a _ ma mb ea eb ha hdb r ea (lt_of_le_of_lt hr hb2) hb1 (by omega)
      (by rw [hvb]; exact hfr) (by decide) htop
    rw [hfr]; exact this
  by_cases h0 : toNatTrunc b64 a = 0
  · refine key 0 (emin b64) ?_ ?_
    · rw [h0, ofNat_zero]; exact decode_zero b64 (by decide)
    · rw [h0]; unfold qv; simp
  · obtain ⟨mb, eb, hdb, _, hvb⟩ := ofNat_exactQ b64 _ h0 hT (by decide) (by decide)
    exact key mb eb hdb hvb

theorem decode_two64 : decode b64 0x4000000000000000 = .fin false (2 ^ 52) (-51) := by decide +kernel

theorem exp_neg_of_lt_one {m : Nat} {e : Int} (hm : m ≠ 0) (h : qv m e < 1) : e < 0 := by
  by_contra hc
  have h1 : (1 : ℚ) ≤ (m : ℚ) := by exact_mod_cast Nat.pos_of_ne_zero hm
  have h2 : (1 : ℚ) ≤ (2 : ℚ) ^ e := one_le_zpow₀ (by norm_num) (by omega)
  unfold qv at h
  nlinarith

/-- doubling a non-negative binary64 datum below 1 is exact -/
theorem mul_two_exact (a ma : Nat) (ea : Int) (ha : decode b64 a = .fin false ma ea) (h1 : qv ma ea < 1) :
    ∃ (m'' : Nat) (e'' : Int), decode b64 (SF.mul b64 a 0x4000000000000000) = .fin false m'' e'' ∧
      qv m'' e'' = 2 * qv ma ea := by
  obtain ⟨hb1, hb2⟩ := decode_fin_bounds b64 a false ma ea ha
  rw [mul_fin b64 a _ false false ma (2 ^ 52) ea (-51) ha decode_two64]
  have hx : (false != false) = false := rfl
  rw [hx]
  by_cases hm : ma = 0
  · subst hm
    refine ⟨0, emin b64, ?_, by unfold qv; simp⟩
    have : roundPos b64 false (0 * 2 ^ 52) (ea + -51) = 0 := by simp [roundPos]
    rw [this]; exact decode_zero b64 (by decide)
  · have hneg := exp_neg_of_lt_one hm h1
    have he : ea + -51 = (ea + 1) - ((52 : Nat) : Int) := by push_cast; ring
    rw [he]
    obtain ⟨m'', e'', hd, hv⟩ := roundPos_scaled_exact b64 false ma (ea + 1) 52 hm hb2 (by omega) (by decide)
      (by show ea + 1 + 1 + (1023 : Int) + (52 : Int) < (2047 : Int); omega)
    refine ⟨m'', e'', hd, ?_⟩
    rw [hv]; unfold qv
    rw [zpow_add₀ (by norm_num : (2 : ℚ) ≠ 0)]; ring

/-- the printer's rounding of the decimal part: `trunc(r) + trunc(2·(r − trunc(r)))` is `r` rounded half up -/
theorem round_half_up (rem mR : Nat) (eR : Int) (h : decode b64 rem = .fin false mR eR) (hT : toNatTrunc b64 rem < 2 ^ 53) :
    (((toNatTrunc b64 rem + toNatTrunc b64 (SF.mul b64 (SF.sub b64 rem (ofNat b64 (toNatTrunc b64 rem))) 0x4000000000000000) : Nat) : ℚ)
        - 1 / 2 ≤ qv mR eR) ∧
    qv mR eR < ((toNatTrunc b64 rem + toNatTrunc b64 (SF.mul b64 (SF.sub b64 rem (ofNat b64 (toNatTrunc b64 rem))) 0x4000000000000000) : Nat) : ℚ)
        + 1 / 2 := by
  obtain ⟨f1, f2, _⟩ := toNatTrunc_floor b64 rem false mR eR h
  obtain ⟨m1, e1, hd1, hv1⟩ := sub_trunc rem mR eR h hT
  obtain ⟨m2, e2, hd2, hv2⟩ := mul_two_exact _ m1 e1 hd1 (by rw [hv1]; linarith)
  obtain ⟨g1, g2, _⟩ := toNatTrunc_floor b64 _ false m2 e2 hd2
  rw [hv2, hv1] at g1 g2
  generalize toNatTrunc b64 (SF.mul b64 (SF.sub b64 rem (ofNat b64 (toNatTrunc b64 rem))) 0x4000000000000000) = T2 at *
  generalize toNatTrunc b64 rem = T at *
  have hT2 : T2 < 2 := by
    have : (T2 : ℚ) < 2 := by linarith
    exact_mod_cast this
  push_cast
  have : T2 = 0 ∨ T2 = 1 := by omega
  rcases this with rfl | rfl
  · push_cast at g1 g2 ⊢; constructor <;> linarith
  · push_cast at g1 g2 ⊢; constructor <;> linarith

end C12
