/- C12 (parse side, the band 1e-325 ≤ |v| < 1e-300): one rounding with ABSOLUTE error in the subnormal range, and `make_float`
   when its last multiplication (by `10^-256`) lands in the subnormal range. -/
import AJ.Lemmas.FloatPrintSF
namespace C12
open SF JD

/-! ## one rounding below the normal range: absolute error at most half the subnormal spacing -/

theorem roundPos_sub_absQ (f : Fmt) (n : Bool) (m : Nat) (e : Int) (hm : m ≠ 0) (hf : 2 < f.emax)
    (hsmall : qv m e < (2 : ℚ) ^ (emin f + f.mbits)) :
    ∃ (m'' : Nat) (e'' : Int), decode f (roundPos f n m e) = .fin n m'' e'' ∧
      |qv m'' e'' - qv m e| ≤ (2 : ℚ) ^ (emin f - 1) := by
  obtain ⟨b1, _⟩ := log2_bounds_q hm e
  have one_lt : (1 : ℚ) < 2 := by norm_num
  have c1 : (Nat.log2 m : Int) + e < emin f + f.mbits :=
    (zpow_lt_zpow_iff_right₀ one_lt).mp (lt_of_le_of_lt b1 hsmall)
  have hE : rpExp f m e = emin f := by unfold rpExp; push_cast; omega
  have hrp := rp_decode f n m e hm (by omega)
  have hpos : (0 : ℚ) ≤ (2 : ℚ) ^ (emin f - 1) := (two_zpow_pos _).le
  by_cases hc : emin f ≤ e
  · obtain ⟨hM, hlt, _⟩ := rp_case_exact f m e hm (by rw [hE]; exact hc)
    rcases hrp (fun _ => hE) (by rw [hM]; omega) with ⟨_, hinf⟩ | ⟨m'', e'', hd, hle, hval⟩
    · exfalso; rw [hE] at hinf; unfold emin at hinf; omega
    · refine ⟨m'', e'', hd, ?_⟩
      rw [hE] at hle hval hM
      have : qv m'' e'' = qv m e := by
        rw [← qv_scaled m'' e'' (emin f) hle, hval, hM, qv_scaled m e (emin f) hc]
      rw [this]; simpa using hpos
  · have hc' : e < rpExp f m e := by rw [hE]; omega
    obtain ⟨hM, hk, hq, _⟩ := rp_case_round f m e hm hc'
    have hcases := rneShift_cases m _ hk
    have herr := rneShift_err m _ hk
    rcases hrp (fun _ => hE) (by rw [hM]; rcases hcases with ⟨_, c⟩ | ⟨_, c⟩ <;> omega) with ⟨_, hinf⟩ | ⟨m'', e'', hd, hle, hval⟩
    · exfalso; rw [hE] at hinf; unfold emin at hinf; omega
    · refine ⟨m'', e'', hd, ?_⟩
      rw [hE] at hle hval hM hk herr
      rw [hM] at hval
      obtain ⟨k, hkk⟩ : ∃ k, k = (emin f - e).toNat := ⟨_, rfl⟩
      rw [← hkk] at hval hk herr
      have hq1 : qv m'' e'' = qv (rneShift m k * 2 ^ k) e := by
        rw [← qv_scaled m'' e'' (emin f) hle, hval, hkk, qv_scaled _ (emin f) e (by omega)]
      rw [hq1]
      unfold qv
      have hp := two_zpow_pos e
      have h1 : ((rneShift m k * 2 ^ k : Nat) : ℚ) * 2 ^ e - (m : ℚ) * 2 ^ e =
          (((rneShift m k * 2 ^ k : Nat) : ℚ) - (m : ℚ)) * 2 ^ e := by ring
      rw [h1, abs_mul, abs_of_pos hp]
      have h2 : |((rneShift m k * 2 ^ k : Nat) : ℚ) - (m : ℚ)| ≤ ((2 ^ (k - 1) : Nat) : ℚ) := by
        have : ((((rneShift m k * 2 ^ k : Nat) : Int) - (m : Int)).natAbs : ℚ) ≤ ((2 ^ (k - 1) : Nat) : ℚ) := by
          exact_mod_cast herr
        rw [Nat.cast_natAbs, Int.cast_abs] at this
        push_cast at this ⊢
        exact this
      have h3 : ((2 ^ (k - 1) : Nat) : ℚ) * (2 : ℚ) ^ e = (2 : ℚ) ^ (emin f - 1) := by
        push_cast
        rw [← zpow_natCast, ← zpow_add₀ (by norm_num : (2 : ℚ) ≠ 0)]
        congr 1; omega
      calc _ ≤ ((2 ^ (k - 1) : Nat) : ℚ) * (2 : ℚ) ^ e := mul_le_mul_of_nonneg_right h2 hp.le
        _ = _ := h3

/-- ONE ROUNDING, any magnitude below the top binade: relative error `2^-(mbits+1)` plus absolute error `2^(emin-1)` -/
theorem roundPos_absrelQ (f : Fmt) (n : Bool) (m : Nat) (e : Int) (hm : m ≠ 0) (hf : 2 < f.emax)
    (hhi : qv m e < (2 : ℚ) ^ ((f.emax : Int) - f.bias - 1)) :
    ∃ (m'' : Nat) (e'' : Int), decode f (roundPos f n m e) = .fin n m'' e'' ∧
      |qv m'' e'' - qv m e| ≤ uro f * qv m e + (2 : ℚ) ^ (emin f - 1) := by
  have hpos : (0 : ℚ) ≤ (2 : ℚ) ^ (emin f - 1) := (two_zpow_pos _).le
  have hV := qv_nonneg m e
  have hu := (uro_pos f).le
  by_cases hlo : (2 : ℚ) ^ (emin f + f.mbits) ≤ qv m e
  · obtain ⟨m'', e'', hd, _, _, hc⟩ := roundPos_relQ f n m e hm (by omega) hlo hhi
    refine ⟨m'', e'', hd, ?_⟩
    unfold Close at hc
    generalize (2 : ℚ) ^ (emin f - 1) = W at *
    linarith
  · obtain ⟨m'', e'', hd, hc⟩ := roundPos_sub_absQ f n m e hm hf (lt_of_not_ge hlo)
    refine ⟨m'', e'', hd, ?_⟩
    have : 0 ≤ uro f * qv m e := mul_nonneg hu hV
    generalize (2 : ℚ) ^ (emin f - 1) = W at *
    linarith

/-- ONE MULTIPLICATION with a possibly subnormal result -/
theorem mul_absrelQ (f : Fmt) (a b : Nat) (n1 n2 : Bool) (m1 m2 : Nat) (e1 e2 : Int) (hf : 2 < f.emax)
    (ha : decode f a = .fin n1 m1 e1) (hb : decode f b = .fin n2 m2 e2) (h1 : m1 ≠ 0) (h2 : m2 ≠ 0)
    (hhi : qv m1 e1 * qv m2 e2 < (2 : ℚ) ^ ((f.emax : Int) - f.bias - 1)) :
    ∃ (m : Nat) (e : Int), decode f (SF.mul f a b) = .fin (n1 != n2) m e ∧
      |qv m e - qv m1 e1 * qv m2 e2| ≤ uro f * (qv m1 e1 * qv m2 e2) + (2 : ℚ) ^ (emin f - 1) := by
  rw [mul_fin f a b n1 n2 m1 m2 e1 e2 ha hb, ← qv_mul]
  rw [← qv_mul] at hhi
  exact roundPos_absrelQ f _ _ _ (Nat.mul_ne_zero h1 h2) hf hhi

/-! ## splitting the `make_float` loop after the low `j` bits of the exponent -/

theorem go_zero (f : Fmt) (tbl : List Nat) (F acc idx : Nat) : makeFloat.go f tbl F acc 0 idx = some acc := by
  cases F <;> simp [makeFloat.go]

theorem go_split (f : Fmt) (tbl : List Nat) (h : Nat) (hh : h ≠ 0) :
    ∀ (j a fuel F acc idx : Nat), a < 2 ^ j → j ≤ F →
      makeFloat.go f tbl (fuel + j) acc (a + 2 ^ j * h) idx =
        (makeFloat.go f tbl F acc a idx).bind (fun acc' => makeFloat.go f tbl fuel acc' h (idx + j)) := by
  intro j
  induction j with
  | zero =>
    intro a fuel F acc idx ha _
    have : a = 0 := by simpa using ha
    subst this
    rw [go_zero]
    simp
  | succ j ih =>
    intro a fuel F acc idx ha hF
    obtain ⟨F', rfl⟩ : ∃ F', F = F' + 1 := ⟨F - 1, by omega⟩
    have hne : a + 2 ^ (j + 1) * h ≠ 0 := by
      have : 0 < 2 ^ (j + 1) * h := Nat.mul_pos (Nat.two_pow_pos _) (Nat.pos_of_ne_zero hh)
      omega
    have hhalf : (a + 2 ^ (j + 1) * h) / 2 = a / 2 + 2 ^ j * h := by
      rw [Nat.pow_succ, Nat.mul_comm (2 ^ j) 2, Nat.mul_assoc, Nat.add_mul_div_left _ _ (by decide : 0 < 2)]
    have hpar : (a + 2 ^ (j + 1) * h) % 2 = a % 2 := by
      rw [Nat.pow_succ, Nat.mul_comm (2 ^ j) 2, Nat.mul_assoc, Nat.add_mul_mod_self_left]
    have ha2 : a / 2 < 2 ^ j := by rw [Nat.pow_succ] at ha; omega
    have hidx : idx + (j + 1) = idx + 1 + j := by omega
    rw [show fuel + (j + 1) = (fuel + j) + 1 by omega]
    simp only [makeFloat.go, if_neg hne, hhalf, hpar]
    by_cases ha0 : a = 0
    · subst ha0
      simp only [Nat.zero_mod, Nat.zero_ne_one, if_false, if_true, Nat.zero_div]
      have := ih 0 fuel F' acc (idx + 1) (Nat.two_pow_pos _) (by omega)
      rw [go_zero] at this
      simp only [Nat.zero_add, Option.bind_some] at this ⊢
      rw [this, hidx]
    · rw [if_neg ha0]
      by_cases hodd : a % 2 = 1
      · rw [if_pos hodd, if_pos hodd]
        cases tbl[idx]? with
        | none => simp
        | some t =>
          simp only
          rw [ih (a / 2) fuel F' _ (idx + 1) ha2 (by omega), hidx]
      · rw [if_neg hodd, if_neg hodd]
        rw [ih (a / 2) fuel F' _ (idx + 1) ha2 (by omega), hidx]

theorem go_one (f : Fmt) (tbl : List Nat) (F acc idx : Nat) :
    makeFloat.go f tbl (F + 1) acc 1 idx = (tbl[idx]?).bind (fun t => some (SF.mul f acc t)) := by
  simp only [makeFloat.go, Nat.one_ne_zero, if_false, Nat.one_mod, if_true]
  cases tbl[idx]? with
  | none => rfl
  | some t => simp only [Option.bind_some]; exact go_zero _ _ _ _ _

/-! ## `make_float` when the decimal exponent is in `(-512, -256]`: the last multiplication is by `10^-256` -/

theorem makeFloat64_band (mant : Nat) (E : Int) (hm : mant ≠ 0) (hlt : mant < 2 ^ 53) (hE1 : -512 < E) (hE2 : E ≤ -256)
    (hlo : (2 : ℚ) ^ (-1000 : Int) ≤ (mant : ℚ) * (10 : ℚ) ^ (E + 256)) :
    ∃ (r m : Nat) (ex : Int), makeFloat b64 pos64 neg64 (ofNat b64 mant) E = some r ∧ decode b64 r = .fin false m ex ∧
      |qv m ex - (mant : ℚ) * (10 : ℚ) ^ E| ≤ 25 / 2 ^ 53 * ((mant : ℚ) * (10 : ℚ) ^ E) + (2 : ℚ) ^ (-1075 : Int) := by
  obtain ⟨a, ha⟩ : ∃ a, a = E.natAbs - 256 := ⟨_, rfl⟩
  have ha256 : a < 2 ^ 8 := by omega
  have hEa : E.natAbs = a + 2 ^ 8 * 1 := by omega
  have hl : neg64.length = 9 := tables64_ok.2.1
  obtain ⟨ma, ea, hacc, hma, hval⟩ := ofNat_exactQ b64 mant hm hlt (by decide) (by decide)
  have hmq : (1 : ℚ) ≤ (mant : ℚ) := by exact_mod_cast Nat.pos_of_ne_zero hm
  have hmq2 : (mant : ℚ) ≤ 2 ^ 53 := by exact_mod_cast hlt.le
  -- exponent identities
  have hE256 : (10 : ℚ) ^ (E + 256) = (1 / 10 : ℚ) ^ a := by
    rw [ten_zpow_neg_exp (E + 256) (by omega)]; congr 1; omega
  have hEfull : (10 : ℚ) ^ E = (1 / 10 : ℚ) ^ a * (1 / 10 : ℚ) ^ (2 ^ 8) := by
    rw [ten_zpow_neg_exp E (by omega), ← pow_add]; congr 1 <;> omega
  rw [hE256] at hlo
  -- the first eight bits
  have hu : uro b64 = 1 / 2 ^ 53 := rfl
  have hT : (0 : ℚ) < (1 / 10 : ℚ) ^ a := by positivity
  have hT1 : (1 / 10 : ℚ) ^ a ≤ 1 := pow_le_one₀ (by norm_num) (by norm_num)
  have h1000 : (2 : ℚ) ^ (53 : Nat) ≤ (2 : ℚ) ^ (1000 : Int) := by
    rw [← zpow_natCast]; exact zpow_le_zpow_right₀ (by norm_num) (by norm_num)
  have hgo := go_close b64 neg64 (1 / 10) ((2 : ℚ) ^ (-1000 : Int)) ((2 : ℚ) ^ (1000 : Int)) (by decide) (by norm_num)
    (Or.inr (by norm_num)) neg64_close (by positivity)
    (by rw [emin_b64]
        have : (2 : ℚ) ^ (-1000 : Int) / 2 = (2 : ℚ) ^ (-1001 : Int) := by
          rw [show (-1000 : Int) = -1001 + 1 from rfl, zpow_add₀ (by norm_num)]; simp
        rw [this]; exact zpow_le_zpow_right₀ (by norm_num) (by norm_num))
    (by rw [top_b64]
        have : 2 * (2 : ℚ) ^ (1000 : Int) = (2 : ℚ) ^ (1001 : Int) := by
          rw [show (1001 : Int) = 1 + 1000 from rfl, zpow_add₀ (by norm_num)]; simp
        rw [this]; exact zpow_lt_zpow_right₀ (by norm_num) (by norm_num))
    56 (ofNat b64 mant) a 0 0 (mant : ℚ) ma ea hacc hma (by rw [hval]; exact Close.refl _) (le_refl _)
    (by rw [hl]; omega) (by omega) (by rw [hl]; omega) (by rw [hl, hu]; norm_num)
    (le_trans (zpow_le_one_of_nonpos₀ (by norm_num) (by norm_num)) hmq) (le_trans hmq2 h1000)
    (by simpa using hlo)
    (by have : (mant : ℚ) * (1 / 10 : ℚ) ^ (a * 2 ^ 0) ≤ (mant : ℚ) := by
          simp only [pow_zero, mul_one]
          exact mul_le_of_le_one_right (by positivity) hT1
        exact le_trans this (le_trans hmq2 h1000))
  obtain ⟨r1, m1, e1, hgo1, hd1, hm1, hc1⟩ := hgo
  simp only [pow_zero, mul_one, Nat.sub_zero, hl, zero_add] at hc1
  rw [hu] at hc1
  have hδ : (5 / 2 * (1 / 2 ^ 53) * ((9 : Nat) : ℚ) : ℚ) = 45 / 2 ^ 54 := by norm_num
  rw [hδ] at hc1
  -- the last table entry
  obtain ⟨mn, en, hdn, hmn, hcn⟩ := neg64_close 8 (by rw [hl]; omega)
  rw [hu] at hcn
  -- the whole loop
  have hmk : makeFloat b64 pos64 neg64 (ofNat b64 mant) E = some (SF.mul b64 r1 neg64[8]) := by
    simp only [makeFloat]
    rw [if_neg (by omega), hEa]
    have := go_split b64 neg64 1 (by decide) 8 a 56 56 (ofNat b64 mant) 0 ha256 (by decide)
    rw [show (56 : Nat) + 8 = 64 from rfl] at this
    rw [this, hgo1]
    simp only [Option.bind_some, Nat.zero_add]
    have h8 : neg64[8]? = some neg64[8] := List.getElem?_eq_getElem (by rw [hl]; omega)
    rw [show (56 : Nat) = 55 + 1 from rfl, go_one, h8]
    rfl
  -- the last multiplication
  have hM1 : 0 < (mant : ℚ) * (1 / 10 : ℚ) ^ a := by positivity
  have hP := hc1.mul hcn hM1 (by positivity) (by norm_num) (by norm_num)
  have hMfull : (mant : ℚ) * (10 : ℚ) ^ E = (mant : ℚ) * (1 / 10 : ℚ) ^ a * (1 / 10 : ℚ) ^ (2 ^ 8) := by
    rw [hEfull]; ring
  rw [← hMfull] at hP
  have hMpos : 0 < (mant : ℚ) * (10 : ℚ) ^ E := mul_pos (by linarith) (ten_zpow_pos E)
  have hMle : (mant : ℚ) * (10 : ℚ) ^ E ≤ 2 ^ 53 := by
    have : (10 : ℚ) ^ E ≤ 1 := zpow_le_one_of_nonpos₀ (by norm_num) (by omega)
    calc (mant : ℚ) * (10 : ℚ) ^ E ≤ (mant : ℚ) * 1 := mul_le_mul_of_nonneg_left this (by positivity)
      _ ≤ 2 ^ 53 := by linarith
  have hPle := hP.le
  have hPpos : 0 ≤ qv m1 e1 * qv mn en := mul_nonneg (qv_nonneg _ _) (qv_nonneg _ _)
  have hhi : qv m1 e1 * qv mn en < (2 : ℚ) ^ ((b64.emax : Int) - b64.bias - 1) := by
    rw [top_b64]
    have h60 : (2 : ℚ) ^ (60 : Nat) ≤ (2 : ℚ) ^ (1023 : Int) := by
      rw [← zpow_natCast]; exact zpow_le_zpow_right₀ (by norm_num) (by norm_num)
    have : qv m1 e1 * qv mn en < 2 ^ 60 := by
      have h5 : (1 + (45 / 2 ^ 54 + 1 / 2 ^ 53 + 45 / 2 ^ 54 * (1 / 2 ^ 53))) * ((mant : ℚ) * (10 : ℚ) ^ E) ≤
          (1 + (45 / 2 ^ 54 + 1 / 2 ^ 53 + 45 / 2 ^ 54 * (1 / 2 ^ 53))) * 2 ^ 53 :=
        mul_le_mul_of_nonneg_left hMle (by norm_num)
      have h6 : ((1 : ℚ) + (45 / 2 ^ 54 + 1 / 2 ^ 53 + 45 / 2 ^ 54 * (1 / 2 ^ 53))) * 2 ^ 53 < 2 ^ 60 := by norm_num
      exact lt_of_le_of_lt (le_trans hPle h5) h6
    exact lt_of_lt_of_le this h60
  obtain ⟨m, ex, hd, hc⟩ := mul_absrelQ b64 r1 neg64[8] false false m1 mn e1 en (by decide) hd1 hdn hm1 hmn hhi
  refine ⟨_, m, ex, hmk, by simpa using hd, ?_⟩
  rw [hu, show emin b64 - 1 = -1075 from by decide] at hc
  unfold Close at hP
  have hW := two_zpow_pos (-1075)
  generalize (2 : ℚ) ^ (-1075 : Int) = W at *
  generalize (mant : ℚ) * (10 : ℚ) ^ E = M at *
  generalize qv m1 e1 * qv mn en = P at *
  generalize qv m ex = R at *
  have h1 : |R - M| ≤ |R - P| + |P - M| := by
    have : R - M = (R - P) + (P - M) := by ring
    rw [this]; exact abs_add_le _ _
  have h2 : (1 / 2 ^ 53 : ℚ) * P ≤ 1 / 2 ^ 53 * ((1 + (45 / 2 ^ 54 + 1 / 2 ^ 53 + 45 / 2 ^ 54 * (1 / 2 ^ 53))) * M) :=
    mul_le_mul_of_nonneg_left hPle (by norm_num)
  have h3 : (1 / 2 ^ 53 : ℚ) * ((1 + (45 / 2 ^ 54 + 1 / 2 ^ 53 + 45 / 2 ^ 54 * (1 / 2 ^ 53))) * M) +
      (45 / 2 ^ 54 + 1 / 2 ^ 53 + 45 / 2 ^ 54 * (1 / 2 ^ 53)) * M ≤ 25 / 2 ^ 53 * M := by
    have : (1 / 2 ^ 53 : ℚ) * (1 + (45 / 2 ^ 54 + 1 / 2 ^ 53 + 45 / 2 ^ 54 * (1 / 2 ^ 53))) +
        (45 / 2 ^ 54 + 1 / 2 ^ 53 + 45 / 2 ^ 54 * (1 / 2 ^ 53)) ≤ 25 / 2 ^ 53 := by norm_num
    calc _ = ((1 / 2 ^ 53 : ℚ) * (1 + (45 / 2 ^ 54 + 1 / 2 ^ 53 + 45 / 2 ^ 54 * (1 / 2 ^ 53))) +
        (45 / 2 ^ 54 + 1 / 2 ^ 53 + 45 / 2 ^ 54 * (1 / 2 ^ 53))) * M := by ring
      _ ≤ 25 / 2 ^ 53 * M := mul_le_mul_of_nonneg_right this hMpos.le
  clear hlo hgo1 hmk hhi h1000
  linarith

/-- the last stage of `parseNumber` on a scanned pair with `-325 ≤ E ≤ -256`: a binary64 datum of the literal's sign,
    within `25u` relative plus half the subnormal spacing of `mant·10^E` -/
theorem finish_band (neg : Bool) (mant : Nat) (E : Int) (hm : mant ≠ 0) (hlt : mant < 2 ^ 53) (hE1 : -325 ≤ E) (hE2 : E ≤ -256)
    (hlo : (2 : ℚ) ^ (-1000 : Int) ≤ (mant : ℚ) * (10 : ℚ) ^ (E + 256)) :
    ∃ (bits m : Nat) (ex : Int), Digits.finish neg [] mant E = .f64 bits ∧ decode b64 bits = .fin neg m ex ∧
      |qv m ex - (mant : ℚ) * (10 : ℚ) ^ E| ≤ 25 / 2 ^ 53 * ((mant : ℚ) * (10 : ℚ) ^ E) + (2 : ℚ) ^ (-1075 : Int) := by
  obtain ⟨r, m, ex, hmk, hd, hc⟩ := makeFloat64_band mant E hm hlt (by omega) hE2 hlo
  refine ⟨negBits b64 neg r, m, ex, ?_, negBits_decode b64 neg r m ex hd, hc⟩
  rw [finish_mid neg mant E hm hE1 (by omega), if_pos (Or.inl (by omega)), hmk]

end C12
