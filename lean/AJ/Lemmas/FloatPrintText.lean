/- C12 (printing clauses): the exact rational value of a printed number text, and the value of the text `writeFloat` produces
   from the parts computed by `decompose`. -/
import AJ.Lemmas.FloatPrintDec
namespace C12
open SF JD JS Digits

/-! ## the value of a number text, read off the bytes -/

/-- an optional leading minus sign -/
def stripSign (s : List Byte) : Bool × List Byte :=
  match s with
  | 0x2D :: r => (true, r)
  | _ => (false, s)

/-- an optional fraction part `. digits` (returned with its point) and what follows it -/
def fracSplit (r : List Byte) : List Byte × List Byte :=
  match r with
  | 0x2E :: t => (0x2E :: t.takeWhile isDigit, t.dropWhile isDigit)
  | _ => ([], r)

/-- split a text `-? digits (. digits)? rest` into sign, integer digits, fraction part (with its point), rest -/
def textParts (s : List Byte) : Bool × List Byte × List Byte × List Byte :=
  ((stripSign s).1, (stripSign s).2.takeWhile isDigit,
    (fracSplit ((stripSign s).2.dropWhile isDigit)).1, (fracSplit ((stripSign s).2.dropWhile isDigit)).2)

/-- THE EXACT VALUE OF A NUMBER TEXT `-? digits (. digits)? ([eE] [+-]? digits)?`:
    `± N·10^(X − k)`, `N` the number written by all the digits, `k` the number of fraction digits, `X` the written exponent -/
def textVal (s : List Byte) : ℚ :=
  litVal (textParts s).1 (textParts s).2.1 (textParts s).2.2.1 (textParts s).2.2.2

theorem takeWhile_digits (ds rest : List Byte) (hd : AllDigits ds) (hr : isDigit (rest.headD 0) = false) :
    (ds ++ rest).takeWhile isDigit = ds ∧ (ds ++ rest).dropWhile isDigit = rest := by
  have hall : ∀ a ∈ ds, isDigit a = true := fun a ha => isDigit_of_range (hd a ha)
  rw [List.takeWhile_append_of_pos hall, List.dropWhile_append_of_pos hall]
  cases rest with
  | nil => simp
  | cons c cs =>
    have : isDigit c = false := hr
    simp [List.takeWhile_cons, List.dropWhile_cons, this]

theorem stripSign_digit (c : Byte) (t : List Byte) (hc : 0x30 ≤ c ∧ c ≤ 0x39) : stripSign (c :: t) = (false, c :: t) := by
  unfold stripSign
  split
  · rename_i r heq
    have := (List.cons.inj heq).1
    rw [this] at hc; exact absurd hc (by decide)
  · rfl

/-- on a text of the printed shape, `textVal` is `litVal` of its parts -/
theorem textVal_shape (neg : Bool) (ip fd e : List Byte) (hasFrac : Bool) (hip : AllDigits ip) (hne : ip ≠ [])
    (hfd : AllDigits fd) (he : e = [] ∨ ∃ t, e = 0x65 :: t) :
    textVal ((if neg then [0x2D] else []) ++ ip ++ (if hasFrac then 0x2E :: fd else []) ++ e) =
      litVal neg ip (if hasFrac then 0x2E :: fd else []) e := by
  have he0 : isDigit (e.headD 0) = false := by
    rcases he with rfl | ⟨t, rfl⟩
    · decide
    · show isDigit 0x65 = false; decide
  have hrest : isDigit (((if hasFrac then 0x2E :: fd else []) ++ e).headD 0) = false := by
    cases hasFrac
    · simpa using he0
    · show isDigit 0x2E = false; decide
  obtain ⟨t1, t2⟩ := takeWhile_digits ip ((if hasFrac then 0x2E :: fd else []) ++ e) hip hrest
  have hs : stripSign ((if neg then [0x2D] else []) ++ ip ++ (if hasFrac then 0x2E :: fd else []) ++ e) =
      (neg, ip ++ ((if hasFrac then 0x2E :: fd else []) ++ e)) := by
    cases neg
    · simp only [Bool.false_eq_true, if_false, List.nil_append, List.append_assoc]
      cases ip with
      | nil => exact absurd rfl hne
      | cons c cs => exact stripSign_digit c _ (AllDigits_cons.mp hip).1
    · simp only [if_true, List.append_assoc, List.cons_append, List.nil_append]
      rfl
  have hf : fracSplit ((if hasFrac then 0x2E :: fd else []) ++ e) = ((if hasFrac then 0x2E :: fd else []), e) := by
    cases hasFrac
    · simp only [Bool.false_eq_true, if_false, List.nil_append]
      rcases he with rfl | ⟨t, rfl⟩ <;> rfl
    · simp only [if_true, List.cons_append]
      obtain ⟨u1, u2⟩ := takeWhile_digits fd e hfd he0
      show (0x2E :: (fd ++ e).takeWhile isDigit, (fd ++ e).dropWhile isDigit) = _
      rw [u1, u2]
  unfold textVal textParts
  simp only [hs, t1, t2, hf]

/-! ## the text written from the parts -/

theorem decValAux_linear (a : Nat) (ds : List Byte) : decValAux a ds = a * 10 ^ ds.length + decVal ds := by
  induction ds generalizing a with
  | nil => simp [decValAux_nil, decVal]
  | cons d ds ih =>
    have h1 : decVal (d :: ds) = decValAux (0 * 10 + (d.toNat - 48)) ds := by
      unfold decVal; rw [decValAux_cons]
    rw [decValAux_cons, ih, h1, ih (0 * 10 + (d.toNat - 48)), List.length_cons, Nat.pow_succ]
    ring

theorem decVal_append (xs ys : List Byte) : decVal (xs ++ ys) = decVal xs * 10 ^ ys.length + decVal ys := by
  unfold decVal
  rw [decValAux_append, decValAux_linear]; rfl

theorem padDigits_val (dec pl : Nat) (h : dec < 10 ^ pl) : decVal (padDigits dec pl) = dec := by
  cases pl with
  | zero =>
    have : dec = 0 := by simpa using h
    subst this
    decide +kernel
  | succ k =>
  have hlen : (digits dec).length ≤ k + 1 := FloatLen.digits_length_le k dec h
  unfold padDigits
  simp only
  have : (digits dec).length - (k + 1) = 0 := by omega
  rw [this, List.drop_zero, decValAux_zeros]
  exact (digits_spec dec).2.1

theorem expVal_printed (ex : Int) :
    expVal (if (ex != 0) = true then 0x65 :: ((if ex < 0 then [0x2D] else []) ++ digits ex.natAbs) else []) = ex := by
  by_cases h0 : ex = 0
  · subst h0; rfl
  · have hb : (ex != 0) = true := by simpa using h0
    rw [if_pos hb]
    have hv := (digits_spec ex.natAbs).2.1
    by_cases hneg : ex < 0
    · rw [if_pos hneg]
      show -(decVal (digits ex.natAbs) : Int) = ex
      rw [hv]; omega
    · rw [if_neg hneg, List.nil_append]
      obtain ⟨hall, _, hne, _⟩ := digits_spec ex.natAbs
      cases hd : digits ex.natAbs with
      | nil => exact absurd hd hne
      | cons d r =>
        rw [hd] at hall hv
        rw [expVal_nosign 0x65 d r (AllDigits_cons.mp hall).1, hv]; omega

/-- the value of the text that `writeFloat` assembles from the parts -/
theorem parts_text_val (neg : Bool) (P : Parts) (hdec : P.decimal < 10 ^ P.decimalPlaces) :
    litVal neg (digits P.integral) (if P.decimalPlaces > 0 then 0x2E :: padDigits P.decimal P.decimalPlaces else [])
      (if (P.exponent != 0) = true then 0x65 :: ((if P.exponent < 0 then [0x2D] else []) ++ digits P.exponent.natAbs) else []) =
    (if neg then -1 else 1) * partsVal P := by
  unfold litVal litAbs partsVal
  rw [expVal_printed]
  congr 1
  have hI := (digits_spec P.integral).2.1
  by_cases hpl : P.decimalPlaces > 0
  · rw [if_pos hpl, List.tail_cons, decVal_append, hI, padDigits_val _ _ hdec, FloatLen.padDigits_length]
    have h10 : (10 : ℚ) ≠ 0 := by norm_num
    rw [zpow_sub₀ h10, zpow_natCast]
    push_cast
    field_simp
  · rw [if_neg hpl]
    have h0 : P.decimalPlaces = 0 := by omega
    rw [h0] at hdec ⊢
    have hd0 : P.decimal = 0 := by simpa using hdec
    rw [hd0]
    simp [hI]

/-! ## sign handling of `writeFloat` -/

theorem decode_absBits (f : Fmt) (b : Nat) (n : Bool) (m : Nat) (e : Int) (h : decode f b = .fin n m e) :
    decode f (absBits f b) = .fin false m e := by
  have hsb : f.signBit = 2 ^ f.mbits * 2 ^ f.ebits := by simp [Fmt.signBit, Nat.pow_add]
  have a1 : b % (2 ^ f.mbits * 2 ^ f.ebits) / (2 ^ f.mbits * 2 ^ f.ebits) % 2 = 0 := by
    rw [Nat.div_eq_of_lt (Nat.mod_lt _ (Nat.mul_pos (Nat.two_pow_pos _) (Nat.two_pow_pos _)))]
  have a2 : b % (2 ^ f.mbits * 2 ^ f.ebits) / 2 ^ f.mbits % 2 ^ f.ebits = b / 2 ^ f.mbits % 2 ^ f.ebits := by
    rw [Nat.mod_mul_right_div_self, Nat.mod_mod]
  have a3 : b % (2 ^ f.mbits * 2 ^ f.ebits) % 2 ^ f.mbits = b % 2 ^ f.mbits :=
    Nat.mod_mod_of_dvd _ (Nat.dvd_mul_right _ _)
  unfold absBits
  unfold decode at h ⊢
  simp only [hsb, a1, a2, a3] at h ⊢
  have : ((0 : Nat) == 1) = false := rfl
  simp only [this]
  split at h
  · split at h <;> cases h
  · rename_i hc1
    rw [if_neg hc1]
    split at h
    · rename_i hc2; rw [if_pos hc2]; cases h; rfl
    · rename_i hc2; rw [if_neg hc2]; cases h; rfl

theorem lt_zero_iff (b : Nat) (n : Bool) (m : Nat) (e : Int) (h : decode b64 b = .fin n m e) (hm : m ≠ 0) :
    SF.lt b64 b 0 = n := by
  have h0 := decode_zero b64 (by decide)
  have hiff := lt_fin b64 b 0 n false m 0 e _ h h0
  have hmpos : (0 : Int) < (m : Int) := by exact_mod_cast Nat.pos_of_ne_zero hm
  cases n
  · have : ¬ SF.lt b64 b 0 = true := by
      rw [hiff]; unfold DyLt sv sgnm
      simp only [Bool.false_eq_true, if_false, Int.natCast_zero, Int.zero_mul, not_lt]
      exact Int.mul_nonneg hmpos.le (Int.pow_nonneg (by decide))
    simpa using this
  · rw [hiff]; unfold DyLt sv sgnm
    simp only [if_true, Bool.false_eq_true, if_false, Int.natCast_zero, Int.zero_mul]
    have : (0 : Int) < (m : Int) * 2 ^ (e - min e (emin b64)).toNat := Int.mul_pos hmpos (Int.pow_pos (by decide))
    rw [Int.neg_mul]; omega

theorem not_nan_inf (b : Nat) (n : Bool) (m : Nat) (e : Int) (h : decode b64 b = .fin n m e) :
    isNaN b64 b = false ∧ isInf b64 b = false := by
  unfold isNaN isInf; rw [h]; exact ⟨rfl, rfl⟩

/-- THE PRINTED TEXT of a non-zero finite binary64 datum, `6 ≤ places ≤ 9`: its exact value is within
    `0.51·10^-places·max(1, |x|)` of the datum -/
theorem writeFloat_close (cfg : Cfg) (b : Nat) (n : Bool) (m : Nat) (e : Int) (h : decode b64 b = .fin n m e) (hm : m ≠ 0)
    (places : Nat) (hp6 : 6 ≤ places) (hp9 : places ≤ 9) :
    |textVal (writeFloat cfg b places) - sval n m e| ≤ 51 / 100 * (max 1 (qv m e) / (10 : ℚ) ^ places) := by
  obtain ⟨hnan, hinf⟩ := not_nan_inf b n m e h
  have hlt := lt_zero_iff b n m e h hm
  have hv : decode b64 (if SF.lt b64 b 0 = true then absBits b64 b else b) = .fin false m e := by
    rw [hlt]
    cases n
    · simpa using h
    · simpa using decode_absBits b64 b true m e h
  obtain ⟨d1, d2, d3⟩ := decompose_spec _ m e hv hm places hp6 hp9
  simp only [writeFloat, hnan, hinf, Bool.false_eq_true, if_false]
  generalize decompose (if SF.lt b64 b 0 = true then absBits b64 b else b) places = P at d1 d2 d3
  rw [hlt]
  have hshape := textVal_shape n (digits P.integral) (padDigits P.decimal P.decimalPlaces)
    (if (P.exponent != 0) = true then 0x65 :: ((if P.exponent < 0 then [0x2D] else []) ++ digits P.exponent.natAbs) else [])
    (decide (P.decimalPlaces > 0)) (digits_spec _).1 (digits_spec _).2.2.1 (FloatLen.padDigits_allDigits _ _)
    (by by_cases hx : (P.exponent != 0) = true
        · rw [if_pos hx]; exact Or.inr ⟨_, rfl⟩
        · rw [if_neg hx]; exact Or.inl rfl)
  simp only [decide_eq_true_eq] at hshape
  rw [hshape, parts_text_val n P d1]
  unfold sval
  cases n
  · simpa using d3
  · simp only [if_true]
    have : -1 * partsVal P - -1 * qv m e = -(partsVal P - qv m e) := by ring
    rw [this, abs_neg]; exact d3

end C12
