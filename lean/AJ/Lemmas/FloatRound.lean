/- C07 (floating-point clause of the JSON round trip): print-then-parse of one number.
   * `decompose_spec_rel`, `decompose_sandwich`: the printed parts are RELATIVELY close to the datum whenever `normalize` scaled it
     (the top-level C12 statement only gives `0.51·10^-places·max(1,x)`, absolute below 1), hence `0.49·x ≤ text ≤ 1.51·x` always;
   * `writeFloat_lit`: the printed text as an RFC literal `-? ip frac exp` whose exact value `litVal` is `textVal`;
   * `parse_wide`: the C12 parse clauses for literals with `2^-999 ≤ |v| ≤ 2^1000` (the text of a datum in `[1e-300, 1e300]` may
     lie just outside `[1e-300, 1e300]`);
   * `fpQ`, `numQ`, `pnumQ`, `valQ`: exact rational values; `storeDouble_value`: narrowing a double to a float on storage is exact;
   * `through_core`: what `parseNumber` makes of the text of a finite non-zero datum. -/
import AJ.Props.C12Print
import AJ.Props.C09
namespace C12
open SF JD JS Digits Spec.Json

/-! ## 1. `decompose`: relative closeness when `normalize` scales -/

/-- either the datum is printed without exponent (`1e-6 < x < 1e7`), or the parts are within `0.51·10^-places` RELATIVE -/
theorem decompose_spec_rel (v m : Nat) (e : Int) (hd : decode b64 v = .fin false m e) (hm : m ≠ 0)
    (places : Nat) (hp6 : 6 ≤ places) (hp9 : places ≤ 9) :
    (1 / 10 ^ 6 < qv m e ∧ qv m e < 10 ^ 7) ∨
    |partsVal (decompose v places) - qv m e| ≤ 51 / 100 * (qv m e / (10 : ℚ) ^ places) := by
  rw [decompose_eq]
  have hN : (0 : ℚ) < (10 : ℚ) ^ places := by positivity
  have hN9 : (10 : ℚ) ^ places ≤ 10 ^ 9 := pow_le_pow_right₀ (by norm_num) hp9
  rcases normalize_spec v m e hd hm with ⟨_, hlo, hhi⟩ | ⟨my, ey, hdy, hmy, hcl, hylo, hyhi⟩
  · exact Or.inl ⟨hlo, hhi⟩
  · right
    obtain ⟨p, hp⟩ : ∃ p, p = (normalize v).2 := ⟨_, rfl⟩
    rw [← hp] at hcl ⊢
    have hx : 0 < qv m e := qv_pos hm e
    have hY2 : (2 : ℚ) ^ (-1022 : Int) ≤ qv my ey := by
      have : (1 / 10 ^ 6 : ℚ) ≤ 1 - 27 / 2 ^ 53 := by norm_num
      exact le_trans low_1em6 (le_trans this hylo)
    obtain ⟨_, _, h3⟩ := decomposeCore_spec (normalize v).1 my ey hdy hY2
      (lt_of_le_of_lt hyhi (by norm_num)) p (fun _ => le_trans hyhi (by norm_num)) places hp6 hp9
    have hE := ten_zpow_pos p
    have hXZ : qv m e = qv m e * (10 : ℚ) ^ (-p) * (10 : ℚ) ^ p := by
      rw [mul_assoc, ← zpow_add₀ (by norm_num : (10 : ℚ) ≠ 0)]; simp
    have hZ : 0 < qv m e * (10 : ℚ) ^ (-p) := mul_pos hx (ten_zpow_pos _)
    rw [hXZ]
    generalize qv m e * (10 : ℚ) ^ (-p) = Z at *
    generalize (10 : ℚ) ^ p = E at *
    generalize qv my ey = Y at *
    generalize partsVal (decomposeCore (normalize v).1 p places) = PV at *
    generalize (10 : ℚ) ^ places = N at *
    unfold Close at hcl
    have hYle := (abs_le.mp hcl).2
    have hYge := (abs_le.mp hcl).1
    have hmax : max 1 Y ≤ (1 + 1 / 10 ^ 12) * Z := by
      apply max_le
      · have h4 : (1 - 27 / 2 ^ 53 : ℚ) ≤ (1 + 45 / 2 ^ 54) * Z := by linarith
        have h5 : (1 : ℚ) * (1 + 45 / 2 ^ 54) ≤ (1 + 1 / 10 ^ 12) * (1 - 27 / 2 ^ 53) := by norm_num
        nlinarith
      · nlinarith
    have hW : 0 < Z * E := mul_pos hZ hE
    have hA1 : (1 / 2 + 2 / 10 ^ 7) * (max 1 Y / N) * E ≤ (1 / 2 + 2 / 10 ^ 7) * (1 + 1 / 10 ^ 12) * (Z * E / N) := by
      have h6 : max 1 Y / N ≤ (1 + 1 / 10 ^ 12) * Z / N := div_le_div_of_nonneg_right hmax hN.le
      have h7 : (1 / 2 + 2 / 10 ^ 7) * (max 1 Y / N) ≤ (1 / 2 + 2 / 10 ^ 7) * ((1 + 1 / 10 ^ 12) * Z / N) :=
        mul_le_mul_of_nonneg_left h6 (by norm_num)
      calc (1 / 2 + 2 / 10 ^ 7) * (max 1 Y / N) * E ≤ (1 / 2 + 2 / 10 ^ 7) * ((1 + 1 / 10 ^ 12) * Z / N) * E :=
            mul_le_mul_of_nonneg_right h7 hE.le
        _ = _ := by ring
    have hA2 : |Y * E - Z * E| ≤ 45 / 2 ^ 54 * N * (Z * E / N) := by
      have : Y * E - Z * E = (Y - Z) * E := by ring
      rw [this, abs_mul, abs_of_pos hE]
      calc |Y - Z| * E ≤ 45 / 2 ^ 54 * Z * E := mul_le_mul_of_nonneg_right hcl hE.le
        _ = _ := by field_simp
    have hWN : 0 ≤ Z * E / N := by positivity
    have hcoef : (1 / 2 + 2 / 10 ^ 7) * (1 + 1 / 10 ^ 12) + 45 / 2 ^ 54 * N ≤ (51 / 100 : ℚ) := by
      have : (45 / 2 ^ 54 : ℚ) * N ≤ 45 / 2 ^ 54 * 10 ^ 9 := mul_le_mul_of_nonneg_left hN9 (by norm_num)
      have h8 : (1 / 2 + 2 / 10 ^ 7) * (1 + 1 / 10 ^ 12) + 45 / 2 ^ 54 * 10 ^ 9 ≤ (51 / 100 : ℚ) := by norm_num
      linarith
    calc |PV - Z * E| = |(PV - Y * E) + (Y * E - Z * E)| := by ring_nf
      _ ≤ |PV - Y * E| + |Y * E - Z * E| := abs_add_le _ _
      _ ≤ ((1 / 2 + 2 / 10 ^ 7) * (1 + 1 / 10 ^ 12) + 45 / 2 ^ 54 * N) * (Z * E / N) := by
          have := le_trans h3 hA1
          linarith
      _ ≤ 51 / 100 * (Z * E / N) := mul_le_mul_of_nonneg_right hcoef hWN

/-- the parts never denote a value of the wrong magnitude: `0.49·x ≤ parts ≤ 1.51·x` -/
theorem decompose_sandwich (v m : Nat) (e : Int) (hd : decode b64 v = .fin false m e) (hm : m ≠ 0)
    (places : Nat) (hp6 : 6 ≤ places) (hp9 : places ≤ 9) :
    49 / 100 * qv m e ≤ partsVal (decompose v places) ∧ partsVal (decompose v places) ≤ 151 / 100 * qv m e := by
  obtain ⟨_, _, h3⟩ := decompose_spec v m e hd hm places hp6 hp9
  have hx : 0 < qv m e := qv_pos hm e
  have hN6 : (10 : ℚ) ^ 6 ≤ (10 : ℚ) ^ places := pow_le_pow_right₀ (by norm_num) hp6
  have hN : (0 : ℚ) < (10 : ℚ) ^ places := by positivity
  have hrel : |partsVal (decompose v places) - qv m e| ≤ 51 / 100 * qv m e := by
    rcases decompose_spec_rel v m e hd hm places hp6 hp9 with ⟨hlo, _⟩ | hr
    · refine le_trans h3 ?_
      generalize (10 : ℚ) ^ places = N at *
      generalize qv m e = X at *
      have hmx : max 1 X ≤ 10 ^ 6 * X := max_le (by linarith) (by nlinarith)
      have h1 : max 1 X / N ≤ 10 ^ 6 * X / N := div_le_div_of_nonneg_right hmx hN.le
      have h2 : 10 ^ 6 * X / N ≤ X := by
        rw [div_le_iff₀ hN]; nlinarith
      nlinarith
    · refine le_trans hr ?_
      generalize (10 : ℚ) ^ places = N at *
      generalize qv m e = X at *
      have h2 : X / N ≤ X := by
        rw [div_le_iff₀ hN]; nlinarith
      nlinarith
  obtain ⟨a, b⟩ := abs_le.mp hrel
  constructor <;> linarith

/-! ## 2. the printed text as an RFC literal -/

/-- the fraction part written by `writeFloat` -/
def fracOf (P : Parts) : List Byte := if P.decimalPlaces > 0 then 0x2E :: padDigits P.decimal P.decimalPlaces else []
/-- the exponent part written by `writeFloat` -/
def expOf (P : Parts) : List Byte :=
  if (P.exponent != 0) = true then 0x65 :: ((if P.exponent < 0 then [0x2D] else []) ++ digits P.exponent.natAbs) else []

theorem fracOf_fracPart (P : Parts) : FracPart (fracOf P) := by
  unfold fracOf
  by_cases h : P.decimalPlaces > 0
  · rw [if_pos h]
    refine Or.inr ⟨_, ⟨?_, FloatLen.padDigits_allDigits _ _⟩, rfl⟩
    intro hnil
    have := FloatLen.padDigits_length P.decimal P.decimalPlaces
    rw [hnil] at this; simp at this; omega
  · rw [if_neg h]; exact Or.inl rfl

theorem expOf_expPart (P : Parts) : ExpPart (expOf P) := by
  unfold expOf
  by_cases h : (P.exponent != 0) = true
  · rw [if_pos h]
    obtain ⟨h1, _, h3, _⟩ := digits_spec P.exponent.natAbs
    refine Or.inr ⟨0x65, (if P.exponent < 0 then [0x2D] else []), digits P.exponent.natAbs, Or.inl rfl, ?_, ⟨h3, h1⟩, rfl⟩
    by_cases hn : P.exponent < 0
    · rw [if_pos hn]; exact Or.inr (Or.inr rfl)
    · rw [if_neg hn]; exact Or.inl rfl
  · rw [if_neg h]; exact Or.inl rfl

theorem expOf_val (P : Parts) : expVal (expOf P) = P.exponent := expVal_printed P.exponent

/-- the exact value of the literal assembled from the parts is `partsVal` -/
theorem litAbs_parts (P : Parts) (hdec : P.decimal < 10 ^ P.decimalPlaces) :
    litAbs (digits P.integral) (fracOf P) (expOf P) = partsVal P := by
  have := parts_text_val false P hdec
  unfold litVal at this
  simpa [fracOf, expOf] using this

/-- the text of a finite non-zero datum `±m·2^e`, in terms of the parts of its absolute value -/
theorem writeFloat_parts_eq (cfg : Cfg) (b : Nat) (n : Bool) (m : Nat) (e : Int) (h : decode b64 b = .fin n m e) (hm : m ≠ 0)
    (places : Nat) :
    ∃ v, decode b64 v = .fin false m e ∧
      writeFloat cfg b places = (if n then [0x2D] else []) ++ digits (decompose v places).integral ++
        fracOf (decompose v places) ++ expOf (decompose v places) := by
  obtain ⟨hnan, hinf⟩ := not_nan_inf b n m e h
  have hlt := lt_zero_iff b n m e h hm
  have hv : decode b64 (if SF.lt b64 b 0 = true then absBits b64 b else b) = .fin false m e := by
    rw [hlt]
    cases n
    · simpa using h
    · simpa using decode_absBits b64 b true m e h
  refine ⟨_, hv, ?_⟩
  simp only [writeFloat, hnan, hinf, Bool.false_eq_true, if_false, fracOf, expOf]
  rw [hlt]

/-- THE TEXT AS A LITERAL: for a finite non-zero binary64 datum `±m·2^e`, `writeFloat` produces `-? ip frac exp` with `ip`
    the digits of a number below `2^32`, `frac` and `exp` of the RFC shapes, a written exponent of at most 3 digits; the
    literal's exact value `a = litAbs ip frac exp` is what `textVal` reads, and it is the value of the parts of `decompose` -/
theorem writeFloat_lit (cfg : Cfg) (b : Nat) (n : Bool) (m : Nat) (e : Int) (h : decode b64 b = .fin n m e) (hm : m ≠ 0)
    (places : Nat) (hp6 : 6 ≤ places) (hp9 : places ≤ 9) :
    ∃ (ip f ex : List Byte), writeFloat cfg b places = (if n then [0x2D] else []) ++ ip ++ f ++ ex ∧
      (∃ I : Nat, I < 2 ^ 32 ∧ ip = digits I) ∧
      AllDigits ip ∧ ip ≠ [] ∧ FracPart f ∧ ExpPart ex ∧ (expVal ex).natAbs < 100000 ∧
      textVal (writeFloat cfg b places) = litVal n ip f ex ∧
      |litAbs ip f ex - qv m e| ≤ 51 / 100 * (max 1 (qv m e) / (10 : ℚ) ^ places) ∧
      49 / 100 * qv m e ≤ litAbs ip f ex ∧ litAbs ip f ex ≤ 151 / 100 * qv m e := by
  obtain ⟨v, hv, hw⟩ := writeFloat_parts_eq cfg b n m e h hm places
  obtain ⟨d1, _, d3⟩ := decompose_spec v m e hv hm places hp6 hp9
  obtain ⟨s1, s2⟩ := decompose_sandwich v m e hv hm places hp6 hp9
  obtain ⟨hI, _, hexp⟩ := FloatLen.decompose_bounds v places
  generalize decompose v places = P at *
  have hla := litAbs_parts P d1
  refine ⟨digits P.integral, fracOf P, expOf P, hw, ⟨_, hI, rfl⟩, (digits_spec _).1, (digits_spec _).2.2.1, fracOf_fracPart P,
    expOf_expPart P, by rw [expOf_val]; omega, ?_, by rw [hla]; exact d3, by rw [hla]; exact s1, by rw [hla]; exact s2⟩
  rw [hw]
  have hshape := textVal_shape n (digits P.integral) (padDigits P.decimal P.decimalPlaces) (expOf P)
    (decide (P.decimalPlaces > 0)) (digits_spec _).1 (digits_spec _).2.2.1 (FloatLen.padDigits_allDigits _ _)
    (by unfold expOf
        by_cases hx : (P.exponent != 0) = true
        · rw [if_pos hx]; exact Or.inr ⟨_, rfl⟩
        · rw [if_neg hx]; exact Or.inl rfl)
  simp only [decide_eq_true_eq] at hshape
  exact hshape

/-! ## 2b. data whose value is an integer `1 ≤ N < 10^7`: the text is the digits of `N` -/

theorem normalize_mid (v m : Nat) (e : Int) (hd : decode b64 v = .fin false m e) (h1 : 1 ≤ qv m e) (h7 : qv m e < 10 ^ 7) :
    normalize v = (v, 0) := by
  rw [normalize_eq]
  have hge : ¬ SF.ge b64 v tenE7 = true := by
    intro hc
    have := (ge_q b64 v tenE7 m _ e _ hd decode_tenE7).mp hc
    rw [qv_tenE7] at this
    linarith
  have hle : SF.le b64 v tenEm5 = false := by
    by_contra hc
    have hc' : SF.le b64 v tenEm5 = true := by simpa using hc
    have := (le_q b64 v tenEm5 m _ e _ hd decode_tenEm5).mp hc'
    have h5 := qv_tenEm5.2
    have : (1 : ℚ) ≤ 2 / 10 ^ 5 := by linarith
    norm_num at this
  rw [if_neg hge, hle, Bool.and_false, if_neg (by simp)]

theorem zeroLoop_zero : ∀ q : Fin 10, zeroLoop q.val 0 = (0, 0) := by decide +kernel

theorem decPart_zero_rem :
    (toNatTrunc b64 0 % 2 ^ 32 +
      toNatTrunc b64 (SF.mul b64 (SF.sub b64 0 (ofNat b64 (toNatTrunc b64 0 % 2 ^ 32))) 0x4000000000000000) % 2 ^ 32) % 2 ^ 32 = 0 := by
  decide +kernel

/-- the parts of an integer-valued datum below `10^7`: the integer itself, no decimals, no exponent -/
theorem decompose_integer (v m : Nat) (e : Int) (hd : decode b64 v = .fin false m e) (N : Nat) (hN1 : 1 ≤ N) (hN7 : N < 10 ^ 7)
    (hv : qv m e = (N : ℚ)) (places : Nat) (hp6 : 6 ≤ places) (hp9 : places ≤ 9) :
    (decompose v places).integral = N ∧ (decompose v places).decimal = 0 ∧ (decompose v places).exponent = 0 ∧
    (decompose v places).decimalPlaces = 0 := by
  have hq1 : (1 : ℚ) ≤ qv m e := by rw [hv]; exact_mod_cast hN1
  have hq7 : qv m e < 10 ^ 7 := by rw [hv]; exact_mod_cast hN7
  rw [decompose_eq, normalize_mid v m e hd hq1 hq7]
  obtain ⟨f1, f2, _⟩ := toNatTrunc_floor b64 v false m e hd
  have hT : toNatTrunc b64 v = N := by
    rw [hv] at f1 f2
    have a : toNatTrunc b64 v ≤ N := by exact_mod_cast f1
    have b : N < toNatTrunc b64 v + 1 := by exact_mod_cast f2
    omega
  have hT32 : N < 2 ^ 32 := lt_trans hN7 (by decide)
  obtain ⟨j, hj6, hs1, hs2, _⟩ := digLoop_spec places N hp6 hN7
  obtain ⟨q, hq⟩ : ∃ q, q = places - j := ⟨_, rfl⟩
  rw [← hq] at hs1 hs2
  -- the remainder is exactly zero
  obtain ⟨m1, e1, hd1, hv1⟩ := sub_trunc v m e hd (by rw [hT]; exact lt_trans hN7 (by decide))
  rw [hT] at hd1 hv1
  have hm1 : m1 = 0 := by
    rw [hv, sub_self] at hv1
    unfold qv at hv1
    have hp := two_zpow_pos e1
    rcases mul_eq_zero.mp hv1 with h0 | h0
    · exact_mod_cast h0
    · exact absurd h0 hp.ne'
  subst hm1
  have hq9 : 10 ^ q ≤ 10 ^ 9 := Nat.pow_le_pow_right (by decide) (by omega)
  obtain ⟨mq, eq, hdq, _, _⟩ := ofNat_exactQ b64 (10 ^ q) (Nat.pos_iff_ne_zero.mp (Nat.pow_pos (by decide)))
    (lt_of_le_of_lt hq9 (by decide)) (by decide) (by decide)
  have hrem : remBits v N (10 ^ q) = 0 := by
    unfold remBits
    exact mul_zero_left64 _ false mq e1 eq _ hd1 hdq rfl
  have hdec : decPart v N (10 ^ q) = 0 := by
    unfold decPart
    rw [hrem]
    exact decPart_zero_rem
  have hz := zeroLoop_zero ⟨q, by omega⟩
  simp only at hz
  unfold decomposeCore
  simp only [hT, Nat.mod_eq_of_lt hT32, hs1, hs2, hdec]
  have hpos : ¬ (0 ≥ 10 ^ q) := by
    have := Nat.pow_pos (n := q) (by decide : 0 < 10)
    omega
  rw [if_neg hpos]
  simp only [hz]
  exact ⟨trivial, trivial, trivial, trivial⟩

/-- THE TEXT OF AN INTEGER-VALUED DATUM: a finite binary64 datum of value `±N`, `1 ≤ N < 10^7`, prints as the decimal digits of
    `N` (with a minus sign when negative): no point, no exponent -/
theorem writeFloat_integer (cfg : Cfg) (b : Nat) (n : Bool) (m : Nat) (e : Int) (h : decode b64 b = .fin n m e)
    (N : Nat) (hN1 : 1 ≤ N) (hN7 : N < 10 ^ 7) (hv : qv m e = (N : ℚ)) (places : Nat) (hp6 : 6 ≤ places) (hp9 : places ≤ 9) :
    writeFloat cfg b places = (if n then [0x2D] else []) ++ digits N := by
  have hm : m ≠ 0 := by
    rintro rfl
    have h0 : qv 0 e = 0 := by unfold qv; simp
    rw [h0] at hv
    have : (N : ℚ) = 0 := hv.symm
    have : N = 0 := by exact_mod_cast this
    omega
  obtain ⟨v, hdv, hw⟩ := writeFloat_parts_eq cfg b n m e h hm places
  obtain ⟨p1, p2, p3, p4⟩ := decompose_integer v m e hdv N hN1 hN7 hv places hp6 hp9
  rw [hw]
  unfold fracOf expOf
  rw [p1, p3, p4]
  simp

/-! ## 3. the parse clauses of C12 on the slightly wider range `[2^-999, 2^1000]` -/

/-- For every literal `-? ip f e` (exponent below the saturation threshold) with `2^-999 ≤ |v| ≤ 2^1000`, `parseNumber` returns
    * the exact integer (only when there is neither fraction nor exponent), or
    * a FINITE non-zero binary64 datum of the sign of the literal within `1e-13·|v|`, or
    * a FINITE non-zero binary32 datum of the sign of the literal within `1e-6·|v|`. -/
theorem parse_wide (cfg : Cfg) (neg : Bool) {ip f e : List Byte} (hip : AllDigits ip) (hne : ip ≠ [])
    (hf : FracPart f) (he : ExpPart e) (hx : (expVal e).natAbs < 100000)
    (hlo : 2 * (2 : ℚ) ^ (-1000 : Int) ≤ litAbs ip f e) (hhi : litAbs ip f e ≤ (2 : ℚ) ^ (1000 : Int)) :
    let lit := (if neg then [0x2D] else []) ++ ip ++ f ++ e
    (f = [] ∧ e = [] ∧
      (parseNumber cfg lit = .uint (Digits.decVal ip) ∨ parseNumber cfg lit = .sint (-(Digits.decVal ip : Int)))) ∨
    (∃ (bits m : Nat) (ex : Int), parseNumber cfg lit = .f64 bits ∧ decode b64 bits = .fin neg m ex ∧ m ≠ 0 ∧
        |sval neg m ex - litVal neg ip f e| ≤ 1 / 10 ^ 13 * |litVal neg ip f e|) ∨
    (∃ (bits m : Nat) (ex : Int), parseNumber cfg lit = .f32 bits ∧ decode b32 bits = .fin neg m ex ∧ m ≠ 0 ∧
        |sval neg m ex - litVal neg ip f e| ≤ 1 / 10 ^ 6 * |litVal neg ip f e|) := by
  intro lit
  have hW := two_zpow_pos (-1000)
  have hpos : 0 < litAbs ip f e := by
    generalize (2 : ℚ) ^ (-1000 : Int) = W at *
    linarith
  rcases scan_error cfg neg hip hne hf he hx with ⟨h1, h2, h3⟩ | ⟨mant, E, h1, h2, h3, _, _, h6⟩
  · exact Or.inl ⟨h1, h2, h3⟩
  · right
    obtain ⟨hm0, hcl⟩ := h6 hpos
    have hlt : mant < 2 ^ 53 := by omega
    have hge := hcl.ge
    have hmlo : (2 : ℚ) ^ (-1000 : Int) ≤ (mant : ℚ) * (10 : ℚ) ^ E := by
      have : litAbs ip f e / 2 ≤ (mant : ℚ) * (10 : ℚ) ^ E := by
        have : (1 / 2 : ℚ) ≤ 1 - 1 / 450359962737049 := by norm_num
        nlinarith
      generalize (2 : ℚ) ^ (-1000 : Int) = W at *
      linarith
    have hmhi : (mant : ℚ) * (10 : ℚ) ^ E ≤ (2 : ℚ) ^ (1000 : Int) := le_trans h3 hhi
    obtain ⟨hk, hacc⟩ := finish_f64_close neg mant E hm0 hlt hmlo hmhi
    have hmp : 0 < (mant : ℚ) * (10 : ℚ) ^ E := lt_of_lt_of_le hW hmlo
    show (∃ bits m ex, parseNumber cfg lit = .f64 bits ∧ _) ∨ (∃ bits m ex, parseNumber cfg lit = .f32 bits ∧ _)
    rw [h1]
    rcases hk with ⟨bits, hb⟩ | ⟨bits, hb⟩
    · left
      obtain ⟨m, ex, hdec, hm, hc⟩ := hacc bits hb
      refine ⟨bits, m, ex, hb, hdec, hm, ?_⟩
      have := (hc.trans hcl hpos (by norm_num) (by norm_num)).mono hpos.le
        (by norm_num : (45 / 2 ^ 54 + 1 / 450359962737049 + 45 / 2 ^ 54 * (1 / 450359962737049) : ℚ) ≤ 1 / 10 ^ 13)
      rw [abs_sval_sub, abs_litVal neg ip f e hpos.le]
      exact this
    · right
      obtain ⟨m, ex, hdec, hm, hc⟩ := finish_f32_full neg mant E hm0 hlt hmlo bits hb
      refine ⟨bits, m, ex, hb, hdec, hm, ?_⟩
      have := (hc.trans hcl hpos (by norm_num) (by norm_num)).mono hpos.le
        (by norm_num : (9 / 10 ^ 7 + 1 / 450359962737049 + 9 / 10 ^ 7 * (1 / 450359962737049) : ℚ) ≤ 1 / 10 ^ 6)
      rw [abs_sval_sub, abs_litVal neg ip f e hpos.le]
      exact this

/-- "more than seven significant digits ⇒ not a binary32" on the wider range: if the number written by all the digits exceeds
    `2^23 − 1 = 8388607` the result is never a binary32 pattern -/
theorem f32_few_digits (cfg : Cfg) (neg : Bool) {ip f e : List Byte} (hip : AllDigits ip) (hne : ip ≠ [])
    (hf : FracPart f) (he : ExpPart e) (hx : (expVal e).natAbs < 100000)
    (hlo : 2 * (2 : ℚ) ^ (-1000 : Int) ≤ litAbs ip f e) (hhi : litAbs ip f e ≤ (2 : ℚ) ^ (1000 : Int))
    (bits : Nat) (hb : parseNumber cfg ((if neg then [0x2D] else []) ++ ip ++ f ++ e) = .f32 bits) :
    Digits.decVal (ip ++ f.tail) ≤ 8388607 := by
  by_contra hN
  have hN : 8388607 < Digits.decVal (ip ++ f.tail) := by omega
  have hW := two_zpow_pos (-1000)
  have hpos : 0 < litAbs ip f e := by
    generalize (2 : ℚ) ^ (-1000 : Int) = W at *
    linarith
  rcases parse_scan cfg neg hip hne hf he hx with ⟨_, _, h3⟩ | ⟨mant, p, h1, h2, h3⟩
  · rcases h3 with h3 | h3 <;> · rw [h3] at hb; cases hb
  · have hmant : 8388607 < mant := by
      obtain ⟨s1, s2, s3⟩ := h2
      rcases s3 with rfl | s3
      · simp at s1 s2; omega
      · have : Gen.mantissa_max64 / 10 = 450359962737049 := by decide
        omega
    have hm0 : mant ≠ 0 := by omega
    have hlt : mant < 2 ^ 53 := by
      have : Gen.mantissa_max64 = 4503599627370495 := rfl
      omega
    obtain ⟨q1, _, q3⟩ := scan_q h2 _ (ten_zpow_pos (expVal e - (f.tail.length : Int)))
    rw [← scan_exp] at q1 q3
    have hN0 : 0 < Digits.decVal (ip ++ f.tail) := by omega
    obtain ⟨_, hcl⟩ := q3 hN0
    have hge := hcl.ge
    have hmlo : (2 : ℚ) ^ (-1000 : Int) ≤ (mant : ℚ) * (10 : ℚ) ^ (expVal e - (f.tail.length : Int) + (p : Int)) := by
      have : litAbs ip f e / 2 ≤ (mant : ℚ) * (10 : ℚ) ^ (expVal e - (f.tail.length : Int) + (p : Int)) := by
        have : (1 / 2 : ℚ) ≤ 1 - 1 / 450359962737049 := by norm_num
        unfold litAbs
        have hp : 0 < (Digits.decVal (ip ++ f.tail) : ℚ) * (10 : ℚ) ^ (expVal e - (f.tail.length : Int)) := hpos
        nlinarith
      generalize (2 : ℚ) ^ (-1000 : Int) = W at *
      linarith
    have hmhi : (mant : ℚ) * (10 : ℚ) ^ (expVal e - (f.tail.length : Int) + (p : Int)) ≤ (2 : ℚ) ^ (1000 : Int) :=
      le_trans q1 hhi
    have e1 := exp_ge_of mant _ hlt hmlo
    have e2 := exp_le_of mant _ hm0 hmhi
    rw [h1, finish_mid neg mant _ hm0 e1 e2, if_pos (Or.inr (Or.inr hmant))] at hb
    split at hb <;> cases hb

/-! ## 4. exact rational values of stored numbers; storing a double is exact -/

/-- the exact value of a finite bit pattern (`none` for NaN and the infinities) -/
def fpQ (f : Fmt) (b : Nat) : Option ℚ :=
  match decode f b with
  | .fin n m e => some (sval n m e)
  | _ => none

/-- the exact value of a stored number -/
def numQ : Num → Option ℚ
  | .uint k => some (k : ℚ)
  | .sint i => some (i : ℚ)
  | .f32 b => fpQ b32 b
  | .f64 b => fpQ b64 b

/-- the exact value of a result of `parseNumber` -/
def pnumQ : PNum → Option ℚ
  | .uint k => some (k : ℚ)
  | .sint i => some (i : ℚ)
  | .f32 b => fpQ b32 b
  | .f64 b => fpQ b64 b
  | _ => none

/-- the exact value of a number node -/
def valQ : Val → Option ℚ
  | .num n => numQ n
  | _ => none

theorem fpQ_fin {f : Fmt} {b : Nat} {n : Bool} {m : Nat} {e : Int} (h : decode f b = .fin n m e) : fpQ f b = some (sval n m e) := by
  unfold fpQ; rw [h]

/-- `VariantData::setFloat(double)` (narrow to binary32 when that is exact) never changes the value -/
theorem storeDouble_value (b : Nat) (n : Bool) (m : Nat) (e : Int) (h : decode b64 b = .fin n m e) (hm : m ≠ 0) :
    numQ (storeDouble b) = some (sval n m e) := by
  by_cases hs : C09.same64 b = true
  · rw [C09.storeDouble_of_same b hs]
    show fpQ b32 (cvt b64 b32 b) = _
    unfold C09.same64 at hs
    rw [h] at hs
    simp only [Bool.or_eq_true, beq_iff_eq] at hs
    rcases hs with hA | hZ
    · generalize cvt b64 b32 b = f at hA ⊢
      cases hd : decode b32 f with
      | nan =>
        exfalso
        have : cvt b32 b64 f = nanBits b64 := by unfold cvt; rw [hd]
        rw [this] at hA
        have hn : decode b64 (nanBits b64) = .nan := by decide +kernel
        rw [← hA, hn] at h
        cases h
      | inf n' =>
        exfalso
        have : cvt b32 b64 f = infBits b64 n' := by unfold cvt; rw [hd]
        rw [this] at hA
        rw [← hA, SF.decode_inf] at h
        cases h
      | fin n' m' e' =>
        obtain ⟨m'', e'', hd2, hle, hmm⟩ := Conv.cvt_32_64_exact _ n' m' e' hd
        rw [hA, h] at hd2
        cases hd2
        rw [fpQ_fin hd]
        unfold sval
        rw [hmm, qv_scaled m' e' e hle]
    · exfalso
      cases m with
      | zero => exact hm rfl
      | succ k => split at hZ <;> simp_all
  · rw [C09.storeDouble_of_not_same b (by simpa using hs)]
    exact fpQ_fin h

/-! ## 5. print, then parse: one number -/

theorem two_m997 : (2 : ℚ) ^ (-997 : Int) = 8 * (2 : ℚ) ^ (-1000 : Int) := by
  rw [show (-997 : Int) = 3 + (-1000) from rfl, zpow_add₀ (by norm_num : (2 : ℚ) ≠ 0)]; norm_num
theorem two_p1000 : (2 : ℚ) ^ (1000 : Int) = 8 * (2 : ℚ) ^ (997 : Int) := by
  rw [show (1000 : Int) = 3 + 997 from rfl, zpow_add₀ (by norm_num : (2 : ℚ) ≠ 0)]; norm_num

theorem abs_litVal_sub_sval (neg : Bool) (m : Nat) (ex : Int) (ip f e : List Byte) :
    |litVal neg ip f e - sval neg m ex| = |litAbs ip f e - qv m ex| := by
  rw [abs_sub_comm, abs_sval_sub, abs_sub_comm]

/-- an unsigned result means no minus sign, a signed result means a minus sign -/
theorem int_result_sign (cfg : Cfg) (neg : Bool) {ip : List Byte} (hip : AllDigits ip) :
    (∀ k, parseNumber cfg ((if neg then [0x2D] else []) ++ ip) = .uint k → neg = false) ∧
    (∀ v, parseNumber cfg ((if neg then [0x2D] else []) ++ ip) = .sint v → neg = true) := by
  cases neg
  · refine ⟨fun _ _ => rfl, ?_⟩
    intro v hv
    exfalso
    simp only [Bool.false_eq_true, if_false, List.nil_append] at hv
    obtain ⟨ds, e, _⟩ := (sint_parse_iff cfg _ v).mp hv
    rw [e] at hip
    exact absurd (AllDigits_cons.mp hip).1 (by decide)
  · refine ⟨?_, fun _ _ => rfl⟩
    intro k hk
    exfalso
    simp only [if_true, List.singleton_append] at hk
    obtain ⟨ds, hs, _, hd, _⟩ := (uint_parse_iff cfg _ k).mp hk
    rcases hs with e | e
    · rw [← e] at hd; exact absurd (AllDigits_cons.mp hd).1 (by decide)
    · exact absurd (List.cons.inj e).1 (by decide)

/-- PRINT THEN PARSE. For a finite non-zero binary64 datum `x = ±m·2^e` with `2^-997 ≤ |x| ≤ 2^997` printed with `6 ≤ places ≤ 9`
    decimal places: the text is an RFC literal `-? ip f ex` of exact value `T` with `|T − x| ≤ 0.51·10^-places·max(1,|x|)` and
    `0.49·|x| ≤ |T| ≤ 1.51·|x|`, and `parseNumber` makes of it
    * the exact integer `T` (unsigned without sign, signed with a sign) when the text has neither fraction nor exponent, or
    * a finite non-zero binary64 datum of the sign of `x` within `1e-13·|T|` of `T`, or
    * a finite non-zero binary32 datum of the sign of `x` within `1e-6·|T|` of `T` — only when the digits of the text write a
      number `≤ 2^23 − 1` (at most seven significant digits). -/
theorem through_core (cfg : Cfg) (b : Nat) (n : Bool) (m : Nat) (e : Int) (h : decode b64 b = .fin n m e) (hm : m ≠ 0)
    (places : Nat) (hp6 : 6 ≤ places) (hp9 : places ≤ 9)
    (hlo : (2 : ℚ) ^ (-997 : Int) ≤ qv m e) (hhi : qv m e ≤ (2 : ℚ) ^ (997 : Int)) :
    ∃ (ip f ex : List Byte), writeFloat cfg b places = (if n then [0x2D] else []) ++ ip ++ f ++ ex ∧
      (∃ I : Nat, I < 2 ^ 32 ∧ ip = digits I) ∧
      AllDigits ip ∧ ip ≠ [] ∧ FracPart f ∧ ExpPart ex ∧
      textVal (writeFloat cfg b places) = litVal n ip f ex ∧
      |litVal n ip f ex - sval n m e| ≤ 51 / 100 * (max 1 |sval n m e| / (10 : ℚ) ^ places) ∧
      49 / 100 * |sval n m e| ≤ |litVal n ip f ex| ∧ |litVal n ip f ex| ≤ 151 / 100 * |sval n m e| ∧
      ((f = [] ∧ ex = [] ∧
          ((n = false ∧ parseNumber cfg (writeFloat cfg b places) = .uint (Digits.decVal ip)) ∨
           (n = true ∧ parseNumber cfg (writeFloat cfg b places) = .sint (-(Digits.decVal ip : Int)))) ∧
          litVal n ip f ex = (if n then -1 else 1) * (Digits.decVal ip : ℚ)) ∨
       (∃ (bits m' : Nat) (e' : Int), parseNumber cfg (writeFloat cfg b places) = .f64 bits ∧
          decode b64 bits = .fin n m' e' ∧ m' ≠ 0 ∧
          |sval n m' e' - litVal n ip f ex| ≤ 1 / 10 ^ 13 * |litVal n ip f ex|) ∨
       (∃ (bits m' : Nat) (e' : Int), parseNumber cfg (writeFloat cfg b places) = .f32 bits ∧
          decode b32 bits = .fin n m' e' ∧ m' ≠ 0 ∧
          |sval n m' e' - litVal n ip f ex| ≤ 1 / 10 ^ 6 * |litVal n ip f ex| ∧
          Digits.decVal (ip ++ f.tail) ≤ 8388607)) := by
  obtain ⟨ip, f, ex, hw, hI, hip, hne, hf, he, hx, htv, hcl, hs1, hs2⟩ := writeFloat_lit cfg b n m e h hm places hp6 hp9
  have hxpos : 0 < qv m e := qv_pos hm e
  have hTlo : 2 * (2 : ℚ) ^ (-1000 : Int) ≤ litAbs ip f ex := by
    rw [two_m997] at hlo
    have hW := two_zpow_pos (-1000)
    generalize (2 : ℚ) ^ (-1000 : Int) = W at *
    linarith
  have hThi : litAbs ip f ex ≤ (2 : ℚ) ^ (1000 : Int) := by
    rw [two_p1000]
    have hW := two_zpow_pos 997
    generalize (2 : ℚ) ^ (997 : Int) = W at *
    linarith
  have hTpos : 0 < litAbs ip f ex := by linarith
  refine ⟨ip, f, ex, hw, hI, hip, hne, hf, he, htv, ?_, ?_, ?_, ?_⟩
  · rw [abs_litVal_sub_sval, abs_sval]; exact hcl
  · rw [abs_litVal n ip f ex hTpos.le, abs_sval]; exact hs1
  · rw [abs_litVal n ip f ex hTpos.le, abs_sval]; exact hs2
  · rw [hw]
    rcases parse_wide cfg n hip hne hf he hx hTlo hThi with ⟨h1, h2, h3⟩ | ⟨bits, m', e', hb, hd, hm', hc⟩ |
        ⟨bits, m', e', hb, hd, hm', hc⟩
    · left
      refine ⟨h1, h2, ?_, ?_⟩
      · have hsg := int_result_sign cfg n hip
        subst h1; subst h2
        simp only [List.append_nil] at h3 hsg ⊢
        rcases h3 with h3 | h3
        · exact Or.inl ⟨hsg.1 _ h3, h3⟩
        · exact Or.inr ⟨hsg.2 _ h3, h3⟩
      · unfold litVal litAbs
        rw [h1, h2]; simp [expVal]
    · exact Or.inr (Or.inl ⟨bits, m', e', hb, hd, hm', hc⟩)
    · exact Or.inr (Or.inr ⟨bits, m', e', hb, hd, hm', hc, f32_few_digits cfg n hip hne hf he hx hTlo hThi bits hb⟩)

end C12
