/- The text that `writeFloat` produces for a finite value is a JSON number that `parseNumber` does not reject:
   `parseNumber` factored into named stages, and each stage on the shape  -? digits (. digits)? (e -? digits)?  -/
import AJ.Lemmas.JsonRoundTrip
namespace C07
open JD JS Digits SF

def expPart (s : List Byte) : List Byte × Int :=
  match s with
  | c :: r =>
    if c == 0x65 || c == 0x45 then
      let (negE, r) := match r with
        | 0x2D :: r' => (true, r')
        | 0x2B :: r' => (false, r')
        | _ => (false, r)
      let (r', e) := expDigits r 0
      (r', if negE then -(e : Int) else (e : Int))
    else (s, 0)
  | [] => ([], 0)

def fracPart (mmax : Nat) (s : List Byte) (mant : Nat) (off : Int) : List Byte × Nat × Int :=
  match s with
  | 0x2E :: r => fracDigits mmax r mant off
  | _ => (s, mant, off)

def afterMant (neg : Bool) (mant : Nat) (s : List Byte) : PNum :=
  if s.isEmpty && !neg then .uint mant else
  if s.isEmpty && neg && mant ≤ 2^63 then .sint (-(mant : Int)) else
  let (mant, off) := reduceMant Gen.mantissa_max64 32 mant 0
  let (s, off) := skipDigitsCount s off
  let (s, mant, off) := fracPart Gen.mantissa_max64 s mant off
  let (s, e) := expPart s
  finish neg s mant (e + off)


theorem parseNumber_eq (cfg : Cfg) (s : List Byte) : parseNumber cfg s =
  (let (neg, s) := match s with
    | 0x2D :: r => (true, r)
    | 0x2B :: r => (false, r)
    | _ => (false, s)
  let c0 := s.headD 0
  if cfg.nan && (c0 == 0x6E || c0 == 0x4E) then .f64 (nanBits b64) else
  if cfg.inf && (c0 == 0x69 || c0 == 0x49) then .f64 (infBits b64 neg) else
  if !(isDigit c0) && c0 != 0x2E then .invalid else
  let (mant, s) := takeDigitsMant (2^64 - 1) 0 s
  afterMant neg mant s) := rfl

theorem parseNumber_digit_first (cfg : Cfg) (c : Byte) (t : List Byte) (hc : 0x30 ≤ c ∧ c ≤ 0x39) :
    parseNumber cfg (c :: t) =
      afterMant false (takeDigitsMant (2 ^ 64 - 1) 0 (c :: t)).1 (takeDigitsMant (2 ^ 64 - 1) 0 (c :: t)).2 := by
  have hm : (match c :: t with
      | 0x2D :: r => (true, r)
      | 0x2B :: r => (false, r)
      | _ => (false, c :: t)) = (false, c :: t) := by
    split
    · rename_i r heq; exact absurd hc (by rw [(List.cons.inj heq).1]; decide)
    · rename_i r heq; exact absurd hc (by rw [(List.cons.inj heq).1]; decide)
    · rfl
  rw [parseNumber_eq]
  simp only [hm, List.headD_cons,
      digit_ne hc 110 (by decide), digit_ne hc 78 (by decide), digit_ne hc 105 (by decide), digit_ne hc 73 (by decide),
      isDigit_of_range hc, Bool.or_self, Bool.and_false, Bool.false_eq_true, ↓reduceIte, Bool.not_true, Bool.false_and]

theorem parseNumber_minus_digit (cfg : Cfg) (c : Byte) (t : List Byte) (hc : 0x30 ≤ c ∧ c ≤ 0x39) :
    parseNumber cfg (0x2D :: c :: t) =
      afterMant true (takeDigitsMant (2 ^ 64 - 1) 0 (c :: t)).1 (takeDigitsMant (2 ^ 64 - 1) 0 (c :: t)).2 := by
  rw [parseNumber_eq]
  simp only [List.headD_cons,
      digit_ne hc 110 (by decide), digit_ne hc 78 (by decide), digit_ne hc 105 (by decide), digit_ne hc 73 (by decide),
      isDigit_of_range hc, Bool.or_self, Bool.and_false, Bool.false_eq_true, ↓reduceIte, Bool.not_true, Bool.false_and]

/-! ### the loops of `parseNumber` on digit runs -/

/-- the next byte (or the end) is not a digit -/
def NonDigitHead (s : List Byte) : Prop := isDigit (s.headD 0) = false

theorem nonDigitHead_nil : NonDigitHead [] := by unfold NonDigitHead; decide
theorem nonDigitHead_cons {c : Byte} (h : isDigit c = false) (r : List Byte) : NonDigitHead (c :: r) := h

theorem takeDigitsMant_shape (maxU : Nat) (ds tail : List Byte) (hd : AllDigits ds) (ht : NonDigitHead tail) :
    ∀ acc, ∃ m ds', takeDigitsMant maxU acc (ds ++ tail) = (m, ds' ++ tail) ∧ AllDigits ds' := by
  induction ds with
  | nil =>
    intro acc
    refine ⟨acc, [], ?_, AllDigits_nil⟩
    cases tail with
    | nil => rfl
    | cons c cs =>
      have : isDigit c = false := ht
      simp only [List.nil_append, takeDigitsMant, this, Bool.false_eq_true, ↓reduceIte]
  | cons c cs ih =>
    intro acc
    have hc := (AllDigits_cons.mp hd).1
    simp only [List.cons_append, takeDigitsMant, isDigit_of_range hc, ↓reduceIte]
    split
    · exact ⟨acc, c :: cs, rfl, hd⟩
    · split
      · exact ⟨acc, c :: cs, rfl, hd⟩
      · exact ih (AllDigits_cons.mp hd).2 _

theorem skipDigitsCount_prefix (ds tail : List Byte) (hd : AllDigits ds) (ht : NonDigitHead tail) :
    ∀ off, ∃ off', skipDigitsCount (ds ++ tail) off = (tail, off') := by
  induction ds with
  | nil =>
    intro off
    cases tail with
    | nil => exact ⟨off, rfl⟩
    | cons c cs =>
      have : isDigit c = false := ht
      exact ⟨off, by simp only [List.nil_append, skipDigitsCount, this, Bool.false_eq_true, ↓reduceIte]⟩
  | cons c cs ih =>
    intro off
    have hc := (AllDigits_cons.mp hd).1
    simp only [List.cons_append, skipDigitsCount, isDigit_of_range hc, ↓reduceIte]
    exact ih (AllDigits_cons.mp hd).2 _

theorem fracDigits_prefix (mmax : Nat) (ds tail : List Byte) (hd : AllDigits ds) (ht : NonDigitHead tail) :
    ∀ m off, ∃ m' off', fracDigits mmax (ds ++ tail) m off = (tail, m', off') := by
  induction ds with
  | nil =>
    intro m off
    cases tail with
    | nil => exact ⟨m, off, rfl⟩
    | cons c cs =>
      have : isDigit c = false := ht
      exact ⟨m, off, by simp only [List.nil_append, fracDigits, this, Bool.false_eq_true, ↓reduceIte]⟩
  | cons c cs ih =>
    intro m off
    have hc := (AllDigits_cons.mp hd).1
    simp only [List.cons_append, fracDigits, isDigit_of_range hc, ↓reduceIte]
    split
    · exact ih (AllDigits_cons.mp hd).2 _ _
    · exact ih (AllDigits_cons.mp hd).2 _ _

theorem expDigits_all (ds : List Byte) (hd : AllDigits ds) : ∀ acc, ∃ e, expDigits ds acc = ([], e) := by
  induction ds with
  | nil => intro acc; exact ⟨acc, rfl⟩
  | cons c cs ih =>
    intro acc
    have hc := (AllDigits_cons.mp hd).1
    simp only [expDigits, isDigit_of_range hc, ↓reduceIte]
    exact ih (AllDigits_cons.mp hd).2 _

theorem finish_nil_ne_invalid (neg : Bool) (mant : Nat) (e : Int) : finish neg [] mant e ≠ .invalid := by
  intro h
  simp only [finish, List.isEmpty_nil, Bool.not_true, Bool.false_eq_true, ↓reduceIte] at h
  repeat' (first | contradiction | split at h)

/-! ### the shapes of the fraction and of the exponent -/

def FracShape (F : List Byte) : Prop := F = [] ∨ ∃ FD, F = 0x2E :: FD ∧ AllDigits FD
def ExpShape (E : List Byte) : Prop :=
  E = [] ∨ ∃ sg ED, E = 0x65 :: (sg ++ ED) ∧ (sg = [] ∨ sg = [0x2D]) ∧ AllDigits ED

theorem expShape_head {E : List Byte} (h : ExpShape E) : NonDigitHead E := by
  rcases h with rfl | ⟨sg, ED, rfl, _⟩
  · exact nonDigitHead_nil
  · exact nonDigitHead_cons (by decide) _

theorem fracExp_head {F E : List Byte} (hF : FracShape F) (hE : ExpShape E) : NonDigitHead (F ++ E) := by
  rcases hF with rfl | ⟨FD, rfl, _⟩
  · simpa using expShape_head hE
  · exact nonDigitHead_cons (by decide) _

theorem expPart_ok {E : List Byte} (h : ExpShape E) : ∃ e, expPart E = ([], e) := by
  rcases h with rfl | ⟨sg, ED, rfl, hsg, hd⟩
  · exact ⟨0, rfl⟩
  · rcases hsg with rfl | rfl
    · -- no sign: the digits follow directly
      obtain ⟨e, he⟩ := expDigits_all ED hd 0
      have hm : (match ([] ++ ED : List Byte) with
          | 0x2D :: r' => (true, r')
          | 0x2B :: r' => (false, r')
          | _ => (false, [] ++ ED)) = (false, ED) := by
        split
        · rename_i r heq
          have : ED = 0x2D :: r := by simpa using heq
          exact absurd (hd 0x2D (by simp [this])) (by decide)
        · rename_i r heq
          have : ED = 0x2B :: r := by simpa using heq
          exact absurd (hd 0x2B (by simp [this])) (by decide)
        · simp
      refine ⟨e, ?_⟩
      simp only [expPart, beq_self_eq_true, Bool.true_or, ↓reduceIte, hm, he]
      simp
    · obtain ⟨e, he⟩ := expDigits_all ED hd 0
      refine ⟨-(e : Int), ?_⟩
      simp only [expPart, beq_self_eq_true, Bool.true_or, ↓reduceIte, List.singleton_append, he]

theorem fracPart_ok (mmax : Nat) {F E : List Byte} (hF : FracShape F) (hE : ExpShape E) (m : Nat) (off : Int) :
    ∃ m' off', fracPart mmax (F ++ E) m off = (E, m', off') := by
  rcases hF with rfl | ⟨FD, rfl, hd⟩
  · refine ⟨m, off, ?_⟩
    rcases hE with rfl | ⟨sg, ED, rfl, _⟩
    · rfl
    · rfl
  · obtain ⟨m', off', h⟩ := fracDigits_prefix mmax FD E hd (expShape_head hE) m off
    exact ⟨m', off', by simp only [List.cons_append, fracPart, h]⟩

/-- after the mantissa loop: leftover digits, an optional fraction, an optional exponent — never `.invalid` -/
theorem afterMant_ok (neg : Bool) (mant : Nat) (ds F E : List Byte) (hd : AllDigits ds) (hF : FracShape F)
    (hE : ExpShape E) : afterMant neg mant (ds ++ (F ++ E)) ≠ .invalid := by
  simp only [afterMant]
  split
  · intro h; cases h
  · split
    · intro h; cases h
    · generalize reduceMant Gen.mantissa_max64 32 mant 0 = R
      obtain ⟨m1, off1⟩ := R
      obtain ⟨off2, hs⟩ := skipDigitsCount_prefix ds (F ++ E) hd (fracExp_head hF hE) off1
      obtain ⟨m3, off3, hf⟩ := fracPart_ok Gen.mantissa_max64 hF hE m1 off2
      obtain ⟨e, he⟩ := expPart_ok hE
      simp only [hs, hf, he]
      exact finish_nil_ne_invalid _ _ _

/-- a text of the shape  -? digits (. digits)? (e -? digits)?  is never rejected by `parseNumber` -/
theorem number_shape_ok (cfg : Cfg) (neg : Bool) (ID F E : List Byte) (hI : AllDigits ID) (hne : ID ≠ [])
    (hF : FracShape F) (hE : ExpShape E) :
    parseNumber cfg ((if neg then [0x2D] else []) ++ ID ++ F ++ E) ≠ .invalid := by
  cases ID with
  | nil => exact absurd rfl hne
  | cons c t =>
    have hc := (AllDigits_cons.mp hI).1
    obtain ⟨m, ds', ht, hd'⟩ := takeDigitsMant_shape (2 ^ 64 - 1) (c :: t) (F ++ E) hI (fracExp_head hF hE) 0
    have ht' : takeDigitsMant (2 ^ 64 - 1) 0 (c :: (t ++ (F ++ E))) = (m, ds' ++ (F ++ E)) := by simpa using ht
    cases neg
    · have e : (if false = true then [0x2D] else []) ++ (c :: t) ++ F ++ E = c :: (t ++ (F ++ E)) := by simp
      rw [e, parseNumber_digit_first cfg c _ hc, ht']
      exact afterMant_ok false m ds' F E hd' hF hE
    · have e : (if true = true then [0x2D] else []) ++ (c :: t) ++ F ++ E = 0x2D :: c :: (t ++ (F ++ E)) := by simp
      rw [e, parseNumber_minus_digit cfg c _ hc, ht']
      exact afterMant_ok true m ds' F E hd' hF hE

/-! ### `writeFloat` on a finite value has that shape -/

theorem padDigits_allDigits (n w : Nat) : AllDigits (padDigits n w) := by
  intro c hc
  simp only [padDigits, List.mem_append, List.mem_replicate] at hc
  rcases hc with ⟨_, rfl⟩ | hc
  · decide
  · exact (digits_spec n).1 c (List.mem_of_mem_drop hc)

theorem writeFloat_finite_shape (cfg : Cfg) (v places : Nat) (h1 : isNaN b64 v = false) (h2 : isInf b64 v = false) :
    ∃ (neg : Bool) (ID F E : List Byte), writeFloat cfg v places = (if neg then [0x2D] else []) ++ ID ++ F ++ E ∧
      AllDigits ID ∧ ID ≠ [] ∧ FracShape F ∧ ExpShape E := by
  simp only [writeFloat, h1, h2, Bool.false_eq_true, ↓reduceIte]
  generalize decompose (if lt b64 v 0 = true then absBits b64 v else v) places = p
  refine ⟨lt b64 v 0, digits p.integral, _, _, rfl, (digits_spec _).1, (digits_spec _).2.2.1, ?_, ?_⟩
  · split
    · exact Or.inr ⟨_, rfl, padDigits_allDigits _ _⟩
    · exact Or.inl rfl
  · split
    · refine Or.inr ⟨(if p.exponent < 0 then [0x2D] else []), digits p.exponent.natAbs, rfl, ?_, (digits_spec _).1⟩
      split
      · exact Or.inr rfl
      · exact Or.inl rfl
    · exact Or.inl rfl

theorem inNumber_dot_e (cfg : Cfg) : inNumber cfg 0x2E = true ∧ inNumber cfg 0x65 = true := by
  simp only [inNumber]; cases cfg.nan <;> cases cfg.inf <;> decide

theorem shape_inNumber (cfg : Cfg) (neg : Bool) (ID F E : List Byte) (hI : AllDigits ID) (hF : FracShape F) (hE : ExpShape E) :
    ∀ c ∈ (if neg then [0x2D] else []) ++ ID ++ F ++ E, inNumber cfg c = true := by
  obtain ⟨hdot, he⟩ := inNumber_dot_e cfg
  have hdig : ∀ ds, AllDigits ds → ∀ c ∈ ds, inNumber cfg c = true := fun ds h c hc => inNumber_digit cfg (h c hc)
  intro c hc
  simp only [List.mem_append] at hc
  rcases hc with ((hc | hc) | hc) | hc
  · cases neg
    · simp at hc
    · have : c = 0x2D := by simpa using hc
      rw [this]; exact inNumber_minus cfg
  · exact hdig ID hI c hc
  · rcases hF with rfl | ⟨FD, rfl, hd⟩
    · simp at hc
    · rcases List.mem_cons.mp hc with rfl | hc
      · exact hdot
      · exact hdig FD hd c hc
  · rcases hE with rfl | ⟨sg, ED, rfl, hsg, hd⟩
    · simp at hc
    · rcases List.mem_cons.mp hc with rfl | hc
      · exact he
      · rcases List.mem_append.mp hc with hc | hc
        · rcases hsg with rfl | rfl
          · simp at hc
          · have : c = 0x2D := by simpa using hc
            rw [this]; exact inNumber_minus cfg
        · exact hdig ED hd c hc


/-! ### `parseNumber` never runs out of its powers-of-ten tables -/

theorem go_some (f : Fmt) (tbl : List Nat) : ∀ (fuel acc e idx : Nat), e < 2 ^ (tbl.length - idx) → idx ≤ tbl.length →
    ∃ r, makeFloat.go f tbl fuel acc e idx = some r := by
  intro fuel
  induction fuel with
  | zero => intro acc e idx _ _; exact ⟨acc, rfl⟩
  | succ n ih =>
    intro acc e idx he hi
    simp only [makeFloat.go]
    split
    · exact ⟨acc, rfl⟩
    · rename_i hne
      have hlt : idx < tbl.length := by
        rcases Nat.lt_or_ge idx tbl.length with h | h
        · exact h
        · have : tbl.length - idx = 0 := by omega
          rw [this] at he; simp at he; omega
      have hpow : 2 ^ (tbl.length - idx) = 2 * 2 ^ (tbl.length - (idx + 1)) := by
        have : tbl.length - idx = (tbl.length - (idx + 1)) + 1 := by omega
        rw [this, Nat.pow_succ]; omega
      have he' : e / 2 < 2 ^ (tbl.length - (idx + 1)) := by omega
      split
      · rw [List.getElem?_eq_getElem hlt]
        exact ih _ _ _ he' (by omega)
      · exact ih _ _ _ he' (by omega)

theorem makeFloat_some (f : Fmt) (tp tn : List Nat) (m : Nat) (e : Int) (hlen : tp.length = tn.length)
    (he : e.natAbs < 2 ^ tp.length) : ∃ r, makeFloat f tp tn m e = some r := by
  simp only [makeFloat]
  split
  · exact go_some f tp 64 m _ 0 (by simpa using he) (by omega)
  · exact go_some f tn 64 m _ 0 (by rw [← hlen]; simpa using he) (by omega)

/-- the exponent tests of `parseNumber` keep `make_float` within its tables (9 entries for binary64: |e| < 512;
    6 entries for binary32: |e| < 64) -/
theorem finish_ne_fault (neg : Bool) (s : List Byte) (mant : Nat) (e : Int) : finish neg s mant e ≠ .fault := by
  intro h
  simp only [finish] at h
  split at h
  · cases h
  · split at h
    · cases h
    · split at h
      · cases h
      · split at h
        · cases h
        · rename_i h1 h2
          have e1 : ¬ e > 308 := h1
          have e2 : ¬ e < -(308 + 17) := h2
          obtain ⟨r, hr⟩ := makeFloat_some b64 pos64 neg64 (ofNat b64 mant) e (by decide)
            (by show e.natAbs < 2 ^ 9; omega)
          simp only [hr] at h
          split at h
          · cases h
          · rename_i h3
            simp only [Bool.or_eq_true, decide_eq_true_eq, not_or] at h3
            have e3 : ¬ e < -38 := h3.1.1
            have e4 : ¬ e > 38 := h3.1.2
            obtain ⟨r', hr'⟩ := makeFloat_some b32 pos32 neg32 (ofNat b32 mant) e (by decide)
              (by show e.natAbs < 2 ^ 6; omega)
            simp only [hr'] at h
            split at h <;> cases h

theorem afterMant_ne_fault (neg : Bool) (mant : Nat) (s : List Byte) : afterMant neg mant s ≠ .fault := by
  simp only [afterMant]
  split
  · intro h; cases h
  · split
    · intro h; cases h
    · exact finish_ne_fault _ _ _ _

/-- **No input makes `parseNumber` index its powers-of-ten tables out of bounds** (model outcome `.fault`). -/
theorem parseNumber_ne_fault (cfg : Cfg) (s : List Byte) : parseNumber cfg s ≠ .fault := by
  rw [parseNumber_eq]
  generalize (match s with
    | 0x2D :: r => (true, r)
    | 0x2B :: r => (false, r)
    | _ => (false, s)) = q
  obtain ⟨neg, s'⟩ := q
  simp only
  split
  · intro h; cases h
  · split
    · intro h; cases h
    · split
      · intro h; cases h
      · exact afterMant_ne_fault _ _ _


/-! ### bounds on `JS.normalize` / `JS.decompose` (loop invariants), and the length of a float text -/

theorem list_forIn_inv {α β : Type} (P : β → Prop) (f : α → β → Id (ForInStep β))
    (hstep : ∀ x b, P b → P (f x b).run.value) : ∀ (l : List α) (init : β), P init → P (forIn l init f : Id β).run := by
  intro l
  induction l with
  | nil => intro init h; simpa using h
  | cons a as ih =>
    intro init h
    rw [List.forIn_cons]
    have := hstep a init h
    cases hf : (f a init).run with
    | done b =>
      rw [hf] at this
      have e : f a init = pure (ForInStep.done b) := hf
      rw [e]; simpa using this
    | yield b =>
      rw [hf] at this
      have e : f a init = pure (ForInStep.yield b) := hf
      rw [e]; simpa using ih b this

theorem range_forIn_inv {β : Type} (P : β → Prop) (r : Std.Legacy.Range) (f : Nat → β → Id (ForInStep β))
    (hstep : ∀ x b, P b → P (f x b).run.value) (init : β) (h : P init) : P (forIn r init f : Id β).run := by
  rw [Std.Legacy.Range.forIn_eq_forIn_range']
  exact list_forIn_inv P f hstep _ init h



theorem id_bind_prop {β γ : Type} (x : Id β) (K : β → Id γ) (P : β → Prop) (Q : γ → Prop) (hx : P x.run)
    (hK : ∀ b, P b → Q (K b).run) : Q (x >>= K).run := hK _ hx

def NI (s : Nat × Int × Int × Nat) : Prop := s.2.1.natAbs + 2 * s.2.2.2 ≤ 512

theorem normalize_bound (v : Nat) : (normalize v).2.natAbs ≤ 512 := by
  unfold normalize
  simp only [Id.run]
  have second : ∀ b : Nat × Int × Int × Nat, NI b →
      (fun r : Nat × Int => r.2.natAbs ≤ 512) (Id.run (
        if (gt b64 b.fst 0 && le b64 b.fst tenEm5) = true then do
              let __s ←
                forIn [:9] (b.fst, b.snd.fst, b.snd.snd.fst, b.snd.snd.snd) fun x __s =>
                    if __s.snd.snd.fst ≥ 0 then
                      if lt b64 __s.fst (mul b64 JD.neg64[__s.snd.snd.fst.toNat]! ten) = true then
                        pure
                          (ForInStep.yield
                            (mul b64 __s.fst JD.pos64[__s.snd.snd.fst.toNat]!, __s.snd.fst - ↑__s.snd.snd.snd,
                              __s.snd.snd.fst - 1, __s.snd.snd.snd / 2))
                      else pure (ForInStep.yield (__s.fst, __s.snd.fst, __s.snd.snd.fst - 1, __s.snd.snd.snd / 2))
                    else pure (ForInStep.yield (__s.fst, __s.snd.fst, __s.snd.snd.fst, __s.snd.snd.snd))
              pure (__s.fst, __s.snd.fst)
            else pure (b.fst, b.snd.fst))) := by
    intro b hb
    split
    · refine id_bind_prop _ _ NI (fun r : Nat × Int => r.2.natAbs ≤ 512) ?_ ?_
      · refine range_forIn_inv NI _ _ ?_ _ hb
        intro x s hs
        simp only [NI] at hs ⊢
        split
        · split
          · simp only [Id.run, pure, ForInStep.value]; omega
          · simp only [Id.run, pure, ForInStep.value]; omega
        · simp only [Id.run, pure, ForInStep.value]; omega
      · intro s hs
        simp only [NI] at hs
        simp only [Id.run, pure]; omega
    · simp only [NI] at hb
      simp only [Id.run, pure]; omega
  split
  · refine id_bind_prop _ _ NI (fun r : Nat × Int => r.2.natAbs ≤ 512) ?_ second
    refine range_forIn_inv NI _ _ ?_ _ (by simp [NI])
    intro x s hs
    simp only [NI] at hs ⊢
    split
    · split
      · simp only [Id.run, pure, ForInStep.value]; omega
      · simp only [Id.run, pure, ForInStep.value]; omega
    · simp only [Id.run, pure, ForInStep.value]; omega
  · exact second (v, 0, 8, 256) (by simp [NI])


def DQ (places : Nat) (r : Parts) : Prop :=
  r.integral < 2 ^ 32 ∧ r.decimalPlaces ≤ places ∧ r.exponent.natAbs ≤ 513

theorem loop2_inv (places : Nat) (init : Nat × Nat) (h : init.1 ≤ places) :
    (fun s : Nat × Nat => s.1 ≤ places) (Id.run (forIn [:12] init fun (_ : Nat) (__s : Nat × Nat) =>
        if (__s.snd % 10 == 0 && decide (__s.fst > 0)) = true then
          (pure (ForInStep.yield (__s.fst - 1, __s.snd / 10)) : Id _)
        else pure (ForInStep.yield (__s.fst, __s.snd)))) := by
  refine range_forIn_inv (fun s : Nat × Nat => s.1 ≤ places) _ _ ?_ _ h
  intro x s hs
  split
  · simp only [Id.run, pure, ForInStep.value]; omega
  · simp only [Id.run, pure, ForInStep.value]; exact hs

theorem decompose_bounds (v places : Nat) : DQ places (decompose v places) := by
  unfold decompose
  simp only [Id.run]
  have hn := normalize_bound v
  generalize normalize v = nv at hn
  obtain ⟨value, e0⟩ := nv
  simp only at hn ⊢
  have hig : toNatTrunc b64 value % 2 ^ 32 < 2 ^ 32 := Nat.mod_lt _ (by decide)
  generalize toNatTrunc b64 value % 2 ^ 32 = ig at hig ⊢
  refine id_bind_prop _ _ (fun s : Nat × Nat × Nat => s.2.1 ≤ places) (DQ places) ?_ ?_
  · refine range_forIn_inv (fun s : Nat × Nat × Nat => s.2.1 ≤ places) _ _ ?_ _ (Nat.le_refl _)
    intro x s hs
    split
    · simp only [Id.run, pure, ForInStep.value]; omega
    · simp only [Id.run, pure, ForInStep.value]; exact hs
  · intro s hs
    split
    · split
      · refine id_bind_prop _ _ (fun s : Nat × Nat => s.1 ≤ places) (DQ places) (loop2_inv places _ hs) ?_
        intro s2 hs2
        simp only [Id.run, pure, DQ]
        exact ⟨by decide, hs2, by omega⟩
      · refine id_bind_prop _ _ (fun s : Nat × Nat => s.1 ≤ places) (DQ places) (loop2_inv places _ hs) ?_
        intro s2 hs2
        simp only [Id.run, pure, DQ]
        exact ⟨Nat.mod_lt _ (by decide), hs2, by omega⟩
    · refine id_bind_prop _ _ (fun s : Nat × Nat => s.1 ≤ places) (DQ places) (loop2_inv places _ hs) ?_
      intro s2 hs2
      simp only [Id.run, pure, DQ]
      exact ⟨hig, hs2, by omega⟩

theorem padDigits_length (n w : Nat) : (padDigits n w).length = w := by
  simp only [padDigits, List.length_append, List.length_replicate, List.length_drop]; omega

theorem kw_lengths : "NaN".toUTF8.toList.length = 3 ∧ "null".toUTF8.toList.length = 4 ∧
    "-Infinity".toUTF8.toList.length = 9 ∧ "Infinity".toUTF8.toList.length = 8 := by decide +kernel

/-- every float text has at most `17 + places` bytes: sign, ≤ 10 integral digits, point, `places` decimals,
    `e`, sign, ≤ 3 exponent digits -/
theorem writeFloat_length_le (cfg : Cfg) (v places : Nat) : (writeFloat cfg v places).length ≤ 17 + places := by
  obtain ⟨k1, k2, k3, k4⟩ := kw_lengths
  simp only [writeFloat]
  split
  · cases cfg.nan
    · simp only [Bool.false_eq_true, ↓reduceIte, k2]; omega
    · simp only [↓reduceIte, k1]; omega
  · split
    · cases cfg.inf
      · simp only [Bool.false_eq_true, ↓reduceIte, k2]; omega
      · simp only [↓reduceIte]; split
        · rw [k3]; omega
        · rw [k4]; omega
    · obtain ⟨h1, h2, h3⟩ := decompose_bounds (if lt b64 v 0 = true then absBits b64 v else v) places
      generalize decompose (if lt b64 v 0 = true then absBits b64 v else v) places = p at h1 h2 h3
      have p10 : (2 : Nat) ^ 32 < 10 ^ (9 + 1) := by decide
      have p3 : (513 : Nat) < 10 ^ (2 + 1) := by decide
      have d1 := JD.digits_length_le 9 p.integral (by omega)
      have d2 := JD.digits_length_le 2 p.exponent.natAbs (by omega)
      simp only [List.length_append]
      have a : (if lt b64 v 0 = true then [(0x2D : UInt8)] else []).length ≤ 1 := by split <;> simp
      have b : (if p.decimalPlaces > 0 then 0x2E :: padDigits p.decimal p.decimalPlaces else []).length ≤ 1 + places := by
        split
        · simp only [List.length_cons, padDigits_length]; omega
        · simp
      have c : (if (p.exponent != 0) = true then
          0x65 :: ((if p.exponent < 0 then [(0x2D : UInt8)] else []) ++ digits p.exponent.natAbs) else []).length ≤ 5 := by
        split
        · simp only [List.length_cons, List.length_append]
          have : (if p.exponent < 0 then [(0x2D : UInt8)] else []).length ≤ 1 := by split <;> simp
          omega
        · simp
      omega

end C07
