/- The fuel given by `JD.run` (`2 * length + 4`) is never exhausted: a remaining-input measure `rem` bounds the fuel each
   routine of the JSON parser model needs. Together with `parseNumber_ne_fault` this shows `run` never reports `Code.fuel`. -/
import AJ.Lemmas.NumFault
namespace JD

/-- bytes not yet consumed: the unread ones, plus the latched one when it is a real (non-NUL, non-EOF) byte -/
def rem (s : St) : Nat := s.l.unread.length + (if s.l.loaded && s.l.cur != 0 then 1 else 0)

theorem rem_cur_le (s : St) : rem (cur s).2 ≤ rem s := by
  obtain ⟨⟨u, c, ld, p⟩, fd⟩ := s
  simp only [cur, Latch.current, rem]
  cases ld
  · cases u
    · simp
    · simp; split <;> omega
  · simp

theorem rem_mv_le (s : St) : rem (mv s) ≤ rem s := by
  simp only [mv, Latch.move, rem]
  simp

theorem rem_mv_cur (s : St) (hc : (cur s).1 ≠ 0) : rem (mv (cur s).2) + 1 ≤ rem s := by
  obtain ⟨⟨u, c, ld, p⟩, fd⟩ := s
  simp only [cur, Latch.current, rem, mv, Latch.move] at hc ⊢
  cases ld
  · cases u
    · simp at hc
    · simp
  · simp only [if_true] at hc ⊢
    simp [hc]

theorem rem_found (s : St) (b : Bool) : rem { s with found := b } = rem s := rfl

/-- consuming a real byte: the bound drops by one -/
theorem step {s : St} {k : Nat} (h : rem s ≤ k) (hc : (cur s).1 ≠ 0) : 1 ≤ k ∧ rem (mv (cur s).2) ≤ k - 1 := by
  have := rem_mv_cur s hc; omega

theorem look {s : St} {k : Nat} (h : rem s ≤ k) : rem (cur s).2 ≤ k := Nat.le_trans (rem_cur_le s) h
theorem skip {s : St} {k : Nat} (h : rem s ≤ k) : rem (mv s) ≤ k := Nat.le_trans (rem_mv_le s) h

theorem nz_of_beq {c d : Byte} (h : (c == d) = true) (hd : d ≠ 0) : c ≠ 0 := by
  intro h0; rw [h0] at h; have h' : (0 : Byte) = d := by simpa using h
  exact hd h'.symm
theorem nz_of_not {c : Byte} (h : ¬ (c == 0) = true) : c ≠ 0 := by
  intro h0; rw [h0] at h; exact h rfl

def OK2 (k : Nat) (o : Code × St) : Prop := rem o.2 ≤ k ∧ o.1 ≠ .fuel
def OK3 {α : Type} (k : Nat) (o : Code × α × St) : Prop := rem o.2.2 ≤ k ∧ o.1 ≠ .fuel

theorem OK2.mono {k k' o} (h : OK2 k o) (hk : k ≤ k') : OK2 k' o := ⟨Nat.le_trans h.1 hk, h.2⟩
theorem OK3.mono {α k k'} {o : Code × α × St} (h : OK3 k o) (hk : k ≤ k') : OK3 k' o := ⟨Nat.le_trans h.1 hk, h.2⟩
theorem ok2 {k e s} (h : rem s ≤ k) (he : e ≠ Code.fuel) : OK2 k (e, s) := ⟨h, he⟩
theorem ok3 {α k e} {x : α} {s} (h : rem s ≤ k) (he : e ≠ Code.fuel) : OK3 k (e, x, s) := ⟨h, he⟩

theorem skipBlock_ok : ∀ f w s k, rem s ≤ k → k + 1 ≤ f → OK2 k (skipBlock f w s) := by
  intro f
  induction f with
  | zero => intro w s k _ hf; omega
  | succ f ih =>
    intro w s k h hf
    simp only [skipBlock]
    split
    · exact ok2 (look h) (by decide)
    · rename_i hc
      obtain ⟨hk, h1⟩ := step h (nz_of_not hc)
      split
      · exact ok2 (Nat.le_trans h1 (by omega)) (by decide)
      · exact (ih _ _ _ h1 (by omega)).mono (by omega)

theorem skipLine_ok : ∀ f s k, rem (mv s) ≤ k → k + 1 ≤ f → OK2 k (skipLine f s) := by
  intro f
  induction f with
  | zero => intro s k _ hf; omega
  | succ f ih =>
    intro s k h hf
    simp only [skipLine]
    split
    · exact ok2 (look h) (by decide)
    · rename_i hc
      obtain ⟨hk, h1⟩ := step h (nz_of_not hc)
      split
      · exact ok2 (look h) (by decide)
      · exact (ih _ _ h1 (by omega)).mono (by omega)

theorem skipSpaces_ok {cfg} : ∀ f s k, rem s ≤ k → k + 1 ≤ f → OK2 k (skipSpaces cfg f s) := by
  intro f
  induction f with
  | zero => intro s k _ hf; omega
  | succ f ih =>
    intro s k h hf
    simp only [skipSpaces]
    split
    · exact ok2 (look h) (by split <;> decide)
    · rename_i hc
      obtain ⟨hk, h1⟩ := step h (nz_of_not hc)
      split
      · exact (ih _ _ h1 (by omega)).mono (by omega)
      · split
        · have h2 := look h1
          split
          · rename_i hd
            obtain ⟨hk2, h3⟩ := step h1 (nz_of_beq hd (by decide))
            have hb := skipBlock_ok f false _ _ h3 (by omega)
            split
            · rename_i heq; rw [heq] at hb
              exact (ih _ _ hb.1 (by omega)).mono (by omega)
            · exact hb.mono (by omega)
          · split
            · rename_i hd
              obtain ⟨hk2, h3⟩ := step h1 (nz_of_beq hd (by decide))
              have hb := skipLine_ok f _ _ h3 (by omega)
              split
              · rename_i heq; rw [heq] at hb
                exact (ih _ _ hb.1 (by omega)).mono (by omega)
              · exact hb.mono (by omega)
            · exact ok2 (Nat.le_trans h2 (by omega)) (by decide)
        · exact ok2 (look h) (by decide)

theorem skipKeyword_fuel_ok : ∀ ks s k, rem s ≤ k → OK2 k (skipKeyword ks s) := by
  intro ks
  induction ks with
  | nil => intro s k h; exact ok2 h (by decide)
  | cons c ks ih =>
    intro s k h
    simp only [skipKeyword]
    split
    · exact ok2 (look h) (by decide)
    · split
      · exact ok2 (look h) (by decide)
      · exact ih _ _ (skip (look h))

theorem parseHex4_ok : ∀ m acc s k, rem s ≤ k → OK3 k (parseHex4 m acc s) := by
  intro m
  induction m with
  | zero => intro acc s k h; exact ok3 h (by decide)
  | succ m ih =>
    intro acc s k h
    simp only [parseHex4]
    split
    · exact ok3 (look h) (by decide)
    · split
      · exact ok3 (look h) (by decide)
      · exact ih _ _ _ (skip (look h))
theorem parseQuoted_ok {cfg stop} : ∀ f acc hi s k, rem s ≤ k → k + 1 ≤ f →
    OK3 k (parseQuoted cfg stop f acc hi s) := by
  intro f
  induction f with
  | zero => intro acc hi s k _ hf; omega
  | succ f ih =>
    intro acc hi s k h hf
    simp only [parseQuoted]
    have h0 := skip (look h)
    split
    · exact ok3 h0 (by split <;> decide)
    · split
      · exact ok3 h0 (by decide)
      · rename_i hc
        obtain ⟨hk, h1⟩ := step h (nz_of_not hc)
        split
        · have h2 := look h1
          split
          · exact ok3 (Nat.le_trans h2 (by omega)) (by decide)
          · split
            · split
              · have h3 := parseHex4_ok 4 0 _ _ (skip h2)
                split
                · rename_i heq; rw [heq] at h3
                  have h4 : rem _ ≤ k - 1 := h3.1
                  split
                  · exact (ih _ _ _ _ h4 (by omega)).mono (by omega)
                  · split
                    · exact (ih _ _ _ _ h4 (by omega)).mono (by omega)
                    · exact (ih _ _ _ _ h4 (by omega)).mono (by omega)
                · rename_i heq; rw [heq] at h3
                  exact ok3 (Nat.le_trans h3.1 (by omega)) h3.2
              · exact (ih _ _ _ _ h2 (by omega)).mono (by omega)
            · split
              · exact ok3 (Nat.le_trans h2 (by omega)) (by decide)
              · exact (ih _ _ _ _ (skip h2) (by omega)).mono (by omega)
        · exact (ih _ _ _ _ h1 (by omega)).mono (by omega)

theorem parseUnquoted_rem : ∀ f acc s k, rem s ≤ k → rem (parseUnquoted f acc s).2 ≤ k := by
  intro f
  induction f with
  | zero => intro acc s k h; simpa [parseUnquoted] using h
  | succ f ih =>
    intro acc s k h
    simp only [parseUnquoted]
    split
    · exact ih _ _ _ (skip (look h))
    · exact look h

theorem scanNumber_rem {cfg} : ∀ m acc s k, rem s ≤ k → rem (scanNumber cfg m acc s).2 ≤ k := by
  intro m
  induction m with
  | zero => intro acc s k h; simp only [scanNumber]; exact look h
  | succ m ih =>
    intro acc s k h
    simp only [scanNumber]
    split
    · exact ih _ _ _ (skip (look h))
    · exact look h

theorem parseNumeric_ok {cfg} (s : St) (k : Nat) (h : rem s ≤ k) : OK3 k (parseNumeric cfg s) := by
  unfold parseNumeric
  have h1 := scanNumber_rem (cfg := cfg) (Gen.number_buffer - 1) [] s k h
  generalize scanNumber cfg (Gen.number_buffer - 1) [] s = r at h1 ⊢
  obtain ⟨buf, s'⟩ := r
  simp only at h1 ⊢
  have hn := parseNumber_ne_fault cfg buf
  split
  · exact ok3 h1 (by decide)
  · exact ok3 h1 (by decide)
  · exact ok3 h1 (by decide)
  · exact ok3 h1 (by decide)
  · exact ok3 h1 (by decide)
  · rename_i heq; exact absurd heq hn
theorem ok3_of_ok2 {α : Type} {k : Nat} {o : Code × St} {x : α} (h : OK2 k o) : OK3 k (o.1, x, o.2) := ⟨h.1, h.2⟩

theorem fuel_mutual {cfg} : ∀ f,
    (∀ limit s k, rem s ≤ k → 2 * k + 1 ≤ f → OK3 k (parseVariant cfg f limit s)) ∧
    (∀ limit s acc k, rem s ≤ k → 2 * k + 2 ≤ f → OK3 k (parseElems cfg f limit s acc)) ∧
    (∀ limit s ms k, rem s ≤ k → 2 * k + 2 ≤ f → OK3 k (parseMembers cfg f limit s ms)) := by
  intro f
  induction f with
  | zero =>
    refine ⟨?_, ?_, ?_⟩
    · intro limit s k _ hf; omega
    · intro limit s acc k _ hf; omega
    · intro limit s ms k _ hf; omega
  | succ f ih =>
    obtain ⟨ihV, ihE, ihM⟩ := ih
    refine ⟨?_, ?_, ?_⟩
    · intro limit s k h hf
      simp only [parseVariant]
      have h0 := skipSpaces_ok (cfg := cfg) (f+1) s k h (by omega)
      split
      · rename_i s1 heq; rw [heq] at h0
        have h1 : rem s1 ≤ k := h0.1
        split
        · rename_i hc
          split
          · exact ok3 (look h1) (by decide)
          · obtain ⟨hk, h2⟩ := step h1 (nz_of_beq hc (by decide))
            have h3 := skipSpaces_ok (cfg := cfg) (f+1) _ _ h2 (by omega)
            split
            · rename_i heq2; rw [heq2] at h3
              have h4 : rem _ ≤ k - 1 := h3.1
              split
              · exact ok3 (Nat.le_trans (skip (look h4)) (by omega)) (by decide)
              · exact (ihE _ _ _ _ (look h4) (by omega)).mono (by omega)
            · rename_i heq2; rw [heq2] at h3; exact ok3 (Nat.le_trans h3.1 (by omega)) h3.2
        · split
          · rename_i hc
            split
            · exact ok3 (look h1) (by decide)
            · obtain ⟨hk, h2⟩ := step h1 (nz_of_beq hc (by decide))
              have h3 := skipSpaces_ok (cfg := cfg) (f+1) _ _ h2 (by omega)
              split
              · rename_i heq2; rw [heq2] at h3
                have h4 : rem _ ≤ k - 1 := h3.1
                split
                · exact ok3 (Nat.le_trans (skip (look h4)) (by omega)) (by decide)
                · exact (ihM _ _ _ _ (look h4) (by omega)).mono (by omega)
              · rename_i heq2; rw [heq2] at h3; exact ok3 (Nat.le_trans h3.1 (by omega)) h3.2
          · split
            · rename_i hq
              have hnz : (cur s1).1 ≠ 0 := by
                intro h0'; rw [h0'] at hq; exact absurd hq (by decide)
              obtain ⟨hk, h2⟩ := step h1 hnz
              have h3 := parseQuoted_ok (cfg := cfg) (stop := (cur s1).1) (f+1) [] 0 _ _ h2 (by omega)
              split <;> (rename_i heq2; rw [heq2] at h3; exact ok3 (Nat.le_trans h3.1 (by omega)) h3.2)
            · split
              · exact ok3_of_ok2 (skipKeyword_fuel_ok _ _ _ (look h1))
              · split
                · exact ok3_of_ok2 (skipKeyword_fuel_ok _ _ _ (look h1))
                · split
                  · exact ok3_of_ok2 (skipKeyword_fuel_ok _ _ _ (look h1))
                  · exact parseNumeric_ok _ _ (look h1)
      · rename_i heq; rw [heq] at h0; exact ok3 h0.1 h0.2
    · intro limit s acc k h hf
      simp only [parseElems]
      have h0 := ihV limit s k h (by omega)
      split
      · rename_i heq; rw [heq] at h0
        have h1 := skipSpaces_ok (cfg := cfg) (f+1) _ k h0.1 (by omega)
        split
        · rename_i heq2; rw [heq2] at h1
          have h2 : rem _ ≤ k := h1.1
          split
          · exact ok3 (skip (look h2)) (by decide)
          · split
            · rename_i hc
              obtain ⟨hk, h3⟩ := step h2 (nz_of_beq hc (by decide))
              exact (ihE _ _ _ _ h3 (by omega)).mono (by omega)
            · exact ok3 (look h2) (by decide)
        · rename_i heq2; rw [heq2] at h1; exact ok3 h1.1 h1.2
      · rename_i heq; rw [heq] at h0; exact ok3 h0.1 h0.2
    · intro limit s ms k h hf
      simp only [parseMembers]
      have hc := look h
      have hkey : OK3 k (if ((cur s).1 == 0x22 || (cur s).1 == 0x27) = true then parseQuoted cfg (cur s).1 (f+1) [] 0 (mv (cur s).2)
            else if inUnquoted (cur s).1 = true then
              ((if (parseUnquoted (f+1) [] (cur s).2).1.length > cfg.maxStrLen then Code.noMemory else Code.ok), (parseUnquoted (f+1) [] (cur s).2).1, (parseUnquoted (f+1) [] (cur s).2).2)
            else (Code.invalid, [], (cur s).2)) := by
        split
        · exact parseQuoted_ok _ _ _ _ _ (skip hc) (by omega)
        · split
          · exact ok3 (parseUnquoted_rem _ _ _ _ hc) (by split <;> decide)
          · exact ok3 hc (by decide)
      generalize (if ((cur s).1 == 0x22 || (cur s).1 == 0x27) = true then parseQuoted cfg (cur s).1 (f+1) [] 0 (mv (cur s).2)
            else if inUnquoted (cur s).1 = true then
              ((if (parseUnquoted (f+1) [] (cur s).2).1.length > cfg.maxStrLen then Code.noMemory else Code.ok), (parseUnquoted (f+1) [] (cur s).2).1, (parseUnquoted (f+1) [] (cur s).2).2)
            else (Code.invalid, [], (cur s).2)) = kr at hkey ⊢
      obtain ⟨kc, key, s1⟩ := kr
      cases kc <;> simp only at ⊢ <;> try exact ok3 hkey.1 hkey.2
      have h1 := skipSpaces_ok (cfg := cfg) (f+1) _ k hkey.1 (by omega)
      split
      · rename_i s2 heq; rw [heq] at h1
        have h2 : rem s2 ≤ k := h1.1
        split
        · exact ok3 (look h2) (by decide)
        · rename_i hcol
          have hnz : (cur s2).1 ≠ 0 := by
            intro h0'; rw [h0'] at hcol; exact hcol (by decide)
          obtain ⟨hk, h3⟩ := step h2 hnz
          have h4 := ihV limit _ (k-1) h3 (by omega)
          split
          · rename_i heq3; rw [heq3] at h4
            have h5 := skipSpaces_ok (cfg := cfg) (f+1) _ (k-1) h4.1 (by omega)
            split
            · rename_i heq4; rw [heq4] at h5
              have h6 : rem _ ≤ k - 1 := h5.1
              split
              · exact ok3 (Nat.le_trans (skip (look h6)) (by omega)) (by decide)
              · split
                · have h7 := skipSpaces_ok (cfg := cfg) (f+1) _ (k-1) (skip (look h6)) (by omega)
                  split
                  · rename_i heq6; rw [heq6] at h7; exact (ihM _ _ _ _ h7.1 (by omega)).mono (by omega)
                  · rename_i heq6; rw [heq6] at h7; exact ok3 (Nat.le_trans h7.1 (by omega)) h7.2
                · exact ok3 (Nat.le_trans (look h6) (by omega)) (by decide)
            · rename_i heq4; rw [heq4] at h5; exact ok3 (Nat.le_trans h5.1 (by omega)) h5.2
          · rename_i heq3; rw [heq3] at h4; exact ok3 (Nat.le_trans h4.1 (by omega)) h4.2
      · rename_i heq; rw [heq] at h1; exact ok3 h1.1 h1.2
theorem run_ne_fuel (cfg : Cfg) (limit : Nat) (input : List Byte) : (run cfg limit input).1 ≠ .fuel := by
  have h0 : rem ({ l := { unread := input } } : St) ≤ input.length := by simp [rem]
  have h := ((fuel_mutual (cfg := cfg) (2 * input.length + 4)).1 limit _ input.length h0 (by omega)).2
  simp only [run]
  split
  · split <;> exact Code.noConfusion
  · rename_i heq; rw [heq] at h; exact h
end JD
