/- The fuel argument of AJ/Lemmas/Fuel.lean for the skipping routines and the filtered JSON parser:
   `frun` never reports `Code.fuel`. -/
import AJ.Lemmas.Fuel
namespace JD

theorem skipQuoted_ok {stop} : ∀ f s k, rem s ≤ k → k + 1 ≤ f → OK2 k (skipQuoted stop f s) := by
  intro f
  induction f with
  | zero => intro s k _ hf; omega
  | succ f ih =>
    intro s k h hf
    simp only [skipQuoted]
    have h0 := skip (look h)
    split
    · exact ok2 h0 (by decide)
    · split
      · exact ok2 h0 (by decide)
      · rename_i hc
        obtain ⟨hk, h1⟩ := step h (nz_of_not hc)
        split
        · have h2 := look h1
          split
          · exact (ih _ _ (skip h2) (by omega)).mono (by omega)
          · exact (ih _ _ h2 (by omega)).mono (by omega)
        · exact (ih _ _ h1 (by omega)).mono (by omega)

theorem skipUnquoted_rem : ∀ f s k, rem s ≤ k → rem (skipUnquoted f s) ≤ k := by
  intro f
  induction f with
  | zero => intro s k h; simpa [skipUnquoted] using h
  | succ f ih =>
    intro s k h
    simp only [skipUnquoted]
    split
    · exact ih _ _ (skip (look h))
    · exact look h

theorem skipNumeric_rem {cfg} : ∀ f s k, rem s ≤ k → rem (skipNumeric cfg f s) ≤ k := by
  intro f
  induction f with
  | zero => intro s k h; simpa [skipNumeric] using h
  | succ f ih =>
    intro s k h
    simp only [skipNumeric]
    split
    · exact ih _ _ (skip (look h))
    · exact look h

theorem fuel_skip_mutual {cfg} : ∀ f,
    (∀ limit s k, rem s ≤ k → 2 * k + 1 ≤ f → OK2 k (skipVariant cfg f limit s)) ∧
    (∀ limit s k, rem s ≤ k → 2 * k + 2 ≤ f → OK2 k (skipElems cfg f limit s)) ∧
    (∀ limit s k, rem s ≤ k → 2 * k + 2 ≤ f → OK2 k (skipMembers cfg f limit s)) := by
  intro f
  induction f with
  | zero =>
    refine ⟨?_, ?_, ?_⟩
    · intro limit s k _ hf; omega
    · intro limit s k _ hf; omega
    · intro limit s k _ hf; omega
  | succ f ih =>
    obtain ⟨ihV, ihE, ihM⟩ := ih
    refine ⟨?_, ?_, ?_⟩
    · intro limit s k h hf
      simp only [skipVariant]
      have h0 := skipSpaces_ok (cfg := cfg) (f+1) s k h (by omega)
      split
      · rename_i s1 heq; rw [heq] at h0
        have h1 : rem s1 ≤ k := h0.1
        split
        · rename_i hc
          split
          · exact ok2 (look h1) (by decide)
          · obtain ⟨hk, h2⟩ := step h1 (nz_of_beq hc (by decide))
            exact (ihE _ _ _ h2 (by omega)).mono (by omega)
        · split
          · rename_i hc
            split
            · exact ok2 (look h1) (by decide)
            · obtain ⟨hk, h2⟩ := step h1 (nz_of_beq hc (by decide))
              have h3 := skipSpaces_ok (cfg := cfg) (f+1) _ _ h2 (by omega)
              split
              · rename_i heq2; rw [heq2] at h3
                have h4 : rem _ ≤ k - 1 := h3.1
                split
                · exact ok2 (Nat.le_trans (skip (look h4)) (by omega)) (by decide)
                · exact (ihM _ _ _ (look h4) (by omega)).mono (by omega)
              · exact h3.mono (by omega)
          · split
            · rename_i hq
              have hnz : (cur s1).1 ≠ 0 := by
                intro h0'; rw [h0'] at hq; exact absurd hq (by decide)
              obtain ⟨hk, h2⟩ := step h1 hnz
              exact (skipQuoted_ok (f+1) _ _ h2 (by omega)).mono (by omega)
            · split
              · exact skipKeyword_fuel_ok _ _ _ (look h1)
              · split
                · exact skipKeyword_fuel_ok _ _ _ (look h1)
                · split
                  · exact skipKeyword_fuel_ok _ _ _ (look h1)
                  · exact ok2 (skipNumeric_rem _ _ _ (look h1)) (by decide)
      · exact h0
    · intro limit s k h hf
      simp only [skipElems]
      have h0 := ihV limit s k h (by omega)
      split
      · rename_i heq; rw [heq] at h0
        have h1 := skipSpaces_ok (cfg := cfg) (f+1) _ k h0.1 (by omega)
        split
        · rename_i heq2; rw [heq2] at h1
          have h2 : rem _ ≤ k := h1.1
          split
          · exact ok2 (skip (look h2)) (by decide)
          · split
            · rename_i hc
              obtain ⟨hk, h3⟩ := step h2 (nz_of_beq hc (by decide))
              exact (ihE _ _ _ h3 (by omega)).mono (by omega)
            · exact ok2 (look h2) (by decide)
        · exact h1
      · exact h0
    · intro limit s k h hf
      simp only [skipMembers]
      have hc := look h
      have hkey : OK2 k (if ((cur s).1 == 0x22 || (cur s).1 == 0x27) = true then skipQuoted (cur s).1 (f+1) (mv (cur s).2)
            else (Code.ok, skipUnquoted (f+1) (cur s).2)) := by
        split
        · exact skipQuoted_ok _ _ _ (skip hc) (by omega)
        · exact ok2 (skipUnquoted_rem _ _ _ hc) (by decide)
      generalize (if ((cur s).1 == 0x22 || (cur s).1 == 0x27) = true then skipQuoted (cur s).1 (f+1) (mv (cur s).2)
            else (Code.ok, skipUnquoted (f+1) (cur s).2)) = kr at hkey ⊢
      obtain ⟨kc, s1⟩ := kr
      simp only at ⊢
      split
      · exact hkey
      · have h1 := skipSpaces_ok (cfg := cfg) (f+1) _ k hkey.1 (by omega)
        split
        · rename_i s2 heq; rw [heq] at h1
          have h2 : rem s2 ≤ k := h1.1
          split
          · exact ok2 (look h2) (by decide)
          · rename_i hcol
            have hnz : (cur s2).1 ≠ 0 := by
              intro h0'; rw [h0'] at hcol; exact hcol (by decide)
            obtain ⟨hk, h3⟩ := step h2 hnz
            have h4 := ihV limit _ (k-1) h3 (by omega)
            split
            · rename_i heq3; rw [heq3] at h4
              have h5 := skipSpaces_ok (cfg := cfg) (f+1) _ (k-1) h4.1 (by omega)
              split
              · rename_i heq4; rw [heq4] at h5
                have h6 : rem _ ≤ k - 1 := h5.1
                split
                · exact ok2 (Nat.le_trans (skip (look h6)) (by omega)) (by decide)
                · split
                  · have h7 := skipSpaces_ok (cfg := cfg) (f+1) _ (k-1) (skip (look h6)) (by omega)
                    split
                    · rename_i heq6; rw [heq6] at h7; exact (ihM _ _ _ h7.1 (by omega)).mono (by omega)
                    · exact h7.mono (by omega)
                  · exact ok2 (Nat.le_trans (look h6) (by omega)) (by decide)
              · exact h5.mono (by omega)
            · exact h4.mono (by omega)
        · exact h1

theorem ok3_of_ok2' {α : Type} {k : Nat} {o : Code × St} {x : α} (h : OK2 k o) : OK3 k (o.1, x, o.2) := ⟨h.1, h.2⟩

theorem fuel_fparse_mutual {cfg} : ∀ f,
    (∀ limit flt s k, rem s ≤ k → 2 * k + 1 ≤ f → OK3 k (fparseVariant cfg f limit flt s)) ∧
    (∀ limit flt s acc k, rem s ≤ k → 2 * k + 2 ≤ f → OK3 k (fparseElems cfg f limit flt s acc)) ∧
    (∀ limit flt s ms k, rem s ≤ k → 2 * k + 2 ≤ f → OK3 k (fparseMembers cfg f limit flt s ms)) := by
  intro f
  induction f with
  | zero =>
    refine ⟨?_, ?_, ?_⟩
    · intro limit flt s k _ hf; omega
    · intro limit flt s acc k _ hf; omega
    · intro limit flt s ms k _ hf; omega
  | succ f ih =>
    obtain ⟨ihV, ihE, ihM⟩ := ih
    obtain ⟨skV, skE, skM⟩ := fuel_skip_mutual (cfg := cfg) f
    refine ⟨?_, ?_, ?_⟩
    · intro limit flt s k h hf
      simp only [fparseVariant]
      have h0 := skipSpaces_ok (cfg := cfg) (f+1) s k h (by omega)
      split
      · rename_i s1 heq; rw [heq] at h0
        have h1 : rem s1 ≤ k := h0.1
        split
        · -- '['
          rename_i hc
          have hnz := nz_of_beq hc (by decide)
          split
          · split
            · exact ok3 (look h1) (by decide)
            · obtain ⟨hk, h2⟩ := step h1 hnz
              have h3 := skipSpaces_ok (cfg := cfg) (f+1) _ _ h2 (by omega)
              split
              · rename_i heq2; rw [heq2] at h3
                have h4 : rem _ ≤ k - 1 := h3.1
                split
                · exact ok3 (Nat.le_trans (skip (look h4)) (by omega)) (by decide)
                · exact (ihE _ _ _ _ _ (look h4) (by omega)).mono (by omega)
              · rename_i heq2; rw [heq2] at h3; exact ok3 (Nat.le_trans h3.1 (by omega)) h3.2
          · split
            · exact ok3 (look h1) (by decide)
            · obtain ⟨hk, h2⟩ := step h1 hnz
              exact ok3_of_ok2' ((skE _ _ _ h2 (by omega)).mono (by omega))
        · split
          · -- '{'
            rename_i hc
            have hnz := nz_of_beq hc (by decide)
            split
            · split
              · exact ok3 (look h1) (by decide)
              · obtain ⟨hk, h2⟩ := step h1 hnz
                have h3 := skipSpaces_ok (cfg := cfg) (f+1) _ _ h2 (by omega)
                split
                · rename_i heq2; rw [heq2] at h3
                  have h4 : rem _ ≤ k - 1 := h3.1
                  split
                  · exact ok3 (Nat.le_trans (skip (look h4)) (by omega)) (by decide)
                  · exact (ihM _ _ _ _ _ (look h4) (by omega)).mono (by omega)
                · rename_i heq2; rw [heq2] at h3; exact ok3 (Nat.le_trans h3.1 (by omega)) h3.2
            · split
              · exact ok3 (look h1) (by decide)
              · obtain ⟨hk, h2⟩ := step h1 hnz
                have h3 := skipSpaces_ok (cfg := cfg) (f+1) _ _ h2 (by omega)
                split
                · rename_i heq2; rw [heq2] at h3
                  have h4 : rem _ ≤ k - 1 := h3.1
                  split
                  · exact ok3 (Nat.le_trans (skip (look h4)) (by omega)) (by decide)
                  · exact ok3_of_ok2' ((skM _ _ _ (look h4) (by omega)).mono (by omega))
                · rename_i heq2; rw [heq2] at h3; exact ok3 (Nat.le_trans h3.1 (by omega)) h3.2
          · split
            · rename_i hq
              have hnz : (cur s1).1 ≠ 0 := by
                intro h0'; rw [h0'] at hq; exact absurd hq (by decide)
              obtain ⟨hk, h2⟩ := step h1 hnz
              split
              · have h3 := parseQuoted_ok (cfg := cfg) (stop := (cur s1).1) (f+1) [] 0 _ _ h2 (by omega)
                split <;> (rename_i heq2; rw [heq2] at h3; exact ok3 (Nat.le_trans h3.1 (by omega)) h3.2)
              · exact ok3_of_ok2' ((skipQuoted_ok (f+1) _ _ h2 (by omega)).mono (by omega))
            · split
              · exact ok3_of_ok2' (skipKeyword_fuel_ok _ _ _ (look h1))
              · split
                · exact ok3_of_ok2' (skipKeyword_fuel_ok _ _ _ (look h1))
                · split
                  · exact ok3_of_ok2' (skipKeyword_fuel_ok _ _ _ (look h1))
                  · split
                    · exact parseNumeric_ok _ _ (look h1)
                    · exact ok3 (skipNumeric_rem _ _ _ (look h1)) (by decide)
      · rename_i heq; rw [heq] at h0; exact ok3 h0.1 h0.2
    · intro limit flt s acc k h hf
      simp only [fparseElems]
      have hk : OK3 k (if flt.allow = true then
              ((fparseVariant cfg f limit flt s).fst, (fparseVariant cfg f limit flt s).2.fst :: acc,
                (fparseVariant cfg f limit flt s).2.snd)
            else ((skipVariant cfg f limit s).fst, acc, (skipVariant cfg f limit s).snd)) := by
        split
        · have := ihV limit flt s k h (by omega); exact ⟨this.1, this.2⟩
        · exact ok3_of_ok2' (skV _ _ _ h (by omega))
      generalize (if flt.allow = true then
              ((fparseVariant cfg f limit flt s).fst, (fparseVariant cfg f limit flt s).2.fst :: acc,
                (fparseVariant cfg f limit flt s).2.snd)
            else ((skipVariant cfg f limit s).fst, acc, (skipVariant cfg f limit s).snd)) = kr at hk ⊢
      obtain ⟨e, vs, s1⟩ := kr
      simp only at ⊢
      split
      · have h1 := skipSpaces_ok (cfg := cfg) (f+1) _ k hk.1 (by omega)
        split
        · rename_i heq2; rw [heq2] at h1
          have h2 : rem _ ≤ k := h1.1
          split
          · exact ok3 (skip (look h2)) (by decide)
          · split
            · rename_i hc
              obtain ⟨hk1, h3⟩ := step h2 (nz_of_beq hc (by decide))
              exact (ihE _ _ _ _ _ h3 (by omega)).mono (by omega)
            · exact ok3 (look h2) (by decide)
        · rename_i heq2; rw [heq2] at h1; exact ok3 h1.1 h1.2
      · exact ok3 hk.1 hk.2
    · intro limit flt s ms k h hf
      simp only [fparseMembers]
      have hc := look h
      have hkey : OK3 k (if ((cur s).1 == 0x22 || (cur s).1 == 0x27) = true then parseQuoted cfg (cur s).1 (f+1) [] 0 (mv (cur s).2)
            else if inUnquoted (cur s).1 = true then
              ((if (parseUnquoted (f+1) [] (cur s).2).1.length > cfg.maxStrLen then Code.noMemory else Code.ok), (parseUnquoted (f+1) [] (cur s).2).1, (parseUnquoted (f+1) [] (cur s).2).2)
            else (Code.invalid, [], (cur s).2)) := by
        split
        · exact parseQuoted_ok _ _ _ _ _ (skip hc) (by omega)
        · split
          · exact ok3 (parseUnquoted_rem _ _ _ _ hc) (by split <;> decide)
          · exact ok3 hc (by decide)
      generalize (if ((cur s).1 == 0x22 || (cur s).1 == 0x27) = true then parseQuoted cfg (cur s).1 (f+1) [] 0 (mv (cur s).2)
            else if inUnquoted (cur s).1 = true then
              ((if (parseUnquoted (f+1) [] (cur s).2).1.length > cfg.maxStrLen then Code.noMemory else Code.ok), (parseUnquoted (f+1) [] (cur s).2).1, (parseUnquoted (f+1) [] (cur s).2).2)
            else (Code.invalid, [], (cur s).2)) = kr at hkey ⊢
      obtain ⟨kc, key, s1⟩ := kr
      cases kc <;> simp only at ⊢ <;> try exact ok3 hkey.1 hkey.2
      have h1 := skipSpaces_ok (cfg := cfg) (f+1) _ k hkey.1 (by omega)
      split
      · rename_i s2 heq; rw [heq] at h1
        have h2 : rem s2 ≤ k := h1.1
        split
        · exact ok3 (look h2) (by decide)
        · rename_i hcol
          have hnz : (cur s2).1 ≠ 0 := by
            intro h0'; rw [h0'] at hcol; exact hcol (by decide)
          obtain ⟨hk1, h3⟩ := step h2 hnz
          have hv : OK3 (k-1) (if (flt.subKey key).allow = true then
                    ((fparseVariant cfg f limit (flt.subKey key) (mv (cur s2).snd)).fst,
                      setMember ms key (fparseVariant cfg f limit (flt.subKey key) (mv (cur s2).snd)).2.fst,
                      (fparseVariant cfg f limit (flt.subKey key) (mv (cur s2).snd)).2.snd)
                  else
                    ((skipVariant cfg f limit (mv (cur s2).snd)).fst, ms,
                      (skipVariant cfg f limit (mv (cur s2).snd)).snd)) := by
            split
            · have := ihV limit (flt.subKey key) _ (k-1) h3 (by omega); exact ⟨this.1, this.2⟩
            · exact ok3_of_ok2' (skV _ _ _ h3 (by omega))
          generalize (if (flt.subKey key).allow = true then
                    ((fparseVariant cfg f limit (flt.subKey key) (mv (cur s2).snd)).fst,
                      setMember ms key (fparseVariant cfg f limit (flt.subKey key) (mv (cur s2).snd)).2.fst,
                      (fparseVariant cfg f limit (flt.subKey key) (mv (cur s2).snd)).2.snd)
                  else
                    ((skipVariant cfg f limit (mv (cur s2).snd)).fst, ms,
                      (skipVariant cfg f limit (mv (cur s2).snd)).snd)) = vr at hv ⊢
          obtain ⟨e, ms', s3⟩ := vr
          simp only at ⊢
          split
          · have h5 := skipSpaces_ok (cfg := cfg) (f+1) _ (k-1) hv.1 (by omega)
            split
            · rename_i heq4; rw [heq4] at h5
              have h6 : rem _ ≤ k - 1 := h5.1
              split
              · exact ok3 (Nat.le_trans (skip (look h6)) (by omega)) (by decide)
              · split
                · have h7 := skipSpaces_ok (cfg := cfg) (f+1) _ (k-1) (skip (look h6)) (by omega)
                  split
                  · rename_i heq6; rw [heq6] at h7; exact (ihM _ _ _ _ _ h7.1 (by omega)).mono (by omega)
                  · rename_i heq6; rw [heq6] at h7; exact ok3 (Nat.le_trans h7.1 (by omega)) h7.2
                · exact ok3 (Nat.le_trans (look h6) (by omega)) (by decide)
            · rename_i heq4; rw [heq4] at h5; exact ok3 (Nat.le_trans h5.1 (by omega)) h5.2
          · exact ok3 (Nat.le_trans hv.1 (by omega)) hv.2
      · rename_i heq; rw [heq] at h1; exact ok3 h1.1 h1.2

theorem frun_ne_fuel (cfg : Cfg) (limit : Nat) (flt : Flt) (input : List Byte) :
    (frun cfg limit flt input).1 ≠ .fuel := by
  have h0 : rem ({ l := { unread := input } } : St) ≤ input.length := by simp [rem]
  have h := ((fuel_fparse_mutual (cfg := cfg) (2 * input.length + 4)).1 limit flt _ input.length h0 (by omega)).2
  simp only [frun]
  split
  · split <;> exact Code.noConfusion
  · rename_i heq; rw [heq] at h; exact h
end JD
