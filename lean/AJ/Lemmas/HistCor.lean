/- The plain ordered tree: an abstract machine `ARun` over `JD.Val` whose operations address their target by a PATH from
   the root (list of child positions: element index in an array, member position in an object), and the correspondence
   with the slot-level histories `C04.Hist2`:
   §1-2 `updAt`/`getAt`/`Diverge`, `pathOf F l` (path of location `l` in the ghost layout `F`),
        `absWith d F l (g (value at l)) = updAt g (pathOf F l) (abs d)`;
   §3-5 `AOp`, `ARun`, `Op2.toA`, `Op2.Succ`, `spec_eq_step`/`step_simulates` (`Op2.spec` is the abstract step), `HistA`;
   §6-7 `getAt_pathOf`, stability of the paths of the other locations under a layout change (`pathOf_replaceAt`);
   §8   the overflow flag is sticky and set by every failed allocation (`step_overflowed`, `Hist2.toHistA`);
   §9   unfolding equations for the examples;
   §10-11 pool list: below the limit `allocSlot` succeeds (`PL.allocSlot_succeeds`), `PL.Nominal` is kept by every step
        whose allocations succeed (`C04.step_nominal`).
   Used by AJ/Props/C14Hist.lean and AJ/Props/C19Geo.lean. -/
import AJ.Props.C04Rem
import AJ.Lemmas.DocReuse
import AJ.Lemmas.DocCopy
namespace DL
open JD (Byte Val)

/-! ## 1. Paths into an ordered tree -/

/-- a path from the root: the position of the child to descend into (element index of an array, member index of an
    object), repeatedly -/
abbrev Path := List Nat

/-- apply `f` to the `n`-th entry of a list (nothing happens when `n` is out of range) -/
def modNth {α} (f : α → α) : Nat → List α → List α
  | _, [] => []
  | 0, a :: l => f a :: l
  | n+1, a :: l => a :: modNth f n l

theorem modNth_nil {α} (f : α → α) (n : Nat) : modNth f n [] = [] := by cases n <;> rfl

theorem map_modNth {α β} (h : α → β) (f : α → α) (f' : β → β) (hc : ∀ a, h (f a) = f' (h a)) :
    ∀ (n : Nat) (l : List α), (modNth f n l).map h = modNth f' n (l.map h)
  | n, [] => by simp only [modNth_nil, List.map_nil]
  | 0, a :: l => by simp only [modNth, List.map_cons, hc]
  | n+1, a :: l => by simp only [modNth, List.map_cons, map_modNth h f f' hc n l]

theorem getElem?_modNth_ne {α} (f : α → α) : ∀ (n m : Nat) (l : List α), m ≠ n → (modNth f n l)[m]? = l[m]?
  | n, m, [], _ => by simp only [modNth_nil]
  | 0, 0, _ :: _, h => absurd rfl h
  | 0, m+1, a :: l, _ => by simp only [modNth, List.getElem?_cons_succ]
  | n+1, 0, a :: l, _ => by simp only [modNth, List.getElem?_cons_zero]
  | n+1, m+1, a :: l, h => by
    simp only [modNth, List.getElem?_cons_succ]
    exact getElem?_modNth_ne f n m l (fun e => h (by rw [e]))

theorem getElem?_modNth_self {α} (f : α → α) : ∀ (n : Nat) (l : List α), (modNth f n l)[n]? = l[n]?.map f
  | n, [] => by simp only [modNth_nil, List.getElem?_nil, Option.map_none]
  | 0, a :: l => by simp only [modNth, List.getElem?_cons_zero, Option.map_some]
  | n+1, a :: l => by simp only [modNth, List.getElem?_cons_succ]; exact getElem?_modNth_self f n l

/-- `updAt g p t`: the tree `t` in which the value at path `p` is replaced by `g` of it, nothing else changed (a path
    that leaves the tree changes nothing) -/
def updAt (g : Val → Val) : Path → Val → Val
  | [], v => g v
  | k :: p, .arr xs => .arr (modNth (updAt g p) k xs)
  | k :: p, .obj ms => .obj (modNth (fun m => (m.1, updAt g p m.2)) k ms)
  | _ :: _, v => v

/-- the value at path `p` -/
def getAt : Path → Val → Option Val
  | [], v => some v
  | k :: p, .arr xs => (xs[k]?).bind (getAt p)
  | k :: p, .obj ms => (ms[k]?).bind (fun m => getAt p m.2)
  | _ :: _, _ => none

/-- the same on a list of members (the level at which `DL.vals` works) -/
def updM (g : Val → Val) : Path → List (List Byte × Val) → List (List Byte × Val)
  | [], ms => ms
  | k :: p, ms => modNth (fun m => (m.1, updAt g p m.2)) k ms

/-- the two paths part ways: neither is a prefix of the other -/
def Diverge : Path → Path → Prop
  | i :: p, j :: q => i ≠ j ∨ (i = j ∧ Diverge p q)
  | _, _ => False

theorem Diverge.symm : ∀ {p q : Path}, Diverge p q → Diverge q p
  | i :: p, j :: q, h => by
    rcases h with h | ⟨h1, h2⟩
    · exact Or.inl (Ne.symm h)
    · exact Or.inr ⟨h1.symm, Diverge.symm h2⟩
  | [], _, h => by cases h
  | _ :: _, [], h => by cases h

/-- FRAME on trees: an update at `p` is invisible at every path that parts ways with `p` -/
theorem getAt_updAt_diverge (g : Val → Val) : ∀ (p q : Path) (t : Val), Diverge p q → getAt q (updAt g p t) = getAt q t
  | [], _, _, h => by cases h
  | _ :: _, [], _, h => by cases h
  | i :: p, j :: q, t, h => by
    cases t with
    | arr xs =>
      simp only [updAt, getAt]
      rcases h with h | ⟨rfl, h⟩
      · rw [getElem?_modNth_ne _ _ _ _ (Ne.symm h)]
      · rw [getElem?_modNth_self]
        cases xs[i]? with
        | none => rfl
        | some x => exact getAt_updAt_diverge g p q x h
    | obj ms =>
      simp only [updAt, getAt]
      rcases h with h | ⟨rfl, h⟩
      · rw [getElem?_modNth_ne _ _ _ _ (Ne.symm h)]
      · rw [getElem?_modNth_self]
        cases ms[i]? with
        | none => rfl
        | some x => exact getAt_updAt_diverge g p q x.2 h
    | _ => rfl

/-- the value at the updated path itself -/
theorem getAt_updAt_self (g : Val → Val) : ∀ (p : Path) (t : Val), getAt p (updAt g p t) = (getAt p t).map g
  | [], _ => rfl
  | i :: p, t => by
    cases t with
    | arr xs =>
      simp only [updAt, getAt, getElem?_modNth_self]
      cases xs[i]? with
      | none => rfl
      | some x => exact getAt_updAt_self g p x
    | obj ms =>
      simp only [updAt, getAt, getElem?_modNth_self]
      cases ms[i]? with
      | none => rfl
      | some x => exact getAt_updAt_self g p x.2
    | _ => rfl

/-! ## 2. The path of a location in a layout -/

def bump : Path → Path | [] => [] | k :: p => (k+1) :: p

namespace Forest
/-- path (relative to the collection laid out as the forest) of the value slot `i` -/
def pathTo : Forest → Nat → Path
  | nil, _ => []
  | cons _ j s r, i => if j = i then [0] else if i ∈ s.locs then 0 :: pathTo s i else bump (pathTo r i)

theorem pathTo_ne_nil (F : Forest) {i : Nat} (h : i ∈ F.locs) : F.pathTo i ≠ [] := by
  induction F with
  | nil => cases h
  | cons k j s r ihs ihr =>
    simp only [pathTo]
    split
    · exact List.cons_ne_nil _ _
    · rename_i hji
      split
      · exact List.cons_ne_nil _ _
      · rename_i his
        simp only [locs, List.mem_cons, List.mem_append] at h
        have hir : i ∈ r.locs := by
          rcases h with e | m | m
          · exact absurd e.symm hji
          · exact absurd m his
          · exact m
        have := ihr hir
        cases hp : r.pathTo i with
        | nil => exact absurd hp this
        | cons a b => exact List.cons_ne_nil _ _
end Forest

/-- the path of a location: the root is `[]` -/
def pathOf (F : Forest) : Loc → Path
  | .root => []
  | .slot i => F.pathTo i

theorem updM_bump (g : Val → Val) (p : Path) (m : List Byte × Val) (ms : List (List Byte × Val)) :
    updM g (bump p) (m :: ms) = m :: updM g p ms := by
  cases p <;> rfl

/-- `mkVal` commutes with an update strictly below: on a scalar both sides are the scalar -/
theorem mkVal_updM (d : Doc) (v : VData) (g : Val → Val) {p : Path} (hp : p ≠ []) (sub : List (List Byte × Val)) :
    mkVal d v (updM g p sub) = updAt g p (mkVal d v sub) := by
  cases p with
  | nil => exact absurd rfl hp
  | cons k p =>
    cases v <;> try rfl
    · simp only [mkVal, updM, updAt]
      exact congrArg Val.arr (map_modNth (fun x => x.2) _ (updAt g p) (fun a => rfl) k sub)

/-- what overriding the value of slot `i` by `g` of its value does to the members of a chain: an update at the path of
    `i` -/
theorem vals_ov_path (d : Doc) (g : Val → Val) (i : Nat) : ∀ (F : Forest), F.ids.Nodup → i ∈ F.locs →
    vals d (ov1 i (g (mkVal d (d.get (.slot i)) (vals d noOv (F.subOf i))))) F = updM g (F.pathTo i) (vals d noOv F) := by
  intro F
  induction F with
  | nil => intro _ h; cases h
  | cons key j s r ihs ihr =>
    intro hnd hmem
    obtain ⟨nds, ndr, njs, njr, nsr, nk⟩ := Forest.nodup_cons hnd
    by_cases hji : j = i
    · subst hji
      simp only [Forest.subOf, Forest.pathTo, if_true, vals, ov1, Option.getD_some, noOv, Option.getD_none, updM, modNth,
        updAt]
      rw [vals_ov_notin d j _ r (fun m => njr (r.locs_sub_ids j m))]
    · simp only [Forest.locs, List.mem_cons, List.mem_append] at hmem
      by_cases his : i ∈ s.locs
      · have hir : i ∉ r.locs := fun m => nsr i (s.locs_sub_ids i his) (r.locs_sub_ids i m)
        simp only [Forest.subOf, Forest.pathTo, if_neg hji, if_pos his, vals, ov1, noOv, Option.getD_none, updM, modNth]
        rw [vals_ov_notin d i _ r hir]
        have := ihs nds his
        rw [this, mkVal_updM d _ g (Forest.pathTo_ne_nil s his)]
      · have hir : i ∈ r.locs := by
          rcases hmem with e | m | m
          · exact absurd e.symm hji
          · exact absurd m his
          · exact m
        simp only [Forest.subOf, Forest.pathTo, if_neg hji, if_neg his, vals, ov1, noOv, Option.getD_none]
        rw [updM_bump]
        have := ihr ndr hir
        rw [this]
        have hs := vals_ov_notin d i (g (mkVal d (d.get (.slot i)) (vals d noOv (r.subOf i)))) s his
        rw [hs]

/-- `absWith` is an update at the path of the location -/
theorem absWith_updAt {d : Doc} {F : Forest} {l : Loc} (w : WFG d F) (hl : isLoc F l) (g : Val → Val) :
    absWith d F l (g (d.toVal (d.get l))) = updAt g (pathOf F l) (abs d) := by
  cases l with
  | root => rfl
  | slot i =>
    rw [toVal_at w hl, abs_eq w]
    simp only [absWith, layoutAt, Doc.valOf, pathOf]
    rw [vals_ov_path d g i F w.nodup hl, mkVal_updM d _ g (Forest.pathTo_ne_nil F hl)]

/-! ## 3. The abstract machine -/

/-- operations of the plain ordered tree; the target is designated by its path from the root. A string is just its
    bytes: there is no "linked" or "copied" here. -/
inductive AOp
  | add (p : Path)                                -- append a null element to the array at `p`
  | clear (p : Path)                              -- the value at `p` becomes null
  | put (p : Path) (v : Val)                      -- store the scalar/string `v` at `p`
  | removeElem (p : Path) (k : Nat)               -- remove element `k` of the array at `p`
  | removeMember (p : Path) (key : List Byte)     -- remove the first member `key` of the object at `p`
  | member (p : Path) (key : List Byte)           -- `object[key]`: make sure the object at `p` has a member `key`

def AOp.path : AOp → Path
  | .add p | .clear p | .put p _ | .removeElem p _ | .removeMember p _ | .member p _ => p

/-- what the operation does to the value it targets -/
def AOp.local : AOp → Val → Val
  | .add _, .arr xs => .arr (xs ++ [.null])
  | .add _, v => v
  | .clear _, _ => .null
  | .put _ x, _ => x
  | .removeElem _ k, .arr xs => .arr (xs.eraseIdx k)
  | .removeElem _ _, v => v
  | .removeMember _ key, .obj ms => .obj (ms.eraseP (fun m => m.1 == key))
  | .removeMember _ _, v => v
  | .member _ key, .obj ms =>
    (match ms.find? (fun m => m.1 == key) with
     | some _ => .obj ms
     | none => .obj (ms ++ [(key, .null)]))
  | .member _ key, .null => .obj [(key, .null)]
  | .member _ _, v => v

/-- one step of the abstract machine: the local effect at the path, nothing else -/
def AOp.step (t : Val) (a : AOp) : Val := updAt a.local a.path t

/-- the abstract machine on a whole history -/
def ARun (t : Val) (as : List AOp) : Val := as.foldl AOp.step t

theorem ARun_nil (t : Val) : ARun t [] = t := rfl
theorem ARun_cons (t : Val) (a : AOp) (as : List AOp) : ARun t (a :: as) = ARun (a.step t) as := rfl

/-- FRAME for the abstract machine, whole histories: a path that parts ways with the target of every operation keeps its
    value -/
theorem ARun_frame (q : Path) : ∀ (as : List AOp) (t : Val), (∀ a ∈ as, Diverge a.path q) → getAt q (ARun t as) = getAt q t
  | [], _, _ => rfl
  | a :: as, t, h => by
    rw [ARun_cons, ARun_frame q as _ (fun b hb => h b (List.mem_cons_of_mem _ hb))]
    exact getAt_updAt_diverge _ _ _ _ (h a (List.mem_cons_self))

end DL

/-! ## 4. Concrete operations as abstract operations -/
namespace C04
open DL
open JD (Byte Val)

/-- the abstract operation a concrete one stands for, in the layout `F`: the location becomes its path, a string
    argument or key becomes its bytes (`argVal` maps `strLinked s` and `strCopied s` to `.str s`; the `linked` flag of
    `member` is dropped) -/
def Op2.toA (F : Forest) : Op2 → AOp
  | .base (.add l) => .add (pathOf F l)
  | .base (.clear l) => .clear (pathOf F l)
  | .base (.put l a) => .put (pathOf F l) (argVal a)
  | .removeElem l k => .removeElem (pathOf F l) k
  | .removeMember l key => .removeMember (pathOf F l) key
  | .member l key _ => .member (pathOf F l) key

/-- the allocations of the step succeed (`put` reports success already in `Op2.Valid`) -/
def Op2.Succ (d : Doc) : Op2 → Prop
  | .base (.add l) => (d.addElement l).1 ≠ none
  | .member l key linked => (d.getOrAddMember l key linked).1 ≠ none
  | _ => True

/-- location targeted by the operation -/
def Op2.loc : Op2 → Loc
  | .base (.add l) | .base (.clear l) | .base (.put l _) | .removeElem l _ | .removeMember l _ | .member l _ _ => l

theorem Op2.toA_path (F : Forest) (op : Op2) : (op.toA F).path = pathOf F op.loc := by
  cases op with
  | base op => cases op <;> rfl
  | _ => rfl

theorem Op2.valid_loc {d : Doc} {F : Forest} {op : Op2} (hv : op.Valid d F) : isLoc F op.loc := by
  cases op with
  | base op => cases op <;> first | exact hv.1 | exact hv
  | _ => exact hv.1

/-- `Op2.spec` is the abstract step: when the allocations of a valid step succeed, the list-level machine of
    AJ/Props/C04Rem.lean computes `updAt (local effect) (path of the location)` -/
theorem spec_eq_step {d : Doc} {F : Forest} {op : Op2} (w : WFG d F) (hv : op.Valid d F) (hok : op.Succ d) :
    op.spec d F = (op.toA F).step (abs d) := by
  cases op with
  | base op =>
    cases op with
    | add l =>
      obtain ⟨hl, h, t, hg⟩ := hv
      obtain ⟨xs, hx, _⟩ := (size_spec w hl).1 h t hg
      simp only [Op2.spec, Op.spec, Op2.toA, AOp.step, AOp.path]
      cases hr : (d.addElement l).1 with
      | none => exact absurd hr hok
      | some id =>
        simp only [hx]
        rw [← absWith_updAt w hl, hx]; rfl
    | clear l =>
      simp only [Op2.spec, Op.spec, Op2.toA, AOp.step, AOp.path]
      exact absWith_updAt w hv (AOp.clear (pathOf F l)).local
    | put l a =>
      simp only [Op2.spec, Op.spec, Op2.toA, AOp.step, AOp.path]
      exact absWith_updAt w hv.1 (AOp.put (pathOf F l) (argVal a)).local
  | removeElem l k =>
    obtain ⟨hl, h, t, hg⟩ := hv
    obtain ⟨xs, hx, _⟩ := (size_spec w hl).1 h t hg
    simp only [Op2.spec, Op2.toA, AOp.step, AOp.path, hx]
    rw [← absWith_updAt w hl, hx]; rfl
  | removeMember l key =>
    obtain ⟨hl, h, t, hg⟩ := hv
    obtain ⟨ms, hx, _⟩ := (size_spec w hl).2 h t hg
    simp only [Op2.spec, Op2.toA, AOp.step, AOp.path, hx]
    rw [← absWith_updAt w hl, hx]; rfl
  | member l key linked =>
    obtain ⟨hl, hobj⟩ := hv
    simp only [Op2.spec, Op2.toA, AOp.step, AOp.path]
    rw [← absWith_updAt w hl]
    rcases hobj with hnull | ⟨h, t, hg⟩
    · have hm : membersAt d l = [] := by simp only [membersAt, hnull, toVal_null]
      rw [hm, hnull, toVal_null]
      cases hr : (d.getOrAddMember l key linked).1 with
      | none => exact absurd hr hok
      | some v => rfl
    · obtain ⟨ms, hx, _⟩ := (size_spec w hl).2 h t hg
      have hm : membersAt d l = ms := by simp only [membersAt, hx]
      rw [hm, hx]
      cases hf : ms.find? (fun m => m.1 == key) with
      | some m => simp only [AOp.local, hf]
      | none =>
        cases hr : (d.getOrAddMember l key linked).1 with
        | none => exact absurd hr hok
        | some v => simp only [AOp.local, hf]

/-- one valid step whose allocations succeed is one step of the abstract machine -/
theorem step_simulates {d : Doc} {F : Forest} {op : Op2} (w : WFG d F) (hs : StrOK d (d.strRefs F))
    (gok : PL.GeoOK d.g) (hv : op.Valid d F) (hok : op.Succ d) :
    abs (op.run d) = (op.toA F).step (abs d) := by
  rw [(step_refines2 w hs gok hv).2.2.2, spec_eq_step w hv hok]

/-! ## 5. Histories -/

/-- `HistA d F as d' F'`: a history `C04.Hist2 d F d' F'` of valid operations all of whose allocations succeed, together
    with the abstract operations `as` it stands for (each concrete step `op` in the layout `G` of that moment
    contributes `op.toA G`) -/
inductive HistA : Doc → Forest → List AOp → Doc → Forest → Prop
  | nil (d : Doc) (F : Forest) : HistA d F [] d F
  | cons {d : Doc} {F : Forest} {as : List AOp} {d' : Doc} {F' : Forest} (op : Op2) :
      op.Valid d F → op.Succ d → HistA (op.run d) (op.layout d F) as d' F' → HistA d F (op.toA F :: as) d' F'

/-- forgetting the abstract operations -/
theorem HistA.hist2 {d d' : Doc} {F F' : Forest} {as : List AOp} (h : HistA d F as d' F') : Hist2 d F d' F' := by
  induction h with
  | nil d F => exact Hist2.nil d F
  | cons op hv _ _ ih => exact Hist2.cons op hv ih

/-- appending one more step at the end -/
theorem HistA.snoc {d d' : Doc} {F F' : Forest} {as : List AOp} (h : HistA d F as d' F') (op : Op2)
    (hv : op.Valid d' F') (hok : op.Succ d') : HistA d F (as ++ [op.toA F']) (op.run d') (op.layout d' F') := by
  induction h with
  | nil d F => exact HistA.cons op hv hok (HistA.nil _ _)
  | cons op' hv' hok' _ ih => exact HistA.cons op' hv' hok' (ih hv hok)

end C04

namespace DL
open JD (Byte Val)

/-! ## 6. Reading at a path -/

def getM : Path → List (List Byte × Val) → Option Val
  | [], _ => none
  | k :: p, ms => (ms[k]?).bind (fun m => getAt p m.2)

theorem getM_bump (p : Path) (m : List Byte × Val) (ms : List (List Byte × Val)) : getM (bump p) (m :: ms) = getM p ms := by
  cases p with
  | nil => rfl
  | cons k p => simp only [bump, getM, List.getElem?_cons_succ]

theorem mkVal_getM (d : Doc) {v : VData} (hc : isColl v) {p : Path} (hp : p ≠ []) (sub : List (List Byte × Val)) :
    getAt p (mkVal d v sub) = getM p sub := by
  cases p with
  | nil => exact absurd rfl hp
  | cons k p =>
    cases v
    case arr hd t =>
      simp only [mkVal, getAt, getM, List.getElem?_map]
      cases sub[k]? <;> rfl
    case obj hd t => rfl
    all_goals exact absurd hc (by simp [isColl])

theorem vals_get_path {d : Doc} {i : Nat} : ∀ (F : Forest) {b : Bool} {h : Nat}, Lk d b h F → F.ids.Nodup → i ∈ F.locs →
    getM (F.pathTo i) (vals d noOv F) = some (mkVal d (d.get (.slot i)) (vals d noOv (F.subOf i))) := by
  intro F
  induction F with
  | nil => intro _ _ _ _ h; cases h
  | cons key j s r ihs ihr =>
    intro b h hl hnd hmem
    rw [Lk_cons] at hl
    obtain ⟨_, _, _, h4, h5⟩ := hl
    obtain ⟨nds, ndr, njs, njr, nsr, nk⟩ := Forest.nodup_cons hnd
    by_cases hji : j = i
    · subst hji
      simp only [Forest.subOf, Forest.pathTo, if_true, vals, noOv, Option.getD_none, getM, List.getElem?_cons_zero,
        Option.bind_some, getAt]
    · simp only [Forest.locs, List.mem_cons, List.mem_append] at hmem
      by_cases his : i ∈ s.locs
      · have hne : s ≠ .nil := by intro e; subst e; cases his
        obtain ⟨bb, hd, hls, hcoll⟩ := VOK_coll_of_ne_nil h5 hne
        simp only [Forest.subOf, Forest.pathTo, if_neg hji, if_pos his, vals, noOv, Option.getD_none, getM,
          List.getElem?_cons_zero, Option.bind_some]
        rw [mkVal_getM d hcoll (Forest.pathTo_ne_nil s his)]
        exact ihs hls nds his
      · have hir : i ∈ r.locs := by
          rcases hmem with e | m | m
          · exact absurd e.symm hji
          · exact absurd m his
          · exact m
        simp only [Forest.subOf, Forest.pathTo, if_neg hji, if_neg his, vals]
        rw [getM_bump]
        exact ihr h4 ndr hir

/-- reading a location is reading the tree at its path -/
theorem getAt_pathOf {d : Doc} {F : Forest} {l : Loc} (w : WFG d F) (hl : isLoc F l) :
    getAt (pathOf F l) (abs d) = some (d.toVal (d.get l)) := by
  cases l with
  | root => rfl
  | slot i =>
    have hne : F ≠ .nil := by intro e; subst e; cases hl
    obtain ⟨b, h, hlk, hc⟩ := VOK_coll_of_ne_nil w.root hne
    rw [toVal_at w hl, abs_eq w]
    simp only [Doc.valOf, pathOf, layoutAt]
    rw [mkVal_getM d hc (Forest.pathTo_ne_nil F hl)]
    exact vals_get_path F hlk w.nodup hl

/-! ## 7. Paths of the other locations are stable under a change of the layout below one location -/

theorem diverge_bump : ∀ {p q : Path}, p ≠ [] → q ≠ [] → (Diverge (bump p) (bump q) ↔ Diverge p q)
  | [], _, h, _ => absurd rfl h
  | _ :: _, [], _, h => absurd rfl h
  | i :: p, j :: q, _, _ => by
    simp only [bump, Diverge]
    constructor
    · rintro (h | ⟨h1, h2⟩)
      · exact Or.inl (fun e => h (by rw [e]))
      · exact Or.inr ⟨by omega, h2⟩
    · rintro (h | ⟨h1, h2⟩)
      · exact Or.inl (fun e => h (by omega))
      · exact Or.inr ⟨by rw [h1], h2⟩

theorem head_bump_ne_zero : ∀ {p : Path}, p ≠ [] → ∃ k q, bump p = (k+1) :: q
  | [], h => absurd rfl h
  | k :: q, _ => ⟨k, q, rfl⟩

namespace Forest

theorem locs_replaceSub_sub (i : Nat) (s' : Forest) : ∀ (F : Forest) (x : Nat), x ∈ (F.replaceSub i s').locs →
    x ∈ F.locs ∨ x ∈ s'.locs := by
  intro F
  induction F with
  | nil => intro x h; cases h
  | cons k j s r ihs ihr =>
    intro x h
    simp only [replaceSub] at h
    split at h
    · simp only [locs, List.mem_cons, List.mem_append] at h ⊢
      rcases h with h | h | h
      · exact Or.inl (Or.inl h)
      · exact Or.inr h
      · exact Or.inl (Or.inr (Or.inr h))
    · simp only [locs, List.mem_cons, List.mem_append] at h ⊢
      rcases h with h | h | h
      · exact Or.inl (Or.inl h)
      · rcases ihs x h with h | h
        · exact Or.inl (Or.inr (Or.inl h))
        · exact Or.inr h
      · rcases ihr x h with h | h
        · exact Or.inl (Or.inr (Or.inr h))
        · exact Or.inr h

theorem subOf_locs_sub (F : Forest) (i : Nat) : ∀ x ∈ (F.subOf i).locs, x ∈ F.locs := by
  induction F with
  | nil => intro x h; cases h
  | cons k j s r ihs ihr =>
    intro x h
    simp only [subOf] at h
    simp only [locs, List.mem_append, List.mem_cons]
    split at h
    · exact Or.inr (Or.inl h)
    · split at h
      · exact Or.inr (Or.inl (ihs x h))
      · exact Or.inr (Or.inr (ihr x h))

/-- a value slot `j` whose path parts ways with the path of `i` is still a value slot, with the same path, after the
    layout below `i` has been replaced by `s'` (whose value slots are old slots below `i` or new ones) -/
theorem pathTo_replaceSub (i j : Nat) (s' : Forest) : ∀ (F : Forest), F.ids.Nodup → i ∈ F.locs → j ∈ F.locs →
    Diverge (F.pathTo i) (F.pathTo j) → (∀ x ∈ s'.locs, x ∈ (F.subOf i).locs ∨ x ∉ F.locs) →
    j ∈ (F.replaceSub i s').locs ∧ (F.replaceSub i s').pathTo j = F.pathTo j := by
  intro F
  induction F with
  | nil => intro _ h; cases h
  | cons k a s r ihs ihr =>
    intro hnd hi hj hdv hs'
    obtain ⟨nds, ndr, nas, nar, nsr, nk⟩ := nodup_cons hnd
    have hsr : ∀ x, x ∈ s.locs → x ∉ r.locs := fun x hx m => nsr x (s.locs_sub_ids x hx) (r.locs_sub_ids x m)
    have has : a ∉ s.locs := fun m => nas (s.locs_sub_ids a m)
    have har : a ∉ r.locs := fun m => nar (r.locs_sub_ids a m)
    simp only [locs, List.mem_cons, List.mem_append] at hi hj
    by_cases hai : a = i
    · -- the replaced node is this one
      subst hai
      simp only [pathTo, if_true] at hdv
      simp only [subOf, if_true] at hs'
      have hja : a ≠ j := by
        intro e; subst e; simp only [if_true, Diverge] at hdv
        rcases hdv with h | ⟨_, h⟩
        · exact h rfl
        · exact h
      have hjs : j ∉ s.locs := by
        intro m; simp only [if_neg hja, if_pos m, Diverge] at hdv
        rcases hdv with h | ⟨_, h⟩
        · exact h rfl
        · exact h
      have hjr : j ∈ r.locs := by
        rcases hj with e | m | m
        · exact absurd e.symm hja
        · exact absurd m hjs
        · exact m
      have hjs' : j ∉ s'.locs := by
        intro m
        rcases hs' j m with h | h
        · exact hjs h
        · exact h (by simp only [locs, List.mem_cons, List.mem_append]; exact Or.inr (Or.inr hjr))
      simp only [replaceSub, if_true, locs, List.mem_cons, List.mem_append, pathTo, if_neg hja, if_neg hjs, if_neg hjs']
      exact ⟨Or.inr (Or.inr hjr), trivial⟩
    · by_cases his : i ∈ s.locs
      · -- the replaced node is below this one
        have hir : i ∉ r.locs := hsr i his
        have hsub : (cons k a s r).subOf i = s.subOf i := by simp only [subOf, if_neg hai, if_pos his]
        rw [hsub] at hs'
        have hs'' : ∀ x ∈ s'.locs, x ∈ (s.subOf i).locs ∨ x ∉ s.locs := fun x hx => by
          rcases hs' x hx with h | h
          · exact Or.inl h
          · exact Or.inr (fun m => h (by simp only [locs, List.mem_cons, List.mem_append]; exact Or.inr (Or.inl m)))
        simp only [pathTo, if_neg hai, if_pos his] at hdv
        simp only [replaceSub, if_neg hai, replaceSub_of_notin i s' r hir, locs, List.mem_cons, List.mem_append, pathTo]
        by_cases haj : a = j
        · subst haj
          simp only [if_true, Diverge] at hdv
          rcases hdv with h | ⟨_, h⟩
          · exact absurd rfl h
          · exact absurd h (by cases s.pathTo i <;> exact fun h => h)
        · by_cases hjs : j ∈ s.locs
          · simp only [if_neg haj, if_pos hjs, Diverge] at hdv
            have hd : Diverge (s.pathTo i) (s.pathTo j) := by
              rcases hdv with h | ⟨_, h⟩
              · exact absurd rfl h
              · exact h
            obtain ⟨h1, h2⟩ := ihs nds his hjs hd hs''
            simp only [if_neg haj, if_pos h1, if_pos hjs, h2]
            exact ⟨Or.inr (Or.inl h1), trivial⟩
          · have hjr : j ∈ r.locs := by
              rcases hj with e | m | m
              · exact absurd e.symm haj
              · exact absurd m hjs
              · exact m
            have hjn : j ∉ (s.replaceSub i s').locs := by
              intro m
              rcases locs_replaceSub_sub i s' s j m with h | h
              · exact hjs h
              · rcases hs' j h with h | h
                · exact hjs (s.subOf_locs_sub i j h)
                · exact h (by simp only [locs, List.mem_cons, List.mem_append]; exact Or.inr (Or.inr hjr))
            simp only [if_neg haj, if_neg hjn, if_neg hjs]
            exact ⟨Or.inr (Or.inr hjr), trivial⟩
      · -- the replaced node is in the rest of the chain
        have hir : i ∈ r.locs := by
          rcases hi with e | m | m
          · exact absurd e.symm hai
          · exact absurd m his
          · exact m
        have hsub : (cons k a s r).subOf i = r.subOf i := by simp only [subOf, if_neg hai, if_neg his]
        rw [hsub] at hs'
        have hs'' : ∀ x ∈ s'.locs, x ∈ (r.subOf i).locs ∨ x ∉ r.locs := fun x hx => by
          rcases hs' x hx with h | h
          · exact Or.inl h
          · exact Or.inr (fun m => h (by simp only [locs, List.mem_cons, List.mem_append]; exact Or.inr (Or.inr m)))
        simp only [pathTo, if_neg hai, if_neg his] at hdv
        simp only [replaceSub, if_neg hai, replaceSub_of_notin i s' s his, locs, List.mem_cons, List.mem_append, pathTo]
        by_cases haj : a = j
        · subst haj; simp only [if_true]; exact ⟨Or.inl trivial, trivial⟩
        · by_cases hjs : j ∈ s.locs
          · simp only [if_neg haj, if_pos hjs]; exact ⟨Or.inr (Or.inl hjs), trivial⟩
          · have hjr : j ∈ r.locs := by
              rcases hj with e | m | m
              · exact absurd e.symm haj
              · exact absurd m hjs
              · exact m
            simp only [if_neg haj, if_neg hjs] at hdv ⊢
            have hd : Diverge (r.pathTo i) (r.pathTo j) :=
              (diverge_bump (pathTo_ne_nil r hir) (pathTo_ne_nil r hjr)).1 hdv
            obtain ⟨h1, h2⟩ := ihr ndr hir hjr hd hs''
            rw [h2]
            exact ⟨Or.inr (Or.inr h1), rfl⟩

theorem locs_snoc_mem (F : Forest) (k : Option Nat) (i x : Nat) : x ∈ (F.snoc k i).locs ↔ x ∈ F.locs ∨ x = i := by
  rw [locs_snoc]; simp only [List.mem_append, List.mem_singleton]

theorem eraseTop_locs_sub (F : Forest) (i : Nat) : ∀ x ∈ (F.eraseTop i).locs, x ∈ F.locs := by
  induction F with
  | nil => intro x h; cases h
  | cons k j s r _ ihr =>
    intro x h
    simp only [eraseTop] at h
    simp only [locs, List.mem_cons, List.mem_append]
    split at h
    · exact Or.inr (Or.inr h)
    · simp only [locs, List.mem_cons, List.mem_append] at h
      rcases h with h | h | h
      · exact Or.inl h
      · exact Or.inr (Or.inl h)
      · exact Or.inr (Or.inr (ihr x h))
end Forest

/-- the same for locations -/
theorem pathOf_replaceAt {F : Forest} {l l' : Loc} (s' : Forest) (hnd : F.ids.Nodup) (hl : isLoc F l) (hl' : isLoc F l')
    (hdv : Diverge (pathOf F l) (pathOf F l')) (hs' : ∀ x ∈ s'.locs, x ∈ (layoutAt F l).locs ∨ x ∉ F.locs) :
    isLoc (replaceAt F l s') l' ∧ pathOf (replaceAt F l s') l' = pathOf F l' := by
  cases l with
  | root => cases hdv
  | slot i =>
    cases l' with
    | root => cases hp : pathOf F (.slot i) <;> rw [hp] at hdv <;> cases hdv
    | slot j => exact Forest.pathTo_replaceSub i j s' F hnd hl hl' hdv hs'

/-! ## 8. The overflow flag: never reset by an operation of a history, set by every failed allocation -/

-- `freeVariant_overflowed` is provided by AJ/Lemmas/DocCopy.lean

theorem removeOne_overflowed (d : Doc) (l : Loc) (id : Nat) : (d.removeOne l id).overflowed = d.overflowed := by
  simp only [Doc.removeOne]
  split
  · rw [freeVariant_overflowed, set_overflowed]; split
    · exact setNext_overflowed _ _ _
    · rfl
  · rw [freeVariant_overflowed, set_overflowed]; split
    · exact setNext_overflowed _ _ _
    · rfl
  · rfl

theorem removePair_overflowed (d : Doc) (l : Loc) (k v : Nat) : (d.removePair l k v).overflowed = d.overflowed := by
  simp only [Doc.removePair]
  rw [removeOne_overflowed, freeVariant_overflowed, setNext_overflowed]

theorem appendPair_overflowed (d : Doc) (l : Loc) (k v : Nat) : (d.appendPair l k v).overflowed = d.overflowed := by
  simp only [Doc.appendPair]
  split
  · split
    · rw [set_overflowed, setNext_overflowed, setNext_overflowed]
    · rw [set_overflowed, setNext_overflowed]
  · rw [setNext_overflowed]

theorem appendPair_strings (d : Doc) (l : Loc) (k v : Nat) : (d.appendPair l k v).strings = d.strings := by
  simp only [Doc.appendPair]
  split
  · split
    · rw [set_strings, setNext_strings, setNext_strings]
    · rw [set_strings, setNext_strings]
  · rw [setNext_strings]

/-- `allocVariant`: the flag afterwards is the flag before, or the allocation failed -/
theorem allocVariant_ov (d : Doc) :
    d.allocVariant.2.overflowed = (d.overflowed || d.allocVariant.1.isNone) := by
  simp only [Doc.allocVariant]
  split <;> simp

theorem allocExt_ov (d : Doc) (p : Int) : (d.allocExt p).2.overflowed = (d.overflowed || (d.allocExt p).1.isNone) := by
  simp only [Doc.allocExt]
  split <;> simp

theorem saveString_ov (d : Doc) (s : List Byte) :
    (d.saveString s).2.overflowed = (d.overflowed || (d.saveString s).1.isNone) := by
  simp only [Doc.saveString]
  split
  · simp
  · split
    · simp
    generalize d.pl.alloc (s.length + d.strOverhead) = q
    obtain ⟨ok, pl⟩ := q
    cases ok <;> simp

/-- the flag is sticky under `setArg` -/
theorem setArg_ov_mono (d : Doc) (l : Loc) (a : Arg) (h : d.overflowed = true) : (d.setArg l a).2.overflowed = true := by
  have hx : ∀ p, (d.allocExt p).2.overflowed = true := fun p => by rw [allocExt_ov, h]; rfl
  have hy : ∀ s, (d.saveString s).2.overflowed = true := fun s => by rw [saveString_ov, h]; rfl
  cases a with
  | null => exact h
  | bool b => exact (set_overflowed _ _ _).trans h
  | f32 b => exact (set_overflowed _ _ _).trans h
  | strLinked s => exact (set_overflowed _ _ _).trans h
  | sint v =>
    simp only [Doc.setArg]
    split
    · exact (set_overflowed _ _ _).trans h
    · have := hx v
      generalize d.allocExt v = r at this
      obtain ⟨m, d1⟩ := r
      cases m with
      | none => exact this
      | some e => exact (set_overflowed _ _ _).trans this
  | uint v =>
    simp only [Doc.setArg]
    split
    · exact (set_overflowed _ _ _).trans h
    · have := hx v
      generalize d.allocExt v = r at this
      obtain ⟨m, d1⟩ := r
      cases m with
      | none => exact this
      | some e => exact (set_overflowed _ _ _).trans this
  | f64 b =>
    simp only [Doc.setArg]
    split
    · exact (set_overflowed _ _ _).trans h
    · have := hx b
      generalize d.allocExt b = r at this
      obtain ⟨m, d1⟩ := r
      cases m with
      | none => exact this
      | some e => exact (set_overflowed _ _ _).trans this
  | strCopied s =>
    simp only [Doc.setArg]
    have := hy s
    generalize d.saveString s = r at this
    obtain ⟨m, d1⟩ := r
    cases m with
    | none => exact this
    | some e => exact (set_overflowed _ _ _).trans this
  | raw s =>
    simp only [Doc.setArg]
    have := hy s
    generalize d.saveString s = r at this
    obtain ⟨m, d1⟩ := r
    cases m with
    | none => exact this
    | some e => exact (set_overflowed _ _ _).trans this

/-- `addElement`: the flag afterwards is the flag before, or the allocation failed -/
theorem addElement_ov (d : Doc) (l : Loc) :
    (d.addElement l).2.overflowed = (d.overflowed || (d.addElement l).1.isNone) := by
  have := allocVariant_ov d
  simp only [Doc.addElement]
  generalize d.allocVariant = r at this
  obtain ⟨m, d1⟩ := r
  cases m with
  | none => exact this
  | some id => simp only [appendOne_overflowed]; exact this

/-- `addMember`: the flag afterwards is the flag before, or nothing was returned -/
theorem addMember_ov (d : Doc) (l : Loc) (key : List Byte) (linked : Bool) :
    (d.addMember l key linked).2.overflowed = (d.overflowed || (d.addMember l key linked).1.isNone) := by
  have h1 := allocVariant_ov d
  simp only [Doc.addMember]
  generalize d.allocVariant = r1 at h1
  obtain ⟨m1, d1⟩ := r1
  cases m1 with
  | none => exact h1
  | some k =>
    have h2 := allocVariant_ov d1
    simp only
    generalize d1.allocVariant = r2 at h2
    obtain ⟨m2, d2⟩ := r2
    simp only [Option.isNone_some, Bool.or_false] at h1
    cases m2 with
    | none => simp only at h2 ⊢; rw [h2, h1]
    | some v =>
      simp only [Option.isNone_some, Bool.or_false] at h2
      cases linked with
      | true => simp only [if_true, appendPair_overflowed, set_overflowed, Option.isNone_some, Bool.or_false]; rw [h2, h1]
      | false =>
        have h3 := saveString_ov d2 key
        simp only [Bool.false_eq_true, if_false]
        generalize d2.saveString key = r3 at h3
        obtain ⟨m3, d3⟩ := r3
        cases m3 with
        | none => simp only at h3 ⊢; rw [h3, h2, h1]
        | some n =>
          simp only [Option.isNone_some, Bool.or_false] at h3
          simp only [appendPair_overflowed, set_overflowed, Option.isNone_some, Bool.or_false]; rw [h3, h2, h1]

/-- `getOrAddMember`: the flag afterwards is the flag before, or nothing was returned on an object/null location -/
theorem getOrAddMember_ov (d : Doc) (l : Loc) (key : List Byte) (linked : Bool)
    (hobj : d.get l = .null ∨ ∃ h t, d.get l = .obj h t) :
    (d.getOrAddMember l key linked).2.overflowed = (d.overflowed || (d.getOrAddMember l key linked).1.isNone) := by
  rw [getOrAddMember_eq]
  have ho : (toObj d l).overflowed = d.overflowed := by
    simp only [toObj]; split
    · exact set_overflowed _ _ _
    · rfl
  have hg : ∃ h t, (toObj d l).get l = .obj h t := by
    rcases hobj with hn | ⟨h, t, hg⟩
    · exact ⟨d.null, d.null, by simp only [toObj, hn, get_set_self]⟩
    · exact ⟨h, t, by simp only [toObj, hg]⟩
  obtain ⟨h, t, hg⟩ := hg
  simp only [hg]
  cases (toObj d l).findKey l key with
  | some p => simp only [Option.isNone_some, Bool.or_false]; exact ho
  | none => simp only; rw [addMember_ov, ho]

/-! ## 9. Unfolding equations used by the non-vacuity examples (the cell map does not evaluate in the kernel) -/

theorem addMember_copied_eq {d d1 d2 d3 : Doc} {l : Loc} {key : List Byte} {k v n : Nat}
    (h1 : d.allocVariant = (some k, d1)) (h2 : d1.allocVariant = (some v, d2)) (h3 : d2.saveString key = (some n, d3)) :
    d.addMember l key false = (some v, (d3.set (.slot k) (.owned n)).appendPair l k v) := by
  simp only [Doc.addMember, h1, h2, h3, Bool.false_eq_true, if_false]

theorem addMember_linked_eq {d d1 d2 : Doc} {l : Loc} {key : List Byte} {k v : Nat}
    (h1 : d.allocVariant = (some k, d1)) (h2 : d1.allocVariant = (some v, d2)) :
    d.addMember l key true = (some v, (d2.set (.slot k) (.linked key)).appendPair l k v) := by
  simp only [Doc.addMember, h1, h2, if_true]

theorem setArg_copied_fst (d : Doc) (l : Loc) (s : List Byte) :
    (d.setArg l (.strCopied s)).1 = !(d.saveString s).2.overflowed := by
  simp only [Doc.setArg]
  generalize d.saveString s = r
  obtain ⟨m, d1⟩ := r
  cases m <;> simp only [set_overflowed]

theorem setArg_copied_strings (d : Doc) (l : Loc) (s : List Byte) :
    (d.setArg l (.strCopied s)).2.strings = (d.saveString s).2.strings := by
  simp only [Doc.setArg]
  generalize d.saveString s = r
  obtain ⟨m, d1⟩ := r
  cases m <;> simp only [set_strings]

theorem setArg_linked_fst (d : Doc) (l : Loc) (s : List Byte) : (d.setArg l (.strLinked s)).1 = !d.overflowed := by
  simp only [Doc.setArg, set_overflowed]

theorem setArg_linked_strings (d : Doc) (l : Loc) (s : List Byte) : (d.setArg l (.strLinked s)).2.strings = d.strings := by
  simp only [Doc.setArg, set_strings]

end DL

namespace C04
open DL
open JD (Byte Val)

theorem bool_or_false {a b : Bool} (h : false = (a || b)) : a = false ∧ b = false := by
  cases a <;> cases b <;> first | exact ⟨rfl, rfl⟩ | cases h

/-- the flag after a valid step: the flag before, or an allocation of the step failed. (`put` is valid only when it
    reports success; then no allocation failed.) -/
theorem step_overflowed {d : Doc} {F : Forest} {op : Op2} (hv : op.Valid d F) (h : (op.run d).overflowed = false) :
    d.overflowed = false ∧ op.Succ d := by
  cases op with
  | base op =>
    cases op with
    | add l =>
      have := addElement_ov d l
      simp only [Op2.run, Op.run] at h
      rw [h] at this
      have hb : d.overflowed = false ∧ (d.addElement l).1.isNone = false := bool_or_false this
      refine ⟨hb.1, fun e => ?_⟩
      rw [e] at hb; exact absurd hb.2 (by decide)
    | clear l =>
      simp only [Op2.run, Op.run, clearV_overflowed] at h
      exact ⟨h, trivial⟩
    | put l a =>
      refine ⟨?_, trivial⟩
      cases hd : d.overflowed with
      | false => rfl
      | true =>
        have := setArg_ov_mono d l a hd
        simp only [Op2.run, Op.run] at h
        rw [h] at this; cases this
  | removeElem l k =>
    refine ⟨?_, trivial⟩
    simp only [Op2.run] at h
    split at h
    · split at h
      · rw [removeOne_overflowed] at h; exact h
      · exact h
    · exact h
  | removeMember l key =>
    refine ⟨?_, trivial⟩
    simp only [Op2.run] at h
    split at h
    · rw [removePair_overflowed] at h; exact h
    · exact h
  | member l key linked =>
    have := getOrAddMember_ov d l key linked hv.2
    simp only [Op2.run] at h
    rw [h] at this
    have hb : d.overflowed = false ∧ (d.getOrAddMember l key linked).1.isNone = false := bool_or_false this
    refine ⟨hb.1, fun e => ?_⟩
    rw [e] at hb; exact absurd hb.2 (by decide)

/-- a history that ends with the overflow flag down is a history all of whose allocations succeeded: it stands for a
    list of abstract operations -/
theorem Hist2.toHistA {d d' : Doc} {F F' : Forest} (h : Hist2 d F d' F') (hov : d'.overflowed = false) :
    d.overflowed = false ∧ ∃ as, HistA d F as d' F' := by
  induction h with
  | nil d F => exact ⟨hov, [], HistA.nil d F⟩
  | cons op hv _ ih =>
    obtain ⟨h1, as, hh⟩ := ih hov
    obtain ⟨h0, hok⟩ := step_overflowed hv h1
    exact ⟨h0, _, HistA.cons op hv hok hh⟩

end C04

/-! ## 10. Below the limit the pool list hands out a slot -/
namespace PL

/-- nominal capacity of pool number `i` -/
def Geo.nomCap (g : Geo) (i : Nat) : Nat :=
  if i + 1 = g.maxPools then g.nullSlot - (g.maxPools - 1) * g.poolCap else g.poolCap

/-- every pool owns a block of its nominal capacity -/
def Nominal (g : Geo) (s : St) : Prop :=
  ∀ i p, s.pools[i]? = some p → p.hasBlock = true ∧ p.cap = g.nomCap i

theorem failsAt_alloc (s : St) (n m : Nat) : (s.alloc n).2.failsAt m = s.failsAt m := rfl
theorem failsAt_realloc (s : St) (n m : Nat) (b : Bool) : (s.realloc n b).2.failsAt m = s.failsAt m := rfl

/-- the pool table can be grown when the oracle lets the next call through -/
theorem increaseCapacity_succeeds {g : Geo} {s : St} (hlt : s.tableCap < g.maxPools)
    (ho : s.failsAt (s.calls + 1) = false) :
    ∃ s1, increaseCapacity g s = (true, s1) ∧ s1.pools = s.pools ∧ s1.free = s.free ∧ s1.calls = s.calls + 1 ∧
      (∀ m, s1.failsAt m = s.failsAt m) := by
  unfold increaseCapacity
  rw [if_neg (by omega)]
  simp only
  cases hh : s.tableHeap with
  | false =>
    have h1 : (s.alloc ((if (decide (g.wrap (s.tableCap * 2) > g.maxPools) || decide (g.wrap (s.tableCap * 2) < s.tableCap)) = true
        then g.maxPools else g.wrap (s.tableCap * 2)) * g.poolSize)).1 = true := by rw [alloc_fst, ho]; rfl
    generalize hq : s.alloc ((if (decide (g.wrap (s.tableCap * 2) > g.maxPools) || decide (g.wrap (s.tableCap * 2) < s.tableCap)) = true
        then g.maxPools else g.wrap (s.tableCap * 2)) * g.poolSize) = q at h1
    obtain ⟨ok, s'⟩ := q
    simp only at h1; subst h1
    simp only [Bool.not_false, Bool.not_true, if_true, Bool.false_eq_true, if_false]
    have : s' = (s.alloc ((if (decide (g.wrap (s.tableCap * 2) > g.maxPools) || decide (g.wrap (s.tableCap * 2) < s.tableCap)) = true
        then g.maxPools else g.wrap (s.tableCap * 2)) * g.poolSize)).2 := by rw [hq]
    subst this
    exact ⟨_, rfl, rfl, rfl, rfl, fun m => rfl⟩
  | true =>
    have h1 : (s.realloc ((if (decide (g.wrap (s.tableCap * 2) > g.maxPools) || decide (g.wrap (s.tableCap * 2) < s.tableCap)) = true
        then g.maxPools else g.wrap (s.tableCap * 2)) * g.poolSize) true).1 = true := by rw [realloc_fst, ho]; rfl
    generalize hq : s.realloc ((if (decide (g.wrap (s.tableCap * 2) > g.maxPools) || decide (g.wrap (s.tableCap * 2) < s.tableCap)) = true
        then g.maxPools else g.wrap (s.tableCap * 2)) * g.poolSize) true = q at h1
    obtain ⟨ok, s'⟩ := q
    simp only at h1; subst h1
    simp only [Bool.not_true, Bool.false_eq_true, if_false]
    have : s' = (s.realloc ((if (decide (g.wrap (s.tableCap * 2) > g.maxPools) || decide (g.wrap (s.tableCap * 2) < s.tableCap)) = true
        then g.maxPools else g.wrap (s.tableCap * 2)) * g.poolSize) true).2 := by rw [hq]
    subst this
    exact ⟨_, rfl, rfl, rfl, rfl, fun m => rfl⟩

/-- a new pool can be added below `maxPools` when the oracle lets the next two calls through: it owns a block of its
    nominal capacity -/
theorem addPool_succeeds {g : Geo} {s : St} (_hI : Inv g s) (hlt : s.pools.length < g.maxPools)
    (ho1 : s.failsAt (s.calls + 1) = false) (ho2 : s.failsAt (s.calls + 2) = false) :
    ∃ s2, addPool g s = (true, s2) ∧ s2.pools = s.pools ++ [⟨g.nomCap s.pools.length, 0, true⟩] ∧ s2.free = s.free ∧
      (s.calls ≤ s2.calls ∧ s2.calls ≤ s.calls + 2) ∧ (∀ m, s2.failsAt m = s.failsAt m) := by
  unfold addPool
  rw [if_neg (by omega)]
  simp only
  have htab : ∃ s1, (if (s.pools.length == s.tableCap) = true then increaseCapacity g s else (true, s)) = (true, s1) ∧
      s1.pools = s.pools ∧ s1.free = s.free ∧ (s1.calls = s.calls ∨ s1.calls = s.calls + 1) ∧
      (∀ m, s1.failsAt m = s.failsAt m) := by
    split
    · rename_i he
      have he' : s.pools.length = s.tableCap := by simpa using he
      obtain ⟨s1, a, b, c, d, e⟩ := increaseCapacity_succeeds (g := g) (s := s) (by omega) ho1
      exact ⟨s1, a, b, c, Or.inr d, e⟩
    · exact ⟨s, rfl, rfl, rfl, Or.inl rfl, fun _ => rfl⟩
  obtain ⟨s1, hr, t1, t2, t3, t4⟩ := htab
  rw [hr]
  simp only [Bool.not_true, Bool.false_eq_true, if_false]
  have hw : g.wrap (s1.pools.length + 1) = s.pools.length + 1 := by
    rw [t1]; exact g.wrap_of_lt (by have := g.maxPools_lt; omega)
  rw [hw]
  have hcap : (if (s.pools.length + 1 == g.maxPools) = true then g.nullSlot - (g.maxPools - 1) * g.poolCap
      else g.poolCap) = g.nomCap s.pools.length := by
    unfold Geo.nomCap
    by_cases h : s.pools.length + 1 = g.maxPools
    · rw [if_pos h, if_pos (by simpa using h)]
    · rw [if_neg h, if_neg (by simpa using h)]
  rw [hcap]
  have hgot : (s1.alloc (g.nomCap s.pools.length * g.slotSize)).1 = true := by
    rw [alloc_fst, t4]
    rcases t3 with h | h <;> rw [h]
    · rw [ho1]; rfl
    · rw [ho2]; rfl
  generalize hq : s1.alloc (g.nomCap s.pools.length * g.slotSize) = q at hgot
  obtain ⟨got, s2⟩ := q
  simp only at hgot; subst hgot
  have hs2 : s2 = (s1.alloc (g.nomCap s.pools.length * g.slotSize)).2 := by rw [hq]
  simp only [if_true]
  refine ⟨_, rfl, ?_, ?_, ?_, ?_⟩
  · simp only [hs2, alloc_pools, t1]
  · simp only [hs2, alloc_free, t2]
  · simp only [hs2, alloc_calls]; rcases t3 with h | h <;> omega
  · intro m; rw [← t4 m, hs2]; rfl

theorem foldl_usage_const (c : Nat) : ∀ (ps : List Pool) (a : Nat), (∀ q ∈ ps, q.usage = c) →
    ps.foldl (fun a p => a + p.usage) a = a + ps.length * c
  | [], a, _ => by simp
  | p :: ps, a, h => by
    simp only [List.foldl_cons, List.length_cons]
    rw [foldl_usage_const c ps _ (fun q hq => h q (List.mem_cons_of_mem _ hq)), h p List.mem_cons_self, Nat.add_mul]
    omega

/-- when every pool is full and owns a block of its nominal capacity: the slot count is `nullSlot` once `maxPools`
    pools exist, and `count · poolCap` before -/
theorem full_nominal_usage {g : Geo} {s : St} (hI : Inv g s) (hN : Nominal g s)
    (hfull : ∀ q ∈ s.pools, q.usage = q.cap) :
    (s.pools.length = g.maxPools → 1 ≤ g.maxPools → usage s = g.nullSlot) ∧
    (s.pools.length < g.maxPools → usage s = s.pools.length * g.poolCap) := by
  rcases List.eq_nil_or_concat s.pools with hp | ⟨ps, p, hp⟩
  · constructor
    · intro h1 h2; rw [hp] at h1; simp only [List.length_nil] at h1; omega
    · intro _; unfold usage; rw [hp]; simp
  · rw [List.concat_eq_append] at hp
    have hinner : ∀ q ∈ ps, q.usage = g.poolCap := by
      intro q hq
      obtain ⟨i, hi⟩ := List.mem_iff_getElem?.1 hq
      have hil : i < ps.length := by
        rcases Nat.lt_or_ge i ps.length with h | h
        · exact h
        · rw [List.getElem?_eq_none h] at hi; cases hi
      have hi' : s.pools[i]? = some q := by rw [hp, List.getElem?_append_left hil]; exact hi
      have hlen := hI.len_max
      rw [hp, List.length_append, List.length_singleton] at hlen
      rw [hfull q (by rw [hp]; exact List.mem_append_left _ hq), (hN i q hi').2]
      unfold Geo.nomCap; rw [if_neg (by omega)]
    have hlast : s.pools[ps.length]? = some p := by rw [hp]; exact List.getElem?_concat_length
    have hpu : p.usage = g.nomCap ps.length := by
      rw [hfull p (by rw [hp]; simp), (hN _ p hlast).2]
    have hu : usage s = ps.length * g.poolCap + p.usage := by
      unfold usage
      rw [hp, List.foldl_append, foldl_usage_const g.poolCap ps 0 hinner]; simp
    have hfit := (hI.pools_ok ps.length p hlast).2.2
    have hcap : p.cap = g.nomCap ps.length := (hN _ p hlast).2
    rw [hp, List.length_append, List.length_singleton]
    constructor
    · intro h1 _
      rw [hu, hpu]; rw [hcap] at hfit
      unfold Geo.nomCap at hfit ⊢
      rw [if_pos h1] at hfit ⊢
      have : g.maxPools - 1 = ps.length := by omega
      rw [this] at hfit ⊢
      omega
    · intro h1
      rw [hu, hpu]; unfold Geo.nomCap; rw [if_neg (by omega), Nat.add_mul]; omega


theorem Nominal.snoc {g : Geo} {ps : List Pool} {q : Pool}
    (h : ∀ i p, ps[i]? = some p → p.hasBlock = true ∧ p.cap = g.nomCap i)
    (hq : q.hasBlock = true ∧ q.cap = g.nomCap ps.length) :
    ∀ i p, (ps ++ [q])[i]? = some p → p.hasBlock = true ∧ p.cap = g.nomCap i := by
  intro i p hp
  rcases (getElem?_snoc ps q p i).1 hp with h1 | ⟨h1, h2⟩
  · exact h i p h1
  · subst h1 h2; exact hq

/-- BELOW THE LIMIT, `allocSlot` SUCCEEDS. Invariant `Inv`; every pool owns a block of nominal capacity (`Nominal`: no
    block allocation failed before, no `shrink`); the geometry allows at least one pool; fewer than `nullSlot` slots are
    live; the allocator oracle lets the next two calls through (at most two are made: pool table, pool block). Then
    `allocSlot` returns a slot, and `Nominal` is kept. -/
theorem allocSlot_succeeds {g : Geo} {s : St} (gok : GeoOK g) (hI : Inv g s) (hN : Nominal g s) (hM : 1 ≤ g.maxPools)
    (hlim : (liveIds g s).length < g.nullSlot) (ho1 : s.failsAt (s.calls + 1) = false)
    (ho2 : s.failsAt (s.calls + 2) = false) :
    ∃ id s', allocSlot g s = (some id, s') ∧ Nominal g s' ∧ (s.calls ≤ s'.calls ∧ s'.calls ≤ s.calls + 2) ∧
      (∀ m, s'.failsAt m = s.failsAt m) := by
  cases hf : s.free with
  | cons id rest =>
    rw [allocSlot_cons hf]
    exact ⟨id, _, rfl, hN, ⟨Nat.le_refl _, Nat.le_add_right _ _⟩, fun _ => rfl⟩
  | nil =>
    have hu : usage s < g.nullSlot := by
      have := hI.liveIds_length; rw [hf] at this; simp only [List.length_nil] at this; omega
    unfold allocSlot
    rw [hf]
    simp only
    generalize hr1 : (if s.pools.isEmpty then (none, s) else allocFromLastPool g s) = r1
    obtain ⟨r, s1⟩ := r1
    cases r with
    | some id =>
      simp only
      split at hr1
      · cases hr1
      · obtain ⟨ps, p, hs, hb, hu', hid, rfl⟩ := allocFromLastPool_some hr1
        refine ⟨id, _, rfl, ?_, ⟨Nat.le_refl _, Nat.le_add_right _ _⟩, fun _ => rfl⟩
        have hN' : ∀ i q, (ps ++ [p])[i]? = some q → q.hasBlock = true ∧ q.cap = g.nomCap i := hs ▸ hN
        exact Nominal.snoc (fun i q hq => hN' i q ((getElem?_snoc ps p q i).2 (Or.inl hq)))
          (hN' ps.length p List.getElem?_concat_length)
    | none =>
      have hfull := all_full_of_none hI hr1
      obtain ⟨hA, hB⟩ := full_nominal_usage hI hN hfull
      have hlt : s.pools.length < g.maxPools := by
        rcases Nat.lt_or_ge s.pools.length g.maxPools with h | h
        · exact h
        · have := hA (Nat.le_antisymm hI.len_max h) hM; omega
      have hun := hB hlt
      obtain ⟨s2, ha, hp2, hf2, hc2, ho⟩ := addPool_succeeds hI hlt ho1 ho2
      simp only [ha, Bool.not_true, Bool.false_eq_true, if_false]
      have hpos : 0 < g.nomCap s.pools.length := by
        unfold Geo.nomCap
        split
        · rename_i he
          have : g.maxPools - 1 = s.pools.length := by omega
          rw [this]; omega
        · exact gok.pool_pos
      unfold allocFromLastPool
      rw [hp2]
      simp only [List.getLast?_append, List.getLast?_singleton, Option.some_or, Bool.not_true, Bool.false_eq_true,
        if_false, ge_iff_le, Nat.le_zero_eq, Nat.ne_of_gt hpos, List.dropLast_concat]
      refine ⟨_, _, rfl, ?_, hc2, ho⟩
      exact Nominal.snoc hN ⟨rfl, rfl⟩

/-- a successful allocation makes exactly one more slot live -/
theorem liveIds_length_alloc {g : Geo} {s s' : St} {id : Nat} (gok : GeoOK g) (hI : Inv g s)
    (h : allocSlot g s = (some id, s')) : (liveIds g s').length = (liveIds g s).length + 1 := by
  obtain ⟨_, hnl, hlv, hI'⟩ := C19.alloc_fresh gok hI h
  have hnd : (id :: liveIds g s).Nodup := List.nodup_cons.2 ⟨fun m => hnl ((mem_liveIds g s id).1 m), hI.liveIds_nodup⟩
  have hp : List.Perm (liveIds g s') (id :: liveIds g s) := by
    rw [List.perm_ext_iff_of_nodup hI'.liveIds_nodup hnd]
    intro x
    rw [mem_liveIds, hlv, List.mem_cons, mem_liveIds]
    exact Or.comm
  rw [hp.length_eq]; rfl

theorem Nominal_of_no_pools {g : Geo} {s : St} (h : s.pools = []) : Nominal g s := by
  intro i p hp; rw [h] at hp; cases hp

end PL

/-! ## 11. `Nominal` is kept by every step whose allocations succeed -/
namespace PL

theorem Nominal.congr {g : Geo} {s s' : St} (h : s'.pools = s.pools) (hN : Nominal g s) : Nominal g s' := by
  unfold Nominal; rw [h]; exact hN

/-- the pool appended by a successful `addPool`: nominal capacity when its block could be allocated, no block and
    capacity 0 otherwise -/
theorem addPool_new_pool {g : Geo} {s s2 : St} (hI : Inv g s) (h : addPool g s = (true, s2)) :
    ∃ got : Bool, s2.pools = s.pools ++ [⟨if got then g.nomCap s.pools.length else 0, 0, got⟩] := by
  unfold addPool at h
  split at h
  · cases h
  · rename_i hlt
    simp only at h
    generalize hr : (if (s.pools.length == s.tableCap) = true then increaseCapacity g s else (true, s)) = r at h
    obtain ⟨ok1, s1⟩ := r
    obtain ⟨t1, _, _, _, _⟩ := addPool_table hI hr
    simp only at h
    split at h
    · cases h
    · have hw : g.wrap (s1.pools.length + 1) = s.pools.length + 1 := by
        rw [t1]; exact g.wrap_of_lt (by have := g.maxPools_lt; omega)
      rw [hw] at h
      have hcap : (if (s.pools.length + 1 == g.maxPools) = true then g.nullSlot - (g.maxPools - 1) * g.poolCap
          else g.poolCap) = g.nomCap s.pools.length := by
        unfold Geo.nomCap
        by_cases h' : s.pools.length + 1 = g.maxPools
        · rw [if_pos h', if_pos (by simpa using h')]
        · rw [if_neg h', if_neg (by simpa using h')]
      rw [hcap] at h
      simp only [alloc_pools, alloc_free, alloc_tableCap, alloc_tableHeap, alloc_failAt, alloc_calls] at h
      generalize (s1.alloc (g.nomCap s.pools.length * g.slotSize)).fst = got at h
      generalize (s1.alloc (g.nomCap s.pools.length * g.slotSize)).snd.log = lg at h
      simp only [Prod.mk.injEq, true_and] at h
      subst h
      exact ⟨got, by simp only [t1]⟩

/-- a successful `allocSlot` keeps `Nominal`: a slot never comes out of a pool without block -/
theorem allocSlot_some_nominal {g : Geo} {s s' : St} {id : Nat} (hI : Inv g s) (hN : Nominal g s)
    (h : allocSlot g s = (some id, s')) : Nominal g s' := by
  cases hf : s.free with
  | cons id0 rest =>
    rw [allocSlot_cons hf] at h
    simp only [Prod.mk.injEq] at h
    obtain ⟨_, rfl⟩ := h
    exact hN
  | nil =>
    unfold allocSlot at h
    rw [hf] at h
    simp only at h
    generalize hr1 : (if s.pools.isEmpty then (none, s) else allocFromLastPool g s) = r1 at h
    obtain ⟨r, s1⟩ := r1
    have keep : ∀ {t t' : St} {j : Nat}, Nominal g t → allocFromLastPool g t = (some j, t') → Nominal g t' := by
      intro t t' j hNt ht
      obtain ⟨ps, p, hs, hb, hu', hid, rfl⟩ := allocFromLastPool_some ht
      have hN' : ∀ i q, (ps ++ [p])[i]? = some q → q.hasBlock = true ∧ q.cap = g.nomCap i := hs ▸ hNt
      exact Nominal.snoc (fun i q hq => hN' i q ((getElem?_snoc ps p q i).2 (Or.inl hq)))
        (hN' ps.length p List.getElem?_concat_length)
    cases r with
    | some id1 =>
      simp only [Prod.mk.injEq] at h
      obtain ⟨_, rfl⟩ := h
      split at hr1
      · cases hr1
      · exact keep hN hr1
    | none =>
      simp only at h
      generalize hr2 : addPool g s = r2 at h
      obtain ⟨ok, s2⟩ := r2
      simp only at h
      cases ok with
      | false => simp at h
      | true =>
        simp only [Bool.not_true, Bool.false_eq_true, if_false] at h
        obtain ⟨got, hp2⟩ := addPool_new_pool hI hr2
        obtain ⟨ps, p, hs, hb, _, _, _⟩ := allocFromLastPool_some h
        rw [hp2] at hs
        obtain ⟨e1, e2⟩ := List.append_inj' hs rfl
        have hgot : got = true := by
          have := (List.singleton_inj.1 e2); rw [← this] at hb; exact hb
        subst hgot
        refine keep ?_ h
        unfold Nominal; rw [hp2]
        exact Nominal.snoc hN ⟨rfl, rfl⟩
end PL

namespace DL
open JD (Byte Val)

theorem derefString_pools (d : Doc) (n : Nat) : (d.derefString n).pl.pools = d.pl.pools := by
  simp only [Doc.derefString]
  split
  · rfl
  · split <;> rfl

theorem walkFree_pools (free1 : Doc → Nat → Doc) (h1 : ∀ d id, (free1 d id).pl.pools = d.pl.pools) :
    ∀ (w : Nat) (d : Doc) (id : Nat), (walkFree free1 w d id).pl.pools = d.pl.pools := by
  intro w
  induction w with
  | zero => intro d id; rfl
  | succ w ih =>
    intro d id
    simp only [walkFree]
    split
    · rfl
    · rw [ih, h1]

theorem clearVF_pools : ∀ (f : Nat) (d : Doc) (l : Loc), (Doc.clearVF f d l).pl.pools = d.pl.pools := by
  intro f
  induction f with
  | zero => intro d l; rw [Doc.clearVF, set_pl]
  | succ f ih =>
    intro d l
    have hw : ∀ (d : Doc) (w h : Nat),
        (walkFree (fun d id => (Doc.clearVF f d (.slot id)).freeCell id) w d h).pl.pools = d.pl.pools :=
      fun d w h => walkFree_pools (fun d id => (Doc.clearVF f d (.slot id)).freeCell id)
        (fun d id => ih d (.slot id)) w d h
    simp only [Doc.clearVF]
    rw [set_pl]
    cases d.get l <;> simp only [hw, derefString_pools] <;> rfl

theorem clearV_pools (d : Doc) (l : Loc) : (d.clearV l).pl.pools = d.pl.pools := clearVF_pools _ d l
theorem freeVariant_pools (d : Doc) (id : Nat) : (d.freeVariant id).pl.pools = d.pl.pools := clearV_pools d (.slot id)

theorem removeOne_pools (d : Doc) (l : Loc) (id : Nat) : (d.removeOne l id).pl.pools = d.pl.pools := by
  simp only [Doc.removeOne]
  split
  · rw [freeVariant_pools, set_pl]; split
    · rw [setNext_pl]
    · rfl
  · rw [freeVariant_pools, set_pl]; split
    · rw [setNext_pl]
    · rfl
  · rfl

theorem removePair_pools (d : Doc) (l : Loc) (k v : Nat) : (d.removePair l k v).pl.pools = d.pl.pools := by
  simp only [Doc.removePair]
  rw [removeOne_pools, freeVariant_pools, setNext_pl]

theorem saveString_pools (d : Doc) (s : List Byte) : (d.saveString s).2.pl.pools = d.pl.pools := by
  simp only [Doc.saveString]
  split
  · rfl
  · split
    · rfl
    generalize hq : d.pl.alloc (s.length + d.strOverhead) = q
    obtain ⟨ok, pl⟩ := q
    have : pl.pools = d.pl.pools := by
      have := PL.alloc_pools d.pl (s.length + d.strOverhead); rw [hq] at this; exact this
    cases ok <;> exact this

theorem allocVariant_some_eq {d d1 : Doc} {k : Nat} (h : d.allocVariant = (some k, d1)) :
    PL.allocSlot d.g d.pl = (some k, d1.pl) ∧ d1.g = d.g := by
  simp only [Doc.allocVariant] at h
  split at h
  · rename_i id pl heq
    simp only [Prod.mk.injEq, Option.some.injEq] at h
    obtain ⟨rfl, rfl⟩ := h
    exact ⟨heq, rfl⟩
  · simp at h

theorem allocExt_some_eq {d d1 : Doc} {p : Int} {k : Nat} (h : d.allocExt p = (some k, d1)) :
    PL.allocSlot d.g d.pl = (some k, d1.pl) ∧ d1.g = d.g := by
  simp only [Doc.allocExt] at h
  split at h
  · rename_i id pl heq
    simp only [Prod.mk.injEq, Option.some.injEq] at h
    obtain ⟨rfl, rfl⟩ := h
    exact ⟨heq, rfl⟩
  · simp at h

/-- `setArg` that reports success keeps `Nominal` -/
theorem setArg_nominal {d : Doc} {l : Loc} {a : Arg} (hI : PL.Inv d.g d.pl) (hN : PL.Nominal d.g d.pl)
    (hok : (d.setArg l a).1 = true) : PL.Nominal d.g (d.setArg l a).2.pl := by
  have hx : ∀ (p : Int) (k : Nat) (d1 : Doc) (v : VData), d.allocExt p = (some k, d1) → PL.Nominal d.g (d1.set l v).pl :=
    fun p k d1 v h => by rw [set_pl]; exact PL.allocSlot_some_nominal hI hN (allocExt_some_eq h).1
  have hy : ∀ s, PL.Nominal d.g (d.saveString s).2.pl := fun s => PL.Nominal.congr (saveString_pools d s) hN
  cases a with
  | null => exact hN
  | bool b => show PL.Nominal d.g (d.set l _).pl; rw [set_pl]; exact hN
  | f32 b => show PL.Nominal d.g (d.set l _).pl; rw [set_pl]; exact hN
  | strLinked s => show PL.Nominal d.g (d.set l _).pl; rw [set_pl]; exact hN
  | sint v =>
    simp only [Doc.setArg] at hok ⊢
    split
    · rw [set_pl]; exact hN
    · rename_i hr
      rw [if_neg hr] at hok
      generalize hal : d.allocExt v = r at hok ⊢
      obtain ⟨m, d1⟩ := r
      cases m with
      | none => simp at hok
      | some e => exact hx _ e d1 _ hal
  | uint v =>
    simp only [Doc.setArg] at hok ⊢
    split
    · rw [set_pl]; exact hN
    · rename_i hr
      rw [if_neg hr] at hok
      generalize hal : d.allocExt v = r at hok ⊢
      obtain ⟨m, d1⟩ := r
      cases m with
      | none => simp at hok
      | some e => exact hx _ e d1 _ hal
  | f64 b =>
    simp only [Doc.setArg] at hok ⊢
    split
    · rw [set_pl]; exact hN
    · generalize hal : d.allocExt b = r at hok ⊢
      obtain ⟨m, d1⟩ := r
      cases m with
      | none => simp_all
      | some e => exact hx _ e d1 _ hal
  | strCopied s =>
    simp only [Doc.setArg]
    have := hy s
    generalize d.saveString s = r at this
    obtain ⟨m, d1⟩ := r
    cases m with
    | none => exact this
    | some e => simp only [set_pl]; exact this
  | raw s =>
    simp only [Doc.setArg]
    have := hy s
    generalize d.saveString s = r at this
    obtain ⟨m, d1⟩ := r
    cases m with
    | none => exact this
    | some e => simp only [set_pl]; exact this

/-- `addMember` that returns a slot keeps `Nominal` -/
theorem addMember_nominal {d : Doc} {l : Loc} {key : List Byte} {linked : Bool} (gok : PL.GeoOK d.g)
    (hI : PL.Inv d.g d.pl) (hN : PL.Nominal d.g d.pl) (hok : (d.addMember l key linked).1 ≠ none) :
    PL.Nominal d.g (d.addMember l key linked).2.pl := by
  simp only [Doc.addMember] at hok ⊢
  generalize h1 : d.allocVariant = r1 at hok ⊢
  obtain ⟨m1, d1⟩ := r1
  cases m1 with
  | none => exact absurd rfl hok
  | some k =>
    obtain ⟨a1, g1⟩ := allocVariant_some_eq h1
    have N1 : PL.Nominal d1.g d1.pl := by rw [g1]; exact PL.allocSlot_some_nominal hI hN a1
    have I1 : PL.Inv d1.g d1.pl := by rw [g1]; exact (C19.alloc_fresh gok hI a1).2.2.2
    simp only at hok ⊢
    generalize h2 : d1.allocVariant = r2 at hok ⊢
    obtain ⟨m2, d2⟩ := r2
    cases m2 with
    | none => exact absurd rfl hok
    | some v =>
      obtain ⟨a2, g2⟩ := allocVariant_some_eq h2
      have N2 : PL.Nominal d.g d2.pl := by rw [← g1]; exact PL.allocSlot_some_nominal I1 N1 a2
      simp only at hok ⊢
      cases linked with
      | true => simp only [if_true, appendPair_pl, set_pl]; exact N2
      | false =>
        simp only [Bool.false_eq_true, if_false] at hok ⊢
        have hy := saveString_pools d2 key
        generalize d2.saveString key = r3 at hok hy ⊢
        obtain ⟨m3, d3⟩ := r3
        cases m3 with
        | none => exact absurd rfl hok
        | some n => simp only [appendPair_pl, set_pl]; exact PL.Nominal.congr hy N2

end DL

namespace C04
open DL
open JD (Byte Val)

/-- a valid step whose allocations succeed keeps `PL.Nominal`: no pool without block is ever created -/
theorem step_nominal {d : Doc} {F : Forest} {op : Op2} (w : WFG d F) (hs : StrOK d (d.strRefs F)) (gok : PL.GeoOK d.g)
    (hv : op.Valid d F) (hok : op.Succ d) (hN : PL.Nominal d.g d.pl) : PL.Nominal (op.run d).g (op.run d).pl := by
  rw [(step_refines2 w hs gok hv).2.2.1]
  cases op with
  | base op =>
    cases op with
    | add l =>
      show PL.Nominal d.g (d.addElement l).2.pl
      have hok' : (d.addElement l).1 ≠ none := hok
      generalize hal : d.allocVariant = r
      obtain ⟨m, d1⟩ := r
      cases m with
      | none => exact absurd (by simp only [Doc.addElement, hal]) hok'
      | some id =>
        simp only [Doc.addElement, hal, appendOne_pl]
        exact PL.allocSlot_some_nominal w.pool hN (allocVariant_some_eq hal).1
    | clear l => exact PL.Nominal.congr (clearV_pools d l) hN
    | put l a => exact setArg_nominal w.pool hN hv.2.2
  | removeElem l k =>
    simp only [Op2.run]
    split
    · split
      · exact PL.Nominal.congr (removeOne_pools _ _ _) hN
      · exact hN
    · exact hN
  | removeMember l key =>
    simp only [Op2.run]
    split
    · exact PL.Nominal.congr (removePair_pools _ _ _ _) hN
    · exact hN
  | member l key linked =>
    have hok' : (d.getOrAddMember l key linked).1 ≠ none := hok
    show PL.Nominal d.g (d.getOrAddMember l key linked).2.pl
    rw [getOrAddMember_eq] at hok' ⊢
    have hg' : (toObj d l).g = d.g := by simp only [toObj]; split <;> first | exact set_g _ _ _ | rfl
    have hp' : (toObj d l).pl = d.pl := by simp only [toObj]; split <;> first | exact set_pl _ _ _ | rfl
    have hg : ∃ h t, (toObj d l).get l = .obj h t := by
      rcases hv.2 with hn | ⟨h, t, hg⟩
      · exact ⟨d.null, d.null, by simp only [toObj, hn, get_set_self]⟩
      · exact ⟨h, t, by simp only [toObj, hg]⟩
    obtain ⟨h, t, hg⟩ := hg
    simp only [hg] at hok' ⊢
    cases hf : (toObj d l).findKey l key with
    | some p => simp only [hp']; exact hN
    | none =>
      rw [hf] at hok'
      have := addMember_nominal (d := toObj d l) (l := l) (key := key) (linked := linked) (by rw [hg']; exact gok)
        (by rw [hg', hp']; exact w.pool) (by rw [hg', hp']; exact hN) hok'
      rw [hg'] at this; exact this

/-- … hence every history whose allocations succeed -/
theorem history_nominal {d d' : Doc} {F F' : Forest} {as : List AOp} (h : HistA d F as d' F') :
    WFG d F → StrOK d (d.strRefs F) → PL.GeoOK d.g → PL.Nominal d.g d.pl → PL.Nominal d'.g d'.pl := by
  induction h with
  | nil d F => intro _ _ _ h; exact h
  | cons op hv hok _ ih =>
    intro w hs gok hN
    obtain ⟨a, b, c, _⟩ := step_refines2 w hs gok hv
    exact ih a b (by rw [c]; exact gok) (step_nominal w hs gok hv hok hN)
end C04
