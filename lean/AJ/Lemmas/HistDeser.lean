/- Deserialization INTO A VALUE inside a document, as a step of the history machine.
   §1 what a run of `JDD.runAt` / `MDD.runAt` built (`JDD.Built`), read as a step `d → d'` of a well-formed document:
      explicit ghost layout `deserLayout d' F l` (the layout read off the result below `l`), invariant, frame, and the
      slots of the new layout are fresh or recycled from the subtree cleared at `l` (`DeserStep`);
   §2 refinement: when nothing overflowed the slot-level run at the inner location `l` yields the code, the consumption
      and the VALUE of the value-level deserializer (`sim_all` / `mpsim_all` instantiated at `l` after `clearV l`);
   §3 the abstract tree machine `AOpD` = `AOp` + `deserJ` / `deserM`, `ARunD`, its frame;
   §4 forest facts for the stability of paths.
   Used by AJ/Props/C04HistDeser.lean. -/
import AJ.Props.C04Deser
import AJ.Props.C09Doc
import AJ.Props.C14Hist
import AJ.Props.C04Copy
set_option linter.unusedSimpArgs false
set_option linter.unusedVariables false

namespace C04
open DL
open JD (Byte Val Code)
open JDD (Ctx Built Fx PlEq LBd)

/-! ## 1. What a run into the location `l` built -/

/-- ghost layout after a deserialization into `l` that left `d'`: the layout read off `d'` below `l` replaces the old
    layout at `l` -/
def deserLayout (d' : Doc) (F : Forest) (l : Loc) : Forest := replaceAt F l (d'.lay (d'.get l))

/-- the step `d → d'` of a deserialization into `l`, whatever its input and its code: invariant for the explicit layout,
    geometry, frame (`IntoOK`), and no slot of the rest of the document is reused below `l` -/
structure DeserStep (d : Doc) (F : Forest) (l : Loc) (d' : Doc) : Prop where
  wf : WFG d' (deserLayout d' F l)
  str : StrOK d' (d'.strRefs (deserLayout d' F l))
  into : IntoOK d F l d'
  /-- the slots of the new layout are new, or recycled from the subtree that was cleared at `l` -/
  recycled : ∀ x ∈ (d'.lay (d'.get l)).ids, x ∈ F.ids → x ∈ (layoutAt F l).ids

theorem deserStep_of_built {d d' : Doc} {F s : Forest} {l : Loc} (w : WFG d F) (hs : StrOK d (d.strRefs F))
    (hl : isLoc F l) (B : Built (d.clearV l) (replaceAt F l .nil) l d' s) : DeserStep d F l d' := by
  have w' : WFG d' (replaceAt F l s) := by have := B.wf; rwa [replaceAt_replaceAt] at this
  have s' : StrOK d' (d'.strRefs (replaceAt F l s)) := by have := B.str; rwa [replaceAt_replaceAt] at this
  have hl' : isLoc (replaceAt F l s) l := isLoc_replaceAt_self s hl
  have hlay : layoutAt (replaceAt F l s) l = s := JDD.layoutAt_replaceAt s hl
  have hv' : VOK d' (d'.get l) s := by have := VOK_at w' hl'; rwa [hlay] at this
  have hlen : s.ids.length < d'.fuel := by
    have := src_fuel_ok w' hl'
    rwa [hlay] at this
  have hle : d'.lay (d'.get l) = s := lay_eq hv' hlen
  refine ⟨by rw [deserLayout, hle]; exact w', by rw [deserLayout, hle]; exact s', into_of_built w hs hl B, ?_⟩
  rw [hle]
  intro x hx hxF
  by_cases hxs : x ∈ (layoutAt F l).ids
  · exact hxs
  · exact absurd ((mem_ids_cleared w.nodup hl x).2 ⟨hxF, hxs⟩) (B.fresh x hx)

/-- what `JDD.runAt` built -/
theorem runAt_built (cfg : JD.Cfg) (limit : Nat) (d : Doc) (F : Forest) (l : Loc) (input : List Byte)
    (w : WFG d F) (hs : StrOK d (d.strRefs F)) (hl : isLoc F l) (gok : PL.GeoOK d.g) :
    ∃ s, Built (d.clearV l) (replaceAt F l .nil) l (JDD.runAt cfg limit d l input).2.1 s := by
  obtain ⟨C, B0, hn⟩ := ctx_cleared w hs hl gok
  have R := (JDD.parse_all cfg (2 * input.length + 4)).1 limit l
    { s := { l := { unread := input } }, d := d.clearV l } (d.clearV l) (replaceAt F l .nil) C B0 hn
  obtain ⟨s, B⟩ := R.built
  rw [runAt_eq]
  exact ⟨s, B.pleq (dropBuf_pleq _ _).1⟩

/-- what `MDD.runAt` built -/
theorem mp_runAt_built (env : MD.Env) (limit : Nat) (d : Doc) (F : Forest) (l : Loc) (input : List Byte)
    (w : WFG d F) (hs : StrOK d (d.strRefs F)) (hl : isLoc F l) (gok : PL.GeoOK d.g) :
    ∃ s, Built (d.clearV l) (replaceAt F l .nil) l (MDD.runAt env limit d l input).2.1 s := by
  obtain ⟨C, B0, hn⟩ := ctx_cleared w hs hl gok
  have R := (MDD.mp_parse_all env (2 * input.length + 4)).1 limit l
    { r := { unread := input }, d := d.clearV l } (d.clearV l) (replaceAt F l .nil) C B0 hn
  obtain ⟨s, B⟩ := R.built
  rw [mp_runAt_eq]
  exact ⟨s, B.pleq (dropBuf_pleq _ _).1⟩

theorem runAt_step (cfg : JD.Cfg) (limit : Nat) (d : Doc) (F : Forest) (l : Loc) (input : List Byte)
    (w : WFG d F) (hs : StrOK d (d.strRefs F)) (hl : isLoc F l) (gok : PL.GeoOK d.g) :
    DeserStep d F l (JDD.runAt cfg limit d l input).2.1 := by
  obtain ⟨s, B⟩ := runAt_built cfg limit d F l input w hs hl gok
  exact deserStep_of_built w hs hl B

theorem mp_runAt_step (env : MD.Env) (limit : Nat) (d : Doc) (F : Forest) (l : Loc) (input : List Byte)
    (w : WFG d F) (hs : StrOK d (d.strRefs F)) (hl : isLoc F l) (gok : PL.GeoOK d.g) :
    DeserStep d F l (MDD.runAt env limit d l input).2.1 := by
  obtain ⟨s, B⟩ := mp_runAt_built env limit d F l input w hs hl gok
  exact deserStep_of_built w hs hl B

/-! ## 2. Refinement of the value-level deserializers at an inner location -/

/-- the cleared destination is a fresh place in the sense of the local specification -/
theorem pre_cleared {d : Doc} {F : Forest} {l : Loc} (w : WFG d F) (hs : StrOK d (d.strRefs F)) (hl : isLoc F l)
    (gok : PL.GeoOK d.g) : Pre (d.clearV l) l := by
  obtain ⟨w0, s0, _, _⟩ := clearV_spec w hs hl
  exact pre_of_wfg w0 s0 (by rw [clearV_g w hs hl]; exact gok) (isLoc_replaceAt_self .nil hl) (clearV_good w hs hl).1

theorem fr_of_pleq {xd d' : Doc} (he : PlEq xd d') (hp : PL.Inv xd.g xd.pl) (ho : d'.overflowed = xd.overflowed) :
    Fr xd d' [] :=
  Fr.of_grow ⟨he.g, he.root, he.strings, he.nextNode, fun x _ => he.cell x, he.inv hp, fun x hx => (he.live x).2 hx⟩
    (fun h => by rw [ho]; exact h) []

/-- the value built at `l` reads back from a document that differs in its allocator state only -/
theorem post_value {d0 xd d' : Doc} {l : Loc} {v : VData} {s : Forest} (P0 : Pre d0 l) (P : Post d0 xd l v s)
    (he : PlEq xd d') (ho : d'.overflowed = xd.overflowed) : d'.toVal (d'.get l) = xd.valOf v s := by
  obtain ⟨P', hval⟩ := P.frame P0 (fr_of_pleq he P.fr.pool ho)
  rw [P'.att.get, toVal_eq P'.att.vok P'.ids_lt_fuel, hval]

theorem sim_locIsNumber (d : Doc) (l : Loc) (v : VData) (s : Forest) (hv : d.get l = v) :
    JD.isNumberVal (d.valOf v s) = JDD.locIsNumber d l := by
  unfold JDD.locIsNumber
  rw [hv]
  cases v <;> rfl

/-- the two outcomes of `JDD.runAt` into a document whose flag is clear: nothing overflowed and code, consumption and the
    value left at `l` are those of `JD.run`; or the flag is raised and the code is not `Ok` -/
theorem runAt_core (cfg : JD.Cfg) (limit : Nat) (d : Doc) (F : Forest) (l : Loc) (input : List Byte)
    (w : WFG d F) (hs : StrOK d (d.strRefs F)) (hl : isLoc F l) (gok : PL.GeoOK d.g) (h31 : 31 ≤ cfg.maxStrLen)
    (h0 : d.overflowed = false) :
    ((JDD.runAt cfg limit d l input).2.1.overflowed = false ∧
      (JDD.runAt cfg limit d l input).1 = (JD.run cfg limit input).1 ∧
      (JDD.runAt cfg limit d l input).2.2 = (JD.run cfg limit input).2.2 ∧
      (JDD.runAt cfg limit d l input).2.1.toVal ((JDD.runAt cfg limit d l input).2.1.get l) = (JD.run cfg limit input).2.1) ∨
    ((JDD.runAt cfg limit d l input).2.1.overflowed = true ∧ (JDD.runAt cfg limit d l input).1 ≠ .ok ∧
      ((JDD.runAt cfg limit d l input).1 = .noMemory ∨
        ((JDD.runAt cfg limit d l input).1 = (JD.run cfg limit input).1 ∧
         (JDD.runAt cfg limit d l input).2.2 = (JD.run cfg limit input).2.2))) := by
  have P0 := pre_cleared w hs hl gok
  have hsim := (JDD.sim_all cfg h31 (2 * input.length + 4)).1 limit l
    { s := { l := { unread := input } }, d := d.clearV l } P0 (by rw [clearV_overflowed]; exact h0) (JDD.sim_BOK_none cfg)
  rw [runAt_eq]
  simp only [JD.run]
  unfold stopAt
  generalize JDD.parseVariant cfg (2 * input.length + 4) limit l
    { s := { l := { unread := input } }, d := d.clearV l } = rv at *
  generalize JD.parseVariant cfg (2 * input.length + 4) limit { l := { unread := input } } = rv0 at *
  obtain ⟨c, x⟩ := rv
  obtain ⟨c0, v0, s0⟩ := rv0
  simp only at hsim ⊢
  obtain ⟨hpe, hov⟩ := dropBuf_pleq x.d x.b
  rcases hsim with ⟨o2, e1, e2, _, v, s, P, hval⟩ | ⟨o2, e⟩
  · simp only at o2 e1 e2 P hval
    subst e1 e2
    have hnum : JD.isNumberVal v0 = JDD.locIsNumber x.d l := by
      rw [← hval]; exact sim_locIsNumber x.d l v s P.att.get
    have htv : (dropBuf x.d x.b).toVal ((dropBuf x.d x.b).get l) = v0 := by rw [post_value P0 P hpe hov, hval]
    have main : finalCodeAt c x l =
          (match (c, v0, x.s) with
            | (Code.ok, v, s) =>
              if (s.l.cur != 0 && !JD.isWs s.l.cur && JD.isNumberVal v) = true then (Code.invalid, v, s.l.pos)
              else (Code.ok, v, s.l.pos)
            | (e, v, s) => (e, v, s.l.pos)).1 ∧
        x.s.l.pos =
          (match (c, v0, x.s) with
            | (Code.ok, v, s) =>
              if (s.l.cur != 0 && !JD.isWs s.l.cur && JD.isNumberVal v) = true then (Code.invalid, v, s.l.pos)
              else (Code.ok, v, s.l.pos)
            | (e, v, s) => (e, v, s.l.pos)).2.2 ∧
        v0 =
          (match (c, v0, x.s) with
            | (Code.ok, v, s) =>
              if (s.l.cur != 0 && !JD.isWs s.l.cur && JD.isNumberVal v) = true then (Code.invalid, v, s.l.pos)
              else (Code.ok, v, s.l.pos)
            | (e, v, s) => (e, v, s.l.pos)).2.1 := by
      cases c
      case ok =>
        simp only [finalCodeAt, hnum]
        split <;> exact ⟨rfl, rfl, rfl⟩
      all_goals exact ⟨rfl, rfl, rfl⟩
    exact Or.inl ⟨by rw [hov]; exact o2, main.1, main.2.1, by rw [htv]; exact main.2.2⟩
  · simp only at o2 e
    refine Or.inr ⟨by rw [hov]; exact o2, ?_, ?_⟩
    · rcases e with e | ⟨e1, e2, e3⟩
      · subst e; intro h; cases h
      · cases c
        case ok => exact absurd rfl e2
        all_goals (intro h; cases h)
    · rcases e with e | ⟨e1, e2, e3⟩
      · subst e
        exact Or.inl rfl
      · subst e1 e3
        right
        cases c
        case ok => exact absurd rfl e2
        all_goals exact ⟨rfl, rfl⟩

/-- the two outcomes of `MDD.runAt` into a document whose flag is clear: nothing overflowed, the answer is not `NoMemory`,
    and code, consumption and the value left at `l` are those of `MD.run … .all`; or the flag is raised and the answer is
    `NoMemory` -/
theorem mp_runAt_core (env : MD.Env) (limit : Nat) (d : Doc) (F : Forest) (l : Loc) (input : List Byte)
    (w : WFG d F) (hs : StrOK d (d.strRefs F)) (hl : isLoc F l) (gok : PL.GeoOK d.g) (h0 : d.overflowed = false) :
    ((MDD.runAt env limit d l input).2.1.overflowed = false ∧
      (MDD.runAt env limit d l input).1 = (MD.run env limit .all input).1 ∧
      (MDD.runAt env limit d l input).1 ≠ .noMemory ∧
      (MDD.runAt env limit d l input).2.2 = (MD.run env limit .all input).2.2 ∧
      (MDD.runAt env limit d l input).2.1.toVal ((MDD.runAt env limit d l input).2.1.get l) =
        (MD.run env limit .all input).2.1) ∨
    ((MDD.runAt env limit d l input).2.1.overflowed = true ∧ (MDD.runAt env limit d l input).1 = .noMemory) := by
  have P0 := pre_cleared w hs hl gok
  have hsim := (MDD.mpsim_all env (2 * input.length + 4)).1 limit l
    { r := { unread := input }, d := d.clearV l } P0 (by rw [clearV_overflowed]; exact h0) (MDD.mpsim_BOK_none env)
  rw [mp_runAt_eq]
  simp only [MD.run]
  unfold mp_stopAt
  generalize MDD.parseVariant env (2 * input.length + 4) limit l
    { r := { unread := input }, d := d.clearV l } = rv at *
  generalize MD.parseVariant env (2 * input.length + 4) limit .all true { unread := input } = rv0 at *
  obtain ⟨c, x, f⟩ := rv
  obtain ⟨c0, v0, r0, f0⟩ := rv0
  simp only at hsim ⊢
  obtain ⟨hpe, hov⟩ := dropBuf_pleq x.d x.b
  obtain ⟨hsim, hf1, hf2⟩ := hsim
  simp only at hsim hf1 hf2
  rcases hsim with ⟨o2, e1, hne, e2, _, v, s, P, hval⟩ | ⟨o2, e⟩
  · simp only at o2 e1 hne e2 P hval
    subst e1 e2
    have hff := hf1 o2
    subst hff
    have htv : (dropBuf x.d x.b).toVal ((dropBuf x.d x.b).get l) = v0 := by rw [post_value P0 P hpe hov, hval]
    refine Or.inl ⟨by rw [hov]; exact o2, rfl, ?_, rfl, htv⟩
    cases f
    · intro h; cases h
    · exact hne
  · simp only at o2 e
    have hff := hf2 o2
    subst hff e
    exact Or.inr ⟨by rw [hov]; exact o2, rfl⟩

end C04

/-! ## 3. The abstract tree machine with deserialization and copy -/
namespace DL
open JD (Byte Val)

/-- operations of the plain ordered tree: those of `AOp`, plus
    * `deserJ p cfg limit input` / `deserM p env limit input`: the value at `p` becomes the value the value-level JSON /
      MessagePack deserializer yields on `input` (complete or partial, whatever the code);
    * `copy p q`: the value at `p` becomes a copy of the value at `q` of the same tree;
    * `copyFrom p v`: the value at `p` becomes a copy of the value `v` (taken from another tree). -/
inductive AOpD
  | base (a : AOp)
  | deserJ (p : Path) (cfg : JD.Cfg) (limit : Nat) (input : List Byte)
  | deserM (p : Path) (env : MD.Env) (limit : Nat) (input : List Byte)
  | copy (p q : Path)
  | copyFrom (p : Path) (v : Val)

def AOpD.path : AOpD → Path
  | .base a => a.path
  | .deserJ p _ _ _ | .deserM p _ _ _ | .copy p _ | .copyFrom p _ => p

/-- what the operation does to the value it targets, in the tree `t` -/
def AOpD.local (t : Val) : AOpD → Val → Val
  | .base a => a.local
  | .deserJ _ cfg limit input => fun _ => (JD.run cfg limit input).2.1
  | .deserM _ env limit input => fun _ => (MD.run env limit .all input).2.1
  | .copy _ q => fun _ => copyVal ((getAt q t).getD .null)
  | .copyFrom _ x => fun _ => copyVal x

/-- one step: the local effect at the path, nothing else -/
def AOpD.step (t : Val) (a : AOpD) : Val := updAt (a.local t) a.path t

/-- the abstract machine on a whole history -/
def ARunD (t : Val) (as : List AOpD) : Val := as.foldl AOpD.step t

theorem ARunD_nil (t : Val) : ARunD t [] = t := rfl
theorem ARunD_cons (t : Val) (a : AOpD) (as : List AOpD) : ARunD t (a :: as) = ARunD (a.step t) as := rfl

theorem AOpD.step_base (t : Val) (a : AOp) : (AOpD.base a).step t = a.step t := rfl

/-- the machine extends `ARun` conservatively -/
theorem ARunD_base : ∀ (as : List AOp) (t : Val), ARunD t (as.map .base) = ARun t as
  | [], _ => rfl
  | a :: as, t => by rw [List.map_cons, ARunD_cons, ARun_cons, AOpD.step_base]; exact ARunD_base as _

/-- FRAME for the abstract machine, whole histories: a path that parts ways with the target of every operation keeps its
    value -/
theorem ARunD_frame (q : Path) : ∀ (as : List AOpD) (t : Val), (∀ a ∈ as, Diverge a.path q) →
    getAt q (ARunD t as) = getAt q t
  | [], _, _ => rfl
  | a :: as, t, h => by
    rw [ARunD_cons, ARunD_frame q as _ (fun b hb => h b (List.mem_cons_of_mem _ hb))]
    exact getAt_updAt_diverge _ _ _ _ (h a (List.mem_cons_self))

/-- the value at the target of the last step -/
theorem getAt_step_self (t : Val) (a : AOpD) : getAt a.path (a.step t) = (getAt a.path t).map (a.local t) :=
  getAt_updAt_self _ _ _

/-! ## 4. Forest facts -/

/-- in a layout without repeated slots, a value slot of the layout that occurs below `i` is a value slot there -/
theorem Forest.locs_of_ids_subOf : ∀ (F : Forest), F.ids.Nodup → ∀ (i x : Nat), x ∈ F.locs → x ∈ (F.subOf i).ids →
    x ∈ (F.subOf i).locs := by
  intro F
  induction F with
  | nil => intro _ i x h; cases h
  | cons k j s r ihs ihr =>
    intro hnd i x hx hsub
    obtain ⟨nds, ndr, njs, njr, nsr, nk⟩ := Forest.nodup_cons hnd
    simp only [Forest.locs, List.mem_cons, List.mem_append] at hx
    simp only [Forest.subOf] at hsub ⊢
    by_cases hji : j = i
    · rw [if_pos hji] at hsub ⊢
      rcases hx with e | m | m
      · exact absurd (e ▸ hsub) njs
      · exact m
      · exact absurd (r.locs_sub_ids x m) (nsr x hsub)
    · rw [if_neg hji] at hsub ⊢
      by_cases his : i ∈ s.locs
      · rw [if_pos his] at hsub ⊢
        have hxs : x ∈ s.ids := s.subOf_ids_sub i x hsub
        rcases hx with e | m | m
        · exact absurd (e ▸ hxs) njs
        · exact ihs nds i x m hsub
        · exact absurd (r.locs_sub_ids x m) (nsr x hxs)
      · rw [if_neg his] at hsub ⊢
        have hxr : x ∈ r.ids := r.subOf_ids_sub i x hsub
        rcases hx with e | m | m
        · exact absurd (e ▸ hxr) njr
        · exact absurd hxr (nsr x (s.locs_sub_ids x m))
        · exact ihr ndr i x m hsub

/-- a new layout below `l` whose slots are new or recycled from the old layout below `l`, in the shape needed by
    `pathOf_replaceAt` -/
theorem recycled_locs {F s : Forest} {l : Loc} (hnd : F.ids.Nodup)
    (h : ∀ x ∈ s.ids, x ∈ F.ids → x ∈ (layoutAt F l).ids) :
    ∀ x ∈ s.locs, x ∈ (layoutAt F l).locs ∨ x ∉ F.locs := by
  intro x hx
  by_cases hxF : x ∈ F.locs
  · left
    have h1 := h x (s.locs_sub_ids x hx) (F.locs_sub_ids x hxF)
    cases l with
    | root => exact hxF
    | slot i => exact Forest.locs_of_ids_subOf F hnd i x hxF h1
  · exact Or.inr hxF

/-- the target keeps its path when the layout below it is replaced -/
theorem Forest.pathTo_replaceSub_self (i : Nat) (s' : Forest) : ∀ (F : Forest), i ∈ F.locs →
    (F.replaceSub i s').pathTo i = F.pathTo i := by
  intro F
  induction F with
  | nil => intro h; cases h
  | cons k j s r ihs ihr =>
    intro hi
    simp only [Forest.locs, List.mem_cons, List.mem_append] at hi
    by_cases hji : j = i
    · simp only [Forest.replaceSub, if_pos hji, Forest.pathTo]
    · simp only [Forest.replaceSub, if_neg hji, Forest.pathTo]
      by_cases his : i ∈ s.locs
      · rw [if_pos (Forest.self_mem_locs_replaceSub s i s' his), if_pos his, ihs his]
      · have hir : i ∈ r.locs := by
          rcases hi with e | m | m
          · exact absurd e.symm hji
          · exact absurd m his
          · exact m
        rw [Forest.replaceSub_of_notin i s' s his, if_neg his, if_neg his, ihr hir]

theorem pathOf_replaceAt_self {F : Forest} {l : Loc} (s' : Forest) (hl : isLoc F l) :
    pathOf (replaceAt F l s') l = pathOf F l := by
  cases l with
  | root => rfl
  | slot i => exact Forest.pathTo_replaceSub_self i s' F hl

/-- FRAME in the shape shared by every step of a history: if the abstract document after the step is the old one with
    the value at `l` replaced, a location whose path parts ways with the path of `l` and keeps its path designates the
    same value -/
theorem frame_of_absWith {d d' : Doc} {F F' : Forest} {l l' : Loc} {X : Val} (w : WFG d F) (w' : WFG d' F')
    (hl : isLoc F l) (hl0 : isLoc F l') (hl1 : isLoc F' l') (hp : pathOf F' l' = pathOf F l')
    (habs : abs d' = absWith d F l X) (hdv : Diverge (pathOf F l) (pathOf F l')) :
    d'.toVal (d'.get l') = d.toVal (d.get l') := by
  have e1 := getAt_pathOf w' hl1
  have hu := absWith_updAt w hl (fun _ => X)
  rw [hp, habs, hu, getAt_updAt_diverge _ _ _ _ hdv, getAt_pathOf w hl0] at e1
  exact (Option.some.inj e1).symm

end DL

/-! ## 5. Concrete operations: `Op2` + deserialization into a value + deep copy -/
namespace C04
open DL
open JD (Byte Val Code)

/-- the operations of `C04.Op2`, plus `deserializeJson(doc[l], input)`, `deserializeMsgPack(doc[l], input)` and the deep
    copies `doc[l].set(doc[ls])`, `doc[l].set(src[ls])` -/
inductive OpD
  | base (op : Op2)
  | deserJ (l : Loc) (cfg : JD.Cfg) (limit : Nat) (input : List Byte)
  | deserM (l : Loc) (env : MD.Env) (limit : Nat) (input : List Byte)
  | copy (l ls : Loc)
  | copyFrom (l : Loc) (src : Doc) (Fs : Forest) (ls : Loc)

def OpD.run (d : Doc) : OpD → Doc
  | .base op => op.run d
  | .deserJ l cfg limit input => (JDD.runAt cfg limit d l input).2.1
  | .deserM l env limit input => (MDD.runAt env limit d l input).2.1
  | .copy l ls => copyInto d l d (d.get ls)
  | .copyFrom l src _ ls => copyInto d l src (src.get ls)

/-- the operation designates a reachable location (of the right kind for the operations of `Op2`); a deserialization may
    target ANY location, with any configuration, limit and input; a copy needs a source without repeated keys -/
def OpD.Valid (d : Doc) (F : Forest) : OpD → Prop
  | .base op => op.Valid d F
  | .deserJ l _ _ _ => isLoc F l
  | .deserM l _ _ _ => isLoc F l
  | .copy l ls => isLoc F l ∧ isLoc F ls ∧ NoDupKeys (d.toVal (d.get ls))
  | .copyFrom l src Fs ls => isLoc F l ∧ WFG src Fs ∧ isLoc Fs ls ∧ NoDupKeys (src.toVal (src.get ls))

/-- ghost layout after the operation (explicit: read off the result below the target) -/
def OpD.layout (d : Doc) (F : Forest) : OpD → Forest
  | .base op => op.layout d F
  | .deserJ l cfg limit input => deserLayout (JDD.runAt cfg limit d l input).2.1 F l
  | .deserM l env limit input => deserLayout (MDD.runAt env limit d l input).2.1 F l
  | .copy l ls => copyLayout d F l d (d.get ls)
  | .copyFrom l src _ ls => copyLayout d F l src (src.get ls)

/-- location targeted by the operation -/
def OpD.loc : OpD → Loc
  | .base op => op.loc
  | .deserJ l _ _ _ | .deserM l _ _ _ | .copy l _ | .copyFrom l _ _ _ => l

/-- nothing overflowed: the allocations of the step succeeded. (For JSON the string limit of the configuration must be
    at least the initial capacity of the StringBuilder, as in `C01.slot_level_refines`.) -/
def OpD.Succ (d : Doc) : OpD → Prop
  | .base op => op.Succ d
  | .deserJ l cfg limit input => 31 ≤ cfg.maxStrLen ∧ (JDD.runAt cfg limit d l input).2.1.overflowed = false
  | .deserM l env limit input => (MDD.runAt env limit d l input).2.1.overflowed = false
  | .copy l ls => (copyInto d l d (d.get ls)).overflowed = false
  | .copyFrom l src _ ls => (copyInto d l src (src.get ls)).overflowed = false

/-- the abstract operation a concrete one stands for, in the layout `F` -/
def OpD.toA (F : Forest) : OpD → AOpD
  | .base op => .base (op.toA F)
  | .deserJ l cfg limit input => .deserJ (pathOf F l) cfg limit input
  | .deserM l env limit input => .deserM (pathOf F l) env limit input
  | .copy l ls => .copy (pathOf F l) (pathOf F ls)
  | .copyFrom l src _ ls => .copyFrom (pathOf F l) (src.toVal (src.get ls))

/-- the configuration of a JSON deserialization is a real one -/
def _root_.DL.AOpD.CfgOK : AOpD → Prop
  | .deserJ _ cfg _ _ => 31 ≤ cfg.maxStrLen
  | _ => True

theorem OpD.toA_path (F : Forest) (op : OpD) : (op.toA F).path = pathOf F op.loc := by
  cases op with
  | base op => exact Op2.toA_path F op
  | _ => rfl

theorem OpD.valid_loc {d : Doc} {F : Forest} {op : OpD} (hv : op.Valid d F) : isLoc F op.loc := by
  cases op with
  | base op => exact Op2.valid_loc hv
  | deserJ => exact hv
  | deserM => exact hv
  | copy => exact hv.1
  | copyFrom => exact hv.1

/-- every outcome of the list-level machine of `Op2` is "the old document with the value at the target replaced" -/
theorem Op2.spec_absWith {d : Doc} {F : Forest} {op : Op2} (w : WFG d F) (hv : op.Valid d F) :
    ∃ X, op.spec d F = absWith d F op.loc X := by
  have hl := Op2.valid_loc hv
  cases op with
  | base op =>
    cases op with
    | add l =>
      simp only [Op2.spec, Op.spec, Op2.loc] at hl ⊢
      split
      · exact ⟨_, rfl⟩
      · exact ⟨_, (absWith_self w hl).symm⟩
    | clear l => exact ⟨_, rfl⟩
    | put l a => exact ⟨_, rfl⟩
  | removeElem l k =>
    simp only [Op2.spec, Op2.loc] at hl ⊢
    split
    · exact ⟨_, rfl⟩
    · exact ⟨_, (absWith_self w hl).symm⟩
  | removeMember l key =>
    simp only [Op2.spec, Op2.loc] at hl ⊢
    split
    · exact ⟨_, rfl⟩
    · exact ⟨_, (absWith_self w hl).symm⟩
  | member l key linked =>
    simp only [Op2.spec, Op2.loc]
    split
    · exact ⟨_, rfl⟩
    · split <;> exact ⟨_, rfl⟩

/-- ONE STEP, whatever happens (any input, any code, any allocation failure): the invariant and the geometry are kept
    and the abstract document is the old one with the value at the target replaced -/
theorem stepD_refines {d : Doc} {F : Forest} {op : OpD} (w : WFG d F) (hs : StrOK d (d.strRefs F))
    (gok : PL.GeoOK d.g) (hv : op.Valid d F) :
    WFG (op.run d) (op.layout d F) ∧ StrOK (op.run d) ((op.run d).strRefs (op.layout d F)) ∧
    (op.run d).g = d.g ∧ ∃ X, abs (op.run d) = absWith d F op.loc X := by
  cases op with
  | base op =>
    obtain ⟨a, b, c, e⟩ := step_refines2 w hs gok hv
    obtain ⟨X, hX⟩ := Op2.spec_absWith w hv
    exact ⟨a, b, c, X, e.trans hX⟩
  | deserJ l cfg limit input =>
    have S := runAt_step cfg limit d F l input w hs hv gok
    exact ⟨S.wf, S.str, S.into.g, _, S.into.abs⟩
  | deserM l env limit input =>
    have S := mp_runAt_step env limit d F l input w hs hv gok
    exact ⟨S.wf, S.str, S.into.g, _, S.into.abs⟩
  | copy l ls =>
    obtain ⟨hl, hls, hnd⟩ := hv
    obtain ⟨a, b, g, e⟩ := copy_step w hs gok hl w hls hnd
    exact ⟨a, b, g, _, e⟩
  | copyFrom l src Fs ls =>
    obtain ⟨hl, ws, hls, hnd⟩ := hv
    obtain ⟨a, b, g, e⟩ := copy_step w hs gok hl ws hls hnd
    exact ⟨a, b, g, _, e⟩

/-- one valid step in which nothing overflowed is one step of the abstract machine -/
theorem stepD_simulates {d : Doc} {F : Forest} {op : OpD} (w : WFG d F) (hs : StrOK d (d.strRefs F))
    (gok : PL.GeoOK d.g) (hv : op.Valid d F) (hok : op.Succ d) :
    abs (op.run d) = (op.toA F).step (abs d) := by
  cases op with
  | base op => exact step_simulates w hs gok hv hok
  | deserJ l cfg limit input =>
    obtain ⟨h31, hno⟩ := hok
    obtain ⟨I, _, _, hst, _⟩ := deser_into_value cfg limit d F l input w hs hv gok
    have h0 : d.overflowed = false := by
      cases h : d.overflowed with
      | false => rfl
      | true => rw [hst h] at hno; cases hno
    show abs (JDD.runAt cfg limit d l input).2.1 = _
    rcases runAt_core cfg limit d F l input w hs hv gok h31 h0 with ⟨_, _, _, e⟩ | ⟨o, _⟩
    · rw [I.abs, e]
      exact absWith_updAt w hv (fun _ => (JD.run cfg limit input).2.1)
    · rw [o] at hno; cases hno
  | deserM l env limit input =>
    obtain ⟨I, _, _, hst, _⟩ := mp_deser_into_value env limit d F l input w hs hv gok
    have hok : (MDD.runAt env limit d l input).2.1.overflowed = false := hok
    have h0 : d.overflowed = false := by
      cases h : d.overflowed with
      | false => rfl
      | true => rw [hst h] at hok; cases hok
    show abs (MDD.runAt env limit d l input).2.1 = _
    rcases mp_runAt_core env limit d F l input w hs hv gok h0 with ⟨_, _, _, _, e⟩ | ⟨o, _⟩
    · rw [I.abs, e]
      exact absWith_updAt w hv (fun _ => (MD.run env limit .all input).2.1)
    · rw [o] at hok; cases hok
  | copy l ls =>
    obtain ⟨hl, hls, hnd⟩ := hv
    obtain ⟨_, _, _, _, e, _⟩ := copyInto_refines w hs gok hl w hls hnd hok
    show abs (copyInto d l d (d.get ls)) = updAt (fun _ => copyVal ((getAt (pathOf F ls) (abs d)).getD .null)) (pathOf F l) (abs d)
    rw [e, getAt_pathOf w hls]
    exact absWith_updAt w hl (fun _ => copyVal (d.toVal (d.get ls)))
  | copyFrom l src Fs ls =>
    obtain ⟨hl, ws, hls, hnd⟩ := hv
    obtain ⟨_, _, _, _, e, _⟩ := copyInto_refines w hs gok hl ws hls hnd hok
    show abs (copyInto d l src (src.get ls)) = _
    rw [e]
    exact absWith_updAt w hl (fun _ => copyVal (src.toVal (src.get ls)))

/-- one step, whatever happens: a location whose path parts ways with the path of the target is still a location of
    the new layout, at the same path -/
theorem stepD_keeps_path {d : Doc} {F : Forest} {op : OpD} {l' : Loc} (w : WFG d F) (hs : StrOK d (d.strRefs F))
    (gok : PL.GeoOK d.g) (hv : op.Valid d F) (hl' : isLoc F l') (hdv : Diverge (pathOf F op.loc) (pathOf F l')) :
    isLoc (op.layout d F) l' ∧ pathOf (op.layout d F) l' = pathOf F l' := by
  cases op with
  | base op => exact step_keeps_path w hs gok hv hl' hdv
  | deserJ l cfg limit input =>
    have S := runAt_step cfg limit d F l input w hs hv gok
    exact pathOf_replaceAt _ w.nodup hv hl' hdv (recycled_locs w.nodup S.recycled)
  | deserM l env limit input =>
    have S := mp_runAt_step env limit d F l input w hs hv gok
    exact pathOf_replaceAt _ w.nodup hv hl' hdv (recycled_locs w.nodup S.recycled)
  | copy l ls =>
    obtain ⟨hl, hls, hnd⟩ := hv
    obtain ⟨_, _, _, _, _, _, _, _, _, f, _⟩ := copyInto_doc_gen w hs gok hl (VOK_at w hls) (src_fuel_ok w hls) hnd
    exact pathOf_replaceAt _ w.nodup hl hl' hdv (recycled_locs w.nodup f)
  | copyFrom l src Fs ls =>
    obtain ⟨hl, ws, hls, hnd⟩ := hv
    obtain ⟨_, _, _, _, _, _, _, _, _, f, _⟩ := copyInto_doc_gen w hs gok hl (VOK_at ws hls) (src_fuel_ok ws hls) hnd
    exact pathOf_replaceAt _ w.nodup hl hl' hdv (recycled_locs w.nodup f)

/-- ONE STEP CHANGES ONLY ITS TARGET, whatever happens (any input, any code, any allocation failure): a location whose
    path parts ways with the path of the target is still a location, at the same path, and designates the same value -/
theorem stepD_frame {d : Doc} {F : Forest} {op : OpD} {l' : Loc} (w : WFG d F) (hs : StrOK d (d.strRefs F))
    (gok : PL.GeoOK d.g) (hv : op.Valid d F) (hl' : isLoc F l') (hdv : Diverge (pathOf F op.loc) (pathOf F l')) :
    isLoc (op.layout d F) l' ∧ pathOf (op.layout d F) l' = pathOf F l' ∧
    (op.run d).toVal ((op.run d).get l') = d.toVal (d.get l') := by
  obtain ⟨a, _, _, X, hX⟩ := stepD_refines w hs gok hv
  obtain ⟨h1, h2⟩ := stepD_keeps_path w hs gok hv hl' hdv
  exact ⟨h1, h2, frame_of_absWith w a (OpD.valid_loc hv) hl' h1 h2 hX hdv⟩

/-- a deserialization or a copy keeps its own target a location, at the same path (the next operation may address it) -/
theorem deser_keeps_target {F : Forest} {l : Loc} (d' : Doc) (hl : isLoc F l) :
    isLoc (deserLayout d' F l) l ∧ pathOf (deserLayout d' F l) l = pathOf F l :=
  ⟨isLoc_replaceAt_self _ hl, pathOf_replaceAt_self _ hl⟩

/-- the flag after a valid step: the flag before, or something of the step overflowed -/
theorem stepD_overflowed {d : Doc} {F : Forest} {op : OpD} (w : WFG d F) (hs : StrOK d (d.strRefs F))
    (gok : PL.GeoOK d.g) (hv : op.Valid d F) (hc : (op.toA F).CfgOK) (h : (op.run d).overflowed = false) :
    d.overflowed = false ∧ op.Succ d := by
  have stick : ∀ {d' : Doc}, (d.overflowed = true → d'.overflowed = true) → d'.overflowed = false →
      d.overflowed = false := by
    intro d' hst hno
    cases h : d.overflowed with
    | false => rfl
    | true => rw [hst h] at hno; cases hno
  cases op with
  | base op => exact step_overflowed hv h
  | deserJ l cfg limit input =>
    exact ⟨stick (deser_into_value cfg limit d F l input w hs hv gok).2.2.2.1 h, hc, h⟩
  | deserM l env limit input =>
    exact ⟨stick (mp_deser_into_value env limit d F l input w hs hv gok).2.2.2.1 h, h⟩
  | copy l ls =>
    obtain ⟨hl, hls, hnd⟩ := hv
    obtain ⟨_, _, _, _, _, _, ov, _⟩ := copyInto_doc_gen w hs gok hl (VOK_at w hls) (src_fuel_ok w hls) hnd
    exact ⟨stick ov h, h⟩
  | copyFrom l src Fs ls =>
    obtain ⟨hl, ws, hls, hnd⟩ := hv
    obtain ⟨_, _, _, _, _, _, ov, _⟩ := copyInto_doc_gen w hs gok hl (VOK_at ws hls) (src_fuel_ok ws hls) hnd
    exact ⟨stick ov h, h⟩

/-! ## 6. Histories -/

/-- `HistDW d F as d' F'`: `d'` (laid out as `F'`) is reached from `d` (laid out as `F`) by a sequence of valid operations
    of `OpD` - WHATEVER their outcome (allocation failures, syntax errors, any code) - standing for the abstract
    operations `as` (each concrete step `op` in the layout `G` of that moment contributes `op.toA G`) -/
inductive HistDW : Doc → Forest → List AOpD → Doc → Forest → Prop
  | nil (d : Doc) (F : Forest) : HistDW d F [] d F
  | cons {d : Doc} {F : Forest} {as : List AOpD} {d' : Doc} {F' : Forest} (op : OpD) :
      op.Valid d F → HistDW (op.run d) (op.layout d F) as d' F' → HistDW d F (op.toA F :: as) d' F'

/-- `HistD d F as d' F'`: the same, and nothing overflowed in any step -/
inductive HistD : Doc → Forest → List AOpD → Doc → Forest → Prop
  | nil (d : Doc) (F : Forest) : HistD d F [] d F
  | cons {d : Doc} {F : Forest} {as : List AOpD} {d' : Doc} {F' : Forest} (op : OpD) :
      op.Valid d F → op.Succ d → HistD (op.run d) (op.layout d F) as d' F' → HistD d F (op.toA F :: as) d' F'

theorem HistD.weak {d d' : Doc} {F F' : Forest} {as : List AOpD} (h : HistD d F as d' F') : HistDW d F as d' F' := by
  induction h with
  | nil d F => exact HistDW.nil d F
  | cons op hv _ _ ih => exact HistDW.cons op hv ih

/-- the histories of `Op2` are histories of `OpD` -/
theorem HistA.toD {d d' : Doc} {F F' : Forest} {as : List AOp} (h : HistA d F as d' F') :
    HistD d F (as.map .base) d' F' := by
  induction h with
  | nil d F => exact HistD.nil d F
  | cons op hv hok _ ih => exact HistD.cons (.base op) hv hok ih

/-- appending one more step at the end -/
theorem HistD.snoc {d d' : Doc} {F F' : Forest} {as : List AOpD} (h : HistD d F as d' F') (op : OpD)
    (hv : op.Valid d' F') (hok : op.Succ d') : HistD d F (as ++ [op.toA F']) (op.run d') (op.layout d' F') := by
  induction h with
  | nil d F => exact HistD.cons op hv hok (HistD.nil _ _)
  | cons op' hv' hok' _ ih => exact HistD.cons op' hv' hok' (ih hv hok)

end C04

