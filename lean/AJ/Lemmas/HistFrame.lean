/- C20, frames and footprints over the WORLD of the history interpreter (AJ/Model/DH.lean: an array of documents, an array
   of references into them, a world log).

   A step is any `DH.W → O × DH.W`. A FOOTPRINT `FP` names the documents a step may write, the documents it reads, the
   references it reads and the references it may rebind; the first two may depend on the world (a reference-addressed
   operation writes the document its reference is bound to). `Local f p` says that `p` really is a footprint of `f`:
   * frame: documents outside `p.wr`, references outside `p.bind`, the world log, the ghost `dead`, the geometry are
     LITERALLY unchanged;
   * locality: the output, the new contents of the written documents and of the rebound references, and the footprint
     itself are functions of the documents in `p.rd` and the references in `p.use` alone.
   From these two facts alone: steps with disjoint footprints commute (`Local.commute`), and every interleaving of two
   histories confined to disjoint regions (with a shared read-only region) is equivalent to running them one after the
   other (`inter_aux`, `inter_eq`, `inter_seq`).
   The rules by which the steps of the interpreter are shown `Local` are in AJ/Lemmas/HistFrameRules.lean, the commands
   of the interpreter in AJ/Lemmas/HistFrameCmd.lean … HistFrameCmd5.lean, the theorems in AJ/Props/C20Hist.lean. -/
import AJ.Model.DH
namespace C20
open DL
open DH (W Ref)

/-! ## 0. Arrays -/

theorem getElem!_eq_getD? {α : Type} [Inhabited α] (a : Array α) (i : Nat) : a[i]! = (a[i]?).getD default := by
  rw [getElem!_def]; cases a[i]? <;> rfl

theorem getElem?_set! {α : Type} (a : Array α) (i j : Nat) (x : α) :
    (a.set! i x)[j]? = if i = j then (a[j]?).map (fun _ => x) else a[j]? := by
  rw [Array.set!_eq_setIfInBounds, Array.getElem?_setIfInBounds]
  by_cases h : i = j
  · subst h
    rw [if_pos rfl, if_pos rfl]
    by_cases hi : i < a.size
    · rw [if_pos hi, Array.getElem?_eq_getElem hi]; rfl
    · rw [if_neg hi, Array.getElem?_eq_none (Nat.le_of_not_lt hi)]; rfl
  · rw [if_neg h, if_neg h]

theorem getElem?_set!_ne {α : Type} (a : Array α) {i j : Nat} (x : α) (h : i ≠ j) : (a.set! i x)[j]? = a[j]? := by
  rw [getElem?_set!, if_neg h]

theorem getElem?_set!_self {α : Type} (a : Array α) (i : Nat) (x : α) : (a.set! i x)[i]? = (a[i]?).map (fun _ => x) := by
  rw [getElem?_set!, if_pos rfl]

/-- two worlds with the same documents and references at every index, and the same log, ghost table, geometry -/
theorem world_ext {a b : W} (h1 : ∀ j : Nat, a.docs[j]? = b.docs[j]?) (h2 : ∀ r : Nat, a.refs[r]? = b.refs[r]?) (h3 : a.log = b.log)
    (h4 : a.dead = b.dead) (h5 : a.geo = b.geo) (h6 : a.strOverhead = b.strOverhead) (h7 : a.maxStrLen = b.maxStrLen) : a = b := by
  obtain ⟨ad, ar, al, ae, ag, as, am⟩ := a
  obtain ⟨bd, br, bl, be, bg, bs, bm⟩ := b
  have e1 : ad = bd := Array.ext_getElem? h1
  have e2 : ar = br := Array.ext_getElem? h2
  simp only at h3 h4 h5 h6 h7
  subst e1 e2 h3 h4 h5 h6 h7
  rfl

/-! ## 1. Steps, footprints -/

/-- a step of the world: an output and a new world -/
abbrev Step (O : Type) := W → O × W

/-- footprint of a step: documents possibly written / read (may depend on the world: on the binding of the references
    the step goes through), references read / possibly rebound -/
structure FP where
  wr : W → Nat → Prop
  rd : W → Nat → Prop
  use : Nat → Prop
  bind : Nat → Prop

/-- a footprint that does not depend on the world -/
def FP.static (D R U B : Nat → Prop) : FP := ⟨fun _ => D, fun _ => R, U, B⟩

/-- `w'` agrees with `w` on everything the footprint (evaluated at `w`) reads -/
def FP.Agree (p : FP) (w w' : W) : Prop :=
  (∀ j, p.rd w j → w.docs[j]? = w'.docs[j]?) ∧ (∀ r, p.use r → w.refs[r]? = w'.refs[r]?)

/-- **`p` is a footprint of `f`.** -/
structure Local {O : Type} (f : Step O) (p : FP) : Prop where
  /-- a document outside the write set is literally unchanged -/
  frame_docs : ∀ w j, ¬ p.wr w j → (f w).2.docs[j]? = w.docs[j]?
  /-- a reference that is not rebound is literally unchanged -/
  frame_refs : ∀ w r, ¬ p.bind r → (f w).2.refs[r]? = w.refs[r]?
  /-- nothing else in the world changes: no log entry, no ghost state, no geometry -/
  frame_rest : ∀ w, (f w).2.log = w.log ∧ (f w).2.dead = w.dead ∧ (f w).2.geo = w.geo ∧
    (f w).2.strOverhead = w.strOverhead ∧ (f w).2.maxStrLen = w.maxStrLen
  /-- what is written is read -/
  wr_rd : ∀ w j, p.wr w j → p.rd w j
  /-- a reference that is rebound counts as used -/
  bind_use : ∀ r, p.bind r → p.use r
  /-- the output, the written documents, the rebound references and the footprint itself depend only on what is read -/
  loc : ∀ w w', p.Agree w w' →
    (f w).1 = (f w').1 ∧ (∀ j, p.wr w j → (f w).2.docs[j]? = (f w').2.docs[j]?) ∧
    (∀ r, p.bind r → (f w).2.refs[r]? = (f w').2.refs[r]?) ∧
    (∀ j, p.wr w j ↔ p.wr w' j) ∧ (∀ j, p.rd w j ↔ p.rd w' j)

/-- footprints disjoint at `w`: neither writes what the other reads (or writes), neither rebinds what the other uses
    (or rebinds) -/
structure FP.Disjoint (p q : FP) (w : W) : Prop where
  wr_rd : ∀ j, p.wr w j → ¬ q.rd w j
  rd_wr : ∀ j, q.wr w j → ¬ p.rd w j
  bind_use : ∀ r, p.bind r → ¬ q.use r
  use_bind : ∀ r, q.bind r → ¬ p.use r

theorem FP.Disjoint.symm {p q : FP} {w : W} (h : p.Disjoint q w) : q.Disjoint p w :=
  ⟨h.rd_wr, h.wr_rd, h.use_bind, h.bind_use⟩

/-- after a step with a disjoint footprint the world still agrees on everything `q` reads -/
theorem Local.agree_after {O : Type} {f : Step O} {p q : FP} (hf : Local f p) {w : W} (hd : p.Disjoint q w) :
    q.Agree w (f w).2 :=
  ⟨fun j hj => (hf.frame_docs w j (fun h => hd.wr_rd j h hj)).symm,
   fun r hr => (hf.frame_refs w r (fun h => hd.bind_use r h hr)).symm⟩

/-- **Two steps with disjoint footprints commute**: same final world, and each gives the output it gives alone. -/
theorem Local.commute {O O' : Type} {f : Step O} {g : Step O'} {p q : FP} (hf : Local f p) (hg : Local g q) (w : W)
    (hd : p.Disjoint q w) :
    (g (f w).2).2 = (f (g w).2).2 ∧ (g (f w).2).1 = (g w).1 ∧ (f (g w).2).1 = (f w).1 := by
  obtain ⟨go, gd, gr, gw, _⟩ := hg.loc w (f w).2 (hf.agree_after hd)
  obtain ⟨fo, fd, fr, fw, _⟩ := hf.loc w (g w).2 (hg.agree_after hd.symm)
  have pq : ∀ j, p.wr w j → ¬ q.wr w j := fun j h h' => hd.wr_rd j h (hg.wr_rd w j h')
  refine ⟨world_ext (fun j => ?_) (fun r => ?_) ?_ ?_ ?_ ?_ ?_, go.symm, fo.symm⟩
  · by_cases h1 : q.wr w j
    · rw [← gd j h1, hf.frame_docs (g w).2 j (fun h => pq j ((fw j).2 h) h1)]
    · rw [hg.frame_docs (f w).2 j (fun h => h1 ((gw j).2 h))]
      by_cases h2 : p.wr w j
      · rw [← fd j h2]
      · rw [hf.frame_docs w j h2, hf.frame_docs (g w).2 j (fun h => h2 ((fw j).2 h)), hg.frame_docs w j h1]
  · by_cases h1 : q.bind r
    · rw [← gr r h1, hf.frame_refs (g w).2 r (fun h => hd.use_bind r h1 (hf.bind_use r h))]
    · rw [hg.frame_refs (f w).2 r h1]
      by_cases h2 : p.bind r
      · rw [← fr r h2]
      · rw [hf.frame_refs w r h2, hf.frame_refs (g w).2 r h2, hg.frame_refs w r h1]
  · rw [(hg.frame_rest _).1, (hf.frame_rest _).1, (hf.frame_rest _).1, (hg.frame_rest _).1]
  · rw [(hg.frame_rest _).2.1, (hf.frame_rest _).2.1, (hf.frame_rest _).2.1, (hg.frame_rest _).2.1]
  · rw [(hg.frame_rest _).2.2.1, (hf.frame_rest _).2.2.1, (hf.frame_rest _).2.2.1, (hg.frame_rest _).2.2.1]
  · rw [(hg.frame_rest _).2.2.2.1, (hf.frame_rest _).2.2.2.1, (hf.frame_rest _).2.2.2.1, (hg.frame_rest _).2.2.2.1]
  · rw [(hg.frame_rest _).2.2.2.2, (hf.frame_rest _).2.2.2.2, (hf.frame_rest _).2.2.2.2, (hg.frame_rest _).2.2.2.2]

/-! ## 2. Histories, regions, interleavings -/

/-- a step packaged with a footprint -/
structure LStep (O : Type) where
  f : Step O
  p : FP
  ok : Local f p

/-- sequential run of a history: final world, outputs in order -/
def runHist {O : Type} : List (LStep O) → W → W × List O
  | [], w => (w, [])
  | s :: rest, w => ((runHist rest (s.f w).2).1, (s.f w).1 :: (runHist rest (s.f w).2).2)

/-- run of a schedule: each step carries the name (`true` / `false`) of the history it belongs to -/
def runInter {O : Type} : List (Bool × LStep O) → W → W × List (Bool × O)
  | [], w => (w, [])
  | (b, s) :: rest, w => ((runInter rest (s.f w).2).1, (b, (s.f w).1) :: (runInter rest (s.f w).2).2)

/-- the part of a schedule (or of its outputs) that belongs to history `b`, in order -/
def sideOf {α : Type} (b : Bool) (l : List (Bool × α)) : List α := (l.filter (fun x => x.1 == b)).map (·.2)

theorem sideOf_nil {α : Type} (b : Bool) : sideOf b ([] : List (Bool × α)) = [] := rfl
theorem sideOf_cons_self {α : Type} (b : Bool) (x : α) (l : List (Bool × α)) :
    sideOf b ((b, x) :: l) = x :: sideOf b l := by
  simp only [sideOf, List.filter_cons, beq_self_eq_true, ↓reduceIte, List.map_cons]
theorem sideOf_cons_other {α : Type} (b : Bool) (x : α) (l : List (Bool × α)) :
    sideOf (!b) ((b, x) :: l) = sideOf (!b) l := by
  cases b <;> rfl

/-- a region of the world: a set of documents and a set of references -/
structure Region where
  docs : Nat → Prop
  refs : Nat → Prop

/-- regions without a common document or reference -/
def Region.Disj (A B : Region) : Prop := (∀ j, A.docs j → ¬ B.docs j) ∧ (∀ r, A.refs r → ¬ B.refs r)

/-- at world `w` the footprint stays inside region `A`, except that it may READ the documents and references of `S` -/
structure FP.Within (p : FP) (A S : Region) (w : W) : Prop where
  wr : ∀ j, p.wr w j → A.docs j
  rd : ∀ j, p.rd w j → A.docs j ∨ S.docs j
  use : ∀ r, p.use r → A.refs r ∨ S.refs r
  bind : ∀ r, p.bind r → A.refs r

/-- the history, run ALONE from `w`, stays inside `A` (reading `S`) at every step -/
def Confined {O : Type} (A S : Region) : List (LStep O) → W → Prop
  | [], _ => True
  | s :: rest, w => s.p.Within A S w ∧ Confined A S rest (s.f w).2

/-- the two worlds have the same documents and references in `A` and in `S` -/
def AgreeOn (A S : Region) (w w' : W) : Prop :=
  (∀ j, A.docs j ∨ S.docs j → w.docs[j]? = w'.docs[j]?) ∧ (∀ r, A.refs r ∨ S.refs r → w.refs[r]? = w'.refs[r]?)

theorem AgreeOn.refl (A S : Region) (w : W) : AgreeOn A S w w := ⟨fun _ _ => rfl, fun _ _ => rfl⟩

/-- one step of history `A` inside a world that agrees with `A`'s solo world on `A ∪ S`: same output, the worlds still
    agree on `A ∪ S`, and nothing outside `A` has changed -/
theorem step_own {O : Type} {A S : Region} (s : LStep O) {w wa : W} (ha : AgreeOn A S w wa)
    (hin : s.p.Within A S wa) :
    (s.f w).1 = (s.f wa).1 ∧ AgreeOn A S (s.f w).2 (s.f wa).2 ∧
    (∀ j, ¬ A.docs j → (s.f w).2.docs[j]? = w.docs[j]?) ∧ (∀ r, ¬ A.refs r → (s.f w).2.refs[r]? = w.refs[r]?) := by
  have hag : s.p.Agree wa w :=
    ⟨fun j hj => (ha.1 j (hin.rd j hj)).symm, fun r hr => (ha.2 r (hin.use r hr)).symm⟩
  obtain ⟨o, dd, rr, ww, _⟩ := s.ok.loc wa w hag
  refine ⟨o.symm, ⟨fun j hj => ?_, fun r hr => ?_⟩, fun j hj => ?_, fun r hr => ?_⟩
  · by_cases h : s.p.wr wa j
    · exact (dd j h).symm
    · rw [s.ok.frame_docs wa j h, s.ok.frame_docs w j (fun h' => h ((ww j).2 h')), ha.1 j hj]
  · by_cases h : s.p.bind r
    · exact (rr r h).symm
    · rw [s.ok.frame_refs wa r h, s.ok.frame_refs w r h, ha.2 r hr]
  · exact s.ok.frame_docs w j (fun h => hj (hin.wr j ((ww j).2 h)))
  · exact s.ok.frame_refs w r (fun h => hr (hin.bind r h))

/-- the worlds of the two histories and of the interleaving, step by step: the interleaved world agrees with each
    history's SOLO world on that history's region (and on the shared region), each history gets the outputs of its solo
    run, and nothing outside the two regions changes -/
theorem inter_aux {O : Type} {A B S : Region} (hAB : A.Disj B) (hAS : A.Disj S) (hBS : B.Disj S) :
    ∀ (sched : List (Bool × LStep O)) (w wa wb : W), AgreeOn A S w wa → AgreeOn B S w wb →
      Confined A S (sideOf true sched) wa → Confined B S (sideOf false sched) wb →
      AgreeOn A S (runInter sched w).1 (runHist (sideOf true sched) wa).1 ∧
      AgreeOn B S (runInter sched w).1 (runHist (sideOf false sched) wb).1 ∧
      sideOf true (runInter sched w).2 = (runHist (sideOf true sched) wa).2 ∧
      sideOf false (runInter sched w).2 = (runHist (sideOf false sched) wb).2 ∧
      (∀ j, ¬ A.docs j → ¬ B.docs j → (runInter sched w).1.docs[j]? = w.docs[j]?) ∧
      (∀ r, ¬ A.refs r → ¬ B.refs r → (runInter sched w).1.refs[r]? = w.refs[r]?) ∧
      (runInter sched w).1.log = w.log ∧ (runInter sched w).1.dead = w.dead ∧ (runInter sched w).1.geo = w.geo ∧
      (runInter sched w).1.strOverhead = w.strOverhead ∧ (runInter sched w).1.maxStrLen = w.maxStrLen := by
  intro sched
  induction sched with
  | nil => intro w wa wb ha hb _ _; exact ⟨ha, hb, rfl, rfl, fun _ _ _ => rfl, fun _ _ _ => rfl, rfl, rfl, rfl, rfl, rfl⟩
  | cons hd rest ih =>
    obtain ⟨b, s⟩ := hd
    intro w wa wb ha hb ca cb
    obtain ⟨l1, l2, l3, l4, l5⟩ := s.ok.frame_rest w
    cases b with
    | true =>
      rw [sideOf_cons_self] at ca
      rw [show sideOf false ((true, s) :: rest) = sideOf false rest from rfl] at cb ⊢
      rw [sideOf_cons_self]
      obtain ⟨hin, ca'⟩ := ca
      obtain ⟨o, ha', fd, fr⟩ := step_own s ha hin
      have hb' : AgreeOn B S (s.f w).2 wb :=
        ⟨fun j hj => by
            rw [fd j (fun h => by rcases hj with h' | h'; exact hAB.1 j h h'; exact hAS.1 j h h')]; exact hb.1 j hj,
         fun r hr => by
            rw [fr r (fun h => by rcases hr with h' | h'; exact hAB.2 r h h'; exact hAS.2 r h h')]; exact hb.2 r hr⟩
      obtain ⟨i1, i2, i3, i4, i5, i6, i7, i8, i9, i10, i11⟩ := ih (s.f w).2 (s.f wa).2 wb ha' hb' ca' cb
      refine ⟨i1, i2, ?_, i4, fun j h1 h2 => (i5 j h1 h2).trans (fd j h1), fun r h1 h2 => (i6 r h1 h2).trans (fr r h1),
        i7.trans l1, i8.trans l2, i9.trans l3, i10.trans l4, i11.trans l5⟩
      show sideOf true ((true, (s.f w).1) :: (runInter rest (s.f w).2).2) = (s.f wa).1 :: _
      rw [sideOf_cons_self, i3, o]
    | false =>
      rw [sideOf_cons_self] at cb
      rw [show sideOf true ((false, s) :: rest) = sideOf true rest from rfl] at ca ⊢
      rw [sideOf_cons_self]
      obtain ⟨hin, cb'⟩ := cb
      obtain ⟨o, hb', fd, fr⟩ := step_own s hb hin
      have ha' : AgreeOn A S (s.f w).2 wa :=
        ⟨fun j hj => by
            rw [fd j (fun h => by rcases hj with h' | h'; exact hAB.1 j h' h; exact hBS.1 j h h')]; exact ha.1 j hj,
         fun r hr => by
            rw [fr r (fun h => by rcases hr with h' | h'; exact hAB.2 r h' h; exact hBS.2 r h h')]; exact ha.2 r hr⟩
      obtain ⟨i1, i2, i3, i4, i5, i6, i7, i8, i9, i10, i11⟩ := ih (s.f w).2 wa (s.f wb).2 ha' hb' ca cb'
      refine ⟨i1, i2, i3, ?_, fun j h1 h2 => (i5 j h1 h2).trans (fd j h2), fun r h1 h2 => (i6 r h1 h2).trans (fr r h2),
        i7.trans l1, i8.trans l2, i9.trans l3, i10.trans l4, i11.trans l5⟩
      show sideOf false ((false, (s.f w).1) :: (runInter rest (s.f w).2).2) = (s.f wb).1 :: _
      rw [sideOf_cons_self, i4, o]

/-- two schedules of the same two histories end in the same world and give each history the same outputs -/
theorem inter_eq {O : Type} {A B S : Region} (hAB : A.Disj B) (hAS : A.Disj S) (hBS : B.Disj S)
    (s1 s2 : List (Bool × LStep O)) (w : W) (e1 : sideOf true s1 = sideOf true s2)
    (e2 : sideOf false s1 = sideOf false s2) (ca : Confined A S (sideOf true s1) w)
    (cb : Confined B S (sideOf false s1) w) :
    (runInter s1 w).1 = (runInter s2 w).1 ∧ sideOf true (runInter s1 w).2 = sideOf true (runInter s2 w).2 ∧
    sideOf false (runInter s1 w).2 = sideOf false (runInter s2 w).2 := by
  obtain ⟨a1, a2, a3, a4, a5, a6, a7, a8, a9, a10, a11⟩ :=
    inter_aux hAB hAS hBS s1 w w w (AgreeOn.refl _ _ _) (AgreeOn.refl _ _ _) ca cb
  obtain ⟨b1, b2, b3, b4, b5, b6, b7, b8, b9, b10, b11⟩ :=
    inter_aux hAB hAS hBS s2 w w w (AgreeOn.refl _ _ _) (AgreeOn.refl _ _ _) (e1 ▸ ca) (e2 ▸ cb)
  rw [← e1] at b1 b3
  rw [← e2] at b2 b4
  refine ⟨world_ext (fun j => ?_) (fun r => ?_) (a7.trans b7.symm) (a8.trans b8.symm) (a9.trans b9.symm)
    (a10.trans b10.symm) (a11.trans b11.symm), a3.trans b3.symm, a4.trans b4.symm⟩
  · by_cases h1 : A.docs j
    · exact (a1.1 j (Or.inl h1)).trans (b1.1 j (Or.inl h1)).symm
    · by_cases h2 : B.docs j
      · exact (a2.1 j (Or.inl h2)).trans (b2.1 j (Or.inl h2)).symm
      · exact (a5 j h1 h2).trans (b5 j h1 h2).symm
  · by_cases h1 : A.refs r
    · exact (a1.2 r (Or.inl h1)).trans (b1.2 r (Or.inl h1)).symm
    · by_cases h2 : B.refs r
      · exact (a2.2 r (Or.inl h2)).trans (b2.2 r (Or.inl h2)).symm
      · exact (a6 r h1 h2).trans (b6 r h1 h2).symm

/-! ## 3. "One after the other" is an interleaving -/

theorem sideOf_append {α : Type} (b : Bool) (l1 l2 : List (Bool × α)) : sideOf b (l1 ++ l2) = sideOf b l1 ++ sideOf b l2 := by
  simp only [sideOf, List.filter_append, List.map_append]

theorem sideOf_tag_same {α : Type} (b : Bool) : ∀ (h : List α), sideOf b (h.map (fun x => (b, x))) = h
  | [] => rfl
  | x :: h => by rw [List.map_cons, sideOf_cons_self, sideOf_tag_same b h]

theorem sideOf_tag_other {α : Type} (b : Bool) : ∀ (h : List α), sideOf (!b) (h.map (fun x => (b, x))) = []
  | [] => rfl
  | x :: h => by rw [List.map_cons, sideOf_cons_other, sideOf_tag_other b h]

theorem runInter_append {O : Type} : ∀ (s1 s2 : List (Bool × LStep O)) (w : W),
    (runInter (s1 ++ s2) w).1 = (runInter s2 (runInter s1 w).1).1 ∧
    (runInter (s1 ++ s2) w).2 = (runInter s1 w).2 ++ (runInter s2 (runInter s1 w).1).2
  | [], _, _ => ⟨rfl, rfl⟩
  | (b, s) :: s1, s2, w => by
    obtain ⟨a, c⟩ := runInter_append s1 s2 (s.f w).2
    exact ⟨a, congrArg (fun t => (b, (s.f w).1) :: t) c⟩

theorem runInter_tag {O : Type} (b : Bool) : ∀ (h : List (LStep O)) (w : W),
    (runInter (h.map (fun x => (b, x))) w).1 = (runHist h w).1 ∧
    (runInter (h.map (fun x => (b, x))) w).2 = (runHist h w).2.map (fun o => (b, o))
  | [], _ => ⟨rfl, rfl⟩
  | s :: h, w => by
    obtain ⟨a, c⟩ := runInter_tag b h (s.f w).2
    exact ⟨a, congrArg (fun t => (b, (s.f w).1) :: t) c⟩

/-- the schedule "all of `hA`, then all of `hB`" -/
def seqSched {α : Type} (hA hB : List α) : List (Bool × α) := hA.map (fun x => (true, x)) ++ hB.map (fun x => (false, x))

theorem sideOf_seqSched_true {α : Type} (hA hB : List α) : sideOf true (seqSched hA hB) = hA := by
  rw [seqSched, sideOf_append, sideOf_tag_same, show true = !false from rfl, sideOf_tag_other, List.append_nil]
theorem sideOf_seqSched_false {α : Type} (hA hB : List α) : sideOf false (seqSched hA hB) = hB := by
  rw [seqSched, sideOf_append, sideOf_tag_same, show false = !true from rfl, sideOf_tag_other, List.nil_append]

theorem runInter_seqSched {O : Type} (hA hB : List (LStep O)) (w : W) :
    (runInter (seqSched hA hB) w).1 = (runHist hB (runHist hA w).1).1 ∧
    sideOf true (runInter (seqSched hA hB) w).2 = (runHist hA w).2 ∧
    sideOf false (runInter (seqSched hA hB) w).2 = (runHist hB (runHist hA w).1).2 := by
  obtain ⟨a, c⟩ := runInter_append (hA.map (fun x => (true, x))) (hB.map (fun x => (false, x))) w
  obtain ⟨a1, c1⟩ := runInter_tag true hA w
  obtain ⟨a2, c2⟩ := runInter_tag false hB (runHist hA w).1
  rw [seqSched, a, c, a1, a2, c1, c2]
  refine ⟨rfl, ?_, ?_⟩
  · rw [sideOf_append, sideOf_tag_same, show true = !false from rfl, sideOf_tag_other, List.append_nil]
  · rw [sideOf_append, sideOf_tag_same, show false = !true from rfl, sideOf_tag_other, List.nil_append]

/-- **Every interleaving of two histories confined to disjoint regions (reading a shared region nobody writes) ends in the
    world reached by running one history after the other; each history gets the outputs of its SOLO run - which are also
    its outputs when it runs after the other one.** -/
theorem inter_seq {O : Type} {A B S : Region} (hAB : A.Disj B) (hAS : A.Disj S) (hBS : B.Disj S)
    (sched : List (Bool × LStep O)) (w : W) (ca : Confined A S (sideOf true sched) w)
    (cb : Confined B S (sideOf false sched) w) :
    (runInter sched w).1 = (runHist (sideOf false sched) (runHist (sideOf true sched) w).1).1 ∧
    sideOf true (runInter sched w).2 = (runHist (sideOf true sched) w).2 ∧
    sideOf false (runInter sched w).2 = (runHist (sideOf false sched) w).2 ∧
    (runHist (sideOf false sched) (runHist (sideOf true sched) w).1).2 = (runHist (sideOf false sched) w).2 := by
  obtain ⟨e1, e2, e3⟩ := inter_eq hAB hAS hBS sched (seqSched (sideOf true sched) (sideOf false sched)) w
    (sideOf_seqSched_true _ _).symm (sideOf_seqSched_false _ _).symm ca cb
  obtain ⟨s1, s2, s3⟩ := runInter_seqSched (sideOf true sched) (sideOf false sched) w
  obtain ⟨_, _, a3, a4, _⟩ := inter_aux hAB hAS hBS sched w w w (AgreeOn.refl _ _ _) (AgreeOn.refl _ _ _) ca cb
  exact ⟨e1.trans s1, a3, a4, by rw [← s3, ← e3, a4]⟩

end C20
