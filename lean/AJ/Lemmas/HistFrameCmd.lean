/- C20: the commands of the history interpreter `DH.step` (AJ/Model/DH.lean) have footprints.
   Every command that goes through a reference `r` writes (at most) the document `r` is bound to; a deep copy also reads
   the source document; a navigation (`mem`, `elem`) reads a document and rebinds a reference; document-level commands
   have a fixed target. For each command: the body of `DH.step` restated with the reference looked up first
   (`… = … := rfl`, so the restatement is the interpreter's own code) and `Local` for it by the rules of
   AJ/Lemmas/HistFrameRules.lean. -/
import AJ.Lemmas.HistFrameRules
namespace C20
open DL
open DH (W Ref unhex)
open JD (Byte)

/-! ## Vocabulary -/

/-- the document a reference is bound to (if any) -/
def docOf (s : Ref) : Nat → Prop := fun j => s.doc = some j

theorem docOf_some (di : Nat) (sl : Option Loc) : docOf ⟨some di, sl⟩ = one di :=
  funext fun j => propext ⟨fun h => (Option.some.inj h).symm, fun h => (by cases h; rfl)⟩
theorem docOf_none (sl : Option Loc) : docOf ⟨none, sl⟩ = none' :=
  funext fun j => propext ⟨fun h => (by cases h), fun h => h.elim⟩

/-- side goals of `Local.weaken`: inclusions between sets given by `one`, `two`, `none'`, disjunctions -/
macro "fp_sub" : tactic =>
  `(tactic| (intro _ h; first
      | exact h | exact False.elim h | exact Or.inl h | exact Or.inr h | exact Or.inl (Or.inl h) | exact Or.inr (Or.inl h)
      | exact Or.inl (Or.inr h) | exact Or.inr (Or.inr h)
      | (simp only [one, two, none'] at h ⊢; grind)))
macro "fp_ok" : tactic => `(tactic| exact ⟨by fp_sub, by fp_sub⟩)

/-- `Local.mono_static` with the inclusions discharged automatically -/
theorem Local.weaken {O : Type} {f : Step O} {D R U B D' R' U' B' : Nat → Prop} (h : Local f (FP.static D R U B))
    (hD : ∀ j, D j → D' j := by fp_sub) (hR : ∀ j, R j → R' j := by fp_sub) (hU : ∀ r, U r → U' r := by fp_sub)
    (hB : ∀ r, B r → B' r := by fp_sub) (ok : SOK D' R' U' B' := by fp_ok) : Local f (FP.static D' R' U' B') :=
  h.mono_static hD hR hU hB ok

/-- footprint of a mutation through reference `r`: writes the document `r` is bound to; `X`: other documents read -/
def fpRef (r : Nat) (X U B : Nat → Prop) : FP :=
  ⟨fun w => docOf (w.refs[r]!), fun w j => docOf (w.refs[r]!) j ∨ X j, U, B⟩
/-- footprint of a read through reference `r` -/
def fpRefRO (r : Nat) (X U B : Nat → Prop) : FP :=
  ⟨fun _ => none', fun w j => docOf (w.refs[r]!) j ∨ X j, U, B⟩

/-- a step that dispatches on reference `r` and, when `r` is bound to document `di`, writes only `di` -/
theorem Local.viaRef {O : Type} (r : Nat) (F : Ref → Step O) (X U B : Nat → Prop) (hr : U r)
    (hb : ∀ di sl, Local (F ⟨some di, sl⟩) (FP.static (one di) (fun j => one di j ∨ X j) U B))
    (hn : ∀ sl, Local (F ⟨none, sl⟩) (FP.static none' (fun j => none' j ∨ X j) U B)) :
    Local (fun w => F (w.refs[r]!) w) (fpRef r X U B) := by
  refine Local.ofRef r F (fun s _ => docOf s) (fun s _ j => docOf s j ∨ X j) U B hr (fun s => ?_)
  obtain ⟨sd, sl⟩ := s
  cases sd with
  | none => rw [docOf_none]; exact hn sl
  | some di => rw [docOf_some]; exact hb di sl

/-- a step that dispatches on reference `r` and only reads the document `r` is bound to -/
theorem Local.viaRefRO {O : Type} (r : Nat) (F : Ref → Step O) (X U B : Nat → Prop) (hr : U r)
    (hb : ∀ di sl, Local (F ⟨some di, sl⟩) (FP.static none' (fun j => one di j ∨ X j) U B))
    (hn : ∀ sl, Local (F ⟨none, sl⟩) (FP.static none' (fun j => none' j ∨ X j) U B)) :
    Local (fun w => F (w.refs[r]!) w) (fpRefRO r X U B) := by
  refine Local.ofRef r F (fun _ _ => none') (fun s _ j => docOf s j ∨ X j) U B hr (fun s => ?_)
  obtain ⟨sd, sl⟩ := s
  cases sd with
  | none => rw [docOf_none]; exact hn sl
  | some di => rw [docOf_some]; exact hb di sl

/-- run a step after overwriting a document -/
theorem Local.after_write {O : Type} {f : Step O} {D R U B : Nat → Prop} (i : Nat) (d : Doc) (hi : D i)
    (hf : Local f (FP.static D R U B)) : Local (fun w => f { w with docs := w.docs.set! i d }) (FP.static D R U B) :=
  Local.bind (f := fun w => ((), { w with docs := w.docs.set! i d })) (g := fun _ => f)
    ((Local.writeDoc i d).mono_static (fun _ h => h ▸ hi) (fun _ h => hf.wr_rd DH.W.init _ (h ▸ hi)) (fun _ h => h.elim)
      (fun _ h => h.elim) ⟨hf.wr_rd DH.W.init, hf.bind_use⟩) (fun _ => hf)

/-- write a document and rebind a reference -/
theorem Local.writeDocRef {O : Type} (i rb : Nat) (o : O) (d : Doc) (x : Ref) :
    Local (fun w => (o, { w with docs := w.docs.set! i d, refs := w.refs.set! rb x }))
      (FP.static (one i) (one i) (one rb) (one rb)) :=
  Local.bind (f := fun w => ((), { w with docs := w.docs.set! i d }))
    (g := fun _ w => (o, { w with refs := w.refs.set! rb x })) (Local.writeDoc i d).weaken
    (fun _ => ((Local.writeRef rb x).map (fun _ => o)).weaken)

/-- rebind a reference, with an output -/
theorem Local.setRef {O : Type} (rb : Nat) (o : O) (x : Ref) :
    Local (fun w => (o, { w with refs := w.refs.set! rb x })) (FP.static none' none' (one rb) (one rb)) :=
  (Local.writeRef rb x).map (fun _ => o)

/-- overwrite a document, with an output -/
theorem Local.putDoc {O : Type} (i : Nat) (o : O) (d : Doc) :
    Local (fun w => (o, { w with docs := w.docs.set! i d })) (FP.static (one i) (one i) none' none') :=
  (Local.writeDoc i d).map (fun _ => o)

/-- continue with a function of a document -/
theorem Local.withDoc {O : Type} (i : Nat) (G : Doc → Step O) {D R U B : Nat → Prop} (hi : R i)
    (ok : SOK D R U B) (h : ∀ d, Local (G d) (FP.static D R U B)) :
    Local (fun w => G (w.docs[i]!) w) (FP.static D R U B) :=
  Local.bind (f := fun w => (w.docs[i]!, w)) (g := G)
    ((Local.readDoc i).mono_static (fun _ h => h.elim) (fun _ h => h ▸ hi) (fun _ h => h.elim) (fun _ h => h.elim) ok) h

/-- a step that is pointwise equal to a local step -/
theorem Local.of_eq {O : Type} {f g : Step O} {p : FP} (h : ∀ w, f w = g w) (hg : Local g p) : Local f p := by
  have : f = g := funext h
  rw [this]; exact hg

/-! ## Document-level commands (fixed target) -/

theorem cleardoc_eq (w : W) (d : String) : DH.step w ["cleardoc", d] = modDoc d.toNat! (fun x => ("", x.clearAll)) w := rfl
theorem shrink_eq (w : W) (d : String) :
    DH.step w ["shrink", d] = modDoc d.toNat! (fun x => ("", { x with pl := PL.shrink x.g x.pl })) w := rfl
theorem nofail_eq (w : W) (d : String) :
    DH.step w ["nofail", d] = modDoc d.toNat! (fun x => ("", { x with pl := { x.pl with failAt := [], failFrom := none } })) w := rfl
theorem failat_eq (w : W) (d k : String) :
    DH.step w ["failat", d, k] =
      modDoc d.toNat! (fun x => ("", { x with pl := { x.pl with failAt := (x.pl.calls + k.toNat!) :: x.pl.failAt } })) w := rfl
theorem failfrom_eq (w : W) (d k : String) :
    DH.step w ["failfrom", d, k] =
      modDoc d.toNat! (fun x => ("", { x with pl := { x.pl with failFrom := some (x.pl.calls + k.toNat!) } })) w := rfl

/-- `hser d`: serialize document `d` in both formats (read-only) -/
theorem hser_eq (w : W) (d : String) :
    DH.step w ["hser", d] = obsDoc d.toNat! (fun doc =>
      let v := doc.toVal doc.root
      let j := JSer.compact {} v; let m := MD.ser v
      s!"{if j.isEmpty then "-" else hexBytes j} {if m.isEmpty then "-" else hexBytes m}") w := rfl

/-- footprint of a document-level command -/
def fpDoc (i : Nat) : FP := FP.static (one i) (one i) none' none'
/-- footprint of a read-only document-level command -/
def fpDocRO (i : Nat) : FP := FP.static none' (one i) none' none'

theorem cleardoc_local (d : String) : Local (fun w => DH.step w ["cleardoc", d]) (fpDoc d.toNat!) :=
  Local.of_eq (fun w => cleardoc_eq w d) (Local.modDoc _ _)
theorem shrink_local (d : String) : Local (fun w => DH.step w ["shrink", d]) (fpDoc d.toNat!) :=
  Local.of_eq (fun w => shrink_eq w d) (Local.modDoc _ _)
theorem nofail_local (d : String) : Local (fun w => DH.step w ["nofail", d]) (fpDoc d.toNat!) :=
  Local.of_eq (fun w => nofail_eq w d) (Local.modDoc _ _)
theorem failat_local (d k : String) : Local (fun w => DH.step w ["failat", d, k]) (fpDoc d.toNat!) :=
  Local.of_eq (fun w => failat_eq w d k) (Local.modDoc _ _)
theorem failfrom_local (d k : String) : Local (fun w => DH.step w ["failfrom", d, k]) (fpDoc d.toNat!) :=
  Local.of_eq (fun w => failfrom_eq w d k) (Local.modDoc _ _)
theorem hser_local (d : String) : Local (fun w => DH.step w ["hser", d]) (fpDocRO d.toNat!) :=
  Local.of_eq (fun w => hser_eq w d) (Local.obsDoc _ _)

/-- `swapdoc d e` exchanges two documents: both are written -/
theorem swapdoc_local (d e : String) :
    Local (fun w => DH.step w ["swapdoc", d, e]) (FP.static (two d.toNat! e.toNat!) (two d.toNat! e.toNat!) none' none') := by
  have ok : SOK (two d.toNat! e.toNat!) (two d.toNat! e.toNat!) none' none' := ⟨fun _ h => h, fun _ h => h⟩
  refine Local.withDoc d.toNat! (fun a w => ("", { w with docs := (w.docs.set! d.toNat! (w.docs[e.toNat!]!)).set! e.toNat! a }))
    (Or.inl rfl) ok (fun a => ?_)
  refine Local.withDoc e.toNat! (fun b w => ("", { w with docs := (w.docs.set! d.toNat! b).set! e.toNat! a }))
    (Or.inr rfl) ok (fun b => ?_)
  exact Local.bind (f := fun w => ((), { w with docs := w.docs.set! d.toNat! b }))
    (g := fun _ w => ("", { w with docs := w.docs.set! e.toNat! a })) (Local.writeDoc _ b).weaken
    (fun _ => (Local.putDoc _ "" a).weaken)

/-- `root r d`: bind reference `r` to the root of document `d` -/
theorem root_local (r d : String) :
    Local (fun w => DH.step w ["root", r, d]) (FP.static none' none' (one r.toNat!) (one r.toNat!)) :=
  Local.setRef _ _ _

/-! ## Mutations through a reference -/

/-- footprint of `clear`, `remi`, `remk`, `deserj`, `deserm`, `set` (scalar) … through reference `r` -/
def fpMut (r : Nat) : FP := fpRef r none' (one r) none'

theorem Local.leafPure {O : Type} (o : O) {D R U B : Nat → Prop} (ok : SOK D R U B) :
    Local (fun w => (o, w)) (FP.static D R U B) :=
  (Local.pure o).mono_static (fun _ h => h.elim) (fun _ h => h.elim) (fun _ h => h.elim) (fun _ h => h.elim) ok

theorem sok_mut (i r : Nat) (X : Nat → Prop) : SOK (one i) (fun j => one i j ∨ X j) (one r) none' :=
  ⟨fun _ h => Or.inl h, fun _ h => h.elim⟩
theorem sok_mut0 (r : Nat) (X : Nat → Prop) : SOK none' (fun j => none' j ∨ X j) (one r) none' :=
  ⟨fun _ h => h.elim, fun _ h => h.elim⟩

theorem clear_local (r : String) : Local (fun w => DH.step w ["clear", r]) (fpMut r.toNat!) := by
  refine Local.viaRef r.toNat! (fun s w => match s.doc, s.loc with
      | some di, some l => ("", { w with docs := w.docs.set! di ((w.docs[di]!).clearV l) })
      | _, _ => ("", w)) none' _ _ rfl (fun di sl => ?_) (fun sl => Local.leafPure _ (sok_mut0 _ _))
  cases sl with
  | none => exact Local.leafPure _ (sok_mut _ _ _)
  | some l => exact (Local.modDoc di (fun d => ("", d.clearV l))).weaken

theorem remi_local (r i : String) : Local (fun w => DH.step w ["remi", r, i]) (fpMut r.toNat!) := by
  refine Local.viaRef r.toNat! (fun s w => match s.doc, s.loc with
      | some di, some l =>
        let d := w.docs[di]!
        match d.get l with
        | .arr h _ =>
          match (d.chain h)[i.toNat!]? with
          | some id => ("", { w with docs := w.docs.set! di (d.removeOne l id) })
          | none => ("", w)
        | _ => ("", w)
      | _, _ => ("", w)) none' _ _ rfl (fun di sl => ?_) (fun sl => Local.leafPure _ (sok_mut0 _ _))
  cases sl with
  | none => exact Local.leafPure _ (sok_mut _ _ _)
  | some l =>
    refine Local.withDoc di (fun d w => match d.get l with
        | .arr h _ =>
          match (d.chain h)[i.toNat!]? with
          | some id => ("", { w with docs := w.docs.set! di (d.removeOne l id) })
          | none => ("", w)
        | _ => ("", w)) (Or.inl rfl) (sok_mut _ _ _) (fun d => ?_)
    generalize d.get l = x
    cases x with
    | arr h t =>
      show Local (fun w => match (d.chain h)[i.toNat!]? with
          | some id => ("", { w with docs := w.docs.set! di (d.removeOne l id) })
          | none => ("", w)) _
      generalize (d.chain h)[i.toNat!]? = y
      cases y with
      | none => exact Local.leafPure _ (sok_mut _ _ _)
      | some id => exact (Local.putDoc di "" _).weaken
    | _ => exact Local.leafPure _ (sok_mut _ _ _)

theorem remk_local (r k : String) : Local (fun w => DH.step w ["remk", r, k]) (fpMut r.toNat!) := by
  refine Local.viaRef r.toNat! (fun s w => match s.doc, s.loc with
      | some di, some l =>
        let d := w.docs[di]!
        match d.findKey l (unhex k) with
        | some (kk, v) => ("", { w with docs := w.docs.set! di (d.removePair l kk v) })
        | none => ("", w)
      | _, _ => ("", w)) none' _ _ rfl (fun di sl => ?_) (fun sl => Local.leafPure _ (sok_mut0 _ _))
  cases sl with
  | none => exact Local.leafPure _ (sok_mut _ _ _)
  | some l =>
    refine Local.withDoc di (fun d w => match d.findKey l (unhex k) with
        | some (kk, v) => ("", { w with docs := w.docs.set! di (d.removePair l kk v) })
        | none => ("", w)) (Or.inl rfl) (sok_mut _ _ _) (fun d => ?_)
    generalize d.findKey l (unhex k) = x
    cases x with
    | none => exact Local.leafPure _ (sok_mut _ _ _)
    | some p => exact (Local.putDoc di "" _).weaken

/-- name of a deserialization code, as the interpreter prints it -/
def codeName (c : JD.Code) : String := match c with
  | .ok => "Ok" | .empty => "EmptyInput" | .incomplete => "IncompleteInput" | .invalid => "InvalidInput"
  | .noMemory => "NoMemory" | .tooDeep => "TooDeep" | .fuel => "FAULT"

/-- `deserializeJson` / `deserializeMsgPack` into location `l` of a document: the code printed and the new document -/
def deserK (json : Bool) (lim hex : String) (l : Loc) (d : Doc) : String × Doc :=
  let (c, d', _) := if json then JDD.runAt {} lim.toNat! d l (unhex hex)
                    else MDD.runAt { maxStrLen := Gen.string_max_length } lim.toNat! d l (unhex hex)
  (codeName c, d')

theorem deserInto_eq (w : W) (json : Bool) (r lim hex : String) :
    DH.deserInto w json r lim hex =
      (match (w.refs[r.toNat!]!).doc, (w.refs[r.toNat!]!).loc with
        | some di, some l => modDoc di (deserK json lim hex l) w
        | _, _ => ("NoMemory", w)) := rfl

theorem deserInto_local (json : Bool) (r lim hex : String) :
    Local (fun w => DH.deserInto w json r lim hex) (fpMut r.toNat!) := by
  refine Local.of_eq (fun w => deserInto_eq w json r lim hex) ?_
  refine Local.viaRef r.toNat! (fun s w => match s.doc, s.loc with
      | some di, some l => modDoc di (deserK json lim hex l) w
      | _, _ => ("NoMemory", w)) none' _ _ rfl (fun di sl => ?_) (fun sl => Local.leafPure _ (sok_mut0 _ _))
  cases sl with
  | none => exact Local.leafPure _ (sok_mut _ _ _)
  | some l => exact (Local.modDoc di _).weaken

theorem deserj_local (r lim hex : String) : Local (fun w => DH.step w ["deserj", r, lim, hex]) (fpMut r.toNat!) :=
  deserInto_local true r lim hex
theorem deserm_local (r lim hex : String) : Local (fun w => DH.step w ["deserm", r, lim, hex]) (fpMut r.toNat!) :=
  deserInto_local false r lim hex

end C20
