/- C20: footprints of the commands of `DH.step`, continued: navigation (`mem`, `elem`: read a document, rebind a
   reference), navigation that creates (`memw`, `elemw`, `addv`, `toarr`, `toobj`: write the document, rebind a
   reference), reads (`rd2`, `obsx`). -/
import AJ.Lemmas.HistFrameCmd
namespace C20
open DL
open DH (W Ref unhex)
open JD (Byte Val)

/-- footprint of a navigation from reference `r2` that binds `r` and may create the place it binds to -/
def fpNavW (r r2 : Nat) : FP := fpRef r2 none' (two r2 r) (one r)
/-- footprint of a read-only navigation from reference `r2` that binds `r` -/
def fpNav (r r2 : Nat) : FP := fpRefRO r2 none' (two r2 r) (one r)

theorem sok_nav (i r2 r : Nat) (X : Nat → Prop) : SOK (one i) (fun j => one i j ∨ X j) (two r2 r) (one r) :=
  ⟨fun _ h => Or.inl h, fun _ h => Or.inr h⟩
theorem sok_nav0 (r2 r : Nat) (X : Nat → Prop) : SOK none' (fun j => none' j ∨ X j) (two r2 r) (one r) :=
  ⟨fun _ h => h.elim, fun _ h => Or.inr h⟩
theorem sok_navro (i r2 r : Nat) (X : Nat → Prop) : SOK none' (fun j => one i j ∨ X j) (two r2 r) (one r) :=
  ⟨fun _ h => h.elim, fun _ h => Or.inr h⟩

theorem mem_local (r r2 k : String) (kk : List String) :
    Local (fun w => DH.step w ("mem" :: r :: r2 :: k :: kk)) (fpNav r.toNat! r2.toNat!) := by
  refine Local.viaRefRO r2.toNat! (fun s w => ("", { w with refs := w.refs.set! r.toNat! (match s.doc, s.loc with
      | some di, some l => ⟨some di, ((w.docs[di]!).findKey l (unhex k)).map (fun p => Loc.slot p.2)⟩
      | di, _ => ⟨di, none⟩) })) none' _ _ (Or.inl rfl) (fun di sl => ?_) (fun sl => (Local.setRef _ _ _).weaken)
  cases sl with
  | none => exact (Local.setRef _ _ _).weaken
  | some l =>
    exact Local.withDoc di (fun d w => ("", { w with
      refs := w.refs.set! r.toNat! ⟨some di, (d.findKey l (unhex k)).map (fun p => Loc.slot p.2)⟩ })) (Or.inl rfl) (sok_navro _ _ _ _)
      (fun d => (Local.setRef _ _ _).weaken)

theorem elem_local (r r2 i : String) :
    Local (fun w => DH.step w ["elem", r, r2, i]) (fpNav r.toNat! r2.toNat!) := by
  refine Local.viaRefRO r2.toNat! (fun s w => ("", { w with refs := w.refs.set! r.toNat! (match s.doc, s.loc with
      | some di, some l =>
        let d := w.docs[di]!
        match d.get l with
        | .arr h _ => ⟨some di, ((d.chain h)[i.toNat!]?).map Loc.slot⟩
        | _ => ⟨some di, none⟩
      | di, _ => ⟨di, none⟩) })) none' _ _ (Or.inl rfl) (fun di sl => ?_) (fun sl => (Local.setRef _ _ _).weaken)
  cases sl with
  | none => exact (Local.setRef _ _ _).weaken
  | some l =>
    exact Local.withDoc di (fun d w => ("", { w with refs := w.refs.set! r.toNat! (match d.get l with
        | .arr h _ => ⟨some di, ((d.chain h)[i.toNat!]?).map Loc.slot⟩
        | _ => ⟨some di, none⟩) })) (Or.inl rfl) (sok_navro _ _ _ _) (fun d => (Local.setRef _ _ _).weaken)

theorem memw_local (r r2 k : String) (kk : List String) :
    Local (fun w => DH.step w ("memw" :: r :: r2 :: k :: kk)) (fpNavW r.toNat! r2.toNat!) := by
  refine Local.viaRef r2.toNat! (fun s w => match s.doc, s.loc with
      | some di, some l =>
        let (m, d) := (w.docs[di]!).getOrAddMember l (unhex k) (kk == ["sjl"])
        match m with
        | some id => ("", { w with docs := w.docs.set! di (d.clearV (.slot id)), refs := w.refs.set! r.toNat! ⟨some di, some (.slot id)⟩ })
        | none => ("", { w with docs := w.docs.set! di d, refs := w.refs.set! r.toNat! ⟨some di, none⟩ })
      | di, _ => ("", { w with refs := w.refs.set! r.toNat! ⟨di, none⟩ })) none' _ _ (Or.inl rfl) (fun di sl => ?_)
      (fun sl => (Local.setRef _ _ _).weaken)
  cases sl with
  | none => exact (Local.setRef _ _ _).weaken
  | some l =>
    refine Local.withDoc di (fun d0 w => match d0.getOrAddMember l (unhex k) (kk == ["sjl"]) with
      | (m, d) => match m with
        | some id => ("", { w with docs := w.docs.set! di (d.clearV (.slot id)), refs := w.refs.set! r.toNat! ⟨some di, some (.slot id)⟩ })
        | none => ("", { w with docs := w.docs.set! di d, refs := w.refs.set! r.toNat! ⟨some di, none⟩ }))
      (Or.inl rfl) (sok_nav _ _ _ _) (fun d0 => ?_)
    generalize d0.getOrAddMember l (unhex k) (kk == ["sjl"]) = x
    obtain ⟨m, d⟩ := x
    cases m with
    | none => exact (Local.writeDocRef _ _ _ _ _).weaken
    | some id => exact (Local.writeDocRef _ _ _ _ _).weaken

theorem elemw_local (r r2 i : String) :
    Local (fun w => DH.step w ["elemw", r, r2, i]) (fpNavW r.toNat! r2.toNat!) := by
  refine Local.viaRef r2.toNat! (fun s w => match s.doc, s.loc with
      | some di, some l =>
        let (m, d) := (w.docs[di]!).getOrAddElement l i.toNat!
        match m with
        | some id => ("", { w with docs := w.docs.set! di (d.clearV (.slot id)), refs := w.refs.set! r.toNat! ⟨some di, some (.slot id)⟩ })
        | none => ("", { w with docs := w.docs.set! di d, refs := w.refs.set! r.toNat! ⟨some di, none⟩ })
      | di, _ => ("", { w with refs := w.refs.set! r.toNat! ⟨di, none⟩ })) none' _ _ (Or.inl rfl) (fun di sl => ?_)
      (fun sl => (Local.setRef _ _ _).weaken)
  cases sl with
  | none => exact (Local.setRef _ _ _).weaken
  | some l =>
    refine Local.withDoc di (fun d0 w => match d0.getOrAddElement l i.toNat! with
      | (m, d) => match m with
        | some id => ("", { w with docs := w.docs.set! di (d.clearV (.slot id)), refs := w.refs.set! r.toNat! ⟨some di, some (.slot id)⟩ })
        | none => ("", { w with docs := w.docs.set! di d, refs := w.refs.set! r.toNat! ⟨some di, none⟩ }))
      (Or.inl rfl) (sok_nav _ _ _ _) (fun d0 => ?_)
    generalize d0.getOrAddElement l i.toNat! = x
    obtain ⟨m, d⟩ := x
    cases m with
    | none => exact (Local.writeDocRef _ _ _ _ _).weaken
    | some id => exact (Local.writeDocRef _ _ _ _ _).weaken

/-- `add` on a null location first turns it into an empty array -/
def toArrayIfNull (l : Loc) (d : Doc) : Doc := match d.get l with | .null => d.set l (.arr d.null d.null) | _ => d

theorem addv_local (r r2 : String) :
    Local (fun w => DH.step w ["addv", r, r2]) (fpNavW r.toNat! r2.toNat!) := by
  refine Local.viaRef r2.toNat! (fun s w => match s.doc, s.loc with
      | some di, some l =>
        let d := toArrayIfNull l (w.docs[di]!)
        match d.get l with
        | .arr _ _ =>
          let (m, d) := d.addElement l
          ("", { w with docs := w.docs.set! di d, refs := w.refs.set! r.toNat! ⟨some di, m.map Loc.slot⟩ })
        | _ => ("", { w with docs := w.docs.set! di d, refs := w.refs.set! r.toNat! ⟨some di, none⟩ })
      | di, _ => ("", { w with refs := w.refs.set! r.toNat! ⟨di, none⟩ })) none' _ _ (Or.inl rfl) (fun di sl => ?_)
      (fun sl => (Local.setRef _ _ _).weaken)
  cases sl with
  | none => exact (Local.setRef _ _ _).weaken
  | some l =>
    refine Local.withDoc di (fun d0 w => match (toArrayIfNull l d0).get l with
        | .arr _ _ =>
          ("", { w with docs := w.docs.set! di ((toArrayIfNull l d0).addElement l).2,
                        refs := w.refs.set! r.toNat! ⟨some di, ((toArrayIfNull l d0).addElement l).1.map Loc.slot⟩ })
        | _ => ("", { w with docs := w.docs.set! di (toArrayIfNull l d0), refs := w.refs.set! r.toNat! ⟨some di, none⟩ }))
      (Or.inl rfl) (sok_nav _ _ _ _) (fun d0 => ?_)
    generalize toArrayIfNull l d0 = d
    generalize hx : d.get l = x
    cases x <;> exact (Local.writeDocRef _ _ _ _ _).weaken

theorem toarr_local (r r2 : String) :
    Local (fun w => DH.step w ["toarr", r, r2]) (fpNavW r.toNat! r2.toNat!) := by
  refine Local.viaRef r2.toNat! (fun s w => match s.doc, s.loc with
      | some di, some l =>
        let d := (w.docs[di]!).clearV l
        let d := d.set l (.arr d.null d.null)
        ("", { w with docs := w.docs.set! di d, refs := w.refs.set! r.toNat! ⟨some di, some l⟩ })
      | di, _ => ("", { w with refs := w.refs.set! r.toNat! ⟨di, none⟩ })) none' _ _ (Or.inl rfl) (fun di sl => ?_)
      (fun sl => (Local.setRef _ _ _).weaken)
  cases sl with
  | none => exact (Local.setRef _ _ _).weaken
  | some l =>
    exact Local.withDoc di (fun d0 w => ("", { w with docs := w.docs.set! di ((d0.clearV l).set l (.arr (d0.clearV l).null (d0.clearV l).null)), refs := w.refs.set! r.toNat! ⟨some di, some l⟩ })) (Or.inl rfl) (sok_nav _ _ _ _)
      (fun d0 => (Local.writeDocRef _ _ _ _ _).weaken)

theorem toobj_local (r r2 : String) :
    Local (fun w => DH.step w ["toobj", r, r2]) (fpNavW r.toNat! r2.toNat!) := by
  refine Local.viaRef r2.toNat! (fun s w => match s.doc, s.loc with
      | some di, some l =>
        let d := (w.docs[di]!).clearV l
        let d := d.set l (.obj d.null d.null)
        ("", { w with docs := w.docs.set! di d, refs := w.refs.set! r.toNat! ⟨some di, some l⟩ })
      | di, _ => ("", { w with refs := w.refs.set! r.toNat! ⟨di, none⟩ })) none' _ _ (Or.inl rfl) (fun di sl => ?_)
      (fun sl => (Local.setRef _ _ _).weaken)
  cases sl with
  | none => exact (Local.setRef _ _ _).weaken
  | some l =>
    exact Local.withDoc di (fun d0 w => ("", { w with docs := w.docs.set! di ((d0.clearV l).set l (.obj (d0.clearV l).null (d0.clearV l).null)), refs := w.refs.set! r.toNat! ⟨some di, some l⟩ })) (Or.inl rfl) (sok_nav _ _ _ _)
      (fun d0 => (Local.writeDocRef _ _ _ _ _).weaken)

/-! ## Reads -/

/-- footprint of a read through reference `r` -/
def fpRead (r : Nat) : FP := fpRefRO r none' (one r) none'

theorem sok_ro (i r : Nat) (X : Nat → Prop) : SOK none' (fun j => one i j ∨ X j) (one r) none' :=
  ⟨fun _ h => h.elim, fun _ h => h.elim⟩

/-- one subscript of `rd2`: member `m <hexkey>` or element `e <index>` -/
def rdSub (d : Doc) (l : Loc) (t a : String) : Option Loc :=
  if t == "m" then (d.findKey l (unhex a)).map (fun p => Loc.slot p.2)
  else match d.get l with
    | .arr h _ => ((d.chain h)[a.toNat!]?).map Loc.slot
    | _ => none

theorem rd2_local (r t1 a1 t2 a2 : String) :
    Local (fun w => DH.step w ["rd2", r, t1, a1, t2, a2]) (fpRead r.toNat!) := by
  refine Local.viaRefRO r.toNat! (fun s w => match s.doc, s.loc with
      | some di, some l =>
        let d := w.docs[di]!
        match (rdSub d l t1 a1).bind (fun l1 => rdSub d l1 t2 a2) with
        | some l2 => (d.show (d.get l2), w)
        | none => ("?", w)
      | _, _ => ("?", w)) none' _ _ rfl (fun di sl => ?_) (fun sl => Local.leafPure _ (sok_mut0 _ _))
  cases sl with
  | none => exact Local.leafPure _ (sok_ro _ _ _)
  | some l =>
    refine Local.withDoc di (fun d w => match (rdSub d l t1 a1).bind (fun l1 => rdSub d l1 t2 a2) with
        | some l2 => (d.show (d.get l2), w)
        | none => ("?", w)) (Or.inl rfl) (sok_ro _ _ _) (fun d => ?_)
    generalize (rdSub d l t1 a1).bind (fun l1 => rdSub d l1 t2 a2) = x
    cases x <;> exact Local.leafPure _ (sok_ro _ _ _)

end C20
