/- C20: footprints of the commands of `DH.step`, continued: `set`, `setm`, `sete`, `add` - stores through a reference, of a
   scalar / string (`W.setAt` with a scalar kind), of a deep copy of another DOCUMENT (`kind = "doc"`: reads that document)
   or of a deep copy of the value ANOTHER REFERENCE designates (`kind = "ref"`: reads the document that reference is bound
   to). The four commands are restated over an abstract setter `T` (`setB`, `setmB`, `seteB`, `addB`; the restatements are
   the interpreter's code: `… := rfl`) and shown local once, for every setter that is. -/
import AJ.Lemmas.HistFrameCmd2
namespace C20
open DL
open DH (W Ref unhex)
open JD (Byte Val)

/-! ## The setter `W.setAt` -/

/-- scalar / string store: clear the location, then `setArg` -/
theorem setAt_scalar_local (di : Nat) (l : Loc) (kind arg : String) (hk : (kind == "ref" || kind == "doc") = false) :
    Local (fun w => w.setAt di l kind arg) (FP.static (one di) (one di) none' none') := by
  have e : ∀ w : W, w.setAt di l kind arg = (match DH.parseArg kind arg with
      | none => (false, w)
      | some a => (((w.docs[di]!).clearV l).setArg l a |>.1,
          { w with docs := w.docs.set! di (((w.docs[di]!).clearV l).setArg l a |>.2) })) := by
    intro w
    simp only [DH.W.setAt, hk, Bool.false_eq_true, ↓reduceIte]
    cases DH.parseArg kind arg <;> rfl
  refine Local.of_eq e ?_
  generalize DH.parseArg kind arg = x
  cases x with
  | none => exact Local.leafPure _ (sok_one _)
  | some a => exact Local.modDoc di (fun d => (d.clearV l).setArg l a)

/-- deep copy of the root of document `k` -/
theorem setAt_doc_local (di : Nat) (l : Loc) (k : String) :
    Local (fun w => w.setAt di l "doc" k) (FP.static (one di) (two di k.toNat!) none' none') :=
  Local.modDocFrom di k.toNat! (fun d s => (!(copyInto d l s s.root).overflowed, copyInto d l s s.root))

/-- `W.setAt … "ref" r2` with the source reference already looked up -/
def setAtS (s2 : Ref) (di : Nat) (l : Loc) : Step Bool := fun w =>
  let d := w.docs[di]!
  let (sdoc, sval) : Option Doc × VData :=
    match s2.doc, s2.loc with
    | some sd, some sl => let s := w.docs[sd]!; (some s, s.get sl)
    | _, _ => (none, .null)
  let d' := match sdoc with
    | some s => copyInto d l s sval
    | none => d.clearV l
  (!d'.overflowed, { w with docs := w.docs.set! di d' })

theorem setAt_ref_eq (w : W) (di : Nat) (l : Loc) (r2 : String) :
    w.setAt di l "ref" r2 = setAtS (w.refs[r2.toNat!]!) di l w := rfl

theorem setAtS_local (s2 : Ref) (di : Nat) (l : Loc) (U : Nat → Prop) :
    Local (setAtS s2 di l) (FP.static (one di) (fun j => one di j ∨ docOf s2 j) U none') := by
  obtain ⟨sd, sl⟩ := s2
  have ok : SOK (one di) (fun j => one di j ∨ docOf ⟨sd, sl⟩ j) U none' := ⟨fun _ h => Or.inl h, fun _ h => h.elim⟩
  cases sd with
  | none =>
    exact (Local.modDoc di (fun d => (!(d.clearV l).overflowed, d.clearV l))).mono_static (fun _ h => h)
      (fun _ h => Or.inl h) (fun _ h => h.elim) (fun _ h => h) ok
  | some k =>
    cases sl with
    | none =>
      exact (Local.modDoc di (fun d => (!(d.clearV l).overflowed, d.clearV l))).mono_static (fun _ h => h)
        (fun _ h => Or.inl h) (fun _ h => h.elim) (fun _ h => h) ok
    | some ls =>
      refine (Local.modDocFrom di k (fun d s => (!(copyInto d l s (s.get ls)).overflowed, copyInto d l s (s.get ls)))).mono_static
        (fun _ h => h) (fun j h => ?_) (fun _ h => h.elim) (fun _ h => h) ok
      rcases h with h | h
      · exact Or.inl h
      · exact Or.inr (by rw [docOf_some]; exact h)

/-! ## `set`, `setm`, `sete`, `add` over an abstract setter -/

def okStr (b : Bool) : String := if b then "1" else "0"

/-- `set r kind arg` -/
def setB (T : Nat → Loc → Step Bool) (kind : String) (s : Ref) (w : W) : String × W :=
  match s.doc, s.loc with
  | some di, some l => let (ok, w) := T di l w; (okStr ok, w)
  | _, _ => (okStr (w.unboundResult s kind), w)

/-- `setm r key kind arg`: `variant[key] = …` -/
def setmB (T : Nat → Loc → Step Bool) (kind key : String) (kk : List String) (s : Ref) (w : W) : String × W :=
  match s.doc, s.loc with
  | some di, some l =>
    let (m, d) := (w.docs[di]!).getOrAddMember l (unhex key) (kk == ["sjl"])
    let w := { w with docs := w.docs.set! di d }
    match m with
    | some id => let (ok, w) := T di (.slot id) w; (okStr ok, w)
    | none => (okStr (w.unboundResult s kind), w)
  | _, _ => (okStr (w.unboundResult s kind), w)

/-- `sete r i kind arg`: `variant[i] = …` -/
def seteB (T : Nat → Loc → Step Bool) (kind i : String) (s : Ref) (w : W) : String × W :=
  match s.doc, s.loc with
  | some di, some l =>
    let (m, d) := (w.docs[di]!).getOrAddElement l i.toNat!
    let w := { w with docs := w.docs.set! di d }
    match m with
    | some id => let (ok, w) := T di (.slot id) w; (okStr ok, w)
    | none => (okStr (w.unboundResult s kind), w)
  | _, _ => (okStr (w.unboundResult s kind), w)

/-- end of `add`: link the new element in, or give its slot back -/
def addFin (di : Nat) (l : Loc) (id : Nat) (ok : Bool) : Step String := fun w =>
  let d := w.docs[di]!
  if ok then ("1", { w with docs := w.docs.set! di (d.appendOne l id) })
  else ("0", { w with docs := w.docs.set! di (d.freeVariant id) })

/-- `add r kind arg`: `array.add(…)` -/
def addB (T : Nat → Loc → Step Bool) (s : Ref) (w : W) : String × W :=
  match s.doc, s.loc with
  | some di, some l =>
    let d := toArrayIfNull l (w.docs[di]!)
    match d.get l with
    | .arr _ _ =>
      match d.allocVariant with
      | (none, d) => ("0", { w with docs := w.docs.set! di d })
      | (some id, d) =>
        let (ok, w) := T di (.slot id) { w with docs := w.docs.set! di d }
        addFin di l id ok w
    | _ => ("0", { w with docs := w.docs.set! di d })
  | _, _ => ("0", w)

theorem set_eq (w : W) (r kind arg : String) :
    DH.step w ["set", r, kind, arg] = setB (fun di l w => w.setAt di l kind arg) kind (w.refs[r.toNat!]!) w := rfl
theorem setm_eq (w : W) (r key kind arg : String) (kk : List String) :
    DH.step w ("setm" :: r :: key :: kind :: arg :: kk) =
      setmB (fun di l w => w.setAt di l kind arg) kind key kk (w.refs[r.toNat!]!) w := rfl
theorem sete_eq (w : W) (r i kind arg : String) :
    DH.step w ["sete", r, i, kind, arg] = seteB (fun di l w => w.setAt di l kind arg) kind i (w.refs[r.toNat!]!) w := rfl
theorem add_eq (w : W) (r kind arg : String) :
    DH.step w ["add", r, kind, arg] = addB (fun di l w => w.setAt di l kind arg) (w.refs[r.toNat!]!) w := rfl

/-! ## Locality, for every local setter -/

theorem sok_gen (i : Nat) (X U : Nat → Prop) : SOK (one i) (fun j => one i j ∨ X j) U none' :=
  ⟨fun _ h => Or.inl h, fun _ h => h.elim⟩
theorem sok_gen0 (X U : Nat → Prop) : SOK none' (fun j => none' j ∨ X j) U none' :=
  ⟨fun _ h => h.elim, fun _ h => h.elim⟩

/-- the answer of a store through an unbound reference that remembers its document: reads the overflow flag -/
theorem unbound_local (di : Nat) (sl : Option Loc) (kind : String) (X U : Nat → Prop) :
    Local (fun w => (okStr (w.unboundResult ⟨some di, sl⟩ kind), w)) (FP.static (one di) (fun j => one di j ∨ X j) U none') :=
  (Local.obsDoc di (fun d => okStr (DH.isVoidKind kind && !d.overflowed))).mono_static (fun _ h => h.elim)
    (fun _ h => Or.inl h) (fun _ h => h.elim) (fun _ h => h) (sok_gen _ _ _)

theorem setB_local (T : Nat → Loc → Step Bool) (kind : String) (r : Nat) (X U : Nat → Prop) (hr : U r)
    (hT : ∀ di l, Local (T di l) (FP.static (one di) (fun j => one di j ∨ X j) U none')) :
    Local (fun w => setB T kind (w.refs[r]!) w) (fpRef r X U none') := by
  refine Local.viaRef r (setB T kind) X U none' hr (fun di sl => ?_) (fun sl => Local.leafPure _ (sok_gen0 _ _))
  cases sl with
  | none => exact unbound_local di none kind X U
  | some l => exact (hT di l).map okStr

theorem setmB_local (T : Nat → Loc → Step Bool) (kind key : String) (kk : List String) (r : Nat) (X U : Nat → Prop)
    (hr : U r) (hT : ∀ di l, Local (T di l) (FP.static (one di) (fun j => one di j ∨ X j) U none')) :
    Local (fun w => setmB T kind key kk (w.refs[r]!) w) (fpRef r X U none') := by
  refine Local.viaRef r (setmB T kind key kk) X U none' hr (fun di sl => ?_) (fun sl => Local.leafPure _ (sok_gen0 _ _))
  cases sl with
  | none => exact unbound_local di none kind X U
  | some l =>
    refine Local.withDoc di (fun d0 w => match d0.getOrAddMember l (unhex key) (kk == ["sjl"]) with
      | (m, d) => match m with
        | some id => (okStr (T di (.slot id) { w with docs := w.docs.set! di d }).1, (T di (.slot id) { w with docs := w.docs.set! di d }).2)
        | none => (okStr (({ w with docs := w.docs.set! di d } : W).unboundResult ⟨some di, some l⟩ kind), { w with docs := w.docs.set! di d }))
      (Or.inl rfl) (sok_gen _ _ _) (fun d0 => ?_)
    generalize d0.getOrAddMember l (unhex key) (kk == ["sjl"]) = x
    obtain ⟨m, d⟩ := x
    cases m with
    | none => exact Local.after_write (D := one di) di d rfl (unbound_local di (some l) kind X U)
    | some id => exact Local.after_write (D := one di) di d rfl ((hT di (.slot id)).map okStr)

theorem seteB_local (T : Nat → Loc → Step Bool) (kind i : String) (r : Nat) (X U : Nat → Prop)
    (hr : U r) (hT : ∀ di l, Local (T di l) (FP.static (one di) (fun j => one di j ∨ X j) U none')) :
    Local (fun w => seteB T kind i (w.refs[r]!) w) (fpRef r X U none') := by
  refine Local.viaRef r (seteB T kind i) X U none' hr (fun di sl => ?_) (fun sl => Local.leafPure _ (sok_gen0 _ _))
  cases sl with
  | none => exact unbound_local di none kind X U
  | some l =>
    refine Local.withDoc di (fun d0 w => match d0.getOrAddElement l i.toNat! with
      | (m, d) => match m with
        | some id => (okStr (T di (.slot id) { w with docs := w.docs.set! di d }).1, (T di (.slot id) { w with docs := w.docs.set! di d }).2)
        | none => (okStr (({ w with docs := w.docs.set! di d } : W).unboundResult ⟨some di, some l⟩ kind), { w with docs := w.docs.set! di d }))
      (Or.inl rfl) (sok_gen _ _ _) (fun d0 => ?_)
    generalize d0.getOrAddElement l i.toNat! = x
    obtain ⟨m, d⟩ := x
    cases m with
    | none => exact Local.after_write (D := one di) di d rfl (unbound_local di (some l) kind X U)
    | some id => exact Local.after_write (D := one di) di d rfl ((hT di (.slot id)).map okStr)

theorem addFin_local (di : Nat) (l : Loc) (id : Nat) (ok : Bool) :
    Local (addFin di l id ok) (FP.static (one di) (one di) none' none') := by
  cases ok with
  | true => exact Local.modDoc di (fun d => ("1", d.appendOne l id))
  | false => exact Local.modDoc di (fun d => ("0", d.freeVariant id))

theorem addB_local (T : Nat → Loc → Step Bool) (r : Nat) (X U : Nat → Prop) (hr : U r)
    (hT : ∀ di l, Local (T di l) (FP.static (one di) (fun j => one di j ∨ X j) U none')) :
    Local (fun w => addB T (w.refs[r]!) w) (fpRef r X U none') := by
  refine Local.viaRef r (addB T) X U none' hr (fun di sl => ?_) (fun sl => Local.leafPure _ (sok_gen0 _ _))
  cases sl with
  | none => exact Local.leafPure _ (sok_gen _ _ _)
  | some l =>
    refine Local.withDoc di (fun d0 w => match (toArrayIfNull l d0).get l with
      | .arr _ _ =>
        match (toArrayIfNull l d0).allocVariant with
        | (none, d) => ("0", { w with docs := w.docs.set! di d })
        | (some id, d) =>
          addFin di l id (T di (.slot id) { w with docs := w.docs.set! di d }).1 (T di (.slot id) { w with docs := w.docs.set! di d }).2
      | _ => ("0", { w with docs := w.docs.set! di (toArrayIfNull l d0) }))
      (Or.inl rfl) (sok_gen _ _ _) (fun d0 => ?_)
    generalize toArrayIfNull l d0 = d
    generalize hx : d.get l = x
    have hput : ∀ (o : String) (d' : Doc), Local (fun w : W => (o, { w with docs := w.docs.set! di d' }))
        (FP.static (one di) (fun j => one di j ∨ X j) U none') := fun o d' =>
      (Local.putDoc di o d').mono_static (fun _ h => h) (fun _ h => Or.inl h) (fun _ h => h.elim) (fun _ h => h) (sok_gen _ _ _)
    cases x with
    | arr h t =>
      show Local (fun w => match d.allocVariant with
        | (none, d) => ("0", { w with docs := w.docs.set! di d })
        | (some id, d) =>
          addFin di l id (T di (.slot id) { w with docs := w.docs.set! di d }).1 (T di (.slot id) { w with docs := w.docs.set! di d }).2) _
      generalize d.allocVariant = y
      obtain ⟨m, d1⟩ := y
      cases m with
      | none => exact hput _ _
      | some id =>
        exact Local.after_write (D := one di) di d1 rfl (Local.bind (hT di (.slot id)) (fun ok =>
          (addFin_local di l id ok).mono_static (fun _ h => h) (fun _ h => Or.inl h) (fun _ h => h.elim) (fun _ h => h) (sok_gen _ _ _)))
    | _ => exact hput _ _

/-! ## The twelve commands -/

/-- footprint of a deep copy of the root of document `k` to the place reference `r` designates -/
def fpCopyDoc (r k : Nat) : FP := fpRef r (one k) (one r) none'
/-- footprint of a deep copy of the value reference `r2` designates to the place reference `r` designates: reads the
    document `r2` is bound to, writes the document `r` is bound to -/
def fpCopyRef (r r2 : Nat) : FP :=
  ⟨fun w => docOf (w.refs[r]!), fun w j => docOf (w.refs[r]!) j ∨ docOf (w.refs[r2]!) j, two r r2, none'⟩

theorem setAt_scalar_T (r : Nat) (kind arg : String) (hk : (kind == "ref" || kind == "doc") = false) (di : Nat) (l : Loc) :
    Local (fun w : W => w.setAt di l kind arg) (FP.static (one di) (fun j => one di j ∨ none' j) (one r) none') :=
  (setAt_scalar_local di l kind arg hk).mono_static (fun _ h => h) (fun _ h => Or.inl h) (fun _ h => h.elim) (fun _ h => h)
    (sok_gen _ _ _)
theorem setAt_doc_T (r : Nat) (k : String) (di : Nat) (l : Loc) :
    Local (fun w : W => w.setAt di l "doc" k) (FP.static (one di) (fun j => one di j ∨ one k.toNat! j) (one r) none') :=
  (setAt_doc_local di l k).mono_static (fun _ h => h) (fun _ h => h) (fun _ h => h.elim) (fun _ h => h) (sok_gen _ _ _)

/-- a command over a setter, instantiated with the setter that copies from reference `r2` -/
theorem copyRef_local (Bd : (Nat → Loc → Step Bool) → Ref → W → String × W) (r r2 : Nat)
    (hB : ∀ (T : Nat → Loc → Step Bool) (X U : Nat → Prop), U r →
      (∀ di l, Local (T di l) (FP.static (one di) (fun j => one di j ∨ X j) U none')) →
      Local (fun w => Bd T (w.refs[r]!) w) (fpRef r X U none')) :
    Local (fun w => Bd (setAtS (w.refs[r2]!)) (w.refs[r]!) w) (fpCopyRef r r2) :=
  Local.ofRef r2 (fun s2 w => Bd (setAtS s2) (w.refs[r]!) w) (fun _ w => docOf (w.refs[r]!))
    (fun s2 w j => docOf (w.refs[r]!) j ∨ docOf s2 j) (two r r2) none' (Or.inr rfl)
    (fun s2 => hB (setAtS s2) (docOf s2) (two r r2) (Or.inl rfl) (fun di l => setAtS_local s2 di l _))

-- `set`
theorem set_local (r kind arg : String) (hk : (kind == "ref" || kind == "doc") = false) :
    Local (fun w => DH.step w ["set", r, kind, arg]) (fpMut r.toNat!) :=
  setB_local _ kind r.toNat! none' (one r.toNat!) rfl (setAt_scalar_T _ kind arg hk)
theorem setDoc_local (r k : String) : Local (fun w => DH.step w ["set", r, "doc", k]) (fpCopyDoc r.toNat! k.toNat!) :=
  setB_local _ "doc" r.toNat! (one k.toNat!) (one r.toNat!) rfl (setAt_doc_T _ k)
theorem setRef_local (r r2 : String) : Local (fun w => DH.step w ["set", r, "ref", r2]) (fpCopyRef r.toNat! r2.toNat!) :=
  copyRef_local (fun T => setB T "ref") r.toNat! r2.toNat! (fun T X U hr hT => setB_local T "ref" _ X U hr hT)

-- `setm`
theorem setm_local (r key kind arg : String) (kk : List String) (hk : (kind == "ref" || kind == "doc") = false) :
    Local (fun w => DH.step w ("setm" :: r :: key :: kind :: arg :: kk)) (fpMut r.toNat!) :=
  setmB_local _ kind key kk r.toNat! none' (one r.toNat!) rfl (setAt_scalar_T _ kind arg hk)
theorem setmDoc_local (r key k : String) (kk : List String) :
    Local (fun w => DH.step w ("setm" :: r :: key :: "doc" :: k :: kk)) (fpCopyDoc r.toNat! k.toNat!) :=
  setmB_local _ "doc" key kk r.toNat! (one k.toNat!) (one r.toNat!) rfl (setAt_doc_T _ k)
theorem setmRef_local (r key r2 : String) (kk : List String) :
    Local (fun w => DH.step w ("setm" :: r :: key :: "ref" :: r2 :: kk)) (fpCopyRef r.toNat! r2.toNat!) :=
  copyRef_local (fun T => setmB T "ref" key kk) r.toNat! r2.toNat! (fun T X U hr hT => setmB_local T "ref" key kk _ X U hr hT)

-- `sete`
theorem sete_local (r i kind arg : String) (hk : (kind == "ref" || kind == "doc") = false) :
    Local (fun w => DH.step w ["sete", r, i, kind, arg]) (fpMut r.toNat!) :=
  seteB_local _ kind i r.toNat! none' (one r.toNat!) rfl (setAt_scalar_T _ kind arg hk)
theorem seteDoc_local (r i k : String) :
    Local (fun w => DH.step w ["sete", r, i, "doc", k]) (fpCopyDoc r.toNat! k.toNat!) :=
  seteB_local _ "doc" i r.toNat! (one k.toNat!) (one r.toNat!) rfl (setAt_doc_T _ k)
theorem seteRef_local (r i r2 : String) :
    Local (fun w => DH.step w ["sete", r, i, "ref", r2]) (fpCopyRef r.toNat! r2.toNat!) :=
  copyRef_local (fun T => seteB T "ref" i) r.toNat! r2.toNat! (fun T X U hr hT => seteB_local T "ref" i _ X U hr hT)

-- `add`
theorem add_local (r kind arg : String) (hk : (kind == "ref" || kind == "doc") = false) :
    Local (fun w => DH.step w ["add", r, kind, arg]) (fpMut r.toNat!) :=
  addB_local _ r.toNat! none' (one r.toNat!) rfl (setAt_scalar_T _ kind arg hk)
theorem addDoc_local (r k : String) : Local (fun w => DH.step w ["add", r, "doc", k]) (fpCopyDoc r.toNat! k.toNat!) :=
  addB_local _ r.toNat! (one k.toNat!) (one r.toNat!) rfl (setAt_doc_T _ k)
theorem addRef_local (r r2 : String) : Local (fun w => DH.step w ["add", r, "ref", r2]) (fpCopyRef r.toNat! r2.toNat!) :=
  copyRef_local addB r.toNat! r2.toNat! (fun T X U hr hT => addB_local T _ X U hr hT)

end C20
