/- C20: footprints of the commands of `DH.step`, end: the observers `obsx`, `obs`, `ledger`; the typed command `Cmd` with
   its text (`Cmd.render`), its footprint (`Cmd.fp`) and `Cmd.local`: the interpreter's step on the text of a command has
   that footprint. Not covered, because they are global by construction (see AJ/Props/C20Hist.lean): `copydoc` (moves the
   allocator logs of ALL documents into the world log), `liveq` (writes the ghost table `dead`), `reset`, `geo`. -/
import AJ.Lemmas.HistFrameCmd3
namespace C20
open DL
open DH (W Ref unhex)
open JD (Byte Val)

/-! ## Observers -/

/-- what `obsx` prints about a value: its conversions and type tests -/
def obsxOut (v : Val) : String :=
  let gi (t : Conv.IT) : String := match Conv.asInt {} v t with | some z => toString z | none => "UB"
  let f := match Conv.asFloatBits {} v SF.b32 with | some b => hexNat b 8 | none => "UB"
  let dd := match Conv.asFloatBits {} v SF.b64 with | some b => hexNat b 16 | none => "UB"
  let asBool : Bool := match v with
    | .null => false | .bool b => b
    | .num (.uint n) => n != 0 | .num (.sint z) => z != 0
    | .num (.f32 b) => b % 2^31 != 0 | .num (.f64 b) => b % 2^63 != 0
    | _ => true
  let b (x : Bool) := if x then "1" else "0"
  let isStr := match v with | .str _ => true | _ => false
  let isb := b (Conv.isIntV v Conv.i64) ++ b (Conv.isFloatV v) ++ b (match v with | .bool _ => true | _ => false) ++ b isStr ++ b isStr ++
             b (match v with | .arr _ => true | _ => false) ++ b (match v with | .obj _ => true | _ => false) ++ b (match v with | .null => true | _ => false)
  let str := match v with | .str x => "S" ++ hexBytes x | _ => "null"
  s!"i64={gi Conv.i64} u64={gi Conv.u64} i8={gi Conv.i8} f={f} d={dd} b={b asBool} is={isb} str={str}"

theorem obsx_eq (w : W) (r : String) : DH.step w ["obsx", r] =
    (obsxOut (match (w.refs[r.toNat!]!).doc, (w.refs[r.toNat!]!).loc with
      | some di, some l => ((w.docs[di]!).toVal ((w.docs[di]!).get l), true)
      | _, _ => (Val.null, false)).1, w) := rfl

/-- any function of the value a reference designates -/
theorem obsVal_local {O : Type} (k : Val → O) (r : Nat) :
    Local (fun w => (k (match (w.refs[r]!).doc, (w.refs[r]!).loc with
      | some di, some l => ((w.docs[di]!).toVal ((w.docs[di]!).get l), true)
      | _, _ => (Val.null, false)).1, w)) (fpRead r) := by
  refine Local.viaRefRO r (fun s w => (k (match s.doc, s.loc with
      | some di, some l => ((w.docs[di]!).toVal ((w.docs[di]!).get l), true)
      | _, _ => (Val.null, false)).1, w)) none' (one r) none' rfl (fun di sl => ?_)
    (fun sl => Local.leafPure (k Val.null) (sok_mut0 _ _))
  cases sl with
  | none => exact Local.leafPure (k Val.null) (sok_ro _ _ _)
  | some l => exact (Local.obsDoc di (fun d => k (d.toVal (d.get l)))).weaken

theorem obsx_local (r : String) : Local (fun w => DH.step w ["obsx", r]) (fpRead r.toNat!) :=
  Local.of_eq (fun w => obsx_eq w r) (obsVal_local obsxOut r.toNat!)

/-- an observer of the whole world: reads every document and every reference, writes nothing -/
def fpAll : FP := FP.static none' (fun _ => True) (fun _ => True) none'

theorem Local.readAll {O : Type} (k : Array Doc → Array Ref → O) : Local (fun w => (k w.docs w.refs, w)) fpAll :=
  Local.of_static ⟨fun _ h => h.elim, fun _ h => h.elim⟩ (fun _ _ _ => rfl) (fun _ _ _ => rfl) (fun _ => ⟨rfl, rfl, rfl, rfl, rfl⟩)
    (fun w w' hd hr => by
      have e1 : w.docs = w'.docs := Array.ext_getElem? (fun j => hd j trivial)
      have e2 : w.refs = w'.refs := Array.ext_getElem? (fun j => hr j trivial)
      exact ⟨by show k w.docs w.refs = k w'.docs w'.refs; rw [e1, e2], fun _ h => h.elim, fun _ h => h.elim⟩)

/-- what `obs` prints: every document (text, nesting, size, overflow flag), then the listed references -/
def obsOut (docs : Array Doc) (refs : Array Ref) (rs : List String) : String :=
  let ds := (docs.toList.map (fun (d : Doc) => s!"{d.show d.root} n={d.nesting d.root} z={d.size d.root} o={if d.overflowed then 1 else 0} ; "))
  let rs := rs.map (fun r =>
    let s := refs[r.toNat!]!
    match s.doc, s.loc with
    | some di, some l => let d : Doc := docs[di]!; s!"r{r}={d.show (d.get l)} z={d.size (d.get l)} n={d.nesting (d.get l)} "
    | _, _ => s!"r{r}=? z=0 n=0 ")
  String.join ds ++ String.join rs

theorem obs_eq (w : W) (rs : List String) : DH.step w ("obs" :: rs) = (obsOut w.docs w.refs rs, w) := rfl

/-- what `ledger` prints: live blocks per allocator -/
def ledgerOut (docs : Array Doc) : String :=
  let count (a : Nat) : Nat := docs.toList.foldl (fun acc (d : Doc) =>
    if d.alloc == a then acc + (d.pl.pools.filter (·.hasBlock)).length + (if d.pl.tableHeap then 1 else 0) + d.strings.length else acc) 0
  s!"L0={count 0} L1={count 1} L2={count 2} "
theorem ledger_eq (w : W) : DH.step w ["ledger"] = (ledgerOut w.docs, w) := rfl

theorem obs_local (rs : List String) : Local (fun w => DH.step w ("obs" :: rs)) fpAll :=
  Local.of_eq (fun w => obs_eq w rs) (Local.readAll (fun d r => obsOut d r rs))
theorem ledger_local : Local (fun w => DH.step w ["ledger"]) fpAll :=
  Local.of_eq ledger_eq (Local.readAll (fun d _ => ledgerOut d))

/-! ## The typed commands -/

/-- a kind of `set`/`setm`/`sete`/`add` that is not a deep copy -/
abbrev ScalarKind (kind : String) : Prop := (kind == "ref" || kind == "doc") = false

/-- The commands of the history interpreter, typed; the fields are the words of the text command (indices of references
    and documents are decimal numerals, read with `String.toNat!`; keys, strings, inputs are hexadecimal). -/
inductive Cmd
  /-- bind reference `r` to the root of document `d` -/
  | root (r d : String)
  /-- `r = r2[key]` (lookup only) -/
  | mem (r r2 k : String) (kk : List String)
  /-- `r = r2[i]` (lookup only) -/
  | elem (r r2 i : String)
  /-- `r = r2[key]`, created if absent -/
  | memw (r r2 k : String) (kk : List String)
  /-- `r = r2[i]`, created if absent -/
  | elemw (r r2 i : String)
  /-- `r = r2.add()` -/
  | addv (r r2 : String)
  /-- `r = r2.to<JsonArray>()` -/
  | toarr (r r2 : String)
  /-- `r = r2.to<JsonObject>()` -/
  | toobj (r r2 : String)
  /-- `r.clear()` -/
  | clear (r : String)
  /-- `r.remove(i)` -/
  | remi (r i : String)
  /-- `r.remove(key)` -/
  | remk (r k : String)
  /-- `deserializeJson(r, input)` -/
  | deserj (r lim hex : String)
  /-- `deserializeMsgPack(r, input)` -/
  | deserm (r lim hex : String)
  /-- `r.set(scalar or string)` -/
  | set (r kind arg : String) (hk : ScalarKind kind)
  /-- `r.set(document k)`: deep copy -/
  | setDoc (r k : String)
  /-- `r.set(r2)`: deep copy of what `r2` designates -/
  | setRef (r r2 : String)
  /-- `r[key] = scalar or string` -/
  | setm (r key kind arg : String) (kk : List String) (hk : ScalarKind kind)
  | setmDoc (r key k : String) (kk : List String)
  | setmRef (r key r2 : String) (kk : List String)
  /-- `r[i] = scalar or string` -/
  | sete (r i kind arg : String) (hk : ScalarKind kind)
  | seteDoc (r i k : String)
  | seteRef (r i r2 : String)
  /-- `r.add(scalar or string)` -/
  | add (r kind arg : String) (hk : ScalarKind kind)
  | addDoc (r k : String)
  | addRef (r r2 : String)
  /-- `document.clear()` -/
  | cleardoc (d : String)
  /-- `document.shrinkToFit()` -/
  | shrink (d : String)
  /-- test harness: the allocator of document `d` fails at / from its k-th next call, never -/
  | failat (d k : String)
  | failfrom (d k : String)
  | nofail (d : String)
  /-- `swap(document d, document e)` -/
  | swapdoc (d e : String)
  /-- read through two chained subscripts -/
  | rd2 (r t1 a1 t2 a2 : String)
  /-- serialize document `d` (JSON and MessagePack) -/
  | hser (d : String)
  /-- conversions and type tests of what `r` designates -/
  | obsx (r : String)
  /-- print every document and the listed references -/
  | obs (rs : List String)
  /-- live blocks per allocator -/
  | ledger

/-- the text of a command, as `DH.step` reads it -/
def Cmd.render : Cmd → List String
  | .root r d => ["root", r, d]
  | .mem r r2 k kk => "mem" :: r :: r2 :: k :: kk
  | .elem r r2 i => ["elem", r, r2, i]
  | .memw r r2 k kk => "memw" :: r :: r2 :: k :: kk
  | .elemw r r2 i => ["elemw", r, r2, i]
  | .addv r r2 => ["addv", r, r2]
  | .toarr r r2 => ["toarr", r, r2]
  | .toobj r r2 => ["toobj", r, r2]
  | .clear r => ["clear", r]
  | .remi r i => ["remi", r, i]
  | .remk r k => ["remk", r, k]
  | .deserj r lim hex => ["deserj", r, lim, hex]
  | .deserm r lim hex => ["deserm", r, lim, hex]
  | .set r kind arg _ => ["set", r, kind, arg]
  | .setDoc r k => ["set", r, "doc", k]
  | .setRef r r2 => ["set", r, "ref", r2]
  | .setm r key kind arg kk _ => "setm" :: r :: key :: kind :: arg :: kk
  | .setmDoc r key k kk => "setm" :: r :: key :: "doc" :: k :: kk
  | .setmRef r key r2 kk => "setm" :: r :: key :: "ref" :: r2 :: kk
  | .sete r i kind arg _ => ["sete", r, i, kind, arg]
  | .seteDoc r i k => ["sete", r, i, "doc", k]
  | .seteRef r i r2 => ["sete", r, i, "ref", r2]
  | .add r kind arg _ => ["add", r, kind, arg]
  | .addDoc r k => ["add", r, "doc", k]
  | .addRef r r2 => ["add", r, "ref", r2]
  | .cleardoc d => ["cleardoc", d]
  | .shrink d => ["shrink", d]
  | .failat d k => ["failat", d, k]
  | .failfrom d k => ["failfrom", d, k]
  | .nofail d => ["nofail", d]
  | .swapdoc d e => ["swapdoc", d, e]
  | .rd2 r t1 a1 t2 a2 => ["rd2", r, t1, a1, t2, a2]
  | .hser d => ["hser", d]
  | .obsx r => ["obsx", r]
  | .obs rs => "obs" :: rs
  | .ledger => ["ledger"]

/-- **The footprint of a command**: documents written / read (through the current binding of its references),
    references used / rebound. -/
def Cmd.fp : Cmd → FP
  | .root r _ => FP.static none' none' (one r.toNat!) (one r.toNat!)
  | .mem r r2 _ _ | .elem r r2 _ => fpNav r.toNat! r2.toNat!
  | .memw r r2 _ _ | .elemw r r2 _ | .addv r r2 | .toarr r r2 | .toobj r r2 => fpNavW r.toNat! r2.toNat!
  | .clear r | .remi r _ | .remk r _ | .deserj r _ _ | .deserm r _ _ => fpMut r.toNat!
  | .set r _ _ _ | .setm r _ _ _ _ _ | .sete r _ _ _ _ | .add r _ _ _ => fpMut r.toNat!
  | .setDoc r k | .setmDoc r _ k _ | .seteDoc r _ k | .addDoc r k => fpCopyDoc r.toNat! k.toNat!
  | .setRef r r2 | .setmRef r _ r2 _ | .seteRef r _ r2 | .addRef r r2 => fpCopyRef r.toNat! r2.toNat!
  | .cleardoc d | .shrink d | .failat d _ | .failfrom d _ | .nofail d => fpDoc d.toNat!
  | .swapdoc d e => FP.static (two d.toNat! e.toNat!) (two d.toNat! e.toNat!) none' none'
  | .rd2 r _ _ _ _ | .obsx r => fpRead r.toNat!
  | .hser d => fpDocRO d.toNat!
  | .obs _ | .ledger => fpAll

/-- the interpreter's step on a command -/
def Cmd.step (c : Cmd) : Step String := fun w => DH.step w c.render

/-- **Every command has its footprint.** -/
theorem Cmd.local (c : Cmd) : Local c.step c.fp := by
  cases c with
  | root r d => exact root_local r d
  | mem r r2 k kk => exact mem_local r r2 k kk
  | elem r r2 i => exact elem_local r r2 i
  | memw r r2 k kk => exact memw_local r r2 k kk
  | elemw r r2 i => exact elemw_local r r2 i
  | addv r r2 => exact addv_local r r2
  | toarr r r2 => exact toarr_local r r2
  | toobj r r2 => exact toobj_local r r2
  | clear r => exact clear_local r
  | remi r i => exact remi_local r i
  | remk r k => exact remk_local r k
  | deserj r lim hex => exact deserj_local r lim hex
  | deserm r lim hex => exact deserm_local r lim hex
  | set r kind arg hk => exact set_local r kind arg hk
  | setDoc r k => exact setDoc_local r k
  | setRef r r2 => exact setRef_local r r2
  | setm r key kind arg kk hk => exact setm_local r key kind arg kk hk
  | setmDoc r key k kk => exact setmDoc_local r key k kk
  | setmRef r key r2 kk => exact setmRef_local r key r2 kk
  | sete r i kind arg hk => exact sete_local r i kind arg hk
  | seteDoc r i k => exact seteDoc_local r i k
  | seteRef r i r2 => exact seteRef_local r i r2
  | add r kind arg hk => exact add_local r kind arg hk
  | addDoc r k => exact addDoc_local r k
  | addRef r r2 => exact addRef_local r r2
  | cleardoc d => exact cleardoc_local d
  | shrink d => exact shrink_local d
  | failat d k => exact failat_local d k
  | failfrom d k => exact failfrom_local d k
  | nofail d => exact nofail_local d
  | swapdoc d e => exact swapdoc_local d e
  | rd2 r t1 a1 t2 a2 => exact rd2_local r t1 a1 t2 a2
  | hser d => exact hser_local d
  | obsx r => exact obsx_local r
  | obs rs => exact obs_local rs
  | ledger => exact ledger_local

/-- a command as a step packaged with its footprint -/
def Cmd.lstep (c : Cmd) : LStep String := ⟨c.step, c.fp, c.local⟩

end C20
