/- C20: STATIC confinement of the interpreter's commands. A command is `In A S` when the references and documents it names
   in its text lie in region `A` (sources of copies and of reads may lie in the shared read-only region `S`). Under the
   invariant `RefsInto A S` (the references of `A` are bound into documents of `A`, those of `S` into documents of `S`)
   such a command stays within `A` (reading `S`) and keeps the invariant: navigation binds its result into the document
   of the reference it starts from (`Cmd.rebinds`). Hence a whole history of such commands is `Confined`. -/
import AJ.Lemmas.HistFrameCmd4
namespace C20
open DL
open DH (W Ref unhex)
open JD (Byte Val)

/-! ## What a rebound reference is bound to -/

theorem docOf_set!_self (a : Array Ref) (r : Nat) (x : Ref) (j : Nat) (h : docOf ((a.set! r x)[r]!) j) : docOf x j := by
  rw [getElem!_eq_getD?, getElem?_set!_self] at h
  cases hh : a[r]? with
  | none => rw [hh] at h; cases h
  | some y => rw [hh] at h; exact h

/-- the document the references rebound by a command end up in: the named document (`root`), the document of the
    reference the navigation starts from -/
def Cmd.bindsInto (w : W) : Cmd → Nat → Prop
  | .root _ d => one d.toNat!
  | .mem _ r2 _ _ | .elem _ r2 _ | .memw _ r2 _ _ | .elemw _ r2 _ | .addv _ r2 | .toarr _ r2 | .toobj _ r2 =>
    docOf (w.refs[r2.toNat!]!)
  | _ => none'

theorem nav_rebinds (F : Ref → W → String × W) (r : Nat)
    (h : ∀ (s : Ref) (w : W), ∃ x : Ref, (F s w).2.refs = w.refs.set! r x ∧ ∀ j, docOf x j → docOf s j)
    (r2 : Nat) (w : W) (j : Nat) (hj : docOf ((F (w.refs[r2]!) w).2.refs[r]!) j) : docOf (w.refs[r2]!) j := by
  obtain ⟨x, e, hx⟩ := h (w.refs[r2]!) w
  rw [e] at hj
  exact hx j (docOf_set!_self _ _ _ _ hj)

/-- **A rebound reference is bound into the expected document.** -/
theorem Cmd.rebinds (c : Cmd) (w : W) (r : Nat) (hb : c.fp.bind r) (j : Nat) (hj : docOf ((c.step w).2.refs[r]!) j) :
    c.bindsInto w j := by
  cases c with
  | root r' d =>
    cases (show r = r'.toNat! from hb)
    exact (Option.some.inj (docOf_set!_self _ _ _ _ hj)).symm
  | mem r' r2 k kk =>
    cases (show r = r'.toNat! from hb)
    refine nav_rebinds (fun s w => ("", { w with refs := w.refs.set! r'.toNat! (match s.doc, s.loc with
      | some di, some l => ⟨some di, ((w.docs[di]!).findKey l (unhex k)).map (fun p => Loc.slot p.2)⟩
      | di, _ => ⟨di, none⟩) })) _ (fun s w => ⟨_, rfl, ?_⟩) _ w j hj
    obtain ⟨_ | di, _ | l⟩ := s <;> exact fun _ h => h
  | elem r' r2 i =>
    cases (show r = r'.toNat! from hb)
    refine nav_rebinds (fun s w => ("", { w with refs := w.refs.set! r'.toNat! (match s.doc, s.loc with
      | some di, some l =>
        let d := w.docs[di]!
        match d.get l with
        | .arr h _ => ⟨some di, ((d.chain h)[i.toNat!]?).map Loc.slot⟩
        | _ => ⟨some di, none⟩
      | di, _ => ⟨di, none⟩) })) _ (fun s w => ⟨_, rfl, ?_⟩) _ w j hj
    obtain ⟨_ | di, _ | l⟩ := s
    · exact fun _ h => h
    · exact fun _ h => h
    · exact fun _ h => h
    · intro j
      show docOf (match (w.docs[di]!).get l with
        | .arr h _ => ⟨some di, (((w.docs[di]!).chain h)[i.toNat!]?).map Loc.slot⟩
        | _ => ⟨some di, none⟩) j → _
      cases (w.docs[di]!).get l <;> exact fun h => h
  | memw r' r2 k kk =>
    cases (show r = r'.toNat! from hb)
    refine nav_rebinds (fun s w => match s.doc, s.loc with
      | some di, some l =>
        let (m, d) := (w.docs[di]!).getOrAddMember l (unhex k) (kk == ["sjl"])
        match m with
        | some id => ("", { w with docs := w.docs.set! di (d.clearV (.slot id)), refs := w.refs.set! r'.toNat! ⟨some di, some (.slot id)⟩ })
        | none => ("", { w with docs := w.docs.set! di d, refs := w.refs.set! r'.toNat! ⟨some di, none⟩ })
      | di, _ => ("", { w with refs := w.refs.set! r'.toNat! ⟨di, none⟩ })) _ (fun s w => ?_) _ w j hj
    obtain ⟨_ | di, _ | l⟩ := s
    · exact ⟨_, rfl, fun _ h => h⟩
    · exact ⟨_, rfl, fun _ h => h⟩
    · exact ⟨_, rfl, fun _ h => h⟩
    · show ∃ x, (match (w.docs[di]!).getOrAddMember l (unhex k) (kk == ["sjl"]) with
        | (m, d) => match m with
          | some id => ("", { w with docs := w.docs.set! di (d.clearV (.slot id)), refs := w.refs.set! r'.toNat! ⟨some di, some (.slot id)⟩ })
          | none => ("", { w with docs := w.docs.set! di d, refs := w.refs.set! r'.toNat! ⟨some di, none⟩ })).2.refs = _ ∧ _
      generalize (w.docs[di]!).getOrAddMember l (unhex k) (kk == ["sjl"]) = x
      obtain ⟨_ | id, d⟩ := x <;> exact ⟨_, rfl, fun _ h => h⟩
  | elemw r' r2 i =>
    cases (show r = r'.toNat! from hb)
    refine nav_rebinds (fun s w => match s.doc, s.loc with
      | some di, some l =>
        let (m, d) := (w.docs[di]!).getOrAddElement l i.toNat!
        match m with
        | some id => ("", { w with docs := w.docs.set! di (d.clearV (.slot id)), refs := w.refs.set! r'.toNat! ⟨some di, some (.slot id)⟩ })
        | none => ("", { w with docs := w.docs.set! di d, refs := w.refs.set! r'.toNat! ⟨some di, none⟩ })
      | di, _ => ("", { w with refs := w.refs.set! r'.toNat! ⟨di, none⟩ })) _ (fun s w => ?_) _ w j hj
    obtain ⟨_ | di, _ | l⟩ := s
    · exact ⟨_, rfl, fun _ h => h⟩
    · exact ⟨_, rfl, fun _ h => h⟩
    · exact ⟨_, rfl, fun _ h => h⟩
    · show ∃ x, (match (w.docs[di]!).getOrAddElement l i.toNat! with
        | (m, d) => match m with
          | some id => ("", { w with docs := w.docs.set! di (d.clearV (.slot id)), refs := w.refs.set! r'.toNat! ⟨some di, some (.slot id)⟩ })
          | none => ("", { w with docs := w.docs.set! di d, refs := w.refs.set! r'.toNat! ⟨some di, none⟩ })).2.refs = _ ∧ _
      generalize (w.docs[di]!).getOrAddElement l i.toNat! = x
      obtain ⟨_ | id, d⟩ := x <;> exact ⟨_, rfl, fun _ h => h⟩
  | addv r' r2 =>
    cases (show r = r'.toNat! from hb)
    refine nav_rebinds (fun s w => match s.doc, s.loc with
      | some di, some l =>
        let d := toArrayIfNull l (w.docs[di]!)
        match d.get l with
        | .arr _ _ =>
          let (m, d) := d.addElement l
          ("", { w with docs := w.docs.set! di d, refs := w.refs.set! r'.toNat! ⟨some di, m.map Loc.slot⟩ })
        | _ => ("", { w with docs := w.docs.set! di d, refs := w.refs.set! r'.toNat! ⟨some di, none⟩ })
      | di, _ => ("", { w with refs := w.refs.set! r'.toNat! ⟨di, none⟩ })) _ (fun s w => ?_) _ w j hj
    obtain ⟨_ | di, _ | l⟩ := s
    · exact ⟨_, rfl, fun _ h => h⟩
    · exact ⟨_, rfl, fun _ h => h⟩
    · exact ⟨_, rfl, fun _ h => h⟩
    · show ∃ x, (match (toArrayIfNull l (w.docs[di]!)).get l with
        | .arr _ _ =>
          ("", { w with docs := w.docs.set! di ((toArrayIfNull l (w.docs[di]!)).addElement l).2,
                        refs := w.refs.set! r'.toNat! ⟨some di, ((toArrayIfNull l (w.docs[di]!)).addElement l).1.map Loc.slot⟩ })
        | _ => ("", { w with docs := w.docs.set! di (toArrayIfNull l (w.docs[di]!)),
                             refs := w.refs.set! r'.toNat! ⟨some di, none⟩ })).2.refs = _ ∧ _
      cases (toArrayIfNull l (w.docs[di]!)).get l <;> exact ⟨_, rfl, fun _ h => h⟩
  | toarr r' r2 =>
    cases (show r = r'.toNat! from hb)
    refine nav_rebinds (fun s w => match s.doc, s.loc with
      | some di, some l =>
        let d := (w.docs[di]!).clearV l
        let d := d.set l (.arr d.null d.null)
        ("", { w with docs := w.docs.set! di d, refs := w.refs.set! r'.toNat! ⟨some di, some l⟩ })
      | di, _ => ("", { w with refs := w.refs.set! r'.toNat! ⟨di, none⟩ })) _ (fun s w => ?_) _ w j hj
    obtain ⟨_ | di, _ | l⟩ := s <;> exact ⟨_, rfl, fun _ h => h⟩
  | toobj r' r2 =>
    cases (show r = r'.toNat! from hb)
    refine nav_rebinds (fun s w => match s.doc, s.loc with
      | some di, some l =>
        let d := (w.docs[di]!).clearV l
        let d := d.set l (.obj d.null d.null)
        ("", { w with docs := w.docs.set! di d, refs := w.refs.set! r'.toNat! ⟨some di, some l⟩ })
      | di, _ => ("", { w with refs := w.refs.set! r'.toNat! ⟨di, none⟩ })) _ (fun s w => ?_) _ w j hj
    obtain ⟨_ | di, _ | l⟩ := s <;> exact ⟨_, rfl, fun _ h => h⟩
  | _ => exact hb.elim

/-! ## Static confinement -/

/-- the references of `A` are bound into documents of `A`, the references of `S` into documents of `S` -/
def RefsInto (A S : Region) (w : W) : Prop :=
  (∀ r, A.refs r → ∀ j, docOf (w.refs[r]!) j → A.docs j) ∧ (∀ r, S.refs r → ∀ j, docOf (w.refs[r]!) j → S.docs j)

/-- the references and documents named in the text of the command lie in `A`; sources of deep copies and of reads may
    lie in the shared region `S`; the observers of the whole world are in no region -/
def Cmd.In (A S : Region) : Cmd → Prop
  | .root r d => A.refs r.toNat! ∧ A.docs d.toNat!
  | .mem r r2 _ _ | .elem r r2 _ | .memw r r2 _ _ | .elemw r r2 _ | .addv r r2 | .toarr r r2 | .toobj r r2 =>
    A.refs r.toNat! ∧ A.refs r2.toNat!
  | .clear r | .remi r _ | .remk r _ | .deserj r _ _ | .deserm r _ _ => A.refs r.toNat!
  | .set r _ _ _ | .setm r _ _ _ _ _ | .sete r _ _ _ _ | .add r _ _ _ => A.refs r.toNat!
  | .setDoc r k | .setmDoc r _ k _ | .seteDoc r _ k | .addDoc r k => A.refs r.toNat! ∧ (A.docs k.toNat! ∨ S.docs k.toNat!)
  | .setRef r r2 | .setmRef r _ r2 _ | .seteRef r _ r2 | .addRef r r2 =>
    A.refs r.toNat! ∧ (A.refs r2.toNat! ∨ S.refs r2.toNat!)
  | .cleardoc d | .shrink d | .failat d _ | .failfrom d _ | .nofail d => A.docs d.toNat!
  | .swapdoc d e => A.docs d.toNat! ∧ A.docs e.toNat!
  | .rd2 r _ _ _ _ | .obsx r => A.refs r.toNat! ∨ S.refs r.toNat!
  | .hser d => A.docs d.toNat! ∨ S.docs d.toNat!
  | .obs _ | .ledger => False

theorem within_mut {A S : Region} {w : W} {r : Nat} (hi : RefsInto A S w) (hr : A.refs r) : (fpMut r).Within A S w :=
  ⟨fun j h => hi.1 r hr j h, fun j h => h.elim (fun h => Or.inl (hi.1 r hr j h)) (fun h => h.elim),
    fun _ h => Or.inl (h ▸ hr), fun _ h => h.elim⟩

theorem within_copyDoc {A S : Region} {w : W} {r k : Nat} (hi : RefsInto A S w) (hr : A.refs r)
    (hk : A.docs k ∨ S.docs k) : (fpCopyDoc r k).Within A S w :=
  ⟨fun j h => hi.1 r hr j h, fun j h => h.elim (fun h => Or.inl (hi.1 r hr j h)) (fun h => by cases h; exact hk),
    fun x h => Or.inl (h ▸ hr), fun _ h => h.elim⟩

theorem within_copyRef {A S : Region} {w : W} {r r2 : Nat} (hi : RefsInto A S w) (hr : A.refs r)
    (hr2 : A.refs r2 ∨ S.refs r2) : (fpCopyRef r r2).Within A S w :=
  ⟨fun j h => hi.1 r hr j h,
    fun j h => h.elim (fun h => Or.inl (hi.1 r hr j h))
      (fun h => hr2.elim (fun h2 => Or.inl (hi.1 r2 h2 j h)) (fun h2 => Or.inr (hi.2 r2 h2 j h))),
    fun x h => h.elim (fun h => Or.inl (h ▸ hr)) (fun h => by cases h; exact hr2), fun _ h => h.elim⟩

theorem within_navW {A S : Region} {w : W} {r r2 : Nat} (hi : RefsInto A S w) (hr : A.refs r) (hr2 : A.refs r2) :
    (fpNavW r r2).Within A S w :=
  ⟨fun j h => hi.1 r2 hr2 j h, fun j h => h.elim (fun h => Or.inl (hi.1 r2 hr2 j h)) (fun h => h.elim),
    fun _ h => h.elim (fun h => Or.inl (h ▸ hr2)) (fun h => Or.inl (h ▸ hr)), fun _ h => h ▸ hr⟩

theorem within_nav {A S : Region} {w : W} {r r2 : Nat} (hi : RefsInto A S w) (hr : A.refs r) (hr2 : A.refs r2) :
    (fpNav r r2).Within A S w :=
  ⟨fun _ h => h.elim, fun j h => h.elim (fun h => Or.inl (hi.1 r2 hr2 j h)) (fun h => h.elim),
    fun _ h => h.elim (fun h => Or.inl (h ▸ hr2)) (fun h => Or.inl (h ▸ hr)), fun _ h => h ▸ hr⟩

theorem within_read {A S : Region} {w : W} {r : Nat} (hi : RefsInto A S w) (hr : A.refs r ∨ S.refs r) :
    (fpRead r).Within A S w :=
  ⟨fun _ h => h.elim,
    fun j h => h.elim (fun h => hr.elim (fun h2 => Or.inl (hi.1 r h2 j h)) (fun h2 => Or.inr (hi.2 r h2 j h))) (fun h => h.elim),
    fun x h => by cases h; exact hr, fun _ h => h.elim⟩

/-- **a command `In A S` stays within `A` (reading `S`)**, wherever the references of `A` and `S` are bound as they should -/
theorem Cmd.within_of_in {A S : Region} {c : Cmd} {w : W} (hc : c.In A S) (hi : RefsInto A S w) : c.fp.Within A S w := by
  cases c with
  | root r d => exact ⟨fun _ h => h.elim, fun _ h => h.elim, fun x h => Or.inl (h ▸ hc.1), fun x h => h ▸ hc.1⟩
  | mem r r2 k kk => exact within_nav hi hc.1 hc.2
  | elem r r2 i => exact within_nav hi hc.1 hc.2
  | memw r r2 k kk => exact within_navW hi hc.1 hc.2
  | elemw r r2 i => exact within_navW hi hc.1 hc.2
  | addv r r2 => exact within_navW hi hc.1 hc.2
  | toarr r r2 => exact within_navW hi hc.1 hc.2
  | toobj r r2 => exact within_navW hi hc.1 hc.2
  | clear r => exact within_mut hi hc
  | remi r i => exact within_mut hi hc
  | remk r k => exact within_mut hi hc
  | deserj r lim hex => exact within_mut hi hc
  | deserm r lim hex => exact within_mut hi hc
  | set r kind arg hk => exact within_mut hi hc
  | setDoc r k => exact within_copyDoc hi hc.1 hc.2
  | setRef r r2 => exact within_copyRef hi hc.1 hc.2
  | setm r key kind arg kk hk => exact within_mut hi hc
  | setmDoc r key k kk => exact within_copyDoc hi hc.1 hc.2
  | setmRef r key r2 kk => exact within_copyRef hi hc.1 hc.2
  | sete r i kind arg hk => exact within_mut hi hc
  | seteDoc r i k => exact within_copyDoc hi hc.1 hc.2
  | seteRef r i r2 => exact within_copyRef hi hc.1 hc.2
  | add r kind arg hk => exact within_mut hi hc
  | addDoc r k => exact within_copyDoc hi hc.1 hc.2
  | addRef r r2 => exact within_copyRef hi hc.1 hc.2
  | cleardoc d => exact ⟨fun _ h => h ▸ hc, fun _ h => Or.inl (h ▸ hc), fun _ h => h.elim, fun _ h => h.elim⟩
  | shrink d => exact ⟨fun _ h => h ▸ hc, fun _ h => Or.inl (h ▸ hc), fun _ h => h.elim, fun _ h => h.elim⟩
  | failat d k => exact ⟨fun _ h => h ▸ hc, fun _ h => Or.inl (h ▸ hc), fun _ h => h.elim, fun _ h => h.elim⟩
  | failfrom d k => exact ⟨fun _ h => h ▸ hc, fun _ h => Or.inl (h ▸ hc), fun _ h => h.elim, fun _ h => h.elim⟩
  | nofail d => exact ⟨fun _ h => h ▸ hc, fun _ h => Or.inl (h ▸ hc), fun _ h => h.elim, fun _ h => h.elim⟩
  | swapdoc d e =>
    exact ⟨fun _ h => h.elim (fun h => h ▸ hc.1) (fun h => h ▸ hc.2),
      fun _ h => Or.inl (h.elim (fun h => h ▸ hc.1) (fun h => h ▸ hc.2)), fun _ h => h.elim, fun _ h => h.elim⟩
  | rd2 r t1 a1 t2 a2 => exact within_read hi hc
  | hser d => exact ⟨fun _ h => h.elim, fun _ h => by cases h; exact hc, fun _ h => h.elim, fun _ h => h.elim⟩
  | obsx r => exact within_read hi hc
  | obs rs => exact hc.elim
  | ledger => exact hc.elim

/-- what a command `In A S` rebinds, it binds into `A` -/
theorem Cmd.bindsInto_in {A S : Region} {c : Cmd} {w : W} (hc : c.In A S) (hi : RefsInto A S w) (j : Nat)
    (h : c.bindsInto w j) : A.docs j := by
  cases c with
  | root r d => cases h; exact hc.2
  | mem r r2 k kk => exact hi.1 _ hc.2 j h
  | elem r r2 i => exact hi.1 _ hc.2 j h
  | memw r r2 k kk => exact hi.1 _ hc.2 j h
  | elemw r r2 i => exact hi.1 _ hc.2 j h
  | addv r r2 => exact hi.1 _ hc.2 j h
  | toarr r r2 => exact hi.1 _ hc.2 j h
  | toobj r r2 => exact hi.1 _ hc.2 j h
  | _ => exact h.elim

/-- **… and keeps the references of `A` bound into `A`, those of `S` bound into `S`** -/
theorem Cmd.refsInto_step {A S : Region} (hAS : A.Disj S) {c : Cmd} {w : W} (hc : c.In A S) (hi : RefsInto A S w) :
    RefsInto A S (c.step w).2 := by
  have hw := Cmd.within_of_in hc hi
  refine ⟨fun r hr j hj => ?_, fun r hr j hj => ?_⟩
  · by_cases hb : c.fp.bind r
    · exact Cmd.bindsInto_in hc hi j (c.rebinds w r hb j hj)
    · have e : (c.step w).2.refs[r]! = w.refs[r]! := refs_bang_congr (c.local.frame_refs w r hb)
      rw [e] at hj; exact hi.1 r hr j hj
  · have hb : ¬ c.fp.bind r := fun h => hAS.2 r (hw.bind r h) hr
    have e : (c.step w).2.refs[r]! = w.refs[r]! := refs_bang_congr (c.local.frame_refs w r hb)
    rw [e] at hj; exact hi.2 r hr j hj

/-- a history of commands `In A S`, from a world where the references are bound as they should, is confined to `A` -/
theorem confined_of_in {A S : Region} (hAS : A.Disj S) : ∀ (h : List Cmd) (w : W), (∀ c ∈ h, c.In A S) → RefsInto A S w →
    Confined A S (h.map Cmd.lstep) w
  | [], _, _, _ => trivial
  | c :: h, _, hc, hi =>
    ⟨Cmd.within_of_in (hc c List.mem_cons_self) hi,
      confined_of_in hAS h _ (fun x hx => hc x (List.mem_cons_of_mem _ hx)) (Cmd.refsInto_step hAS (hc c List.mem_cons_self) hi)⟩

end C20
