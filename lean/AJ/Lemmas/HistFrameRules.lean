/- C20: the rules by which a step of the history interpreter is shown to have a footprint (`C20.Local`, AJ/Lemmas/HistFrame.lean).
   Static footprints (`FP.static D R U B`: fixed sets of documents written / read, references used / rebound):
   `Local.pure`, `readDoc`, `writeDoc`, `readRef`, `writeRef`, `Local.bind` (sequencing), `Local.mono_static` (a larger
   footprint is a footprint) and the derived `modDoc`, `modDocFrom`, `modDocRef`.
   Footprints that depend on the world: `Local.ofRef` - a step that first looks a reference up and then behaves, for each
   value of the reference, as a step with its own footprint. -/
import AJ.Lemmas.HistFrame
namespace C20
open DL
open DH (W Ref)

/-! ## Static footprints -/

/-- side conditions of a static footprint: what is written is read, what is rebound is used -/
structure SOK (D R U B : Nat → Prop) : Prop where
  dr : ∀ j, D j → R j
  bu : ∀ r, B r → U r

/-- what has to be checked for a step with a static footprint -/
theorem Local.of_static {O : Type} {f : Step O} {D R U B : Nat → Prop} (ok : SOK D R U B)
    (fd : ∀ w j, ¬ D j → (f w).2.docs[j]? = w.docs[j]?) (fr : ∀ w r, ¬ B r → (f w).2.refs[r]? = w.refs[r]?)
    (rest : ∀ w, (f w).2.log = w.log ∧ (f w).2.dead = w.dead ∧ (f w).2.geo = w.geo ∧ (f w).2.strOverhead = w.strOverhead ∧
      (f w).2.maxStrLen = w.maxStrLen)
    (loc : ∀ w w', (∀ j, R j → w.docs[j]? = w'.docs[j]?) → (∀ r, U r → w.refs[r]? = w'.refs[r]?) →
      (f w).1 = (f w').1 ∧ (∀ j, D j → (f w).2.docs[j]? = (f w').2.docs[j]?) ∧
      (∀ r, B r → (f w).2.refs[r]? = (f w').2.refs[r]?)) :
    Local f (FP.static D R U B) :=
  ⟨fd, fr, rest, fun _ => ok.dr, ok.bu, fun w w' h =>
    let ⟨a, b, c⟩ := loc w w' h.1 h.2
    ⟨a, b, c, fun _ => Iff.rfl, fun _ => Iff.rfl⟩⟩

/-- a larger static footprint is a footprint -/
theorem Local.mono_static {O : Type} {f : Step O} {D R U B D' R' U' B' : Nat → Prop}
    (h : Local f (FP.static D R U B)) (hD : ∀ j, D j → D' j) (hR : ∀ j, R j → R' j) (hU : ∀ r, U r → U' r)
    (hB : ∀ r, B r → B' r) (ok : SOK D' R' U' B') : Local f (FP.static D' R' U' B') := by
  refine Local.of_static ok (fun w j hj => h.frame_docs w j (fun x => hj (hD j x)))
    (fun w r hr => h.frame_refs w r (fun x => hr (hB r x))) h.frame_rest (fun w w' hd hr => ?_)
  obtain ⟨a, b, c, _, _⟩ := h.loc w w' ⟨fun j hj => hd j (hR j hj), fun r x => hr r (hU r x)⟩
  refine ⟨a, fun j hj => ?_, fun r x => ?_⟩
  · by_cases hh : D j
    · exact b j hh
    · rw [h.frame_docs w j hh, h.frame_docs w' j hh]; exact hd j (ok.dr j hj)
  · by_cases hh : B r
    · exact c r hh
    · rw [h.frame_refs w r hh, h.frame_refs w' r hh]; exact hr r (ok.bu r x)

def none' : Nat → Prop := fun _ => False
def one (i : Nat) : Nat → Prop := fun j => j = i
def two (i k : Nat) : Nat → Prop := fun j => j = i ∨ j = k

theorem sok_none : SOK none' none' none' none' := ⟨fun _ h => h, fun _ h => h⟩

/-- a step that does nothing -/
theorem Local.pure {O : Type} (o : O) : Local (fun w => (o, w)) (FP.static none' none' none' none') :=
  Local.of_static sok_none (fun _ _ _ => rfl) (fun _ _ _ => rfl) (fun _ => ⟨rfl, rfl, rfl, rfl, rfl⟩)
    (fun _ _ _ _ => ⟨rfl, fun _ h => h.elim, fun _ h => h.elim⟩)

theorem docs_bang_congr {w w' : W} {i : Nat} (h : w.docs[i]? = w'.docs[i]?) : w.docs[i]! = w'.docs[i]! := by
  rw [getElem!_eq_getD?, getElem!_eq_getD?, h]
theorem refs_bang_congr {w w' : W} {i : Nat} (h : w.refs[i]? = w'.refs[i]?) : w.refs[i]! = w'.refs[i]! := by
  rw [getElem!_eq_getD?, getElem!_eq_getD?, h]

/-- read a document -/
theorem Local.readDoc (i : Nat) : Local (fun w => (w.docs[i]!, w)) (FP.static none' (one i) none' none') :=
  Local.of_static ⟨fun _ h => h.elim, fun _ h => h⟩ (fun _ _ _ => rfl) (fun _ _ _ => rfl) (fun _ => ⟨rfl, rfl, rfl, rfl, rfl⟩)
    (fun _ _ hd _ => ⟨docs_bang_congr (hd i rfl), fun _ h => h.elim, fun _ h => h.elim⟩)

/-- read a reference -/
theorem Local.readRef (r : Nat) : Local (fun w => (w.refs[r]!, w)) (FP.static none' none' (one r) none') :=
  Local.of_static ⟨fun _ h => h, fun _ h => h.elim⟩ (fun _ _ _ => rfl) (fun _ _ _ => rfl) (fun _ => ⟨rfl, rfl, rfl, rfl, rfl⟩)
    (fun _ _ _ hr => ⟨refs_bang_congr (hr r rfl), fun _ h => h.elim, fun _ h => h.elim⟩)

/-- overwrite a document -/
theorem Local.writeDoc (i : Nat) (d : Doc) :
    Local (fun w => ((), { w with docs := w.docs.set! i d })) (FP.static (one i) (one i) none' none') :=
  Local.of_static ⟨fun _ h => h, fun _ h => h⟩
    (fun w j hj => getElem?_set!_ne _ _ (fun h => hj h.symm)) (fun _ _ _ => rfl) (fun _ => ⟨rfl, rfl, rfl, rfl, rfl⟩)
    (fun w w' hd _ => ⟨rfl, fun j hj => by
      show (w.docs.set! i d)[j]? = (w'.docs.set! i d)[j]?
      rw [getElem?_set!, getElem?_set!, hd j hj], fun _ h => h.elim⟩)

/-- rebind a reference -/
theorem Local.writeRef (r : Nat) (x : Ref) :
    Local (fun w => ((), { w with refs := w.refs.set! r x })) (FP.static none' none' (one r) (one r)) :=
  Local.of_static ⟨fun _ h => h, fun _ h => h⟩ (fun _ _ _ => rfl)
    (fun w j hj => getElem?_set!_ne _ _ (fun h => hj h.symm)) (fun _ => ⟨rfl, rfl, rfl, rfl, rfl⟩)
    (fun w w' _ hr => ⟨rfl, fun _ h => h.elim, fun j hj => by
      show (w.refs.set! r x)[j]? = (w'.refs.set! r x)[j]?
      rw [getElem?_set!, getElem?_set!, hr j hj]⟩)

/-- **sequencing**: `g` runs on the output and the world of `f`; both inside the same static footprint -/
theorem Local.bind {O O' : Type} {f : Step O} {g : O → Step O'} {D R U B : Nat → Prop}
    (hf : Local f (FP.static D R U B)) (hg : ∀ o, Local (g o) (FP.static D R U B)) :
    Local (fun w => g (f w).1 (f w).2) (FP.static D R U B) := by
  refine Local.of_static ⟨hf.wr_rd DH.W.init, hf.bind_use⟩ (fun w j hj => ?_) (fun w r hr => ?_) (fun w => ?_)
    (fun w w' hd hr => ?_)
  · exact ((hg _).frame_docs _ j hj).trans (hf.frame_docs w j hj)
  · exact ((hg _).frame_refs _ r hr).trans (hf.frame_refs w r hr)
  · obtain ⟨a, b, c, d, e⟩ := (hg (f w).1).frame_rest (f w).2
    obtain ⟨a', b', c', d', e'⟩ := hf.frame_rest w
    exact ⟨a.trans a', b.trans b', c.trans c', d.trans d', e.trans e'⟩
  · obtain ⟨o, dd, rr, _, _⟩ := hf.loc w w' ⟨hd, hr⟩
    have hd1 : ∀ j, R j → (f w).2.docs[j]? = (f w').2.docs[j]? := fun j hj => by
      by_cases h : D j
      · exact dd j h
      · rw [hf.frame_docs w j h, hf.frame_docs w' j h]; exact hd j hj
    have hr1 : ∀ r, U r → (f w).2.refs[r]? = (f w').2.refs[r]? := fun r hx => by
      by_cases h : B r
      · exact rr r h
      · rw [hf.frame_refs w r h, hf.frame_refs w' r h]; exact hr r hx
    obtain ⟨o2, dd2, rr2, _, _⟩ := (hg (f w).1).loc (f w).2 (f w').2 ⟨hd1, hr1⟩
    rw [← o]
    exact ⟨o2, dd2, rr2⟩

/-- change the output -/
theorem Local.map {O O' : Type} {f : Step O} {p : FP} (hf : Local f p) (k : O → O') :
    Local (fun w => (k (f w).1, (f w).2)) p :=
  ⟨hf.frame_docs, hf.frame_refs, hf.frame_rest, hf.wr_rd, hf.bind_use, fun w w' h =>
    let ⟨a, b⟩ := hf.loc w w' h
    ⟨congrArg k a, b⟩⟩

/-- a single-document operation on document `i`: output and new document are functions of the old document -/
def modDoc {O : Type} (i : Nat) (k : Doc → O × Doc) : Step O :=
  fun w => ((k (w.docs[i]!)).1, { w with docs := w.docs.set! i (k (w.docs[i]!)).2 })

theorem sok_one (i : Nat) : SOK (one i) (one i) none' none' := ⟨fun _ h => h, fun _ h => h⟩

theorem Local.modDoc {O : Type} (i : Nat) (k : Doc → O × Doc) : Local (C20.modDoc i k) (FP.static (one i) (one i) none' none') := by
  have h1 : Local (fun w => (w.docs[i]!, w)) (FP.static (one i) (one i) none' none') :=
    (Local.readDoc i).mono_static (fun _ h => h.elim) (fun _ h => h) (fun _ h => h) (fun _ h => h) (sok_one i)
  exact Local.bind h1 (fun d => (Local.writeDoc i (k d).2).map (fun _ => (k d).1))

/-- an operation on document `i` that also reads document `src` (a deep copy from `src` into `i`) -/
def modDocFrom {O : Type} (i src : Nat) (k : Doc → Doc → O × Doc) : Step O :=
  fun w => ((k (w.docs[i]!) (w.docs[src]!)).1, { w with docs := w.docs.set! i (k (w.docs[i]!) (w.docs[src]!)).2 })

theorem sok_two (i k : Nat) : SOK (one i) (two i k) none' none' := ⟨fun _ h => Or.inl h, fun _ h => h⟩

theorem Local.modDocFrom {O : Type} (i src : Nat) (k : Doc → Doc → O × Doc) :
    Local (C20.modDocFrom i src k) (FP.static (one i) (two i src) none' none') := by
  have h1 : Local (fun w => (w.docs[src]!, w)) (FP.static (one i) (two i src) none' none') :=
    (Local.readDoc src).mono_static (fun _ h => h.elim) (fun _ h => Or.inr h) (fun _ h => h) (fun _ h => h) (sok_two i src)
  exact Local.bind h1 (fun s => (Local.modDoc i (fun d => k d s)).mono_static (fun _ h => h) (fun _ h => Or.inl h)
    (fun _ h => h) (fun _ h => h) (sok_two i src))

/-- a read-only operation on document `i` -/
def obsDoc {O : Type} (i : Nat) (k : Doc → O) : Step O := fun w => (k (w.docs[i]!), w)

theorem Local.obsDoc {O : Type} (i : Nat) (k : Doc → O) : Local (C20.obsDoc i k) (FP.static none' (one i) none' none') :=
  (Local.readDoc i).map k

/-! ## Footprints that depend on a reference -/

/-- **dispatch on a reference**: a step that looks reference `r` up and, for each value `s` of it, is a step with the
    footprint `⟨wr s, rd s, U, B⟩`, has the footprint evaluated at the current value of the reference -/
theorem Local.ofRef {O : Type} (r : Nat) (F : Ref → Step O) (wr rd : Ref → W → Nat → Prop) (U B : Nat → Prop) (hr : U r)
    (h : ∀ s, Local (F s) ⟨wr s, rd s, U, B⟩) :
    Local (fun w => F (w.refs[r]!) w) ⟨fun w => wr (w.refs[r]!) w, fun w => rd (w.refs[r]!) w, U, B⟩ := by
  refine ⟨fun w j hj => (h _).frame_docs w j hj, fun w x hx => (h _).frame_refs w x hx, fun w => (h _).frame_rest w,
    fun w j hj => (h _).wr_rd w j hj, (h default).bind_use, fun w w' hag => ?_⟩
  have e : w'.refs[r]! = w.refs[r]! := (refs_bang_congr (hag.2 r hr)).symm
  show _ ∧ _ ∧ _ ∧ (∀ j, wr (w.refs[r]!) w j ↔ wr (w'.refs[r]!) w' j) ∧ (∀ j, rd (w.refs[r]!) w j ↔ rd (w'.refs[r]!) w' j)
  rw [e]
  exact (h (w.refs[r]!)).loc w w' hag

/-- the same for a step that is only KNOWN to coincide, on the worlds where the reference has the value `s`, with a step
    `F s` (no syntactic form required) -/
theorem Local.ofRef' {O : Type} (r : Nat) (f : Step O) (F : Ref → Step O) (wr rd : Ref → W → Nat → Prop) (U B : Nat → Prop)
    (hr : U r) (he : ∀ w, f w = F (w.refs[r]!) w) (h : ∀ s, Local (F s) ⟨wr s, rd s, U, B⟩) :
    Local f ⟨fun w => wr (w.refs[r]!) w, fun w => rd (w.refs[r]!) w, U, B⟩ := by
  have : f = fun w => F (w.refs[r]!) w := funext he
  rw [this]
  exact Local.ofRef r F wr rd U B hr h

end C20
