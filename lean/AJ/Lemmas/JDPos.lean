/- Invariant `consumed + unread = length` through every routine of the JsonDeserializer model:
   the reader never takes more bytes than the input has. -/
import AJ.Model.JD
namespace JD

def Inv (n : Nat) (s : St) : Prop := s.l.pos + s.l.unread.length = n

theorem latch_current_inv (l : Latch) :
    (l.current).2.pos + (l.current).2.unread.length = l.pos + l.unread.length := by
  unfold Latch.current
  split
  · rfl
  · split
    · rename_i h; simp [h]
    · rename_i c cs h; simp [h]; omega

theorem inv_cur {n s} (h : Inv n s) : Inv n (cur s).2 := by
  have := latch_current_inv s.l
  unfold Inv at *
  simp only [cur]
  omega

theorem inv_mv {n s} (h : Inv n s) : Inv n (mv s) := by
  unfold mv Latch.move Inv at *; simpa using h

theorem inv_found {n s b} (h : Inv n s) : Inv n { s with found := b } := by
  unfold Inv at *; simpa using h

theorem inv_skipBlock {n} : ∀ fuel w s, Inv n s → Inv n (skipBlock fuel w s).2 := by
  intro fuel
  induction fuel with
  | zero => intro w s h; simpa [skipBlock] using h
  | succ f ih =>
    intro w s h
    simp only [skipBlock]
    have h1 := inv_cur h
    split
    · exact h1
    · split
      · exact inv_mv h1
      · exact ih _ _ (inv_mv h1)

theorem inv_skipLine {n} : ∀ fuel s, Inv n s → Inv n (skipLine fuel s).2 := by
  intro fuel
  induction fuel with
  | zero => intro s h; simpa [skipLine] using h
  | succ f ih =>
    intro s h
    simp only [skipLine]
    have h1 := inv_cur (inv_mv h)
    split
    · exact h1
    · split
      · exact h1
      · exact ih _ h1

theorem inv_skipSpaces {n cfg} : ∀ fuel s, Inv n s → Inv n (skipSpaces cfg fuel s).2 := by
  intro fuel
  induction fuel with
  | zero => intro s h; simpa [skipSpaces] using h
  | succ f ih =>
    intro s h
    simp only [skipSpaces]
    have h1 := inv_cur h
    split
    · exact h1
    · split
      · exact ih _ (inv_mv h1)
      · split
        · have h2 := inv_cur (inv_mv h1)
          split
          · have h3 := inv_skipBlock f false _ (inv_mv h2)
            split
            · rename_i heq; rw [heq] at h3; exact ih _ h3
            · exact h3
          · split
            · have h3 := inv_skipLine f _ h2
              split
              · rename_i heq; rw [heq] at h3; exact ih _ h3
              · exact h3
            · exact h2
        · exact inv_found h1

theorem inv_skipKeyword {n} : ∀ ks s, Inv n s → Inv n (skipKeyword ks s).2 := by
  intro ks
  induction ks with
  | nil => intro s h; simpa [skipKeyword] using h
  | cons k ks ih =>
    intro s h
    simp only [skipKeyword]
    have h1 := inv_cur h
    split
    · exact h1
    · split
      · exact h1
      · exact ih _ (inv_mv h1)

theorem inv_parseHex4 {n} : ∀ k acc s, Inv n s → Inv n (parseHex4 k acc s).2.2 := by
  intro k
  induction k with
  | zero => intro acc s h; simpa [parseHex4] using h
  | succ k ih =>
    intro acc s h
    simp only [parseHex4]
    have h1 := inv_cur h
    split
    · exact h1
    · split
      · exact h1
      · exact ih _ _ (inv_mv h1)

theorem inv_parseQuoted {n cfg stop} : ∀ fuel acc hi s, Inv n s → Inv n (parseQuoted cfg stop fuel acc hi s).2.2 := by
  intro fuel
  induction fuel with
  | zero => intro acc hi s h; simpa [parseQuoted] using h
  | succ f ih =>
    intro acc hi s h
    simp only [parseQuoted]
    have h1 := inv_mv (inv_cur h)
    split
    · exact h1
    · split
      · exact h1
      · split
        · have h2 := inv_cur h1
          split
          · exact h2
          · split
            · split
              · have h3 := inv_parseHex4 4 0 _ (inv_mv h2)
                split
                · rename_i heq; rw [heq] at h3
                  split
                  · exact ih _ _ _ h3
                  · split
                    · exact ih _ _ _ h3
                    · exact ih _ _ _ h3
                · rename_i heq; rw [heq] at h3; exact h3
              · exact ih _ _ _ h2
            · split
              · exact h2
              · exact ih _ _ _ (inv_mv h2)
        · exact ih _ _ _ h1
end JD

namespace JD
theorem inv_parseUnquoted {n} : ∀ fuel acc s, Inv n s → Inv n (parseUnquoted fuel acc s).2 := by
  intro fuel
  induction fuel with
  | zero => intro acc s h; simpa [parseUnquoted] using h
  | succ f ih =>
    intro acc s h
    simp only [parseUnquoted]
    have h1 := inv_cur h
    split
    · exact ih _ _ (inv_mv h1)
    · exact h1

theorem inv_scanNumber {n cfg} : ∀ k acc s, Inv n s → Inv n (scanNumber cfg k acc s).2 := by
  intro k
  induction k with
  | zero => intro acc s h; simp only [scanNumber]; exact inv_cur h
  | succ k ih =>
    intro acc s h
    simp only [scanNumber]
    have h1 := inv_cur h
    split
    · exact ih _ _ (inv_mv h1)
    · exact h1

theorem inv_parseNumeric {n cfg} (s : St) (h : Inv n s) : Inv n (parseNumeric cfg s).2.2 := by
  unfold parseNumeric
  have h1 := inv_scanNumber (cfg := cfg) (Gen.number_buffer - 1) [] s h
  generalize scanNumber cfg (Gen.number_buffer - 1) [] s = r at h1 ⊢
  obtain ⟨buf, s'⟩ := r
  simp only
  split <;> exact h1

theorem inv_mutual {n cfg} : ∀ fuel,
    (∀ limit s, Inv n s → Inv n (parseVariant cfg fuel limit s).2.2) ∧
    (∀ limit s acc, Inv n s → Inv n (parseElems cfg fuel limit s acc).2.2) ∧
    (∀ limit s ms, Inv n s → Inv n (parseMembers cfg fuel limit s ms).2.2) := by
  intro fuel
  induction fuel with
  | zero =>
    refine ⟨?_, ?_, ?_⟩
    · intro limit s h; simpa [parseVariant] using h
    · intro limit s acc h; simpa [parseElems] using h
    · intro limit s ms h; simpa [parseMembers] using h
  | succ f ih =>
    obtain ⟨ihV, ihE, ihM⟩ := ih
    refine ⟨?_, ?_, ?_⟩
    · intro limit s h
      simp only [parseVariant]
      have h0 := inv_skipSpaces (cfg := cfg) (f+1) s h
      split
      · rename_i s1 heq; rw [heq] at h0
        have h1 := inv_cur h0
        split
        · split
          · exact h1
          · have h2 := inv_skipSpaces (cfg := cfg) (f+1) _ (inv_mv h1)
            split
            · rename_i heq2; rw [heq2] at h2
              have h3 := inv_cur h2
              split
              · exact inv_mv h3
              · exact ihE _ _ _ h3
            · rename_i heq2; rw [heq2] at h2; exact h2
        · split
          · split
            · exact h1
            · have h2 := inv_skipSpaces (cfg := cfg) (f+1) _ (inv_mv h1)
              split
              · rename_i heq2; rw [heq2] at h2
                have h3 := inv_cur h2
                split
                · exact inv_mv h3
                · exact ihM _ _ _ h3
              · rename_i heq2; rw [heq2] at h2; exact h2
          · split
            · have h2 := inv_parseQuoted (cfg := cfg) (stop := (cur s1).1) (f+1) [] 0 _ (inv_mv h1)
              split <;> (rename_i heq2; rw [heq2] at h2; exact h2)
            · split
              · exact inv_skipKeyword _ _ h1
              · split
                · exact inv_skipKeyword _ _ h1
                · split
                  · exact inv_skipKeyword _ _ h1
                  · exact inv_parseNumeric _ h1
      · rename_i heq; rw [heq] at h0; exact h0
    · intro limit s acc h
      simp only [parseElems]
      have h0 := ihV limit s h
      split
      · rename_i heq; rw [heq] at h0
        have h1 := inv_skipSpaces (cfg := cfg) (f+1) _ h0
        split
        · rename_i heq2; rw [heq2] at h1
          have h2 := inv_cur h1
          split
          · exact inv_mv h2
          · split
            · exact ihE _ _ _ (inv_mv h2)
            · exact h2
        · rename_i heq2; rw [heq2] at h1; exact h1
      · rename_i heq; rw [heq] at h0; exact h0
    · intro limit s ms h
      simp only [parseMembers]
      have hc := inv_cur h
      -- the key
      have hkey : Inv n (if ((cur s).1 == 0x22 || (cur s).1 == 0x27) = true then parseQuoted cfg (cur s).1 (f+1) [] 0 (mv (cur s).2)
            else if inUnquoted (cur s).1 = true then
              ((if (parseUnquoted (f+1) [] (cur s).2).1.length > cfg.maxStrLen then Code.noMemory else Code.ok), (parseUnquoted (f+1) [] (cur s).2).1, (parseUnquoted (f+1) [] (cur s).2).2)
            else (Code.invalid, [], (cur s).2)).2.2 := by
        split
        · exact inv_parseQuoted _ _ _ _ (inv_mv hc)
        · split
          · exact inv_parseUnquoted _ _ _ hc
          · exact hc
      generalize (if ((cur s).1 == 0x22 || (cur s).1 == 0x27) = true then parseQuoted cfg (cur s).1 (f+1) [] 0 (mv (cur s).2)
            else if inUnquoted (cur s).1 = true then
              ((if (parseUnquoted (f+1) [] (cur s).2).1.length > cfg.maxStrLen then Code.noMemory else Code.ok), (parseUnquoted (f+1) [] (cur s).2).1, (parseUnquoted (f+1) [] (cur s).2).2)
            else (Code.invalid, [], (cur s).2)) = kr at hkey ⊢
      obtain ⟨kc, key, s1⟩ := kr
      cases kc <;> simp only at hkey ⊢ <;> try exact hkey
      -- kc = ok
      have h1 := inv_skipSpaces (cfg := cfg) (f+1) _ hkey
      split
      · rename_i heq; rw [heq] at h1
        have h2 := inv_cur h1
        split
        · exact h2
        · have h3 := ihV limit _ (inv_mv h2)
          split
          · rename_i heq3; rw [heq3] at h3
            have h4 := inv_skipSpaces (cfg := cfg) (f+1) _ h3
            split
            · rename_i heq4; rw [heq4] at h4
              have h5 := inv_cur h4
              split
              · exact inv_mv h5
              · split
                · have h6 := inv_skipSpaces (cfg := cfg) (f+1) _ (inv_mv h5)
                  split
                  · rename_i heq6; rw [heq6] at h6; exact ihM _ _ _ h6
                  · rename_i heq6; rw [heq6] at h6; exact h6
                · exact h5
            · rename_i heq4; rw [heq4] at h4; exact h4
          · rename_i heq3; rw [heq3] at h3; exact h3
      · rename_i heq; rw [heq] at h1; exact h1

theorem run_pos_le (cfg : Cfg) (limit : Nat) (input : List Byte) :
    (run cfg limit input).2.2 ≤ input.length := by
  have h0 : Inv input.length ({ l := { unread := input } } : St) := by simp [Inv]
  have h := (inv_mutual (n := input.length) (cfg := cfg) (2 * input.length + 4)).1 limit _ h0
  simp only [run]
  split
  · rename_i v s heq; rw [heq] at h; unfold Inv at h; simp only at h
    split <;> simp only <;> omega
  · rename_i e v s _ heq; rw [heq] at h; unfold Inv at h; simp only at h ⊢
    omega
end JD
