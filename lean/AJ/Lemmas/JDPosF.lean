/- The invariant `consumed + unread = length` (AJ/Lemmas/JDPos.lean) through the skipping routines and the filtered
   JSON parser: `frun` never takes more bytes than the input has. -/
import AJ.Lemmas.JDPos
namespace JD

theorem inv_skipQuoted {n stop} : ∀ fuel s, Inv n s → Inv n (skipQuoted stop fuel s).2 := by
  intro fuel
  induction fuel with
  | zero => intro s h; simpa [skipQuoted] using h
  | succ f ih =>
    intro s h
    simp only [skipQuoted]
    have h1 := inv_mv (inv_cur h)
    split
    · exact h1
    · split
      · exact h1
      · split
        · have h2 := inv_cur h1
          split
          · exact ih _ (inv_mv h2)
          · exact ih _ h2
        · exact ih _ h1

theorem inv_skipUnquoted {n} : ∀ fuel s, Inv n s → Inv n (skipUnquoted fuel s) := by
  intro fuel
  induction fuel with
  | zero => intro s h; simpa [skipUnquoted] using h
  | succ f ih =>
    intro s h
    simp only [skipUnquoted]
    have h1 := inv_cur h
    split
    · exact ih _ (inv_mv h1)
    · exact h1

theorem inv_skipNumeric {n cfg} : ∀ fuel s, Inv n s → Inv n (skipNumeric cfg fuel s) := by
  intro fuel
  induction fuel with
  | zero => intro s h; simpa [skipNumeric] using h
  | succ f ih =>
    intro s h
    simp only [skipNumeric]
    have h1 := inv_cur h
    split
    · exact ih _ (inv_mv h1)
    · exact h1

theorem inv_skip_mutual {n cfg} : ∀ fuel,
    (∀ limit s, Inv n s → Inv n (skipVariant cfg fuel limit s).2) ∧
    (∀ limit s, Inv n s → Inv n (skipElems cfg fuel limit s).2) ∧
    (∀ limit s, Inv n s → Inv n (skipMembers cfg fuel limit s).2) := by
  intro fuel
  induction fuel with
  | zero =>
    refine ⟨?_, ?_, ?_⟩
    · intro limit s h; simpa [skipVariant] using h
    · intro limit s h; simpa [skipElems] using h
    · intro limit s h; simpa [skipMembers] using h
  | succ f ih =>
    obtain ⟨ihV, ihE, ihM⟩ := ih
    refine ⟨?_, ?_, ?_⟩
    · intro limit s h
      simp only [skipVariant]
      have h0 := inv_skipSpaces (cfg := cfg) (f+1) s h
      split
      · rename_i s1 heq; rw [heq] at h0
        have h1 := inv_cur h0
        split
        · split
          · exact h1
          · exact ihE _ _ (inv_mv h1)
        · split
          · split
            · exact h1
            · have h2 := inv_skipSpaces (cfg := cfg) (f+1) _ (inv_mv h1)
              split
              · rename_i heq2; rw [heq2] at h2
                have h3 := inv_cur h2
                split
                · exact inv_mv h3
                · exact ihM _ _ h3
              · exact h2
          · split
            · exact inv_skipQuoted _ _ (inv_mv h1)
            · split
              · exact inv_skipKeyword _ _ h1
              · split
                · exact inv_skipKeyword _ _ h1
                · split
                  · exact inv_skipKeyword _ _ h1
                  · exact inv_skipNumeric _ _ h1
      · exact h0
    · intro limit s h
      simp only [skipElems]
      have h0 := ihV limit s h
      split
      · rename_i heq; rw [heq] at h0
        have h1 := inv_skipSpaces (cfg := cfg) (f+1) _ h0
        split
        · rename_i heq2; rw [heq2] at h1
          have h2 := inv_cur h1
          split
          · exact inv_mv h2
          · split
            · exact ihE _ _ (inv_mv h2)
            · exact h2
        · exact h1
      · exact h0
    · intro limit s h
      simp only [skipMembers]
      have hc := inv_cur h
      have hkey : Inv n (if ((cur s).1 == 0x22 || (cur s).1 == 0x27) = true then skipQuoted (cur s).1 (f+1) (mv (cur s).2)
            else (Code.ok, skipUnquoted (f+1) (cur s).2)).2 := by
        split
        · exact inv_skipQuoted _ _ (inv_mv hc)
        · exact inv_skipUnquoted _ _ hc
      generalize (if ((cur s).1 == 0x22 || (cur s).1 == 0x27) = true then skipQuoted (cur s).1 (f+1) (mv (cur s).2)
            else (Code.ok, skipUnquoted (f+1) (cur s).2)) = kr at hkey ⊢
      obtain ⟨kc, s1⟩ := kr
      simp only at hkey ⊢
      split
      · exact hkey
      · have h1 := inv_skipSpaces (cfg := cfg) (f+1) _ hkey
        split
        · rename_i heq; rw [heq] at h1
          have h2 := inv_cur h1
          split
          · exact h2
          · have h3 := ihV limit _ (inv_mv h2)
            split
            · rename_i heq3; rw [heq3] at h3
              have h4 := inv_skipSpaces (cfg := cfg) (f+1) _ h3
              split
              · rename_i heq4; rw [heq4] at h4
                have h5 := inv_cur h4
                split
                · exact inv_mv h5
                · split
                  · have h6 := inv_skipSpaces (cfg := cfg) (f+1) _ (inv_mv h5)
                    split
                    · rename_i heq6; rw [heq6] at h6; exact ihM _ _ h6
                    · exact h6
                  · exact h5
              · exact h4
            · exact h3
        · exact h1

theorem inv_fparse_mutual {n cfg} : ∀ fuel,
    (∀ limit flt s, Inv n s → Inv n (fparseVariant cfg fuel limit flt s).2.2) ∧
    (∀ limit flt s acc, Inv n s → Inv n (fparseElems cfg fuel limit flt s acc).2.2) ∧
    (∀ limit flt s ms, Inv n s → Inv n (fparseMembers cfg fuel limit flt s ms).2.2) := by
  intro fuel
  induction fuel with
  | zero =>
    refine ⟨?_, ?_, ?_⟩
    · intro limit flt s h; simpa [fparseVariant] using h
    · intro limit flt s acc h; simpa [fparseElems] using h
    · intro limit flt s ms h; simpa [fparseMembers] using h
  | succ f ih =>
    obtain ⟨ihV, ihE, ihM⟩ := ih
    have hSk := inv_skip_mutual (n := n) (cfg := cfg) f
    obtain ⟨skV, skE, skM⟩ := hSk
    refine ⟨?_, ?_, ?_⟩
    · intro limit flt s h
      simp only [fparseVariant]
      have h0 := inv_skipSpaces (cfg := cfg) (f+1) s h
      split
      · rename_i s1 heq; rw [heq] at h0
        have h1 := inv_cur h0
        split
        · -- '['
          split
          · split
            · exact h1
            · have h2 := inv_skipSpaces (cfg := cfg) (f+1) _ (inv_mv h1)
              split
              · rename_i heq2; rw [heq2] at h2
                have h3 := inv_cur h2
                split
                · exact inv_mv h3
                · exact ihE _ _ _ _ h3
              · rename_i heq2; rw [heq2] at h2; exact h2
          · split
            · exact h1
            · exact skE _ _ (inv_mv h1)
        · split
          · -- '{'
            split
            · split
              · exact h1
              · have h2 := inv_skipSpaces (cfg := cfg) (f+1) _ (inv_mv h1)
                split
                · rename_i heq2; rw [heq2] at h2
                  have h3 := inv_cur h2
                  split
                  · exact inv_mv h3
                  · exact ihM _ _ _ _ h3
                · rename_i heq2; rw [heq2] at h2; exact h2
            · split
              · exact h1
              · have h2 := inv_skipSpaces (cfg := cfg) (f+1) _ (inv_mv h1)
                split
                · rename_i heq2; rw [heq2] at h2
                  have h3 := inv_cur h2
                  split
                  · exact inv_mv h3
                  · exact skM _ _ h3
                · rename_i heq2; rw [heq2] at h2; exact h2
          · split
            · split
              · have h2 := inv_parseQuoted (cfg := cfg) (stop := (cur s1).1) (f+1) [] 0 _ (inv_mv h1)
                split <;> (rename_i heq2; rw [heq2] at h2; exact h2)
              · exact inv_skipQuoted _ _ (inv_mv h1)
            · split
              · exact inv_skipKeyword _ _ h1
              · split
                · exact inv_skipKeyword _ _ h1
                · split
                  · exact inv_skipKeyword _ _ h1
                  · split
                    · exact inv_parseNumeric _ h1
                    · exact inv_skipNumeric _ _ h1
      · rename_i heq; rw [heq] at h0; exact h0
    · intro limit flt s acc h
      simp only [fparseElems]
      have hk : Inv n (if flt.allow = true then
              ((fparseVariant cfg f limit flt s).fst, (fparseVariant cfg f limit flt s).2.fst :: acc,
                (fparseVariant cfg f limit flt s).2.snd)
            else ((skipVariant cfg f limit s).fst, acc, (skipVariant cfg f limit s).snd)).2.2 := by
        split
        · exact ihV _ _ _ h
        · exact skV _ _ h
      generalize (if flt.allow = true then
              ((fparseVariant cfg f limit flt s).fst, (fparseVariant cfg f limit flt s).2.fst :: acc,
                (fparseVariant cfg f limit flt s).2.snd)
            else ((skipVariant cfg f limit s).fst, acc, (skipVariant cfg f limit s).snd)) = kr at hk ⊢
      obtain ⟨e, vs, s1⟩ := kr
      simp only at hk ⊢
      split
      · have h1 := inv_skipSpaces (cfg := cfg) (f+1) _ hk
        split
        · rename_i heq2; rw [heq2] at h1
          have h2 := inv_cur h1
          split
          · exact inv_mv h2
          · split
            · exact ihE _ _ _ _ (inv_mv h2)
            · exact h2
        · rename_i heq2; rw [heq2] at h1; exact h1
      · exact hk
    · intro limit flt s ms h
      simp only [fparseMembers]
      have hc := inv_cur h
      have hkey : Inv n (if ((cur s).1 == 0x22 || (cur s).1 == 0x27) = true then parseQuoted cfg (cur s).1 (f+1) [] 0 (mv (cur s).2)
            else if inUnquoted (cur s).1 = true then
              ((if (parseUnquoted (f+1) [] (cur s).2).1.length > cfg.maxStrLen then Code.noMemory else Code.ok), (parseUnquoted (f+1) [] (cur s).2).1, (parseUnquoted (f+1) [] (cur s).2).2)
            else (Code.invalid, [], (cur s).2)).2.2 := by
        split
        · exact inv_parseQuoted _ _ _ _ (inv_mv hc)
        · split
          · exact inv_parseUnquoted _ _ _ hc
          · exact hc
      generalize (if ((cur s).1 == 0x22 || (cur s).1 == 0x27) = true then parseQuoted cfg (cur s).1 (f+1) [] 0 (mv (cur s).2)
            else if inUnquoted (cur s).1 = true then
              ((if (parseUnquoted (f+1) [] (cur s).2).1.length > cfg.maxStrLen then Code.noMemory else Code.ok), (parseUnquoted (f+1) [] (cur s).2).1, (parseUnquoted (f+1) [] (cur s).2).2)
            else (Code.invalid, [], (cur s).2)) = kr at hkey ⊢
      obtain ⟨kc, key, s1⟩ := kr
      cases kc <;> simp only at hkey ⊢ <;> try exact hkey
      have h1 := inv_skipSpaces (cfg := cfg) (f+1) _ hkey
      split
      · rename_i s2 heq; rw [heq] at h1
        have h2 := inv_cur h1
        split
        · exact h2
        · have hk : Inv n (if (flt.subKey key).allow = true then
                    ((fparseVariant cfg f limit (flt.subKey key) (mv (cur s2).snd)).fst,
                      setMember ms key (fparseVariant cfg f limit (flt.subKey key) (mv (cur s2).snd)).2.fst,
                      (fparseVariant cfg f limit (flt.subKey key) (mv (cur s2).snd)).2.snd)
                  else
                    ((skipVariant cfg f limit (mv (cur s2).snd)).fst, ms,
                      (skipVariant cfg f limit (mv (cur s2).snd)).snd)).2.2 := by
            split
            · exact ihV _ _ _ (inv_mv h2)
            · exact skV _ _ (inv_mv h2)
          generalize (if (flt.subKey key).allow = true then
                    ((fparseVariant cfg f limit (flt.subKey key) (mv (cur s2).snd)).fst,
                      setMember ms key (fparseVariant cfg f limit (flt.subKey key) (mv (cur s2).snd)).2.fst,
                      (fparseVariant cfg f limit (flt.subKey key) (mv (cur s2).snd)).2.snd)
                  else
                    ((skipVariant cfg f limit (mv (cur s2).snd)).fst, ms,
                      (skipVariant cfg f limit (mv (cur s2).snd)).snd)) = vr at hk ⊢
          obtain ⟨e, ms', s3⟩ := vr
          simp only at hk ⊢
          split
          · have h4 := inv_skipSpaces (cfg := cfg) (f+1) _ hk
            split
            · rename_i heq4; rw [heq4] at h4
              have h5 := inv_cur h4
              split
              · exact inv_mv h5
              · split
                · have h6 := inv_skipSpaces (cfg := cfg) (f+1) _ (inv_mv h5)
                  split
                  · rename_i heq6; rw [heq6] at h6; exact ihM _ _ _ _ h6
                  · rename_i heq6; rw [heq6] at h6; exact h6
                · exact h5
            · rename_i heq4; rw [heq4] at h4; exact h4
          · exact hk
      · rename_i heq; rw [heq] at h1; exact h1

theorem frun_pos_le (cfg : Cfg) (limit : Nat) (flt : Flt) (input : List Byte) :
    (frun cfg limit flt input).2.2 ≤ input.length := by
  have h0 : Inv input.length ({ l := { unread := input } } : St) := by simp [Inv]
  have h := (inv_fparse_mutual (n := input.length) (cfg := cfg) (2 * input.length + 4)).1 limit flt _ h0
  simp only [frun]
  split
  · rename_i v s heq; rw [heq] at h; unfold Inv at h; simp only at h
    split <;> simp only <;> omega
  · rename_i e v s _ heq; rw [heq] at h; unfold Inv at h; simp only at h ⊢
    omega
end JD
