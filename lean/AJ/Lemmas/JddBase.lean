/- Basic facts for the slot-level JSON deserializer `JDD` (AJ/Model/JDD.lean):
   * `PlEq`: documents that differ only by allocator traffic (log, call counter) and the overflow flag;
   * the ledger with the StringBuilder's buffer (`LB`);
   * the StringBuilder model: `startString`, `appendN`, `quoted`, `unquoted`, `save`;
   * forest surgery (`replaceAt` inside `replaceAt`).
   Used by AJ/Lemmas/JddInv.lean. -/
import AJ.Model.JDD
import AJ.Lemmas.DocMember
import AJ.Lemmas.DocCopy
import AJ.Lemmas.DocReuse
namespace JDD
open DL
open JD (Byte Code Cfg)

/-! ## Documents equal up to allocator traffic -/

/-- `PlEq d d'`: `d'` is `d` up to the allocator log, the allocator call counter and the overflow flag -/
structure PlEq (d d' : Doc) : Prop where
  g : d'.g = d.g
  root : d'.root = d.root
  cells : d'.cells = d.cells
  strings : d'.strings = d.strings
  nextNode : d'.nextNode = d.nextNode
  ovh : d'.strOverhead = d.strOverhead
  pools : d'.pl.pools = d.pl.pools
  free : d'.pl.free = d.pl.free
  tcap : d'.pl.tableCap = d.pl.tableCap
  theap : d'.pl.tableHeap = d.pl.tableHeap

theorem PlEq.refl (d : Doc) : PlEq d d := ⟨rfl, rfl, rfl, rfl, rfl, rfl, rfl, rfl, rfl, rfl⟩

theorem PlEq.trans {d d1 d2 : Doc} (h1 : PlEq d d1) (h2 : PlEq d1 d2) : PlEq d d2 :=
  ⟨h2.g.trans h1.g, h2.root.trans h1.root, h2.cells.trans h1.cells, h2.strings.trans h1.strings,
    h2.nextNode.trans h1.nextNode, h2.ovh.trans h1.ovh, h2.pools.trans h1.pools, h2.free.trans h1.free,
    h2.tcap.trans h1.tcap, h2.theap.trans h1.theap⟩

theorem PlEq.cell {d d' : Doc} (h : PlEq d d') (j : Nat) : d'.cell j = d.cell j := by
  simp only [Doc.cell, h.cells]

theorem PlEq.null {d d' : Doc} (h : PlEq d d') : d'.null = d.null := by simp only [Doc.null, h.g]

theorem PlEq.live {d d' : Doc} (h : PlEq d d') (x : Nat) : PL.live d'.g d'.pl x ↔ PL.live d.g d.pl x := by
  rw [h.g]; exact live_congr h.pools h.free x

theorem PlEq.inv {d d' : Doc} (h : PlEq d d') (hp : PL.Inv d.g d.pl) : PL.Inv d'.g d'.pl := by
  rw [h.g]; exact hp.congr h.pools h.tcap h.theap h.free

theorem PlEq.get {d d' : Doc} (h : PlEq d d') (l : Loc) : d'.get l = d.get l := by
  cases l with
  | root => exact h.root
  | slot i => exact get_of_cell (h.cell i)

theorem PlEq.strOK {d d' : Doc} (h : PlEq d d') {rs : List Nat} (hs : StrOK d rs) : StrOK d' rs :=
  StrOK_congr h.strings h.nextNode hs

theorem PlEq.strRefs {d d' : Doc} (h : PlEq d d') (F : Forest) : d'.strRefs F = d.strRefs F :=
  flatMap_congr' _ (fun l0 _ => by rw [h.get l0])

/-- the invariant does not see allocator traffic -/
theorem PlEq.wfg {d d' : Doc} {F : Forest} (h : PlEq d d') (w : WFG d F) (hs : StrOK d (d.strRefs F)) :
    WFG d' F ∧ StrOK d' (d'.strRefs F) ∧ abs d' = abs d :=
  wfg_frame w h.g h.root (fun x _ => h.cell x)
    (fun l0 h0 e he => ⟨h.cell e, (h.live e).2 (w.ext l0 h0 e he).2.1⟩)
    (h.inv w.pool) (fun x hx => (h.live x).2 (w.live x hx)) (h.strOK hs)
    (fun n _ => strBytes_of_strings h.strings n)

/-! ## The ledger, with the StringBuilder's buffer -/

/-- blocks outstanding according to the allocator log = blocks owned by the pool list + string nodes + the
    StringBuilder's buffer (when it holds one) -/
def LB (x : S) : Prop := PL.net x.d.pl = (x.d.strings.length : Int) + (if x.b.isSome then 1 else 0)

theorem realloc_net (s : PL.St) (n : Nat) (b : Bool) : PL.net (s.realloc n b).2 = PL.net s := by
  obtain ⟨ok, s1, h, h1, h2, _, _, h5⟩ := PL.realloc_facts s n b
  rw [h]; simp only [PL.net, PL.blocks, h1, h2, h5]

theorem dealloc_net (s : PL.St) : PL.net s.dealloc = PL.net s - 1 := by
  have : s.dealloc = s.rel [] 1 := rfl
  rw [this, net_rel]; rfl

/-! ## Pools with a block -/

/-- every pool of the list owns its block (no pool creation has failed) -/
def AllB (d : Doc) : Prop := ∀ p ∈ d.pl.pools, p.hasBlock = true

theorem AllB_of_pools {d d' : Doc} (h : d'.pl.pools = d.pl.pools) (hb : AllB d) : AllB d' := by
  unfold AllB; rw [h]; exact hb

theorem lastPool_blk {g : PL.Geo} {s s' : PL.St} {id : Nat} (hb : ∀ p ∈ s.pools, p.hasBlock = true)
    (h : PL.allocFromLastPool g s = (some id, s')) : ∀ p ∈ s'.pools, p.hasBlock = true := by
  obtain ⟨ps, p, hs, hp, _, _, rfl⟩ := PL.allocFromLastPool_some h
  intro q hq
  simp only [List.mem_append, List.mem_singleton] at hq
  rcases hq with hq | rfl
  · exact hb q (by rw [hs]; simp [hq])
  · exact hp

/-- a slot allocation that succeeds leaves no pool without its block -/
theorem allocSlot_blk {g : PL.Geo} {s s' : PL.St} {id : Nat} (gok : PL.GeoOK g) (hI : PL.Inv g s)
    (hb : ∀ p ∈ s.pools, p.hasBlock = true) (h : PL.allocSlot g s = (some id, s')) :
    ∀ p ∈ s'.pools, p.hasBlock = true := by
  cases hf : s.free with
  | cons a rest =>
    rw [PL.allocSlot_cons hf] at h
    simp only [Prod.mk.injEq] at h
    obtain ⟨_, rfl⟩ := h
    exact hb
  | nil =>
    unfold PL.allocSlot at h
    rw [hf] at h
    simp only at h
    generalize hr1 : (if s.pools.isEmpty then (none, s) else PL.allocFromLastPool g s) = r1 at h
    obtain ⟨r, s1⟩ := r1
    simp only at h
    split at h
    · rename_i id'
      cases h
      split at hr1
      · cases hr1
      · exact lastPool_blk hb hr1
    · have hfull := PL.all_full_of_none hI hr1
      generalize hr2 : PL.addPool g s = r2 at h
      obtain ⟨ok, s2⟩ := r2
      obtain ⟨_, _, _, _, e⟩ := PL.addPool_ok gok hI hfull hr2
      simp only at h
      split at h
      · cases h
      · rename_i hok
        have hok' : ok = true := by simpa using hok
        obtain ⟨p, hp, _⟩ := e hok'
        -- the last pool served, so it has its block; the others are the old ones
        obtain ⟨ps, q, hs2, hq, _, _, rfl⟩ := PL.allocFromLastPool_some h
        have hps : ps = s.pools ∧ q = p := by
          rw [hp] at hs2
          exact ⟨(List.append_inj' hs2 rfl).1.symm, by have := (List.append_inj' hs2 rfl).2; simpa using this.symm⟩
        intro z hz
        simp only [List.mem_append, List.mem_singleton] at hz
        rcases hz with hz | rfl
        · exact hb z (hps.1 ▸ hz)
        · exact hq

/-! ## Forest surgery -/

theorem replaceSub_nest (i j : Nat) (A B : Forest) :
    ∀ (F : Forest), j ∉ F.ids → (F.replaceSub i A).replaceSub j B = F.replaceSub i (A.replaceSub j B) := by
  intro F
  induction F with
  | nil => intro _; rfl
  | cons k a s r ihs ihr =>
    intro hj
    simp only [Forest.ids, List.mem_append, List.mem_cons, not_or] at hj
    obtain ⟨_, haj, hjs, hjr⟩ := hj
    by_cases hai : a = i
    · simp only [Forest.replaceSub, if_pos hai, if_neg (Ne.symm haj)]
      rw [Forest.replaceSub_of_notin j B r (fun m => hjr (r.locs_sub_ids j m))]
    · simp only [Forest.replaceSub, if_neg hai, if_neg (Ne.symm haj), ihs hjs, ihr hjr]

theorem replaceAt_nest {F : Forest} {l : Loc} {j : Nat} (A B : Forest) (hj : j ∉ F.ids) :
    replaceAt (replaceAt F l A) (.slot j) B = replaceAt F l (A.replaceSub j B) := by
  cases l with
  | root => rfl
  | slot i => exact replaceSub_nest i j A B F hj

theorem ids_replaceSub_sub (i : Nat) (s' : Forest) : ∀ (F : Forest) (x : Nat), x ∈ (F.replaceSub i s').ids →
    x ∈ F.ids ∨ x ∈ s'.ids := by
  intro F
  induction F with
  | nil => intro x h; cases h
  | cons k a s r ihs ihr =>
    intro x h
    simp only [Forest.replaceSub] at h
    split at h
    · simp only [Forest.ids, List.mem_append, List.mem_cons] at h ⊢
      rcases h with h | h | h | h
      · exact Or.inl (Or.inl h)
      · exact Or.inl (Or.inr (Or.inl h))
      · exact Or.inr h
      · exact Or.inl (Or.inr (Or.inr (Or.inr h)))
    · simp only [Forest.ids, List.mem_append, List.mem_cons] at h ⊢
      rcases h with h | h | h | h
      · exact Or.inl (Or.inl h)
      · exact Or.inl (Or.inr (Or.inl h))
      · rcases ihs x h with h | h
        · exact Or.inl (Or.inr (Or.inr (Or.inl h)))
        · exact Or.inr h
      · rcases ihr x h with h | h
        · exact Or.inl (Or.inr (Or.inr (Or.inr h)))
        · exact Or.inr h

theorem subOf_replaceSub_self (i : Nat) (s' : Forest) : ∀ (F : Forest), i ∈ F.locs → (F.replaceSub i s').subOf i = s' := by
  intro F
  induction F with
  | nil => intro h; cases h
  | cons k a s r ihs ihr =>
    intro h
    by_cases hai : a = i
    · simp only [Forest.replaceSub, if_pos hai, Forest.subOf]
    · simp only [Forest.replaceSub, if_neg hai, Forest.subOf]
      simp only [Forest.locs, List.mem_cons, List.mem_append] at h
      by_cases his : i ∈ s.locs
      · rw [if_pos (Forest.self_mem_locs_replaceSub s i s' his)]; exact ihs his
      · have hir : i ∈ r.locs := by
          rcases h with e | m | m
          · exact absurd e.symm hai
          · exact absurd m his
          · exact m
        rw [Forest.replaceSub_of_notin i s' s his, if_neg his]; exact ihr hir

theorem layoutAt_replaceAt {F : Forest} {l : Loc} (s' : Forest) (hl : isLoc F l) : layoutAt (replaceAt F l s') l = s' := by
  cases l with
  | root => rfl
  | slot i => exact subOf_replaceSub_self i s' F hl

/-! ## The StringBuilder -/

/-- effect of a StringBuilder operation `x → x'`: only allocator traffic and the overflow flag; the ledger follows the
    buffer; the flag is sticky -/
structure BOp (x x' : S) : Prop where
  pleq : PlEq x.d x'.d
  bal : LB x → LB x'
  ovs : x.d.overflowed = true → x'.d.overflowed = true

theorem BOp.refl (x : S) : BOp x x := ⟨PlEq.refl _, fun h => h, fun h => h⟩

theorem BOp.trans {x x1 x2 : S} (h1 : BOp x x1) (h2 : BOp x1 x2) : BOp x x2 :=
  ⟨h1.pleq.trans h2.pleq, fun h => h2.bal (h1.bal h), fun h => h2.ovs (h1.ovs h)⟩

/-- moving the reader is not seen -/
theorem BOp.reader {x x' : S} (h : BOp x x') (s : JD.St) : BOp x { x' with s := s } := ⟨h.pleq, h.bal, h.ovs⟩
theorem BOp.reader_l {x x' : S} (s : JD.St) (h : BOp { x with s := s } x') : BOp x x' := ⟨h.pleq, h.bal, h.ovs⟩

theorem startString_spec (x : S) :
    BOp x (startString x) ∧ (startString x).s = x.s ∧
    (((startString x).b.isSome = true ∧ (startString x).d.overflowed = x.d.overflowed) ∨
      ((startString x).b = none ∧ (startString x).d.overflowed = true)) := by
  unfold startString
  cases hb : x.b with
  | some c => exact ⟨BOp.refl x, rfl, Or.inl ⟨by rw [hb]; rfl, rfl⟩⟩
  | none =>
    simp only
    have hn := alloc_net x.d.pl (31 + x.d.strOverhead)
    have hf := PL.alloc_fst x.d.pl (31 + x.d.strOverhead)
    generalize hq : x.d.pl.alloc (31 + x.d.strOverhead) = q at hn hf
    obtain ⟨ok, pl⟩ := q
    have hpl : pl = (x.d.pl.alloc (31 + x.d.strOverhead)).2 := by rw [hq]
    simp only at hn hf ⊢
    have pe : ∀ o, PlEq x.d { x.d with pl := pl, overflowed := o } :=
      fun o => ⟨rfl, rfl, rfl, rfl, rfl, rfl, by rw [hpl]; rfl, by rw [hpl]; rfl, by rw [hpl]; rfl, by rw [hpl]; rfl⟩
    cases ok with
    | true =>
      simp only [if_true]
      refine ⟨⟨pe _, ?_, fun h => h⟩, trivial, Or.inl ⟨rfl, trivial⟩⟩
      intro h
      have hfa : x.d.pl.failsAt (x.d.pl.calls + 1) = false := by
        cases hh : x.d.pl.failsAt (x.d.pl.calls + 1) <;> simp [hh] at hf ⊢
      unfold LB at h ⊢
      simp only [hb, Option.isSome_none, Bool.false_eq_true, if_false, Option.isSome_some, if_true] at h ⊢
      rw [hn, hfa, h]; simp
    | false =>
      simp only [Bool.false_eq_true, if_false]
      refine ⟨⟨pe _, ?_, fun _ => rfl⟩, trivial, Or.inr ⟨trivial, trivial⟩⟩
      intro h
      have hfa : x.d.pl.failsAt (x.d.pl.calls + 1) = true := by
        cases hh : x.d.pl.failsAt (x.d.pl.calls + 1) <;> simp [hh] at hf ⊢
      unfold LB at h ⊢
      simp only [hb, Option.isSome_none, Bool.false_eq_true, if_false] at h ⊢
      rw [hn, hfa, h]; simp

/-- what `k` calls of `append(char)` do -/
structure AOp (x x' : S) : Prop where
  bop : BOp x x'
  s : x'.s = x.s
  kept : x'.b.isSome = true → x.b.isSome = true ∧ x'.d.overflowed = x.d.overflowed
  lost : x'.b = none → x.b = none ∨ x'.d.overflowed = true

theorem AOp.refl (x : S) : AOp x x := ⟨BOp.refl x, rfl, fun h => ⟨h, rfl⟩, fun h => Or.inl h⟩

theorem AOp.trans {x x1 x2 : S} (h1 : AOp x x1) (h2 : AOp x1 x2) : AOp x x2 := by
  refine ⟨h1.bop.trans h2.bop, h2.s.trans h1.s, ?_, ?_⟩
  · intro h
    obtain ⟨a, b⟩ := h2.kept h
    obtain ⟨c, e⟩ := h1.kept a
    exact ⟨c, b.trans e⟩
  · intro h
    rcases h2.lost h with a | a
    · rcases h1.lost a with b | b
      · exact Or.inl b
      · exact Or.inr (h2.bop.ovs b)
    · exact Or.inr a

theorem appendN_spec (maxLen : Nat) : ∀ (k size : Nat) (x : S), AOp x (appendN maxLen k size x) := by
  intro k
  induction k with
  | zero => intro size x; exact AOp.refl x
  | succ k ih =>
    intro size x
    unfold appendN
    cases hb : x.b with
    | none => exact AOp.refl x
    | some cap =>
      simp only
      split
      · split
        · -- beyond the maximal length: the node is released
          refine AOp.trans ?_ (ih _ _)
          refine ⟨⟨⟨rfl, rfl, rfl, rfl, rfl, rfl, rfl, rfl, rfl, rfl⟩, ?_, fun _ => rfl⟩, rfl,
            (fun h => by cases h), fun _ => Or.inr rfl⟩
          intro h
          unfold LB at h ⊢
          simp only [hb, Option.isSome_some, if_true, Option.isSome_none, Bool.false_eq_true, if_false] at h ⊢
          rw [dealloc_net, h]; omega
        · have hn := realloc_net x.d.pl (size * 2 + 1 + x.d.strOverhead) true
          generalize hq : x.d.pl.realloc (size * 2 + 1 + x.d.strOverhead) true = q at hn
          obtain ⟨ok, pl⟩ := q
          have hpl : pl = (x.d.pl.realloc (size * 2 + 1 + x.d.strOverhead) true).2 := by rw [hq]
          simp only at hn ⊢
          cases ok with
          | true =>
            simp only [if_true]
            refine AOp.trans ?_ (ih _ _)
            refine ⟨⟨⟨rfl, rfl, rfl, rfl, rfl, rfl, by rw [hpl]; rfl, by rw [hpl]; rfl, by rw [hpl]; rfl,
              by rw [hpl]; rfl⟩, ?_, fun h => h⟩, rfl, fun _ => ⟨by rw [hb]; rfl, rfl⟩, fun h => by cases h⟩
            intro h
            unfold LB at h ⊢
            simp only [hb, Option.isSome_some, if_true] at h ⊢
            rw [hn, h]
          | false =>
            simp only [Bool.false_eq_true, if_false]
            refine AOp.trans ?_ (ih _ _)
            refine ⟨⟨⟨rfl, rfl, rfl, rfl, rfl, rfl, by rw [hpl]; rfl, by rw [hpl]; rfl, by rw [hpl]; rfl,
              by rw [hpl]; rfl⟩, ?_, fun _ => rfl⟩, rfl, (fun h => by cases h), fun _ => Or.inr rfl⟩
            intro h
            unfold LB at h ⊢
            simp only [hb, Option.isSome_some, if_true, Option.isSome_none, Bool.false_eq_true, if_false] at h ⊢
            rw [dealloc_net, hn, h]; omega
      · exact ih _ _

/-- effect of reading one string token through the builder -/
structure TokOp (x x' : S) : Prop where
  bop : BOp x x'
  kept : x'.b.isSome = true → x'.d.overflowed = x.d.overflowed
  lost : x'.b = none → x'.d.overflowed = true

theorem tok_of {x x1 x2 : S} (h1 : BOp x x1)
    (hb : (x1.b.isSome = true ∧ x1.d.overflowed = x.d.overflowed) ∨ (x1.b = none ∧ x1.d.overflowed = true))
    (h2 : AOp x1 x2) : TokOp x x2 := by
  refine ⟨h1.trans h2.bop, ?_, ?_⟩
  · intro h
    obtain ⟨a, b⟩ := h2.kept h
    rcases hb with ⟨_, e⟩ | ⟨e, _⟩
    · exact b.trans e
    · rw [e] at a; cases a
  · intro h
    rcases h2.lost h with a | a
    · rcases hb with ⟨e, _⟩ | ⟨_, e⟩
      · rw [a] at e; cases e
      · exact h2.bop.ovs e
    · exact a

theorem quoted_spec (cfg : Cfg) (fuel : Nat) (stop : Byte) (x : S) :
    TokOp x (quoted cfg fuel stop x).2.2 ∧
    ((quoted cfg fuel stop x).1 = .ok → (quoted cfg fuel stop x).2.2.b.isSome = true) ∧
    ((quoted cfg fuel stop x).1 = .noMemory → (quoted cfg fuel stop x).2.2.b = none) := by
  obtain ⟨h1, _, hb⟩ := startString_spec x
  unfold quoted
  simp only
  generalize JD.parseQuoted cfg stop fuel [] 0 (startString x).s = r
  obtain ⟨c, bytes, s⟩ := r
  simp only
  have h2 := appendN_spec cfg.maxStrLen bytes.length 0 { startString x with s := s }
  generalize appendN cfg.maxStrLen bytes.length 0 { startString x with s := s } = x2 at h2
  refine ⟨tok_of (x1 := { startString x with s := s }) (h1.reader s) hb h2, ?_, ?_⟩
  · intro h
    split at h
    · cases hx : x2.b with
      | some c => rfl
      | none => rw [hx] at h; simp at h
    · rename_i hc; subst h; simp at hc
  · intro h
    split at h
    · cases hx : x2.b with
      | some c => rw [hx] at h; simp at h
      | none => rfl
    · rename_i hc; subst h; simp at hc

theorem unquoted_spec (cfg : Cfg) (fuel : Nat) (x : S) :
    TokOp x (unquoted cfg fuel x).2.2 ∧
    ((unquoted cfg fuel x).1 = .ok → (unquoted cfg fuel x).2.2.b.isSome = true) ∧
    ((unquoted cfg fuel x).1 = .noMemory → (unquoted cfg fuel x).2.2.b = none) ∧
    ((unquoted cfg fuel x).1 = .ok ∨ (unquoted cfg fuel x).1 = .noMemory) := by
  obtain ⟨h1, _, hb⟩ := startString_spec x
  unfold unquoted
  simp only
  generalize JD.parseUnquoted fuel [] (startString x).s = r
  obtain ⟨bytes, s⟩ := r
  simp only
  have h2 := appendN_spec cfg.maxStrLen bytes.length 0 { startString x with s := s }
  generalize appendN cfg.maxStrLen bytes.length 0 { startString x with s := s } = x2 at h2
  refine ⟨tok_of (x1 := { startString x with s := s }) (h1.reader s) hb h2, ?_, ?_, ?_⟩
  · intro h
    cases hx : x2.b with
    | some c => rfl
    | none => rw [hx] at h; simp at h
  · intro h
    cases hx : x2.b with
    | some c => rw [hx] at h; simp at h
    | none => rfl
  · cases x2.b <;> simp

/-! ## `StringBuilder::save` -/

/-- the document with an allocator that never fails (a device to reuse the lemmas about `Doc.saveString`) -/
def calm (d : Doc) (mx : Nat) : Doc := { d with pl := { d.pl with failAt := [], failFrom := none }, maxStrLen := mx }

theorem calm_failsAt (d : Doc) (mx n : Nat) : (calm d mx).pl.failsAt n = false := rfl

/-- effect of `save`: node `n` gained a reference (or was created with one); nothing else but allocator traffic -/
structure SaveOp (x : S) (bytes : List Byte) (n : Nat) (x' : S) : Prop where
  s : x'.s = x.s
  g : x'.d.g = x.d.g
  root : x'.d.root = x.d.root
  cells : x'.d.cells = x.d.cells
  ovh : x'.d.strOverhead = x.d.strOverhead
  ov : x'.d.overflowed = x.d.overflowed
  pools : x'.d.pl.pools = x.d.pl.pools
  free : x'.d.pl.free = x.d.pl.free
  tcap : x'.d.pl.tableCap = x.d.pl.tableCap
  theap : x'.d.pl.tableHeap = x.d.pl.tableHeap
  str : ∀ rs, StrOK x.d rs → StrOK x'.d (n :: rs)
  keep : ∀ rs, StrOK x.d rs → ∀ m ∈ rs, x'.d.strBytes m = x.d.strBytes m
  new : ∀ rs, StrOK x.d rs → x'.d.strBytes n = bytes
  bal : x.b.isSome = true → LB x → LB x'

theorem save_eq_found {x : S} {bytes : List Byte} {y : StrNode} (hf : x.d.strings.find? (·.bytes == bytes) = some y) :
    save x bytes = (y.id, { x with d := { x.d with strings :=
      (x.d.strings.map (fun z => if z.id == y.id then { z with refs := z.refs + 1 } else z)) } }) := by
  simp only [save, hf]

theorem save_eq_new {x : S} {bytes : List Byte} (hf : x.d.strings.find? (·.bytes == bytes) = none) :
    save x bytes = (x.d.nextNode, { x with d := { x.d with
        pl := (x.d.pl.realloc (bytes.length + x.d.strOverhead) false).2,
        strings := ⟨x.d.nextNode, bytes, 1⟩ :: x.d.strings, nextNode := x.d.nextNode + 1 }, b := none }) := by
  simp only [save, hf]

/-- `save` through `saveString` on the calm document -/
theorem save_via (x : S) (bytes : List Byte) (n : Nat) (x' : S) (d1 : Doc)
    (hsv : (calm x.d bytes.length).saveString bytes = (some n, d1)) (hstr : d1.strings = x'.d.strings)
    (hnn : d1.nextNode = x'.d.nextNode) :
    (∀ rs, StrOK x.d rs → StrOK x'.d (n :: rs)) ∧
    (∀ rs, StrOK x.d rs → ∀ m ∈ rs, x'.d.strBytes m = x.d.strBytes m) ∧
    (∀ rs, StrOK x.d rs → x'.d.strBytes n = bytes) := by
  have hc : ∀ rs, StrOK x.d rs → StrOK (calm x.d bytes.length) rs := fun rs hs => StrOK_congr (d := x.d) (d' := calm x.d bytes.length) rfl rfl hs
  refine ⟨fun rs hs => StrOK_congr (d := d1) hstr.symm hnn.symm (saveString_strOK (hc rs hs) hsv), ?_, ?_⟩
  · intro rs hs m hm
    obtain ⟨_, _, _, _, hkeep, _⟩ := saveString_spec (d := calm x.d bytes.length) (hc rs hs).ids_nodup (hc rs hs).ids_lt hsv
    rw [strBytes_of_strings hstr.symm, hkeep m (hs.present m hm)]; rfl
  · intro rs hs
    obtain ⟨_, _, _, hb, _⟩ := saveString_spec (d := calm x.d bytes.length) (hc rs hs).ids_nodup (hc rs hs).ids_lt hsv
    rw [strBytes_of_strings hstr.symm]; exact hb

theorem save_spec (x : S) (bytes : List Byte) : SaveOp x bytes (save x bytes).1 (save x bytes).2 := by
  cases hf : x.d.strings.find? (·.bytes == bytes) with
  | some y =>
    have hf' : (calm x.d bytes.length).strings.find? (·.bytes == bytes) = some y := hf
    obtain ⟨a, b, c⟩ := save_via x bytes y.id (save x bytes).2 _ (saveString_found hf')
      (by rw [save_eq_found hf]; rfl) (by rw [save_eq_found hf]; rfl)
    rw [save_eq_found hf] at a b c ⊢
    refine ⟨rfl, rfl, rfl, rfl, rfl, rfl, rfl, rfl, rfl, rfl, a, b, c, ?_⟩
    intro _ h
    unfold LB at h ⊢
    simp only [List.length_map]; exact h
  | none =>
    have hf' : (calm x.d bytes.length).strings.find? (·.bytes == bytes) = none := hf
    have hn := realloc_net x.d.pl (bytes.length + x.d.strOverhead) false
    have hsv := saveString_short hf' (Nat.le_refl _)
    rw [calm_failsAt] at hsv
    simp only [Bool.false_eq_true, if_false] at hsv
    obtain ⟨a, b, c⟩ := save_via x bytes x.d.nextNode (save x bytes).2 _ hsv
      (by rw [save_eq_new hf]; rfl) (by rw [save_eq_new hf]; rfl)
    rw [save_eq_new hf] at a b c ⊢
    refine ⟨rfl, rfl, rfl, rfl, rfl, rfl, rfl, rfl, rfl, rfl, a, b, c, ?_⟩
    intro hb h
    unfold LB at h ⊢
    simp only [hb, if_true, Option.isSome_none, Bool.false_eq_true, if_false, List.length_cons] at h ⊢
    rw [hn, h]; simp

end JDD
