/- The invariant of AJ/Lemmas/JddOps.lean pushed through `JDD.parseVariant / parseElems / parseMembers` (induction on the
   fuel, conjunction over the mutual block) and through `JDD.run`: for every input and every allocator failure schedule
   the document stays well-formed, the ledger balances, and the result code tells whether an allocation failed.
   Used by AJ/Props/C03Doc.lean and AJ/Props/C05Deser.lean. -/
import AJ.Lemmas.JddOps
namespace JDD
open DL
open JD (Byte Code Cfg cur mv skipSpaces skipKeyword)

/-! ## The lexing routines never report NoMemory -/

theorem skipBlock_nm : ∀ fuel w s, (JD.skipBlock fuel w s).1 ≠ .noMemory := by
  intro fuel
  induction fuel with
  | zero => intro w s; simp [JD.skipBlock]
  | succ f ih =>
    intro w s
    simp only [JD.skipBlock]
    split
    · simp
    · split
      · simp
      · exact ih _ _

theorem skipLine_nm : ∀ fuel s, (JD.skipLine fuel s).1 ≠ .noMemory := by
  intro fuel
  induction fuel with
  | zero => intro s; simp [JD.skipLine]
  | succ f ih =>
    intro s
    simp only [JD.skipLine]
    split
    · simp
    · split
      · simp
      · exact ih _

theorem skipSpaces_nm (cfg : Cfg) : ∀ fuel s, (skipSpaces cfg fuel s).1 ≠ .noMemory := by
  intro fuel
  induction fuel with
  | zero => intro s; simp [skipSpaces]
  | succ f ih =>
    intro s
    simp only [skipSpaces]
    split
    · split <;> simp
    · split
      · exact ih _
      · split
        · split
          · have h3 := skipBlock_nm f false (mv (cur (mv (cur s).2)).2)
            split
            · exact ih _
            · exact h3
          · split
            · have h3 := skipLine_nm f (cur (mv (cur s).2)).2
              split
              · exact ih _
              · exact h3
            · simp
        · simp

theorem skipKeyword_nm : ∀ ks s, (skipKeyword ks s).1 ≠ .noMemory := by
  intro ks
  induction ks with
  | nil => intro s; simp [skipKeyword]
  | cons k ks ih =>
    intro s
    simp only [skipKeyword]
    split
    · simp
    · split
      · simp
      · exact ih _

/-! ## Accounting: ledger and overflow flag against the result code -/

/-- the ledger, on the components of the state -/
def LBd (d : Doc) (b : Option Nat) : Prop := PL.net d.pl = (d.strings.length : Int) + (if b.isSome then 1 else 0)

theorem LB_eq (x : S) : LB x = LBd x.d x.b := rfl

theorem LBd_iff (d : Doc) (b : Option Nat) : LBd d b ↔ nl d = (if b.isSome then 1 else 0) := by
  unfold LBd nl; omega

/-- from `(d, b)` to `(d', b')` with result code `c`: the ledger stays balanced, the overflow flag is sticky, `Ok` means
    nothing failed, `NoMemory` means the flag is set -/
structure Fx (d : Doc) (b : Option Nat) (d' : Doc) (b' : Option Nat) (c : Code) : Prop where
  bal : LBd d b → LBd d' b'
  ovs : d.overflowed = true → d'.overflowed = true
  ok : c = .ok → d'.overflowed = d.overflowed
  nomem : c = .noMemory → d'.overflowed = true
  blk : Blk d → Blk d'

theorem Fx.refl (d : Doc) (b : Option Nat) : Fx d b d b .ok :=
  ⟨fun h => h, fun h => h, fun _ => rfl, (fun h => by cases h), fun h => h⟩

theorem Fx.trans {d d1 d2 : Doc} {b b1 b2 : Option Nat} {c : Code} (h1 : Fx d b d1 b1 .ok) (h2 : Fx d1 b1 d2 b2 c) :
    Fx d b d2 b2 c :=
  ⟨fun h => h2.bal (h1.bal h), fun h => h2.ovs (h1.ovs h), fun e => (h2.ok e).trans (h1.ok rfl), h2.nomem,
    fun h => h2.blk (h1.blk h)⟩

/-- a silent step followed by an exit with a code other than NoMemory -/
theorem Fx.code {d d' : Doc} {b b' : Option Nat} (h : Fx d b d' b' .ok) {c : Code} (hc : c ≠ .noMemory) : Fx d b d' b' c :=
  ⟨h.bal, h.ovs, fun _ => h.ok rfl, fun e => absurd e hc, h.blk⟩

/-- a step that ends in NoMemory with the flag set -/
theorem Fx.fail {d d' : Doc} {b b' : Option Nat} (hb : LBd d b → LBd d' b') (ho : d'.overflowed = true) :
    Fx d b d' b' .noMemory :=
  ⟨hb, fun _ => ho, (fun e => by cases e), fun _ => ho, fun _ => Or.inr ho⟩

/-- an operation on slots: the difference ledger − string table and the flag are kept -/
theorem Fx.doc {d d' : Doc} (b : Option Nat) (hnl : nl d' = nl d) (hov : d'.overflowed = d.overflowed)
    (hblk : AllB d → Blk d') : Fx d b d' b .ok :=
  ⟨(fun h => by rw [LBd_iff] at h ⊢; rw [hnl]; exact h), (fun h => by rw [hov]; exact h), fun _ => hov,
    (fun h => by cases h), fun h => h.elim hblk (fun o => Or.inr (by rw [hov]; exact o))⟩

/-- storing a value in a slot -/
theorem Fx.set (d : Doc) (b : Option Nat) (l : Loc) (v : VData) : Fx d b (d.set l v) b .ok :=
  Fx.doc b (nl_set _ _ _) (set_overflowed _ _ _) (fun hb => Or.inl (AllB_of_pools (by rw [set_pl]) hb))

theorem Blk.of_pleq {d d' : Doc} (h : d'.pl.pools = d.pl.pools) (ho : d.overflowed = true → d'.overflowed = true)
    (hb : Blk d) : Blk d' := hb.elim (fun a => Or.inl (AllB_of_pools h a)) (fun o => Or.inr (ho o))

theorem Fx.doc_fail {d d' : Doc} (b : Option Nat) (hnl : nl d' = nl d) (hov : d'.overflowed = true) :
    Fx d b d' b .noMemory :=
  Fx.fail (fun h => by rw [LBd_iff] at h ⊢; rw [hnl]; exact h) hov

/-- a string token read through the builder -/
theorem Fx.tok {x x1 : S} {c : Code} {d : Doc} {b : Option Nat} (h : TokOp x x1) (hd : x.d = d) (hb : x.b = b)
    (hok : c = .ok → x1.b.isSome = true) (hnm : c = .noMemory → x1.b = none) : Fx d b x1.d x1.b c := by
  subst hd hb
  exact ⟨h.bop.bal, h.bop.ovs, fun e => h.kept (hok e), fun e => h.lost (hnm e),
    Blk.of_pleq h.bop.pleq.pools h.bop.ovs⟩

/-- result of a parsing routine started in `x` for the location `l` of the reference document `d0` -/
structure Res (d0 : Doc) (F : Forest) (l : Loc) (x : S) (r : Code × S) : Prop where
  built : ∃ s, Built d0 F l r.2.d s
  fx : Fx x.d x.b r.2.d r.2.b r.1

theorem Res.exit {d0 : Doc} {F : Forest} {l : Loc} {x x' : S} {s : Forest} {c : Code} (B : Built d0 F l x'.d s)
    (fx : Fx x.d x.b x'.d x'.b c) : Res d0 F l x (c, x') := ⟨⟨s, B⟩, fx⟩

/-- the start state matters through its document and builder only -/
theorem Res.of_eq {d0 : Doc} {F : Forest} {l : Loc} {x x' : S} {r : Code × S} (hd : x'.d = x.d) (hb : x'.b = x.b)
    (h : Res d0 F l x' r) : Res d0 F l x r := ⟨h.built, by rw [← hd, ← hb]; exact h.fx⟩

theorem Res.step {d0 : Doc} {F : Forest} {l : Loc} {x x1 : S} {r : Code × S} (fx : Fx x.d x.b x1.d x1.b .ok)
    (h : Res d0 F l x1 r) : Res d0 F l x r := ⟨h.built, fx.trans h.fx⟩

theorem LBd_set (d : Doc) (b : Option Nat) (l : Loc) (v : VData) : LBd (d.set l v) b ↔ LBd d b := by
  unfold LBd; rw [set_pl, set_strings]

/-- `save` followed by the store of the node -/
theorem Fx.save_set {x x' : S} {bytes : List Byte} {n : Nat} (sv : SaveOp x bytes n x') (hb : x.b.isSome = true)
    (l : Loc) (v : VData) : Fx x.d x.b (x'.d.set l v) x'.b .ok :=
  ⟨fun h => (LBd_set _ _ _ _).2 (sv.bal hb h), (fun h => by rw [set_overflowed, sv.ov]; exact h),
    (fun _ => by rw [set_overflowed, sv.ov]), (fun h => by cases h),
    Blk.of_pleq (by rw [set_pl, sv.pools]) (fun h => by rw [set_overflowed, sv.ov]; exact h)⟩

theorem Fx.save {x x' : S} {bytes : List Byte} {n : Nat} (sv : SaveOp x bytes n x') (hb : x.b.isSome = true) :
    Fx x.d x.b x'.d x'.b .ok :=
  ⟨fun h => sv.bal hb h, (fun h => by rw [sv.ov]; exact h), (fun _ => sv.ov), (fun h => by cases h),
    Blk.of_pleq sv.pools (fun h => by rw [sv.ov]; exact h)⟩

/-- `parseNumericValue` -/
theorem numeric_res (cfg : Cfg) {d0 : Doc} {F : Forest} {l : Loc} {x : S} (C : Ctx d0 F l) (B : Built d0 F l x.d .nil)
    (hn : x.d.get l = .null) : Res d0 F l x (numeric cfg l x) := by
  have store : ∀ (s : JD.St) (a : Arg), isNum a →
      Res d0 F l x ((if (x.d.setArg l a).1 = true then Code.ok else Code.noMemory),
        ({ s := s, d := (x.d.setArg l a).2, b := x.b } : S)) := by
    intro s a ha
    obtain ⟨b1, b2, b3, b4, b5, b6⟩ := B.setArg_num C hn ha
    refine Res.exit b1 ⟨(fun h => by rw [LBd_iff] at h ⊢; rw [b2]; exact h), b5, fun e => ?_, fun e => ?_,
      fun h => h.elim b6 (fun o => Or.inr (b5 o))⟩
    · cases hh : (x.d.setArg l a).1 with
      | true => exact b3 hh
      | false => rw [hh] at e; simp at e
    · cases hh : (x.d.setArg l a).1 with
      | true => rw [hh] at e; simp at e
      | false => exact b4 hh
  unfold numeric
  simp only
  split
  · exact store _ _ trivial
  · exact store _ _ trivial
  · exact store _ _ trivial
  · exact store _ _ trivial
  · exact Res.exit B ((Fx.refl _ _).code (by simp))
  · exact Res.exit B ((Fx.refl _ _).code (by simp))

/-! ## The statements, by fuel -/

def PVs (cfg : Cfg) (fuel : Nat) : Prop := ∀ (limit : Nat) (l : Loc) (x : S) (d0 : Doc) (F : Forest),
  Ctx d0 F l → Built d0 F l x.d .nil → x.d.get l = .null → Res d0 F l x (parseVariant cfg fuel limit l x)

def PEs (cfg : Cfg) (fuel : Nat) : Prop := ∀ (limit : Nat) (l : Loc) (x : S) (d0 : Doc) (F s : Forest) (h t : Nat),
  Ctx d0 F l → Built d0 F l x.d s → x.d.get l = .arr h t → Res d0 F l x (parseElems cfg fuel limit l x)

def PMs (cfg : Cfg) (fuel : Nat) : Prop := ∀ (limit : Nat) (l : Loc) (x : S) (d0 : Doc) (F s : Forest) (h t : Nat),
  Ctx d0 F l → Built d0 F l x.d s → x.d.get l = .obj h t → Res d0 F l x (parseMembers cfg fuel limit l x)

/-- parsing into the fresh slot `v` of the collection being built at `l` -/
theorem sub_parse {cfg : Cfg} {f : Nat} (ihV : PVs cfg f) {d0 : Doc} {F : Forest} {l : Loc} {x : S} {s : Forest}
    {v : Nat} (limit : Nat) (C : Ctx d0 F l) (B : Built d0 F l x.d s) (hv : v ∈ s.locs)
    (hn : x.d.get (.slot v) = .null) :
    (∃ s', Built d0 F l (parseVariant cfg f limit (.slot v) x).2.d s') ∧
    (parseVariant cfg f limit (.slot v) x).2.d.get l = x.d.get l ∧
    Fx x.d x.b (parseVariant cfg f limit (.slot v) x).2.d (parseVariant cfg f limit (.slot v) x).2.b
      (parseVariant cfg f limit (.slot v) x).1 := by
  have C1 := B.ctx_in C hv hn
  have R := ihV limit (.slot v) x x.d (replaceAt F l s) C1 (built_start B.wf B.str C1) hn
  obtain ⟨s2, B2⟩ := R.built
  obtain ⟨a, b⟩ := B.nest C hv B2
  exact ⟨⟨_, a⟩, b, R.fx⟩

theorem pv_zero (cfg : Cfg) : PVs cfg 0 := by
  intro limit l x d0 F C B hn
  simp only [parseVariant]
  exact Res.exit B ((Fx.refl _ _).code (by simp))

theorem pe_zero (cfg : Cfg) : PEs cfg 0 := by
  intro limit l x d0 F s h t C B hn
  simp only [parseElems]
  exact Res.exit B ((Fx.refl _ _).code (by simp))

theorem pm_zero (cfg : Cfg) : PMs cfg 0 := by
  intro limit l x d0 F s h t C B hn
  simp only [parseMembers]
  exact Res.exit B ((Fx.refl _ _).code (by simp))

theorem pv_succ (cfg : Cfg) (f : Nat) (ihE : PEs cfg f) (ihM : PMs cfg f) : PVs cfg (f+1) := by
  intro limit l x d0 F C B hn
  simp only [parseVariant]
  have hs0 := skipSpaces_nm cfg (f+1) x.s
  split
  · rename_i s1 heq
    split
    · -- '[' : variant.toArray()
      have B' : Built d0 F l (x.d.set l (.arr x.d.null x.d.null)) .nil := B.set_coll C hn false
      have fx' : Fx x.d x.b (x.d.set l (.arr x.d.null x.d.null)) x.b .ok := Fx.set _ _ _ _
      split
      · exact Res.exit B' (fx'.code (by simp))
      · have hs1 := skipSpaces_nm cfg (f+1) (mv (cur s1).2)
        split
        · split
          · exact Res.exit B' fx'
          · exact Res.step fx' (ihE _ l _ d0 F .nil _ _ C B' (get_set_self _ _ _))
        · rename_i e s2 hne heq2
          rw [heq2] at hs1
          exact Res.exit B' (fx'.code hs1)
    · split
      · -- '{' : variant.toObject()
        have B' : Built d0 F l (x.d.set l (.obj x.d.null x.d.null)) .nil := B.set_coll C hn true
        have fx' : Fx x.d x.b (x.d.set l (.obj x.d.null x.d.null)) x.b .ok := Fx.set _ _ _ _
        split
        · exact Res.exit B' (fx'.code (by simp))
        · have hs1 := skipSpaces_nm cfg (f+1) (mv (cur s1).2)
          split
          · split
            · exact Res.exit B' fx'
            · exact Res.step fx' (ihM _ l _ d0 F .nil _ _ C B' (get_set_self _ _ _))
          · rename_i e s2 hne heq2
            rw [heq2] at hs1
            exact Res.exit B' (fx'.code hs1)
      · split
        · -- a string: through the builder, then saved and stored
          have hq := quoted_spec cfg (f+1) (cur s1).1 { s := mv (cur s1).2, d := x.d, b := x.b }
          split
          · rename_i bytes x1 heq2
            rw [heq2] at hq
            obtain ⟨tk, hok, hnm⟩ := hq
            have fx1 : Fx x.d x.b x1.d x1.b .ok := Fx.tok tk rfl rfl hok hnm
            have B1 : Built d0 F l x1.d .nil := B.pleq tk.bop.pleq
            have hn1 : x1.d.get l = .null := (tk.bop.pleq.get l).trans hn
            have sv := save_spec x1 bytes
            exact Res.exit (B1.set_owned C hn1 sv) (fx1.trans (Fx.save_set sv (hok rfl) _ _))
          · rename_i e bytes x1 hne heq2
            rw [heq2] at hq
            obtain ⟨tk, hok, hnm⟩ := hq
            exact Res.exit (B.pleq tk.bop.pleq) (Fx.tok tk rfl rfl hok hnm)
        · split
          · -- true
            exact Res.exit (B.set_plain C hn (v := .bool true) (fun h => h) rfl rfl)
              ((Fx.set _ _ _ _).code (skipKeyword_nm _ _))
          · split
            · -- false
              exact Res.exit (B.set_plain C hn (v := .bool false) (fun h => h) rfl rfl)
                ((Fx.set _ _ _ _).code (skipKeyword_nm _ _))
            · split
              · -- null
                exact Res.exit B ((Fx.refl _ _).code (skipKeyword_nm _ _))
              · exact Res.of_eq (x' := { s := (cur s1).2, d := x.d, b := x.b }) rfl rfl (numeric_res cfg C B hn)
  · rename_i e s1 hne heq
    rw [heq] at hs0
    exact Res.exit B ((Fx.refl _ _).code hs0)

theorem pe_succ (cfg : Cfg) (f : Nat) (ihV : PVs cfg f) (ihE : PEs cfg f) : PEs cfg (f+1) := by
  intro limit l x d0 F s h t C B hv
  simp only [parseElems]
  split
  · rename_i d1 heq
    obtain ⟨b1, ho, hnl⟩ := B.addElement_none C heq
    exact Res.exit b1 (Fx.doc_fail _ hnl ho)
  · rename_i id d1 heq
    obtain ⟨B1, hgn, ⟨h', hgl⟩, hov, hnl, _, _, hbk, _⟩ := B.addElement_some C hv heq
    have hloc : id ∈ (s.snoc none id).locs := by rw [Forest.locs_snoc]; simp
    have fx01 : Fx x.d x.b d1 x.b .ok := Fx.doc _ hnl hov hbk
    have sp := sub_parse ihV limit C (x := { s := x.s, d := d1, b := x.b }) B1 hloc hgn
    split
    · rename_i x2 heq2
      rw [heq2] at sp
      obtain ⟨⟨s2, B2⟩, hg2, fx2⟩ := sp
      have fx02 : Fx x.d x.b x2.d x2.b .ok := fx01.trans fx2
      have hv2 : x2.d.get l = .arr h' id := hg2.trans hgl
      have hs1 := skipSpaces_nm cfg (f+1) x2.s
      split
      · rename_i s3 heq3
        split
        · exact Res.exit B2 fx02
        · split
          · exact Res.step (x1 := ⟨mv (cur s3).2, x2.d, x2.b⟩) fx02
              (ihE limit l ⟨mv (cur s3).2, x2.d, x2.b⟩ d0 F s2 _ _ C B2 hv2)
          · exact Res.exit B2 (fx02.code (by simp))
      · rename_i e s3 hne heq3
        rw [heq3] at hs1
        exact Res.exit B2 (fx02.code hs1)
    · rename_i r hne
      obtain ⟨⟨s2, B2⟩, _, fx2⟩ := sp
      exact ⟨⟨s2, B2⟩, fx01.trans fx2⟩

/-- `object.getMember(key)` / `addMember`: the value slot the member's value is parsed into -/
def memberSlot (x : S) (l : Loc) (key : List Byte) : Option Nat × S :=
  match x.d.findKey l key with
  | some (_, v) => (some v, { x with d := x.d.clearV (.slot v) })
  | none =>
    let (node, x) := save x key
    match addMemberNode x.d l node with
    | (some v, d) => (some v, { x with d := d })
    | (none, d) => (none, { x with d := d })

theorem memberSlot_spec {d0 : Doc} {F : Forest} {l : Loc} {x : S} {s : Forest} {h t : Nat} (C : Ctx d0 F l)
    (B : Built d0 F l x.d s) (hv : x.d.get l = .obj h t) (hb : x.b.isSome = true) (key : List Byte) :
    ((memberSlot x l key).1 = none →
      (∃ s', Built d0 F l (memberSlot x l key).2.d s') ∧
      Fx x.d x.b (memberSlot x l key).2.d (memberSlot x l key).2.b .noMemory) ∧
    (∀ v, (memberSlot x l key).1 = some v →
      ∃ s', Built d0 F l (memberSlot x l key).2.d s' ∧ v ∈ s'.locs ∧
        (memberSlot x l key).2.d.get (.slot v) = .null ∧ (∃ h' t', (memberSlot x l key).2.d.get l = .obj h' t') ∧
        Fx x.d x.b (memberSlot x l key).2.d (memberSlot x l key).2.b .ok) := by
  unfold memberSlot
  cases hf : x.d.findKey l key with
  | some p =>
    obtain ⟨k, v⟩ := p
    simp only
    have hvl : v ∈ s.locs := by
      have := findKey_loc B.wf (C.loc' s) hv hf
      rw [C.lay] at this; exact this
    obtain ⟨b1, b2, b3, b4, b5, b6, b7, _⟩ := B.clear_member C hvl
    refine ⟨(fun e => by cases e), fun v' e => ?_⟩
    simp only [Option.some.injEq] at e
    subst e
    exact ⟨_, b1, b6, b2, ⟨h, t, b3.trans hv⟩, Fx.doc _ b5 b4 (fun hb => Or.inl (AllB_of_pools b7 hb))⟩
  | none =>
    simp only
    have sv := save_spec x key
    obtain ⟨B', hp, hget⟩ := B.save C sv
    have hv' : (save x key).2.d.get l = .obj h t := (hget l).trans hv
    have fx1 : Fx x.d x.b (save x key).2.d (save x key).2.b .ok := Fx.save sv hb
    obtain ⟨m1, m2, m3, m4⟩ := B'.addMemberNode C hp hv'
    generalize addMemberNode (save x key).2.d l (save x key).1 = r at m1 m2 m3 m4
    obtain ⟨o, d2⟩ := r
    cases o with
    | none =>
      simp only
      obtain ⟨a1, a2⟩ := m1 rfl
      exact ⟨fun _ => ⟨⟨_, a1⟩, fx1.trans (Fx.doc_fail _ m3 a2)⟩, fun v e => by cases e⟩
    | some v =>
      simp only
      obtain ⟨k, a1, a2, ⟨h', a3⟩, a4, _⟩ := m2 v rfl
      refine ⟨(fun e => by cases e), fun v' e => ?_⟩
      simp only [Option.some.injEq] at e
      subst e
      refine ⟨_, a1, ?_, a2, ⟨h', _, a3⟩, fx1.trans (Fx.doc _ m3 a4 m4)⟩
      rw [Forest.locs_snoc]; simp

theorem pm_succ (cfg : Cfg) (f : Nat) (ihV : PVs cfg f) (ihM : PMs cfg f) : PMs cfg (f+1) := by
  intro limit l x d0 F s h t C B hv
  simp only [parseMembers]
  -- the key, through the builder
  have hkey : ∀ (kr : Code × List Byte × S), kr = (if ((cur x.s).fst == 34 || (cur x.s).fst == 39) = true then
        quoted cfg (f + 1) (cur x.s).fst { s := mv (cur x.s).snd, d := x.d, b := x.b }
      else
        if JD.inUnquoted (cur x.s).fst = true then unquoted cfg (f + 1) { s := (cur x.s).snd, d := x.d, b := x.b }
        else (Code.invalid, [], startString { s := (cur x.s).snd, d := x.d, b := x.b })) →
      Fx x.d x.b kr.2.2.d kr.2.2.b kr.1 ∧ PlEq x.d kr.2.2.d ∧ (kr.1 = .ok → kr.2.2.b.isSome = true) := by
    intro kr hkr
    split at hkr
    · obtain ⟨tk, hok, hnm⟩ := quoted_spec cfg (f+1) (cur x.s).1 { s := mv (cur x.s).2, d := x.d, b := x.b }
      rw [hkr]
      exact ⟨Fx.tok tk rfl rfl hok hnm, tk.bop.pleq, hok⟩
    · split at hkr
      · obtain ⟨tk, hok, hnm, _⟩ := unquoted_spec cfg (f+1) { s := (cur x.s).2, d := x.d, b := x.b }
        rw [hkr]
        exact ⟨Fx.tok tk rfl rfl hok hnm, tk.bop.pleq, hok⟩
      · obtain ⟨bo, _, _⟩ := startString_spec { s := (cur x.s).2, d := x.d, b := x.b }
        rw [hkr]
        exact ⟨⟨bo.bal, bo.ovs, (fun e => by cases e), (fun e => by cases e), Blk.of_pleq bo.pleq.pools bo.ovs⟩, bo.pleq,
          fun e => by cases e⟩
  have hk := hkey _ rfl
  generalize (if ((cur x.s).fst == 34 || (cur x.s).fst == 39) = true then
        quoted cfg (f + 1) (cur x.s).fst { s := mv (cur x.s).snd, d := x.d, b := x.b }
      else
        if JD.inUnquoted (cur x.s).fst = true then unquoted cfg (f + 1) { s := (cur x.s).snd, d := x.d, b := x.b }
        else (Code.invalid, [], startString { s := (cur x.s).snd, d := x.d, b := x.b })) = kr at hk ⊢
  clear hkey
  obtain ⟨kc, key, x1⟩ := kr
  obtain ⟨fx1, hpl, hb1⟩ := hk
  simp only at fx1 hpl hb1
  have B1 : Built d0 F l x1.d s := B.pleq hpl
  cases kc <;> simp only <;> try exact Res.exit B1 fx1
  -- the key was read
  have hb1 := hb1 rfl
  have hv1 : x1.d.get l = .obj h t := (hpl.get l).trans hv
  have hs1 := skipSpaces_nm cfg (f+1) x1.s
  split
  · rename_i s2 heq2
    split
    · exact Res.exit B1 (fx1.code (by simp))
    · -- the value slot of the member
      have hsl := memberSlot_spec C (x := ⟨mv (cur s2).2, x1.d, x1.b⟩) B1 hv1 hb1 key
      split
      · rename_i x2 heq3
        change memberSlot ⟨mv (cur s2).2, x1.d, x1.b⟩ l key = (none, x2) at heq3
        rw [heq3] at hsl
        obtain ⟨⟨s', b'⟩, fx2⟩ := hsl.1 rfl
        exact Res.exit b' (fx1.trans fx2)
      · rename_i v x2 heq3
        change memberSlot ⟨mv (cur s2).2, x1.d, x1.b⟩ l key = (some v, x2) at heq3
        rw [heq3] at hsl
        obtain ⟨s', b', hvl, hnull, ⟨h', t', hobj⟩, fx2⟩ := hsl.2 v rfl
        have fx02 : Fx x.d x.b x2.d x2.b .ok := fx1.trans fx2
        have sp := sub_parse ihV limit C (x := x2) b' hvl hnull
        split
        · rename_i x3 heq4
          rw [heq4] at sp
          obtain ⟨⟨s3, B3⟩, hg3, fx3⟩ := sp
          have fx03 : Fx x.d x.b x3.d x3.b .ok := fx02.trans fx3
          have hv3 : x3.d.get l = .obj h' t' := hg3.trans hobj
          have hs3 := skipSpaces_nm cfg (f+1) x3.s
          split
          · rename_i s4 heq5
            split
            · exact Res.exit B3 fx03
            · split
              · have hs5 := skipSpaces_nm cfg (f+1) (mv (cur s4).2)
                split
                · rename_i s5 heq6
                  exact Res.step (x1 := ⟨s5, x3.d, x3.b⟩) fx03 (ihM limit l ⟨s5, x3.d, x3.b⟩ d0 F s3 _ _ C B3 hv3)
                · rename_i e s5 hne heq6
                  rw [heq6] at hs5
                  exact Res.exit B3 (fx03.code hs5)
              · exact Res.exit B3 (fx03.code (by simp))
          · rename_i e s4 hne heq5
            rw [heq5] at hs3
            exact Res.exit B3 (fx03.code hs3)
        · rename_i r hne
          obtain ⟨⟨s3, B3⟩, _, fx3⟩ := sp
          exact ⟨⟨s3, B3⟩, fx02.trans fx3⟩
  · rename_i e s2 hne heq2
    rw [heq2] at hs1
    exact Res.exit B1 (fx1.code hs1)

/-- the invariant through the whole mutual block, for every fuel -/
theorem parse_all (cfg : Cfg) : ∀ fuel, PVs cfg fuel ∧ PEs cfg fuel ∧ PMs cfg fuel := by
  intro fuel
  induction fuel with
  | zero => exact ⟨pv_zero cfg, pe_zero cfg, pm_zero cfg⟩
  | succ f ih =>
    obtain ⟨ihV, ihE, ihM⟩ := ih
    exact ⟨pv_succ cfg f ihE ihM, pe_succ cfg f ihV ihE, pm_succ cfg f ihV ihM⟩

/-! ## `run` -/

/-- the cleared document is a well-formed empty one -/
theorem clearAll_wf {d : Doc} (gok : PL.GeoOK d.g) (hp : PL.Inv d.g d.pl) :
    WFG d.clearAll .nil ∧ StrOK d.clearAll (d.clearAll.strRefs .nil) ∧ d.clearAll.g = d.g ∧
    d.clearAll.overflowed = false ∧ d.clearAll.root = .null := by
  have hpl : d.clearAll.pl = (PL.clear d.g d.pl).rel [] d.strings.length := foldl_dealloc _ _
  have hinv : PL.Inv d.clearAll.g d.clearAll.pl := by
    show PL.Inv d.g d.clearAll.pl
    rw [hpl]
    exact (PL.clear_inv gok hp).congr rfl rfl rfl rfl
  refine ⟨⟨rfl, List.nodup_nil, (fun i hi => by cases hi), hinv, (fun i hi => by cases hi), ?_⟩, ?_, rfl, rfl, rfl⟩
  · intro l0 hl0 e he
    simp only [holders, Forest.ids, List.map_nil, List.mem_singleton] at hl0
    subst hl0
    cases he
  · exact ⟨List.nodup_nil, (fun n hn => by cases hn), (fun n hn => by cases hn), fun r hr => by cases hr⟩

/-- with a balanced log, the cleared document owns nothing and nothing is outstanding -/
theorem clearAll_LBd {d : Doc} (h : Bal d) : LBd d.clearAll none := by
  have h0 := clearAll_outstanding h
  obtain ⟨_, _, _, _, hb, hs, _⟩ := clearAll_spec d
  unfold LBd PL.net
  rw [h0, hb, hs]; rfl

/-- the state in which `run` starts parsing -/
def start (d : Doc) (input : List Byte) : S := { s := { l := { unread := input } }, d := d.clearAll }

/-- the state in which the parser stops -/
def stop (cfg : Cfg) (limit : Nat) (d : Doc) (input : List Byte) : Code × S :=
  parseVariant cfg (2 * input.length + 4) limit .root (start d input)

/-- the document after the deserializer object was destroyed (a kept StringBuilder buffer is released), before the
    pools are shrunk -/
def preShrink (cfg : Cfg) (limit : Nat) (d : Doc) (input : List Byte) : Doc :=
  match (stop cfg limit d input).2.b with
  | some _ => { (stop cfg limit d input).2.d with pl := (stop cfg limit d input).2.d.pl.dealloc }
  | none => (stop cfg limit d input).2.d

/-- the code `run` reports, from the code of the parser -/
def finalCode (c : Code) (x : S) : Code :=
  match c with
  | .ok => if x.s.l.cur != 0 && !JD.isWs x.s.l.cur && rootIsNumber x.d then .invalid else .ok
  | e => e

theorem run_eq (cfg : Cfg) (limit : Nat) (d : Doc) (input : List Byte) :
    run cfg limit d input =
      (finalCode (stop cfg limit d input).1 (stop cfg limit d input).2,
        { preShrink cfg limit d input with
          pl := PL.shrink (preShrink cfg limit d input).g (preShrink cfg limit d input).pl },
        (stop cfg limit d input).2.s.l.pos) := by
  unfold run preShrink stop start
  dsimp only
  generalize parseVariant cfg (2 * input.length + 4) limit .root _ = r
  obtain ⟨c, x⟩ := r
  rfl

theorem finalCode_ok {c : Code} {x : S} (h : finalCode c x = .ok) : c = .ok := by
  cases c <;> first | rfl | exact absurd h (by simp [finalCode])

theorem finalCode_nomem {c : Code} {x : S} (h : finalCode c x = .noMemory) : c = .noMemory := by
  cases c with
  | ok =>
    simp only [finalCode] at h
    split at h <;> cases h
  | noMemory => rfl
  | _ => exact absurd h (by simp [finalCode])

/-- the parser's result, for every input and every failure schedule -/
theorem stop_res (cfg : Cfg) (limit : Nat) {d : Doc} (input : List Byte) (gok : PL.GeoOK d.g) (hp : PL.Inv d.g d.pl) :
    Res d.clearAll .nil .root (start d input) (stop cfg limit d input) := by
  obtain ⟨w, hs, hg, _, hr⟩ := clearAll_wf gok hp
  have C : Ctx d.clearAll .nil .root := ⟨List.nodup_nil, trivial, rfl, by rw [hg]; exact gok⟩
  exact (parse_all cfg _).1 limit .root (start d input) d.clearAll .nil C (built_start w hs C) hr

theorem preShrink_pleq (cfg : Cfg) (limit : Nat) (d : Doc) (input : List Byte) :
    PlEq (stop cfg limit d input).2.d (preShrink cfg limit d input) ∧
    (preShrink cfg limit d input).overflowed = (stop cfg limit d input).2.d.overflowed := by
  unfold preShrink
  cases (stop cfg limit d input).2.b with
  | none => exact ⟨PlEq.refl _, rfl⟩
  | some c => exact ⟨⟨rfl, rfl, rfl, rfl, rfl, rfl, rfl, rfl, rfl, rfl⟩, rfl⟩

/-- shrinking the pools is not seen by the invariant -/
theorem shrink_wf {d : Doc} {F : Forest} (w : WFG d F) (hs : StrOK d (d.strRefs F)) :
    WFG { d with pl := PL.shrink d.g d.pl } F ∧
    StrOK { d with pl := PL.shrink d.g d.pl } (({ d with pl := PL.shrink d.g d.pl } : Doc).strRefs F) := by
  obtain ⟨a, b, _, _⟩ := PL.shrink_ok w.pool
  obtain ⟨w', s', _⟩ := wfg_frame (d' := { d with pl := PL.shrink d.g d.pl }) w rfl rfl (fun _ _ => rfl)
    (fun l0 h0 e he => ⟨rfl, (b e).2 (w.ext l0 h0 e he).2.1⟩) a (fun x hx => (b x).2 (w.live x hx))
    (StrOK_congr (d := d) rfl rfl hs) (fun _ _ => rfl)
  exact ⟨w', s'⟩

/-- MAIN: whatever the input and the allocator failure schedule, `run` leaves a well-formed document -/
theorem run_wf (cfg : Cfg) (limit : Nat) {d : Doc} (input : List Byte) (gok : PL.GeoOK d.g) (hp : PL.Inv d.g d.pl) :
    ∃ F', WFG (run cfg limit d input).2.1 F' ∧
      StrOK (run cfg limit d input).2.1 ((run cfg limit d input).2.1.strRefs F') := by
  obtain ⟨⟨s, B⟩, _⟩ := stop_res cfg limit input gok hp
  obtain ⟨w1, s1, _⟩ := (preShrink_pleq cfg limit d input).1.wfg B.wf B.str
  rw [run_eq]
  exact ⟨_, shrink_wf w1 s1⟩

/-- the overflow flag of the result is the one the parser left -/
theorem run_overflowed (cfg : Cfg) (limit : Nat) (d : Doc) (input : List Byte) :
    (run cfg limit d input).2.1.overflowed = (stop cfg limit d input).2.d.overflowed := by
  rw [run_eq]; exact (preShrink_pleq cfg limit d input).2

/-- the result code against the overflow flag -/
theorem run_code (cfg : Cfg) (limit : Nat) {d : Doc} (input : List Byte) (gok : PL.GeoOK d.g) (hp : PL.Inv d.g d.pl) :
    ((run cfg limit d input).1 = .ok → (run cfg limit d input).2.1.overflowed = false) ∧
    ((run cfg limit d input).1 = .noMemory → (run cfg limit d input).2.1.overflowed = true) := by
  obtain ⟨_, fx⟩ := stop_res cfg limit input gok hp
  rw [run_overflowed]
  constructor
  · intro h
    rw [run_eq] at h
    exact fx.ok (finalCode_ok h)
  · intro h
    rw [run_eq] at h
    exact fx.nomem (finalCode_nomem h)

/-- the ledger balances before the pools are shrunk -/
theorem preShrink_bal (cfg : Cfg) (limit : Nat) {d : Doc} (input : List Byte) (gok : PL.GeoOK d.g) (hp : PL.Inv d.g d.pl)
    (hb : Bal d) : Bal (preShrink cfg limit d input) := by
  obtain ⟨_, fx⟩ := stop_res cfg limit input gok hp
  have h := fx.bal (clearAll_LBd hb)
  unfold preShrink
  unfold LBd at h
  unfold Bal
  cases hx : (stop cfg limit d input).2.b with
  | none => rw [hx] at h; simpa using h
  | some c =>
    rw [hx] at h
    show PL.net (stop cfg limit d input).2.d.pl.dealloc = _
    rw [dealloc_net, h]; simp

/-! ## The ledger across `shrink` -/

/-- is the last pool one whose creation failed (no block)? `shrink` turns it into a pool with a (zero-sized) block through
    `reallocate(nullptr, 0)`, which the ledger of AJ/Lemmas/DocStr.lean does not count -/
def lastBlockless (s : PL.St) : Bool :=
  match s.pools.getLast? with
  | some p => !p.hasBlock
  | none => false

theorem shrinkTable_net (g : PL.Geo) (s : PL.St) : PL.net (PL.shrinkTable g s) = PL.net s := by
  unfold PL.shrinkTable
  split
  · obtain ⟨ok, s1, h, h1, h2, _, _, h5⟩ := PL.realloc_facts s (s.pools.length * g.poolSize) false
    rw [h]
    simp only [PL.net, PL.blocks, h1, h2, h5]
  · rfl

theorem shrinkLast_net (g : PL.Geo) (s : PL.St) :
    PL.net (PL.shrinkLast g s) = PL.net s - (if lastBlockless s then 1 else 0) := by
  unfold PL.shrinkLast lastBlockless
  cases hp : s.pools.getLast? with
  | none => simp
  | some p =>
    have hs := PL.pools_eq_snoc hp
    obtain ⟨ok, s1, h, h1, h2, _, _, h5⟩ := PL.realloc_facts s (p.usage * g.slotSize) false
    simp only [h]
    have hb : PL.blocks s = s.pools.dropLast.countP (·.hasBlock) + (if p.hasBlock then 1 else 0) +
        (if s.tableHeap then 1 else 0) := by
      unfold PL.blocks
      conv => lhs; rw [hs]
      simp only [List.countP_append, List.countP_cons, List.countP_nil]
      omega
    simp only [PL.net, h5, hb]
    simp only [PL.blocks, h1, h2, List.countP_append, List.countP_cons, List.countP_nil]
    by_cases hpb : p.hasBlock = true
    · simp [hpb]
    · have hpf : p.hasBlock = false := by simpa using hpb
      simp [hpf]; omega

theorem shrink_net (g : PL.Geo) (s : PL.St) :
    PL.net (PL.shrink g s) = PL.net s - (if lastBlockless s then 1 else 0) := by
  rw [PL.shrink_eq, shrinkTable_net, shrinkLast_net]

theorem lastBlockless_of_allB {d : Doc} (h : AllB d) : lastBlockless d.pl = false := by
  unfold lastBlockless
  cases hp : d.pl.pools.getLast? with
  | none => rfl
  | some p =>
    have : p ∈ d.pl.pools := List.mem_of_getLast? hp
    simp [h p this]

/-- the ledger of the document `run` returns: balanced up to the block `shrink` gives a block-less last pool -/
theorem run_net (cfg : Cfg) (limit : Nat) {d : Doc} (input : List Byte) (gok : PL.GeoOK d.g) (hp : PL.Inv d.g d.pl)
    (hb : Bal d) :
    PL.net (run cfg limit d input).2.1.pl =
      ((run cfg limit d input).2.1.strings.length : Int) -
        (if lastBlockless (preShrink cfg limit d input).pl then 1 else 0) := by
  have h := preShrink_bal cfg limit input gok hp hb
  unfold Bal at h
  rw [run_eq]
  show PL.net (PL.shrink _ _) = ((preShrink cfg limit d input).strings.length : Int) - _
  rw [shrink_net, h]

/-- when no allocation failed, every pool has its block and the ledger of the result balances -/
theorem run_bal (cfg : Cfg) (limit : Nat) {d : Doc} (input : List Byte) (gok : PL.GeoOK d.g) (hp : PL.Inv d.g d.pl)
    (hb : Bal d) (hov : (run cfg limit d input).2.1.overflowed = false) : Bal (run cfg limit d input).2.1 := by
  obtain ⟨_, fx⟩ := stop_res cfg limit input gok hp
  have h0 : Blk (start d input).d := by
    refine Or.inl ?_
    intro p hp'
    have : d.clearAll.pl.pools = [] := (clearAll_spec d).2.2.1
    rw [show (start d input).d.pl.pools = d.clearAll.pl.pools from rfl, this] at hp'
    cases hp'
  rw [run_overflowed] at hov
  have hall : AllB (stop cfg limit d input).2.d := by
    rcases fx.blk h0 with h1 | h1
    · exact h1
    · rw [hov] at h1; cases h1
  have hall' : AllB (preShrink cfg limit d input) := AllB_of_pools (preShrink_pleq cfg limit d input).1.pools hall
  have := run_net cfg limit input gok hp hb
  rw [lastBlockless_of_allB hall'] at this
  unfold Bal
  rw [this]; simp

/-- the geometry is kept -/
theorem run_g (cfg : Cfg) (limit : Nat) {d : Doc} (input : List Byte) (gok : PL.GeoOK d.g) (hp : PL.Inv d.g d.pl) :
    (run cfg limit d input).2.1.g = d.g := by
  obtain ⟨⟨s, B⟩, _⟩ := stop_res cfg limit input gok hp
  rw [run_eq]
  show (preShrink cfg limit d input).g = d.g
  rw [(preShrink_pleq cfg limit d input).1.g, B.g]; rfl

/-- `clearAll` after `run`: what the ledger says -/
theorem run_clearAll_outstanding (cfg : Cfg) (limit : Nat) {d : Doc} (input : List Byte) (gok : PL.GeoOK d.g)
    (hp : PL.Inv d.g d.pl) (hb : Bal d) :
    PL.outstanding (run cfg limit d input).2.1.clearAll.pl.log =
      - (if lastBlockless (preShrink cfg limit d input).pl then 1 else 0) := by
  have h := run_net cfg limit input gok hp hb
  rw [(clearAll_spec _).1, PL.outstanding_replicate_D]
  unfold PL.net at h
  omega

end JDD
