/- Memory accounting for the slot-level JSON deserializer `JDD` (AJ/Model/JDD.lean): what the document holds is bounded
   by a linear function of the bytes CONSUMED.
   * PL level: `memSlots` (slots handed out by the pools), `MemA` (capacities, pool table), `MemS` (every pool but the
     last is full, the last one owns its block) / `MemW` (number of pools against slots), through `allocSlot`;
   * reader level: the potential `memE` (bytes consumed, the loaded look-ahead byte not counted) through every lexing routine;
   * deserializer level: the step relation `MemT` pushed through `parseVariant / parseElems / parseMembers` (`mem_parse_all`).
   Self-contained: no well-formedness of the document is needed.
   Used by AJ/Lemmas/MddMem.lean and AJ/Props/C06Mem.lean. -/
import AJ.Lemmas.JddInv
import AJ.Lemmas.JDPos
namespace PL

/-! ## A. The pool list -/

/-- slots handed out by the pools so far (released slots included: they sit in the free list and are reused first) -/
def memSlots (s : St) : Nat := (s.pools.map (·.usage)).sum

/-- kept by every operation, failing or not: `usage ≤ cap ≤ poolCap` for every pool, a heap pool table has at most twice as many
    entries as there are pools -/
structure MemA (g : Geo) (s : St) : Prop where
  caps : ∀ p ∈ s.pools, p.usage ≤ p.cap ∧ p.cap ≤ g.poolCap
  tab : s.tableHeap = true → s.tableCap ≤ 2 * s.pools.length

/-- as long as no slot allocation has failed: every pool but the last has handed out `poolCap` slots, the last pool owns
    its block and has the full capacity (unless it is the pool that reaches `maxPools`) -/
structure MemS (g : Geo) (s : St) : Prop where
  full : ∀ p ∈ s.pools.dropLast, g.poolCap ≤ p.usage
  last : ∀ p, s.pools.getLast? = some p → p.hasBlock = true ∧ (p.cap = g.poolCap ∨ g.maxPools ≤ s.pools.length)

/-- the number of pools against the number of slots handed out: all pools but one are full -/
def MemW (g : Geo) (s : St) : Prop := (s.pools.length - 1) * g.poolCap ≤ memSlots s

theorem MemA.congr {g : Geo} {s s' : St} (h1 : s'.pools = s.pools) (h2 : s'.tableCap = s.tableCap)
    (h3 : s'.tableHeap = s.tableHeap) (h : MemA g s) : MemA g s' :=
  ⟨by rw [h1]; exact h.caps, by rw [h1, h2, h3]; exact h.tab⟩

theorem MemS.congr {g : Geo} {s s' : St} (h1 : s'.pools = s.pools) (h : MemS g s) : MemS g s' :=
  ⟨by rw [h1]; exact h.full, by rw [h1]; exact h.last⟩

theorem MemW.congr {g : Geo} {s s' : St} (h1 : s'.pools = s.pools) (h : MemW g s) : MemW g s' := by
  unfold MemW memSlots at *; rw [h1]; exact h

theorem mem_memSlots_congr {s s' : St} (h1 : s'.pools = s.pools) : memSlots s' = memSlots s := by
  unfold memSlots; rw [h1]

theorem mem_sum_ge (c : Nat) : ∀ (l : List Pool), (∀ p ∈ l, c ≤ p.usage) → l.length * c ≤ (l.map (·.usage)).sum
  | [], _ => by simp
  | p :: l, h => by
    have h1 := mem_sum_ge c l (fun q hq => h q (List.mem_cons_of_mem _ hq))
    have h2 := h p List.mem_cons_self
    simp only [List.length_cons, List.map_cons, List.sum_cons, Nat.add_mul]
    omega

theorem mem_slots_snoc (ps : List Pool) (p : Pool) :
    ((ps ++ [p]).map (·.usage)).sum = (ps.map (·.usage)).sum + p.usage := by
  simp [List.sum_append]

theorem MemS.weak {g : Geo} {s : St} (h : MemS g s) : MemW g s := by
  unfold MemW memSlots
  rcases List.eq_nil_or_concat s.pools with hp | ⟨ps, p, hp⟩
  · rw [hp]; simp
  · rw [List.concat_eq_append] at hp
    have hf := h.full
    rw [hp] at hf ⊢
    simp only [List.dropLast_concat] at hf
    rw [mem_slots_snoc]
    have := mem_sum_ge g.poolCap ps hf
    simp only [List.length_append, List.length_singleton, Nat.add_sub_cancel]
    omega

theorem mem_nil_S {g : Geo} {s : St} (h : s.pools = []) : MemS g s :=
  ⟨(by rw [h]; intro p hp; cases hp), (by rw [h]; intro p hp; cases hp)⟩

theorem mem_nil_A {g : Geo} {s : St} (h : s.pools = []) (ht : s.tableHeap = false) : MemA g s :=
  ⟨(by rw [h]; intro p hp; cases hp), (by rw [ht]; intro h; cases h)⟩

/-- the last pool serves -/
theorem mem_lastPool_some {g : Geo} {s s' : St} {id : Nat} (h : allocFromLastPool g s = (some id, s')) :
    memSlots s' = memSlots s + 1 ∧ (MemA g s → MemA g s') ∧ (MemS g s → MemS g s') := by
  obtain ⟨ps, p, hs, hb, hu, _, rfl⟩ := allocFromLastPool_some h
  refine ⟨?_, ?_, ?_⟩
  · unfold memSlots; rw [hs]; simp only [mem_slots_snoc]; omega
  · intro hA
    refine ⟨?_, ?_⟩
    · intro q hq
      simp only [List.mem_append, List.mem_singleton] at hq
      rcases hq with hq | rfl
      · exact hA.caps q (by rw [hs]; simp [hq])
      · have := hA.caps p (by rw [hs]; simp)
        exact ⟨by show p.usage + 1 ≤ p.cap; omega, this.2⟩
    · intro ht
      have := hA.tab ht
      rw [hs] at this
      simpa using this
  · intro hS
    have hf := hS.full
    have hl := hS.last p (by rw [hs]; simp)
    rw [hs] at hf hl
    simp only [List.dropLast_concat] at hf
    refine ⟨?_, ?_⟩
    · simp only [List.dropLast_concat]; exact hf
    · intro q hq
      simp only [List.getLast?_append, List.getLast?_singleton, Option.some_or, Option.some.injEq] at hq
      subst hq
      simp only [List.length_append, List.length_singleton] at hl ⊢
      exact ⟨hb, hl.2⟩

/-- growth of the pool table: at most doubled -/
theorem mem_increaseCapacity {g : Geo} {s s' : St} {ok : Bool} (h : increaseCapacity g s = (ok, s')) :
    s'.pools = s.pools ∧ (ok = false → s'.tableCap = s.tableCap ∧ s'.tableHeap = s.tableHeap) ∧
    (ok = true → s'.tableCap ≤ 2 * s.tableCap) := by
  obtain ⟨a, _, _, b, _⟩ := increaseCapacity_spec h
  refine ⟨a, b, ?_⟩
  unfold increaseCapacity at h
  split at h
  · cases h; intro h; cases h
  · rename_i hlt
    simp only at h
    generalize hnc : (if (decide (g.wrap (s.tableCap * 2) > g.maxPools) ||
        decide (g.wrap (s.tableCap * 2) < s.tableCap)) = true then g.maxPools
        else g.wrap (s.tableCap * 2)) = nc at h
    have hw : g.wrap (s.tableCap * 2) ≤ s.tableCap * 2 := Nat.mod_le _ _
    have hnc1 : nc ≤ 2 * s.tableCap := by
      rw [← hnc]
      split
      · rename_i hc
        simp only [Bool.or_eq_true, decide_eq_true_eq] at hc
        rcases hc with hc | hc
        · omega
        · have hM := g.maxPools_lt
          by_cases h2 : s.tableCap * 2 < 2 ^ (8 * g.idBytes)
          · rw [g.wrap_of_lt h2] at hc; omega
          · omega
      · omega
    split at h <;> split at h <;> cases h <;> simp [hnc1]

/-- a new pool -/
theorem mem_addPool {g : Geo} {s s' : St} {ok : Bool} (gok : GeoOK g) (h : addPool g s = (ok, s')) :
    (ok = false → s'.pools = s.pools ∧ s'.tableCap = s.tableCap ∧ s'.tableHeap = s.tableHeap) ∧
    (ok = true → s.pools.length < g.maxPools ∧ ∃ p, s'.pools = s.pools ++ [p] ∧ p.usage = 0 ∧ p.cap ≤ g.poolCap ∧
      (p.hasBlock = true → p.cap = g.poolCap ∨ g.maxPools ≤ s.pools.length + 1) ∧
      ((s.tableHeap = true → s.tableCap ≤ 2 * s.pools.length) →
        s'.tableHeap = true → s'.tableCap ≤ 2 * (s.pools.length + 1))) := by
  unfold addPool at h
  split at h
  · cases h; exact ⟨fun _ => ⟨rfl, rfl, rfl⟩, fun h => by cases h⟩
  · rename_i hlt
    simp only at h
    generalize hr : (if (s.pools.length == s.tableCap) = true then increaseCapacity g s else (true, s)) = r at h
    obtain ⟨ok1, s1⟩ := r
    have ht : s1.pools = s.pools ∧ (ok1 = false → s1.tableCap = s.tableCap ∧ s1.tableHeap = s.tableHeap) ∧
        (ok1 = true → (s.tableHeap = true → s.tableCap ≤ 2 * s.pools.length) → s1.tableHeap = true →
          s1.tableCap ≤ 2 * s.pools.length) := by
      split at hr
      · rename_i he
        have he' : s.pools.length = s.tableCap := by simpa using he
        obtain ⟨a, b, c⟩ := mem_increaseCapacity hr
        exact ⟨a, b, fun hk _ _ => by have := c hk; omega⟩
      · cases hr; exact ⟨rfl, fun h => Bool.noConfusion h, fun _ h => h⟩
    obtain ⟨t1, t2, t3⟩ := ht
    simp only at h
    split at h
    · rename_i hk
      have hk' : ok1 = false := by simpa using hk
      cases h
      obtain ⟨t21, t22⟩ := t2 hk'
      exact ⟨fun _ => ⟨t1, t21, t22⟩, fun h => by cases h⟩
    · rename_i hk
      have hk' : ok1 = true := by simpa using hk
      have hw : g.wrap (s1.pools.length + 1) = s.pools.length + 1 := by
        rw [t1]; exact g.wrap_of_lt (by have := g.maxPools_lt; omega)
      rw [hw] at h
      generalize hcap : (if (s.pools.length + 1 == g.maxPools) = true then g.nullSlot - (g.maxPools - 1) * g.poolCap
        else g.poolCap) = cap at h
      have hcap1 : cap ≤ g.poolCap ∧ (cap = g.poolCap ∨ g.maxPools ≤ s.pools.length + 1) := by
        rw [← hcap]
        split
        · rename_i he
          have he' : s.pools.length + 1 = g.maxPools := by simpa using he
          exact ⟨(g.last_pool_fits gok he').1, Or.inr (by omega)⟩
        · exact ⟨Nat.le_refl _, Or.inl rfl⟩
      obtain ⟨hcapA, hcapB⟩ := hcap1
      simp only [alloc_pools, alloc_free, alloc_tableCap, alloc_tableHeap, alloc_failAt, alloc_calls] at h
      generalize (s1.alloc (cap * g.slotSize)).fst = got at h
      generalize (s1.alloc (cap * g.slotSize)).snd.log = lg at h
      cases h
      refine ⟨fun h => Bool.noConfusion h, fun _ => ⟨by omega, _, by rw [t1], rfl, ?_, ?_, ?_⟩⟩
      · simp only; split <;> omega
      · intro hgot
        simp only at hgot
        simp only [hgot, if_true]; exact hcapB
      · intro hT hh
        have := t3 hk' hT hh
        show s1.tableCap ≤ _
        omega

/-- `allocSlot`: what it does to the pool list, whether it succeeds or not -/
theorem mem_allocSlot {g : Geo} {s s' : St} {r : Option Nat} (gok : GeoOK g) (h : allocSlot g s = (r, s')) :
    (MemA g s → MemA g s') ∧ memSlots s ≤ memSlots s' ∧ memSlots s' ≤ memSlots s + (if r.isSome then 1 else 0) ∧
    (MemS g s → MemW g s' ∧ (r.isSome = true → MemS g s')) := by
  cases hf : s.free with
  | cons a rest =>
    rw [allocSlot_cons hf] at h
    simp only [Prod.mk.injEq] at h
    obtain ⟨rfl, rfl⟩ := h
    exact ⟨fun hA => MemA.congr (s := s) rfl rfl rfl hA, Nat.le_refl _, (by show memSlots s ≤ _; omega),
      fun hS => ⟨MemW.congr (s := s) rfl hS.weak, fun _ => MemS.congr (s := s) rfl hS⟩⟩
  | nil =>
    unfold allocSlot at h
    rw [hf] at h
    simp only at h
    generalize hr1 : (if s.pools.isEmpty then (none, s) else allocFromLastPool g s) = r1 at h
    obtain ⟨r0, s1⟩ := r1
    simp only at h
    split at h
    · rename_i id
      cases h
      split at hr1
      · cases hr1
      · obtain ⟨a, b, c⟩ := mem_lastPool_some hr1
        exact ⟨b, by omega, by simp only [Option.isSome_some, if_true]; omega, fun hS => ⟨(c hS).weak, fun _ => c hS⟩⟩
    · -- the last pool cannot serve (or there is none): it is full when it owns its block
      have hlast : s1 = s ∧ (s.pools = [] ∨ ∃ ps p, s.pools = ps ++ [p] ∧ (p.hasBlock = false ∨ p.cap ≤ p.usage)) := by
        split at hr1
        · rename_i he
          cases hr1
          exact ⟨rfl, Or.inl (by simpa using he)⟩
        · exact allocFromLastPool_none hr1
      generalize hr2 : addPool g s = r2 at h
      obtain ⟨ok, s2⟩ := r2
      obtain ⟨p1, p2⟩ := mem_addPool gok hr2
      simp only at h
      cases ok with
      | false =>
        simp only [Bool.not_false, if_true] at h
        cases h
        obtain ⟨e1, e2, e3⟩ := p1 rfl
        exact ⟨fun hA => hA.congr e1 e2 e3, by rw [mem_memSlots_congr e1]; exact Nat.le_refl _,
          by rw [mem_memSlots_congr e1]; omega, fun hS => ⟨(hS.weak).congr e1, fun h => by cases h⟩⟩
      | true =>
        simp only [Bool.not_true, Bool.false_eq_true, if_false] at h
        obtain ⟨hlt, p, hp, hu, hc, hb, htab⟩ := p2 rfl
        -- the state with the new pool
        have hA2 : MemA g s → MemA g s2 := by
          intro hA
          refine ⟨?_, ?_⟩
          · rw [hp]; intro q hq
            simp only [List.mem_append, List.mem_singleton] at hq
            rcases hq with hq | rfl
            · exact hA.caps q hq
            · exact ⟨by omega, hc⟩
          · intro hh
            have := htab hA.tab hh
            rw [hp]; simpa using this
        have hsl2 : memSlots s2 = memSlots s := by
          unfold memSlots; rw [hp, mem_slots_snoc, hu]; rfl
        -- every old pool is full
        have hfull : MemS g s → ∀ q ∈ s.pools, g.poolCap ≤ q.usage := by
          intro hS q hq
          rcases hlast.2 with hn | ⟨ps, p0, hs, hp0⟩
          · rw [hn] at hq; cases hq
          · have hf0 := hS.full
            have hl0 := hS.last p0 (by rw [hs]; simp)
            rw [hs] at hf0 hq hl0
            simp only [List.dropLast_concat] at hf0
            simp only [List.mem_append, List.mem_singleton] at hq
            rcases hq with hq | rfl
            · exact hf0 q hq
            · rcases hp0 with hp0 | hp0
              · rw [hl0.1] at hp0; cases hp0
              · rcases hl0.2 with e | e
                · omega
                · rw [hs] at hlt; omega
        have hW2 : MemS g s → MemW g s2 := by
          intro hS
          unfold MemW
          rw [hsl2, hp]
          simp only [List.length_append, List.length_singleton, Nat.add_sub_cancel]
          exact mem_sum_ge g.poolCap s.pools (hfull hS)
        cases r with
        | none =>
          obtain ⟨rfl, _⟩ := allocFromLastPool_none h
          exact ⟨hA2, by omega, by omega, fun hS => ⟨hW2 hS, fun h => by cases h⟩⟩
        | some id =>
          obtain ⟨a, b, c⟩ := mem_lastPool_some h
          have hS2 : MemS g s → MemS g s2 := by
            intro hS
            -- the new pool served, so it owns its block
            obtain ⟨ps, q, hs2, hq, _, _, _⟩ := allocFromLastPool_some h
            rw [hp] at hs2
            obtain ⟨_, e2⟩ := List.append_inj' hs2 rfl
            have hpq : p = q := by simpa using e2
            refine ⟨?_, ?_⟩
            · rw [hp]; simp only [List.dropLast_concat]; exact hfull hS
            · intro z hz
              rw [hp] at hz ⊢
              simp only [List.getLast?_append, List.getLast?_singleton, Option.some_or, Option.some.injEq] at hz
              subst hz
              simp only [List.length_append, List.length_singleton]
              exact ⟨hpq ▸ hq, hb (hpq ▸ hq)⟩
          exact ⟨fun hA => b (hA2 hA), by omega, by simp only [Option.isSome_some, if_true]; omega,
            fun hS => ⟨(c (hS2 hS)).weak, fun _ => c (hS2 hS)⟩⟩

/-- `shrinkToFit`: the last pool is cut to the slots handed out, a heap pool table to the number of pools -/
theorem mem_shrink (g : Geo) (s : St) :
    memSlots (shrink g s) = memSlots s ∧ (shrink g s).pools.length = s.pools.length ∧
    (MemA g s → MemA g (shrink g s)) ∧
    ((shrink g s).tableHeap = true → (shrink g s).tableCap = (shrink g s).pools.length) := by
  rw [shrink_eq]
  have h1 : memSlots (shrinkLast g s) = memSlots s ∧ (shrinkLast g s).pools.length = s.pools.length ∧
      (shrinkLast g s).tableCap = s.tableCap ∧ (shrinkLast g s).tableHeap = s.tableHeap ∧
      ((∀ p ∈ s.pools, p.usage ≤ p.cap ∧ p.cap ≤ g.poolCap) →
        ∀ p ∈ (shrinkLast g s).pools, p.usage ≤ p.cap ∧ p.cap ≤ g.poolCap) := by
    unfold shrinkLast
    split
    · exact ⟨rfl, rfl, rfl, rfl, fun h => h⟩
    · rename_i p hp
      have hs := pools_eq_snoc hp
      refine ⟨?_, ?_, rfl, rfl, ?_⟩
      · unfold memSlots
        conv => rhs; rw [hs]
        simp only [mem_slots_snoc, realloc_pools]
      · conv => rhs; rw [hs]
        simp
      · intro h q hq
        simp only [List.mem_append, List.mem_singleton] at hq
        rcases hq with hq | rfl
        · exact h q ((List.dropLast_sublist s.pools).subset hq)
        · have := h p (List.mem_of_getLast? hp)
          exact ⟨Nat.le_refl _, by show p.usage ≤ _; omega⟩
  obtain ⟨a1, a2, a3, a4, a5⟩ := h1
  generalize shrinkLast g s = s1 at a1 a2 a3 a4 a5
  unfold shrinkTable
  split
  · rename_i hc
    refine ⟨a1, a2, fun hA => ⟨a5 hA.caps, fun _ => ?_⟩, fun _ => rfl⟩
    show s1.pools.length ≤ 2 * s1.pools.length
    omega
  · rename_i hc
    refine ⟨a1, a2, fun hA => ⟨a5 hA.caps, fun hh => ?_⟩, fun hh => ?_⟩
    · have := hA.tab (a4 ▸ hh); omega
    · simp only [Bool.and_eq_true, bne_iff_ne, ne_eq, not_and, Decidable.not_not] at hc
      exact (hc hh).symm

end PL

/-! ## B. The reader: bytes consumed -/
namespace JD

/-- consumption potential of the reader: bytes taken from the input plus one, the loaded (non-zero) look-ahead byte not
    counted: `memE s - 1` bytes have been moved past. Never decreases; `memE s ≤ pos + 1`. -/
def memE (s : St) : Nat := s.l.pos + (if s.l.loaded && s.l.cur != 0 then 0 else 1)

theorem mem_E_le (s : St) : memE s ≤ s.l.pos + 1 := by unfold memE; split <;> omega

theorem mem_cur_loaded (s : St) : (cur s).2.l.loaded = true ∧ (cur s).2.l.cur = (cur s).1 := by
  simp only [cur, Latch.current]
  split
  · rename_i h; exact ⟨h, rfl⟩
  · split <;> exact ⟨rfl, rfl⟩

theorem mem_cur (s : St) : memE s ≤ memE (cur s).2 := by
  obtain ⟨⟨unread, c0, loaded, pos⟩, found⟩ := s
  cases loaded with
  | true => simp [cur, Latch.current, memE]
  | false =>
    cases unread with
    | nil => simp [cur, Latch.current, memE]
    | cons c cs =>
      simp only [cur, Latch.current, memE, Bool.false_eq_true, if_false, Bool.false_and, Bool.true_and]
      split <;> omega

theorem mem_mv (s : St) : memE s ≤ memE (mv s) := by
  simp only [mv, Latch.move, memE, Bool.false_and, Bool.false_eq_true, if_false]
  split <;> omega

/-- moving past a loaded non-zero byte: one byte consumed -/
theorem mem_mv_cur (s : St) (h : (cur s).1 ≠ 0) : memE s + 1 ≤ memE (mv (cur s).2) := by
  obtain ⟨a, b⟩ := mem_cur_loaded s
  have h1 := mem_cur s
  have h2 : memE (cur s).2 = (cur s).2.l.pos := by
    unfold memE; rw [a, b]; simp [h]
  have h3 : memE (mv (cur s).2) = (cur s).2.l.pos + 1 := by
    simp [mv, Latch.move, memE]
  omega

theorem mem_found (s : St) (b : Bool) : memE { s with found := b } = memE s := rfl

theorem mem_skipBlock : ∀ fuel w s, memE s ≤ memE (skipBlock fuel w s).2 := by
  intro fuel
  induction fuel with
  | zero => intro w s; simp [skipBlock]
  | succ f ih =>
    intro w s
    simp only [skipBlock]
    have h1 := mem_cur s
    have h2 := mem_mv (cur s).2
    split
    · exact h1
    · split
      · dsimp only; omega
      · have := ih ((cur s).1 == 0x2A) (mv (cur s).2); omega

theorem mem_skipLine : ∀ fuel s, memE s ≤ memE (skipLine fuel s).2 := by
  intro fuel
  induction fuel with
  | zero => intro s; simp [skipLine]
  | succ f ih =>
    intro s
    simp only [skipLine]
    have h1 := mem_mv s
    have h2 := mem_cur (mv s)
    split
    · dsimp only; omega
    · split
      · dsimp only; omega
      · have := ih (cur (mv s)).2; omega

theorem mem_skipSpaces (cfg : Cfg) : ∀ fuel s, memE s ≤ memE (skipSpaces cfg fuel s).2 := by
  intro fuel
  induction fuel with
  | zero => intro s; simp [skipSpaces]
  | succ f ih =>
    intro s
    simp only [skipSpaces]
    have h1 := mem_cur s
    have h2 := mem_mv (cur s).2
    split
    · exact h1
    · split
      · have := ih (mv (cur s).2); omega
      · split
        · have h3 := mem_cur (mv (cur s).2)
          have h4 := mem_mv (cur (mv (cur s).2)).2
          split
          · have h5 := mem_skipBlock f false (mv (cur (mv (cur s).2)).2)
            split
            · rename_i heq; rw [heq] at h5; exact Nat.le_trans (by simp only at h5; omega) (ih _)
            · omega
          · split
            · have h5 := mem_skipLine f (cur (mv (cur s).2)).2
              split
              · rename_i heq; rw [heq] at h5; exact Nat.le_trans (by simp only at h5; omega) (ih _)
              · omega
            · dsimp only; omega
        · rw [mem_found]; exact h1

theorem mem_skipKeyword : ∀ ks s, memE s ≤ memE (skipKeyword ks s).2 := by
  intro ks
  induction ks with
  | nil => intro s; simp [skipKeyword]
  | cons k ks ih =>
    intro s
    simp only [skipKeyword]
    have h1 := mem_cur s
    have h2 := mem_mv (cur s).2
    split
    · exact h1
    · split
      · exact h1
      · have := ih (mv (cur s).2); omega

/-- four hex digits that are accepted are four bytes consumed -/
theorem mem_parseHex4 : ∀ k acc s, memE s + (if (parseHex4 k acc s).1 = .ok then k else 0) ≤ memE (parseHex4 k acc s).2.2 := by
  intro k
  induction k with
  | zero => intro acc s; simp [parseHex4]
  | succ k ih =>
    intro acc s
    simp only [parseHex4]
    have h1 := mem_cur s
    split
    · simp only [reduceCtorEq, if_false]; omega
    · rename_i hc
      have hc' : (cur s).1 ≠ 0 := by simpa using hc
      split
      · simp only [reduceCtorEq, if_false]; omega
      · have h2 := mem_mv_cur s hc'
        have := ih ((acc * 16 + decodeHex (cur s).1) % 65536) (mv (cur s).2)
        split
        · rename_i hok; rw [if_pos hok] at this; omega
        · split at this <;> omega

theorem mem_encodeCodepoint_len (cp : Nat) : (encodeCodepoint cp).length ≤ 4 := by
  unfold encodeCodepoint
  split
  · simp
  · simp only
    split
    · simp
    · split <;> simp

/-- a string token: every byte produced was consumed (an escape consumes more than it produces), the closing quote too -/
theorem mem_parseQuoted (cfg : Cfg) (stop : Byte) (hstop : stop ≠ 0) : ∀ fuel acc hi s,
    memE s + (parseQuoted cfg stop fuel acc hi s).2.1.length +
        (if (parseQuoted cfg stop fuel acc hi s).1 = .ok ∨ (parseQuoted cfg stop fuel acc hi s).1 = .noMemory then 1 else 0) ≤
      memE (parseQuoted cfg stop fuel acc hi s).2.2 + acc.length := by
  intro fuel
  induction fuel with
  | zero => intro acc hi s; simp [parseQuoted]
  | succ f ih =>
    intro acc hi s
    simp only [parseQuoted]
    have h1 := mem_cur s
    have h2 := mem_mv (cur s).2
    split
    · rename_i hc
      have hc' : (cur s).1 ≠ 0 := by
        have : (cur s).1 = stop := by simpa using hc
        rw [this]; exact hstop
      have h3 := mem_mv_cur s hc'
      simp only [List.length_reverse]
      generalize (if acc.length > cfg.maxStrLen then Code.noMemory else Code.ok) = cc
      have : (if cc = Code.ok ∨ cc = Code.noMemory then 1 else 0) ≤ 1 := by split <;> omega
      omega
    · split
      · simp only [List.length_reverse, reduceCtorEq, or_self, if_false]; omega
      · rename_i hc0
        have hc' : (cur s).1 ≠ 0 := by simpa using hc0
        have h3 := mem_mv_cur s hc'
        split
        · have h4 := mem_cur (mv (cur s).2)
          split
          · simp only [List.length_reverse, reduceCtorEq, or_self, if_false]; omega
          · rename_i hd0
            have hd' : (cur (mv (cur s).2)).1 ≠ 0 := by simpa using hd0
            have h5 := mem_mv_cur (mv (cur s).2) hd'
            split
            · split
              · have h6 := mem_parseHex4 4 0 (mv (cur (mv (cur s).2)).2)
                split
                · rename_i cu s3 heq
                  rw [heq] at h6
                  simp only [if_true] at h6
                  split
                  · have := ih acc (cu % 1024) s3; omega
                  · split
                    · have := ih ((encodeCodepoint (0x10000 + (hi * 1024 + cu % 1024))).reverse ++ acc) hi s3
                      have hl := mem_encodeCodepoint_len (0x10000 + (hi * 1024 + cu % 1024))
                      simp only [List.length_append, List.length_reverse] at this
                      omega
                    · have := ih ((encodeCodepoint cu).reverse ++ acc) hi s3
                      have hl := mem_encodeCodepoint_len cu
                      simp only [List.length_append, List.length_reverse] at this
                      omega
                · rename_i e cu s3 hne heq
                  rw [heq] at h6
                  simp only [List.length_reverse]
                  have : memE (mv (cur (mv (cur s).2)).2) ≤ memE s3 := by
                    simp only at h6; split at h6 <;> omega
                  split <;> omega
              · have := ih (0x5C :: acc) hi (cur (mv (cur s).2)).2
                simp only [List.length_cons] at this
                omega
            · split
              · simp only [List.length_reverse, reduceCtorEq, or_self, if_false]; omega
              · have := ih (unescapeChar (cur (mv (cur s).2)).1 :: acc) hi (mv (cur (mv (cur s).2)).2)
                simp only [List.length_cons] at this
                omega
        · have := ih ((cur s).1 :: acc) hi (mv (cur s).2)
          simp only [List.length_cons] at this
          omega

theorem mem_inUnquoted_ne {c : Byte} (h : inUnquoted c = true) : c ≠ 0 := by
  intro e; subst e; revert h; decide

theorem mem_inNumber_ne {cfg : Cfg} {c : Byte} (h : inNumber cfg c = true) : c ≠ 0 := by
  intro e; subst e
  unfold inNumber at h
  cases hn : cfg.nan <;> cases hi : cfg.inf <;> simp [hn, hi] at h

theorem mem_parseUnquoted : ∀ fuel acc s,
    memE s + (parseUnquoted fuel acc s).1.length ≤ memE (parseUnquoted fuel acc s).2 + acc.length := by
  intro fuel
  induction fuel with
  | zero => intro acc s; simp [parseUnquoted]
  | succ f ih =>
    intro acc s
    simp only [parseUnquoted]
    have h1 := mem_cur s
    split
    · rename_i hc
      have h3 := mem_mv_cur s (mem_inUnquoted_ne hc)
      have := ih ((cur s).1 :: acc) (mv (cur s).2)
      simp only [List.length_cons] at this
      omega
    · simp only [List.length_reverse]; omega

theorem mem_scanNumber (cfg : Cfg) : ∀ k acc s,
    memE s + (scanNumber cfg k acc s).1.length ≤ memE (scanNumber cfg k acc s).2 + acc.length := by
  intro k
  induction k with
  | zero => intro acc s; have := mem_cur s; simp only [scanNumber, List.length_reverse]; omega
  | succ k ih =>
    intro acc s
    simp only [scanNumber]
    have h1 := mem_cur s
    split
    · rename_i hc
      have h3 := mem_mv_cur s (mem_inNumber_ne hc)
      have := ih ((cur s).1 :: acc) (mv (cur s).2)
      simp only [List.length_cons] at this
      omega
    · simp only [List.length_reverse]; omega

/-- a number that is not rejected has at least one byte -/
theorem mem_parseNumber_nil (cfg : Cfg) : parseNumber cfg [] = .invalid := by
  unfold parseNumber
  simp [isDigit]

end JD

/-! ## C. The document -/
namespace DL
open JD (Byte)

/-- bytes of all stored strings (without the per-node overhead) -/
def memStrBytes (d : Doc) : Nat := ((d.strings.map (·.bytes)).map List.length).sum

/-- an operation that allocates no slot and stores no string: same pools, same pool table; string nodes may be released -/
structure MemP (d d' : Doc) : Prop where
  g : d'.g = d.g
  ovh : d'.strOverhead = d.strOverhead
  pools : d'.pl.pools = d.pl.pools
  tcap : d'.pl.tableCap = d.pl.tableCap
  theap : d'.pl.tableHeap = d.pl.tableHeap
  strs : (d'.strings.map (·.bytes)).Sublist (d.strings.map (·.bytes))

theorem MemP.refl (d : Doc) : MemP d d := ⟨rfl, rfl, rfl, rfl, rfl, List.Sublist.refl _⟩

theorem MemP.trans {d d1 d2 : Doc} (h1 : MemP d d1) (h2 : MemP d1 d2) : MemP d d2 :=
  ⟨h2.g.trans h1.g, h2.ovh.trans h1.ovh, h2.pools.trans h1.pools, h2.tcap.trans h1.tcap, h2.theap.trans h1.theap,
    h2.strs.trans h1.strs⟩

theorem mem_sublist_sum {l l' : List (List Byte)} (h : l'.Sublist l) : (l'.map List.length).sum ≤ (l.map List.length).sum := by
  induction h with
  | slnil => exact Nat.le_refl _
  | cons a _ ih => simp only [List.map_cons, List.sum_cons]; omega
  | cons_cons a _ ih => simp only [List.map_cons, List.sum_cons]; omega

theorem MemP.bytes_le {d d' : Doc} (h : MemP d d') : memStrBytes d' ≤ memStrBytes d := mem_sublist_sum h.strs

theorem MemP.count_le {d d' : Doc} (h : MemP d d') : d'.strings.length ≤ d.strings.length := by
  have := h.strs.length_le
  simpa using this

theorem mem_P_of_pl {d d' : Doc} (hg : d'.g = d.g) (ho : d'.strOverhead = d.strOverhead) (hpl : d'.pl = d.pl)
    (hs : d'.strings = d.strings) : MemP d d' :=
  ⟨hg, ho, by rw [hpl], by rw [hpl], by rw [hpl], by rw [hs]; exact List.Sublist.refl _⟩

theorem mem_P_set (d : Doc) (l : Loc) (v : VData) : MemP d (d.set l v) :=
  mem_P_of_pl (set_g _ _ _) (set_strOverhead _ _ _) (set_pl _ _ _) (set_strings _ _ _)

theorem mem_setNext_ovh (d : Doc) (i n : Nat) : (d.setNext i n).strOverhead = d.strOverhead := by
  simp only [Doc.setNext]; split <;> rfl

theorem mem_P_setNext (d : Doc) (i n : Nat) : MemP d (d.setNext i n) :=
  mem_P_of_pl (setNext_g _ _ _) (mem_setNext_ovh _ _ _) (setNext_pl _ _ _) (setNext_strings _ _ _)

theorem mem_P_appendOne (d : Doc) (l : Loc) (id : Nat) : MemP d (d.appendOne l id) := by
  simp only [Doc.appendOne]
  split
  · split
    · exact (mem_P_setNext _ _ _).trans (mem_P_set _ _ _)
    · exact mem_P_set _ _ _
  · exact MemP.refl _

theorem mem_P_appendPair (d : Doc) (l : Loc) (k v : Nat) : MemP d (d.appendPair l k v) := by
  simp only [Doc.appendPair]
  split
  · split
    · exact (mem_P_setNext _ _ _).trans ((mem_P_setNext _ _ _).trans (mem_P_set _ _ _))
    · exact (mem_P_setNext _ _ _).trans (mem_P_set _ _ _)
  · exact mem_P_setNext _ _ _

theorem mem_P_freeCell (d : Doc) (id : Nat) : MemP d (d.freeCell id) :=
  ⟨rfl, rfl, rfl, rfl, rfl, List.Sublist.refl _⟩

theorem mem_P_deref (d : Doc) (n : Nat) : MemP d (d.derefString n) := by
  simp only [Doc.derefString]
  split
  · exact MemP.refl _
  · split
    · exact ⟨rfl, rfl, rfl, rfl, rfl, List.Sublist.map _ List.filter_sublist⟩
    · refine ⟨rfl, rfl, rfl, rfl, rfl, ?_⟩
      simp only [List.map_map]
      have : ((fun x : StrNode => x.bytes) ∘ fun x : StrNode => if (x.id == n) = true then { x with refs := x.refs - 1 } else x) =
          fun x : StrNode => x.bytes := by
        funext x; simp only [Function.comp]; split <;> rfl
      rw [this]
      exact List.Sublist.refl _

theorem mem_P_walkFree (free1 : Doc → Nat → Doc) (h1 : ∀ d id, MemP d (free1 d id)) :
    ∀ (w : Nat) (d : Doc) (id : Nat), MemP d (walkFree free1 w d id) := by
  intro w
  induction w with
  | zero => intro d id; exact MemP.refl _
  | succ w ih =>
    intro d id
    simp only [walkFree]
    split
    · exact MemP.refl _
    · exact (h1 d id).trans (ih _ _)

theorem mem_P_clearVF : ∀ (f : Nat) (d : Doc) (l : Loc), MemP d (Doc.clearVF f d l) := by
  intro f
  induction f with
  | zero => intro d l; rw [Doc.clearVF]; exact mem_P_set _ _ _
  | succ f ih =>
    intro d l
    have hw : ∀ (d : Doc) (w h : Nat),
        MemP d (walkFree (fun d id => (Doc.clearVF f d (.slot id)).freeCell id) w d h) :=
      fun d w h => mem_P_walkFree (fun d id => (Doc.clearVF f d (.slot id)).freeCell id)
        (fun d id => (ih d (.slot id)).trans (mem_P_freeCell _ _)) w d h
    simp only [Doc.clearVF]
    refine MemP.trans ?_ (mem_P_set _ l .null)
    cases d.get l <;> simp only <;>
      first | exact MemP.refl _ | exact mem_P_deref _ _ | exact mem_P_freeCell _ _ | exact hw _ _ _

/-- `VariantData::clear` allocates nothing -/
theorem mem_P_clearV (d : Doc) (l : Loc) : MemP d (d.clearV l) := mem_P_clearVF _ d l

theorem mem_P_pleq {d d' : Doc} (h : JDD.PlEq d d') : MemP d d' :=
  ⟨h.g, h.ovh, h.pools, h.tcap, h.theap, by rw [h.strings]; exact List.Sublist.refl _⟩

/-! ### the step relation on documents -/

/-- from document `d` with reader potential `e` to `d'` with `e'`: the slots handed out, the string bytes and (twice) the
    string nodes grow by at most the bytes consumed plus the credits `ks`, `kb`, `kc`; `ok`: no slot allocation failed -/
structure MemD (g : PL.Geo) (w : Nat) (ks kb kc : Int) (e e' : Nat) (d d' : Doc) (ok : Prop) : Prop where
  hg : d'.g = g
  ovh : d'.strOverhead = d.strOverhead
  mono : e ≤ e'
  slots : (PL.memSlots d'.pl : Int) + e ≤ PL.memSlots d.pl + e' + ks
  sbytes : (memStrBytes d' : Int) + e ≤ memStrBytes d + e' + kb
  scount : ((w * d'.strings.length : Nat) : Int) + e ≤ (w * d.strings.length : Nat) + e' + kc
  always : PL.MemA g d.pl → PL.MemA g d'.pl
  strong : PL.MemS g d.pl → PL.MemW g d'.pl ∧ (ok → PL.MemS g d'.pl)

theorem MemD.trans {g : PL.Geo} {w : Nat} {ks1 kb1 kc1 ks2 kb2 kc2 : Int} {e e1 e2 : Nat} {d d1 d2 : Doc} {P Q : Prop}
    (h1 : MemD g w ks1 kb1 kc1 e e1 d d1 P) (hp : P) (h2 : MemD g w ks2 kb2 kc2 e1 e2 d1 d2 Q) :
    MemD g w (ks1 + ks2) (kb1 + kb2) (kc1 + kc2) e e2 d d2 Q := by
  refine ⟨h2.hg, h2.ovh.trans h1.ovh, Nat.le_trans h1.mono h2.mono, ?_, ?_, ?_, fun h => h2.always (h1.always h),
    fun h => h2.strong ((h1.strong h).2 hp)⟩
  · have := h1.slots; have := h2.slots; omega
  · have := h1.sbytes; have := h2.sbytes; omega
  · have := h1.scount; have := h2.scount; omega

theorem MemD.weaken {g : PL.Geo} {w : Nat} {ks kb kc ks' kb' kc' : Int} {e e' : Nat} {d d' : Doc} {P Q : Prop}
    (h : MemD g w ks kb kc e e' d d' P) (h1 : ks ≤ ks') (h2 : kb ≤ kb') (h3 : kc ≤ kc') (hq : Q → P) :
    MemD g w ks' kb' kc' e e' d d' Q := by
  refine ⟨h.hg, h.ovh, h.mono, ?_, ?_, ?_, h.always, fun hs => ⟨(h.strong hs).1, fun q => (h.strong hs).2 (hq q)⟩⟩
  · have := h.slots; omega
  · have := h.sbytes; omega
  · have := h.scount; omega

/-- the reader moves, the document does not change -/
theorem MemD.reader {g : PL.Geo} {w : Nat} {e e' : Nat} (j : Nat) {d : Doc} (hg : d.g = g) (h : e + j ≤ e') :
    MemD g w (-(j : Int)) (-(j : Int)) (-(j : Int)) e e' d d True := by
  refine ⟨hg, rfl, by omega, by omega, by omega, by omega, fun h => h, fun h => ⟨h.weak, fun _ => h⟩⟩

/-- an operation that allocates no slot and stores no string -/
theorem MemD.passive {g : PL.Geo} {w : Nat} {e : Nat} {d d' : Doc} (hg : d.g = g) (h : MemP d d') :
    MemD g w 0 0 0 e e d d' True := by
  refine ⟨h.g.trans hg, h.ovh, Nat.le_refl _, ?_, ?_, ?_, fun a => a.congr h.pools h.tcap h.theap,
    fun a => ⟨(a.weak).congr h.pools, fun _ => a.congr h.pools⟩⟩
  · rw [PL.mem_memSlots_congr h.pools]; omega
  · have := h.bytes_le; omega
  · have := Nat.mul_le_mul_left w h.count_le; omega

/-- one slot allocation -/
theorem MemD.slot {g : PL.Geo} {w : Nat} {e : Nat} {d d' : Doc} {r : Option Nat} (gok : PL.GeoOK g) (hg : d.g = g)
    (hg' : d'.g = d.g) (ho : d'.strOverhead = d.strOverhead) (hs : d'.strings = d.strings)
    (hpl : PL.allocSlot d.g d.pl = (r, d'.pl)) : MemD g w 1 0 0 e e d d' (r.isSome = true) := by
  subst hg
  obtain ⟨a, b, c, s⟩ := PL.mem_allocSlot gok hpl
  refine ⟨hg', ho, Nat.le_refl _, ?_, ?_, ?_, a, s⟩
  · have : (if r.isSome = true then 1 else 0) ≤ 1 := by split <;> omega
    omega
  · unfold memStrBytes; rw [hs]; omega
  · rw [hs]; omega

theorem mem_allocVariant_ovh (d : Doc) : d.allocVariant.2.strOverhead = d.strOverhead := by
  simp only [Doc.allocVariant]; split <;> rfl
theorem mem_allocExt_ovh (d : Doc) (p : Int) : (d.allocExt p).2.strOverhead = d.strOverhead := by
  simp only [Doc.allocExt]; split <;> rfl
theorem mem_allocExt_fst (d : Doc) (p : Int) : (d.allocExt p).1 = (PL.allocSlot d.g d.pl).1 := by
  simp only [Doc.allocExt]; split <;> (rename_i h; rw [h])

theorem mem_D_allocVariant {g : PL.Geo} {w : Nat} {e : Nat} (d : Doc) (gok : PL.GeoOK g) (hg : d.g = g) :
    MemD g w 1 0 0 e e d d.allocVariant.2 (d.allocVariant.1.isSome = true) :=
  MemD.slot gok hg (allocVariant_g d) (mem_allocVariant_ovh d) (allocVariant_pl_s d).2
    (by rw [allocVariant_fst, allocVariant_pl])

theorem mem_D_allocExt {g : PL.Geo} {w : Nat} {e : Nat} (d : Doc) (p : Int) (gok : PL.GeoOK g) (hg : d.g = g) :
    MemD g w 1 0 0 e e d (d.allocExt p).2 ((d.allocExt p).1.isSome = true) :=
  MemD.slot gok hg (allocExt_g d p) (mem_allocExt_ovh d p) (allocExt_pl d p).2
    (by rw [mem_allocExt_fst, (allocExt_pl d p).1])

/-- `addElement`: one slot -/
theorem mem_D_addElement {g : PL.Geo} {w : Nat} {e : Nat} (d : Doc) (l : Loc) (gok : PL.GeoOK g) (hg : d.g = g) :
    MemD g w 1 0 0 e e d (d.addElement l).2 ((d.addElement l).1.isSome = true) := by
  have h := mem_D_allocVariant (w := w) (e := e) d gok hg
  simp only [Doc.addElement]
  generalize d.allocVariant = r at h
  obtain ⟨o, d1⟩ := r
  cases o with
  | none => exact h
  | some id =>
    simp only at h ⊢
    have := h.trans rfl (MemD.passive h.hg (mem_P_appendOne d1 l id))
    exact this.weaken (by omega) (by omega) (by omega) (fun _ => trivial)

/-- `addMember(StringNode*)`: two slots -/
theorem mem_D_addMemberNode {g : PL.Geo} {w : Nat} {e : Nat} (d : Doc) (l : Loc) (node : Nat) (gok : PL.GeoOK g) (hg : d.g = g) :
    MemD g w 2 0 0 e e d (JDD.addMemberNode d l node).2 ((JDD.addMemberNode d l node).1.isSome = true) := by
  have h := mem_D_allocVariant (w := w) (e := e) d gok hg
  simp only [JDD.addMemberNode]
  generalize d.allocVariant = r at h
  obtain ⟨o, d1⟩ := r
  cases o with
  | none => exact h.weaken (by omega) (by omega) (by omega) (fun q => q)
  | some k =>
    simp only at h ⊢
    have h2 := mem_D_allocVariant (w := w) (e := e) d1 gok h.hg
    generalize d1.allocVariant = r2 at h2
    obtain ⟨o2, d2⟩ := r2
    cases o2 with
    | none => exact (h.trans rfl h2).weaken (by omega) (by omega) (by omega) (fun q => q)
    | some v =>
      simp only at h2 ⊢
      have h3 := (h.trans rfl h2).trans rfl
        (MemD.passive h2.hg ((mem_P_set d2 (.slot k) (.owned node)).trans (mem_P_appendPair _ l k v)))
      exact h3.weaken (by omega) (by omega) (by omega) (fun _ => trivial)

/-- storing a number: at most one (extension) slot; none for a 32-bit value -/
theorem mem_D_setArg_num {g : PL.Geo} {w : Nat} {e : Nat} (d : Doc) (l : Loc) (a : Arg) (gok : PL.GeoOK g) (hg : d.g = g)
    (ha : match a with | .uint _ | .sint _ | .f32 _ | .f64 _ => True | _ => False) :
    MemD g w 1 0 0 e e d (d.setArg l a).2 ((d.setArg l a).1 = true) := by
  have hset : ∀ v, MemD g w 1 0 0 e e d (d.set l v) (true = true) :=
    fun v => (MemD.passive hg (mem_P_set d l v)).weaken (by omega) (by omega) (by omega) (fun _ => trivial)
  have hext : ∀ (p : Int) (mk : Nat → VData),
      MemD g w 1 0 0 e e d
        (match d.allocExt p with | (some s, d) => (true, d.set l (mk s)) | (none, d) => (false, d)).2
        ((match d.allocExt p with | (some s, d) => (true, d.set l (mk s)) | (none, d) => (false, d)).1 = true) := by
    intro p mk
    have h := mem_D_allocExt (w := w) (e := e) d p gok hg
    generalize d.allocExt p = r at h
    obtain ⟨o, d1⟩ := r
    cases o with
    | none => exact h.weaken (by omega) (by omega) (by omega) (fun q => by cases q)
    | some s =>
      simp only at h ⊢
      exact (h.trans rfl (MemD.passive h.hg (mem_P_set d1 l (mk s)))).weaken (by omega) (by omega) (by omega)
        (fun _ => trivial)
  cases a with
  | sint v =>
    simp only [Doc.setArg]
    split
    · exact hset _
    · exact hext v .i64
  | uint v =>
    simp only [Doc.setArg]
    split
    · exact hset _
    · exact hext v .u64
  | f32 b => exact hset _
  | f64 b =>
    simp only [Doc.setArg]
    split
    · exact hset _
    · exact hext b .f64
  | _ => exact absurd ha (by simp)

end DL

/-! ## D. The deserializer -/
namespace JDD
open DL
open JD (Byte Code Cfg cur mv skipSpaces skipKeyword memE)

/-- the StringBuilder's buffer: at most the maximal string length (or the initial 31 bytes), and less than twice the
    bytes consumed -/
def MemBuf (maxLen : Nat) (x : S) : Prop :=
  ∀ cap, x.b = some cap → cap ≤ max 31 maxLen ∧ cap ≤ max 31 (2 * memE x.s - 1)

/-- a step of the deserializer: the document part (`MemD`, against the reader potential `memE`) and the builder's buffer -/
structure MemT (cfg : Cfg) (g : PL.Geo) (ks kb kc : Int) (x x' : S) (ok : Prop) : Prop where
  d : MemD g 2 ks kb kc (memE x.s) (memE x'.s) x.d x'.d ok
  buf : MemBuf cfg.maxStrLen x → MemBuf cfg.maxStrLen x'

theorem MemT.trans {cfg : Cfg} {g : PL.Geo} {ks1 kb1 kc1 ks2 kb2 kc2 : Int} {x x1 x2 : S} {P Q : Prop}
    (h1 : MemT cfg g ks1 kb1 kc1 x x1 P) (hp : P) (h2 : MemT cfg g ks2 kb2 kc2 x1 x2 Q) :
    MemT cfg g (ks1 + ks2) (kb1 + kb2) (kc1 + kc2) x x2 Q :=
  ⟨h1.d.trans hp h2.d, fun h => h2.buf (h1.buf h)⟩

theorem MemT.weaken {cfg : Cfg} {g : PL.Geo} {ks kb kc ks' kb' kc' : Int} {x x' : S} {P Q : Prop}
    (h : MemT cfg g ks kb kc x x' P) (h1 : ks ≤ ks') (h2 : kb ≤ kb') (h3 : kc ≤ kc') (hq : Q → P) :
    MemT cfg g ks' kb' kc' x x' Q :=
  ⟨h.d.weaken h1 h2 h3 hq, h.buf⟩

/-- the reader consumes at least `j` bytes while the document goes through an operation that does not touch the builder -/
theorem MemT.step {cfg : Cfg} {g : PL.Geo} {ks kb kc : Int} {x : S} {ok : Prop} (s' : JD.St) (d' : Doc) (j : Nat)
    (hr : memE x.s + j ≤ memE s') (hd : MemD g 2 ks kb kc (memE x.s) (memE x.s) x.d d' ok) :
    MemT cfg g (ks - j) (kb - j) (kc - j) x ⟨s', d', x.b⟩ ok := by
  refine ⟨⟨hd.hg, hd.ovh, by show memE x.s ≤ memE s'; omega, ?_, ?_, ?_, hd.always, hd.strong⟩, ?_⟩
  · have := hd.slots; show (PL.memSlots d'.pl : Int) + _ ≤ _ + memE s' + _; omega
  · have := hd.sbytes; show (memStrBytes d' : Int) + _ ≤ _ + memE s' + _; omega
  · have := hd.scount; show (2 * d'.strings.length : Int) + _ ≤ _ + memE s' + _; omega
  · intro hb cap hc
    obtain ⟨a, b⟩ := hb cap hc
    refine ⟨a, ?_⟩
    show cap ≤ max 31 (2 * memE s' - 1)
    omega

/-- the reader alone -/
theorem MemT.rd {cfg : Cfg} {g : PL.Geo} {x : S} (s' : JD.St) (j : Nat) (hg : x.d.g = g)
    (hr : memE x.s + j ≤ memE s') : MemT cfg g (-(j : Int)) (-(j : Int)) (-(j : Int)) x ⟨s', x.d, x.b⟩ True :=
  (MemT.step (cfg := cfg) s' x.d j hr (MemD.passive hg (MemP.refl _))).weaken (by omega) (by omega) (by omega) (fun h => h)

theorem mem_ne_of_beq {c k : Byte} (h : (c == k) = true) (hk : k ≠ 0) : c ≠ 0 := by
  have := eq_of_beq h; subst this; exact hk

/-! ### the StringBuilder -/

theorem mem_startString (cfg : Cfg) {g : PL.Geo} (x : S) (hg : x.d.g = g) :
    MemT cfg g 0 0 0 x (startString x) True := by
  obtain ⟨bo, hs, _⟩ := startString_spec x
  refine ⟨?_, ?_⟩
  · rw [hs]; exact MemD.passive hg (mem_P_pleq bo.pleq)
  · intro hb cap hc
    unfold MemBuf at hb
    rw [hs]
    unfold startString at hc
    cases hx : x.b with
    | some c0 =>
      rw [hx] at hc
      simp only at hc
      exact hb cap (hc ▸ hx ▸ rfl)
    | none =>
      rw [hx] at hc
      simp only at hc
      split at hc
      · simp only [Option.some.injEq] at hc
        subst hc
        exact ⟨by omega, by omega⟩
      · simp at hc

theorem mem_appendN_s (maxLen : Nat) (k size : Nat) (x : S) : (appendN maxLen k size x).s = x.s :=
  (appendN_spec maxLen k size x).s

/-- the buffer grows to `2·size + 1` only when `size` bytes are in it, and never beyond the maximal length -/
theorem mem_appendN_buf (maxLen N : Nat) : ∀ (k size : Nat) (x : S),
    (∀ cap, x.b = some cap → cap ≤ max 31 maxLen ∧ cap ≤ N) → 2 * (size + k) ≤ N + 1 →
    ∀ cap, (appendN maxLen k size x).b = some cap → cap ≤ max 31 maxLen ∧ cap ≤ N := by
  intro k
  induction k with
  | zero => intro size x h _; exact h
  | succ k ih =>
    intro size x h hk
    unfold appendN
    cases hb : x.b with
    | none => simp only; rw [hb]; intro cap hc; cases hc
    | some c0 =>
      simp only
      split
      · rename_i hsz
        split
        · exact ih _ _ (fun cap hc => by cases hc) (by omega)
        · rename_i hle
          generalize x.d.pl.realloc (size * 2 + 1 + x.d.strOverhead) true = q
          obtain ⟨ok, pl⟩ := q
          simp only
          split
          · refine ih _ _ (fun cap hc => ?_) (by omega)
            simp only [Option.some.injEq] at hc
            subst hc
            exact ⟨by omega, by omega⟩
          · exact ih _ _ (fun cap hc => by cases hc) (by omega)
      · exact ih _ _ h (by omega)

theorem mem_appendN (cfg : Cfg) {g : PL.Geo} (k : Nat) (x : S) (hg : x.d.g = g) (hk : k ≤ memE x.s) :
    MemT cfg g 0 0 0 x (appendN cfg.maxStrLen k 0 x) True := by
  have ao := appendN_spec cfg.maxStrLen k 0 x
  refine ⟨?_, ?_⟩
  · rw [ao.s]; exact MemD.passive hg (mem_P_pleq ao.bop.pleq)
  · intro hb
    unfold MemBuf
    rw [ao.s]
    exact mem_appendN_buf cfg.maxStrLen (max 31 (2 * memE x.s - 1)) k 0 x hb (by omega)

/-- a quoted string token through the builder: its bytes and (when it is accepted) its closing quote were consumed -/
theorem mem_quoted (cfg : Cfg) {g : PL.Geo} (fuel : Nat) (stop : Byte) (hstop : stop ≠ 0) (x : S) (hg : x.d.g = g) :
    ∃ K : Nat, MemT cfg g (-(K : Int)) (-(K : Int)) (-(K : Int)) x (quoted cfg fuel stop x).2.2 True ∧
      ((quoted cfg fuel stop x).1 = .ok → (quoted cfg fuel stop x).2.1.length + 1 ≤ K) := by
  have t1 := mem_startString cfg x hg
  have hs1 : (startString x).s = x.s := (startString_spec x).2.1
  have hq := JD.mem_parseQuoted cfg stop hstop fuel [] 0 (startString x).s
  unfold quoted
  simp only
  generalize JD.parseQuoted cfg stop fuel [] 0 (startString x).s = r at hq
  obtain ⟨c, bytes, s⟩ := r
  simp only [List.length_nil, Nat.add_zero] at hq ⊢
  have t2 := MemT.rd (cfg := cfg) (x := startString x) s
    (bytes.length + (if c = Code.ok ∨ c = Code.noMemory then 1 else 0)) t1.d.hg (by omega)
  have t3 := mem_appendN cfg bytes.length (⟨s, (startString x).d, (startString x).b⟩ : S) t1.d.hg
    (by show bytes.length ≤ memE s; omega)
  refine ⟨bytes.length + (if c = Code.ok ∨ c = Code.noMemory then 1 else 0),
    ((t1.trans trivial t2).trans trivial t3).weaken (by omega) (by omega) (by omega) (fun h => h), ?_⟩
  intro hok
  have : c = Code.ok ∨ c = Code.noMemory := by
    by_cases hc : c = Code.ok ∨ c = Code.noMemory
    · exact hc
    · exfalso
      have h1 : (c == Code.ok || c == Code.noMemory) = false := by
        cases c <;> first | rfl | exact absurd (Or.inl rfl) hc | exact absurd (Or.inr rfl) hc
      rw [h1] at hok
      simp only [Bool.false_eq_true, if_false] at hok
      exact hc (Or.inl hok)
  rw [if_pos this]; omega

theorem mem_parseUnquoted_len : ∀ fuel acc s, acc.length ≤ (JD.parseUnquoted fuel acc s).1.length := by
  intro fuel
  induction fuel with
  | zero => intro acc s; simp [JD.parseUnquoted]
  | succ f ih =>
    intro acc s
    simp only [JD.parseUnquoted]
    split
    · have := ih ((cur s).1 :: acc) (mv (cur s).2)
      simp only [List.length_cons] at this
      omega
    · simp

theorem mem_cur_cur (s : JD.St) : cur (cur s).2 = cur s := by
  obtain ⟨⟨unread, c0, loaded, pos⟩, found⟩ := s
  cases loaded with
  | true => simp [cur, JD.Latch.current]
  | false =>
    cases unread with
    | nil => simp [cur, JD.Latch.current]
    | cons c cs => simp [cur, JD.Latch.current]

/-- an unquoted key through the builder: at least one byte, all of them consumed -/
theorem mem_unquoted (cfg : Cfg) {g : PL.Geo} (fuel : Nat) (s0 : JD.St) (d : Doc) (b : Option Nat) (hg : d.g = g)
    (hc : JD.inUnquoted (cur s0).1 = true) :
    ∃ K : Nat, MemT cfg g (-(K : Int)) (-(K : Int)) (-(K : Int)) ⟨(cur s0).2, d, b⟩
        (unquoted cfg (fuel+1) ⟨(cur s0).2, d, b⟩).2.2 True ∧
      (unquoted cfg (fuel+1) ⟨(cur s0).2, d, b⟩).2.1.length ≤ K ∧ 1 ≤ K := by
  have t1 := mem_startString cfg (⟨(cur s0).2, d, b⟩ : S) hg
  have hs1 : (startString ⟨(cur s0).2, d, b⟩).s = (cur s0).2 := (startString_spec _).2.1
  have hq := JD.mem_parseUnquoted (fuel+1) [] (startString ⟨(cur s0).2, d, b⟩).s
  have hl : 1 ≤ (JD.parseUnquoted (fuel+1) [] (startString ⟨(cur s0).2, d, b⟩).s).1.length := by
    rw [hs1]
    simp only [JD.parseUnquoted, mem_cur_cur, hc, if_true]
    have := mem_parseUnquoted_len fuel [(cur s0).1] (mv (cur s0).2)
    simpa using this
  unfold unquoted
  simp only
  generalize JD.parseUnquoted (fuel+1) [] (startString ⟨(cur s0).2, d, b⟩).s = r at hq hl
  obtain ⟨bytes, s⟩ := r
  simp only [List.length_nil, Nat.add_zero] at hq hl ⊢
  have t2 := MemT.rd (cfg := cfg) (x := startString ⟨(cur s0).2, d, b⟩) s bytes.length t1.d.hg (by omega)
  have t3 := mem_appendN cfg bytes.length
    (⟨s, (startString ⟨(cur s0).2, d, b⟩).d, (startString ⟨(cur s0).2, d, b⟩).b⟩ : S) t1.d.hg
    (by show bytes.length ≤ memE s; omega)
  exact ⟨bytes.length, ((t1.trans trivial t2).trans trivial t3).weaken (by omega) (by omega) (by omega) (fun h => h),
    Nat.le_refl _, hl⟩

/-- `save`: a new node costs its bytes; an equal stored string costs nothing -/
theorem mem_save (cfg : Cfg) {g : PL.Geo} (x : S) (bytes : List Byte) (hg : x.d.g = g) :
    MemT cfg g 0 bytes.length 2 x (save x bytes).2 True := by
  cases hf : x.d.strings.find? (·.bytes == bytes) with
  | some y =>
    rw [save_eq_found hf]
    have hP : MemP x.d { x.d with strings :=
        (x.d.strings.map (fun z => if z.id == y.id then { z with refs := z.refs + 1 } else z)) } := by
      refine ⟨rfl, rfl, rfl, rfl, rfl, ?_⟩
      simp only [List.map_map]
      have : ((fun z : StrNode => z.bytes) ∘ fun z : StrNode => if (z.id == y.id) = true then { z with refs := z.refs + 1 } else z) =
          fun z : StrNode => z.bytes := by
        funext z; simp only [Function.comp]; split <;> rfl
      rw [this]
      exact List.Sublist.refl _
    exact (MemT.step (cfg := cfg) x.s _ 0 (Nat.le_refl _) (MemD.passive hg hP)).weaken (by omega) (by omega) (by omega)
      (fun h => h)
  | none =>
    rw [save_eq_new hf]
    have hD : MemD g 2 0 bytes.length 2 (memE x.s) (memE x.s) x.d
        { x.d with pl := (x.d.pl.realloc (bytes.length + x.d.strOverhead) false).2,
                   strings := ⟨x.d.nextNode, bytes, 1⟩ :: x.d.strings, nextNode := x.d.nextNode + 1 } True := by
      refine ⟨hg, rfl, Nat.le_refl _, ?_, ?_, ?_, fun a => PL.MemA.congr (s := x.d.pl) rfl rfl rfl a,
        fun a => ⟨PL.MemW.congr (s := x.d.pl) rfl a.weak, fun _ => PL.MemS.congr (s := x.d.pl) rfl a⟩⟩
      · have : PL.memSlots (x.d.pl.realloc (bytes.length + x.d.strOverhead) false).2 = PL.memSlots x.d.pl :=
          PL.mem_memSlots_congr rfl
        show (PL.memSlots (x.d.pl.realloc _ false).2 : Int) + _ ≤ _
        omega
      · simp only [memStrBytes, List.map_cons, List.sum_cons]; omega
      · simp only [List.length_cons]; omega
    exact ⟨hD, fun _ cap hc => by cases hc⟩

/-- `parseNumericValue`: a number that needs an extension slot has at least one byte -/
theorem mem_numeric (cfg : Cfg) {g : PL.Geo} (l : Loc) (x : S) (gok : PL.GeoOK g) (hg : x.d.g = g) :
    MemT cfg g 0 0 0 x (numeric cfg l x).2 ((numeric cfg l x).1 = .ok) := by
  have hq := JD.mem_scanNumber cfg (Gen.number_buffer - 1) [] x.s
  have hnil := JD.mem_parseNumber_nil cfg
  have store : ∀ (buf : List Byte) (s : JD.St) (a : Arg), memE x.s + buf.length ≤ memE s → 1 ≤ buf.length →
      (match a with | .uint _ | .sint _ | .f32 _ | .f64 _ => True | _ => False) →
      MemT cfg g 0 0 0 x ({ s := s, d := (x.d.setArg l a).2, b := x.b } : S)
        ((if (x.d.setArg l a).1 = true then Code.ok else Code.noMemory) = Code.ok) := by
    intro buf s a h1 h2 ha
    refine (MemT.step (cfg := cfg) s _ buf.length h1 (mem_D_setArg_num x.d l a gok hg ha)).weaken
      (by omega) (by omega) (by omega) (fun q => ?_)
    cases hh : (x.d.setArg l a).1 with
    | true => rfl
    | false => rw [hh] at q; simp at q
  unfold numeric
  simp only
  generalize JD.scanNumber cfg (Gen.number_buffer - 1) [] x.s = r at hq
  obtain ⟨buf, s⟩ := r
  simp only [List.length_nil, Nat.add_zero] at hq ⊢
  have hne : ∀ p, JD.parseNumber cfg buf = p → p ≠ .invalid → 1 ≤ buf.length := by
    intro p hp hpi
    cases buf with
    | nil => rw [hnil] at hp; exact absurd hp.symm hpi
    | cons a t => simp
  split
  · rename_i n heq; exact store buf s _ hq (hne _ heq (by simp)) trivial
  · rename_i n heq; exact store buf s _ hq (hne _ heq (by simp)) trivial
  · rename_i n heq; exact store buf s _ hq (hne _ heq (by simp)) trivial
  · rename_i n heq; exact store buf s _ hq (hne _ heq (by simp)) trivial
  · exact (MemT.rd (cfg := cfg) s 0 hg (by omega)).weaken (by omega) (by omega) (by omega) (fun _ => trivial)
  · exact (MemT.rd (cfg := cfg) s 0 hg (by omega)).weaken (by omega) (by omega) (by omega) (fun _ => trivial)

/-! ### the statements, by fuel -/

def MemPV (cfg : Cfg) (g : PL.Geo) (fuel : Nat) : Prop := ∀ (limit : Nat) (l : Loc) (x : S), x.d.g = g →
  MemT cfg g 0 0 0 x (parseVariant cfg fuel limit l x).2 ((parseVariant cfg fuel limit l x).1 = .ok)

/-- an element costs one slot, paid by the `[` or `,` before it -/
def MemPE (cfg : Cfg) (g : PL.Geo) (fuel : Nat) : Prop := ∀ (limit : Nat) (l : Loc) (x : S), x.d.g = g →
  MemT cfg g 1 0 0 x (parseElems cfg fuel limit l x).2 ((parseElems cfg fuel limit l x).1 = .ok)

def MemPM (cfg : Cfg) (g : PL.Geo) (fuel : Nat) : Prop := ∀ (limit : Nat) (l : Loc) (x : S), x.d.g = g →
  MemT cfg g 0 0 0 x (parseMembers cfg fuel limit l x).2 ((parseMembers cfg fuel limit l x).1 = .ok)

theorem mem_pv_zero (cfg : Cfg) (g : PL.Geo) : MemPV cfg g 0 := by
  intro limit l x hg
  simp only [parseVariant]
  exact (MemT.rd (cfg := cfg) x.s 0 hg (Nat.le_refl _)).weaken (by omega) (by omega) (by omega) (fun _ => trivial)

theorem mem_pe_zero (cfg : Cfg) (g : PL.Geo) : MemPE cfg g 0 := by
  intro limit l x hg
  simp only [parseElems]
  exact (MemT.rd (cfg := cfg) x.s 0 hg (Nat.le_refl _)).weaken (by omega) (by omega) (by omega) (fun _ => trivial)

theorem mem_pm_zero (cfg : Cfg) (g : PL.Geo) : MemPM cfg g 0 := by
  intro limit l x hg
  simp only [parseMembers]
  exact (MemT.rd (cfg := cfg) x.s 0 hg (Nat.le_refl _)).weaken (by omega) (by omega) (by omega) (fun _ => trivial)

theorem mem_pv_succ (cfg : Cfg) (g : PL.Geo) (gok : PL.GeoOK g) (f : Nat) (ihE : MemPE cfg g f) (ihM : MemPM cfg g f) :
    MemPV cfg g (f+1) := by
  intro limit l x hg
  simp only [parseVariant]
  have hs0 := JD.mem_skipSpaces cfg (f+1) x.s
  split
  · rename_i s1 heq
    rw [heq] at hs0
    simp only at hs0
    have hc1 := JD.mem_cur s1
    split
    · -- '['
      rename_i hc
      have hne : (cur s1).1 ≠ 0 := mem_ne_of_beq hc (by decide)
      have hm := JD.mem_mv_cur s1 hne
      split
      · exact (MemT.step (cfg := cfg) (cur s1).2 _ 0 (by omega) (MemD.passive hg (mem_P_set x.d l _))).weaken
          (by omega) (by omega) (by omega) (fun _ => trivial)
      · rename_i lim0 lim'
        have hs1 := JD.mem_skipSpaces cfg (f+1) (mv (cur s1).2)
        split
        · rename_i s2 heq2
          rw [heq2] at hs1
          simp only at hs1
          have hc2 := JD.mem_cur s2
          split
          · have hm2 := JD.mem_mv (cur s2).2
            exact (MemT.step (cfg := cfg) (mv (cur s2).2) _ 0 (by omega) (MemD.passive hg (mem_P_set x.d l _))).weaken
              (by omega) (by omega) (by omega) (fun _ => trivial)
          · have t1 := MemT.step (cfg := cfg) (x := x) (cur s2).2 _ 1 (by omega) (MemD.passive hg (mem_P_set x.d l (.arr x.d.null x.d.null)))
            have t2 := ihE lim' l ⟨(cur s2).2, x.d.set l (.arr x.d.null x.d.null), x.b⟩ t1.d.hg
            exact (t1.trans trivial t2).weaken (by omega) (by omega) (by omega) (fun h => h)
        · rename_i e s2 hne2 heq2
          rw [heq2] at hs1
          simp only at hs1
          exact (MemT.step (cfg := cfg) s2 _ 0 (by omega) (MemD.passive hg (mem_P_set x.d l _))).weaken
            (by omega) (by omega) (by omega) (fun _ => trivial)
    · split
      · -- '{'
        rename_i hc
        have hne : (cur s1).1 ≠ 0 := mem_ne_of_beq hc (by decide)
        have hm := JD.mem_mv_cur s1 hne
        split
        · exact (MemT.step (cfg := cfg) (cur s1).2 _ 0 (by omega) (MemD.passive hg (mem_P_set x.d l _))).weaken
            (by omega) (by omega) (by omega) (fun _ => trivial)
        · rename_i lim0 lim'
          have hs1 := JD.mem_skipSpaces cfg (f+1) (mv (cur s1).2)
          split
          · rename_i s2 heq2
            rw [heq2] at hs1
            simp only at hs1
            have hc2 := JD.mem_cur s2
            split
            · have hm2 := JD.mem_mv (cur s2).2
              exact (MemT.step (cfg := cfg) (mv (cur s2).2) _ 0 (by omega) (MemD.passive hg (mem_P_set x.d l _))).weaken
                (by omega) (by omega) (by omega) (fun _ => trivial)
            · have t1 := MemT.step (cfg := cfg) (x := x) (cur s2).2 _ 1 (by omega)
                (MemD.passive hg (mem_P_set x.d l (.obj x.d.null x.d.null)))
              have t2 := ihM lim' l ⟨(cur s2).2, x.d.set l (.obj x.d.null x.d.null), x.b⟩ t1.d.hg
              exact (t1.trans trivial t2).weaken (by omega) (by omega) (by omega) (fun h => h)
          · rename_i e s2 hne2 heq2
            rw [heq2] at hs1
            simp only at hs1
            exact (MemT.step (cfg := cfg) s2 _ 0 (by omega) (MemD.passive hg (mem_P_set x.d l _))).weaken
              (by omega) (by omega) (by omega) (fun _ => trivial)
      · split
        · -- a string
          rename_i hc
          have hne : (cur s1).1 ≠ 0 := by
            simp only [Bool.or_eq_true] at hc
            rcases hc with hc | hc
            · exact mem_ne_of_beq hc (by decide)
            · exact mem_ne_of_beq hc (by decide)
          have hm := JD.mem_mv_cur s1 hne
          have t1 := MemT.rd (cfg := cfg) (x := x) (mv (cur s1).2) 1 hg (by omega)
          obtain ⟨K, t2, hK⟩ := mem_quoted cfg (f+1) (cur s1).1 hne ⟨mv (cur s1).2, x.d, x.b⟩ hg
          split
          · rename_i bytes x1 heq2
            rw [heq2] at t2 hK
            simp only at t2 hK
            have hK' := hK trivial
            have t3 := mem_save cfg x1 bytes t2.d.hg
            have t4 := MemT.step (cfg := cfg) (x := (save x1 bytes).2) (save x1 bytes).2.s
              ((save x1 bytes).2.d.set l (.owned (save x1 bytes).1)) 0 (Nat.le_refl _)
              (MemD.passive t3.d.hg (mem_P_set _ l _))
            exact (((t1.trans trivial t2).trans trivial t3).trans trivial t4).weaken (by omega) (by omega) (by omega)
              (fun _ => trivial)
          · rename_i e bytes x1 hne2 heq2
            rw [heq2] at t2
            exact (t1.trans trivial t2).weaken (by omega) (by omega) (by omega) (fun _ => trivial)
        · split
          · -- true
            have hk := JD.mem_skipKeyword "true".toUTF8.toList (cur s1).2
            exact (MemT.step (cfg := cfg) _ _ 0 (by show memE x.s + 0 ≤ _; omega)
              (MemD.passive hg (mem_P_set x.d l _))).weaken (by omega) (by omega) (by omega) (fun _ => trivial)
          · split
            · have hk := JD.mem_skipKeyword "false".toUTF8.toList (cur s1).2
              exact (MemT.step (cfg := cfg) _ _ 0 (by show memE x.s + 0 ≤ _; omega)
                (MemD.passive hg (mem_P_set x.d l _))).weaken (by omega) (by omega) (by omega) (fun _ => trivial)
            · split
              · have hk := JD.mem_skipKeyword "null".toUTF8.toList (cur s1).2
                exact (MemT.rd (cfg := cfg) _ 0 hg (by show memE x.s + 0 ≤ _; omega)).weaken (by omega) (by omega)
                  (by omega) (fun _ => trivial)
              · have t1 := MemT.rd (cfg := cfg) (x := x) (cur s1).2 0 hg (by omega)
                have t2 := mem_numeric cfg l ⟨(cur s1).2, x.d, x.b⟩ gok hg
                exact (t1.trans trivial t2).weaken (by omega) (by omega) (by omega) (fun h => h)
  · rename_i e s1 hne heq
    rw [heq] at hs0
    simp only at hs0
    exact (MemT.rd (cfg := cfg) s1 0 hg (by omega)).weaken (by omega) (by omega) (by omega) (fun _ => trivial)

theorem mem_pe_succ (cfg : Cfg) (g : PL.Geo) (gok : PL.GeoOK g) (f : Nat) (ihV : MemPV cfg g f) (ihE : MemPE cfg g f) :
    MemPE cfg g (f+1) := by
  intro limit l x hg
  simp only [parseElems]
  have t1 := MemT.step (cfg := cfg) (x := x) x.s (x.d.addElement l).2 0 (Nat.le_refl _) (mem_D_addElement x.d l gok hg)
  split
  · rename_i d1 heq
    rw [heq] at t1
    exact t1.weaken (by omega) (by omega) (by omega) (fun q => by cases q)
  · rename_i id d1 heq
    rw [heq] at t1
    simp only at t1
    have t2 := ihV limit (.slot id) ⟨x.s, d1, x.b⟩ t1.d.hg
    split
    · rename_i x2 heq2
      rw [heq2] at t2
      simp only at t2
      have t12 := t1.trans rfl t2
      have hs := JD.mem_skipSpaces cfg (f+1) x2.s
      split
      · rename_i s3 heq3
        rw [heq3] at hs
        simp only at hs
        have hc := JD.mem_cur s3
        split
        · have hm := JD.mem_mv (cur s3).2
          have t3 := MemT.rd (cfg := cfg) (x := x2) (mv (cur s3).2) 0 t2.d.hg (by omega)
          exact (t12.trans trivial t3).weaken (by omega) (by omega) (by omega) (fun _ => trivial)
        · split
          · rename_i hcomma
            have hm := JD.mem_mv_cur s3 (mem_ne_of_beq hcomma (by decide))
            have t3 := MemT.rd (cfg := cfg) (x := x2) (mv (cur s3).2) 1 t2.d.hg (by omega)
            have t4 := ihE limit l ⟨mv (cur s3).2, x2.d, x2.b⟩ t2.d.hg
            exact ((t12.trans trivial t3).trans trivial t4).weaken (by omega) (by omega) (by omega) (fun h => h)
          · have t3 := MemT.rd (cfg := cfg) (x := x2) (cur s3).2 0 t2.d.hg (by omega)
            exact (t12.trans trivial t3).weaken (by omega) (by omega) (by omega) (fun _ => trivial)
      · rename_i e s3 hne heq3
        rw [heq3] at hs
        simp only at hs
        have t3 := MemT.rd (cfg := cfg) (x := x2) s3 0 t2.d.hg (by omega)
        exact (t12.trans trivial t3).weaken (by omega) (by omega) (by omega) (fun _ => trivial)
    · exact (t1.trans rfl t2).weaken (by omega) (by omega) (by omega) (fun h => h)

/-- the value slot of a member: an existing member is cleared and reused (nothing is allocated); otherwise the key is
    saved and two slots are taken -/
theorem mem_memberSlot (cfg : Cfg) {g : PL.Geo} (x : S) (l : Loc) (key : List Byte) (gok : PL.GeoOK g) (hg : x.d.g = g) :
    MemT cfg g 2 key.length 2 x (memberSlot x l key).2 ((memberSlot x l key).1.isSome = true) := by
  unfold memberSlot
  cases hf : x.d.findKey l key with
  | some p =>
    obtain ⟨k, v⟩ := p
    simp only
    exact (MemT.step (cfg := cfg) x.s _ 0 (Nat.le_refl _) (MemD.passive hg (mem_P_clearV x.d (.slot v)))).weaken
      (by omega) (by omega) (by omega) (fun _ => trivial)
  | none =>
    simp only
    have t1 := mem_save cfg x key hg
    have t2 := MemT.step (cfg := cfg) (x := (save x key).2) (save x key).2.s
      (addMemberNode (save x key).2.d l (save x key).1).2 0 (Nat.le_refl _)
      (mem_D_addMemberNode (save x key).2.d l (save x key).1 gok t1.d.hg)
    have t12 := t1.trans trivial t2
    generalize addMemberNode (save x key).2.d l (save x key).1 = r at t12
    obtain ⟨o, d2⟩ := r
    cases o with
    | none => exact t12.weaken (by omega) (by omega) (by omega) (fun h => h)
    | some v => exact t12.weaken (by omega) (by omega) (by omega) (fun h => h)

theorem mem_pm_succ (cfg : Cfg) (g : PL.Geo) (gok : PL.GeoOK g) (f : Nat) (ihV : MemPV cfg g f) (ihM : MemPM cfg g f) :
    MemPM cfg g (f+1) := by
  intro limit l x hg
  simp only [parseMembers]
  have hc0 := JD.mem_cur x.s
  -- the key, through the builder
  have hkey : ∀ (kr : Code × List Byte × S), kr = (if ((cur x.s).fst == 34 || (cur x.s).fst == 39) = true then
        quoted cfg (f + 1) (cur x.s).fst { s := mv (cur x.s).snd, d := x.d, b := x.b }
      else
        if JD.inUnquoted (cur x.s).fst = true then unquoted cfg (f + 1) { s := (cur x.s).snd, d := x.d, b := x.b }
        else (Code.invalid, [], startString { s := (cur x.s).snd, d := x.d, b := x.b })) →
      ∃ K : Nat, MemT cfg g (-(K : Int)) (-(K : Int)) (-(K : Int)) x kr.2.2 True ∧
        (kr.1 = .ok → kr.2.1.length ≤ K ∧ 1 ≤ K) := by
    intro kr hkr
    split at hkr
    · rename_i hq
      have hne : (cur x.s).1 ≠ 0 := by
        simp only [Bool.or_eq_true] at hq
        rcases hq with hq | hq
        · exact mem_ne_of_beq hq (by decide)
        · exact mem_ne_of_beq hq (by decide)
      have hm := JD.mem_mv_cur x.s hne
      have t1 := MemT.rd (cfg := cfg) (x := x) (mv (cur x.s).2) 1 hg (by omega)
      obtain ⟨K, t2, hK⟩ := mem_quoted cfg (f+1) (cur x.s).1 hne ⟨mv (cur x.s).2, x.d, x.b⟩ hg
      rw [hkr]
      exact ⟨K + 1, (t1.trans trivial t2).weaken (by omega) (by omega) (by omega) (fun h => h),
        fun h => by have := hK h; omega⟩
    · split at hkr
      · rename_i hu
        have t1 := MemT.rd (cfg := cfg) (x := x) (cur x.s).2 0 hg (by omega)
        obtain ⟨K, t2, hK1, hK2⟩ := mem_unquoted cfg f x.s x.d x.b hg hu
        rw [hkr]
        exact ⟨K, (t1.trans trivial t2).weaken (by omega) (by omega) (by omega) (fun h => h), fun _ => ⟨hK1, hK2⟩⟩
      · have t1 := MemT.rd (cfg := cfg) (x := x) (cur x.s).2 0 hg (by omega)
        have t2 := mem_startString cfg (⟨(cur x.s).2, x.d, x.b⟩ : S) hg
        rw [hkr]
        exact ⟨0, (t1.trans trivial t2).weaken (by omega) (by omega) (by omega) (fun h => h), fun h => by cases h⟩
  have hk := hkey _ rfl
  generalize (if ((cur x.s).fst == 34 || (cur x.s).fst == 39) = true then
        quoted cfg (f + 1) (cur x.s).fst { s := mv (cur x.s).snd, d := x.d, b := x.b }
      else
        if JD.inUnquoted (cur x.s).fst = true then unquoted cfg (f + 1) { s := (cur x.s).snd, d := x.d, b := x.b }
        else (Code.invalid, [], startString { s := (cur x.s).snd, d := x.d, b := x.b })) = kr at hk ⊢
  clear hkey
  obtain ⟨kc, key, x1⟩ := kr
  obtain ⟨K, tk, hK⟩ := hk
  simp only at tk hK
  cases kc <;> simp only <;> try exact tk.weaken (by omega) (by omega) (by omega) (fun _ => trivial)
  -- the key was read
  obtain ⟨hK1, hK2⟩ := hK rfl
  have hs1 := JD.mem_skipSpaces cfg (f+1) x1.s
  split
  · rename_i s2 heq2
    rw [heq2] at hs1
    simp only at hs1
    have hc2 := JD.mem_cur s2
    split
    · have t2 := MemT.rd (cfg := cfg) (x := x1) (cur s2).2 0 tk.d.hg (by omega)
      exact (tk.trans trivial t2).weaken (by omega) (by omega) (by omega) (fun _ => trivial)
    · rename_i hcolon
      have hcol : ((cur s2).1 == 0x3A) = true := by
        cases hh : ((cur s2).1 == 0x3A) with
        | true => rfl
        | false => exfalso; apply hcolon; simp [bne, hh]
      have hm := JD.mem_mv_cur s2 (mem_ne_of_beq hcol (by decide))
      have t2 := MemT.rd (cfg := cfg) (x := x1) (mv (cur s2).2) 1 tk.d.hg (by omega)
      have t3 := mem_memberSlot cfg (⟨mv (cur s2).2, x1.d, x1.b⟩ : S) l key gok tk.d.hg
      have t123 := (tk.trans trivial t2).trans trivial t3
      split
      · rename_i x2 heq3
        change memberSlot ⟨mv (cur s2).2, x1.d, x1.b⟩ l key = (none, x2) at heq3
        rw [heq3] at t123
        exact t123.weaken (by omega) (by omega) (by omega) (fun q => by cases q)
      · rename_i v x2 heq3
        change memberSlot ⟨mv (cur s2).2, x1.d, x1.b⟩ l key = (some v, x2) at heq3
        rw [heq3] at t123
        simp only at t123
        have t4 := ihV limit (.slot v) x2 t123.d.hg
        split
        · rename_i x3 heq4
          rw [heq4] at t4
          simp only at t4
          have t14 := t123.trans rfl t4
          have hs3 := JD.mem_skipSpaces cfg (f+1) x3.s
          split
          · rename_i s4 heq5
            rw [heq5] at hs3
            simp only at hs3
            have hc4 := JD.mem_cur s4
            split
            · have hm4 := JD.mem_mv (cur s4).2
              have t5 := MemT.rd (cfg := cfg) (x := x3) (mv (cur s4).2) 0 t4.d.hg (by omega)
              exact (t14.trans trivial t5).weaken (by omega) (by omega) (by omega) (fun _ => trivial)
            · split
              · have hm4 := JD.mem_mv (cur s4).2
                have hs5 := JD.mem_skipSpaces cfg (f+1) (mv (cur s4).2)
                split
                · rename_i s5 heq6
                  rw [heq6] at hs5
                  simp only at hs5
                  have t5 := MemT.rd (cfg := cfg) (x := x3) s5 0 t4.d.hg (by omega)
                  have t6 := ihM limit l ⟨s5, x3.d, x3.b⟩ t4.d.hg
                  exact ((t14.trans trivial t5).trans trivial t6).weaken (by omega) (by omega) (by omega) (fun h => h)
                · rename_i e s5 hne heq6
                  rw [heq6] at hs5
                  simp only at hs5
                  have t5 := MemT.rd (cfg := cfg) (x := x3) s5 0 t4.d.hg (by omega)
                  exact (t14.trans trivial t5).weaken (by omega) (by omega) (by omega) (fun _ => trivial)
              · have t5 := MemT.rd (cfg := cfg) (x := x3) (cur s4).2 0 t4.d.hg (by omega)
                exact (t14.trans trivial t5).weaken (by omega) (by omega) (by omega) (fun _ => trivial)
          · rename_i e s4 hne heq5
            rw [heq5] at hs3
            simp only at hs3
            have t5 := MemT.rd (cfg := cfg) (x := x3) s4 0 t4.d.hg (by omega)
            exact (t14.trans trivial t5).weaken (by omega) (by omega) (by omega) (fun _ => trivial)
        · exact (t123.trans rfl t4).weaken (by omega) (by omega) (by omega) (fun h => h)
  · rename_i e s2 hne heq2
    rw [heq2] at hs1
    simp only at hs1
    have t2 := MemT.rd (cfg := cfg) (x := x1) s2 0 tk.d.hg (by omega)
    exact (tk.trans trivial t2).weaken (by omega) (by omega) (by omega) (fun _ => trivial)

/-- the accounting through the whole mutual block, for every fuel -/
theorem mem_parse_all (cfg : Cfg) (g : PL.Geo) (gok : PL.GeoOK g) :
    ∀ fuel, MemPV cfg g fuel ∧ MemPE cfg g fuel ∧ MemPM cfg g fuel := by
  intro fuel
  induction fuel with
  | zero => exact ⟨mem_pv_zero cfg g, mem_pe_zero cfg g, mem_pm_zero cfg g⟩
  | succ f ih =>
    obtain ⟨ihV, ihE, ihM⟩ := ih
    exact ⟨mem_pv_succ cfg g gok f ihE ihM, mem_pe_succ cfg g gok f ihV ihE, mem_pm_succ cfg g gok f ihV ihM⟩

/-! ### `run` -/

/-- what the accounting says about a state reached after `n` bytes were taken from the input -/
structure MemStop (cfg : Cfg) (g : PL.Geo) (x : S) (n : Nat) (ok : Prop) : Prop where
  hg : x.d.g = g
  slots : PL.memSlots x.d.pl ≤ n
  sbytes : memStrBytes x.d ≤ n
  scount : 2 * x.d.strings.length ≤ n
  always : PL.MemA g x.d.pl
  weak : PL.MemW g x.d.pl
  strong : ok → PL.MemS g x.d.pl
  buf : ∀ cap, x.b = some cap → cap ≤ max 31 cfg.maxStrLen ∧ cap ≤ max 31 (2 * n + 1)

/-- from an empty document and an untouched reader -/
theorem mem_of_start {cfg : Cfg} {g : PL.Geo} {x0 x : S} {ok : Prop} (h : MemT cfg g 0 0 0 x0 x ok)
    (hp : x0.d.pl.pools = []) (ht : x0.d.pl.tableHeap = false) (hs : x0.d.strings = []) (hb : x0.b = none)
    (he : memE x0.s = 1) : MemStop cfg g x x.s.l.pos ok := by
  have hE := JD.mem_E_le x.s
  have h0 : PL.memSlots x0.d.pl = 0 := by unfold PL.memSlots; rw [hp]; rfl
  have h1 : memStrBytes x0.d = 0 := by unfold memStrBytes; rw [hs]; rfl
  have h2 : x0.d.strings.length = 0 := by rw [hs]; rfl
  have hS := h.d.strong (PL.mem_nil_S hp)
  refine ⟨h.d.hg, ?_, ?_, ?_, h.d.always (PL.mem_nil_A hp ht), hS.1, hS.2, ?_⟩
  · have := h.d.slots; omega
  · have := h.d.sbytes; omega
  · have := h.d.scount; omega
  · intro cap hc
    obtain ⟨a, b⟩ := h.buf (fun c hc' => by rw [hb] at hc'; cases hc') cap hc
    exact ⟨a, by omega⟩

theorem mem_clearAll_start (d : Doc) :
    d.clearAll.pl.pools = [] ∧ d.clearAll.pl.tableHeap = false ∧ d.clearAll.strings = [] ∧ d.clearAll.g = d.g ∧
    d.clearAll.strOverhead = d.strOverhead := by
  have hpl : d.clearAll.pl = (PL.clear d.g d.pl).rel [] d.strings.length := foldl_dealloc _ _
  obtain ⟨a, _, c, _⟩ := PL.clear_spec d.g d.pl
  exact ⟨by rw [hpl, rel_pools, a], by rw [hpl, rel_tableHeap, c], rfl, rfl, rfl⟩

/-- MAIN (state in which the parser stops, the StringBuilder still alive): for every input and failure schedule -/
theorem mem_stop (cfg : Cfg) (limit : Nat) (d : Doc) (input : List Byte) (gok : PL.GeoOK d.g) :
    MemStop cfg d.g (stop cfg limit d input).2 (stop cfg limit d input).2.s.l.pos ((stop cfg limit d input).1 = .ok) ∧
    (stop cfg limit d input).2.d.strOverhead = d.strOverhead := by
  obtain ⟨a, b, c, e, f⟩ := mem_clearAll_start d
  have T := (mem_parse_all cfg d.g gok (2 * input.length + 4)).1 limit .root (start d input) e
  exact ⟨mem_of_start T a b c rfl rfl, T.d.ovh.trans f⟩

/-! ### the reader stays inside the input -/

theorem mem_save_s (x : S) (bytes : List Byte) : (save x bytes).2.s = x.s := (save_spec x bytes).s

theorem mem_inv_quoted {n : Nat} (cfg : Cfg) (fuel : Nat) (stop : Byte) (x : S) (h : JD.Inv n x.s) :
    JD.Inv n (quoted cfg fuel stop x).2.2.s := by
  have hs1 : (startString x).s = x.s := (startString_spec x).2.1
  have hq := JD.inv_parseQuoted (n := n) (cfg := cfg) (stop := stop) fuel [] 0 (startString x).s (by rw [hs1]; exact h)
  unfold quoted
  simp only
  generalize JD.parseQuoted cfg stop fuel [] 0 (startString x).s = r at hq
  obtain ⟨c, bytes, s⟩ := r
  simp only at hq ⊢
  rw [mem_appendN_s]; exact hq

theorem mem_inv_unquoted {n : Nat} (cfg : Cfg) (fuel : Nat) (x : S) (h : JD.Inv n x.s) :
    JD.Inv n (unquoted cfg fuel x).2.2.s := by
  have hs1 : (startString x).s = x.s := (startString_spec x).2.1
  have hq := JD.inv_parseUnquoted (n := n) fuel [] (startString x).s (by rw [hs1]; exact h)
  unfold unquoted
  simp only
  generalize JD.parseUnquoted fuel [] (startString x).s = r at hq
  obtain ⟨bytes, s⟩ := r
  simp only at hq ⊢
  rw [mem_appendN_s]; exact hq

theorem mem_inv_numeric {n : Nat} (cfg : Cfg) (l : Loc) (x : S) (h : JD.Inv n x.s) :
    JD.Inv n (numeric cfg l x).2.s := by
  have hq := JD.inv_scanNumber (n := n) (cfg := cfg) (Gen.number_buffer - 1) [] x.s h
  unfold numeric
  simp only
  generalize JD.scanNumber cfg (Gen.number_buffer - 1) [] x.s = r at hq
  obtain ⟨buf, s⟩ := r
  simp only at hq ⊢
  split <;> exact hq

theorem mem_memberSlot_s (x : S) (l : Loc) (key : List Byte) : (memberSlot x l key).2.s = x.s := by
  unfold memberSlot
  cases x.d.findKey l key with
  | some p => rfl
  | none =>
    simp only
    have := mem_save_s x key
    generalize addMemberNode (save x key).2.d l (save x key).1 = r
    obtain ⟨o, d2⟩ := r
    cases o <;> exact this

theorem mem_inv_all (cfg : Cfg) (n : Nat) : ∀ fuel,
    (∀ limit l x, JD.Inv n x.s → JD.Inv n (parseVariant cfg fuel limit l x).2.s) ∧
    (∀ limit l x, JD.Inv n x.s → JD.Inv n (parseElems cfg fuel limit l x).2.s) ∧
    (∀ limit l x, JD.Inv n x.s → JD.Inv n (parseMembers cfg fuel limit l x).2.s) := by
  intro fuel
  induction fuel with
  | zero =>
    refine ⟨?_, ?_, ?_⟩
    · intro limit l x h; simpa [parseVariant] using h
    · intro limit l x h; simpa [parseElems] using h
    · intro limit l x h; simpa [parseMembers] using h
  | succ f ih =>
    obtain ⟨ihV, ihE, ihM⟩ := ih
    refine ⟨?_, ?_, ?_⟩
    · intro limit l x h
      simp only [parseVariant]
      have h0 := JD.inv_skipSpaces (cfg := cfg) (f+1) x.s h
      split
      · rename_i s1 heq; rw [heq] at h0
        have h1 := JD.inv_cur h0
        split
        · split
          · exact h1
          · have h2 := JD.inv_skipSpaces (cfg := cfg) (f+1) _ (JD.inv_mv h1)
            split
            · rename_i heq2; rw [heq2] at h2
              have h3 := JD.inv_cur h2
              split
              · exact JD.inv_mv h3
              · exact ihE _ _ _ h3
            · rename_i heq2; rw [heq2] at h2; exact h2
        · split
          · split
            · exact h1
            · have h2 := JD.inv_skipSpaces (cfg := cfg) (f+1) _ (JD.inv_mv h1)
              split
              · rename_i heq2; rw [heq2] at h2
                have h3 := JD.inv_cur h2
                split
                · exact JD.inv_mv h3
                · exact ihM _ _ _ h3
              · rename_i heq2; rw [heq2] at h2; exact h2
          · split
            · have h2 := mem_inv_quoted (n := n) cfg (f+1) (cur s1).1 ⟨mv (cur s1).2, x.d, x.b⟩ (JD.inv_mv h1)
              split
              · rename_i heq2; rw [heq2] at h2
                show JD.Inv n (save _ _).2.s
                rw [mem_save_s]; exact h2
              · rename_i heq2; rw [heq2] at h2; exact h2
            · split
              · exact JD.inv_skipKeyword _ _ h1
              · split
                · exact JD.inv_skipKeyword _ _ h1
                · split
                  · exact JD.inv_skipKeyword _ _ h1
                  · exact mem_inv_numeric cfg l ⟨(cur s1).2, x.d, x.b⟩ h1
      · rename_i heq; rw [heq] at h0; exact h0
    · intro limit l x h
      simp only [parseElems]
      split
      · exact h
      · rename_i id d1 heq
        have h0 := ihV limit (.slot id) ⟨x.s, d1, x.b⟩ h
        split
        · rename_i x2 heq2; rw [heq2] at h0
          have h1 := JD.inv_skipSpaces (cfg := cfg) (f+1) _ h0
          split
          · rename_i heq3; rw [heq3] at h1
            have h2 := JD.inv_cur h1
            split
            · exact JD.inv_mv h2
            · split
              · exact ihE _ _ _ (JD.inv_mv h2)
              · exact h2
          · rename_i heq3; rw [heq3] at h1; exact h1
        · exact h0
    · intro limit l x h
      simp only [parseMembers]
      have hc := JD.inv_cur h
      have hkey : JD.Inv n (if ((cur x.s).fst == 34 || (cur x.s).fst == 39) = true then
            quoted cfg (f + 1) (cur x.s).fst { s := mv (cur x.s).snd, d := x.d, b := x.b }
          else
            if JD.inUnquoted (cur x.s).fst = true then unquoted cfg (f + 1) { s := (cur x.s).snd, d := x.d, b := x.b }
            else (Code.invalid, [], startString { s := (cur x.s).snd, d := x.d, b := x.b })).2.2.s := by
        split
        · exact mem_inv_quoted cfg _ _ ⟨mv (cur x.s).2, x.d, x.b⟩ (JD.inv_mv hc)
        · split
          · exact mem_inv_unquoted cfg _ ⟨(cur x.s).2, x.d, x.b⟩ hc
          · show JD.Inv n (startString _).s
            rw [(startString_spec _).2.1]; exact hc
      generalize (if ((cur x.s).fst == 34 || (cur x.s).fst == 39) = true then
            quoted cfg (f + 1) (cur x.s).fst { s := mv (cur x.s).snd, d := x.d, b := x.b }
          else
            if JD.inUnquoted (cur x.s).fst = true then unquoted cfg (f + 1) { s := (cur x.s).snd, d := x.d, b := x.b }
            else (Code.invalid, [], startString { s := (cur x.s).snd, d := x.d, b := x.b })) = kr at hkey ⊢
      obtain ⟨kc, key, x1⟩ := kr
      cases kc <;> simp only at hkey ⊢ <;> try exact hkey
      have h1 := JD.inv_skipSpaces (cfg := cfg) (f+1) _ hkey
      split
      · rename_i s2 heq; rw [heq] at h1
        have h2 := JD.inv_cur h1
        split
        · exact h2
        · have hms := mem_memberSlot_s ⟨mv (cur s2).2, x1.d, x1.b⟩ l key
          split
          · rename_i x2 heq3
            change memberSlot ⟨mv (cur s2).2, x1.d, x1.b⟩ l key = (none, x2) at heq3
            rw [heq3] at hms
            simp only at hms
            rw [hms]; exact JD.inv_mv h2
          · rename_i v x2 heq3
            change memberSlot ⟨mv (cur s2).2, x1.d, x1.b⟩ l key = (some v, x2) at heq3
            rw [heq3] at hms
            simp only at hms
            have h3 := ihV limit (.slot v) x2 (by rw [hms]; exact JD.inv_mv h2)
            split
            · rename_i x3 heq4; rw [heq4] at h3
              have h4 := JD.inv_skipSpaces (cfg := cfg) (f+1) _ h3
              split
              · rename_i heq5; rw [heq5] at h4
                have h5 := JD.inv_cur h4
                split
                · exact JD.inv_mv h5
                · split
                  · have h6 := JD.inv_skipSpaces (cfg := cfg) (f+1) _ (JD.inv_mv h5)
                    split
                    · rename_i heq6; rw [heq6] at h6; exact ihM _ _ _ h6
                    · rename_i heq6; rw [heq6] at h6; exact h6
                  · exact h5
              · rename_i heq5; rw [heq5] at h4; exact h4
            · exact h3
      · rename_i heq; rw [heq] at h1; exact h1

/-- never more bytes consumed than the input has -/
theorem mem_run_pos_le (cfg : Cfg) (limit : Nat) (d : Doc) (input : List Byte) :
    (run cfg limit d input).2.2 ≤ input.length := by
  have h0 : JD.Inv input.length (start d input).s := by simp [JD.Inv, start]
  have h := (mem_inv_all cfg input.length (2 * input.length + 4)).1 limit .root (start d input) h0
  rw [run_eq]
  unfold JD.Inv at h
  show (stop cfg limit d input).2.s.l.pos ≤ _
  unfold stop
  omega

end JDD
