/- The invariant of the slot-level JSON deserializer and its preservation by every document operation the
   deserializer performs. `Built d0 F l d s`: since the document `d0` (laid out as `F`, with the empty location `l`) the
   parser has built, at `l`, a value laid out as `s`; everything else of `d0` is untouched.
   Used by AJ/Lemmas/JddInv.lean. -/
import AJ.Lemmas.JddBase
import AJ.Props.C04Hist
namespace JDD
open DL
open JD (Byte Code Cfg)

/-- the reference point of a parse into `l`: `l` is an empty location of the layout `F` -/
structure Ctx (d0 : Doc) (F : Forest) (l : Loc) : Prop where
  nodup : F.ids.Nodup
  loc : isLoc F l
  empty : layoutAt F l = .nil
  gok : PL.GeoOK d0.g

/-- what the parser has built at `l` since `d0` -/
structure Built (d0 : Doc) (F : Forest) (l : Loc) (d : Doc) (s : Forest) : Prop where
  wf : WFG d (replaceAt F l s)
  str : StrOK d (d.strRefs (replaceAt F l s))
  fresh : ∀ x ∈ s.ids, x ∉ F.ids
  g : d.g = d0.g
  root : l ≠ .root → d.root = d0.root
  cells : ∀ x ∈ F.ids, Loc.slot x ≠ l → d.cell x = d0.cell x
  /-- the scalars and strings stored outside `l` read the same -/
  scal : ∀ x ∈ F.ids, Loc.slot x ≠ l → d.scalar (d0.get (.slot x)) = d0.scalar (d0.get (.slot x))
  /-- the `next` link of the slot `l` itself is kept -/
  next : ∀ i, l = .slot i → d.nextOf i = d0.nextOf i

theorem Ctx.replace_nil {d0 : Doc} {F : Forest} {l : Loc} (C : Ctx d0 F l) : replaceAt F l .nil = F := by
  rw [← C.empty]; exact replaceAt_self C.nodup C.loc

theorem Ctx.mem_ids {d0 : Doc} {F : Forest} {l : Loc} (C : Ctx d0 F l) (s : Forest) (x : Nat) :
    x ∈ (replaceAt F l s).ids ↔ x ∈ F.ids ∨ x ∈ s.ids := by
  rw [mem_ids_replaceAt s C.nodup C.loc, C.empty]
  simp [Forest.ids]

theorem Ctx.lay {d0 : Doc} {F : Forest} {l : Loc} (C : Ctx d0 F l) (s : Forest) : layoutAt (replaceAt F l s) l = s :=
  layoutAt_replaceAt s C.loc

theorem Ctx.loc' {d0 : Doc} {F : Forest} {l : Loc} (C : Ctx d0 F l) (s : Forest) : isLoc (replaceAt F l s) l :=
  isLoc_replaceAt_self s C.loc

theorem Ctx.re {d0 : Doc} {F : Forest} {l : Loc} (_ : Ctx d0 F l) (s s' : Forest) :
    replaceAt (replaceAt F l s) l s' = replaceAt F l s' := replaceAt_replaceAt F l s s'

theorem Built.gok {d0 d : Doc} {F : Forest} {l : Loc} {s : Forest} (C : Ctx d0 F l) (B : Built d0 F l d s) :
    PL.GeoOK d.g := by rw [B.g]; exact C.gok

theorem Built.null {d0 d : Doc} {F : Forest} {l : Loc} {s : Forest} (B : Built d0 F l d s) : d.null = d0.null := by
  simp only [Doc.null, B.g]

/-- slots that are not live are neither in the reference layout nor in what was built -/
theorem Built.notin {d0 d : Doc} {F : Forest} {l : Loc} {s : Forest} (C : Ctx d0 F l) (B : Built d0 F l d s) {x : Nat}
    (hx : ¬ PL.live d.g d.pl x) : x ∉ F.ids ∧ x ∉ s.ids :=
  ⟨fun m => hx (B.wf.live x ((C.mem_ids s x).2 (Or.inl m))), fun m => hx (B.wf.live x ((C.mem_ids s x).2 (Or.inr m)))⟩

/-- the value stored in a slot of the reference layout is the old one -/
theorem Built.get_old {d0 d : Doc} {F : Forest} {l : Loc} {s : Forest} (B : Built d0 F l d s) {x : Nat} (hx : x ∈ F.ids)
    (hxl : Loc.slot x ≠ l) : d.get (.slot x) = d0.get (.slot x) := get_of_cell (B.cells x hx hxl)

/-- the slots of the reference layout outside `l` are untouched: same cell, same scalar read -/
theorem Built.good {d0 d : Doc} {F : Forest} {l : Loc} {s : Forest} (B : Built d0 F l d s) {x : Nat} (hx : x ∈ F.ids)
    (hxl : Loc.slot x ≠ l) : Good d0 d x := ⟨B.cells x hx hxl, B.scal x hx hxl⟩

/-- the `scal` part of the frame after one more step `d → d'` that keeps the bytes of the referenced string nodes and
    the referenced extension slots -/
theorem Built.scal_of {d0 d d' : Doc} {F : Forest} {l : Loc} {s : Forest} (C : Ctx d0 F l) (B : Built d0 F l d s)
    (hb : ∀ n ∈ d.strRefs (replaceAt F l s), d'.strBytes n = d.strBytes n)
    (he : ∀ l0 ∈ holders (replaceAt F l s), ∀ e ∈ extOfV (d.get l0), d'.cell e = d.cell e) :
    ∀ x ∈ F.ids, Loc.slot x ≠ l → d'.scalar (d0.get (.slot x)) = d0.scalar (d0.get (.slot x)) := by
  intro x hx hxl
  have hh : Loc.slot x ∈ holders (replaceAt F l s) := mem_holders.2 (Or.inr ⟨x, (C.mem_ids s x).2 (Or.inl hx), rfl⟩)
  rw [← B.scal x hx hxl, ← B.get_old hx hxl]
  refine scalar_congr (fun n hn => hb n ?_) (fun e hee => he _ hh e hee)
  simp only [Doc.strRefs, List.mem_flatMap]; exact ⟨_, hh, hn⟩

/-- the starting point -/
theorem built_start {d : Doc} {F : Forest} {l : Loc} (w : WFG d F) (hs : StrOK d (d.strRefs F)) (C : Ctx d F l) :
    Built d F l d .nil := by
  refine ⟨?_, ?_, (fun x hx => by cases hx), rfl, fun _ => rfl, fun _ _ _ => rfl, fun _ _ _ => rfl, fun _ _ => rfl⟩
  · rw [C.replace_nil]; exact w
  · rw [C.replace_nil]; exact hs

/-- allocator traffic is not seen -/
theorem Built.pleq {d0 d d' : Doc} {F : Forest} {l : Loc} {s : Forest} (B : Built d0 F l d s) (h : PlEq d d') :
    Built d0 F l d' s := by
  obtain ⟨a, b, _⟩ := h.wfg B.wf B.str
  exact ⟨a, b, B.fresh, h.g.trans B.g, fun hl => h.root.trans (B.root hl), fun x hx hxl => (h.cell x).trans (B.cells x hx hxl),
    fun x hx hxl => (scalar_congr (fun n _ => strBytes_of_strings h.strings n) (fun e _ => h.cell e)).trans (B.scal x hx hxl),
    fun i e => (nextOf_of_cell (h.cell i) h.null).trans (B.next i e)⟩

/-- a failed (or leaked) allocation is not seen -/
theorem Built.grow {d0 d d' : Doc} {F : Forest} {l : Loc} {s : Forest} (C : Ctx d0 F l) (B : Built d0 F l d s)
    (h : Grow d d') : Built d0 F l d' s := by
  obtain ⟨a, b, _⟩ := wfg_of_grow B.wf B.str h
  refine ⟨a, b, B.fresh, h.g.trans B.g, fun hl => h.root.trans (B.root hl), fun x hx hxl => ?_,
    B.scal_of C (fun n _ => strBytes_of_strings h.strings n) (fun l0 h0 e he => h.cells e (B.wf.ext l0 h0 e he).2.1),
    fun i e => ?_⟩
  · rw [h.cells x (B.wf.live x ((C.mem_ids s x).2 (Or.inl hx)))]; exact B.cells x hx hxl
  · have hi : i ∈ F.ids := isLoc_ids (e ▸ C.loc)
    have hn : d'.null = d.null := by simp only [Doc.null, h.g]
    rw [nextOf_of_cell (h.cells i (B.wf.live i ((C.mem_ids s i).2 (Or.inl hi)))) hn]; exact B.next i e

/-- the value at `l` while nothing has been built there -/
theorem Built.get_nil {d0 d : Doc} {F : Forest} {l : Loc} (C : Ctx d0 F l) (B : Built d0 F l d .nil) :
    WFG d F ∧ StrOK d (d.strRefs F) := by
  have := B.wf; have hs := B.str
  rw [C.replace_nil] at this hs
  exact ⟨this, hs⟩

theorem root_set_ne {d : Doc} {l : Loc} (v : VData) (hl : l ≠ .root) : (d.set l v).root = d.root := by
  cases l with
  | root => exact absurd rfl hl
  | slot i => rfl

/-- storing a value at `l` (possibly after a resource was acquired: `d1`), once the result is known to be well-formed -/
theorem Built.set_after {d0 d d1 : Doc} {F : Forest} {l : Loc} {v : VData} (C : Ctx d0 F l) (B : Built d0 F l d .nil)
    (hg : d1.g = d.g) (hroot : d1.root = d.root) (hcells : ∀ x ∈ F.ids, d1.cell x = d.cell x)
    (hbytes : ∀ n ∈ d.strRefs F, d1.strBytes n = d.strBytes n)
    (hext : ∀ l0 ∈ holders F, ∀ e ∈ extOfV (d.get l0), d1.cell e = d.cell e)
    (w : WFG (d1.set l v) F) (hs : StrOK (d1.set l v) ((d1.set l v).strRefs F)) :
    Built d0 F l (d1.set l v) .nil := by
  obtain ⟨w0, _⟩ := B.get_nil C
  have hextne : ∀ l0 ∈ holders F, ∀ e ∈ extOfV (d.get l0), Loc.slot e ≠ l := by
    intro l0 h0 e he e'
    obtain ⟨⟨p, hp⟩, _, _⟩ := w0.ext l0 h0 e he
    exact ext_ne_var hp (w0.isVar e (isLoc_ids (e' ▸ C.loc))) rfl
  refine ⟨by rw [C.replace_nil]; exact w, by rw [C.replace_nil]; exact hs, (fun x hx => by cases hx),
    by rw [set_g, hg, B.g], fun hl => ?_, fun x hx hxl => ?_, ?_, fun i e => ?_⟩
  · rw [root_set_ne v hl, hroot, B.root hl]
  · rw [cell_set_ne hxl, hcells x hx, B.cells x hx hxl]
  · refine B.scal_of C (fun n hn => ?_) (fun l0 h0 e he => ?_)
    · rw [C.replace_nil] at hn; rw [strBytes_set]; exact hbytes n hn
    · rw [C.replace_nil] at h0; rw [cell_set_ne (hextne l0 h0 e he)]; exact hext l0 h0 e he
  · subst e
    have hn1 : d1.null = d.null := by simp only [Doc.null, hg]
    rw [nextOf_of_var (show (d1.set (.slot i) v).cell i = .var v (d1.nextOf i) by rw [cell_set_slot, if_pos rfl]),
      nextOf_of_cell (hcells i (isLoc_ids C.loc)) hn1]
    exact B.next i rfl

/-- `variant.toArray()` / `variant.toObject()` on the empty location -/
theorem Built.set_coll {d0 d : Doc} {F : Forest} {l : Loc} (C : Ctx d0 F l) (B : Built d0 F l d .nil)
    (hnull : d.get l = .null) (b : Bool) : Built d0 F l (d.set l (mkC b d.null d.null)) .nil := by
  obtain ⟨w, hs⟩ := B.get_nil C
  obtain ⟨a, c, _⟩ := set_empty_coll w hs C.loc hnull b
  exact B.set_after C rfl rfl (fun _ _ => rfl) (fun _ _ => rfl) (fun _ _ _ _ => rfl) a c

/-- a value without resources (`setBoolean`) on the empty location -/
theorem Built.set_plain {d0 d : Doc} {F : Forest} {l : Loc} {v : VData} (C : Ctx d0 F l) (B : Built d0 F l d .nil)
    (hnull : d.get l = .null) (hv : ¬ isColl v) (he : extOfV v = []) (hst : strOfV v = []) :
    Built d0 F l (d.set l v) .nil := by
  obtain ⟨w, hs⟩ := B.get_nil C
  have hold : ¬ isColl (d.get l) := by rw [hnull]; exact fun h => h
  obtain ⟨a, _⟩ := DL.set_plain w C.loc hold hv he
  have c := set_gen_strOK (d1 := d) (v' := v) w C.loc (by rw [hnull]; rfl) rfl (fun _ _ => rfl) (by rw [hst]; exact hs)
  exact B.set_after C rfl rfl (fun _ _ => rfl) (fun _ _ => rfl) (fun _ _ _ _ => rfl) a c

/-- the string just saved (`node`) stored on the empty location -/
theorem Built.set_owned {d0 : Doc} {F : Forest} {l : Loc} {x x' : S} {bytes : List Byte} {n : Nat} (C : Ctx d0 F l)
    (B : Built d0 F l x.d .nil) (hnull : x.d.get l = .null) (sv : SaveOp x bytes n x') :
    Built d0 F l (x'.d.set l (.owned n)) .nil := by
  obtain ⟨w, hs⟩ := B.get_nil C
  have hold : ¬ isColl (x.d.get l) := by rw [hnull]; exact fun h => h
  have hc : ∀ j, x'.d.cell j = x.d.cell j := fun j => by simp only [Doc.cell, sv.cells]
  have hlv : ∀ y, PL.live x'.d.g x'.d.pl y ↔ PL.live x.d.g x.d.pl y := fun y => by
    rw [sv.g]; exact live_congr sv.pools sv.free y
  have a := set_scalar_gen (d1 := x'.d) (v' := .owned n) w C.loc hold (fun h => h) sv.g sv.root (fun j _ => hc j)
    (fun l0 h0 _ e he => ⟨hc e, (hlv e).2 (w.ext l0 h0 e he).2.1⟩)
    (fun l0 h0 _ m hm => sv.keep _ hs m (by simp only [Doc.strRefs, List.mem_flatMap]; exact ⟨l0, h0, hm⟩))
    (by rw [sv.g]; exact w.pool.congr sv.pools sv.tcap sv.theap sv.free)
    (fun j hj => (hlv j).2 (w.live j hj)) (fun e he => by cases he)
  have c := set_gen_strOK (d1 := x'.d) (v' := .owned n) w C.loc (by rw [hnull]; rfl) sv.root (fun j _ => hc j)
    (sv.str _ hs)
  exact B.set_after C sv.g sv.root (fun j _ => hc j) (fun n hn => sv.keep _ hs n hn) (fun _ _ e _ => hc e) a.1 c

/-! ## Numbers (`setInteger`, `setFloat`) -/

def isNum : Arg → Prop
  | .uint _ => True | .sint _ => True | .f32 _ => True | .f64 _ => True | _ => False

/-- the three ways `setArg` ends for a number: stored in place; stored with an extension slot; extension slot refused -/
theorem setArg_num_shape (d : Doc) (l : Loc) {a : Arg} (ha : isNum a) :
    (∃ v, d.setArg l a = (true, d.set l v)) ∨
    (∃ p e d1 v, d.allocExt p = (some e, d1) ∧ d.setArg l a = (true, d1.set l v)) ∨
    (∃ p d1, d.allocExt p = (none, d1) ∧ d.setArg l a = (false, d1)) := by
  have ext : ∀ (p : Int) (k : Nat → VData),
      (∃ e d1 v, d.allocExt p = (some e, d1) ∧
        (match d.allocExt p with | (some s, d) => (true, d.set l (k s)) | (none, d) => (false, d)) = (true, d1.set l v)) ∨
      (∃ d1, d.allocExt p = (none, d1) ∧
        (match d.allocExt p with | (some s, d) => (true, d.set l (k s)) | (none, d) => (false, d)) = (false, d1)) := by
    intro p k
    generalize d.allocExt p = r
    obtain ⟨m, d1⟩ := r
    cases m with
    | none => exact Or.inr ⟨d1, rfl, rfl⟩
    | some e => exact Or.inl ⟨e, d1, k e, rfl, rfl⟩
  have fin : ∀ (p : Int) (k : Nat → VData) (r : Bool × Doc),
      r = (match d.allocExt p with | (some s, d) => (true, d.set l (k s)) | (none, d) => (false, d)) →
      (∃ v, r = (true, d.set l v)) ∨
      (∃ p e d1 v, d.allocExt p = (some e, d1) ∧ r = (true, d1.set l v)) ∨
      (∃ p d1, d.allocExt p = (none, d1) ∧ r = (false, d1)) := by
    intro p k r hr
    rcases ext p k with ⟨e, d1, v, h1, h2⟩ | ⟨d1, h1, h2⟩
    · exact Or.inr (Or.inl ⟨p, e, d1, v, h1, by rw [hr, h2]⟩)
    · exact Or.inr (Or.inr ⟨p, d1, h1, by rw [hr, h2]⟩)
  cases a with
  | uint v =>
    simp only [Doc.setArg]
    split
    · exact Or.inl ⟨_, rfl⟩
    · exact fin v .u64 _ rfl
  | sint v =>
    simp only [Doc.setArg]
    split
    · exact Or.inl ⟨_, rfl⟩
    · exact fin v .i64 _ rfl
  | f32 b => exact Or.inl ⟨_, rfl⟩
  | f64 b =>
    simp only [Doc.setArg]
    split
    · exact Or.inl ⟨_, rfl⟩
    · exact fin b .f64 _ rfl
  | null => exact absurd ha (fun h => h)
  | bool _ => exact absurd ha (fun h => h)
  | strLinked _ => exact absurd ha (fun h => h)
  | strCopied _ => exact absurd ha (fun h => h)
  | raw _ => exact absurd ha (fun h => h)

/-- difference between the ledger and the string table: kept by every operation on slots -/
def nl (d : Doc) : Int := PL.net d.pl - (d.strings.length : Int)

theorem nl_set (d : Doc) (l : Loc) (v : VData) : nl (d.set l v) = nl d := by
  simp only [nl, set_pl, set_strings]

theorem nl_allocExt (d : Doc) (p : Int) : nl (d.allocExt p).2 = nl d := by
  simp only [nl, (allocExt_pl d p).1, (allocExt_pl d p).2, PL.allocSlot_net]

theorem nl_allocVariant (d : Doc) : nl d.allocVariant.2 = nl d := by
  simp only [nl, (allocVariant_pl_s d).1, (allocVariant_pl_s d).2, PL.allocSlot_net]

/-- no pool without its block, or the overflow flag is set -/
def Blk (d : Doc) : Prop := AllB d ∨ d.overflowed = true

theorem allocVariant_blk {d : Doc} (gok : PL.GeoOK d.g) (hp : PL.Inv d.g d.pl) (hb : AllB d) : Blk d.allocVariant.2 := by
  simp only [Doc.allocVariant]
  split
  · rename_i id pl heq
    exact Or.inl (allocSlot_blk gok hp hb heq)
  · exact Or.inr rfl

theorem allocExt_blk {d : Doc} (gok : PL.GeoOK d.g) (hp : PL.Inv d.g d.pl) (hb : AllB d) (p : Int) :
    Blk (d.allocExt p).2 := by
  simp only [Doc.allocExt]
  split
  · rename_i id pl heq
    exact Or.inl (allocSlot_blk gok hp hb heq)
  · exact Or.inr rfl

/-- `parseNumericValue`'s store on the empty location -/
theorem Built.setArg_num {d0 d : Doc} {F : Forest} {l : Loc} {a : Arg} (C : Ctx d0 F l) (B : Built d0 F l d .nil)
    (hnull : d.get l = .null) (ha : isNum a) :
    Built d0 F l (d.setArg l a).2 .nil ∧ nl (d.setArg l a).2 = nl d ∧
    ((d.setArg l a).1 = true → (d.setArg l a).2.overflowed = d.overflowed) ∧
    ((d.setArg l a).1 = false → (d.setArg l a).2.overflowed = true) ∧
    (d.overflowed = true → (d.setArg l a).2.overflowed = true) ∧
    (AllB d → Blk (d.setArg l a).2) := by
  obtain ⟨w, hs⟩ := B.get_nil C
  have gok := B.gok C
  rcases setArg_num_shape d l ha with ⟨v, e⟩ | ⟨p, x, d1, v, hal, e⟩ | ⟨p, d1, hal, e⟩
  · obtain ⟨a1, a2, _⟩ := C04.set_scalar_wf (a := a) w hs C.loc hnull gok (by rw [e])
    rw [e] at a1 a2 ⊢
    exact ⟨B.set_after C rfl rfl (fun _ _ => rfl) (fun _ _ => rfl) (fun _ _ _ _ => rfl) a1 a2, nl_set _ _ _,
      fun _ => set_overflowed _ _ _,
      (fun h => by cases h), (fun h => by rw [set_overflowed]; exact h),
      fun hb => Or.inl (AllB_of_pools (by rw [set_pl]) hb)⟩
  · obtain ⟨a1, a2, _⟩ := C04.set_scalar_wf (a := a) w hs C.loc hnull gok (by rw [e])
    rw [e] at a1 a2 ⊢
    obtain ⟨hg, hov, _, hnl, _⟩ := allocExt_some gok w.pool hal
    have hnl1 : nl d1 = nl d := by have := nl_allocExt d p; rw [hal] at this; exact this
    have hbk : AllB d → Blk d1 := fun hb => by have := allocExt_blk gok w.pool hb p; rw [hal] at this; exact this
    refine ⟨B.set_after C hg.g hg.root (fun y hy => hg.cells y (w.live y hy))
        (fun n _ => strBytes_of_strings hg.strings n) (fun l0 h0 e he => hg.cells e (w.ext l0 h0 e he).2.1) a1 a2,
      by rw [nl_set, hnl1],
      (fun _ => by rw [set_overflowed, hov]), (fun h => by cases h), (fun h => by rw [set_overflowed, hov]; exact h),
      fun hb => ?_⟩
    rcases hbk hb with h1 | h1
    · exact Or.inl (AllB_of_pools (by rw [set_pl]) h1)
    · exact Or.inr (by rw [set_overflowed]; exact h1)
  · rw [e]
    obtain ⟨hg, ho, _⟩ := allocExt_none gok w.pool hal
    have hnl1 : nl d1 = nl d := by have := nl_allocExt d p; rw [hal] at this; exact this
    exact ⟨B.grow C hg, hnl1, (fun h => by cases h), fun _ => ho, fun _ => ho, fun _ => Or.inr ho⟩

/-- the slots `js` hold the same values in `d'`, and the scalars / strings stored there read the same -/
def SameV (d d' : Doc) (js : List Nat) : Prop :=
  ∀ j ∈ js, d'.get (.slot j) = d.get (.slot j) ∧ d'.scalar (d.get (.slot j)) = d.scalar (d.get (.slot j))

/-! ## `addElement` -/

theorem nl_appendOne (d : Doc) (l : Loc) (id : Nat) : nl (d.appendOne l id) = nl d := by
  simp only [nl, DL.appendOne_pl, DL.appendOne_strings]

theorem nl_addElement (d : Doc) (l : Loc) : nl (d.addElement l).2 = nl d := by
  have := nl_allocVariant d
  simp only [Doc.addElement]
  generalize d.allocVariant = r at this ⊢
  obtain ⟨m, d1⟩ := r
  cases m with
  | none => exact this
  | some id => simp only; rw [nl_appendOne]; exact this

/-- `addElement` that fails: nothing changes but the flag -/
theorem Built.addElement_none {d0 d d1 : Doc} {F : Forest} {l : Loc} {s : Forest} (C : Ctx d0 F l)
    (B : Built d0 F l d s) (h : d.addElement l = (none, d1)) :
    Built d0 F l d1 s ∧ d1.overflowed = true ∧ nl d1 = nl d := by
  have hnl := nl_addElement d l
  rw [h] at hnl
  simp only [Doc.addElement] at h
  generalize hal : d.allocVariant = r at h
  obtain ⟨m, da⟩ := r
  cases m with
  | some id => simp at h
  | none =>
    simp only [Prod.mk.injEq, true_and] at h; subst h
    obtain ⟨hg, ho, _⟩ := allocVariant_none (B.gok C) B.wf.pool hal
    exact ⟨B.grow C hg, ho, hnl⟩

/-- `addElement` that succeeds on the array being built at `l`: a null element is appended -/
theorem Built.addElement_some {d0 d d1 : Doc} {F : Forest} {l : Loc} {s : Forest} {h t id : Nat} (C : Ctx d0 F l)
    (B : Built d0 F l d s) (hv : d.get l = .arr h t) (he : d.addElement l = (some id, d1)) :
    Built d0 F l d1 (s.snoc none id) ∧ d1.get (.slot id) = .null ∧ (∃ h', d1.get l = .arr h' id) ∧
    d1.overflowed = d.overflowed ∧ nl d1 = nl d ∧ id ∉ F.ids ∧ id ∉ s.ids ∧ (AllB d → Blk d1) ∧ SameV d d1 s.ids := by
  have hnl := nl_addElement d l
  have hov := addElement_overflowed_some (d := d) (l := l) (id := id) (by rw [he])
  have hgn := addElement_get_new B.wf B.str (B.gok C) (C.loc' s) hv (id := id) (by rw [he])
  have hgg := addElement_g d l
  rw [he] at hnl hov hgn hgg
  simp only at hnl hov hgn hgg
  generalize hal : d.allocVariant = r
  obtain ⟨m, da⟩ := r
  have hm : m = some id ∧ d1 = da.appendOne l id := by
    simp only [Doc.addElement, hal] at he
    cases m with
    | none => simp at he
    | some j =>
      simp only [Prod.mk.injEq, Option.some.injEq] at he
      obtain ⟨rfl, rfl⟩ := he; exact ⟨rfl, rfl⟩
  obtain ⟨rfl, hd1⟩ := hm
  obtain ⟨_, a, b, _⟩ := C04.addElement_refines B.wf B.str (B.gok C) (C.loc' s) hv hal
  rw [he, C.lay, C.re] at a b
  simp only at a b
  obtain ⟨hg, _, _, hco, hnlv, _, _⟩ := allocVariant_some (B.gok C) B.wf.pool hal
  obtain ⟨hidF, hids⟩ := B.notin C hnlv
  -- the tail of the chain
  obtain ⟨wa, _, _⟩ := wfg_of_grow B.wf B.str hg
  obtain ⟨o1, _, _⟩ := grow_obs B.wf B.str hg (C.loc' s)
  have hva : da.get l = .arr h t := by rw [o1]; exact hv
  have hvs : VOK da (.arr h t) (layoutAt (replaceAt F l s) l) := hva ▸ VOK_at wa (C.loc' s)
  obtain ⟨hlk, ht⟩ := (VOK_arr _ _ _ _).1 hvs
  obtain ⟨htf, htl⟩ := tail_facts wa (C.loc' s) hlk ht
  obtain ⟨_, hstr1, _, _, hget, hcc, hct, hroot, hci⟩ := appendOne_cells (id := id) hva htl
  have hstrs : d1.strings = d.strings := by rw [hd1]; exact hstr1.trans hg.strings
  have hextc : ∀ l0 ∈ holders (replaceAt F l s), ∀ e ∈ extOfV (d.get l0), d1.cell e = d.cell e := by
    intro l0 h0 e he
    obtain ⟨⟨p, hp⟩, hlv, _⟩ := B.wf.ext l0 h0 e he
    have hpa : da.cell e = .ext p := by rw [hg.cells e hlv]; exact hp
    rw [hd1, hcc e (fun e' => ext_ne_var hp (B.wf.isVar e (isLoc_ids (e' ▸ C.loc' s))) rfl)
      (fun htn => ext_ne_var hpa (htf htn).2.2.2), hg.cells e hlv]
  have hsc := B.scal_of (d' := d1) C (fun n _ => strBytes_of_strings hstrs n) hextc
  have hsame : SameV d d1 s.ids := by
    intro j hj
    have hjc : j ∈ (replaceAt F l s).ids := (C.mem_ids s j).2 (Or.inr hj)
    have hjl : Loc.slot j ≠ l := fun e => B.fresh j hj (isLoc_ids (e ▸ C.loc))
    have hja : da.get (.slot j) = d.get (.slot j) := get_of_cell (hg.cells j (B.wf.live j hjc))
    refine ⟨?_, scalar_congr (fun n _ => strBytes_of_strings hstrs n)
      (fun e he => hextc _ (mem_holders.2 (Or.inr ⟨j, hjc, rfl⟩)) e he)⟩
    rw [hd1]
    by_cases hjt : t ≠ da.null ∧ j = t
    · obtain ⟨htn, rfl⟩ := hjt
      rw [get_of_var (hct htn (htf htn).2.2.2)]; exact hja
    · rw [get_of_cell (hcc j hjl (fun htn e => hjt ⟨htn, e⟩))]; exact hja
  have hbk : AllB d → Blk d1 := by
    intro hb
    have := allocVariant_blk (B.gok C) B.wf.pool hb
    rw [hal] at this
    rcases this with h1 | h1
    · exact Or.inl (AllB_of_pools (by rw [hd1, DL.appendOne_pl]) h1)
    · exact Or.inr (by rw [hd1, appendOne_overflowed]; exact h1)
  have hnx : ∀ i, l = .slot i → d1.nextOf i = d0.nextOf i := by
    intro i e
    have hi : i ∈ F.ids := isLoc_ids (e ▸ C.loc)
    have hna : da.null = d.null := by simp only [Doc.null, hg.g]
    rw [hd1, nextOf_of_var (hci i e),
      nextOf_of_cell (hg.cells i (B.wf.live i ((C.mem_ids s i).2 (Or.inl hi)))) hna]
    exact B.next i e
  refine ⟨⟨a, b, ?_, hgg.trans B.g, fun hl => ?_, fun x hx hxl => ?_, hsc, hnx⟩, hgn, ⟨_, by rw [hd1]; exact hget⟩, hov, hnl,
    hidF, hids, hbk, hsame⟩
  · intro x hx
    rw [Forest.ids_snoc] at hx
    simp only [Forest.keyL, List.nil_append, List.mem_append, List.mem_singleton] at hx
    rcases hx with hx | hx
    · exact B.fresh x hx
    · rw [hx]; exact hidF
  · rw [hd1, hroot hl, hg.root, B.root hl]
  · have hxt : t ≠ da.null → x ≠ t := by
      intro htn e
      have : t ∈ s.ids := by have := (htf htn).2.1; rw [C.lay] at this; exact this
      exact B.fresh t this (e ▸ hx)
    rw [hd1, hcc x hxl hxt, hco x (fun e => hidF (e ▸ hx)), B.cells x hx hxl]

/-! ## A value built inside an element / member of the collection being built -/

theorem Built.nest {d0 d1 d2 : Doc} {F : Forest} {l : Loc} {s1 s2 : Forest} {j : Nat} (C : Ctx d0 F l)
    (B1 : Built d0 F l d1 s1) (hj : j ∈ s1.locs) (B2 : Built d1 (replaceAt F l s1) (.slot j) d2 s2) :
    Built d0 F l d2 (s1.replaceSub j s2) ∧ d2.get l = d1.get l := by
  have hjF : j ∉ F.ids := B1.fresh j (s1.locs_sub_ids j hj)
  have hsub : ∀ x ∈ F.ids, x ∈ (replaceAt F l s1).ids := fun x hx => (C.mem_ids s1 x).2 (Or.inl hx)
  have hne : ∀ x ∈ F.ids, Loc.slot x ≠ Loc.slot j := fun x hx e => by cases e; exact hjF hx
  refine ⟨⟨?_, ?_, ?_, B2.g.trans B1.g, fun hl => ?_, fun x hx hxl => ?_, fun x hx hxl => ?_, fun i e => ?_⟩, ?_⟩
  · have := B2.wf; rw [replaceAt_nest s1 s2 hjF] at this; exact this
  · have := B2.str; rw [replaceAt_nest s1 s2 hjF] at this; exact this
  · intro x hx
    rcases ids_replaceSub_sub j s2 s1 x hx with h | h
    · exact B1.fresh x h
    · exact fun m => B2.fresh x h (hsub x m)
  · rw [B2.root (fun e => by cases e), B1.root hl]
  · rw [B2.cells x (hsub x hx) (hne x hx), B1.cells x hx hxl]
  · rw [← B1.scal x hx hxl, ← B1.get_old hx hxl]
    exact B2.scal x (hsub x hx) (hne x hx)
  · have hi : i ∈ F.ids := isLoc_ids (e ▸ C.loc)
    have hn : d2.null = d1.null := by simp only [Doc.null, B2.g]
    rw [nextOf_of_cell (B2.cells i (hsub i hi) (hne i hi)) hn]; exact B1.next i e
  · cases l with
    | root => exact B2.root (fun e => by cases e)
    | slot i =>
      have hi : i ∈ F.ids := isLoc_ids C.loc
      exact get_of_cell (B2.cells i (hsub i hi) (hne i hi))

/-- the context of a parse into the fresh element / member value slot `j` -/
theorem Built.ctx_in {d0 d1 : Doc} {F : Forest} {l : Loc} {s1 : Forest} {j : Nat} (C : Ctx d0 F l)
    (B1 : Built d0 F l d1 s1) (hj : j ∈ s1.locs) (hnull : d1.get (.slot j) = .null) :
    Ctx d1 (replaceAt F l s1) (.slot j) := by
  have hl : isLoc (replaceAt F l s1) (.slot j) := isLoc_replaceAt_new C.loc hj
  exact ⟨B1.wf.nodup, hl, layoutAt_nil_of_scalar B1.wf hl (by rw [hnull]; exact fun h => h), B1.gok C⟩

/-! ## Object members: lookup, clearing an existing member -/

/-- `findKey` on the object being built returns a value slot of its layout -/
theorem findKey_loc {d : Doc} {F : Forest} {l : Loc} {h t k v : Nat} {key : List Byte} (w : WFG d F) (hl : isLoc F l)
    (hv : d.get l = .obj h t) (hf : d.findKey l key = some (k, v)) : v ∈ (layoutAt F l).locs := by
  have hvo := VOK_at w hl
  rw [hv] at hvo
  obtain ⟨hlk, _⟩ := (VOK_obj _ _ _ _).1 hvo
  have hfuel : (layoutAt F l).ids.length < d.fuel :=
    Nat.lt_of_le_of_lt (List.Nodup.length_le_of_subset (layoutAt_nodup w.nodup hl)
      (fun x hx => layoutAt_ids_sub F l x hx)) w.fuel_ok
  simp only [Doc.findKey, hv, chain_eq hlk (Nat.le_of_lt hfuel)] at hf
  exact Forest.tl_sub_locs _ v (findIn_tl key _ hlk (layoutAt_nodup w.nodup hl) hf).1

theorem nl_clearV {d : Doc} {F : Forest} {l : Loc} (w : WFG d F) (hs : StrOK d (d.strRefs F)) (hl : isLoc F l) :
    nl (d.clearV l) = nl d := by
  obtain ⟨a, b, _⟩ := clearV_exact w hs hl
  simp only [nl]
  rw [a, net_rel]
  omega

/-- an existing member (value slot `v`) is cleared before it is parsed again -/
theorem Built.clear_member {d0 d : Doc} {F : Forest} {l : Loc} {s : Forest} {v : Nat} (C : Ctx d0 F l)
    (B : Built d0 F l d s) (hv : v ∈ s.locs) :
    Built d0 F l (d.clearV (.slot v)) (s.replaceSub v .nil) ∧ (d.clearV (.slot v)).get (.slot v) = .null ∧
    (d.clearV (.slot v)).get l = d.get l ∧ (d.clearV (.slot v)).overflowed = d.overflowed ∧
    nl (d.clearV (.slot v)) = nl d ∧ v ∈ (s.replaceSub v .nil).locs ∧
    (d.clearV (.slot v)).pl.pools = d.pl.pools ∧
    (∀ j ∈ s.ids, j ≠ v → j ∉ (s.subOf v).ids → Good d (d.clearV (.slot v)) j) ∧
    (d.clearV (.slot v)).nextOf v = d.nextOf v := by
  have hvF : v ∉ F.ids := B.fresh v (s.locs_sub_ids v hv)
  have hlv : isLoc (replaceAt F l s) (.slot v) := isLoc_replaceAt_new C.loc hv
  obtain ⟨a, b, _, hdead⟩ := clearV_spec B.wf B.str hlv
  rw [replaceAt_nest s .nil hvF] at a b
  obtain ⟨gn, _, gr, gc, _⟩ := clearV_good B.wf B.str hlv
  have hsub : ∀ x ∈ F.ids, x ∈ (replaceAt F l s).ids := fun x hx => (C.mem_ids s x).2 (Or.inl hx)
  have hout : ∀ x ∈ F.ids, x ∉ (layoutAt (replaceAt F l s) (.slot v)).ids := fun x hx m =>
    hdead x m (a.live x ((C.mem_ids _ x).2 (Or.inl hx)))
  have hcell : ∀ x ∈ F.ids, (d.clearV (.slot v)).cell x = d.cell x := fun x hx =>
    (gc x (hsub x hx) (fun e => by cases e; exact hvF hx) (hout x hx)).1
  have hg := clearV_g B.wf B.str hlv
  refine ⟨⟨a, b, ?_, hg.trans B.g, fun hl => ?_, fun x hx hxl => ?_, fun x hx hxl => ?_, fun i e => ?_⟩, gn, ?_,
    clearV_overflowed _ _,
    nl_clearV B.wf B.str hlv, Forest.self_mem_locs_replaceSub s v .nil hv,
    by rw [(clearV_exact B.wf B.str hlv).1]; rfl, fun j hj hjv hjs => ?_, (gr v rfl).1⟩
  · intro x hx
    rcases ids_replaceSub_sub v .nil s x hx with h | h
    · exact B.fresh x h
    · cases h
  · rw [(gr v rfl).2, B.root hl]
  · rw [hcell x hx, B.cells x hx hxl]
  · rw [← B.scal x hx hxl, ← B.get_old hx hxl]
    exact (gc x (hsub x hx) (fun e => by cases e; exact hvF hx) (hout x hx)).2
  · have hn : (d.clearV (.slot v)).null = d.null := by simp only [Doc.null, hg]
    rw [nextOf_of_cell (hcell i (isLoc_ids (e ▸ C.loc))) hn]; exact B.next i e
  · cases l with
    | root => exact (gr v rfl).2
    | slot i => exact get_of_cell (hcell i (isLoc_ids C.loc))
  · -- a slot of `s` outside the cleared member survives: it is live afterwards, the cleared slots are not
    have hsnd : s.ids.Nodup := by have := layoutAt_nodup B.wf.nodup (C.loc' s); rw [C.lay] at this; exact this
    have hj' : j ∈ (s.replaceSub v .nil).ids := (Forest.mem_ids_replaceSub s v .nil hsnd hv j).2 (Or.inl ⟨hj, hjs⟩)
    have hlive := a.live j ((C.mem_ids _ j).2 (Or.inr hj'))
    exact gc j ((C.mem_ids s j).2 (Or.inr hj)) (fun e => by cases e; exact hjv rfl) (fun m => hdead j m hlive)

/-! ## A new member: `save` the key, then `addMember(StringNode*)` -/

/-- after `save`: the document is the same one, with one reference to `n` pending -/
theorem Built.save {d0 : Doc} {F : Forest} {l : Loc} {s : Forest} {x x' : S} {bytes : List Byte} {n : Nat}
    (C : Ctx d0 F l) (B : Built d0 F l x.d s) (sv : SaveOp x bytes n x') :
    Built d0 F l x'.d s ∧ StrOK x'.d (n :: x'.d.strRefs (replaceAt F l s)) ∧ ∀ l0, x'.d.get l0 = x.d.get l0 := by
  have hc : ∀ j, x'.d.cell j = x.d.cell j := fun j => by simp only [Doc.cell, sv.cells]
  have hlv : ∀ y, PL.live x'.d.g x'.d.pl y ↔ PL.live x.d.g x.d.pl y := fun y => by
    rw [sv.g]; exact live_congr sv.pools sv.free y
  have hget : ∀ l0, x'.d.get l0 = x.d.get l0 := by
    intro l0
    cases l0 with
    | root => exact sv.root
    | slot j => exact get_of_cell (hc j)
  obtain ⟨a, b, _⟩ := wfg_frame B.wf sv.g sv.root (fun y _ => hc y)
    (fun l0 h0 e he => ⟨hc e, (hlv e).2 (B.wf.ext l0 h0 e he).2.1⟩)
    (by rw [sv.g]; exact B.wf.pool.congr sv.pools sv.tcap sv.theap sv.free)
    (fun y hy => (hlv y).2 (B.wf.live y hy)) (StrOK_weaken (a := [n]) (sv.str _ B.str)) (sv.keep _ B.str)
  have hrefs : x'.d.strRefs (replaceAt F l s) = x.d.strRefs (replaceAt F l s) :=
    flatMap_congr' _ (fun l0 _ => by rw [hget l0])
  exact ⟨⟨a, b, B.fresh, sv.g.trans B.g, fun hl => sv.root.trans (B.root hl), fun y hy hyl => (hc y).trans (B.cells y hy hyl),
    B.scal_of C (fun n hn => sv.keep _ B.str n hn) (fun _ _ e _ => hc e),
    fun i e => (nextOf_of_cell (hc i) (by simp only [Doc.null, sv.g])).trans (B.next i e)⟩,
    by rw [hrefs]; exact sv.str _ B.str, hget⟩

/-- the three ways `addMember(StringNode*)` ends -/
theorem addMemberNode_cases (d : Doc) (l : Loc) (node : Nat) :
    (∃ d1, d.allocVariant = (none, d1) ∧ addMemberNode d l node = (none, d1)) ∨
    (∃ k d1 d2, d.allocVariant = (some k, d1) ∧ d1.allocVariant = (none, d2) ∧ addMemberNode d l node = (none, d2)) ∨
    (∃ k d1 v d2, d.allocVariant = (some k, d1) ∧ d1.allocVariant = (some v, d2) ∧
      addMemberNode d l node = (some v, (d2.set (.slot k) (.owned node)).appendPair l k v)) := by
  unfold addMemberNode
  generalize d.allocVariant = r1
  obtain ⟨m1, d1⟩ := r1
  cases m1 with
  | none => exact Or.inl ⟨d1, rfl, rfl⟩
  | some k =>
    simp only
    generalize h2 : d1.allocVariant = r2
    obtain ⟨m2, d2⟩ := r2
    cases m2 with
    | none => exact Or.inr (Or.inl ⟨k, d1, d2, rfl, h2, rfl⟩)
    | some v => exact Or.inr (Or.inr ⟨k, d1, v, d2, rfl, h2, rfl⟩)

theorem nl_setNext (d : Doc) (i n : Nat) : nl (d.setNext i n) = nl d := by
  simp only [nl, setNext_pl, setNext_strings]

theorem nl_appendPair (d : Doc) (l : Loc) (k v : Nat) : nl (d.appendPair l k v) = nl d := by
  have hs : (d.appendPair l k v).strings = d.strings := by
    simp only [Doc.appendPair]
    split
    · split
      · rw [set_strings, setNext_strings, setNext_strings]
      · rw [set_strings, setNext_strings]
    · rw [setNext_strings]
  simp only [nl, DL.appendPair_pl, hs]

theorem appendPair_overflowed (d : Doc) (l : Loc) (k v : Nat) : (d.appendPair l k v).overflowed = d.overflowed := by
  simp only [Doc.appendPair]
  split
  · split
    · rw [set_overflowed, setNext_overflowed, setNext_overflowed]
    · rw [set_overflowed, setNext_overflowed]
  · rw [setNext_overflowed]

/-- `addMember(StringNode*)` on the object being built at `l`, the key's node `node` carrying a pending reference:
    on failure nothing changes but the flag (the slots obtained and the reference are leaked: they stay accounted for);
    on success the member `(key, null)` is appended. -/
theorem Built.addMemberNode {d0 d : Doc} {F : Forest} {l : Loc} {s : Forest} {h t node : Nat} (C : Ctx d0 F l)
    (B : Built d0 F l d s) (hp : StrOK d (node :: d.strRefs (replaceAt F l s))) (hv : d.get l = .obj h t) :
    ((addMemberNode d l node).1 = none →
      Built d0 F l (addMemberNode d l node).2 s ∧ (addMemberNode d l node).2.overflowed = true) ∧
    (∀ v, (addMemberNode d l node).1 = some v →
      ∃ k, Built d0 F l (addMemberNode d l node).2 (s.snoc (some k) v) ∧
        (addMemberNode d l node).2.get (.slot v) = .null ∧ (∃ h', (addMemberNode d l node).2.get l = .obj h' v) ∧
        (addMemberNode d l node).2.overflowed = d.overflowed ∧ SameV d (addMemberNode d l node).2 s.ids ∧
        (addMemberNode d l node).2.get (.slot k) = .owned node ∧ (addMemberNode d l node).2.strings = d.strings ∧
        k ∉ s.ids ∧ v ∉ s.ids) ∧
    nl (addMemberNode d l node).2 = nl d ∧ (AllB d → Blk (addMemberNode d l node).2) := by
  have gok := B.gok C
  have hl := C.loc' s
  rcases addMemberNode_cases d l node with ⟨d1, hal1, e⟩ | ⟨k, d1, d2, hal1, hal2, e⟩ | ⟨k, d1, v, d2, hal1, hal2, e⟩
  · rw [e]
    obtain ⟨hg, ho, _⟩ := allocVariant_none gok B.wf.pool hal1
    have hn1 : nl d1 = nl d := by have := nl_allocVariant d; rw [hal1] at this; exact this
    exact ⟨fun _ => ⟨B.grow C hg, ho⟩, (fun v hv' => by cases hv'), hn1, fun _ => Or.inr ho⟩
  · rw [e]
    obtain ⟨hg1, _, _, _, _, _, _⟩ := allocVariant_some gok B.wf.pool hal1
    have gok1 : PL.GeoOK d1.g := by rw [hg1.g]; exact gok
    obtain ⟨hg2, ho, _⟩ := allocVariant_none gok1 hg1.pool hal2
    have hn1 : nl d1 = nl d := by have := nl_allocVariant d; rw [hal1] at this; exact this
    have hn2 : nl d2 = nl d1 := by have := nl_allocVariant d1; rw [hal2] at this; exact this
    exact ⟨fun _ => ⟨B.grow C (hg1.trans hg2), ho⟩, (fun v hv' => by cases hv'), hn2.trans hn1, fun _ => Or.inr ho⟩
  · rw [e]
    obtain ⟨hg1, ho1, hc1, hco1, hnk, hklt, hlv1⟩ := allocVariant_some gok B.wf.pool hal1
    have gok1 : PL.GeoOK d1.g := by rw [hg1.g]; exact gok
    obtain ⟨hg2, ho2, hc2, hco2, hnv, hvlt, hlv2⟩ := allocVariant_some gok1 hg1.pool hal2
    have hn1 : nl d1 = nl d := by have := nl_allocVariant d; rw [hal1] at this; exact this
    have hn2 : nl d2 = nl d1 := by have := nl_allocVariant d1; rw [hal2] at this; exact this
    have hg12 := hg1.trans hg2
    obtain ⟨w2, hs2, _⟩ := wfg_of_grow B.wf B.str hg12
    obtain ⟨o1, _, _⟩ := grow_obs B.wf B.str hg12 hl
    have hnl1 : d1.null = d.null := by simp only [Doc.null, hg1.g]
    have hnl2 : d2.null = d.null := by simp only [Doc.null, hg12.g]
    have hkv : k ≠ v := fun e => hnv (e ▸ (hlv1 k).2 (Or.inr rfl))
    have hnv' : ¬ PL.live d.g d.pl v := fun hh => hnv ((hlv1 v).2 (Or.inl hh))
    have hk2c : d2.cell k = .var .null d2.null := by rw [hco2 k hkv, hc1, hnl2]
    have hvc : d2.cell v = .var .null d2.null := by rw [hc2, hnl1, hnl2]
    obtain ⟨hkF0, hks⟩ := B.notin C hnk
    obtain ⟨hvF0, hvs⟩ := B.notin C hnv'
    have hkF : k ∉ (replaceAt F l s).ids := fun m => hnk (B.wf.live k m)
    have hvF : v ∉ (replaceAt F l s).ids := fun m => hnv' (B.wf.live v m)
    have hklive : PL.live d2.g d2.pl k := (hlv2 k).2 (Or.inl ((hlv1 k).2 (Or.inr rfl)))
    have hvlive : PL.live d2.g d2.pl v := (hlv2 v).2 (Or.inr rfl)
    have hv2 : d2.get l = .obj h t := by rw [o1]; exact hv
    have hrefs2 : d2.strRefs (replaceAt F l s) = d.strRefs (replaceAt F l s) := strRefs_of_grow B.wf hg12
    have hp2 : StrOK d2 (node :: d2.strRefs (replaceAt F l s)) := by
      rw [hrefs2]; exact StrOK_congr hg12.strings hg12.nextNode hp
    -- the key slot takes the node
    generalize hdS : d2.set (.slot k) (.owned node) = dS
    have hgS : dS.g = d2.g := by rw [← hdS, set_g]
    have hrootS : dS.root = d2.root := by rw [← hdS]; rfl
    have hcellsS : ∀ x, x ≠ k → dS.cell x = d2.cell x := fun x hx => by
      rw [← hdS, cell_set_slot, if_neg (Ne.symm hx)]
    have hkS : dS.cell k = .var (.owned node) (d2.nextOf k) := by rw [← hdS, cell_set_slot, if_pos rfl]
    have hplS : dS.pl = d2.pl := by rw [← hdS, set_pl]
    have hstrS : StrOK dS (strOfV (.owned node) ++ d2.strRefs (replaceAt F l s)) := by
      rw [← hdS]; exact StrOK_congr (set_strings _ _ _) (set_nextNode _ _ _) hp2
    have hbytesS : ∀ n ∈ d2.strRefs (replaceAt F l s), dS.strBytes n = d2.strBytes n := fun n _ => by
      rw [← hdS, strBytes_set]
    obtain ⟨b1, b2, _, b5, b6, _⟩ := addMember_tail (key := keyOfV dS (.owned node)) w2 hl hv2 hgS hrootS hcellsS
      (by rw [hplS]) (by rw [hplS]) (by rw [hplS]) (by rw [hplS]) hstrS hbytesS hkS trivial rfl hk2c hvc hkv hkF hvF
      (hnl2 ▸ hklt) (by rw [hnl2, ← hnl1]; exact hvlt) hklive hvlive
    rw [C.lay, C.re] at b1 b2
    -- cells of the result
    have hn : dS.null = d2.null := by simp only [Doc.null, hgS]
    have hlvS : ∀ x, PL.live dS.g dS.pl x ↔ PL.live d2.g d2.pl x := fun x => by rw [hgS, hplS]
    have hfc : ∀ x ∈ (replaceAt F l s).ids, dS.cell x = d2.cell x := fun x hx => hcellsS x (fun e => hkF (e ▸ hx))
    have hkne : ∀ l0 ∈ holders (replaceAt F l s), ∀ e ∈ extOfV (d2.get l0), e ≠ k := by
      intro l0 h0 e he e'
      obtain ⟨⟨p, hp'⟩, _, _⟩ := w2.ext l0 h0 e he
      rw [e', hk2c] at hp'; cases hp'
    obtain ⟨wS, _, _⟩ := wfg_frame w2 hgS hrootS hfc
      (fun l0 h0 e he => ⟨hcellsS e (hkne l0 h0 e he), (hlvS e).2 (w2.ext l0 h0 e he).2.1⟩)
      (by rw [hgS, hplS]; exact w2.pool) (fun x hx => (hlvS x).2 (w2.live x hx)) (StrOK_drop hstrS) hbytesS
    obtain ⟨q1, _, _⟩ := frame_obs w2 hgS hrootS hfc
      (fun l0 h0 e he => ⟨hcellsS e (hkne l0 h0 e he), (hlvS e).2 (w2.ext l0 h0 e he).2.1⟩)
      (by rw [hgS, hplS]; exact w2.pool) (fun x hx => (hlvS x).2 (w2.live x hx)) (StrOK_drop hstrS) hbytesS hl
    have hvS : dS.get l = .obj h t := by rw [q1]; exact hv2
    have hvsS : VOK dS (.obj h t) (layoutAt (replaceAt F l s) l) := hvS ▸ VOK_at wS hl
    obtain ⟨hlk, ht⟩ := (VOK_obj _ _ _ _).1 hvsS
    obtain ⟨htf, htl⟩ := tail_facts wS hl hlk ht
    have hkl : Loc.slot k ≠ l := fun e => hkF (isLoc_ids (e ▸ hl))
    have hkt : t ≠ dS.null → k ≠ t := fun htn e => hkF (e ▸ (htf htn).2.2.1)
    obtain ⟨_, cstr, _, _, _, cget, cck, cco, cct, croot⟩ :=
      appendPair_cells (v := v) hvS hkS hkl htl hkt (fun htn => (htf htn).2.2.2)
    have hstrs : (dS.appendPair l k v).strings = d.strings :=
      cstr.trans (by rw [← hdS, set_strings]; exact hg12.strings)
    have hextc : ∀ l0 ∈ holders (replaceAt F l s), ∀ e ∈ extOfV (d.get l0), (dS.appendPair l k v).cell e = d.cell e := by
      intro l0 h0 e he
      obtain ⟨⟨p, hp'⟩, hlv, _⟩ := B.wf.ext l0 h0 e he
      have hek : e ≠ k := fun e' => hnk (e' ▸ hlv)
      have hpS : dS.cell e = .ext p := by rw [hcellsS e hek, hg12.cells e hlv]; exact hp'
      rw [cco e (fun e' => ext_ne_var hp' (B.wf.isVar e (isLoc_ids (e' ▸ hl))) rfl) hek
        (fun htn => ext_ne_var hpS (htf htn).2.2.2), hcellsS e hek, hg12.cells e hlv]
    have hsc := B.scal_of (d' := dS.appendPair l k v) C (fun n _ => strBytes_of_strings hstrs n) hextc
    have hsame : SameV d (dS.appendPair l k v) s.ids := by
      intro j hj
      have hjc : j ∈ (replaceAt F l s).ids := (C.mem_ids s j).2 (Or.inr hj)
      have hjl : Loc.slot j ≠ l := fun e => B.fresh j hj (isLoc_ids (e ▸ C.loc))
      have hjk : j ≠ k := fun e => hkF (e ▸ hjc)
      have hjS : dS.get (.slot j) = d.get (.slot j) := by
        rw [get_of_cell (hcellsS j hjk)]; exact get_of_cell (hg12.cells j (B.wf.live j hjc))
      refine ⟨?_, scalar_congr (fun n _ => strBytes_of_strings hstrs n)
        (fun e he => hextc _ (mem_holders.2 (Or.inr ⟨j, hjc, rfl⟩)) e he)⟩
      by_cases hjt : t ≠ dS.null ∧ j = t
      · obtain ⟨htn, rfl⟩ := hjt
        rw [get_of_var (cct htn)]; exact hjS
      · rw [get_of_cell (cco j hjl hjk (fun htn e => hjt ⟨htn, e⟩))]; exact hjS
    have hovS : dS.overflowed = d.overflowed := by rw [← hdS, set_overflowed, ho2, ho1]
    have hnS : nl dS = nl d := by rw [← hdS, nl_set, hn2, hn1]
    have hbk : AllB d → Blk (dS.appendPair l k v) := by
      intro hb
      have h1 := allocVariant_blk gok B.wf.pool hb
      rw [hal1] at h1
      rcases h1 with h1 | h1
      · have h2 := allocVariant_blk gok1 hg1.pool h1
        rw [hal2] at h2
        rcases h2 with h2 | h2
        · exact Or.inl (AllB_of_pools (by rw [DL.appendPair_pl, hplS]) h2)
        · exact Or.inr (by rw [appendPair_overflowed, ← hdS, set_overflowed]; exact h2)
      · exact Or.inr (by rw [appendPair_overflowed, ← hdS, set_overflowed, ho2]; exact h1)
    refine ⟨(fun hh => by cases hh), fun v' hv' => ?_, by rw [nl_appendPair, hnS], hbk⟩
    simp only [Option.some.injEq] at hv'
    subst hv'
    have hnx : ∀ i, l = .slot i → (dS.appendPair l k v).nextOf i = d0.nextOf i := by
      intro i e
      have hi : i ∈ F.ids := isLoc_ids (e ▸ C.loc)
      have hic : i ∈ (replaceAt F l s).ids := (C.mem_ids s i).2 (Or.inl hi)
      have hkt' : k ≠ t := by
        intro e'
        by_cases htn : t = dS.null
        · rw [hn, hnl2] at htn; rw [e', htn] at hklt; exact Nat.lt_irrefl _ hklt
        · exact hkt htn e'
      obtain ⟨_, _, _, _, _, _, _, _, _, _, _, cci⟩ :=
        appendPair_cellsC (v := v) hvS hkS hkl htl hkt' (fun htn => (htf htn).2.2.2)
      rw [nextOf_of_var (cci i e), nextOf_of_cell (hfc i hic) hn,
        nextOf_of_cell (hg12.cells i (B.wf.live i hic)) hnl2]
      exact B.next i e
    refine ⟨k, ⟨b1, b2, ?_, by rw [b5, hg12.g, B.g], fun hlr => ?_, fun x hx hxl => ?_, hsc, hnx⟩, b6, ⟨_, cget⟩,
      by rw [appendPair_overflowed, hovS], hsame, get_of_var cck, hstrs, hks, hvs⟩
    · intro x hx
      rw [Forest.ids_snoc] at hx
      simp only [Forest.keyL, List.cons_append, List.nil_append, List.mem_append, List.mem_cons, List.not_mem_nil,
        or_false] at hx
      rcases hx with hx | hx | hx
      · exact B.fresh x hx
      · rw [hx]; exact hkF0
      · rw [hx]; exact hvF0
    · rw [croot hlr, hrootS, hg12.root, B.root hlr]
    · have hxc : x ∈ (replaceAt F l s).ids := (C.mem_ids s x).2 (Or.inl hx)
      have hxt : t ≠ dS.null → x ≠ t := by
        intro htn e'
        have : t ∈ s.ids := by have := (htf htn).2.1; rw [C.lay] at this; exact this
        exact B.fresh t this (e' ▸ hx)
      rw [cco x hxl (fun e' => hkF0 (e' ▸ hx)) hxt, hfc x hxc, hg12.cells x (B.wf.live x hxc), B.cells x hx hxl]

end JDD
