/- Simulation of the slot-level deserializer `JDD` by the abstract one `JD`, part 5: the three mutual routines. -/
import AJ.Lemmas.JddSimKey
set_option linter.unusedSimpArgs false
set_option linter.unusedVariables false
namespace JDD
open DL
open JD (Byte Val Cfg Code St skipSpaces cur mv skipKeyword parseQuoted)

/-- outcome relation between a slot-level routine and its abstract twin, started from the document `d0` at the place `l` -/
def Sim (cfg : Cfg) (d0 : Doc) (l : Loc) (r : Code × S) (r0 : Code × Val × St) : Prop :=
  (r.2.d.overflowed = false ∧ r.1 = r0.1 ∧ r.2.s = r0.2.2 ∧ sim_BOK cfg r.2.b ∧
     ∃ v s, Post d0 r.2.d l v s ∧ r.2.d.valOf v s = r0.2.1) ∨
  (r.2.d.overflowed = true ∧ (r.1 = .noMemory ∨ (r.1 = r0.1 ∧ r.1 ≠ .ok ∧ r.2.s = r0.2.2)))

theorem Sim.exit {cfg : Cfg} {d0 : Doc} {l : Loc} {e : Code} {x' : S} {val : Val} {s' : St} (hs : x'.s = s')
    (hb : sim_BOK cfg x'.b) (hP : ∃ v s, Post d0 x'.d l v s ∧ x'.d.valOf v s = val)
    (he : x'.d.overflowed = true → e ≠ .ok) : Sim cfg d0 l (e, x') (e, val, s') := by
  cases ho : x'.d.overflowed with
  | false => exact Or.inl ⟨ho, rfl, hs, hb, hP⟩
  | true => exact Or.inr ⟨ho, Or.inr ⟨rfl, he ho, hs⟩⟩

theorem sim_numeric_eq (cfg : Cfg) (l : Loc) (x : S) :
    numeric cfg l x =
      match JD.parseNumber cfg (JD.scanNumber cfg (Gen.number_buffer - 1) [] x.s).1 with
      | .uint n => ((if (x.d.setArg l (.uint n)).1 then .ok else .noMemory),
          { x with s := (JD.scanNumber cfg (Gen.number_buffer - 1) [] x.s).2, d := (x.d.setArg l (.uint n)).2 })
      | .sint n => ((if (x.d.setArg l (.sint n)).1 then .ok else .noMemory),
          { x with s := (JD.scanNumber cfg (Gen.number_buffer - 1) [] x.s).2, d := (x.d.setArg l (.sint n)).2 })
      | .f32 b => ((if (x.d.setArg l (.f32 b)).1 then .ok else .noMemory),
          { x with s := (JD.scanNumber cfg (Gen.number_buffer - 1) [] x.s).2, d := (x.d.setArg l (.f32 b)).2 })
      | .f64 b => ((if (x.d.setArg l (.f64 b)).1 then .ok else .noMemory),
          { x with s := (JD.scanNumber cfg (Gen.number_buffer - 1) [] x.s).2, d := (x.d.setArg l (.f64 b)).2 })
      | .invalid => (.invalid, { x with s := (JD.scanNumber cfg (Gen.number_buffer - 1) [] x.s).2 })
      | .fault => (.fuel, { x with s := (JD.scanNumber cfg (Gen.number_buffer - 1) [] x.s).2 }) := by
  unfold numeric
  generalize JD.scanNumber cfg (Gen.number_buffer - 1) [] x.s = r
  obtain ⟨buf, s⟩ := r
  simp only
  generalize JD.parseNumber cfg buf = pn
  cases pn <;> rfl

theorem sim_parseNumeric_eq (cfg : Cfg) (s : St) :
    JD.parseNumeric cfg s =
      match JD.parseNumber cfg (JD.scanNumber cfg (Gen.number_buffer - 1) [] s).1 with
      | .uint n => (.ok, .num (.uint n), (JD.scanNumber cfg (Gen.number_buffer - 1) [] s).2)
      | .sint n => (.ok, .num (.sint n), (JD.scanNumber cfg (Gen.number_buffer - 1) [] s).2)
      | .f32 b => (.ok, .num (.f32 b), (JD.scanNumber cfg (Gen.number_buffer - 1) [] s).2)
      | .f64 b => (.ok, .num (JD.storeDouble b), (JD.scanNumber cfg (Gen.number_buffer - 1) [] s).2)
      | .invalid => (.invalid, .null, (JD.scanNumber cfg (Gen.number_buffer - 1) [] s).2)
      | .fault => (.fuel, .null, (JD.scanNumber cfg (Gen.number_buffer - 1) [] s).2) := by
  unfold JD.parseNumeric
  generalize JD.scanNumber cfg (Gen.number_buffer - 1) [] s = r
  obtain ⟨buf, s⟩ := r
  simp only
  generalize JD.parseNumber cfg buf = pn
  cases pn <;> rfl

/-- storing a number -/
theorem sim_store (cfg : Cfg) {x : S} {l : Loc} (P : Pre x.d l) (h0 : x.d.overflowed = false) (hb : sim_BOK cfg x.b)
    (s' : St) (a : Arg)
    (ha : (∃ n, a = .uint n) ∨ (∃ n, a = .sint n) ∨ (∃ b, a = .f32 b) ∨ (∃ b, a = .f64 b)) :
    Sim cfg x.d l ((if (x.d.setArg l a).1 then Code.ok else Code.noMemory), { x with s := s', d := (x.d.setArg l a).2 })
      (.ok, argV a, s') := by
  obtain ⟨v, s, hP, _, hcomp, _, _⟩ := setArg_res P a
  obtain ⟨g1, g2⟩ := sim_setArg_num l h0 ha
  cases ho : (x.d.setArg l a).2.overflowed with
  | false =>
    refine Or.inl ⟨ho, ?_, rfl, hb, v, s, hP, hcomp ho⟩
    simp only [g1 ho, if_true]
  | true =>
    refine Or.inr ⟨ho, Or.inl ?_⟩
    simp only [g2 ho, Bool.false_eq_true, if_false]

theorem sim_null_post {d : Doc} {l : Loc} (P : Pre d l) {d' : Doc} (hf : Fr d d' []) :
    ∃ v s, Post d d' l v s ∧ d'.valOf v s = .null :=
  ⟨.null, .nil, post_null P hf, rfl⟩

theorem sim_numeric (cfg : Cfg) {x : S} {l : Loc} (P : Pre x.d l) (h0 : x.d.overflowed = false) (hb : sim_BOK cfg x.b) :
    Sim cfg x.d l (numeric cfg l x) (JD.parseNumeric cfg x.s) := by
  rw [sim_numeric_eq, sim_parseNumeric_eq]
  split
  · exact sim_store cfg P h0 hb _ (.uint _) (Or.inl ⟨_, rfl⟩)
  · exact sim_store cfg P h0 hb _ (.sint _) (Or.inr (Or.inl ⟨_, rfl⟩))
  · exact sim_store cfg P h0 hb _ (.f32 _) (Or.inr (Or.inr (Or.inl ⟨_, rfl⟩)))
  · rename_i b _
    have := sim_store cfg P h0 hb (JD.scanNumber cfg (Gen.number_buffer - 1) [] x.s).2 (.f64 b) (Or.inr (Or.inr (Or.inr ⟨_, rfl⟩)))
    rw [show argV (.f64 b) = normF64 b from rfl, sim_normF64] at this
    exact this
  · exact Sim.exit rfl hb (sim_null_post P (Fr.refl P.pool [])) (fun _ => by intro h; cases h)
  · exact Sim.exit rfl hb (sim_null_post P (Fr.refl P.pool [])) (fun _ => by intro h; cases h)


def SimV (cfg : Cfg) (fuel : Nat) : Prop :=
  ∀ (limit : Nat) (l : Loc) (x : S), Pre x.d l → x.d.overflowed = false → sim_BOK cfg x.b →
    Sim cfg x.d l (JDD.parseVariant cfg fuel limit l x) (JD.parseVariant cfg fuel limit x.s)

def SimE (cfg : Cfg) (fuel : Nat) : Prop :=
  ∀ (limit : Nat) (l : Loc) (x : S) (d0 : Doc) (h t : Nat) (sl : Forest) (acc : List Val),
    Pre d0 l → Post d0 x.d l (.arr h t) sl → (vals x.d noOv sl).map (·.2) = acc.reverse →
    x.d.overflowed = false → sim_BOK cfg x.b →
    Sim cfg d0 l (JDD.parseElems cfg fuel limit l x) (JD.parseElems cfg fuel limit x.s acc)

def SimM (cfg : Cfg) (fuel : Nat) : Prop :=
  ∀ (limit : Nat) (l : Loc) (x : S) (d0 : Doc) (h t : Nat) (sl : Forest) (ms : List (List Byte × Val)),
    Pre d0 l → Post d0 x.d l (.obj h t) sl → vals x.d noOv sl = ms →
    x.d.overflowed = false → sim_BOK cfg x.b →
    Sim cfg d0 l (JDD.parseMembers cfg fuel limit l x) (JD.parseMembers cfg fuel limit x.s ms)

/-- a string value: token through the builder, node saved, stored -/
theorem sim_string (cfg : Cfg) (h31 : 31 ≤ cfg.maxStrLen) (fuel : Nat) (stop : Byte) {x : S} {l : Loc} (P : Pre x.d l)
    (h0 : x.d.overflowed = false) (hb : sim_BOK cfg x.b) :
    Sim cfg x.d l
      (match quoted cfg fuel stop x with
        | (.ok, bytes, x) => (.ok, { (save x bytes).2 with d := (save x bytes).2.d.set l (.owned (save x bytes).1) })
        | (e, _, x) => (e, x))
      (match parseQuoted cfg stop fuel [] 0 x.s with
        | (.ok, str, s) => (.ok, .str str, s)
        | (e, _, s) => (e, .null, s)) := by
  obtain ⟨q1, q2, q3, q4, q5, q6⟩ := sim_quoted cfg fuel stop x P.pool hb h31 h0
  generalize quoted cfg fuel stop x = q at *
  generalize parseQuoted cfg stop fuel [] 0 x.s = p at *
  obtain ⟨c, bytes, x2⟩ := q
  obtain ⟨c0, str, s0⟩ := p
  simp only at q1 q2 q3 q4 q5 q6
  subst q1
  have hfr : Fr x.d x2.d [] := Fr.of_grow q3 (fun h => by rw [h0] at h; cases h) []
  have P2 : Pre x2.d l := sim_pre_of_fr P hfr
  cases ho : x2.d.overflowed with
  | false =>
    have hc := q5 ho
    subst hc
    cases c
    case ok =>
      simp only
      obtain ⟨s1, s2, s3, s4, s5, s6⟩ := sim_save cfg x2 bytes P2.pool P2.str
      obtain ⟨pp, pv⟩ := sim_post_owned P (Fr.trans hfr s2 (fun _ h => by cases h)) s3
        (fun rs hs => s4 rs (hfr.strok rs hs))
      refine Or.inl ⟨by simp only [set_overflowed, s5, ho], rfl, by simp only [s1, q2], s6 q4, _, _, pp, pv⟩
    all_goals exact Sim.exit q2 q4 (sim_null_post P hfr) (fun h => by rw [ho] at h; cases h)
  | true =>
    rcases q6 ho with e | ⟨e1, e2⟩
    · subst e
      exact Or.inr ⟨ho, Or.inl rfl⟩
    · subst e1
      cases c
      case ok => exact absurd rfl e2
      all_goals exact Or.inr ⟨ho, Or.inr ⟨rfl, e2, q2⟩⟩


theorem sim_coll_post {d : Doc} {l : Loc} (b : Bool) (P : Pre d l) :
    ∃ v s, Post d (d.set l (coll b d.null d.null)) l v s ∧
      (d.set l (coll b d.null d.null)).valOf v s = (if b then .obj [] else .arr []) := by
  refine ⟨_, _, (sim_post_coll b P).1, ?_⟩
  cases b <;> rfl

set_option maxRecDepth 4000 in
theorem sim_pv_step (cfg : Cfg) (h31 : 31 ≤ cfg.maxStrLen) (fuel : Nat) (hE : SimE cfg fuel) (hM : SimM cfg fuel) :
    SimV cfg (fuel + 1) := by
  intro limit l x P h0 hb
  have hfr0 : Fr x.d x.d [] := Fr.refl P.pool []
  have hne : ∀ {e : Code}, (e = .ok → False) → x.d.overflowed = true → e ≠ .ok := fun h _ => h
  simp only [JDD.parseVariant, JD.parseVariant]
  generalize hsk : skipSpaces cfg (fuel + 1) x.s = r
  obtain ⟨c, s⟩ := r
  cases c
  case ok =>
    simp only
    generalize hcur : cur s = r2
    obtain ⟨c, s1⟩ := r2
    simp only
    by_cases h5B : (c == 0x5B) = true
    · -- array
      simp only [h5B, ↓reduceIte]
      have hPa := sim_coll_post false P
      have hov : (x.d.set l (.arr x.d.null x.d.null)).overflowed = false := by rw [set_overflowed]; exact h0
      cases limit with
      | zero => exact Sim.exit rfl hb hPa (fun h => by rw [hov] at h; cases h)
      | succ limit' =>
        simp only
        generalize hsk2 : skipSpaces cfg (fuel + 1) (mv s1) = r3
        obtain ⟨c2, s2⟩ := r3
        cases c2
        case ok =>
          simp only
          generalize hcur2 : cur s2 = r4
          obtain ⟨e, s3⟩ := r4
          simp only
          by_cases h5D : (e == 0x5D) = true
          · simp only [h5D, ↓reduceIte]
            exact Sim.exit rfl hb hPa (fun h => by rw [hov] at h; cases h)
          · simp only [h5D, ↓reduceIte]
            exact hE limit' l { s := s3, d := x.d.set l (.arr x.d.null x.d.null), b := x.b } x.d _ _ .nil [] P
              (sim_post_coll false P).1 rfl hov hb
        all_goals exact Sim.exit rfl hb hPa (fun h => by rw [hov] at h; cases h)
    · simp only [h5B, ↓reduceIte]
      by_cases h7B : (c == 0x7B) = true
      · -- object
        simp only [h7B, ↓reduceIte]
        have hPa := sim_coll_post true P
        have hov : (x.d.set l (.obj x.d.null x.d.null)).overflowed = false := by rw [set_overflowed]; exact h0
        cases limit with
        | zero => exact Sim.exit rfl hb hPa (fun h => by rw [hov] at h; cases h)
        | succ limit' =>
          simp only
          generalize hsk2 : skipSpaces cfg (fuel + 1) (mv s1) = r3
          obtain ⟨c2, s2⟩ := r3
          cases c2
          case ok =>
            simp only
            generalize hcur2 : cur s2 = r4
            obtain ⟨e, s3⟩ := r4
            simp only
            by_cases h7D : (e == 0x7D) = true
            · simp only [h7D, ↓reduceIte]
              exact Sim.exit rfl hb hPa (fun h => by rw [hov] at h; cases h)
            · simp only [h7D, ↓reduceIte]
              exact hM limit' l { s := s3, d := x.d.set l (.obj x.d.null x.d.null), b := x.b } x.d _ _ .nil [] P
                (sim_post_coll true P).1 rfl hov hb
          all_goals exact Sim.exit rfl hb hPa (fun h => by rw [hov] at h; cases h)
      · simp only [h7B, ↓reduceIte]
        by_cases hq : (c == 0x22 || c == 0x27) = true
        · -- string
          simp only [hq, ↓reduceIte]
          exact sim_string cfg h31 (fuel + 1) c (x := { s := mv s1, d := x.d, b := x.b }) P h0 hb
        · simp only [hq, ↓reduceIte]
          by_cases h74 : (c == 0x74) = true
          · simp only [h74, ↓reduceIte]
            obtain ⟨pp, pv⟩ := sim_post_plain (v' := .bool true) P hfr0 (fun h => h) rfl rfl
            exact Sim.exit rfl hb ⟨_, _, pp, pv⟩ (fun h => by rw [set_overflowed, h0] at h; cases h)
          · simp only [h74, ↓reduceIte]
            by_cases h66 : (c == 0x66) = true
            · simp only [h66, ↓reduceIte]
              obtain ⟨pp, pv⟩ := sim_post_plain (v' := .bool false) P hfr0 (fun h => h) rfl rfl
              exact Sim.exit rfl hb ⟨_, _, pp, pv⟩ (fun h => by rw [set_overflowed, h0] at h; cases h)
            · simp only [h66, ↓reduceIte]
              by_cases h6E : (c == 0x6E) = true
              · simp only [h6E, ↓reduceIte]
                exact Sim.exit rfl hb (sim_null_post P hfr0) (fun h => by rw [h0] at h; cases h)
              · simp only [h6E, ↓reduceIte]
                exact sim_numeric cfg (x := { s := s1, d := x.d, b := x.b }) P h0 hb
  all_goals exact Sim.exit rfl hb (sim_null_post P hfr0) (fun h => by rw [h0] at h; cases h)


theorem sim_arr_post {d0 d : Doc} {l : Loc} {h t : Nat} {sl : Forest} {xs : List Val} (P : Post d0 d l (.arr h t) sl)
    (hv : (vals d noOv sl).map (·.2) = xs) : ∃ v s, Post d0 d l v s ∧ d.valOf v s = .arr xs :=
  ⟨_, _, P, by show Val.arr ((vals d noOv sl).map (·.2)) = _; rw [hv]⟩

theorem sim_obj_post {d0 d : Doc} {l : Loc} {h t : Nat} {sl : Forest} {ms : List (List Byte × Val)}
    (P : Post d0 d l (.obj h t) sl) (hv : vals d noOv sl = ms) : ∃ v s, Post d0 d l v s ∧ d.valOf v s = .obj ms :=
  ⟨_, _, P, by show Val.obj (vals d noOv sl) = _; rw [hv]⟩

set_option maxRecDepth 4000 in
theorem sim_pe_step (cfg : Cfg) (fuel : Nat) (hV : SimV cfg fuel) (hE : SimE cfg fuel) : SimE cfg (fuel + 1) := by
  intro limit l x d0 h t sl acc P0 P hvals h0 hb
  have gokd : PL.GeoOK x.d.g := by rw [P.fr.g]; exact P0.gok
  simp only [JDD.parseElems, JD.parseElems]
  generalize hadd : x.d.addElement l = r
  obtain ⟨m, d1⟩ := r
  cases m with
  | none =>
    simp only
    have := (allocVariant_none gokd P.fr.pool (sim_addElement_none hadd)).2.1
    exact Or.inr ⟨this, Or.inl rfl⟩
  | some id =>
    simp only
    obtain ⟨pre1, hov1, hstep⟩ := sim_arr_step P0 P hadd
    have hsim := hV limit (.slot id) { s := x.s, d := d1, b := x.b } pre1 (by rw [hov1]; exact h0) hb
    generalize JDD.parseVariant cfg fuel limit (.slot id) { s := x.s, d := d1, b := x.b } = rv at hsim
    generalize JD.parseVariant cfg fuel limit x.s = rv0 at hsim
    obtain ⟨c, x2⟩ := rv
    obtain ⟨c0, v0, s0⟩ := rv0
    rcases hsim with ⟨o2, hc, hs2, hb2, ve, se, P2, hval⟩ | ⟨o2, hc⟩
    · simp only at o2 hc hs2 hb2 P2 hval
      subst hc hs2
      obtain ⟨Pn, hvn⟩ := hstep x2.d ve se P2
      rw [hval] at hvn
      have hvals' : (vals x2.d noOv (sl.snocS none id se)).map (·.2) = (v0 :: acc).reverse := by
        rw [hvn, List.map_append, hvals]; simp
      have hPn := sim_arr_post Pn hvals'
      have hno : ∀ {e : Code}, x2.d.overflowed = true → e ≠ .ok := fun h => by rw [o2] at h; cases h
      cases c
      case ok =>
        simp only
        generalize hsk : skipSpaces cfg (fuel + 1) x2.s = r3
        obtain ⟨c2, s2⟩ := r3
        cases c2
        case ok =>
          simp only
          generalize hcur : cur s2 = r4
          obtain ⟨e, s3⟩ := r4
          simp only
          by_cases h5D : (e == 0x5D) = true
          · simp only [h5D, ↓reduceIte]
            exact Sim.exit rfl hb2 hPn hno
          · simp only [h5D, ↓reduceIte]
            by_cases h2C : (e == 0x2C) = true
            · simp only [h2C, ↓reduceIte]
              exact hE limit l { s := mv s3, d := x2.d, b := x2.b } d0 _ _ _ (v0 :: acc) P0 Pn hvals' o2 hb2
            · simp only [h2C, ↓reduceIte]
              exact Sim.exit rfl hb2 hPn hno
        all_goals exact Sim.exit rfl hb2 hPn hno
      all_goals exact Sim.exit rfl hb2 hPn hno
    · simp only at o2 hc
      rcases hc with e | ⟨e1, e2, e3⟩
      · subst e
        exact Or.inr ⟨o2, Or.inl rfl⟩
      · subst e1
        cases c
        case ok => exact absurd rfl e2
        all_goals exact Or.inr ⟨o2, Or.inr ⟨rfl, e2, e3⟩⟩

theorem sim_pe_zero (cfg : Cfg) : SimE cfg 0 := by
  intro limit l x d0 h t sl acc P0 P hvals h0 hb
  simp only [JDD.parseElems, JD.parseElems]
  exact Sim.exit rfl hb (sim_arr_post P hvals) (fun _ => by intro h; cases h)

theorem sim_pv_zero (cfg : Cfg) : SimV cfg 0 := by
  intro limit l x P h0 hb
  simp only [JDD.parseVariant, JD.parseVariant]
  exact Sim.exit rfl hb (sim_null_post P (Fr.refl P.pool [])) (fun _ => by intro h; cases h)

theorem sim_pm_zero (cfg : Cfg) : SimM cfg 0 := by
  intro limit l x d0 h t sl ms P0 P hvals h0 hb
  simp only [JDD.parseMembers, JD.parseMembers]
  exact Sim.exit rfl hb (sim_obj_post P hvals) (fun _ => by intro h; cases h)

end JDD
