/- Simulation of the slot-level deserializer `JDD` by the abstract one `JD`, part 6: `parseMembers` cut into pieces
   (key token, `getMember`, member value, continuation), their simulations, and the induction on the fuel. -/
import AJ.Lemmas.JddSim
set_option linter.unusedSimpArgs false
set_option linter.unusedVariables false
namespace JDD
open DL
open JD (Byte Val Cfg Code St skipSpaces cur mv skipKeyword parseQuoted parseUnquoted inUnquoted setMember)

/-! ## `parseMembers` cut into pieces -/

def sim_pmTail_f (cfg : Cfg) (fuel limit : Nat) (l : Loc) (x : S) : Code × S :=
  match skipSpaces cfg (fuel+1) x.s with
  | (.ok, s) =>
    let (c, s) := cur s
    if c == 0x7D then (.ok, { x with s := mv s })
    else if c == 0x2C then
      match skipSpaces cfg (fuel+1) (mv s) with
      | (.ok, s) => JDD.parseMembers cfg fuel limit l { x with s := s }
      | (e, s) => (e, { x with s := s })
    else (.invalid, { x with s := s })
  | (e, s) => (e, { x with s := s })

def sim_pmVal_f (cfg : Cfg) (fuel limit : Nat) (l : Loc) (v : Nat) (x : S) : Code × S :=
  match JDD.parseVariant cfg fuel limit (.slot v) x with
  | (.ok, x) => sim_pmTail_f cfg fuel limit l x
  | r => r

def sim_pmSlot_f (l : Loc) (key : List Byte) (x : S) : Option Nat × S :=
  match x.d.findKey l key with
  | some (_, v) => (some v, { x with d := x.d.clearV (.slot v) })
  | none =>
    let (node, x) := save x key
    match addMemberNode x.d l node with
    | (some v, d) => (some v, { x with d := d })
    | (none, d) => (none, { x with d := d })

def sim_pmRest_f (cfg : Cfg) (fuel limit : Nat) (l : Loc) (key : List Byte) (x : S) : Code × S :=
  match skipSpaces cfg (fuel+1) x.s with
  | (.ok, s) =>
    let (c, s) := cur s
    let x := { x with s := s }
    if c != 0x3A then (.invalid, x) else
    let x := { x with s := mv x.s }
    match sim_pmSlot_f l key x with
    | (none, x) => (.noMemory, x)
    | (some v, x) => sim_pmVal_f cfg fuel limit l v x
  | (e, s) => (e, { x with s := s })

def sim_pmKey_f (cfg : Cfg) (fuel : Nat) (c : Byte) (x : S) : Code × List Byte × S :=
  if c == 0x22 || c == 0x27 then quoted cfg (fuel+1) c { x with s := mv x.s }
  else if inUnquoted c then unquoted cfg (fuel+1) x
  else (.invalid, [], startString x)

theorem sim_parseMembers_succ (cfg : Cfg) (fuel limit : Nat) (l : Loc) (x : S) :
    JDD.parseMembers cfg (fuel+1) limit l x =
      match sim_pmKey_f cfg fuel (cur x.s).1 { x with s := (cur x.s).2 } with
      | (.ok, key, x) => sim_pmRest_f cfg fuel limit l key x
      | (e, _, x) => (e, x) := by
  simp only [JDD.parseMembers, sim_pmKey_f, sim_pmRest_f, sim_pmSlot_f, sim_pmVal_f, sim_pmTail_f]
  rfl

def sim_pmTail0 (cfg : Cfg) (fuel limit : Nat) (s : St) (ms : List (List Byte × Val)) : Code × Val × St :=
  match skipSpaces cfg (fuel+1) s with
  | (.ok, s) =>
    let (c, s) := cur s
    if c == 0x7D then (.ok, .obj ms, mv s)
    else if c == 0x2C then
      match skipSpaces cfg (fuel+1) (mv s) with
      | (.ok, s) => JD.parseMembers cfg fuel limit s ms
      | (e, s) => (e, .obj ms, s)
    else (.invalid, .obj ms, s)
  | (e, s) => (e, .obj ms, s)

def sim_pmVal0 (cfg : Cfg) (fuel limit : Nat) (key : List Byte) (s : St) (ms : List (List Byte × Val)) : Code × Val × St :=
  match JD.parseVariant cfg fuel limit s with
  | (.ok, v, s) => sim_pmTail0 cfg fuel limit s (setMember ms key v)
  | (e, v, s) => (e, .obj (setMember ms key v), s)

def sim_pmRest0 (cfg : Cfg) (fuel limit : Nat) (key : List Byte) (s : St) (ms : List (List Byte × Val)) : Code × Val × St :=
  match skipSpaces cfg (fuel+1) s with
  | (.ok, s) =>
    let (c, s) := cur s
    if c != 0x3A then (.invalid, .obj ms, s) else sim_pmVal0 cfg fuel limit key (mv s) ms
  | (e, s) => (e, .obj ms, s)

def sim_pmKey0 (cfg : Cfg) (fuel : Nat) (c : Byte) (s : St) : Code × List Byte × St :=
  if c == 0x22 || c == 0x27 then parseQuoted cfg c (fuel+1) [] 0 (mv s)
  else if inUnquoted c then ((if (parseUnquoted (fuel+1) [] s).1.length > cfg.maxStrLen then .noMemory else .ok), (parseUnquoted (fuel+1) [] s).1, (parseUnquoted (fuel+1) [] s).2)
  else (.invalid, [], s)

theorem sim_parseMembers0_succ (cfg : Cfg) (fuel limit : Nat) (s : St) (ms : List (List Byte × Val)) :
    JD.parseMembers cfg (fuel+1) limit s ms =
      match sim_pmKey0 cfg fuel (cur s).1 (cur s).2 with
      | (.ok, key, s) => sim_pmRest0 cfg fuel limit key s ms
      | (e, _, s) => (e, .obj ms, s) := by
  simp only [JD.parseMembers, sim_pmKey0, sim_pmRest0, sim_pmVal0, sim_pmTail0]
  rfl

/-! ## Simulation of the pieces -/

theorem sim_pmTail (cfg : Cfg) (fuel : Nat) (hM : SimM cfg fuel) {limit : Nat} {l : Loc} {x : S} {d0 : Doc} {h t : Nat}
    {sl : Forest} {ms : List (List Byte × Val)} (P0 : Pre d0 l) (P : Post d0 x.d l (.obj h t) sl)
    (hvals : vals x.d noOv sl = ms) (h0 : x.d.overflowed = false) (hb : sim_BOK cfg x.b) :
    Sim cfg d0 l (sim_pmTail_f cfg fuel limit l x) (sim_pmTail0 cfg fuel limit x.s ms) := by
  have hP := sim_obj_post P hvals
  have hno : ∀ {e : Code}, x.d.overflowed = true → e ≠ .ok := fun h => by rw [h0] at h; cases h
  simp only [sim_pmTail_f, sim_pmTail0]
  generalize hsk : skipSpaces cfg (fuel + 1) x.s = r3
  obtain ⟨c2, s2⟩ := r3
  cases c2
  case ok =>
    simp only
    generalize hcur : cur s2 = r4
    obtain ⟨e, s3⟩ := r4
    simp only
    by_cases h7D : (e == 0x7D) = true
    · simp only [h7D, ↓reduceIte]
      exact Sim.exit rfl hb hP hno
    · simp only [h7D, ↓reduceIte]
      by_cases h2C : (e == 0x2C) = true
      · simp only [h2C, ↓reduceIte]
        generalize hsk2 : skipSpaces cfg (fuel + 1) (mv s3) = r5
        obtain ⟨c3, s4⟩ := r5
        cases c3
        case ok =>
          simp only
          exact hM limit l { s := s4, d := x.d, b := x.b } d0 _ _ _ ms P0 P hvals h0 hb
        all_goals exact Sim.exit rfl hb hP hno
      · simp only [h2C, ↓reduceIte]
        exact Sim.exit rfl hb hP hno
  all_goals exact Sim.exit rfl hb hP hno

theorem sim_pmVal (cfg : Cfg) (fuel : Nat) (hV : SimV cfg fuel) (hM : SimM cfg fuel) {limit : Nat} {l : Loc} {v : Nat} {x : S}
    {d0 : Doc} {ms : List (List Byte × Val)} {key : List Byte} (P0 : Pre d0 l) (pre : Pre x.d (.slot v))
    (h0 : x.d.overflowed = false) (hb : sim_BOK cfg x.b)
    (hfill : ∀ (d2 : Doc) (ve : VData) (se : Forest), Post x.d d2 (.slot v) ve se →
      ∃ h' t' s', Post d0 d2 l (.obj h' t') s' ∧ vals d2 noOv s' = setMember ms key (d2.valOf ve se)) :
    Sim cfg d0 l (sim_pmVal_f cfg fuel limit l v x) (sim_pmVal0 cfg fuel limit key x.s ms) := by
  have hsim := hV limit (.slot v) x pre h0 hb
  simp only [sim_pmVal_f, sim_pmVal0]
  generalize JDD.parseVariant cfg fuel limit (.slot v) x = rv at hsim
  generalize JD.parseVariant cfg fuel limit x.s = rv0 at hsim
  obtain ⟨c, x2⟩ := rv
  obtain ⟨c0, v0, s0⟩ := rv0
  rcases hsim with ⟨o2, hc, hs2, hb2, ve, se, P2, hval⟩ | ⟨o2, hc⟩
  · simp only at o2 hc hs2 hb2 P2 hval
    subst hc hs2
    obtain ⟨h', t', s', Pn, hvn⟩ := hfill x2.d ve se P2
    rw [hval] at hvn
    have hno : ∀ {e : Code}, x2.d.overflowed = true → e ≠ .ok := fun h => by rw [o2] at h; cases h
    cases c
    case ok =>
      simp only
      exact sim_pmTail cfg fuel hM P0 Pn hvn o2 hb2
    all_goals exact Sim.exit rfl hb2 (sim_obj_post Pn hvn) hno
  · simp only at o2 hc
    rcases hc with e | ⟨e1, e2, e3⟩
    · subst e
      exact Or.inr ⟨o2, Or.inl rfl⟩
    · subst e1
      cases c
      case ok => exact absurd rfl e2
      all_goals exact Or.inr ⟨o2, Or.inr ⟨rfl, e2, e3⟩⟩

/-- `object.getMember(key)`: the member found is cleared for reuse, otherwise the key is saved and a member added -/
theorem sim_pmSlot (cfg : Cfg) {l : Loc} {key : List Byte} {x : S} {d0 : Doc} {h t : Nat} {sl : Forest}
    {ms : List (List Byte × Val)} (P0 : Pre d0 l) (P : Post d0 x.d l (.obj h t) sl)
    (hvals : vals x.d noOv sl = ms) (h0 : x.d.overflowed = false) (hb : sim_BOK cfg x.b) :
    ((sim_pmSlot_f l key x).1 = none ∧ (sim_pmSlot_f l key x).2.d.overflowed = true) ∨
    (∃ v, (sim_pmSlot_f l key x).1 = some v ∧ (sim_pmSlot_f l key x).2.s = x.s ∧ Pre (sim_pmSlot_f l key x).2.d (.slot v) ∧
      (sim_pmSlot_f l key x).2.d.overflowed = false ∧ sim_BOK cfg (sim_pmSlot_f l key x).2.b ∧
      ∀ (d2 : Doc) (ve : VData) (se : Forest), Post (sim_pmSlot_f l key x).2.d d2 (.slot v) ve se →
        ∃ h' t' s', Post d0 d2 l (.obj h' t') s' ∧ vals d2 noOv s' = setMember ms key (d2.valOf ve se)) := by
  obtain ⟨fk1, fk2⟩ := sim_findKey P key
  have gokd : PL.GeoOK x.d.g := by rw [P.fr.g]; exact P0.gok
  obtain ⟨rs0, hrs0⟩ := P0.str
  have hsd := P.att.str rs0 hrs0
  unfold sim_pmSlot_f
  cases hf : x.d.findKey l key with
  | some kv =>
    obtain ⟨k, v⟩ := kv
    simp only
    obtain ⟨hv, hset⟩ := fk2 k v hf
    obtain ⟨preC, hovC, hfill⟩ := sim_obj_refill P0 P hv
    refine Or.inr ⟨v, rfl, trivial, preC, by rw [hovC]; exact h0, hb, ?_⟩
    intro d2 ve se P2
    obtain ⟨Pn, hvn⟩ := hfill d2 ve se P2
    exact ⟨_, _, _, Pn, by rw [hvn, hset, hvals]⟩
  | none =>
    simp only
    obtain ⟨s1, s2, s3, s4, s5, s6⟩ := sim_save cfg x key P.fr.pool ⟨_, hsd⟩
    generalize save x key = sv at *
    obtain ⟨node, x1⟩ := sv
    simp only at s1 s2 s3 s4 s5 s6 ⊢
    generalize hadd : addMemberNode x1.d l node = r
    obtain ⟨m, d1⟩ := r
    cases m with
    | none =>
      simp only
      exact Or.inl ⟨trivial, sim_addMemberNode_none (by rw [s2.g]; exact gokd) s2.pool hadd⟩
    | some v =>
      simp only
      obtain ⟨k, pre1, hov1, hfill⟩ := sim_obj_add P0 P s2 s3 s4 s5 hadd
      refine Or.inr ⟨v, rfl, s1, pre1, by rw [hov1]; exact h0, s6 hb, ?_⟩
      intro d2 ve se P2
      obtain ⟨Pn, hvn⟩ := hfill d2 ve se P2
      exact ⟨_, _, _, Pn, by rw [hvn, ← hvals, fk1 hf]⟩


theorem sim_pmRest (cfg : Cfg) (fuel : Nat) (hV : SimV cfg fuel) (hM : SimM cfg fuel) {limit : Nat} {l : Loc} {key : List Byte}
    {x : S} {d0 : Doc} {h t : Nat} {sl : Forest} {ms : List (List Byte × Val)} (P0 : Pre d0 l)
    (P : Post d0 x.d l (.obj h t) sl) (hvals : vals x.d noOv sl = ms) (h0 : x.d.overflowed = false) (hb : sim_BOK cfg x.b) :
    Sim cfg d0 l (sim_pmRest_f cfg fuel limit l key x) (sim_pmRest0 cfg fuel limit key x.s ms) := by
  have hP := sim_obj_post P hvals
  have hno : ∀ {e : Code}, x.d.overflowed = true → e ≠ .ok := fun h => by rw [h0] at h; cases h
  simp only [sim_pmRest_f, sim_pmRest0]
  generalize hsk : skipSpaces cfg (fuel + 1) x.s = r3
  obtain ⟨c2, s2⟩ := r3
  cases c2
  case ok =>
    simp only
    generalize hcur : cur s2 = r4
    obtain ⟨e, s3⟩ := r4
    simp only
    by_cases h3A : (e != 0x3A) = true
    · simp only [h3A, ↓reduceIte]
      exact Sim.exit rfl hb hP hno
    · simp only [h3A, ↓reduceIte]
      rcases sim_pmSlot cfg (key := key) (x := { s := mv s3, d := x.d, b := x.b }) P0 P hvals h0 hb with
        ⟨e1, e2⟩ | ⟨v, e1, e2, pre, ov, bok, fill⟩
      · generalize sim_pmSlot_f l key { s := mv s3, d := x.d, b := x.b } = q at *
        obtain ⟨m, xs⟩ := q
        simp only at e1 e2
        subst e1
        exact Or.inr ⟨e2, Or.inl rfl⟩
      · generalize sim_pmSlot_f l key { s := mv s3, d := x.d, b := x.b } = q at *
        obtain ⟨m, xs⟩ := q
        simp only at e1 e2 pre ov bok fill
        subst e1
        have := sim_pmVal cfg fuel hV hM (limit := limit) P0 pre ov bok fill
        rw [e2] at this
        exact this
  all_goals exact Sim.exit rfl hb hP hno

/-- the key token -/
theorem sim_pmKey (cfg : Cfg) (h31 : 31 ≤ cfg.maxStrLen) (fuel : Nat) (c : Byte) (x : S) (hp : PL.Inv x.d.g x.d.pl)
    (hb : sim_BOK cfg x.b) (h0 : x.d.overflowed = false) :
    (sim_pmKey_f cfg fuel c x).2.1 = (sim_pmKey0 cfg fuel c x.s).2.1 ∧ (sim_pmKey_f cfg fuel c x).2.2.s = (sim_pmKey0 cfg fuel c x.s).2.2 ∧
    Grow x.d (sim_pmKey_f cfg fuel c x).2.2.d ∧ sim_BOK cfg (sim_pmKey_f cfg fuel c x).2.2.b ∧
    ((sim_pmKey_f cfg fuel c x).2.2.d.overflowed = false → (sim_pmKey_f cfg fuel c x).1 = (sim_pmKey0 cfg fuel c x.s).1) ∧
    ((sim_pmKey_f cfg fuel c x).2.2.d.overflowed = true → (sim_pmKey_f cfg fuel c x).1 = .noMemory ∨
      ((sim_pmKey_f cfg fuel c x).1 = (sim_pmKey0 cfg fuel c x.s).1 ∧ (sim_pmKey_f cfg fuel c x).1 ≠ .ok)) := by
  unfold sim_pmKey_f sim_pmKey0
  by_cases hq : (c == 0x22 || c == 0x27) = true
  · rw [if_pos hq, if_pos hq]
    exact sim_quoted cfg (fuel + 1) c { s := mv x.s, d := x.d, b := x.b } hp hb h31 h0
  · rw [if_neg hq, if_neg hq]
    by_cases hu : inUnquoted c = true
    · rw [if_pos hu, if_pos hu]
      obtain ⟨u1, u2, u3, u4, u5, u6⟩ := sim_unquoted cfg (fuel + 1) x hp hb h31 h0
      refine ⟨u1, u2, u3, u4, fun h => ?_, fun h => Or.inl (u6 h)⟩
      have hl := sim_unquoted_len cfg (fuel + 1) x hp hb h31 h0 h
      rw [u5 h]
      show Code.ok = if _ then Code.noMemory else Code.ok
      rw [if_neg (by omega)]
    · rw [if_neg hu, if_neg hu]
      obtain ⟨a1, a2, a3, a4, a5, a6⟩ := sim_startString cfg x hp
      exact ⟨rfl, a1, a2, a4 hb h31, fun _ => rfl, fun _ => Or.inr ⟨rfl, by intro h; cases h⟩⟩

theorem sim_pm_step (cfg : Cfg) (h31 : 31 ≤ cfg.maxStrLen) (fuel : Nat) (hV : SimV cfg fuel) (hM : SimM cfg fuel) :
    SimM cfg (fuel + 1) := by
  intro limit l x d0 h t sl ms P0 P hvals h0 hb
  rw [sim_parseMembers_succ, sim_parseMembers0_succ]
  obtain ⟨k1, k2, k3, k4, k5, k6⟩ := sim_pmKey cfg h31 fuel (cur x.s).1 { s := (cur x.s).2, d := x.d, b := x.b }
    P.fr.pool hb h0
  generalize sim_pmKey_f cfg fuel (cur x.s).1 { s := (cur x.s).2, d := x.d, b := x.b } = kr at *
  generalize sim_pmKey0 cfg fuel (cur x.s).1 (cur x.s).2 = kr0 at *
  obtain ⟨kc, key, xk⟩ := kr
  obtain ⟨kc0, key0, sk0⟩ := kr0
  simp only at k1 k2 k3 k4 k5 k6
  subst k1 k2
  have hfr : Fr x.d xk.d [] := Fr.of_grow k3 (fun h => by rw [h0] at h; cases h) []
  obtain ⟨PK, hvK⟩ := P.frame P0 hfr
  have hvalsK : vals xk.d noOv sl = ms := by
    have : Val.obj (vals xk.d noOv sl) = Val.obj (vals x.d noOv sl) := hvK
    injection this with this
    rw [this, hvals]
  cases ho : xk.d.overflowed with
  | false =>
    have hc := k5 ho
    subst hc
    cases kc
    case ok =>
      simp only
      exact sim_pmRest cfg fuel hV hM P0 PK hvalsK ho k4
    all_goals exact Sim.exit rfl k4 (sim_obj_post PK hvalsK) (fun h => by rw [ho] at h; cases h)
  | true =>
    rcases k6 ho with e | ⟨e1, e2⟩
    · subst e
      exact Or.inr ⟨ho, Or.inl rfl⟩
    · subst e1
      cases kc
      case ok => exact absurd rfl e2
      all_goals exact Or.inr ⟨ho, Or.inr ⟨rfl, e2, rfl⟩⟩

/-- THE SIMULATION: for every fuel, the three slot-level routines are simulated by their abstract twins -/
theorem sim_all (cfg : Cfg) (h31 : 31 ≤ cfg.maxStrLen) : ∀ fuel, SimV cfg fuel ∧ SimE cfg fuel ∧ SimM cfg fuel := by
  intro fuel
  induction fuel with
  | zero => exact ⟨sim_pv_zero cfg, sim_pe_zero cfg, sim_pm_zero cfg⟩
  | succ n ih =>
    obtain ⟨hV, hE, hM⟩ := ih
    exact ⟨sim_pv_step cfg h31 n hE hM, sim_pe_step cfg n hV hE, sim_pm_step cfg h31 n hV hM⟩

end JDD
