/- Simulation of the slot-level deserializer `JDD` by the abstract one `JD`, part 1: the StringBuilder model
   (`startString`, `appendN`, `save`, `quoted`, `unquoted`) as steps of the local specification
   `Pre`/`Post`/`Fr` of AJ/Lemmas/DocCopy.lean. -/
import AJ.Model.JDD
import AJ.Lemmas.DocCopy
import AJ.Lemmas.DocStr
namespace JDD
open DL
open JD (Byte Val Cfg Code St parseQuoted parseHex4 parseUnquoted cur mv)

/-- capacity of the kept StringBuilder node never exceeds the maximal string length -/
def sim_BOK (cfg : Cfg) (b : Option Nat) : Prop := ∀ cap, b = some cap → cap ≤ cfg.maxStrLen

theorem sim_BOK_none (cfg : Cfg) : sim_BOK cfg none := fun _ h => by cases h

/-! ## Steps that only talk to the allocator -/

theorem sim_grow_pl {d : Doc} (hp : PL.Inv d.g d.pl) (pl' : PL.St) (o : Bool) (h1 : pl'.pools = d.pl.pools)
    (h2 : pl'.tableCap = d.pl.tableCap) (h3 : pl'.tableHeap = d.pl.tableHeap) (h4 : pl'.free = d.pl.free) :
    Grow d { d with pl := pl', overflowed := o } :=
  ⟨rfl, rfl, rfl, rfl, fun _ _ => rfl, hp.congr h1 h2 h3 h4, fun x hx => (live_congr h1 h4 x).2 hx⟩

theorem sim_pre_of_fr {d d' : Doc} {l : Loc} (P : Pre d l) (hf : Fr d d' []) : Pre d' l := by
  refine ⟨by rw [hf.g]; exact P.gok, hf.pool, ?_, ?_, ?_⟩
  · cases l with
    | root => show d'.root = .null; rw [hf.root (by simp)]; exact P.null
    | slot i => rw [get_of_cell (hf.cells i (P.slot i rfl).1 (by simp))]; exact P.null
  · intro i e
    have hc := hf.cells i (P.slot i e).1 (by simp)
    exact ⟨hf.live i (P.slot i e).1, isVar_congr hc hf.null (P.slot i e).2⟩
  · obtain ⟨rs, hs⟩ := P.str
    exact ⟨rs, hf.strok rs hs⟩

/-! ## Equations of the builder -/

theorem sim_startString_some {x : S} {c : Nat} (hb : x.b = some c) : startString x = x := by
  unfold startString; rw [hb]

theorem sim_startString_none {x : S} (hb : x.b = none) : startString x =
    if (x.d.pl.alloc (31 + x.d.strOverhead)).1 then
      { x with d := { x.d with pl := (x.d.pl.alloc (31 + x.d.strOverhead)).2 }, b := some 31 }
    else { x with d := { x.d with pl := (x.d.pl.alloc (31 + x.d.strOverhead)).2, overflowed := true } } := by
  unfold startString; rw [hb]

theorem sim_appendN_none (m k size : Nat) {x : S} (hb : x.b = none) : appendN m k size x = x := by
  cases k with
  | zero => rfl
  | succ k => unfold appendN; rw [hb]

theorem sim_appendN_succ (m k size : Nat) {x : S} {cap : Nat} (hb : x.b = some cap) : appendN m (k+1) size x =
      if size == cap then
        if size * 2 + 1 > m then
          appendN m k size { x with d := { x.d with pl := x.d.pl.dealloc, overflowed := true }, b := none }
        else
          if (x.d.pl.realloc (size * 2 + 1 + x.d.strOverhead) true).1 then
            appendN m k (size + 1) { x with d := { x.d with pl := (x.d.pl.realloc (size * 2 + 1 + x.d.strOverhead) true).2 }, b := some (size * 2 + 1) }
          else appendN m k size { x with d := { x.d with pl := (x.d.pl.realloc (size * 2 + 1 + x.d.strOverhead) true).2.dealloc, overflowed := true }, b := none }
      else appendN m k (size + 1) x := by
  rw [appendN]; rw [hb]

/-- `startString` -/
theorem sim_startString (cfg : Cfg) (x : S) (hp : PL.Inv x.d.g x.d.pl) :
    (startString x).s = x.s ∧ Grow x.d (startString x).d ∧
    (x.d.overflowed = true → (startString x).d.overflowed = true) ∧
    (sim_BOK cfg x.b → 31 ≤ cfg.maxStrLen → sim_BOK cfg (startString x).b) ∧
    ((startString x).b = none → (startString x).d.overflowed = true) ∧
    (x.d.overflowed = false → (startString x).d.overflowed = true → (startString x).b = none) := by
  cases hb : x.b with
  | some c =>
    rw [sim_startString_some hb]
    exact ⟨rfl, Grow.refl hp, fun h => h, fun h _ => (by rw [hb]; exact h), fun h => (by rw [hb] at h; cases h),
      fun h0 h1 => (by rw [h0] at h1; cases h1)⟩
  | none =>
    rw [sim_startString_none hb]
    cases hok : (x.d.pl.alloc (31 + x.d.strOverhead)).1 with
    | true =>
      rw [if_pos rfl]
      refine ⟨rfl, sim_grow_pl hp _ x.d.overflowed rfl rfl rfl rfl, fun h => h, ?_, fun h => (by cases h),
        fun h0 h1 => (by rw [h0] at h1; cases h1)⟩
      intro _ h31 cap hc
      simp only [Option.some.injEq] at hc
      omega
    | false =>
      rw [if_neg (by simp)]
      exact ⟨rfl, sim_grow_pl hp _ true rfl rfl rfl rfl, fun _ => rfl,
        fun _ _ => (by intro c hc; rw [hb] at hc; cases hc), fun _ => rfl, fun _ _ => hb⟩

/-- `appendN` -/
theorem sim_appendN (maxLen : Nat) : ∀ (k size : Nat) (x : S), PL.Inv x.d.g x.d.pl →
    (∀ cap, x.b = some cap → size ≤ cap ∧ cap ≤ maxLen) →
    (appendN maxLen k size x).s = x.s ∧ Grow x.d (appendN maxLen k size x).d ∧
    (x.d.overflowed = true → (appendN maxLen k size x).d.overflowed = true) ∧
    (∀ cap, (appendN maxLen k size x).b = some cap → size + k ≤ cap ∧ cap ≤ maxLen) ∧
    ((appendN maxLen k size x).d.overflowed = x.d.overflowed ∨
      ((appendN maxLen k size x).d.overflowed = true ∧ (appendN maxLen k size x).b = none)) ∧
    ((appendN maxLen k size x).b = none → x.b = none ∨ (appendN maxLen k size x).d.overflowed = true) := by
  intro k
  induction k with
  | zero =>
    intro size x hp hb
    show x.s = x.s ∧ Grow x.d x.d ∧ _ ∧ (∀ cap, x.b = some cap → _) ∧ (x.d.overflowed = x.d.overflowed ∨ _) ∧
      (x.b = none → _)
    exact ⟨rfl, Grow.refl hp, fun h => h, fun cap hc => (by have := hb cap hc; omega), Or.inl rfl, fun h => Or.inl h⟩
  | succ k ih =>
    intro size x hp hb
    cases hxb : x.b with
    | none =>
      rw [sim_appendN_none _ _ _ hxb]
      exact ⟨rfl, Grow.refl hp, fun h => h, fun cap hc => (by rw [hxb] at hc; cases hc), Or.inl rfl, fun _ => Or.inl rfl⟩
    | some cap0 =>
      rw [sim_appendN_succ _ _ _ hxb]
      obtain ⟨hsz, hcap⟩ := hb cap0 hxb
      by_cases hfull : (size == cap0) = true
      · rw [if_pos hfull]
        have hsc : size = cap0 := by simpa using hfull
        by_cases hbig : size * 2 + 1 > maxLen
        · rw [if_pos hbig, sim_appendN_none _ _ _ rfl]
          exact ⟨rfl, sim_grow_pl hp x.d.pl.dealloc true rfl rfl rfl rfl, fun _ => rfl, fun cap hc => (by cases hc),
            Or.inr ⟨rfl, rfl⟩, fun _ => Or.inr rfl⟩
        · rw [if_neg hbig]
          cases hok : (x.d.pl.realloc (size * 2 + 1 + x.d.strOverhead) true).1 with
          | true =>
            rw [if_pos rfl]
            have hg := sim_grow_pl hp (x.d.pl.realloc (size * 2 + 1 + x.d.strOverhead) true).2 x.d.overflowed
              rfl rfl rfl rfl
            obtain ⟨a1, a2, a3, a4, a6, a7⟩ := ih (size + 1)
              { x with d := { x.d with pl := (x.d.pl.realloc (size * 2 + 1 + x.d.strOverhead) true).2 },
                       b := some (size * 2 + 1) } hg.pool
              (fun cap hc => by simp only [Option.some.injEq] at hc; omega)
            refine ⟨a1, hg.trans a2, a3, fun cap hc => (by have := a4 cap hc; omega), a6, fun h => ?_⟩
            rcases a7 h with e | e
            · cases e
            · exact Or.inr e
          | false =>
            rw [if_neg (by simp), sim_appendN_none _ _ _ rfl]
            exact ⟨rfl, sim_grow_pl hp (x.d.pl.realloc (size * 2 + 1 + x.d.strOverhead) true).2.dealloc true
              rfl rfl rfl rfl, fun _ => rfl, fun cap hc => (by cases hc), Or.inr ⟨rfl, rfl⟩, fun _ => Or.inr rfl⟩
      · rw [if_neg hfull]
        have hne : size ≠ cap0 := by simpa using hfull
        obtain ⟨a1, a2, a3, a4, a6, a7⟩ := ih (size + 1) x hp
          (fun cap hc => by rw [hxb] at hc; simp only [Option.some.injEq] at hc; omega)
        refine ⟨a1, a2, a3, fun cap hc => (by have := a4 cap hc; omega), a6, fun h => ?_⟩
        rcases a7 h with e | e
        · rw [hxb] at e; cases e
        · exact Or.inr e


/-! ## The lexer of quoted strings reports `NoMemory` only for a string longer than the limit -/

theorem sim_hex4_code : ∀ (n acc : Nat) (s : St), (parseHex4 n acc s).1 ≠ .noMemory := by
  intro n
  induction n with
  | zero => intro acc s h; simp only [parseHex4] at h; cases h
  | succ n ih =>
    intro acc s
    simp only [parseHex4]
    generalize cur s = r
    obtain ⟨c, s1⟩ := r
    simp only
    split
    · intro h; cases h
    · split
      · intro h; cases h
      · exact ih _ _

theorem sim_pq_noMemory (cfg : Cfg) (stop : Byte) : ∀ (fuel : Nat) (acc : List Byte) (hi : Nat) (s : St),
    (parseQuoted cfg stop fuel acc hi s).1 = .noMemory →
    cfg.maxStrLen < (parseQuoted cfg stop fuel acc hi s).2.1.length := by
  intro fuel
  induction fuel with
  | zero => intro acc hi s h; simp only [parseQuoted] at h; cases h
  | succ n ih =>
    intro acc hi s
    simp only [parseQuoted]
    generalize cur s = r
    obtain ⟨c, s1⟩ := r
    simp only
    split
    · split
      · intro _; simp only [List.length_reverse]; omega
      · intro h; cases h
    · split
      · intro h; cases h
      · split
        · generalize cur (mv s1) = r2
          obtain ⟨d, s2⟩ := r2
          simp only
          split
          · intro h; cases h
          · split
            · split
              · split
                · split
                  · exact ih _ _ _
                  · split
                    · exact ih _ _ _
                    · exact ih _ _ _
                · rename_i e x s3 hne heq
                  intro h
                  have := sim_hex4_code 4 0 (mv s2)
                  rw [heq] at this
                  exact absurd h this
              · exact ih _ _ _
            · split
              · intro h; cases h
              · exact ih _ _ _
        · exact ih _ _ _

/-! ## `save` -/

/-- the document with an allocator that never fails and the string-length limit `mx` (a device to reuse the lemmas about
    `Doc.saveString`: the builder has checked the length before `save` is reached, so `save` itself has no length test) -/
def sim_nofail (d : Doc) (mx : Nat) : Doc := { d with pl := { d.pl with failAt := [], failFrom := none }, maxStrLen := mx }

theorem sim_nofail_failsAt (d : Doc) (mx n : Nat) : (sim_nofail d mx).pl.failsAt n = false := rfl

/-- `save` is `saveString` on the never-failing twin, up to the allocator state -/
theorem sim_save_eq (x : S) (bytes : List Byte) :
    ∃ d1, (sim_nofail x.d bytes.length).saveString bytes = (some (save x bytes).1, d1) ∧
      (save x bytes).2.d.strings = d1.strings ∧ (save x bytes).2.d.nextNode = d1.nextNode ∧
      (save x bytes).2.d.g = x.d.g ∧ (save x bytes).2.d.root = x.d.root ∧ (save x bytes).2.d.cells = x.d.cells ∧
      (save x bytes).2.d.overflowed = x.d.overflowed ∧
      (save x bytes).2.d.pl.pools = x.d.pl.pools ∧ (save x bytes).2.d.pl.free = x.d.pl.free ∧
      (save x bytes).2.d.pl.tableCap = x.d.pl.tableCap ∧ (save x bytes).2.d.pl.tableHeap = x.d.pl.tableHeap ∧
      (save x bytes).2.s = x.s ∧ ((save x bytes).2.b = x.b ∨ (save x bytes).2.b = none) := by
  cases hf : x.d.strings.find? (·.bytes == bytes) with
  | some n =>
    have e : save x bytes = (n.id, { x with d := { x.d with strings := (x.d.strings.map (fun y => if y.id == n.id then { y with refs := y.refs + 1 } else y)) } }) := by
      unfold save; rw [hf]
    rw [e]
    exact ⟨_, saveString_found (d := sim_nofail x.d bytes.length) hf, rfl, rfl, rfl, rfl, rfl, rfl, rfl, rfl, rfl, rfl, rfl, Or.inl rfl⟩
  | none =>
    have e : save x bytes = (x.d.nextNode, { x with d := { x.d with
        pl := (x.d.pl.realloc (bytes.length + x.d.strOverhead) false).2,
        strings := ⟨x.d.nextNode, bytes, 1⟩ :: x.d.strings, nextNode := x.d.nextNode + 1 }, b := none }) := by
      unfold save; rw [hf]
    rw [e]
    have hs := saveString_short (d := sim_nofail x.d bytes.length) hf (Nat.le_refl _)
    rw [sim_nofail_failsAt, if_neg (by simp)] at hs
    exact ⟨_, hs, rfl, rfl, rfl, rfl, rfl, rfl, rfl, rfl, rfl, rfl, rfl, Or.inr rfl⟩

/-- `StringBuilder::save`: the node returned holds the bytes, it gained one reference, nothing else changed -/
theorem sim_save (cfg : Cfg) (x : S) (bytes : List Byte) (hp : PL.Inv x.d.g x.d.pl) (hs0 : ∃ rs, StrOK x.d rs) :
    (save x bytes).2.s = x.s ∧ Fr x.d (save x bytes).2.d [] ∧ (save x bytes).2.d.strBytes (save x bytes).1 = bytes ∧
    (∀ rs, StrOK x.d rs → StrOK (save x bytes).2.d ((save x bytes).1 :: rs)) ∧
    (save x bytes).2.d.overflowed = x.d.overflowed ∧ (sim_BOK cfg x.b → sim_BOK cfg (save x bytes).2.b) := by
  obtain ⟨d1, h, e1, e2, e3, e4, e5, e6, e7, e8, e9, e10, e11, e12⟩ := sim_save_eq x bytes
  obtain ⟨rs0, hrs0⟩ := hs0
  have hN : ∀ rs, StrOK x.d rs → StrOK (sim_nofail x.d bytes.length) rs := fun rs hs => StrOK_congr (d := x.d) rfl rfl hs
  obtain ⟨_, _, _, hb, hkeep, _⟩ := saveString_spec (hN _ hrs0).ids_nodup (hN _ hrs0).ids_lt h
  have hc : ∀ j, (save x bytes).2.d.cell j = x.d.cell j := fun j => by simp only [Doc.cell, e5]
  have hstr : ∀ rs, StrOK x.d rs → StrOK (save x bytes).2.d ((save x bytes).1 :: rs) := fun rs hs =>
    StrOK_congr e1 e2 (saveString_strOK (hN rs hs) h)
  have hbytes : ∀ m, (∃ y ∈ x.d.strings, y.id = m) → (save x bytes).2.d.strBytes m = x.d.strBytes m := by
    intro m hm
    rw [strBytes_of_strings e1, hkeep m hm]
    exact strBytes_of_strings (d := x.d) (d' := sim_nofail x.d bytes.length) rfl m
  refine ⟨e11, ⟨e3, fun _ => e4, fun j _ _ => hc j, by rw [e3]; exact hp.congr e7 e9 e10 e8,
    fun j hj => by rw [e3, live_congr e7 e8]; exact hj,
    fun rs hs => ⟨StrOK_weaken (a := [(save x bytes).1]) (hstr rs hs), strBytes_of_present hbytes hs⟩,
    fun ho => by rw [e6]; exact ho⟩, by rw [strBytes_of_strings e1]; exact hb, hstr, e6, ?_⟩
  intro hb' cap hc'
  rcases e12 with e | e
  · exact hb' cap (by rw [← e]; exact hc')
  · rw [e] at hc'; cases hc'


/-! ## A string token through the builder -/

theorem sim_quoted_eq (cfg : Cfg) (fuel : Nat) (stop : Byte) (x : S) :
    quoted cfg fuel stop x =
      ((if (parseQuoted cfg stop fuel [] 0 (startString x).s).1 == .ok ||
            (parseQuoted cfg stop fuel [] 0 (startString x).s).1 == .noMemory then
          (if (appendN cfg.maxStrLen (parseQuoted cfg stop fuel [] 0 (startString x).s).2.1.length 0
                { startString x with s := (parseQuoted cfg stop fuel [] 0 (startString x).s).2.2 }).b.isSome
           then .ok else .noMemory)
        else (parseQuoted cfg stop fuel [] 0 (startString x).s).1),
       (parseQuoted cfg stop fuel [] 0 (startString x).s).2.1,
       appendN cfg.maxStrLen (parseQuoted cfg stop fuel [] 0 (startString x).s).2.1.length 0
         { startString x with s := (parseQuoted cfg stop fuel [] 0 (startString x).s).2.2 }) := rfl

theorem sim_unquoted_eq (cfg : Cfg) (fuel : Nat) (x : S) :
    unquoted cfg fuel x =
      ((if (appendN cfg.maxStrLen (parseUnquoted fuel [] (startString x).s).1.length 0
                { startString x with s := (parseUnquoted fuel [] (startString x).s).2 }).b.isSome
           then .ok else .noMemory),
       (parseUnquoted fuel [] (startString x).s).1,
       appendN cfg.maxStrLen (parseUnquoted fuel [] (startString x).s).1.length 0
         { startString x with s := (parseUnquoted fuel [] (startString x).s).2 }) := rfl

/-- what the builder does to the state while `n` bytes, lexed up to the reader state `s'`, go through it: without an
    allocation failure it keeps a node and `n` is within the limit; with one it has no node -/
theorem sim_builder (cfg : Cfg) (x : S) (s' : St) (n : Nat) (hp : PL.Inv x.d.g x.d.pl) (hb : sim_BOK cfg x.b)
    (h31 : 31 ≤ cfg.maxStrLen) (h0 : x.d.overflowed = false) :
    (appendN cfg.maxStrLen n 0 { startString x with s := s' }).s = s' ∧
    Grow x.d (appendN cfg.maxStrLen n 0 { startString x with s := s' }).d ∧
    sim_BOK cfg (appendN cfg.maxStrLen n 0 { startString x with s := s' }).b ∧
    ((appendN cfg.maxStrLen n 0 { startString x with s := s' }).d.overflowed = false →
      (appendN cfg.maxStrLen n 0 { startString x with s := s' }).b.isSome = true ∧ n ≤ cfg.maxStrLen) ∧
    ((appendN cfg.maxStrLen n 0 { startString x with s := s' }).d.overflowed = true →
      (appendN cfg.maxStrLen n 0 { startString x with s := s' }).b = none) := by
  obtain ⟨_, g1, o1, b1, n1, l1⟩ := sim_startString cfg x hp
  have hb1 := b1 hb h31
  obtain ⟨a1, a2, a3, a4, a6, a7⟩ := sim_appendN cfg.maxStrLen n 0 { startString x with s := s' } g1.pool
    (fun cap hc => ⟨Nat.zero_le _, hb1 cap hc⟩)
  have a5 : (startString x).b = none → appendN cfg.maxStrLen n 0 { startString x with s := s' } =
      { startString x with s := s' } := fun h => sim_appendN_none _ _ _ h
  refine ⟨a1, g1.trans a2, fun cap hc => (a4 cap hc).2, ?_, ?_⟩
  · intro hy
    cases hyb : (appendN cfg.maxStrLen n 0 { startString x with s := s' }).b with
    | some cap => exact ⟨rfl, by have := a4 cap hyb; omega⟩
    | none =>
      exfalso
      rcases a7 hyb with e | e
      · have h1 : (startString x).d.overflowed = true := n1 e
        have h2 := a3 h1
        rw [hy] at h2; cases h2
      · rw [hy] at e; cases e
  · intro hy
    rcases a6 with e | ⟨_, e⟩
    · rw [hy] at e
      have hs1 : (startString x).d.overflowed = true := e.symm
      have hsb := l1 h0 hs1
      rw [a5 hsb]; exact hsb
    · exact e

/-- a quoted string token: lexing as `JD.parseQuoted`, same bytes, same reader; without an allocation failure the same
    code, with one `NoMemory` unless the lexer reported an error of its own -/
theorem sim_quoted (cfg : Cfg) (fuel : Nat) (stop : Byte) (x : S) (hp : PL.Inv x.d.g x.d.pl) (hb : sim_BOK cfg x.b)
    (h31 : 31 ≤ cfg.maxStrLen) (h0 : x.d.overflowed = false) :
    (quoted cfg fuel stop x).2.1 = (parseQuoted cfg stop fuel [] 0 x.s).2.1 ∧
    (quoted cfg fuel stop x).2.2.s = (parseQuoted cfg stop fuel [] 0 x.s).2.2 ∧
    Grow x.d (quoted cfg fuel stop x).2.2.d ∧ sim_BOK cfg (quoted cfg fuel stop x).2.2.b ∧
    ((quoted cfg fuel stop x).2.2.d.overflowed = false →
      (quoted cfg fuel stop x).1 = (parseQuoted cfg stop fuel [] 0 x.s).1) ∧
    ((quoted cfg fuel stop x).2.2.d.overflowed = true →
      (quoted cfg fuel stop x).1 = .noMemory ∨
        ((quoted cfg fuel stop x).1 = (parseQuoted cfg stop fuel [] 0 x.s).1 ∧ (quoted cfg fuel stop x).1 ≠ .ok)) := by
  have hs : (startString x).s = x.s := (sim_startString cfg x hp).1
  rw [sim_quoted_eq, hs]
  obtain ⟨c1, c2, c3, c4, c5⟩ := sim_builder cfg x (parseQuoted cfg stop fuel [] 0 x.s).2.2
    (parseQuoted cfg stop fuel [] 0 x.s).2.1.length hp hb h31 h0
  have hnm := sim_pq_noMemory cfg stop fuel [] 0 x.s
  generalize parseQuoted cfg stop fuel [] 0 x.s = r at *
  obtain ⟨c, bytes, s'⟩ := r
  simp only at c1 c2 c3 c4 c5 hnm ⊢
  generalize appendN cfg.maxStrLen bytes.length 0 { startString x with s := s' } = y at *
  refine ⟨trivial, c1, c2, c3, ?_, ?_⟩
  · intro hy
    obtain ⟨hsome, hlen⟩ := c4 hy
    rw [hsome]
    cases c <;> first | rfl | (exfalso; have := hnm rfl; omega)
  · intro hy
    have hnone := c5 hy
    rw [hnone]
    cases c <;> first | exact Or.inl rfl | exact Or.inr ⟨rfl, by intro h; cases h⟩

/-- an unquoted key token -/
theorem sim_unquoted (cfg : Cfg) (fuel : Nat) (x : S) (hp : PL.Inv x.d.g x.d.pl) (hb : sim_BOK cfg x.b)
    (h31 : 31 ≤ cfg.maxStrLen) (h0 : x.d.overflowed = false) :
    (unquoted cfg fuel x).2.1 = (parseUnquoted fuel [] x.s).1 ∧
    (unquoted cfg fuel x).2.2.s = (parseUnquoted fuel [] x.s).2 ∧
    Grow x.d (unquoted cfg fuel x).2.2.d ∧ sim_BOK cfg (unquoted cfg fuel x).2.2.b ∧
    ((unquoted cfg fuel x).2.2.d.overflowed = false → (unquoted cfg fuel x).1 = .ok) ∧
    ((unquoted cfg fuel x).2.2.d.overflowed = true → (unquoted cfg fuel x).1 = .noMemory) := by
  have hs : (startString x).s = x.s := (sim_startString cfg x hp).1
  rw [sim_unquoted_eq, hs]
  obtain ⟨c1, c2, c3, c4, c5⟩ := sim_builder cfg x (parseUnquoted fuel [] x.s).2
    (parseUnquoted fuel [] x.s).1.length hp hb h31 h0
  generalize appendN cfg.maxStrLen (parseUnquoted fuel [] x.s).1.length 0
    { startString x with s := (parseUnquoted fuel [] x.s).2 } = y at *
  refine ⟨rfl, c1, c2, c3, ?_, ?_⟩
  · intro hy; simp only [(c4 hy).1, if_true]
  · intro hy; simp only [c5 hy, Option.isSome_none, Bool.false_eq_true, if_false]

/-- without an allocation failure the unquoted key is within the length limit (the builder kept its node) -/
theorem sim_unquoted_len (cfg : Cfg) (fuel : Nat) (x : S) (hp : PL.Inv x.d.g x.d.pl) (hb : sim_BOK cfg x.b)
    (h31 : 31 ≤ cfg.maxStrLen) (h0 : x.d.overflowed = false)
    (hy : (unquoted cfg fuel x).2.2.d.overflowed = false) : (parseUnquoted fuel [] x.s).1.length ≤ cfg.maxStrLen := by
  have hs : (startString x).s = x.s := (sim_startString cfg x hp).1
  rw [sim_unquoted_eq, hs] at hy
  exact ((sim_builder cfg x (parseUnquoted fuel [] x.s).2 (parseUnquoted fuel [] x.s).1.length hp hb h31 h0).2.2.2.1 hy).2

end JDD
