/- Simulation of the slot-level deserializer `JDD` by the abstract one `JD`, part 3: a duplicate key. The value slot of
   the member found is cleared (`VariantData::clear`: its subtree, extension slots and string references are given back) and
   filled again; in the local specification `Post` of the object being built, the layout below the slot is replaced. -/
import AJ.Lemmas.JddSimDoc
namespace JDD
open DL
open JD (Byte Val Cfg Code St)

/-- clearing the value in slot `v`, laid out as `sv`, with `K` the string references that must survive -/
theorem sim_clear_slot {d : Doc} {L : List Nat} {v : Nat} {sv : Forest} {K : List Nat}
    (hp : PL.Inv d.g d.pl) (H : ExtH d L) (hvL : v ∈ L) (hsL : ∀ j ∈ sv.ids, j ∈ L)
    (hvok : VOK d (d.get (.slot v)) sv) (hnd : sv.ids.Nodup) (hvs : v ∉ sv.ids)
    (hlive : ∀ x, Terr d (v :: sv.ids) x → PL.live d.g d.pl x)
    (hfu : sv.ids.length < d.fuel)
    (hs : StrOK d (strOfV (d.get (.slot v)) ++ (goneF d sv ++ K))) :
    ∃ dm, d.clearV (.slot v) = dm.set (.slot v) .null ∧ Eff d dm (extOfV (d.get (.slot v)) ++ fpF d sv) K ∧
      v ∉ extOfV (d.get (.slot v)) ++ fpF d sv ∧
      (∀ x ∈ extOfV (d.get (.slot v)) ++ fpF d sv, Terr d (v :: sv.ids) x) := by
  obtain ⟨hX, hXt⟩ := fpF_terr_nodup H sv hsL hnd
  obtain ⟨hndp, hterr⟩ := slot_piece (i := v) H hX hXt hvL hsL hvs
  obtain ⟨hnd1, _, hdisj⟩ := List.nodup_append.1 hndp
  obtain ⟨dm, hdm, he⟩ := PV_of_PC (PCs_all sv) (f := d.fuel) (d := d) (l := .slot v) (keep := K) hvok
    (Nat.lt_of_le_of_lt sv.depth_le hfu) (Nat.le_of_lt hfu) hp
    (fun x hx => hlive x (hterr x (List.mem_append_left _ hx))) hnd1 hs
  exact ⟨dm, hdm, he, fun m => hdisj v m v (by simp) rfl, fun x hx => hterr x (List.mem_append_left _ hx)⟩

/-- the extension-slot discipline of what was built, in the form used by the clearing lemmas -/
theorem sim_extH {d0 d : Doc} {l : Loc} {v : VData} {s : Forest} (A : Att d0 d l v s) : ExtH d s.ids := by
  constructor
  · intro j hj e he hm
    obtain ⟨⟨p, hp⟩, _, _⟩ := A.ext (.slot j) (List.mem_cons_of_mem _ (List.mem_map_of_mem hj)) e he
    exact ext_ne_var hp (A.isVar e hm) rfl
  · intro j hj j' hj' e he he'
    have := (A.ext (.slot j) (List.mem_cons_of_mem _ (List.mem_map_of_mem hj)) e he).2.2 (.slot j')
      (List.mem_cons_of_mem _ (List.mem_map_of_mem hj')) he'
    cases this; rfl

theorem sim_perm_of_mem {l1 l2 : List Nat} (h1 : l1.Nodup) (h2 : l2.Nodup) (h : ∀ x, x ∈ l1 ↔ x ∈ l2) : List.Perm l1 l2 :=
  (List.perm_ext_iff_of_nodup h1 h2).2 h

set_option maxRecDepth 4000 in
/-- DUPLICATE KEY. The member value slot `v` of the object being built at `l` is cleared: it is a cleared place again, and
    whatever is then built in it replaces the old value in the abstract member list, the layout below `v` being replaced. -/
theorem sim_obj_refill {d0 d : Doc} {l : Loc} {h t v : Nat} {sl : Forest}
    (P0 : Pre d0 l) (P : Post d0 d l (.obj h t) sl) (hv : v ∈ sl.locs) :
    Pre (d.clearV (.slot v)) (.slot v) ∧ (d.clearV (.slot v)).overflowed = d.overflowed ∧
    ∀ (d2 : Doc) (ve : VData) (se : Forest), Post (d.clearV (.slot v)) d2 (.slot v) ve se →
      Post d0 d2 l (.obj h t) (sl.replaceSub v se) ∧
      vals d2 noOv (sl.replaceSub v se) = vals d (ov1 v (d2.valOf ve se)) sl := by
  have gokd : PL.GeoOK d.g := by rw [P.fr.g]; exact P0.gok
  obtain ⟨rs0, hrs0⟩ := P0.str
  obtain ⟨hlk, ht⟩ := (VOK_obj _ _ _ _).1 P.att.vok
  have hndl := P.att.nodup
  obtain ⟨hvar, hvn, hvok⟩ := Forest.Lk_subOf sl hlk hndl hv
  have hvids : v ∈ sl.ids := sl.locs_sub_ids v hv
  have hsvsub : ∀ x ∈ (sl.subOf v).ids, x ∈ sl.ids := sl.subOf_ids_sub v
  have hvs : v ∉ (sl.subOf v).ids := Forest.self_notin_subOf sl v hndl
  have hsvnd : (sl.subOf v).ids.Nodup := layoutAt_nodup (F := sl) hndl (l := .slot v) hv
  have H : ExtH d sl.ids := sim_extH P.att
  have hVS : ∀ j ∈ v :: (sl.subOf v).ids, j ∈ sl.ids := by
    intro j hj
    rcases List.mem_cons.1 hj with e | m
    · exact e ▸ hvids
    · exact hsvsub j m
  have hmemH : ∀ j ∈ sl.ids, Loc.slot j ∈ l :: sl.ids.map Loc.slot := fun j hj =>
    List.mem_cons_of_mem _ (List.mem_map_of_mem hj)
  have hlive : ∀ x, Terr d (v :: (sl.subOf v).ids) x → PL.live d.g d.pl x := by
    rintro x (m | ⟨j, hj, he⟩)
    · exact (P.att.fresh x (hVS x m)).2
    · exact (P.att.ext (.slot j) (hmemH j (hVS j hj)) x he).2.1
  have hterr0 : ∀ x, Terr d (v :: (sl.subOf v).ids) x → ¬ PL.live d0.g d0.pl x := by
    rintro x (m | ⟨j, hj, he⟩)
    · exact (P.att.fresh x (hVS x m)).1
    · exact P.att.extfresh (.slot j) (hmemH j (hVS j hj)) x he
  have hfu : (sl.subOf v).ids.length < d.fuel :=
    Nat.lt_of_le_of_lt (List.Nodup.length_le_of_subset hsvnd (fun x hx => hsvsub x hx)) P.ids_lt_fuel
  -- the survivors of the chain
  have hR : ∀ x, x ∈ (sl.replaceSub v .nil).ids ↔ x ∈ sl.ids ∧ x ∉ (sl.subOf v).ids := by
    intro x; rw [Forest.mem_ids_replaceSub sl v .nil hndl hv]; simp [Forest.ids]
  have hRnd : (sl.replaceSub v .nil).ids.Nodup :=
    Forest.nodup_replaceSub sl v .nil hndl hv List.nodup_nil (fun x hx => by cases hx)
  have hvR : v ∈ (sl.replaceSub v .nil).ids := (hR v).2 ⟨hvids, hvs⟩
  generalize hRdef : (sl.replaceSub v .nil).ids = R at hR hRnd hvR
  have hsplit : List.Perm sl.ids ((sl.subOf v).ids ++ R) := by
    refine sim_perm_of_mem hndl (List.nodup_append.2 ⟨hsvnd, hRnd, ?_⟩) ?_
    · intro a ha b hb e; subst e; exact ((hR a).1 hb).2 ha
    · intro x
      simp only [List.mem_append, hR]
      constructor
      · intro hx
        by_cases hs : x ∈ (sl.subOf v).ids
        · exact Or.inl hs
        · exact Or.inr ⟨hx, hs⟩
      · rintro (hs | ⟨hx, _⟩)
        · exact hsvsub x hs
        · exact hx
  let Kv : List Nat := R.flatMap (fun j => if j = v then [] else strOfV (d.get (.slot j)))
  have hgone : List.Perm (goneF d sl) (strOfV (d.get (.slot v)) ++ (goneF d (sl.subOf v) ++ Kv)) := by
    have h1 := hsplit.flatMap_right (fun j => strOfV (d.get (.slot j)))
    rw [List.flatMap_append] at h1
    have h2 := flatMap_split (fun j => strOfV (d.get (.slot j))) v R hRnd hvR
    refine h1.trans (((List.Perm.refl _).append h2).trans ?_)
    show List.Perm (goneF d (sl.subOf v) ++ (strOfV (d.get (.slot v)) ++ Kv)) _
    rw [← List.append_assoc, ← List.append_assoc]
    exact List.Perm.append_right _ List.perm_append_comm
  have hS : ∀ rs, StrOK d0 rs → StrOK d (strOfV (d.get (.slot v)) ++ (goneF d (sl.subOf v) ++ (Kv ++ rs))) := by
    intro rs hs
    have h1 := P.att.str rs hs
    have : strOfV (VData.obj h t) = [] := rfl
    rw [this, List.nil_append] at h1
    refine StrOK_perm ?_ h1
    simpa only [List.append_assoc] using hgone.append_right rs
  -- structural facts of the clearing
  obtain ⟨dm0, hdm0, he0, hvfp, hfpT⟩ := sim_clear_slot (K := Kv ++ rs0) P.fr.pool H hvids hsvsub hvok hsvnd hvs
    hlive hfu (hS rs0 hrs0)
  generalize hfpdef : extOfV (d.get (.slot v)) ++ fpF d (sl.subOf v) = fp at he0 hvfp hfpT
  have hstrC : ∀ rs, StrOK d0 rs → StrOK (d.clearV (.slot v)) (Kv ++ rs) ∧
      ∀ n ∈ Kv ++ rs, (d.clearV (.slot v)).strBytes n = d.strBytes n := by
    intro rs hs
    obtain ⟨dm, hdm, he, _, _⟩ := sim_clear_slot (K := Kv ++ rs) P.fr.pool H hvids hsvsub hvok hsvnd hvs
      hlive hfu (hS rs hs)
    rw [hdm]
    exact ⟨StrOK_congr (set_strings _ _ _) (set_nextNode _ _ _) he.str,
      fun n hn => by rw [strBytes_set]; exact he.bytes n hn⟩
  have hovC : (d.clearV (.slot v)).overflowed = d.overflowed := clearV_overflowed d (.slot v)
  generalize d.clearV (.slot v) = dc at *
  have hgC : dc.g = d.g := by rw [hdm0, set_g, he0.g]
  have hnC : dc.null = d.null := by simp only [Doc.null, hgC]
  have hrootC : dc.root = d.root := by rw [hdm0, root_set_slot, he0.root]
  have hcellC : ∀ j, j ∉ fp → j ≠ v → dc.cell j = d.cell j := by
    intro j hj hjv
    rw [hdm0, cell_set_ne (fun e => hjv (by injection e)), he0.cells j hj]
  have hcvC : dc.cell v = .var .null (d.nextOf v) := by
    rw [hdm0, cell_set_slot, if_pos rfl, nextOf_of_cell (he0.cells v hvfp) he0.null]
  have hpoolC : PL.Inv dc.g dc.pl := by rw [hdm0, set_pl, set_g]; exact he0.pool
  have hliveC : ∀ x, PL.live dc.g dc.pl x ↔ PL.live d.g d.pl x ∧ x ∉ fp := by
    intro x; rw [hdm0, set_pl, set_g]; exact he0.live x
  have hfp0 : ∀ x ∈ fp, ¬ PL.live d0.g d0.pl x := fun x hx => hterr0 x (hfpT x hx)
  have hvlive : PL.live d.g d.pl v := (P.att.fresh v hvids).2
  have hvliveC : PL.live dc.g dc.pl v := (hliveC v).2 ⟨hvlive, hvfp⟩
  -- slots of the chain outside the cleared subtree are not in the footprint
  have hout_fp : ∀ j ∈ sl.ids, j ∉ (sl.subOf v).ids → j ∉ fp := by
    intro j hj hjs m
    rcases hfpT j m with m' | ⟨j', hj', he⟩
    · rcases List.mem_cons.1 m' with e | m''
      · exact hvfp (e ▸ m)
      · exact hjs m''
    · exact H.notid j' (hVS j' hj') j he hj
  -- extension slots of holders outside the cleared subtree
  have hext_out : ∀ j ∈ sl.ids, j ≠ v → j ∉ (sl.subOf v).ids → ∀ e ∈ extOfV (d.get (.slot j)),
      PL.live d.g d.pl e ∧ e ∉ fp ∧ e ≠ v := by
    intro j hj hjv hjs e he
    refine ⟨(P.att.ext (.slot j) (hmemH j hj) e he).2.1, ?_, fun e' => H.notid j hj e he (e' ▸ hvids)⟩
    intro m
    rcases hfpT e m with m' | ⟨j', hj', he'⟩
    · exact H.notid j hj e he (hVS e m')
    · have := H.uniq j hj j' (hVS j' hj') e he he'
      subst this
      rcases List.mem_cons.1 hj' with e' | m''
      · exact hjv e'
      · exact hjs m''
  have preC : Pre dc (.slot v) :=
    ⟨by rw [hgC]; exact gokd, hpoolC, get_of_var hcvC, fun i e => by cases e; exact ⟨hvliveC, isVar_of_var hcvC⟩,
      ⟨_, (hstrC rs0 hrs0).1⟩⟩
  refine ⟨preC, hovC, ?_⟩
  intro d2 ve se P2
  have hn2 : d2.null = d.null := by rw [P2.fr.null, hnC]
  have hc2 : ∀ x, PL.live dc.g dc.pl x → x ≠ v → d2.cell x = dc.cell x := fun x hx hxv =>
    P2.fr.cells x hx (by simp only [List.mem_singleton, Loc.slot.injEq]; exact hxv)
  have hcell_old : ∀ x, PL.live d.g d.pl x → x ∉ fp → x ≠ v → d2.cell x = d.cell x := fun x hx hxf hxv => by
    rw [hc2 x ((hliveC x).2 ⟨hx, hxf⟩) hxv, hcellC x hxf hxv]
  have hlive_old : ∀ x, PL.live d.g d.pl x → x ∉ fp → PL.live d2.g d2.pl x := fun x hx hxf =>
    P2.fr.live x ((hliveC x).2 ⟨hx, hxf⟩)
  have hcv2 : d2.cell v = .var ve (d.nextOf v) := by rw [P2.att.slot v rfl, nextOf_of_var hcvC]
  have hsC0 := (hstrC rs0 hrs0).1
  have hbytes_old : ∀ n ∈ Kv, d2.strBytes n = d.strBytes n := fun n hn => by
    rw [P2.fr.bytes hsC0 (List.mem_append_left _ hn), (hstrC rs0 hrs0).2 n (List.mem_append_left _ hn)]
  have hKv : ∀ j ∈ sl.ids, j ≠ v → j ∉ (sl.subOf v).ids → ∀ n ∈ strOfV (d.get (.slot j)), n ∈ Kv := by
    intro j hj hjv hjs n hn
    simp only [Kv, List.mem_flatMap]
    exact ⟨j, (hR j).2 ⟨hj, hjs⟩, by rw [if_neg hjv]; exact hn⟩
  have hgood : ∀ j ∈ sl.ids, j ≠ v → j ∉ (sl.subOf v).ids → Good d d2 j := by
    intro j hj hjv hjs
    refine ⟨hcell_old j (P.att.fresh j hj).2 (hout_fp j hj hjs) hjv, ?_⟩
    refine scalar_congr (fun n hn => hbytes_old n (hKv j hj hjv hjs n hn)) (fun e he => ?_)
    obtain ⟨a, b, c⟩ := hext_out j hj hjv hjs e he
    exact hcell_old e a b c
  obtain ⟨hlk2, hvals⟩ := ctx hn2 hcv2 P2.att.vok sl hlk hndl hv hgood
  refine ⟨?_, hvals⟩
  have hll : ∀ i, l = .slot i → PL.live d0.g d0.pl i := fun i e => (P0.slot i e).1
  have hlcell : ∀ i, l = .slot i → d2.cell i = d.cell i := by
    intro i e
    have hi0 := hll i e
    exact hcell_old i (P.fr.live i hi0) (fun m => hfp0 i m hi0) (fun e' => (P.att.fresh v hvids).1 (e' ▸ hi0))
  -- slots of the new layout
  have hmem2 : ∀ x, x ∈ (sl.replaceSub v se).ids ↔ x ∈ R ∨ x ∈ se.ids := by
    intro x; rw [Forest.mem_ids_replaceSub sl v se hndl hv, hR]
  have hget_old : ∀ j ∈ R, j ≠ v → d2.get (.slot j) = d.get (.slot j) := fun j hj hjv =>
    get_of_cell (hgood j ((hR j).1 hj).1 hjv ((hR j).1 hj).2).1
  have hse_notlive : ∀ x ∈ se.ids, ¬ PL.live dc.g dc.pl x := fun x hx => (P2.att.fresh x hx).1
  have hfresh_se : ∀ x ∈ se.ids, x ∈ sl.ids → x ∈ (sl.subOf v).ids := by
    intro x hx hxs
    by_cases hm : x ∈ (sl.subOf v).ids
    · exact hm
    · exact absurd ((hliveC x).2 ⟨(P.att.fresh x hxs).2, hout_fp x hxs hm⟩) (hse_notlive x hx)
  have hnd2 : (sl.replaceSub v se).ids.Nodup := Forest.nodup_replaceSub sl v se hndl hv P2.att.nodup hfresh_se
  have hRse : ∀ a ∈ R, a ∉ se.ids := by
    intro a ha m
    exact ((hR a).1 ha).2 (hfresh_se a m ((hR a).1 ha).1)
  -- classification of the holders of the new layout
  have hclass : ∀ l' ∈ l :: (sl.replaceSub v se).ids.map Loc.slot,
      l' = l ∨ (∃ j ∈ R, j ≠ v ∧ l' = .slot j) ∨ l' ∈ Loc.slot v :: se.ids.map Loc.slot := by
    intro l' hl'
    rcases List.mem_cons.1 hl' with e | m
    · exact Or.inl e
    · obtain ⟨j, hj, e⟩ := List.mem_map.1 m
      subst e
      rcases (hmem2 j).1 hj with hjR | hjs
      · by_cases hjv : j = v
        · subst hjv; exact Or.inr (Or.inr List.mem_cons_self)
        · exact Or.inr (Or.inl ⟨j, hjR, hjv, rfl⟩)
      · exact Or.inr (Or.inr (List.mem_cons_of_mem _ (List.mem_map_of_mem hjs)))
  have hgetl : d2.get l = .obj h t := by
    cases l with
    | root =>
      show d2.root = _
      rw [P2.fr.root (by simp), hrootC]; exact P.att.get
    | slot i => rw [get_of_cell (hlcell i rfl)]; exact P.att.get
  have hold_ext : ∀ j ∈ R, j ≠ v → ∀ e ∈ extOfV (d.get (.slot j)),
      (∃ p, d2.cell e = .ext p) ∧ PL.live d2.g d2.pl e ∧ PL.live dc.g dc.pl e := by
    intro j hj hjv e he
    obtain ⟨a, b, c⟩ := hext_out j ((hR j).1 hj).1 hjv ((hR j).1 hj).2 e he
    obtain ⟨⟨p, hp⟩, _, _⟩ := P.att.ext (.slot j) (hmemH j ((hR j).1 hj).1) e he
    exact ⟨⟨p, by rw [hcell_old e a b c, hp]⟩, hlive_old e a b, (hliveC e).2 ⟨a, b⟩⟩
  constructor
  · -- frame
    refine ⟨by rw [P2.fr.g, hgC, P.fr.g], ?_, ?_, P2.fr.pool, ?_, ?_, ?_⟩
    · intro hr
      rw [P2.fr.root (by simp), hrootC, P.fr.root hr]
    · intro x hx hxl
      have hxl' : Loc.slot x ≠ l := fun e => hxl (List.mem_singleton.2 e)
      rw [hcell_old x (P.fr.live x hx) (fun m => hfp0 x m hx) (fun e' => (P.att.fresh v hvids).1 (e' ▸ hx)),
        P.fr.cells x hx hxl]
    · intro x hx
      exact hlive_old x (P.fr.live x hx) (fun m => hfp0 x m hx)
    · intro rs hs
      obtain ⟨a1, b1⟩ := P.fr.strs rs hs
      obtain ⟨a2, b2⟩ := hstrC rs hs
      obtain ⟨a3, b3⟩ := P2.fr.strs rs (StrOK_weaken a2)
      exact ⟨a3, fun m hm => by rw [b3 m hm, b2 m (List.mem_append_right _ hm), b1 m hm]⟩
    · intro ho
      exact P2.fr.ov (by rw [hovC]; exact P.fr.ov ho)
  · refine ⟨?_, hgetl, ?_, ?_, hnd2, ?_, ?_, ?_⟩
    · -- string table
      intro rs hs
      have h1 := P2.att.str (Kv ++ rs) (hstrC rs hs).1
      have : strOfV (VData.obj h t) = [] := rfl
      rw [this, List.nil_append]
      have hp2 : List.Perm (sl.replaceSub v se).ids (R ++ se.ids) := by
        refine sim_perm_of_mem hnd2 (List.nodup_append.2 ⟨hRnd, P2.att.nodup, ?_⟩) ?_
        · intro a ha b hb e; subst e; exact hRse a ha hb
        · intro x; rw [hmem2, List.mem_append]
      have h2 := hp2.flatMap_right (fun j => strOfV (d2.get (.slot j)))
      rw [List.flatMap_append] at h2
      have h3 := flatMap_split (fun j => strOfV (d2.get (.slot j))) v R hRnd hvR
      have h4 : R.flatMap (fun j => if j = v then [] else strOfV (d2.get (.slot j))) = Kv := by
        apply flatMap_congr'
        intro j hj
        by_cases hjv : j = v
        · rw [if_pos hjv, if_pos hjv]
        · rw [if_neg hjv, if_neg hjv, hget_old j hj hjv]
      rw [h4, get_of_var hcv2] at h3
      refine StrOK_perm ?_ h1
      refine List.Perm.symm ?_
      show List.Perm (goneF d2 (sl.replaceSub v se) ++ rs) _
      refine ((h2.trans (h3.append_right _)).append_right rs).trans ?_
      show List.Perm (((strOfV ve ++ Kv) ++ goneF d2 se) ++ rs) ((strOfV ve ++ goneF d2 se) ++ (Kv ++ rs))
      simp only [List.append_assoc]
      exact List.Perm.append_left _ (List.perm_append_comm_assoc _ _ _)
    · intro i e
      rw [hlcell i e]; exact P.att.slot i e
    · rw [VOK_obj]
      exact ⟨hlk2, by rw [Forest.top_replaceSub, hn2]; exact ht⟩
    · -- freshness
      intro x hx
      rcases (hmem2 x).1 hx with hxR | hxs
      · obtain ⟨hxl, hxo⟩ := (hR x).1 hxR
        exact ⟨(P.att.fresh x hxl).1, hlive_old x (P.att.fresh x hxl).2 (hout_fp x hxl hxo)⟩
      · refine ⟨fun h0 => ?_, (P2.att.fresh x hxs).2⟩
        exact hse_notlive x hxs ((hliveC x).2 ⟨P.fr.live x h0, fun m => hfp0 x m h0⟩)
    · -- extension slots
      intro l' hl' e he
      rcases hclass l' hl' with e' | ⟨j, hj, hjv, e'⟩ | hnew
      · subst e'; rw [hgetl] at he; cases he
      · subst e'
        rw [hget_old j hj hjv] at he
        obtain ⟨a, b, c⟩ := hold_ext j hj hjv e he
        refine ⟨a, b, ?_⟩
        intro l2 hl2 he2
        rcases hclass l2 hl2 with e2 | ⟨j2, hj2, hjv2, e2⟩ | hnew2
        · subst e2; rw [hgetl] at he2; cases he2
        · subst e2
          rw [hget_old j2 hj2 hjv2] at he2
          exact (P.att.ext (.slot j) (hmemH j ((hR j).1 hj).1) e he).2.2 (.slot j2) (hmemH j2 ((hR j2).1 hj2).1) he2
        · exact absurd c (P2.att.extfresh l2 hnew2 e he2)
      · obtain ⟨a, b, c⟩ := P2.att.ext l' hnew e he
        refine ⟨a, b, ?_⟩
        intro l2 hl2 he2
        rcases hclass l2 hl2 with e2 | ⟨j2, hj2, hjv2, e2⟩ | hnew2
        · subst e2; rw [hgetl] at he2; cases he2
        · subst e2
          rw [hget_old j2 hj2 hjv2] at he2
          exact absurd (hold_ext j2 hj2 hjv2 e he2).2.2 (P2.att.extfresh l' hnew e he)
        · exact c l2 hnew2 he2
    · intro l' hl' e he
      rcases hclass l' hl' with e' | ⟨j, hj, hjv, e'⟩ | hnew
      · subst e'; rw [hgetl] at he; cases he
      · subst e'
        rw [hget_old j hj hjv] at he
        exact P.att.extfresh (.slot j) (hmemH j ((hR j).1 hj).1) e he
      · intro h0
        exact P2.att.extfresh l' hnew e he ((hliveC e).2 ⟨P.fr.live e h0, fun m => hfp0 e m h0⟩)

end JDD
