/- Simulation of the slot-level deserializer `JDD` by the abstract one `JD`, part 2: the document steps (leaves, one array
   element, one new object member) as steps of the local specification `Pre`/`Post` of AJ/Lemmas/DocCopy.lean. -/
import AJ.Lemmas.JddSimBase
namespace JDD
open DL
open JD (Byte Val Cfg Code St)

/-! ## Leaves -/

/-- a value without resources stored on the cleared place -/
theorem sim_post_plain {d d1 : Doc} {l : Loc} {v' : VData} (P : Pre d l) (hf : Fr d d1 []) (hc : ¬ isColl v')
    (he : extOfV v' = []) (hs : strOfV v' = []) :
    Post d (d1.set l v') l v' .nil ∧ (d1.set l v').valOf v' .nil = d1.scalar v' := by
  refine ⟨post_set P hf ((VOK_scalar hc _).2 rfl) (fun rs h => by rw [hs]; exact hf.strok rs h)
    (by rw [he]; intro e h; cases h), ?_⟩
  rw [Doc.valOf, mkVal_scalar hc, scalar_set_self (by rw [he]; intro e h; cases h)]

/-- `variant.toArray()` / `variant.toObject()` on the cleared place -/
theorem sim_post_coll {d : Doc} {l : Loc} (b : Bool) (P : Pre d l) :
    Post d (d.set l (coll b d.null d.null)) l (coll b d.null d.null) .nil ∧
    vals (d.set l (coll b d.null d.null)) noOv .nil = [] := by
  refine ⟨post_set P (Fr.refl P.pool []) ?_ (fun rs h => by rw [strOfV_coll]; exact h)
    (by rw [extOfV_coll]; intro e h; cases h), rfl⟩
  rw [VOK_coll]
  exact ⟨(Lk_nil _ _ _).2 rfl, rfl⟩

/-- the saved string node stored on the cleared place -/
theorem sim_post_owned {d d1 : Doc} {l : Loc} {node : Nat} {bytes : List Byte} (P : Pre d l) (hf : Fr d d1 [])
    (hb : d1.strBytes node = bytes) (hstr : ∀ rs, StrOK d rs → StrOK d1 (node :: rs)) :
    Post d (d1.set l (.owned node)) l (.owned node) .nil ∧ (d1.set l (.owned node)).valOf (.owned node) .nil = .str bytes := by
  refine ⟨post_set P hf ((VOK_scalar (v := .owned node) (fun h => h) _).2 rfl) (fun rs h => hstr rs h)
    (by intro e h; cases h), ?_⟩
  show Val.str ((d1.set l (.owned node)).strBytes node) = _
  rw [strBytes_set, hb]

/-! ## Numbers -/

theorem sim_allocExt_ov (d : Doc) (p : Int) :
    ((d.allocExt p).1 = none → (d.allocExt p).2.overflowed = true) ∧
    (∀ e, (d.allocExt p).1 = some e → (d.allocExt p).2.overflowed = d.overflowed) := by
  unfold Doc.allocExt
  split
  · exact ⟨fun h => (by cases h), fun _ _ => rfl⟩
  · exact ⟨fun _ => rfl, fun e h => (by cases h)⟩

/-- the success flag of `setArg` on a number is the negation of "an allocation failed" -/
theorem sim_setArg_num {d : Doc} (l : Loc) {a : Arg} (h0 : d.overflowed = false)
    (ha : (∃ n, a = .uint n) ∨ (∃ n, a = .sint n) ∨ (∃ b, a = .f32 b) ∨ (∃ b, a = .f64 b)) :
    ((d.setArg l a).2.overflowed = false → (d.setArg l a).1 = true) ∧
    ((d.setArg l a).2.overflowed = true → (d.setArg l a).1 = false) := by
  have ext : ∀ (p : Int) (k : Nat → VData),
      (((match d.allocExt p with | (some s, d) => (true, d.set l (k s)) | (none, d) => (false, d)) : Bool × Doc).2.overflowed = false →
        ((match d.allocExt p with | (some s, d) => (true, d.set l (k s)) | (none, d) => (false, d)) : Bool × Doc).1 = true) ∧
      (((match d.allocExt p with | (some s, d) => (true, d.set l (k s)) | (none, d) => (false, d)) : Bool × Doc).2.overflowed = true →
        ((match d.allocExt p with | (some s, d) => (true, d.set l (k s)) | (none, d) => (false, d)) : Bool × Doc).1 = false) := by
    intro p k
    obtain ⟨h1, h2⟩ := sim_allocExt_ov d p
    generalize d.allocExt p = r at h1 h2
    obtain ⟨m, d1⟩ := r
    cases m with
    | none => exact ⟨fun h => (by rw [h1 rfl] at h; cases h), fun _ => rfl⟩
    | some e =>
      refine ⟨fun _ => rfl, fun h => ?_⟩
      simp only [set_overflowed] at h
      rw [h2 e rfl, h0] at h; cases h
  rcases ha with ⟨n, rfl⟩ | ⟨n, rfl⟩ | ⟨b, rfl⟩ | ⟨b, rfl⟩
  · simp only [Doc.setArg]
    split
    · exact ⟨fun _ => rfl, fun h => by rw [set_overflowed, h0] at h; cases h⟩
    · exact ext n .u64
  · simp only [Doc.setArg]
    split
    · exact ⟨fun _ => rfl, fun h => by rw [set_overflowed, h0] at h; cases h⟩
    · exact ext n .i64
  · refine ⟨fun _ => rfl, fun h => ?_⟩
    have h' : (d.set l (.f32 b)).overflowed = true := h
    rw [set_overflowed, h0] at h'; cases h'
  · simp only [Doc.setArg]
    split
    · exact ⟨fun _ => rfl, fun h => by rw [set_overflowed, h0] at h; cases h⟩
    · exact ext b .f64

theorem sim_normF64 (b : Nat) : normF64 b = .num (JD.storeDouble b) := by
  unfold normF64
  have : (∃ f, JD.storeDouble b = .f32 f) ∨ JD.storeDouble b = .f64 b := by
    unfold JD.storeDouble
    simp only
    split
    · exact Or.inr rfl
    · split
      · exact Or.inl ⟨_, rfl⟩
      · split
        · exact Or.inl ⟨_, rfl⟩
        · exact Or.inr rfl
  rcases this with ⟨f, e⟩ | e
  · rw [e]
  · rw [e]


/-! ## One array element: the slot is appended first, then filled -/

theorem sim_addElement_some {d d1 : Doc} {l : Loc} {id : Nat} (h : d.addElement l = (some id, d1)) :
    ∃ da, d.allocVariant = (some id, da) ∧ d1 = da.appendOne l id := by
  unfold Doc.addElement at h
  generalize d.allocVariant = r at h
  obtain ⟨m, da⟩ := r
  cases m with
  | none => simp only [Prod.mk.injEq] at h; exact absurd h.1 (by simp)
  | some id' =>
    simp only [Prod.mk.injEq, Option.some.injEq] at h
    obtain ⟨rfl, rfl⟩ := h
    exact ⟨da, rfl, rfl⟩

theorem sim_addElement_none {d d1 : Doc} {l : Loc} (h : d.addElement l = (none, d1)) : d.allocVariant = (none, d1) := by
  unfold Doc.addElement at h
  generalize d.allocVariant = r at h
  obtain ⟨m, da⟩ := r
  cases m with
  | none => simp only [Prod.mk.injEq, true_and] at h; rw [h]
  | some id' => simp only [Prod.mk.injEq] at h; exact absurd h.1 (by simp)

/-- `array.addElement()` handed out the slot `id`, linked behind the tail of the array being built at `l`: the slot is a
    cleared place, and whatever is then built in it (`Post d1 d2 (.slot id) ve se`) is the new last element. -/
theorem sim_arr_step {d0 d d1 : Doc} {l : Loc} {id h t : Nat} {sl : Forest}
    (P0 : Pre d0 l) (P : Post d0 d l (.arr h t) sl) (hadd : d.addElement l = (some id, d1)) :
    Pre d1 (.slot id) ∧ d1.overflowed = d.overflowed ∧
    ∀ (d2 : Doc) (ve : VData) (se : Forest), Post d1 d2 (.slot id) ve se →
      Post d0 d2 l (.arr (if t ≠ d.null then h else id) id) (sl.snocS none id se) ∧
      vals d2 noOv (sl.snocS none id se) = vals d noOv sl ++ [([], d2.valOf ve se)] := by
  obtain ⟨da, hal, rfl⟩ := sim_addElement_some hadd
  have gokd : PL.GeoOK d.g := by rw [P.fr.g]; exact P0.gok
  obtain ⟨rs0, hrs0⟩ := P0.str
  have hsd := P.att.str rs0 hrs0
  obtain ⟨hg, hov, hcid, hco, hnl, hlt, hlv⟩ := allocVariant_some gokd P.fr.pool hal
  have hna : da.null = d.null := by simp only [Doc.null, hg.g]
  have hlida : PL.live da.g da.pl id := (hlv id).2 (Or.inr rfl)
  have Fda : Fr d da [] := Fr.of_grow hg (fun h => by rw [hov]; exact h) []
  obtain ⟨Pda, _⟩ := P.frame P0 Fda
  obtain ⟨htf, htl, _, htne⟩ := Post.tail (b := false) P0 P
  obtain ⟨htfa, _, _, _⟩ := Post.tail (b := false) P0 Pda
  have hll : ∀ i, l = .slot i → PL.live d.g d.pl i := fun i e => P.fr.live i (P0.slot i e).1
  have hlid : Loc.slot id ≠ l := fun e => hnl (hll id e.symm)
  have hidt : t ≠ d.null → id ≠ t := fun htn e' => hnl (e' ▸ (htf htn).2.2)
  obtain ⟨hn3, hstr3, hpl3, hg3, hget3, hco3, hct3, hroot3, hci3⟩ := appendOne_cells (id := id) Pda.att.get htl
  have F13 : Fr da (da.appendOne l id) [l, .slot t] := appendOne_fr Pda.fr.pool Pda.att.get htl
  have hov3 : (da.appendOne l id).overflowed = da.overflowed := appendOne_ov_eq Pda.att.get
  generalize da.appendOne l id = d1 at *
  have hcid1 : d1.cell id = .var .null d.null := by
    rw [hco3 id hlid (fun htn => hidt (by rw [← hna]; exact htn))]; exact hcid
  have hlid1 : PL.live d1.g d1.pl id := F13.live id hlida
  have hs1 : ∀ rs, StrOK d rs → StrOK d1 rs := fun rs hs => F13.strok rs (Fda.strok rs hs)
  have pre1 : Pre d1 (.slot id) :=
    ⟨by rw [hg3, hg.g]; exact gokd, F13.pool, get_of_var hcid1,
      fun i e => by cases e; exact ⟨hlid1, isVar_of_var hcid1⟩, ⟨_, hs1 _ hsd⟩⟩
  refine ⟨pre1, by rw [hov3, hov], ?_⟩
  intro d2 ve se P2
  have hn1 : d1.null = d.null := by rw [hn3, hna]
  have hn2 : d2.null = d.null := by rw [P2.fr.null, hn1]
  have hlive1 : ∀ x, PL.live d.g d.pl x → PL.live d1.g d1.pl x := fun x hx => F13.live x (Fda.live x hx)
  have hc2 : ∀ x, PL.live d1.g d1.pl x → x ≠ id → d2.cell x = d1.cell x := fun x hx hxv =>
    P2.fr.cells x hx (by simp only [List.mem_singleton, Loc.slot.injEq]; exact hxv)
  have hcid2 : d2.cell id = .var ve d.null := by rw [P2.att.slot id rfl, nextOf_of_var hcid1]
  have Fd1 : Fr d d1 [l, .slot t] := Fr.trans (Fda.mono (fun _ h => by cases h)) F13 (fun l' hl' => Or.inl hl')
  have Fd2 : Fr d d2 [l, .slot t] := Fr.trans Fd1 P2.fr
    (fun l' hl' => Or.inr ⟨id, List.mem_singleton.1 hl', hnl⟩)
  have hsn := post_snoc (d0 := d0) (d := d) (d3 := d2) (b := false) (key := none) (id := id) (se := se) P0 P Fd2
    (fun htn => by
      have htna : t ≠ da.null := by rw [hna]; exact htn
      rw [hc2 t (hlive1 t (htf htn).2.2) (Ne.symm (hidt htn)), hct3 htna (htfa htna).2.1,
        get_of_cell (Fda.cells t (htf htn).2.2 (by simp))]; rfl)
    (by
      have : d2.get l = d1.get l := by
        cases l with
        | root => exact P2.fr.root (by simp)
        | slot i => exact get_of_cell (hc2 i (hlive1 i (hll i rfl)) (fun e => hlid (by rw [e])))
      rw [this, hget3, hna]; rfl)
    (fun i e => by
      rw [hc2 i (hlive1 i (hll i e)) (fun e' => hlid (by rw [← e', e])), hci3 i e, hna,
        nextOf_of_cell (Fda.cells i (hll i e) (by simp)) hna]; rfl)
    ((Lk_cons _ _ _ _ _ _ _).2 ⟨rfl, by rw [hn2]; exact Nat.ne_of_lt hlt, isVar_of_var hcid2,
      by rw [nextOf_of_var hcid2, Lk_nil, hn2], by rw [get_of_var hcid2]; exact P2.att.vok⟩)
    (List.nodup_cons.2 ⟨fun m => (P2.att.fresh id m).1 hlid1, P2.att.nodup⟩)
    (fun x hx => by
      rcases List.mem_cons.1 hx with e' | m
      · subst e'; exact ⟨hnl, P2.fr.live _ hlid1⟩
      · exact ⟨fun h0 => (P2.att.fresh x m).1 (hlive1 x h0), (P2.att.fresh x m).2⟩)
    P2.att.ext
    (fun x hx e he h0 => P2.att.extfresh (.slot x) (List.mem_map_of_mem hx) e he (hlive1 e h0))
    (fun rs hs => by
      have := P2.att.str rs (hs1 rs hs)
      have e1 : (Forest.keyL none ++ id :: se.ids).flatMap (fun j => strOfV (d2.get (.slot j))) =
          strOfV ve ++ goneF d2 se := by
        simp only [Forest.keyL, List.nil_append, List.flatMap_cons, P2.att.get, goneF]
      rw [e1]; exact this)
  obtain ⟨Pn, hvals⟩ := hsn
  refine ⟨Pn, ?_⟩
  rw [hvals]
  simp only [keyB, get_of_var hcid2, Doc.valOf]


/-! ## One new object member: key saved, two slots, pair linked, then the value is filled -/

theorem sim_addMemberNode_none {d d' : Doc} {l : Loc} {node : Nat} (gok : PL.GeoOK d.g) (hp : PL.Inv d.g d.pl)
    (h : addMemberNode d l node = (none, d')) : d'.overflowed = true := by
  unfold addMemberNode at h
  generalize hal1 : d.allocVariant = r1 at h
  obtain ⟨m1, d1⟩ := r1
  cases m1 with
  | none =>
    simp only [Prod.mk.injEq, true_and] at h; subst h
    exact (allocVariant_none gok hp hal1).2.1
  | some k =>
    obtain ⟨hg1, _, _, _, _, _, _⟩ := allocVariant_some gok hp hal1
    have gok1 : PL.GeoOK d1.g := by rw [hg1.g]; exact gok
    simp only at h
    generalize hal2 : d1.allocVariant = r2 at h
    obtain ⟨m2, d2⟩ := r2
    cases m2 with
    | none =>
      simp only [Prod.mk.injEq, true_and] at h; subst h
      exact (allocVariant_none gok1 hg1.pool hal2).2.1
    | some v => simp only [Prod.mk.injEq] at h; exact absurd h.1 (by simp)

/-- `addMember(StringNode*)` that succeeds: two fresh slots `k` (holding the saved node) and `v` (holding null) were
    obtained and `appendPair` links them; `dK` is the document just before the linking -/
theorem sim_addMemberNode_some {d d' : Doc} {l : Loc} {node v : Nat} (gok : PL.GeoOK d.g)
    (hp : PL.Inv d.g d.pl) (h : addMemberNode d l node = (some v, d')) :
    ∃ (k : Nat) (dK : Doc) (nk : Nat), d' = dK.appendPair l k v ∧ Fr d dK [] ∧
      dK.overflowed = d.overflowed ∧ dK.cell k = .var (.owned node) nk ∧ dK.cell v = .var .null d.null ∧
      k ≠ v ∧ ¬ PL.live d.g d.pl k ∧ ¬ PL.live d.g d.pl v ∧ PL.live dK.g dK.pl k ∧
      PL.live dK.g dK.pl v ∧ dK.strings = d.strings ∧ dK.nextNode = d.nextNode := by
  unfold addMemberNode at h
  generalize hal1 : d.allocVariant = r1 at h
  obtain ⟨m1, d1⟩ := r1
  cases m1 with
  | none => simp only [Prod.mk.injEq] at h; exact absurd h.1 (by simp)
  | some k =>
    obtain ⟨hg1, hov1, hck, hco1, hnk, hklt, hlv1⟩ := allocVariant_some gok hp hal1
    have gok1 : PL.GeoOK d1.g := by rw [hg1.g]; exact gok
    have hn1 : d1.null = d.null := by simp only [Doc.null, hg1.g]
    simp only at h
    generalize hal2 : d1.allocVariant = r2 at h
    obtain ⟨m2, d2⟩ := r2
    cases m2 with
    | none => simp only [Prod.mk.injEq] at h; exact absurd h.1 (by simp)
    | some v' =>
      obtain ⟨hg2, hov2, hcv, hco2, hnv, hvlt, hlv2⟩ := allocVariant_some gok1 hg1.pool hal2
      have hk1 : PL.live d1.g d1.pl k := (hlv1 k).2 (Or.inr rfl)
      have hkv : k ≠ v' := fun e => hnv (e ▸ hk1)
      have hk2 : PL.live d2.g d2.pl k := (hlv2 k).2 (Or.inl hk1)
      have hv2 : PL.live d2.g d2.pl v' := (hlv2 v').2 (Or.inr rfl)
      have hnv0 : ¬ PL.live d.g d.pl v' := fun hh => hnv ((hlv1 v').2 (Or.inl hh))
      have F2 : Fr d d2 [] := Fr.trans (Fr.of_grow hg1 (fun h => by rw [hov1]; exact h) [])
        (Fr.of_grow hg2 (fun h => by rw [hov2]; exact h) []) (fun _ h => by cases h)
      simp only [Prod.mk.injEq, Option.some.injEq] at h
      obtain ⟨rfl, rfl⟩ := h
      refine ⟨k, d2.set (.slot k) (.owned node), d2.nextOf k, rfl,
        Fr.trans F2 (set_fr hg2.pool _ _) (fun l' hl' => Or.inr ⟨k, List.mem_singleton.1 hl', hnk⟩),
        by rw [set_overflowed, hov2, hov1], by rw [cell_set_slot, if_pos rfl],
        by rw [cell_set_slot, if_neg hkv, hcv, hn1], hkv, hnk, hnv0,
        by rw [set_pl, set_g]; exact hk2, by rw [set_pl, set_g]; exact hv2,
        by rw [set_strings, hg2.strings, hg1.strings], by rw [set_nextNode, hg2.nextNode, hg1.nextNode]⟩

/-- The key was saved (`dS`), `addMember(node)` handed out the key slot and the value slot `v` and linked the pair behind
    the tail of the object being built at `l`: the value slot is a cleared place, and whatever is then built in it is the
    value of the new last member. -/
theorem sim_obj_add {d0 d dS d1 : Doc} {l : Loc} {h t v node : Nat} {sl : Forest} {key : List Byte}
    (P0 : Pre d0 l) (P : Post d0 d l (.obj h t) sl)
    (FS : Fr d dS []) (hbS : dS.strBytes node = key) (hstS : ∀ rs, StrOK d rs → StrOK dS (node :: rs))
    (hovS : dS.overflowed = d.overflowed) (hadd : addMemberNode dS l node = (some v, d1)) :
    ∃ k, Pre d1 (.slot v) ∧ d1.overflowed = d.overflowed ∧
    ∀ (d2 : Doc) (ve : VData) (se : Forest), Post d1 d2 (.slot v) ve se →
      Post d0 d2 l (.obj (if t ≠ d.null then h else k) v) (sl.snocS (some k) v se) ∧
      vals d2 noOv (sl.snocS (some k) v se) = vals d noOv sl ++ [(key, d2.valOf ve se)] := by
  have gokd : PL.GeoOK d.g := by rw [P.fr.g]; exact P0.gok
  obtain ⟨rs0, hrs0⟩ := P0.str
  have hsd := P.att.str rs0 hrs0
  obtain ⟨k, dK, nk, hd', FSK, hovK', hck, hcv, hkv, hnkS, hnvS, hlk', hlv', hstrK, hnnK⟩ :=
    sim_addMemberNode_some (by rw [FS.g]; exact gokd) FS.pool hadd
  subst hd'
  have FK : Fr d dK [] := Fr.trans FS FSK (fun _ h => by cases h)
  have hovK : dK.overflowed = d.overflowed := by rw [hovK', hovS]
  have hnk : ¬ PL.live d.g d.pl k := fun h0 => hnkS (FS.live k h0)
  have hnv : ¬ PL.live d.g d.pl v := fun h0 => hnvS (FS.live v h0)
  have hcv : dK.cell v = .var .null d.null := by rw [hcv, FS.null]
  have hkey : isKey (VData.owned node) := trivial
  have hstK : ∀ rs, StrOK d rs → StrOK dK (strOfV (VData.owned node) ++ rs) := fun rs hs =>
    StrOK_congr hstrK hnnK (hstS rs hs)
  have hkb : keyOfV dK (.owned node) = key := by
    show dK.strBytes node = key
    rw [strBytes_of_strings hstrK]; exact hbS
  obtain ⟨PK, hvK⟩ := P.frame P0 FK
  obtain ⟨htf, _, _, _⟩ := Post.tail (b := true) P0 P
  obtain ⟨htfK, htl, _, htneK⟩ := Post.tail (b := true) P0 PK
  have hnK : dK.null = d.null := FK.null
  have hll : ∀ i, l = .slot i → PL.live d.g d.pl i := fun i e => P.fr.live i (P0.slot i e).1
  have hkl : Loc.slot k ≠ l := fun e => hnk (hll k e.symm)
  have hvl : Loc.slot v ≠ l := fun e => hnv (hll v e.symm)
  have hnotsl : ∀ x, ¬ PL.live d.g d.pl x → x ∉ sl.ids := fun x hx m => hx (P.att.fresh x m).2
  have hkt : k ≠ t := htneK k hlk' (fun h0 => hnk (P.fr.live k h0)) (hnotsl k hnk)
  have hvt : v ≠ t := htneK v hlv' (fun h0 => hnv (P.fr.live v h0)) (hnotsl v hnv)
  obtain ⟨hn', hstr', hpl', hg', hnn', hov', hget', hck', hco', hct', hroot', hci'⟩ :=
    appendPair_cellsC (v := v) PK.att.get hck hkl htl hkt (fun htn => (htfK htn).2.1)
  have FKp : Fr dK (dK.appendPair l k v) [l, .slot t, .slot k] := by
    refine fr_of_same PK.fr.pool hg' hpl' hstr' hnn' hov' (fun hr => hroot' (fun e => hr (by simp [e]))) ?_
    intro x hx
    simp only [List.mem_cons, List.not_mem_nil, or_false, Loc.slot.injEq, not_or] at hx
    exact hco' x hx.1 hx.2.2 (fun _ => hx.2.1)
  generalize dK.appendPair l k v = d1 at *
  -- the member's value slot is a cleared place of `d1`
  have hcv1 : d1.cell v = .var .null d.null := by rw [hco' v hvl (Ne.symm hkv) (fun _ => hvt)]; exact hcv
  have hlv1 : PL.live d1.g d1.pl v := FKp.live v hlv'
  have pre1 : Pre d1 (.slot v) :=
    ⟨by rw [hg', FK.g]; exact gokd, FKp.pool, get_of_var hcv1,
      fun i e => by cases e; exact ⟨hlv1, isVar_of_var hcv1⟩, ⟨_, FKp.strok _ (FK.strok _ hsd)⟩⟩
  refine ⟨k, pre1, by rw [hov', hovK], ?_⟩
  intro d2 ve se P2
  have hn2 : d2.null = d.null := by rw [P2.fr.null, hn', hnK]
  have hlive1 : ∀ x, PL.live d.g d.pl x → PL.live d1.g d1.pl x := fun x hx => FKp.live x (FK.live x hx)
  have hc2 : ∀ x, PL.live d1.g d1.pl x → x ≠ v → d2.cell x = d1.cell x := fun x hx hxv =>
    P2.fr.cells x hx (by simp only [List.mem_singleton, Loc.slot.injEq]; exact hxv)
  have hlk1 : PL.live d1.g d1.pl k := FKp.live k hlk'
  have hck2 : d2.cell k = .var (.owned node) v := by rw [hc2 k hlk1 hkv]; exact hck'
  have hcv2 : d2.cell v = .var ve d.null := by rw [P2.att.slot v rfl, nextOf_of_var hcv1]
  have Fd1 : Fr d d1 [l, .slot t] := Fr.trans (FK.mono (fun _ h => by cases h)) FKp (fun l' hl' => by
    simp only [List.mem_cons, List.not_mem_nil, or_false] at hl'
    rcases hl' with e | e | e
    · exact Or.inl (by simp [e])
    · exact Or.inl (by simp [e])
    · exact Or.inr ⟨k, e, hnk⟩)
  have Fd2 : Fr d d2 [l, .slot t] := Fr.trans Fd1 P2.fr
    (fun l' hl' => Or.inr ⟨v, List.mem_singleton.1 hl', hnv⟩)
  have hsn := post_snoc (d0 := d0) (d := d) (d3 := d2) (b := true) (key := some k) (id := v) (se := se) P0 P Fd2
    (fun htn => by
      have htn' : t ≠ dK.null := by rw [hnK]; exact htn
      have htv : t ≠ v := Ne.symm hvt
      rw [hc2 t (hlive1 t (htf htn).2.2) htv, hct' htn', get_of_cell (FK.cells t (htf htn).2.2 (by simp))]; rfl)
    (by
      have : d2.get l = d1.get l := by
        cases l with
        | root => exact P2.fr.root (by simp)
        | slot i => exact get_of_cell (hc2 i (hlive1 i (hll i rfl)) (fun e => hvl (by rw [e])))
      rw [this, hget', hnK]; rfl)
    (fun i e => by
      rw [hc2 i (hlive1 i (hll i e)) (fun e' => hvl (by rw [← e', e])), hci' i e, hnK,
        nextOf_of_cell (FK.cells i (hll i e) (by simp)) hnK]; rfl)
    ((Lk_cons _ _ _ _ _ _ _).2 ⟨⟨rfl, by rw [hn2]; exact Nat.ne_of_lt (hnK ▸ live_lt_null PK.fr.pool hlk'),
        isVar_of_var hck2, by rw [get_of_var hck2]; exact hkey, nextOf_of_var hck2⟩,
      by rw [hn2]; exact Nat.ne_of_lt (hnK ▸ live_lt_null PK.fr.pool hlv'), isVar_of_var hcv2,
      by rw [nextOf_of_var hcv2, Lk_nil, hn2], by rw [get_of_var hcv2]; exact P2.att.vok⟩)
    (by
      show (k :: v :: se.ids).Nodup
      refine List.nodup_cons.2 ⟨?_, List.nodup_cons.2 ⟨fun m => (P2.att.fresh v m).1 hlv1, P2.att.nodup⟩⟩
      intro m
      rcases List.mem_cons.1 m with e | m
      · exact hkv e
      · exact (P2.att.fresh k m).1 hlk1)
    (fun x hx => by
      have hx' : x = k ∨ x = v ∨ x ∈ se.ids := by simpa [Forest.keyL] using hx
      rcases hx' with e | e | m
      · subst e; exact ⟨hnk, P2.fr.live _ hlk1⟩
      · subst e; exact ⟨hnv, P2.fr.live _ hlv1⟩
      · exact ⟨fun h0 => (P2.att.fresh x m).1 (hlive1 x h0), (P2.att.fresh x m).2⟩)
    (by
      show ExtL d2 (Loc.slot k :: Loc.slot v :: se.ids.map Loc.slot)
      exact P2.att.ext.cons_noext (by rw [get_of_var hck2]; exact isKey_ext hkey))
    (fun x hx e he => by
      have hx' : x = k ∨ x = v ∨ x ∈ se.ids := by simpa [Forest.keyL] using hx
      rcases hx' with e' | hx'
      · subst e'; rw [get_of_var hck2, isKey_ext hkey] at he; cases he
      · refine fun h0 => P2.att.extfresh (.slot x) ?_ e he (hlive1 e h0)
        rcases hx' with e' | m
        · subst e'; exact List.mem_cons_self
        · exact List.mem_cons_of_mem _ (List.mem_map_of_mem m))
    (fun rs hs => by
      have h1 := P2.att.str _ (FKp.strok _ (hstK rs hs))
      have e1 : (Forest.keyL (some k) ++ v :: se.ids).flatMap (fun j => strOfV (d2.get (.slot j))) =
          strOfV (VData.owned node) ++ (strOfV ve ++ goneF d2 se) := by
        simp only [Forest.keyL, List.cons_append, List.nil_append, List.flatMap_cons, get_of_var hck2,
          get_of_var hcv2, goneF]
      rw [e1]
      refine StrOK_perm ?_ h1
      rw [List.append_assoc (strOfV (VData.owned node))]
      exact List.perm_append_comm_assoc _ _ _)
  obtain ⟨Pn, hvals⟩ := hsn
  -- the key reads the same
  have hkb2 : keyOfV d2 (.owned node) = key := by
    rw [← hkb]
    refine keyOfV_of_scalar (scalar_congr (fun n hn' => ?_) (by intro e he; cases he))
    rw [P2.fr.bytes (FKp.strok _ (hstK _ hsd)) (List.mem_append_left _ hn'), strBytes_of_strings hstr']
  refine ⟨Pn, ?_⟩
  rw [hvals]
  simp only [keyB, get_of_var hck2, hkb2, get_of_var hcv2, Doc.valOf]

end JDD
