/- Simulation of the slot-level deserializer `JDD` by the abstract one `JD`, part 4: `ObjectData::getMember` on the object
   being built agrees with `JD.setMember` on the abstract member list (first occurrence wins the position). -/
import AJ.Lemmas.JddSimClear
namespace JDD
open DL
open JD (Byte Val Cfg Code St setMember)

theorem sim_setMember_absent (key : List Byte) (X : Val) : ∀ (ms : List (List Byte × Val)),
    key ∉ ms.map (·.1) → setMember ms key X = ms ++ [(key, X)] := by
  intro ms
  induction ms with
  | nil => intro _; rfl
  | cons m ms ih =>
    intro h
    obtain ⟨k', v'⟩ := m
    simp only [List.map_cons, List.mem_cons, not_or] at h
    have hne : (k' == key) = false := by
      simp only [beq_eq_false_iff_ne, ne_eq]; exact fun e => h.1 e.symm
    simp only [setMember, hne, Bool.false_eq_true, if_false, List.cons_append, ih h.2]

/-- `findIn` along the object chain laid out as `F`: no hit means the key is new; a hit `(k, v)` is the FIRST member with
    that key, and overriding the value read in slot `v` is `JD.setMember` on the abstract members -/
theorem sim_findIn {d : Doc} (key : List Byte) : ∀ (F : Forest) {h : Nat}, Lk d true h F → F.ids.Nodup →
    (d.findIn key F.top = none → key ∉ (vals d noOv F).map (·.1)) ∧
    (∀ k v, d.findIn key F.top = some (k, v) → v ∈ F.locs ∧
      ∀ X, vals d (ov1 v X) F = setMember (vals d noOv F) key X) := by
  intro F
  induction F with
  | nil =>
    intro h _ _
    exact ⟨fun _ m => (by cases m), fun k v hf => (by cases hf)⟩
  | cons ko i s r _ ihr =>
    intro h hl hnd
    rw [Lk_cons] at hl
    obtain ⟨h1, _, _, h4, h5⟩ := hl
    obtain ⟨nds, ndr, njs, njr, nsr, nk⟩ := Forest.nodup_cons hnd
    cases ko <;> simp only [KeyOK] at h1
    rename_i k
    obtain ⟨_, _, _, hk, _⟩ := h1
    obtain ⟨ih1, ih2⟩ := ihr h4 ndr
    have htop : (Forest.cons (some k) i s r).top = k :: i :: r.top := rfl
    have hkb := keyBytes_of_isKey hk
    by_cases hkey : keyOfV d (d.get (.slot k)) = key
    · have hfi : d.findIn key (k :: i :: r.top) = some (k, i) := by
        simp only [Doc.findIn, hkb, hkey, if_true]
      rw [htop, hfi]
      refine ⟨fun hf => (by cases hf), ?_⟩
      intro k' v' hf
      simp only [Option.some.injEq, Prod.mk.injEq] at hf
      obtain ⟨rfl, rfl⟩ := hf
      refine ⟨by simp [Forest.locs], fun X => ?_⟩
      have hb : (keyOfV d (d.get (.slot k)) == key) = true := by simp [hkey]
      simp only [vals, keyB, setMember, hb, if_true]
      rw [vals_ov_notin d i X r (fun m => njr (r.locs_sub_ids i m))]
      simp only [ov1, if_true, Option.getD_some]
    · have hfi : d.findIn key (k :: i :: r.top) = d.findIn key r.top := by
        have : ¬ (some (keyOfV d (d.get (.slot k))) = some key) := fun e => hkey (by injection e)
        simp only [Doc.findIn, hkb, this, if_false]
      rw [htop, hfi]
      have hb : (keyOfV d (d.get (.slot k)) == key) = false := by simp [hkey]
      constructor
      · intro hf
        have := ih1 hf
        simp only [vals, List.map_cons, List.mem_cons, not_or, keyB]
        exact ⟨fun e => hkey e.symm, this⟩
      · intro k' v' hf
        obtain ⟨hvr, hset⟩ := ih2 k' v' hf
        refine ⟨by simp [Forest.locs, hvr], fun X => ?_⟩
        have hvi : i ≠ v' := fun e => njr (e ▸ r.locs_sub_ids v' hvr)
        have hvs : v' ∉ s.locs := fun m => nsr v' (s.locs_sub_ids v' m) (r.locs_sub_ids v' hvr)
        simp only [vals, keyB, setMember, hb, Bool.false_eq_true, if_false]
        rw [← hset X, vals_ov_notin d v' X s hvs]
        simp only [ov1, if_neg hvi, Option.getD_none, noOv]

/-- `findKey` on the object being built -/
theorem sim_findKey {d0 d : Doc} {l : Loc} {h t : Nat} {sl : Forest} (P : Post d0 d l (.obj h t) sl) (key : List Byte) :
    (d.findKey l key = none → ∀ X, setMember (vals d noOv sl) key X = vals d noOv sl ++ [(key, X)]) ∧
    (∀ k v, d.findKey l key = some (k, v) → v ∈ sl.locs ∧
      ∀ X, vals d (ov1 v X) sl = setMember (vals d noOv sl) key X) := by
  obtain ⟨hlk, _⟩ := (VOK_obj _ _ _ _).1 P.att.vok
  have hfk : d.findKey l key = d.findIn key sl.top := by
    simp only [Doc.findKey, P.att.get, chain_eq hlk (Nat.le_of_lt P.ids_lt_fuel)]
  obtain ⟨a, b⟩ := sim_findIn key sl hlk P.att.nodup
  rw [hfk]
  exact ⟨fun hf X => sim_setMember_absent key X _ (a hf), b⟩

end JDD
